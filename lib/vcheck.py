"""Common machinery of the /verif checks: regenerate coq/Gen from /repo, build the Coq project,
build correspondence harnesses into the wazero module with `go build -overlay`, evaluate cases
inside Coq, match violations against known_findings.json, write evidence, print the verdict."""
import hashlib, json, os, re, shutil, subprocess, sys, time

ROOT = os.path.dirname(os.path.dirname(os.path.abspath(__file__)))
REPO = os.environ.get("VERIF_REPO", "/repo")
WORK = os.path.join(ROOT, ".work")
COQ = os.path.join(ROOT, "coq")
BIN = os.path.join(WORK, "bin")
GOENV = dict(os.environ, GOFLAGS="-mod=mod", GOPROXY="off", GOSUMDB="off", GOTOOLCHAIN="local",
             GOCACHE=os.environ.get("GOCACHE", os.path.join(WORK, "gocache")), CGO_ENABLED="0")
ALLOWED_AXIOMS = {
    # standard-library axioms that Flocq/Reals-based float theorems may pull in; named in the trusted base
    "ClassicalDedekindReals.sig_forall_dec", "ClassicalDedekindReals.sig_not_dec",
    "FunctionalExtensionality.functional_extensionality_dep",
    "Classical_Prop.classic",
}

for d in (WORK, BIN, os.path.join(WORK, "cases"), os.path.join(WORK, "replay"), os.path.join(ROOT, "evidence")):
    os.makedirs(d, exist_ok=True)


def sh(cmd, timeout=600, cwd=None, env=None, inp=None):
    """run a command, return (rc, stdout+stderr). rc 124 on timeout."""
    try:
        p = subprocess.run(cmd, shell=isinstance(cmd, str), cwd=cwd, env=env or GOENV, input=inp,
                           stdout=subprocess.PIPE, stderr=subprocess.STDOUT, timeout=timeout, text=True, errors="replace")
        return p.returncode, p.stdout
    except subprocess.TimeoutExpired as e:
        out = e.stdout or ""
        if isinstance(out, bytes):
            out = out.decode(errors="replace")
        return 124, out + "\n[timeout after %ss]" % timeout


# ---------------------------------------------------------------------------------------------
# translator

def build_tool(name):
    src = os.path.join(ROOT, "tools", name)
    out = os.path.join(BIN, name)
    rc, o = sh(["go", "build", "-o", out, "."], cwd=src, timeout=300)
    if rc != 0:
        raise RuntimeError("building tool %s failed:\n%s" % (name, o))
    return out


def regen():
    """Regenerate coq/Gen from /repo's working tree. Files are only replaced when their content
    changes so that unchanged sources do not trigger Coq rebuilds. Returns (ok, log)."""
    tool = build_tool("go2coq")
    tmp = os.path.join(WORK, "gen_tmp")
    shutil.rmtree(tmp, ignore_errors=True)
    os.makedirs(tmp)
    rc, out = sh([tool, "-repo", REPO, "-targets", os.path.join(ROOT, "tools", "go2coq", "targets.d"), "-out", tmp],
                 timeout=300)
    gen = os.path.join(COQ, "Gen")
    os.makedirs(gen, exist_ok=True)
    for fn in os.listdir(tmp):
        new = open(os.path.join(tmp, fn)).read()
        dst = os.path.join(gen, fn)
        if not os.path.exists(dst) or open(dst).read() != new:
            open(dst, "w").write(new)
    return rc == 0, out


# ---------------------------------------------------------------------------------------------
# Coq

def coq_makefile():
    files = []
    for sub in sorted(os.listdir(COQ)):
        d = os.path.join(COQ, sub)
        if os.path.isdir(d):
            for fn in sorted(os.listdir(d)):
                if fn.endswith(".v"):
                    files.append(sub + "/" + fn)
    base = open(os.path.join(COQ, "_CoqProject.in")).read()
    new = base + "\n".join(files) + "\n"
    cp = os.path.join(COQ, "_CoqProject")
    if not os.path.exists(cp) or open(cp).read() != new or not os.path.exists(os.path.join(COQ, "Makefile")):
        open(cp, "w").write(new)
        rc, out = sh("coq_makefile -f _CoqProject -o Makefile", cwd=COQ, timeout=60)
        if rc != 0:
            raise RuntimeError("coq_makefile failed:\n" + out)


def coq_make(targets=None, timeout=1500):
    """Full .vo build of the given targets (all when None). Returns (ok, log)."""
    coq_makefile()
    cmd = ["make", "-j16", "-k"]
    if targets:
        cmd += [t if t.endswith(".vo") else t + ".vo" for t in targets]
    rc, out = sh(cmd, cwd=COQ, timeout=timeout)
    return rc == 0, out


def failing_lemma(log):
    """From a coqc error ('File "./X/Y.v", line N, ...') find the enclosing Lemma/Theorem."""
    res = []
    for m in re.finditer(r'File "([^"]+)", line (\d+)', log):
        path, line = m.group(1), int(m.group(2))
        full = path if os.path.isabs(path) else os.path.join(COQ, path)
        name = None
        try:
            lines = open(full).read().split("\n")
            for i in range(min(line, len(lines)) - 1, -1, -1):
                mm = re.match(r"\s*(Lemma|Theorem|Corollary|Example|Definition|Fixpoint|Fact)\s+([A-Za-z0-9_']+)", lines[i])
                if mm:
                    name = mm.group(2)
                    break
        except OSError:
            pass
        res.append({"file": os.path.relpath(full, COQ), "line": line, "lemma": name})
    return res


def check_property_file(pid):
    """Compile Properties/<pid>.v (after its dependencies), parse `Print Assumptions`.
    Returns dict(ok, theorems, axioms, log, failing)."""
    rel = "Properties/%s.v" % pid
    src = open(os.path.join(COQ, rel)).read()
    theorems = re.findall(r"^\s*Theorem\s+([A-Za-z0-9_']+)", src, re.M)
    for bad in ("Admitted", "admit.", "Axiom ", "Parameter ", "Conjecture ", "Unset Guard", "bypass_check"):
        if bad in strip_comments(src):
            return dict(ok=False, theorems=theorems, axioms=[], log="forbidden token %r in %s" % (bad, rel), failing=[])
    # dependencies through make (re-checks proofs that import regenerated files)
    ok, log = coq_make([rel[:-2]])
    if not ok:
        return dict(ok=False, theorems=theorems, axioms=[], log=log, failing=failing_lemma(log))
    rc, out = sh(["coqc", "-Q", ".", "Verif", "-w", "-notation-overridden,-deprecated-hint-without-locality,-deprecated-instance-without-locality", rel], cwd=COQ, timeout=600)
    if rc != 0:
        return dict(ok=False, theorems=theorems, axioms=[], log=out, failing=failing_lemma(out))
    axioms = set()
    closed = out.count("Closed under the global context")
    for blk in re.findall(r"Axioms:\n((?:.+\n?)+?)(?=\n\S|\Z)", out):
        for m in re.finditer(r"^([A-Za-z_][A-Za-z0-9_.']*)\s*:", blk, re.M):
            axioms.add(m.group(1))
    bad = sorted(a for a in axioms if a not in ALLOWED_AXIOMS)
    return dict(ok=not bad, theorems=theorems, axioms=sorted(axioms), log=out if bad else "", failing=[], closed=closed,
                bad_axioms=bad)


def strip_comments(s):
    out, depth, i = [], 0, 0
    while i < len(s):
        if s.startswith("(*", i):
            depth += 1; i += 2
        elif s.startswith("*)", i) and depth:
            depth -= 1; i += 2
        else:
            if depth == 0:
                out.append(s[i])
            i += 1
    return "".join(out)


def forbidden_scan():
    """grep gate over the whole development."""
    bad = []
    pat = re.compile(r"\b(Admitted|admit|Axiom|Axioms|Parameter|Parameters|Conjecture|Hypothesis|Variable)\b|Unset Guard|bypass_check|Admit Obligations")
    for sub in sorted(os.listdir(COQ)):
        d = os.path.join(COQ, sub)
        if not os.path.isdir(d):
            continue
        for fn in sorted(os.listdir(d)):
            if not fn.endswith(".v"):
                continue
            src = strip_comments(open(os.path.join(d, fn)).read())
            # Variables/Hypotheses are allowed inside Sections only
            depth = 0
            for ln in src.split("\n"):
                if re.match(r"\s*Section\b", ln): depth += 1
                if re.match(r"\s*End\b", ln) and depth: depth -= 1
                m = pat.search(ln)
                if m:
                    tok = m.group(0)
                    if tok in ("Variable", "Hypothesis", "Variables") and depth > 0:
                        continue
                    bad.append("%s/%s: %s" % (sub, fn, ln.strip()[:100]))
    return bad


def coq_eval(name, vtext, timeout=900):
    """Compile a generated cases file against the built project; returns (rc, output)."""
    d = os.path.join(WORK, "cases")
    path = os.path.join(d, name + ".v")
    open(path, "w").write(vtext)
    rc, out = sh(["coqc", "-Q", COQ, "Verif", "-Q", d, "Cases", "-w", "-all", path], cwd=d, timeout=timeout)
    for ext in (".vo", ".vok", ".vos", ".glob"):
        try: os.remove(os.path.join(d, name + ext))
        except OSError: pass
    try: os.remove(os.path.join(d, "." + name + ".aux"))
    except OSError: pass
    return rc, out


def jlines(out, prefix="{"):
    """JSON lines printed by a harness. A line cut or interleaved with other output (a dying child, a race-detector
    report on stderr) is skipped rather than crashing the check; callers notice missing cases by their counts."""
    got = []
    for ln in out.split("\n"):
        if not ln.startswith(prefix): continue
        try: got.append(json.loads(ln))
        except ValueError: continue
    return got


def parse_zlist(out, ident):
    """parse `ident = [a; b; ...]` (possibly wrapped over lines, %Z/%N annotations) from Print output."""
    m = re.search(re.escape(ident) + r"\s*=\s*(\[.*?\])\s*:", out, re.S)
    if not m:
        return None
    body = m.group(1).replace("\n", " ")
    return [int(x) for x in re.findall(r"-?\d+", re.sub(r"%[A-Za-z]+", "", body))]


# ---------------------------------------------------------------------------------------------
# harness (compiled into the wazero module through -overlay)

def build_harness(name, tags="verif", race=False):
    """harness/<name>/ holds main.go (package main -> /repo/internal/zz_verif/<name>/) and optional
    overlay.json entries {"<path relative to repo>": "<file relative to harness/<name>>"}."""
    hdir = os.path.join(ROOT, "harness", name)
    repl = {}
    for fn in os.listdir(hdir):
        if fn.endswith(".go") and not fn.startswith("x_"):
            repl[os.path.join(REPO, "internal", "zz_verif", name, fn)] = os.path.join(hdir, fn)
    common = os.path.join(ROOT, "harness", "common")
    if os.path.isdir(common):
        for fn in os.listdir(common):
            if fn.endswith(".go"):
                repl[os.path.join(REPO, "internal", "zz_verif", "common", fn)] = os.path.join(common, fn)
    extra = os.path.join(hdir, "overlay.json")
    if os.path.exists(extra):
        for k, v in json.load(open(extra)).items():
            repl[os.path.join(REPO, k)] = os.path.join(hdir, v)
    ov = os.path.join(WORK, "overlay_%s.json" % name)
    json.dump({"Replace": repl}, open(ov, "w"))
    out = os.path.join(BIN, "h_" + name + ("_race" if race else ""))
    env = dict(GOENV)
    env.pop("GOFLAGS", None)
    cmd = ["go", "build", "-overlay", ov, "-tags", tags, "-o", out]
    if race:
        cmd.insert(2, "-race"); env["CGO_ENABLED"] = "1"
    cmd.append("./internal/zz_verif/" + name)
    rc, o = sh(cmd, cwd=REPO, env=env, timeout=600)
    if rc != 0:
        return None, o
    return out, o


# ---------------------------------------------------------------------------------------------
# verdict

def known_findings():
    p = os.path.join(ROOT, "known_findings.json")
    if not os.path.exists(p):
        return []
    return json.load(open(p)).get("findings", [])


def match_known(pid, viol):
    for f in known_findings():
        if f.get("property") != pid or f.get("status") != "open":
            continue
        sig = viol.get("sig", {})
        if all(sig.get(k) == v for k, v in f.get("match", {}).items()):
            return f
    return None


class Check:
    def __init__(self, pid, tier, seed):
        self.pid, self.tier, self.seed = pid, tier, seed
        self.t0 = time.time()
        self.obligations = 0
        self.discharged = 0
        self.theorems = []
        self.axioms = []
        self.violations = []      # dict(kind, sig, detail, no_input?)
        self.cases = 0
        self.distinct = 0
        self.samples = []
        self.dist = {}
        self.notes = []
        self.trusted = []
        self.assumptions = []
        self.extra = {}

    def note(self, s):
        self.notes.append(s)
        print("[%s] %s" % (self.pid, s), flush=True)

    def violation(self, kind, sig, detail, no_input=False):
        self.violations.append(dict(kind=kind, sig=sig, detail=detail, no_input=no_input))

    def proofs(self):
        """Regenerate, rebuild, check Properties/<pid>.v. Returns True if all proofs check."""
        ok, log = regen()
        if not ok:
            self.note("go2coq: translation failed (tie broken):\n" + log[-2000:])
            self.broken_tie = log
        bad = forbidden_scan()
        if bad:
            self.violation("forbidden-construct", {"kind": "forbidden"}, {"lines": bad}, no_input=True)
            return False
        coq_make()   # whole project, keep-going: helper libraries used only by generated case files must be built too
        r = check_property_file(self.pid)
        self.theorems = r["theorems"]
        self.obligations = len(r["theorems"])
        self.axioms = r["axioms"]
        if r["ok"] and ok:
            self.discharged = self.obligations
            self.note("proofs: %d theorems of Properties/%s.v check; axioms: %s" %
                      (self.obligations, self.pid, ", ".join(self.axioms) or "none (closed under the global context)"))
            return True
        self.proof_failure = dict(failing=r.get("failing"), log=(r.get("log") or "")[-3000:], translator=None if ok else log[-2000:],
                                  bad_axioms=r.get("bad_axioms"))
        self.note("proofs: BROKEN %s" % json.dumps(r.get("failing")))
        return False

    def finish(self, level="proof"):
        wall = time.time() - self.t0
        rc = 0
        lines = []
        for i, v in enumerate(self.violations):
            k = match_known(self.pid, v)
            if k:
                lines.append("KNOWN-FINDING: property=%s %s (%s)" % (self.pid, k["id"], k["what"]))
                continue
            h = hashlib.sha1(json.dumps(v, sort_keys=True, default=str).encode()).hexdigest()[:10]
            path = os.path.join(WORK, "replay", "%s-%s.json" % (self.pid, h))
            json.dump(dict(property=self.pid, tier=self.tier, seed=self.seed, **v), open(path, "w"), indent=1, default=str)
            lines.append("VIOLATION property=%s replay=%s%s" % (self.pid, path, " no-failing-input-found" if v.get("no_input") else ""))
            rc = 1
        seen = set()
        for l in lines:
            if l not in seen:
                print(l, flush=True)
                seen.add(l)
        ev = {
            "property_id": self.pid, "tier": self.tier, "seed": self.seed, "level": level,
            "coverage": {
                "obligations": max(self.obligations, 1), "discharged": self.discharged if self.obligations else 0,
                "checker_cmd": "cd /verif/coq && make -j16 Properties/%s.vo && coqc -Q . Verif Properties/%s.v (full .vo build, Print Assumptions parsed)" % (self.pid, self.pid),
                "trusted_base": ["Coq 8.16.1 kernel (vm_compute used; native_compute not used)",
                                 "axioms reported by Print Assumptions: " + (", ".join(self.axioms) or "none")] + self.trusted,
                "theorems": self.theorems,
                "evaluations": max(self.cases, 1), "distinct_nontrivial": self.distinct,
                "rule": self.extra.pop("rule", "correspondence cases: model (evaluated by vm_compute inside Coq) vs implementation on the same inputs"),
                "samples": self.samples[:8] or ["(no correspondence cases in this run)"],
                "distribution": self.dist,
                **self.extra,
            },
            "assumptions": self.assumptions,
            "wall_s": round(wall, 2),
            "violations": sum(1 for l in seen if l.startswith("VIOLATION")),
            "notes": self.notes[-40:],
        }
        if self.discharged < self.obligations or self.obligations == 0:
            ev["coverage"]["discharged"] = self.discharged
        evdir = os.path.join(ROOT, "evidence")
        if os.path.realpath(REPO) != "/repo":   # runs against a scratch copy (seeded defects, mutations) must not overwrite the evidence
            evdir = os.path.join(WORK, "evidence_scratch"); os.makedirs(evdir, exist_ok=True)
        json.dump(ev, open(os.path.join(evdir, self.pid + ".json"), "w"), indent=1, default=str)
        print("[%s] %s tier=%s seed=%d cases=%d wall=%.1fs" % (self.pid, "FAIL" if rc else "ok", self.tier, self.seed, self.cases, wall), flush=True)
        return rc
