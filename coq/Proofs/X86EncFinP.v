(* Proofs about Engine/X86Enc.v (C02), part 1: how the decoder finds the field boundaries of what the encoder emits (frame
   lemma), the encoder factored into head bytes + displacement, the displacement lemmas, and the finite part (every REX
   setting, reg field, base, index, scale, mod) discharged by computation. The theorems are in Proofs/X86EncP.v. *)
From Coq Require Import ZArith Lia Bool List ZifyBool.
From Verif Require Import Engine.Amode Engine.X86Enc Proofs.AmodeP.
Import ListNotations.
Open Scope Z_scope.
Ltac Zify.zify_post_hook ::= Z.div_mod_to_equations.
Ltac splits := repeat match goal with |- _ /\ _ => split end.

(* ---------------- finite ranges ---------------- *)
Definition zrange (n : nat) : list Z := map Z.of_nat (seq 0 n).
Lemma in_zrange n x : 0 <= x < Z.of_nat n -> In x (zrange n).
Proof.
  intros H. unfold zrange. apply in_map_iff. exists (Z.to_nat x). split; [lia|]. apply in_seq. lia.
Qed.
Definition all16 (f : Z -> bool) : bool := forallb f (zrange 16).
Lemma all16_spec f x : all16 f = true -> 0 <= x < 16 -> f x = true.
Proof. intros H Hx. unfold all16 in H. rewrite forallb_forall in H. apply H, in_zrange. simpl. lia. Qed.
Definition all4 (f : Z -> bool) : bool := forallb f (zrange 4).
Lemma all4_spec f x : all4 f = true -> 0 <= x < 4 -> f x = true.
Proof. intros H Hx. unfold all4 in H. rewrite forallb_forall in H. apply H, in_zrange. simpl. lia. Qed.
Definition allb (f : bool -> bool) : bool := f true && f false.
Lemma allb_spec f b : allb f = true -> f b = true.
Proof. unfold allb. intros H. apply andb_prop in H as [H1 H2]. destruct b; assumption. Qed.

Definition ol {A} (o : option A) : list A := match o with Some x => [x] | None => [] end.
Definition rexo_of (l : list byte) : option byte := match l with [b] => Some b | _ => None end.

(* ---------------- the frame: how the decoder finds the field boundaries ---------------- *)
Definition head_not_legacy (l : list byte) : Prop := match l with b :: _ => is_legacy_prefix b = false | [] => True end.

Lemma take_prefixes_app pb l :
  Forall (fun b => is_legacy_prefix b = true) pb -> head_not_legacy l -> take_prefixes (pb ++ l) = (pb, l).
Proof.
  intros Hp Hl. induction Hp as [| b pb Hb Hp IH]; simpl.
  - destruct l as [| b r]; [reflexivity|]. simpl in Hl. cbn [take_prefixes]. rewrite Hl. reflexivity.
  - rewrite Hb. cbn zeta. rewrite IH. reflexivity.
Qed.

Lemma take_opcode_app ops l : opcode_wf ops = true -> take_opcode (ops ++ l) = Some (ops, l).
Proof.
  unfold opcode_wf. intros H.
  destruct ops as [| b0 r0]; [discriminate|].
  change ((b0 :: r0) ++ l) with (b0 :: (r0 ++ l)).
  unfold take_opcode in *.
  destruct (is_legacy_prefix b0 || is_other_prefix b0 || is_rex b0 || is_vex b0); [discriminate|].
  destruct (b0 =? 15).
  - destruct r0 as [| b1 r1]; [discriminate|].
    change ((b1 :: r1) ++ l) with (b1 :: (r1 ++ l)). cbv iota.
    destruct ((b1 =? 56) || (b1 =? 58)).
    + destruct r1 as [| b2 r2]; [discriminate|]. destruct r2; [reflexivity | discriminate].
    + destruct r1; [reflexivity | discriminate].
  - destruct r0; [reflexivity | discriminate].
Qed.

Lemma opcode_wf_head ops : opcode_wf ops = true ->
  exists b0 t, ops = b0 :: t /\ is_legacy_prefix b0 = false /\ is_rex b0 = false /\ (length ops <= 3)%nat.
Proof.
  unfold opcode_wf, take_opcode. intros H.
  destruct ops as [| b0 r0]; [discriminate|]. exists b0, r0.
  destruct (is_legacy_prefix b0) eqn:E1; [discriminate|]. destruct (is_other_prefix b0); [discriminate|].
  destruct (is_rex b0) eqn:E2; [discriminate|]. destruct (is_vex b0); [discriminate|]. cbn [orb] in H.
  splits; try reflexivity.
  destruct (b0 =? 15).
  - destruct r0 as [| b1 r1]; [discriminate|].
    destruct ((b1 =? 56) || (b1 =? 58)).
    + destruct r1 as [| b2 r2]; [discriminate|]. destruct r2; [simpl; lia | discriminate].
    + destruct r1; [simpl; lia | discriminate].
  - destruct r0; [simpl; lia | discriminate].
Qed.

Lemma take_n_app db rest : take_n (length db) (db ++ rest) = Some db.
Proof. induction db as [| b db IH]; simpl; [reflexivity|]. rewrite IH. reflexivity. Qed.

Lemma rex_not_legacy b : is_rex b = true -> is_legacy_prefix b = false.
Proof. unfold is_rex, is_legacy_prefix. lia. Qed.

Definition rex_ok (o : option byte) : Prop := match o with Some b => is_rex b = true | None => True end.
Definition sib_ok (m : byte) (sib : option byte) : Prop :=
  needs_sib m = match sib with Some _ => true | None => false end.

Lemma parse_frame pb rexo ops m sib db rest :
  Forall (fun b => is_legacy_prefix b = true) pb -> (length pb <= 2)%nat -> rex_ok rexo -> opcode_wf ops = true ->
  sib_ok m sib -> length db = disp_size m sib -> (length db <= 4)%nat ->
  parse (pb ++ ol rexo ++ ops ++ m :: ol sib ++ db ++ rest) =
    Some {| rw_prefixes := pb; rw_rex := rexo; rw_opcode := ops; rw_modrm := m; rw_sib := sib; rw_disp := db |}.
Proof.
  intros Hpb Hlen Hrex Hops Hsib Hdb Hdl.
  destruct (opcode_wf_head ops Hops) as (b0 & t & -> & Hb0 & Hb0r & Hol).
  unfold parse.
  rewrite take_prefixes_app; [| exact Hpb |].
  2:{ destruct rexo as [b|]; simpl; [apply rex_not_legacy; exact Hrex | exact Hb0]. }
  cbn [fst snd].
  assert (Hr : take_rex (ol rexo ++ (b0 :: t) ++ m :: ol sib ++ db ++ rest) = (rexo, (b0 :: t) ++ m :: ol sib ++ db ++ rest)).
  { destruct rexo as [b|]; simpl in *; [rewrite Hrex; reflexivity | rewrite Hb0r; reflexivity]. }
  rewrite Hr. cbn [fst snd].
  rewrite take_opcode_app by exact Hops.
  assert (Hs : take_sib m (ol sib ++ db ++ rest) = Some (sib, db ++ rest)).
  { unfold take_sib. rewrite Hsib. destruct sib; reflexivity. }
  rewrite Hs, <- Hdb, take_n_app.
  replace (raw_len _ <=? 15)%nat with true; [reflexivity|].
  symmetry. apply Nat.leb_le. unfold raw_len. cbn [rw_prefixes rw_rex rw_opcode rw_sib rw_disp].
  destruct rexo, sib; simpl opt_len; lia.
Qed.

Lemma frame_len pb rexo ops m sib db :
  raw_len {| rw_prefixes := pb; rw_rex := rexo; rw_opcode := ops; rw_modrm := m; rw_sib := sib; rw_disp := db |} =
  length (pb ++ ol rexo ++ ops ++ m :: ol sib ++ db).
Proof.
  unfold raw_len. cbn [rw_prefixes rw_rex rw_opcode rw_sib rw_disp].
  rewrite !app_length. cbn [length]. rewrite app_length. destruct rexo, sib; simpl; lia.
Qed.

(* ---------------- the meaning of the fields, without the displacement ---------------- *)
Inductive skel := KReg (n : Z) | KAddr (bs : option Z) (ix : option (Z * Z)) | KRip.
Definition attach (k : skel) (d : Z) : rm_operand :=
  match k with KReg n => OReg n | KAddr b i => OMem (MAddr b i d) | KRip => OMem (MRip d) end.
Definition rexb (o : option byte) : byte := match o with Some b => b | None => 64 end.
Definition skel_of (rexo : option byte) (m : byte) (sib : option byte) : skel :=
  let rex := rexb rexo in
  let X := bit rex 1 in let B := bit rex 0 in
  let md := modrm_mod m in let rm := modrm_rm m in
  if md =? 3 then KReg (B * 8 + rm)
  else match sib with
       | Some s =>
           KAddr (if (sib_base s =? 5) && (md =? 0) then None else Some (B * 8 + sib_base s))
                 (if (sib_index s =? 4) && (X =? 0) then None else Some (X * 8 + sib_index s, sib_scale s))
       | None => if (md =? 0) && (rm =? 5) then KRip else KAddr (Some (B * 8 + rm)) None
       end.
Lemma interp_view r :
  interp r = {| d_prefixes := rw_prefixes r; d_w := Z.testbit (rexb (rw_rex r)) 3; d_opcode := rw_opcode r;
                d_reg := bit (rexb (rw_rex r)) 2 * 8 + modrm_reg (rw_modrm r);
                d_rm := attach (skel_of (rw_rex r) (rw_modrm r) (rw_sib r)) (disp_val (rw_disp r));
                d_len := raw_len r |}.
Proof.
  unfold interp, skel_of, rexb. f_equal.
  destruct (modrm_mod (rw_modrm r) =? 3); [reflexivity|].
  destruct (rw_sib r); [reflexivity|].
  destruct ((modrm_mod (rw_modrm r) =? 0) && (modrm_rm (rw_modrm r) =? 5)); reflexivity.
Qed.

Definition optz_eq_dec (a b : option Z) : bool := optz_eqb a b.
Definition skel_eqb (a b : skel) : bool :=
  match a, b with
  | KReg x, KReg y => x =? y
  | KAddr b1 i1, KAddr b2 i2 =>
      optz_eqb b1 b2 &&
      match i1, i2 with None, None => true | Some (r1, s1), Some (r2, s2) => (r1 =? r2) && (s1 =? s2) | _, _ => false end
  | KRip, KRip => true
  | _, _ => false
  end.
Lemma skel_eqb_eq a b : skel_eqb a b = true -> a = b.
Proof.
  destruct a as [x | b1 i1 |], b as [y | b2 i2 |]; simpl; try discriminate; intros H.
  - f_equal. lia.
  - apply andb_prop in H as [H1 H2].
    assert (b1 = b2) by (destruct b1, b2; simpl in H1; try discriminate; [f_equal; lia | reflexivity]).
    assert (i1 = i2).
    { destruct i1 as [[r1 s1]|], i2 as [[r2 s2]|]; try discriminate; [| reflexivity].
      apply andb_prop in H2 as [Ha Hb]. repeat f_equal; lia. }
    subst. reflexivity.
  - reflexivity.
Qed.

(* everything the decoder needs to know about a (REX, ModRM, SIB) triple, as one closed boolean *)
Definition rex_okb (o : option byte) : bool := match o with Some b => is_rex b | None => true end.
Definition sib_okb (m : byte) (sib : option byte) : bool :=
  Bool.eqb (needs_sib m) (match sib with Some _ => true | None => false end).
Definition chk_common (w : bool) (r : Z) (rexl : list byte) (m : byte) (sib : option byte) (ndb : nat) (k : skel) : bool :=
  let rexo := rexo_of rexl in
  bytes_eqb rexl (ol rexo) && rex_okb rexo && sib_okb m sib && Nat.eqb (disp_size m sib) ndb &&
  Bool.eqb (Z.testbit (rexb rexo) 3) w && (bit (rexb rexo) 2 * 8 + modrm_reg m =? r) && skel_eqb (skel_of rexo m sib) k.

Lemma bytes_eqb_eq a : forall b, bytes_eqb a b = true -> a = b.
Proof.
  induction a as [| x a IH]; intros [| y b]; simpl; try discriminate; [reflexivity|].
  intros H. apply andb_prop in H as [H1 H2]. f_equal; [lia | apply IH; exact H2].
Qed.

Lemma finish w r rexl m sib ndb k pb ops db rest :
  chk_common w r rexl m sib ndb k = true ->
  Forall (fun b => is_legacy_prefix b = true) pb -> (length pb <= 2)%nat -> opcode_wf ops = true ->
  length db = ndb -> (ndb <= 4)%nat ->
  parse (pb ++ rexl ++ ops ++ m :: ol sib ++ db ++ rest) =
    Some {| rw_prefixes := pb; rw_rex := rexo_of rexl; rw_opcode := ops; rw_modrm := m; rw_sib := sib; rw_disp := db |} /\
  decode (pb ++ rexl ++ ops ++ m :: ol sib ++ db ++ rest) =
    Some {| d_prefixes := pb; d_w := w; d_opcode := ops; d_reg := r; d_rm := attach k (disp_val db);
            d_len := length (pb ++ rexl ++ ops ++ m :: ol sib ++ db) |}.
Proof.
  unfold chk_common. intros H Hpb Hlen Hops Hdb Hn.
  apply andb_prop in H as [H Hk]. apply andb_prop in H as [H Hr]. apply andb_prop in H as [H Hw].
  apply andb_prop in H as [H Hnd]. apply andb_prop in H as [H Hsib]. apply andb_prop in H as [Hl Hrex].
  apply bytes_eqb_eq in Hl. apply Nat.eqb_eq in Hnd. apply eqb_prop in Hw. apply skel_eqb_eq in Hk.
  assert (Hp : parse (pb ++ rexl ++ ops ++ m :: ol sib ++ db ++ rest) =
    Some {| rw_prefixes := pb; rw_rex := rexo_of rexl; rw_opcode := ops; rw_modrm := m; rw_sib := sib; rw_disp := db |}).
  { rewrite Hl at 1. apply parse_frame; try assumption.
    - unfold rex_ok. destruct (rexo_of rexl); [exact Hrex | exact I].
    - unfold sib_ok. unfold sib_okb in Hsib. apply eqb_prop in Hsib. exact Hsib.
    - lia.
    - lia. }
  split; [exact Hp|].
  unfold decode. rewrite Hp. rewrite interp_view. cbn [rw_prefixes rw_rex rw_opcode rw_modrm rw_sib rw_disp].
  rewrite frame_len, <- Hl, Hw, Hk. f_equal. f_equal. lia.
Qed.

Lemma reassoc (pb rexl ops : list byte) m sl db rest :
  (pb ++ rexl ++ ops ++ m :: sl ++ db) ++ rest = pb ++ rexl ++ ops ++ m :: sl ++ db ++ rest.
Proof. repeat (rewrite <- app_assoc || rewrite <- app_comm_cons). reflexivity. Qed.

(* ---------------- the encoder, factored: head bytes chosen by the displacement class, then the displacement ---------------- *)
Definition disp_mode (imm bs : Z) : Z :=
  if (imm =? 0) && negb (bs =? 5) && negb (bs =? 13) then 0 else if lower8_will_sign_extend_to32 imm then 1 else 2.
Definition disp_bytes (md imm : Z) : list byte := if md =? 0 then [] else if md =? 1 then [b8 imm] else le32 imm.
Definition nd (md : Z) : nat := if md =? 0 then 0%nat else if md =? 1 then 1%nat else 4%nat.

Definition enc_rex (ri r : Z) (a : xamode) : list byte :=
  match a with
  | XImmReg _ bs => rex_encode ri (reg_rex_bit r) (reg_rex_bit bs)
  | XImmRBP _ => rex_encode ri (reg_rex_bit r) (reg_rex_bit 5)
  | XRegRegShift _ bs ix _ => rex_encode_for_index ri r ix bs
  | XRipRel _ => rex_encode ri (reg_rex_bit r) 0
  end.
Definition enc_md (a : xamode) : Z := match a with XRipRel _ => 0 | _ => disp_mode (xa_imm a) (xa_base a) end.
Definition enc_modrm (r : Z) (a : xamode) : byte :=
  match a with
  | XImmReg _ bs => encode_modrm (enc_md a) (reg_encoding r) (reg_encoding bs)
  | XImmRBP _ => encode_modrm (enc_md a) (reg_encoding r) (reg_encoding 5)
  | XRegRegShift _ _ _ _ => encode_modrm (enc_md a) (reg_encoding r) 4
  | XRipRel _ => encode_modrm 0 (reg_encoding r) 5
  end.
Definition enc_sib (a : xamode) : option byte :=
  match a with
  | XImmReg _ bs => if (bs =? 4) || (bs =? 12) then Some 36 else None
  | XImmRBP _ => None
  | XRegRegShift _ bs ix sh => Some (encode_sib sh (reg_encoding ix) (reg_encoding bs))
  | XRipRel _ => None
  end.
Definition enc_disp (a : xamode) : list byte :=
  match a with XRipRel _ => le32 0 | _ => disp_bytes (enc_md a) (xa_imm a) end.

Lemma enc_imm_reg_split ri ops r imm bs :
  enc_imm_reg ri ops r imm bs =
  rex_encode ri (reg_rex_bit r) (reg_rex_bit bs) ++ ops ++
  encode_modrm (disp_mode imm bs) (reg_encoding r) (reg_encoding bs) ::
  ol (if (bs =? 4) || (bs =? 12) then Some 36 else None) ++ disp_bytes (disp_mode imm bs) imm.
Proof.
  unfold enc_imm_reg, disp_mode, disp_bytes, mod_no_disp, mod_short_disp, mod_long_disp.
  destruct (imm =? 0), (bs =? 5), (bs =? 13), (lower8_will_sign_extend_to32 imm), ((bs =? 4) || (bs =? 12));
    cbn [andb negb Z.eqb ol app]; rewrite ?app_nil_r; reflexivity.
Qed.

Lemma enc_reg_reg_shift_split ri ops r imm bs ix sh :
  enc_reg_reg_shift ri ops r imm bs ix sh =
  rex_encode_for_index ri r ix bs ++ ops ++
  encode_modrm (disp_mode imm bs) (reg_encoding r) 4 ::
  ol (Some (encode_sib sh (reg_encoding ix) (reg_encoding bs))) ++ disp_bytes (disp_mode imm bs) imm.
Proof.
  unfold enc_reg_reg_shift, disp_mode, disp_bytes, mod_no_disp, mod_short_disp, mod_long_disp, use_sib.
  destruct (imm =? 0), (bs =? 5), (bs =? 13), (lower8_will_sign_extend_to32 imm);
    cbn [andb negb Z.eqb ol app]; reflexivity.
Qed.

Lemma encode_mem_split ri p opcodes n r a pb :
  prefix_bytes p = Some pb -> index_not_rsp a ->
  encode_mem ri p opcodes n r a =
  Some (pb ++ enc_rex ri r a ++ opcode_bytes opcodes n ++ enc_modrm r a :: ol (enc_sib a) ++ enc_disp a).
Proof.
  intros Hp Hix. unfold encode_mem. rewrite Hp.
  destruct a as [imm bs | imm | imm bs ix sh | l]; cbn [index_not_rsp] in Hix.
  - rewrite enc_imm_reg_split. reflexivity.
  - rewrite enc_imm_reg_split. reflexivity.
  - replace (ix =? 4) with false by lia. rewrite enc_reg_reg_shift_split. reflexivity.
  - reflexivity.
Qed.

(* ---------------- the displacement ---------------- *)
Lemma lower8_iff x : 0 <= x < W32 -> (lower8_will_sign_extend_to32 x = true <-> -128 <= sext32 x <= 127).
Proof.
  intros Hx. unfold lower8_will_sign_extend_to32.
  rewrite Z.shiftr_div_pow2, Z.shiftl_mul_pow2 by lia.
  change (2 ^ 24) with 16777216.
  unfold sext32, W32 in *. rewrite (Z.mod_small x) by lia.
  destruct (x <? 2147483648) eqn:E1.
  - destruct (x * 16777216 mod 4294967296 <? 2147483648) eqn:E2; lia.
  - destruct ((x - 4294967296) * 16777216 mod 4294967296 <? 2147483648) eqn:E2; lia.
Qed.

Lemma disp8_val imm : 0 <= imm < W32 -> -128 <= sext32 imm <= 127 -> disp_val [b8 imm] = sext32 imm.
Proof.
  intros Hx. unfold disp_val, le_num, sextn, b8. cbn [length].
  change (8 * Z.of_nat 1) with 8. change (2 ^ 8) with 256. change (2 ^ (8 - 1)) with 128.
  unfold sext32, W32 in *. rewrite (Z.mod_small imm 4294967296) by lia.
  destruct (imm <? 2147483648) eqn:E1; intros H;
    destruct ((imm mod 256 + 256 * 0) mod 256 <? 128) eqn:E2; lia.
Qed.

Lemma le32_val v : 0 <= v < W32 -> le_num (le32 v) = v.
Proof.
  intros Hv. unfold le32, le_num, b8. rewrite !Z.shiftr_div_pow2 by lia.
  change (2 ^ 8) with 256. change (2 ^ 16) with 65536. change (2 ^ 24) with 16777216. unfold W32 in Hv. lia.
Qed.

Lemma disp32_val imm : 0 <= imm < W32 -> disp_val (le32 imm) = sext32 imm.
Proof.
  intros Hx. unfold disp_val. change (length (le32 imm)) with 4%nat.
  replace (match le32 imm with [] => 0 | _ :: _ => sextn (8 * Z.of_nat 4) (le_num (le32 imm)) end)
    with (sextn (8 * Z.of_nat 4) (le_num (le32 imm))) by reflexivity.
  rewrite le32_val by exact Hx.
  unfold sextn, sext32, W32. change (8 * Z.of_nat 4) with 32. reflexivity.
Qed.

Lemma disp_ok imm bs : 0 <= imm < W32 ->
  let md := disp_mode imm bs in
  length (disp_bytes md imm) = nd md /\ disp_val (disp_bytes md imm) = sext32 imm /\ 0 <= md <= 2 /\
  ((md =? 0) && ((bs =? 5) || (bs =? 13)) = false).
Proof.
  intros Hx. unfold disp_mode.
  destruct ((imm =? 0) && negb (bs =? 5) && negb (bs =? 13)) eqn:E0.
  - splits; try reflexivity; try lia.
    assert (imm = 0) by lia. subst. reflexivity.
  - destruct (lower8_will_sign_extend_to32 imm) eqn:E1.
    + splits; try reflexivity; try lia. apply disp8_val; [exact Hx | apply lower8_iff; assumption].
    + splits; try reflexivity; try lia. apply disp32_val. exact Hx.
Qed.

(* ---------------- the finite part: every REX setting, reg field, base, index, scale and mod, by computation ---------------- *)
Definition ri_of (w al : bool) : Z := (if w then 1 else 0) + (if al then 2 else 0).
Lemma rex_encode_ri ri r b : rex_encode ri r b = rex_encode (ri_of (Z.testbit ri 0) (Z.testbit ri 1)) r b.
Proof. unfold rex_encode. destruct (Z.testbit ri 0), (Z.testbit ri 1); reflexivity. Qed.
Lemma rex_encode_for_index_ri ri r x b :
  rex_encode_for_index ri r x b = rex_encode_for_index (ri_of (Z.testbit ri 0) (Z.testbit ri 1)) r x b.
Proof. unfold rex_encode_for_index. destruct (Z.testbit ri 0), (Z.testbit ri 1); reflexivity. Qed.

Definition bad_mod00 (md bs : Z) : bool := (md =? 0) && ((bs =? 5) || (bs =? 13)).

Definition chk_imm_reg (w al : bool) (r bs md : Z) : bool :=
  if bad_mod00 md bs then true else
  chk_common w r (rex_encode (ri_of w al) (reg_rex_bit r) (reg_rex_bit bs))
             (encode_modrm md (reg_encoding r) (reg_encoding bs)) (if (bs =? 4) || (bs =? 12) then Some 36 else None)
             (nd md) (KAddr (Some bs) None).
Lemma all_imm_reg_ok :
  allb (fun w => allb (fun al => all16 (fun r => all16 (fun bs => forallb (fun md => chk_imm_reg w al r bs md) [0; 1; 2])))) = true.
Proof. vm_compute. reflexivity. Qed.

Definition chk_rrs (w al : bool) (r bs ix sh md : Z) : bool :=
  if bad_mod00 md bs then true else if ix =? 4 then true else
  chk_common w r (rex_encode_for_index (ri_of w al) r ix bs)
             (encode_modrm md (reg_encoding r) 4) (Some (encode_sib sh (reg_encoding ix) (reg_encoding bs)))
             (nd md) (KAddr (Some bs) (Some (ix, sh))).
Lemma all_rrs_ok :
  allb (fun w => allb (fun al => all16 (fun r => all16 (fun bs => all16 (fun ix => all4 (fun sh =>
    forallb (fun md => chk_rrs w al r bs ix sh md) [0; 1; 2])))))) = true.
Proof. vm_compute. reflexivity. Qed.

Definition chk_rip (w al : bool) (r : Z) : bool :=
  chk_common w r (rex_encode (ri_of w al) (reg_rex_bit r) 0) (encode_modrm 0 (reg_encoding r) 5) None 4 KRip.
Lemma all_rip_ok : allb (fun w => allb (fun al => all16 (fun r => chk_rip w al r))) = true.
Proof. vm_compute. reflexivity. Qed.

Definition chk_rr (w al : bool) (r rm : Z) : bool :=
  chk_common w r (rex_encode (ri_of w al) (Z.shiftr r 3) (Z.shiftr rm 3)) (encode_modrm 3 (Z.land r 7) (Z.land rm 7)) None 0 (KReg rm).
Lemma all_rr_ok : allb (fun w => allb (fun al => all16 (fun r => all16 (fun rm => chk_rr w al r rm)))) = true.
Proof. vm_compute. reflexivity. Qed.

Lemma in3 md : 0 <= md <= 2 -> In md [0; 1; 2].
Proof. intros H. assert (md = 0 \/ md = 1 \/ md = 2) as [-> | [-> | ->]] by lia; simpl; auto. Qed.

Lemma chk_imm_reg_ok w al r bs md : is_reg r -> is_reg bs -> 0 <= md <= 2 -> chk_imm_reg w al r bs md = true.
Proof.
  intros Hr Hb Hm. pose proof all_imm_reg_ok as H.
  apply allb_spec with (b := w) in H. apply allb_spec with (b := al) in H.
  apply all16_spec with (x := r) in H; [| exact Hr]. apply all16_spec with (x := bs) in H; [| exact Hb].
  rewrite forallb_forall in H. apply H, in3, Hm.
Qed.
Lemma chk_rrs_ok w al r bs ix sh md :
  is_reg r -> is_reg bs -> is_reg ix -> 0 <= sh <= 3 -> 0 <= md <= 2 -> chk_rrs w al r bs ix sh md = true.
Proof.
  intros Hr Hb Hi Hs Hm. pose proof all_rrs_ok as H.
  apply allb_spec with (b := w) in H. apply allb_spec with (b := al) in H.
  apply all16_spec with (x := r) in H; [| exact Hr]. apply all16_spec with (x := bs) in H; [| exact Hb].
  apply all16_spec with (x := ix) in H; [| exact Hi]. apply all4_spec with (x := sh) in H; [| lia].
  rewrite forallb_forall in H. apply H, in3, Hm.
Qed.
Lemma chk_rip_ok w al r : is_reg r -> chk_rip w al r = true.
Proof.
  intros Hr. pose proof all_rip_ok as H.
  apply allb_spec with (b := w) in H. apply allb_spec with (b := al) in H.
  apply all16_spec with (x := r) in H; [exact H | exact Hr].
Qed.
Lemma chk_rr_ok w al r rm : is_reg r -> is_reg rm -> chk_rr w al r rm = true.
Proof.
  intros Hr Hm. pose proof all_rr_ok as H.
  apply allb_spec with (b := w) in H. apply allb_spec with (b := al) in H.
  apply all16_spec with (x := r) in H; [| exact Hr]. apply all16_spec with (x := rm) in H; [exact H | exact Hm].
Qed.

Lemma prefix_ok p : 0 <= p <= 5 ->
  exists pb, prefix_bytes p = Some pb /\ Forall (fun b => is_legacy_prefix b = true) pb /\ (length pb <= 2)%nat.
Proof.
  intros H. assert (p = 0 \/ p = 1 \/ p = 2 \/ p = 3 \/ p = 4 \/ p = 5) as [-> | [-> | [-> | [-> | [-> | ->]]]]] by lia;
    eexists; (split; [reflexivity|]); (split; [repeat constructor | simpl; lia]).
Qed.
