(* Metatheory of the reference semantics W (Wasm/Sem.v): a generic preservation principle for
   store relations along arbitrary executions, from which memory-length monotonicity (C02/C06),
   the frame property (C11) and log monotonicity (C20) follow. *)
From Coq Require Import ZArith List Bool Lia.
From Verif Require Import Wasm.Numerics Wasm.Sem.
Import ListNotations.
Open Scope Z_scope.

Ltac splits := repeat match goal with |- _ /\ _ => split end.

Section Pres.
Variable D : domain.
Variable host : nat -> list (val D) -> hostres (val D).
Variable listened : nat -> bool.
Variable maxdepth : nat.

Notation store := (store D).
Notation exec := (exec D host listened maxdepth).

(* the part of the store that never changes *)
Definition same_code (s s' : store) : Prop :=
  s_funcs s' = s_funcs s /\ s_insts s' = s_insts s /\ s_tabs s' = s_tabs s.

Variable R : store -> store -> Prop.
Variable ok_inst : store -> nat -> Prop.        (* instances allowed to run, judged on the code part *)

Hypothesis R_refl : forall s, R s s.
Hypothesis R_trans : forall a b c, R a b -> R b c -> R a c.
Hypothesis R_code : forall s s', R s s' -> same_code s s'.
Hypothesis ok_code : forall s s' ii, same_code s s' -> ok_inst s ii -> ok_inst s' ii.
Hypothesis R_host : forall s h args, R s (add_log D s (EHost h args)).
Hypothesis R_after : forall s fa args s' vs, R (add_log D s (EBefore fa args)) s' -> R s (add_log D s' (EAfter fa vs)).
Hypothesis R_abort : forall s fa args s', R (add_log D s (EBefore fa args)) s' -> R s (add_log D s' (EAbort fa)).
Hypothesis R_simple : forall ii s f i s' f', ok_inst s ii -> step_simple D ii s f i = SOk s' f' -> R s s'.
(* closure of the allowed instances under calls *)
Hypothesis ok_call : forall s ii k fa ci tp tr nl body, ok_inst s ii ->
  nth_error (i_funcs (the_inst D s ii)) k = Some fa -> nth_error (s_funcs s) fa = Some (FWasm ci tp tr nl body) -> ok_inst s ci.
Hypothesis ok_indirect : forall s ii ta fa ci tp tr nl body, ok_inst s ii ->
  i_tab (the_inst D s ii) = Some ta -> In (Some fa) (nth ta (s_tabs s) []) ->
  nth_error (s_funcs s) fa = Some (FWasm ci tp tr nl body) -> ok_inst s ci.
Hypothesis ok_reenter : forall s ii h args g gargs ci tp tr nl body, ok_inst s ii ->
  host h args = HReenter g gargs -> nth_error (s_funcs s) g = Some (FWasm ci tp tr nl body) -> ok_inst s ci.

Definition out_R (s : store) (o : out D) : Prop :=
  match o with
  | Normal s' _ | Branch _ s' _ | Ret s' _ | Trap _ s' => R s s'
  | OutOfFuel => True
  end.

Definition ires_R (s : store) (r : ires D) : Prop :=
  match r with IOk s' _ | ITrap _ s' => R s s' | IFuel => True end.

Definition ex_ok (ex : nat -> nat -> store -> frame D -> list instr -> out D) : Prop :=
  forall depth ii s f is, ok_inst s ii -> out_R s (ex depth ii s f is).

Lemma add_log_code s e : same_code s (add_log D s e).
Proof. unfold same_code, add_log, set_log; cbn. auto. Qed.

Lemma run_body_R ex depth ci s args nr nl body :
  ex_ok ex -> ok_inst s ci -> ires_R s (run_body D ex depth ci s args nr nl body).
Proof.
  intros Hex Hok. unfold run_body.
  specialize (Hex depth ci s {| stack := []; locals := args ++ zeros D nl |} body Hok).
  destruct (ex depth ci s _ body); cbn in *; auto.
Qed.

Lemma bracket_R fa args s k :
  (forall s0, same_code s s0 -> ires_R s0 (k s0)) -> ires_R s (bracket D listened fa args s k).
Proof.
  intros Hk. unfold bracket. destruct (listened fa).
  - pose proof (Hk (add_log D s (EBefore fa args)) (add_log_code _ _)) as H.
    destruct (k _) as [s' vs|t s'|]; cbn in *; auto.
    + eapply R_after; exact H.
    + eapply R_abort; exact H.
  - apply Hk. unfold same_code; auto.
Qed.

Lemma invoke_R ex depth s ii fa args :
  ex_ok ex -> ok_inst s ii ->
  (forall ci tp tr nl body, nth_error (s_funcs s) fa = Some (FWasm ci tp tr nl body) -> ok_inst s ci) ->
  ires_R s (invoke_with D host listened maxdepth ex depth s fa args).
Proof.
  intros Hex Hii Hfa. unfold invoke_with. apply bracket_R. intros s0 Hc0.
  pose proof Hc0 as (Hf0 & Hi0 & Ht0).
  destruct (Nat.ltb maxdepth depth); [cbn; apply R_refl|].
  rewrite Hf0.
  destruct (nth_error (s_funcs s) fa) as [[ci tp tr nl body|h tp tr]|] eqn:Hn; [| |cbn; apply R_refl].
  - apply run_body_R; [assumption|]. eapply ok_code; [exact Hc0|eapply Hfa; reflexivity].
  - destruct (host h args) as [vs|c|c|g gargs] eqn:Hh; cbn [ires_R]; try apply R_host.
    cbn [add_log set_log s_funcs]. rewrite Hf0.
    destruct (nth_error (s_funcs s) g) as [[ci gtp gtr gnl gbody|? ? ?]|] eqn:Hg; try (cbn; apply R_host).
    assert (Hr : ires_R (add_log D s0 (EHost h args))
               (bracket D listened g gargs (add_log D s0 (EHost h args))
                  (fun s2 => run_body D ex (S (S depth)) ci s2 gargs (length gtr) gnl gbody))).
    { apply bracket_R. intros s2 Hc2. apply run_body_R; [assumption|].
      eapply ok_code; [|eapply ok_reenter; eassumption].
      destruct Hc2 as (A & B & C). cbn [add_log set_log s_funcs s_insts s_tabs] in *. unfold same_code. splits; congruence. }
    destruct (bracket D listened g gargs _ _) as [s' vs|t s'|]; cbn in *; auto;
      (eapply R_trans; [apply R_host|exact Hr]).
Qed.

Lemma In_nth_error_some {A} (l : list A) n x : nth_error l n = Some x -> In x l.
Proof. apply nth_error_In. Qed.

Theorem exec_pres fuel : ex_ok (exec fuel).
Proof.
  induction fuel as [|fu IH]; intros depth ii s f is Hok; [exact I|].
  destruct is as [|i rest]; [cbn; apply R_refl|].
  cbn [Sem.exec].
  destruct (step_simple D ii s f i) as [s1 f1|t|] eqn:Hs.
  - (* simple step *)
    pose proof (R_simple ii s f i s1 f1 Hok Hs) as H1.
    assert (Hok1 : ok_inst s1 ii) by (eapply ok_code; [apply R_code; exact H1|exact Hok]).
    pose proof (IH depth ii s1 f1 rest Hok1) as H2.
    destruct (Sem.exec D host listened maxdepth fu depth ii s1 f1 rest); cbn in *; auto; eapply R_trans; eauto.
  - cbn. apply R_refl.
  - (* control flow and calls *)
    assert (Hcont : forall s' f', R s s' -> out_R s (Sem.exec D host listened maxdepth fu depth ii s' f' rest)).
    { intros s' f' HR. assert (Hok' : ok_inst s' ii) by (eapply ok_code; [apply R_code; exact HR|exact Hok]).
      pose proof (IH depth ii s' f' rest Hok') as H2.
      destruct (Sem.exec D host listened maxdepth fu depth ii s' f' rest); cbn in *; auto; eapply R_trans; eauto. }
    assert (Hblock : forall np nr body stk lb,
      out_R s (match Sem.exec D host listened maxdepth fu depth ii s {| stack := firstn np stk; locals := locals f |} body with
        | Normal s' f' => Sem.exec D host listened maxdepth fu depth ii s' {| stack := firstn nr (stack f') ++ skipn np stk; locals := locals f' |} rest
        | Branch O s' f' =>
            match lb with
            | None => Sem.exec D host listened maxdepth fu depth ii s' {| stack := firstn nr (stack f') ++ skipn np stk; locals := locals f' |} rest
            | Some l => Sem.exec D host listened maxdepth fu depth ii s' {| stack := firstn np (stack f') ++ skipn np stk; locals := locals f' |}
                              (Loop np nr l :: rest)
            end
        | Branch (S n) s' f' => Branch n s' f'
        | o => o
        end)).
    { intros np nr body stk lb.
      pose proof (IH depth ii s {| stack := firstn np stk; locals := locals f |} body Hok) as H1.
      destruct (Sem.exec D host listened maxdepth fu depth ii s _ body) as [s' f'|[|n] s' f'|s' f'|t s'|]; cbn in H1 |- *; auto.
      destruct lb as [l|]; [|apply Hcont; exact H1].
      assert (Hok' : ok_inst s' ii) by (eapply ok_code; [apply R_code; exact H1|exact Hok]).
      pose proof (IH depth ii s' {| stack := firstn np (stack f') ++ skipn np stk; locals := locals f' |} (Loop np nr l :: rest) Hok') as H2.
      destruct (Sem.exec D host listened maxdepth fu depth ii s' _ (Loop np nr l :: rest)); cbn in *; auto; eapply R_trans; eauto. }
    assert (Hinv : forall fa args stk np,
      (forall ci tp tr nl body, nth_error (s_funcs s) fa = Some (FWasm ci tp tr nl body) -> ok_inst s ci) ->
      out_R s (match invoke_with D host listened maxdepth (Sem.exec D host listened maxdepth fu) depth s fa args with
               | IOk s' vs => Sem.exec D host listened maxdepth fu depth ii s' (setstack D f (rev vs ++ skipn np stk)) rest
               | ITrap t s' => Trap t s'
               | IFuel => OutOfFuel
               end)).
    { intros fa args stk np Hfa.
      pose proof (invoke_R (Sem.exec D host listened maxdepth fu) depth s ii fa args IH Hok Hfa) as H1.
      destruct (invoke_with D host listened maxdepth _ depth s fa args) as [s' vs|t s'|]; cbn in H1 |- *; auto. }
    destruct i as [w c|o|o| | | | |k|k|k|k|k|w n sx off|n off| | |np nr body|np nr body|np nr t e|n|n|ls d| |f0|ty];
      try (exfalso; unfold step_simple, the_mem in Hs;
           repeat match type of Hs with context [match ?x with _ => _ end] => destruct x end; discriminate Hs);
      clear Hs; cbn [out_R].
    + (* Block *) apply (Hblock np nr body (stack f) None).
    + (* Loop *) apply (Hblock np nr body (stack f) (Some body)).
    + (* If *) destruct (stack f) as [|c stk]; [cbn; apply R_refl|].
      pose proof (IH depth ii s {| stack := firstn np stk; locals := locals f |} (if truthy D c then t else e) Hok) as H1.
      destruct (Sem.exec D host listened maxdepth fu depth ii s _ (if truthy D c then t else e)) as [s' f'|[|n] s' f'|s' f'|t' s'|];
        cbn in H1 |- *; auto.
    + (* Br *) cbn. apply R_refl.
    + (* BrIf *) destruct (stack f) as [|c stk]; [cbn; apply R_refl|].
      destruct (truthy D c); [cbn; apply R_refl|]. apply Hcont. apply R_refl.
    + (* BrTable *) destruct (stack f) as [|c stk]; cbn; apply R_refl.
    + (* Return *) cbn. apply R_refl.
    + (* Call *)
      destruct (nth_error (i_funcs (the_inst D s ii)) f0) as [fa|] eqn:Hk; [|cbn; apply R_refl].
      apply Hinv. intros ci tp tr nl body Hn. eapply ok_call; eassumption.
    + (* CallIndirect *)
      destruct (stack f) as [|c stk]; [cbn; apply R_refl|].
      destruct (i_tab (the_inst D s ii)) as [ta|] eqn:Ht; [|cbn; apply R_refl].
      cbv zeta.
      destruct (to_u32 D c <? Z.of_nat (length (nth ta (s_tabs s) []))); [|cbn; apply R_refl].
      destruct (nth_error (nth ta (s_tabs s) []) (Z.to_nat (to_u32 D c))) as [[fa|]|] eqn:Hn; try (cbn; apply R_refl).
      destruct (nth_error (s_funcs s) fa) as [[ci tp tr nl body|h tp tr]|] eqn:Hf; try (cbn; apply R_refl).
      * destruct (list_eqb tp _ && list_eqb tr _); [|cbn; apply R_refl].
        apply Hinv. intros ci' tp' tr' nl' body' Hn'. rewrite Hf in Hn'. inversion Hn'; subst.
        eapply ok_indirect; try eassumption. eapply nth_error_In; eassumption.
      * destruct (list_eqb tp _ && list_eqb tr _); [|cbn; apply R_refl].
        apply Hinv. intros ci' tp' tr' nl' body' Hn'. rewrite Hf in Hn'. discriminate.
Qed.

End Pres.

(* ================================================================ instances of exec_pres *)
Section Instances.
Variable D : domain.
Variable host : nat -> list (val D) -> hostres (val D).
Variable listened : nat -> bool.
Variable maxdepth : nat.
Hypothesis to_u32_nonneg : forall v, 0 <= to_u32 D v.

Notation store := (store D).

Lemma upd_length {A} (l : list A) i x : length (upd l i x) = length l.
Proof.
  unfold upd. destruct (Nat.ltb_spec i (length l)); [|reflexivity].
  rewrite app_length. cbn [length]. rewrite firstn_length, skipn_length. lia.
Qed.

(* ---------------- A. memories never shrink, their bound never changes, the code part is constant *)
Definition mem_le (m m' : memory) : Prop := mlen m <= mlen m' /\ mmax m' = mmax m.
Definition page_aligned (s : store) : Prop := Forall (fun m => mlen m mod 65536 = 0 /\ 0 <= mlen m) (s_mems s).
Definition mono_R (s s' : store) : Prop :=
  same_code D s s' /\ (page_aligned s -> page_aligned s' /\ Forall2 mem_le (s_mems s) (s_mems s')).

Lemma Forall2_refl {A} (P : A -> A -> Prop) (l : list A) : (forall x, P x x) -> Forall2 P l l.
Proof. intros H. induction l; constructor; auto. Qed.

Lemma Forall2_trans {A} (P : A -> A -> Prop) (a b c : list A) :
  (forall x y z, P x y -> P y z -> P x z) -> Forall2 P a b -> Forall2 P b c -> Forall2 P a c.
Proof.
  intros Ht H1. revert c. induction H1 as [|x y a b Hxy H1 IH]; intros c H2; inversion H2; subst; constructor; eauto.
Qed.

Lemma Forall2_upd {A} (P : A -> A -> Prop) (l : list A) i x y :
  (forall z, P z z) -> nth_error l i = Some x -> P x y -> Forall2 P l (upd l i y).
Proof.
  intros Hr. revert i. induction l as [|a l IH]; intros [|i] Hn Hp; cbn in Hn; try discriminate.
  - inversion Hn; subst. unfold upd. cbn. constructor; [exact Hp|apply Forall2_refl; exact Hr].
  - specialize (IH i Hn Hp). unfold upd in *. cbn [length]. 
    change (Nat.ltb (S i) (S (length l))) with (Nat.ltb i (length l)).
    destruct (Nat.ltb i (length l)); cbn [firstn skipn app]; constructor; auto.
Qed.

Lemma In_firstn {A} (l : list A) n x : In x (firstn n l) -> In x l.
Proof. revert n. induction l as [|a l IH]; intros [|n]; cbn; try tauto. intros [H|H]; [left; exact H|right; eapply IH; exact H]. Qed.
Lemma In_skipn {A} (l : list A) n x : In x (skipn n l) -> In x l.
Proof. revert n. induction l as [|a l IH]; intros [|n]; cbn; try tauto. intros H. right. eapply IH; exact H. Qed.

Lemma Forall_upd {A} (P : A -> Prop) (l : list A) i y : Forall P l -> P y -> Forall P (upd l i y).
Proof.
  intros Hl Hy. unfold upd. destruct (Nat.ltb i (length l)); [|exact Hl].
  rewrite Forall_forall in *. intros x Hx. apply in_app_or in Hx. destruct Hx as [Hx|[Hx|Hx]].
  - apply Hl. eapply In_firstn; exact Hx.
  - subst. exact Hy.
  - apply Hl. eapply In_skipn; exact Hx.
Qed.

Lemma mono_R_refl s : mono_R s s.
Proof.
  split; [unfold same_code; auto|]. intros Hp. split; [exact Hp|]. apply Forall2_refl. intros m; split; [lia|reflexivity].
Qed.

Lemma mono_R_trans a b c : mono_R a b -> mono_R b c -> mono_R a c.
Proof.
  intros [(A1 & A2 & A3) HA] [(B1 & B2 & B3) HB]. split; [unfold same_code; splits; congruence|].
  intros Hp. destruct (HA Hp) as [Hpb Hab]. destruct (HB Hpb) as [Hpc Hbc]. split; [exact Hpc|].
  eapply Forall2_trans; [|exact Hab|exact Hbc]. intros x y z [H1 H2] [H3 H4]. split; [lia|congruence].
Qed.

Lemma mono_R_log s e : mono_R s (add_log D s e).
Proof. split; [apply add_log_code|]. intros Hp. cbn. split; [exact Hp|]. apply Forall2_refl. intros m; split; [lia|reflexivity]. Qed.

Lemma the_mem_nth s ii ma m : the_mem D s ii = Some (ma, m) -> nth_error (s_mems s) ma = Some m.
Proof.
  unfold the_mem. destruct (i_mem _) as [a|]; [|discriminate].
  destruct (nth_error (s_mems s) a) eqn:E; [|discriminate]. intros H; inversion H; subst. exact E.
Qed.

Lemma mono_R_set_mems s ma m m' :
  nth_error (s_mems s) ma = Some m ->
  ((mlen m mod 65536 = 0 /\ 0 <= mlen m) -> mem_le m m' /\ (mlen m' mod 65536 = 0 /\ 0 <= mlen m')) ->
  mono_R s (set_mems D s (upd (s_mems s) ma m')).
Proof.
  intros Hn Hal. split; [unfold same_code, set_mems; cbn; auto|]. intros Hp. cbn [set_mems s_mems].
  assert (Hm : mlen m mod 65536 = 0 /\ 0 <= mlen m).
  { unfold page_aligned in Hp. rewrite Forall_forall in Hp. apply Hp. eapply nth_error_In; exact Hn. }
  destruct (Hal Hm) as [Hle Hm']. split.
  - unfold page_aligned. cbn [s_mems]. apply Forall_upd; [exact Hp|exact Hm'].
  - eapply Forall2_upd; eauto. intros z; split; [lia|reflexivity].
Qed.

Lemma mono_R_simple ii s f i s' f' : step_simple D ii s f i = SOk s' f' -> mono_R s s'.
Proof.
  unfold step_simple. intros H.
  destruct i; cbn in H;
    repeat match type of H with
           | context [match the_mem D s ii with _ => _ end] => destruct (the_mem D s ii) as [[ma m]|] eqn:Hm
           | context [match ?x with _ => _ end] => destruct x eqn:?
           end; try discriminate H; inversion H; subst; clear H; try apply mono_R_refl.
  - (* GlobalSet *) split; [unfold same_code, set_globals; cbn; auto|]. intros Hp. cbn. split; [exact Hp|].
    apply Forall2_refl. intros z; split; [lia|reflexivity].
  - (* Store *) apply the_mem_nth in Hm. eapply mono_R_set_mems; [exact Hm|].
    cbn [mlen]. intros Ha. split; [split; cbn; [lia|reflexivity]|exact Ha].
  - (* MemoryGrow success *) apply the_mem_nth in Hm.
    eapply mono_R_set_mems; [exact Hm|]; cbn [mlen mmax].
    intros [Ha Hb]. pose proof (to_u32_nonneg v) as Hv.
    assert (He : mlen m = mlen m / 65536 * 65536).
    { pose proof (Z.div_mod (mlen m) 65536 ltac:(lia)). lia. }
    split; [split; cbn [mlen mmax]; [nia|reflexivity]|].
    split; [apply Z_mod_mult|]. pose proof (Z.div_pos (mlen m) 65536 Hb ltac:(lia)). nia.
Qed.

Lemma mono_R_after a fa args b vs : mono_R (add_log D a (EBefore fa args)) b -> mono_R a (add_log D b (EAfter fa vs)).
Proof. intros H. eapply mono_R_trans; [apply mono_R_log|]. eapply mono_R_trans; [exact H|apply mono_R_log]. Qed.
Lemma mono_R_abort a fa args b : mono_R (add_log D a (EBefore fa args)) b -> mono_R a (add_log D b (EAbort fa)).
Proof. intros H. eapply mono_R_trans; [apply mono_R_log|]. eapply mono_R_trans; [exact H|apply mono_R_log]. Qed.

Theorem exec_mono fuel depth ii s f is :
  out_R D mono_R s (exec D host listened maxdepth fuel depth ii s f is).
Proof.
  refine (exec_pres D host listened maxdepth mono_R (fun _ _ => True)
            mono_R_refl mono_R_trans (fun a b H => proj1 H) (fun _ _ _ _ _ => I)
            (fun s h args => mono_R_log s _) mono_R_after mono_R_abort
            (fun ii s f i s' f' _ H => mono_R_simple ii s f i s' f' H)
            (fun _ _ _ _ _ _ _ _ _ _ _ _ => I) (fun _ _ _ _ _ _ _ _ _ _ _ _ _ => I) (fun _ _ _ _ _ _ _ _ _ _ _ _ _ _ => I)
            fuel depth ii s f is I).
Qed.

Definition grows (s s' : store) : Prop :=
  s_funcs s' = s_funcs s /\ s_insts s' = s_insts s /\ s_tabs s' = s_tabs s /\
  page_aligned s' /\ Forall2 mem_le (s_mems s) (s_mems s').

Lemma firstn_app_exact {A} (l r : list A) : firstn (length l) (l ++ r) = l.
Proof. induction l; cbn; [destruct r; reflexivity|f_equal; assumption]. Qed.

Lemma call_export_mono fuel s fa args : page_aligned s ->
  grows s (fst (call_export D host listened maxdepth fuel s fa args)).
Proof.
  intros Hp. unfold call_export.
  destruct (match nth_error (s_funcs s) fa with
            | Some (FWasm ii tp tr _ _) => (ii, length tp, length tr)
            | Some (FHost _ tp tr) => (O, length tp, length tr) | None => (O, O, O) end) as [[ii np] nr].
  set (s1 := {| s_funcs := s_funcs s; s_insts := s_insts s ++ [_]; s_globals := s_globals s; s_mems := s_mems s;
                s_tabs := s_tabs s; s_log := s_log s |}).
  pose proof (exec_mono fuel O (length (s_insts s)) s1 {| stack := rev args; locals := [] |} [Call O]) as H.
  assert (Hrefl : grows s s).
  { unfold grows. splits; auto. apply Forall2_refl. intros m; split; [lia|reflexivity]. }
  destruct (exec D host listened maxdepth fuel O (length (s_insts s)) s1 _ [Call O]) as [s' f'|n s' f'|s' f'|t s'|];
    cbn [fst]; try exact Hrefl;
    (cbn in H; destruct H as [(A & B & C) Hm]; destruct (Hm Hp) as [Hp' Hle];
     unfold grows; cbn [s_funcs s_insts s_tabs s_mems]; subst s1; cbn [s_funcs s_insts s_tabs s_mems] in *;
     splits; auto; rewrite B; apply firstn_app_exact).
Qed.

Theorem run_calls_mono fuel calls : forall s, page_aligned s ->
  grows s (fst (run_calls D host listened maxdepth fuel s calls)).
Proof.
  induction calls as [|[fa args] r IH]; intros s Hp; cbn [run_calls].
  - cbn. unfold grows. splits; auto. apply Forall2_refl. intros m; split; [lia|reflexivity].
  - pose proof (call_export_mono fuel s fa args Hp) as H1.
    destruct (call_export D host listened maxdepth fuel s fa args) as [s1 x]. cbn [fst] in H1.
    destruct H1 as (A & B & C & Hp1 & Hle1). specialize (IH s1 Hp1).
    destruct (run_calls D host listened maxdepth fuel s1 r) as [s2 xs]. cbn [fst] in *.
    destruct IH as (A2 & B2 & C2 & Hp2 & Hle2). unfold grows. splits; try congruence.
    eapply Forall2_trans; [|exact Hle1|exact Hle2]. intros x0 y z [H1 H2] [H3 H4]. split; [lia|congruence].
Qed.


(* ---------------- B. frame: an execution only touches the memories and globals of its footprint (C11) *)
Lemma nth_error_upd_ne {A} (l : list A) i j x : i <> j -> nth_error (upd l i x) j = nth_error l j.
Proof.
  intros Hne. unfold upd. destruct (Nat.ltb_spec i (length l)) as [Hlt|]; [|reflexivity].
  revert i j Hne Hlt. induction l as [|a l IH]; intros [|i] [|j] Hne Hlt; cbn in *; try lia; try reflexivity.
  apply IH; lia.
Qed.

Section Frame.
Variable s0 : store.
Variables Fm Fg : nat -> Prop.
Definition okfp (ii : nat) : Prop :=
  (forall ma, i_mem (the_inst D s0 ii) = Some ma -> Fm ma) /\
  (forall k ga, nth_error (i_globals (the_inst D s0 ii)) k = Some ga -> Fg ga).
Definition ok_frame (s : store) (ii : nat) : Prop := same_code D s0 s /\ okfp ii.

Hypothesis closed_call : forall ii k fa ci tp tr nl body, okfp ii ->
  nth_error (i_funcs (the_inst D s0 ii)) k = Some fa -> nth_error (s_funcs s0) fa = Some (FWasm ci tp tr nl body) -> okfp ci.
Hypothesis closed_indirect : forall ii ta fa ci tp tr nl body, okfp ii ->
  i_tab (the_inst D s0 ii) = Some ta -> In (Some fa) (nth ta (s_tabs s0) []) ->
  nth_error (s_funcs s0) fa = Some (FWasm ci tp tr nl body) -> okfp ci.
Hypothesis closed_reenter : forall h args g gargs ci tp tr nl body,
  host h args = HReenter g gargs -> nth_error (s_funcs s0) g = Some (FWasm ci tp tr nl body) -> okfp ci.

Definition frame_R (s s' : store) : Prop :=
  same_code D s s' /\
  (forall a, ~ Fm a -> nth_error (s_mems s') a = nth_error (s_mems s) a) /\
  (forall g, ~ Fg g -> nth_error (s_globals s') g = nth_error (s_globals s) g).

Lemma frame_R_refl s : frame_R s s.
Proof. unfold frame_R, same_code. splits; auto. Qed.
Lemma frame_R_trans a b c : frame_R a b -> frame_R b c -> frame_R a c.
Proof.
  intros ((A1 & A2 & A3) & Am & Ag) ((B1 & B2 & B3) & Bm & Bg). unfold frame_R, same_code. splits; try congruence.
  - intros x Hx. rewrite Bm, Am; auto.
  - intros x Hx. rewrite Bg, Ag; auto.
Qed.
Lemma frame_R_log s e : frame_R s (add_log D s e).
Proof. unfold frame_R. split; [apply add_log_code|]. cbn. auto. Qed.
Lemma frame_R_after a fa args b vs : frame_R (add_log D a (EBefore fa args)) b -> frame_R a (add_log D b (EAfter fa vs)).
Proof. intros H. eapply frame_R_trans; [apply frame_R_log|]. eapply frame_R_trans; [exact H|apply frame_R_log]. Qed.
Lemma frame_R_abort a fa args b : frame_R (add_log D a (EBefore fa args)) b -> frame_R a (add_log D b (EAbort fa)).
Proof. intros H. eapply frame_R_trans; [apply frame_R_log|]. eapply frame_R_trans; [exact H|apply frame_R_log]. Qed.

Lemma the_inst_code s s' ii : same_code D s s' -> the_inst D s' ii = the_inst D s ii.
Proof. intros (_ & H & _). unfold the_inst. rewrite H. reflexivity. Qed.

Lemma frame_R_simple ii s f i s' f' : ok_frame s ii -> step_simple D ii s f i = SOk s' f' -> frame_R s s'.
Proof.
  intros [Hc [Hm Hg]] H. pose proof (the_inst_code s0 s ii Hc) as Hi.
  unfold step_simple, the_mem in H. rewrite Hi in H.
  destruct i; cbn in H;
    repeat match type of H with
           | context [match ?x with _ => _ end] => destruct x eqn:?
           end; try discriminate H; inversion H; subst; clear H; try apply frame_R_refl.
  - (* GlobalSet *) unfold frame_R. split; [unfold same_code, set_globals; cbn; auto|]. cbn. split; [auto|].
    intros g Hng. apply nth_error_upd_ne. intros ->. apply Hng. eapply Hg; eassumption.
  - (* Store *) unfold frame_R. split; [unfold same_code, set_mems; cbn; auto|]. cbn. split; [|auto].
    intros a Hna. apply nth_error_upd_ne. intros ->. apply Hna. apply Hm.
    match goal with E : match i_mem ?x with _ => _ end = Some _ |- _ =>
      destruct (i_mem x) as [ma'|]; [|discriminate E];
      destruct (nth_error (s_mems s) ma'); [|discriminate E]; inversion E; subst; reflexivity end.
  - (* MemoryGrow *) unfold frame_R. split; [unfold same_code, set_mems; cbn; auto|]. cbn. split; [|auto].
    intros a Hna. apply nth_error_upd_ne. intros ->. apply Hna. apply Hm.
    match goal with E : match i_mem ?x with _ => _ end = Some _ |- _ =>
      destruct (i_mem x) as [ma'|]; [|discriminate E];
      destruct (nth_error (s_mems s) ma'); [|discriminate E]; inversion E; subst; reflexivity end.
Qed.

Lemma same_code_trans a b c : same_code D a b -> same_code D b c -> same_code D a c.
Proof. intros (A1 & A2 & A3) (B1 & B2 & B3). unfold same_code. splits; congruence. Qed.

Theorem exec_frame fuel depth ii s f is : ok_frame s ii ->
  out_R D frame_R s (exec D host listened maxdepth fuel depth ii s f is).
Proof.
  intros Hok.
  refine (exec_pres D host listened maxdepth frame_R ok_frame
            frame_R_refl frame_R_trans (fun a b H => proj1 H) _
            (fun s h args => frame_R_log s _) frame_R_after frame_R_abort
            frame_R_simple _ _ _ fuel depth ii s f is Hok).
  - intros a b k Hab [Hc Hk]. split; [eapply same_code_trans; eassumption|exact Hk].
  - intros a k j fa ci tp tr nl body [Hc Hk] Hn Hf. split; [exact Hc|].
    rewrite (the_inst_code s0 a k Hc) in Hn. destruct Hc as (Hc1 & _). rewrite Hc1 in Hf.
    eapply closed_call; eassumption.
  - intros a k ta fa ci tp tr nl body [Hc Hk] Ht Hin Hf. split; [exact Hc|].
    rewrite (the_inst_code s0 a k Hc) in Ht. pose proof Hc as (Hc1 & _ & Hc3). rewrite Hc1 in Hf. rewrite Hc3 in Hin.
    eapply closed_indirect; eassumption.
  - intros a k h args g gargs ci tp tr nl body [Hc Hk] Hh Hf. split; [exact Hc|].
    destruct Hc as (Hc1 & _). rewrite Hc1 in Hf. eapply closed_reenter; eassumption.
Qed.
End Frame.

(* ---------------- C. listener events are well bracketed along every execution (C20) *)
Inductive closes (f : nat) : event (val D) -> Prop :=
| closes_after vs : closes f (EAfter f vs)
| closes_abort : closes f (EAbort f).

Inductive balanced : list (event (val D)) -> Prop :=
| bal_nil : balanced []
| bal_host h a l : balanced l -> balanced (EHost h a :: l)
| bal_call f args l e l' : balanced l -> closes f e -> balanced l' -> balanced (EBefore f args :: l ++ e :: l').

Lemma balanced_app l1 l2 : balanced l1 -> balanced l2 -> balanced (l1 ++ l2).
Proof.
  intros H1 H2. induction H1 as [|h a l H IH|f args l e l' Hl IHl Hc Hl' IHl']; cbn.
  - exact H2.
  - constructor. exact IH.
  - rewrite <- app_assoc. cbn. apply bal_call; auto.
Qed.

Definition brk_R (s s' : store) : Prop :=
  same_code D s s' /\ exists l, s_log s' = s_log s ++ l /\ balanced l.

Lemma brk_R_refl s : brk_R s s.
Proof. split; [unfold same_code; auto|]. exists []. rewrite app_nil_r. split; [reflexivity|constructor]. Qed.
Lemma brk_R_trans a b c : brk_R a b -> brk_R b c -> brk_R a c.
Proof.
  intros [Hab (l1 & E1 & B1)] [Hbc (l2 & E2 & B2)]. split; [eapply same_code_trans; eassumption|].
  exists (l1 ++ l2). rewrite E2, E1, app_assoc. split; [reflexivity|apply balanced_app; assumption].
Qed.
Lemma brk_R_host s h args : brk_R s (add_log D s (EHost h args)).
Proof. split; [apply add_log_code|]. exists [EHost h args]. cbn. split; [reflexivity|repeat constructor]. Qed.
Lemma brk_R_after a fa args b vs : brk_R (add_log D a (EBefore fa args)) b -> brk_R a (add_log D b (EAfter fa vs)).
Proof.
  intros [Hc (l & E & B)]. split.
  - eapply same_code_trans; [apply add_log_code|]. eapply same_code_trans; [exact Hc|apply add_log_code].
  - exists (EBefore fa args :: l ++ [EAfter fa vs]). cbn [add_log set_log s_log] in *. rewrite E, <- !app_assoc. cbn.
    split; [reflexivity|]. apply bal_call; [exact B|constructor|constructor].
Qed.
Lemma brk_R_abort a fa args b : brk_R (add_log D a (EBefore fa args)) b -> brk_R a (add_log D b (EAbort fa)).
Proof.
  intros [Hc (l & E & B)]. split.
  - eapply same_code_trans; [apply add_log_code|]. eapply same_code_trans; [exact Hc|apply add_log_code].
  - exists (EBefore fa args :: l ++ [EAbort fa]). cbn [add_log set_log s_log] in *. rewrite E, <- !app_assoc. cbn.
    split; [reflexivity|]. apply bal_call; [exact B|constructor|constructor].
Qed.

Lemma step_simple_log ii s f i s' f' : step_simple D ii s f i = SOk s' f' -> same_code D s s' /\ s_log s' = s_log s.
Proof.
  unfold step_simple, the_mem. intros H.
  destruct i; cbn in H;
    repeat match type of H with
           | context [match ?x with _ => _ end] => destruct x eqn:?
           end; try discriminate H; inversion H; subst; clear H; unfold same_code; cbn; auto.
Qed.

Lemma brk_R_simple ii s f i s' f' : step_simple D ii s f i = SOk s' f' -> brk_R s s'.
Proof.
  intros H. apply step_simple_log in H. destruct H as [Hc Hl]. split; [exact Hc|].
  exists []. rewrite app_nil_r. split; [exact Hl|constructor].
Qed.

(* ---------------- the code part of the store is constant along every execution *)
Lemma sc_refl s : same_code D s s. Proof. unfold same_code; auto. Qed.
Lemma sc_after a fa args b vs : same_code D (add_log D a (EBefore fa args)) b -> same_code D a (add_log D b (EAfter fa vs)).
Proof. intros H. eapply same_code_trans; [apply add_log_code|]. eapply same_code_trans; [exact H|apply add_log_code]. Qed.
Lemma sc_abort a fa args b : same_code D (add_log D a (EBefore fa args)) b -> same_code D a (add_log D b (EAbort fa)).
Proof. intros H. eapply same_code_trans; [apply add_log_code|]. eapply same_code_trans; [exact H|apply add_log_code]. Qed.

Theorem exec_same_code fuel depth ii s f is :
  out_R D (same_code D) s (exec D host listened maxdepth fuel depth ii s f is).
Proof.
  refine (exec_pres D host listened maxdepth (same_code D) (fun _ _ => True)
            sc_refl same_code_trans (fun a b H => H) (fun _ _ _ _ _ => I)
            (fun s h args => add_log_code D s _) sc_after sc_abort
            (fun ii s f i s' f' _ H => proj1 (step_simple_log ii s f i s' f' H))
            (fun _ _ _ _ _ _ _ _ _ _ _ _ => I) (fun _ _ _ _ _ _ _ _ _ _ _ _ _ => I) (fun _ _ _ _ _ _ _ _ _ _ _ _ _ _ => I)
            fuel depth ii s f is I).
Qed.

Lemma invoke_same_code fu depth s fa args :
  ires_R D (same_code D) s
    (invoke_with D host listened maxdepth (exec D host listened maxdepth fu) depth s fa args).
Proof.
  refine (invoke_R D host listened maxdepth (same_code D) (fun _ _ => True)
            sc_refl same_code_trans (fun _ _ _ _ _ => I) (fun s h args => add_log_code D s _) sc_after sc_abort
            (fun _ _ _ _ _ _ _ _ _ _ _ _ _ _ => I) _ depth s O fa args _ I (fun _ _ _ _ _ _ => I)).
  intros d ii x f is _. apply exec_same_code.
Qed.

Theorem exec_bracketed fuel depth ii s f is :
  out_R D brk_R s (exec D host listened maxdepth fuel depth ii s f is).
Proof.
  refine (exec_pres D host listened maxdepth brk_R (fun _ _ => True)
            brk_R_refl brk_R_trans (fun a b H => proj1 H) (fun _ _ _ _ _ => I)
            brk_R_host brk_R_after brk_R_abort
            (fun ii s f i s' f' _ H => brk_R_simple ii s f i s' f' H)
            (fun _ _ _ _ _ _ _ _ _ _ _ _ => I) (fun _ _ _ _ _ _ _ _ _ _ _ _ _ => I) (fun _ _ _ _ _ _ _ _ _ _ _ _ _ _ => I)
            fuel depth ii s f is I).
Qed.

(* a whole export call: the events it appends are well bracketed, whatever the outcome *)
Theorem call_export_bracketed fuel s fa args :
  exists l, s_log (fst (call_export D host listened maxdepth fuel s fa args)) = s_log s ++ l /\ balanced l.
Proof.
  unfold call_export.
  destruct (match nth_error (s_funcs s) fa with
            | Some (FWasm ii tp tr _ _) => (ii, length tp, length tr)
            | Some (FHost _ tp tr) => (O, length tp, length tr) | None => (O, O, O) end) as [[ii np] nr].
  set (s1 := {| s_funcs := s_funcs s; s_insts := s_insts s ++ [_]; s_globals := s_globals s; s_mems := s_mems s;
                s_tabs := s_tabs s; s_log := s_log s |}).
  pose proof (exec_bracketed fuel O (length (s_insts s)) s1 {| stack := rev args; locals := [] |} [Call O]) as H.
  destruct (exec D host listened maxdepth fuel O (length (s_insts s)) s1 _ [Call O]) as [s' f'|n s' f'|s' f'|t s'|];
    cbn [fst]; try (exists []; rewrite app_nil_r; split; [reflexivity|constructor]);
    (cbn in H; destruct H as [_ (l & E & B)]; exists l; cbn [s_log]; split; [exact E|exact B]).
Qed.

Theorem run_calls_bracketed fuel calls : forall s,
  exists l, s_log (fst (run_calls D host listened maxdepth fuel s calls)) = s_log s ++ l /\ balanced l.
Proof.
  induction calls as [|[fa args] r IH]; intros s; cbn [run_calls].
  - exists []. cbn. rewrite app_nil_r. split; [reflexivity|constructor].
  - destruct (call_export_bracketed fuel s fa args) as (l1 & E1 & B1).
    destruct (call_export D host listened maxdepth fuel s fa args) as [s1 x]. cbn [fst] in E1.
    destruct (IH s1) as (l2 & E2 & B2).
    destruct (run_calls D host listened maxdepth fuel s1 r) as [s2 xs]. cbn [fst] in *.
    exists (l1 ++ l2). rewrite E2, E1, app_assoc. split; [reflexivity|apply balanced_app; assumption].
Qed.

(* C06: later calls depend only on the store reached, not on how (or whether) earlier calls failed *)
Theorem run_calls_app fuel c1 : forall s c2,
  run_calls D host listened maxdepth fuel s (c1 ++ c2) =
  let '(s1, r1) := run_calls D host listened maxdepth fuel s c1 in
  let '(s2, r2) := run_calls D host listened maxdepth fuel s1 c2 in (s2, r1 ++ r2).
Proof.
  induction c1 as [|[fa args] r IH]; intros s c2; cbn [run_calls app].
  - destruct (run_calls D host listened maxdepth fuel s c2). reflexivity.
  - destruct (call_export D host listened maxdepth fuel s fa args) as [s1 x].
    rewrite IH. destruct (run_calls D host listened maxdepth fuel s1 r) as [s2 xs].
    destruct (run_calls D host listened maxdepth fuel s2 c2) as [s3 ys]. reflexivity.
Qed.

End Instances.
