(* Fuel monotonicity of the reference semantics: once an execution finishes with some fuel, it
   finishes with the same outcome for every larger fuel. Hence the outcome computed by the
   correspondence checks (a fixed, large fuel) is THE outcome of the program, not an artefact. *)
From Coq Require Import ZArith List Bool Lia.
From Verif Require Import Wasm.Numerics Wasm.Sem.
Import ListNotations.
Open Scope Z_scope.

Section Fuel.
Variable D : domain.
Variable host : nat -> list (val D) -> hostres (val D).
Variable listened : nat -> bool.
Variable maxdepth : nat.

Notation exec := (exec D host listened maxdepth).

Definition le_out (o o' : out D) : Prop := o = OutOfFuel \/ o = o'.
Definition le_ires (r r' : ires D) : Prop := r = IFuel \/ r = r'.

Definition ex_le (ex ex' : nat -> nat -> store D -> frame D -> list instr -> out D) : Prop :=
  forall depth ii s f is, le_out (ex depth ii s f is) (ex' depth ii s f is).

Lemma run_body_le ex ex' depth ci s args nr nl body : ex_le ex ex' ->
  le_ires (run_body D ex depth ci s args nr nl body) (run_body D ex' depth ci s args nr nl body).
Proof.
  intros H. unfold run_body. destruct (H depth ci s {| stack := []; locals := args ++ zeros D nl |} body) as [E|E]; rewrite E.
  - left. reflexivity.
  - right. reflexivity.
Qed.

Lemma bracket_le fa args s k k' : (forall x, le_ires (k x) (k' x)) ->
  le_ires (bracket D listened fa args s k) (bracket D listened fa args s k').
Proof.
  intros H. unfold bracket. destruct (listened fa); [|apply H].
  destruct (H (add_log D s (EBefore fa args))) as [E|E]; rewrite E; [left|right]; reflexivity.
Qed.

Lemma invoke_le ex ex' depth s fa args : ex_le ex ex' ->
  le_ires (invoke_with D host listened maxdepth ex depth s fa args)
          (invoke_with D host listened maxdepth ex' depth s fa args).
Proof.
  intros H. unfold invoke_with. apply bracket_le. intros x.
  destruct (Nat.ltb maxdepth depth); [right; reflexivity|].
  destruct (nth_error (s_funcs x) fa) as [[ci tp tr nl body|h tp tr]|]; [| |right; reflexivity].
  - apply run_body_le. exact H.
  - cbv zeta. destruct (host h args) as [vs|c|c|g gargs]; try (right; reflexivity).
    destruct (nth_error (s_funcs (add_log D x (EHost h args))) g) as [[ci gtp gtr gnl gbody|? ? ?]|]; try (right; reflexivity).
    apply bracket_le. intros y. apply run_body_le. exact H.
Qed.

Ltac use_le H :=
  let E := fresh "E" in destruct H as [E|E]; rewrite E; [left; reflexivity|].

Theorem exec_le fu : forall fu', (fu <= fu')%nat -> ex_le (exec fu) (exec fu').
Proof.
  induction fu as [|fu IH]; intros fu' Hle depth ii s f is; [left; reflexivity|].
  destruct fu' as [|fu'']; [lia|]. assert (Hle' : (fu <= fu'')%nat) by lia.
  pose proof (IH fu'' Hle') as IHe. clear IH.
  destruct is as [|i rest]; [right; reflexivity|].
  cbn [Sem.exec].
  destruct (step_simple D ii s f i) as [s1 f1|t|] eqn:Hs.
  - apply IHe.
  - right. reflexivity.
  - assert (Hblock : forall np nr body stk lb,
      le_out
       (match Sem.exec D host listened maxdepth fu depth ii s {| stack := firstn np stk; locals := locals f |} body with
        | Normal s' f' => Sem.exec D host listened maxdepth fu depth ii s' {| stack := firstn nr (stack f') ++ skipn np stk; locals := locals f' |} rest
        | Branch O s' f' =>
            match lb with
            | None => Sem.exec D host listened maxdepth fu depth ii s' {| stack := firstn nr (stack f') ++ skipn np stk; locals := locals f' |} rest
            | Some l => Sem.exec D host listened maxdepth fu depth ii s' {| stack := firstn np (stack f') ++ skipn np stk; locals := locals f' |} (Loop np nr l :: rest)
            end
        | Branch (S n) s' f' => Branch n s' f'
        | o => o
        end)
       (match Sem.exec D host listened maxdepth fu'' depth ii s {| stack := firstn np stk; locals := locals f |} body with
        | Normal s' f' => Sem.exec D host listened maxdepth fu'' depth ii s' {| stack := firstn nr (stack f') ++ skipn np stk; locals := locals f' |} rest
        | Branch O s' f' =>
            match lb with
            | None => Sem.exec D host listened maxdepth fu'' depth ii s' {| stack := firstn nr (stack f') ++ skipn np stk; locals := locals f' |} rest
            | Some l => Sem.exec D host listened maxdepth fu'' depth ii s' {| stack := firstn np (stack f') ++ skipn np stk; locals := locals f' |} (Loop np nr l :: rest)
            end
        | Branch (S n) s' f' => Branch n s' f'
        | o => o
        end)).
    { intros np nr body stk lb.
      use_le (IHe depth ii s {| stack := firstn np stk; locals := locals f |} body).
      destruct (Sem.exec D host listened maxdepth fu'' depth ii s {| stack := firstn np stk; locals := locals f |} body) as [s' f'|[|n] s' f'|s' f'|t s'|]; try (right; reflexivity).
      - apply IHe.
      - destruct lb; apply IHe. }
    assert (Hinv : forall fa args stk np,
      le_out
        (match invoke_with D host listened maxdepth (Sem.exec D host listened maxdepth fu) depth s fa args with
         | IOk s' vs => Sem.exec D host listened maxdepth fu depth ii s' (setstack D f (rev vs ++ skipn np stk)) rest
         | ITrap t s' => Trap t s'
         | IFuel => OutOfFuel
         end)
        (match invoke_with D host listened maxdepth (Sem.exec D host listened maxdepth fu'') depth s fa args with
         | IOk s' vs => Sem.exec D host listened maxdepth fu'' depth ii s' (setstack D f (rev vs ++ skipn np stk)) rest
         | ITrap t s' => Trap t s'
         | IFuel => OutOfFuel
         end)).
    { intros fa args stk np.
      use_le (invoke_le _ _ depth s fa args IHe).
      destruct (invoke_with D host listened maxdepth (Sem.exec D host listened maxdepth fu'') depth s fa args) as [s' vs|t s'|]; try (right; reflexivity).
      apply IHe. }
    destruct i as [w c|o|o| | | | |k|k|k|k|k|w n sx off|n off| | |np nr body|np nr body|np nr t e|n|n|ls d| |f0|ty];
      try (exfalso; unfold step_simple, the_mem in Hs;
           repeat match type of Hs with context [match ?x with _ => _ end] => destruct x end; discriminate Hs);
      clear Hs.
    + apply (Hblock np nr body (stack f) None).
    + apply (Hblock np nr body (stack f) (Some body)).
    + destruct (stack f) as [|c stk]; [right; reflexivity|].
      use_le (IHe depth ii s {| stack := firstn np stk; locals := locals f |} (if truthy D c then t else e)).
      destruct (Sem.exec D host listened maxdepth fu'' depth ii s {| stack := firstn np stk; locals := locals f |} (if truthy D c then t else e)) as [s' f'|[|n'] s' f'|s' f'|t' s'|];
        try (right; reflexivity); apply IHe.
    + right. reflexivity.
    + destruct (stack f) as [|c stk]; [right; reflexivity|]. destruct (truthy D c); [right; reflexivity|apply IHe].
    + destruct (stack f) as [|c stk]; right; reflexivity.
    + right. reflexivity.
    + destruct (nth_error (i_funcs (the_inst D s ii)) f0) as [fa|]; [|right; reflexivity]. apply Hinv.
    + destruct (stack f) as [|c stk]; [right; reflexivity|].
      destruct (i_tab (the_inst D s ii)) as [ta|]; [|right; reflexivity].
      cbv zeta.
      destruct (to_u32 D c <? Z.of_nat (length (nth ta (s_tabs s) []))); [|right; reflexivity].
      destruct (nth_error (nth ta (s_tabs s) []) (Z.to_nat (to_u32 D c))) as [[fa|]|]; try (right; reflexivity).
      destruct (nth_error (s_funcs s) fa) as [[ci tp tr nl body|h tp tr]|]; try (right; reflexivity);
        (destruct (list_eqb tp _ && list_eqb tr _); [apply Hinv|right; reflexivity]).
Qed.

(* the statement used by the checks *)
Theorem exec_fuel_mono fu fu' depth ii s f is o : (fu <= fu')%nat ->
  exec fu depth ii s f is = o -> o <> OutOfFuel -> exec fu' depth ii s f is = o.
Proof.
  intros Hle He Hne. destruct (exec_le fu fu' Hle depth ii s f is) as [E|E]; [congruence|]. congruence.
Qed.

Theorem call_export_fuel_mono fu fu' s fa args s' r : (fu <= fu')%nat ->
  call_export D host listened maxdepth fu s fa args = (s', r) -> r <> RFuel ->
  call_export D host listened maxdepth fu' s fa args = (s', r).
Proof.
  intros Hle. unfold call_export.
  destruct (match nth_error (s_funcs s) fa with
            | Some (FWasm ii tp tr _ _) => (ii, length tp, length tr)
            | Some (FHost _ tp tr) => (O, length tp, length tr) | None => (O, O, O) end) as [[ii np] nr].
  match goal with |- context [Sem.exec D host listened maxdepth fu O ?i ?st ?fr ?c] =>
    destruct (exec_le fu fu' Hle O i st fr c) as [E|E]; rewrite E end.
  - intros H Hr. inversion H; subst. congruence.
  - intros H _. exact H.
Qed.

End Fuel.
