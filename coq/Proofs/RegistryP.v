(* Proofs about Rt/Registry.v (C10). *)
From Coq Require Import List Bool Arith ZArith Lia Permutation.
From Verif Require Import Rt.Registry.
Import ListNotations.

Ltac splits := repeat match goal with |- _ /\ _ => split end.

(* ================================================================== 1. linearizability: definition, checker correctness *)
Section LinDef.
  Context {St : Type}.
  Variable step : St -> op -> St * ret.

  (* the returns of [l], taken in this order, are those of the sequential specification *)
  Fixpoint spec_run (s : St) (l : list ev) : bool :=
    match l with
    | [] => true
    | e :: r => let '(s', x) := step s (e_op e) in ret_eqb x (e_ret e) && spec_run s' r
    end.

  (* real-time order: nothing placed later returned before an earlier one was invoked *)
  Fixpoint order_ok (l : list ev) : Prop :=
    match l with
    | [] => True
    | e :: r => (forall e', In e' r -> ~ e_res e' < e_inv e) /\ order_ok r
    end.

  Definition linearizable_from (s : St) (h : list ev) : Prop :=
    exists l, Permutation l h /\ order_ok l /\ spec_run s l = true.

  Lemma remove_at_length {A} (l : list A) k x : nth_error l k = Some x -> length l = S (length (remove_at k l)).
  Proof.
    revert k. induction l as [|a l IH]; intros [|k] H; cbn in *; try discriminate; auto.
  Qed.

  Lemma remove_at_perm {A} (l : list A) k x : nth_error l k = Some x -> Permutation (x :: remove_at k l) l.
  Proof.
    revert k. induction l as [|a l IH]; intros [|k] H; cbn in *; try discriminate.
    - inversion H; subst. reflexivity.
    - etransitivity; [apply perm_swap|]. constructor. eauto.
  Qed.

  Lemma perm_cons_remove_at {A} (x : A) l' l : Permutation (x :: l') l ->
    exists k, nth_error l k = Some x /\ Permutation l' (remove_at k l).
  Proof.
    intros HP. assert (Hin : In x l) by (eapply Permutation_in; [exact HP|left; reflexivity]).
    apply In_nth_error in Hin. destruct Hin as [k Hk]. exists k. split; [exact Hk|].
    pose proof (remove_at_perm l k x Hk) as H2.
    eapply Permutation_cons_inv. etransitivity; [exact HP|]. symmetry. exact H2.
  Qed.

  Lemma forallb_order rest e :
    forallb (fun e' => negb (e_res e' <? e_inv e)) rest = true <-> (forall e', In e' rest -> ~ e_res e' < e_inv e).
  Proof.
    rewrite forallb_forall. split; intros H e' Hin; specialize (H e' Hin).
    - apply negb_true_iff in H. apply Nat.ltb_ge in H. lia.
    - apply negb_true_iff. apply Nat.ltb_ge. lia.
  Qed.

  Lemma order_ok_perm_tail e l1 l2 : Permutation l1 l2 ->
    (forall e', In e' l2 -> ~ e_res e' < e_inv e) -> (forall e', In e' l1 -> ~ e_res e' < e_inv e).
  Proof. intros HP H e' Hin. apply H. eapply Permutation_in; eauto. Qed.

  Lemma ex_lazy_eq {A} (f : A -> bool) l : ex_lazy f l = existsb f l.
  Proof. induction l as [|a l IH]; cbn; [reflexivity|]. destruct (f a); [reflexivity|exact IH]. Qed.
  Lemma all_lazy_eq {A} (f : A -> bool) l : all_lazy f l = forallb f l.
  Proof. induction l as [|a l IH]; cbn; [reflexivity|]. destruct (f a); [exact IH|reflexivity]. Qed.

  Lemma lin_sound : forall fuel s pending, lin step fuel s pending = true ->
    exists l, Permutation l pending /\ order_ok l /\ spec_run s l = true.
  Proof.
    induction fuel as [|f IH]; intros s pending H; cbn [lin] in H.
    - destruct pending; [|discriminate]. exists []. cbn. auto.
    - destruct pending as [|p0 pr] eqn:Hp; [exists []; cbn; auto|]. rewrite <- Hp in *. clear Hp p0 pr.
      rewrite ex_lazy_eq in H. apply existsb_exists in H. destruct H as (k & _ & Hk).
      destruct (nth_error pending k) as [e|] eqn:Hn; [|discriminate].
      rewrite all_lazy_eq in Hk.
      destruct (forallb (fun e' => negb (e_res e' <? e_inv e)) (remove_at k pending)) eqn:Ho; [|discriminate].
      destruct (step s (e_op e)) as [s' r] eqn:Hs.
      destruct (ret_eqb r (e_ret e)) eqn:Hret; [|discriminate]. rename Hk into Hl.
      destruct (IH _ _ Hl) as (l & HP & Hok & Hrun).
      exists (e :: l). splits.
      + etransitivity; [constructor; exact HP|]. apply remove_at_perm. exact Hn.
      + cbn. split; [|exact Hok]. pose proof (proj1 (forallb_order _ _) Ho) as Ho'. eapply order_ok_perm_tail; eauto.
      + cbn. rewrite Hs, Hret, Hrun. reflexivity.
  Qed.

  Lemma lin_complete : forall l s pending, Permutation l pending -> order_ok l -> spec_run s l = true ->
    lin step (length pending) s pending = true.
  Proof.
    induction l as [|e l IH]; intros s pending HP Hok Hrun.
    - apply Permutation_nil in HP. subst. reflexivity.
    - destruct (perm_cons_remove_at e l pending HP) as (k & Hk & HP').
      pose proof (remove_at_length pending k e Hk) as Hlen. rewrite Hlen. cbn [lin].
      destruct pending as [|p0 pr] eqn:Hp; [destruct k; discriminate|]. rewrite <- Hp in *.
      rewrite ex_lazy_eq. apply existsb_exists. exists k. split.
      { apply in_seq. split; [lia|]. cbn. apply nth_error_Some. congruence. }
      rewrite Hk. cbn in Hok, Hrun. destruct Hok as [Ho Hok].
      destruct (step s (e_op e)) as [s' r] eqn:Hs.
      apply andb_true_iff in Hrun. destruct Hrun as [Hret Hrun].
      rewrite all_lazy_eq.
      assert (Hf : forallb (fun e' => negb (e_res e' <? e_inv e)) (remove_at k pending) = true).
      { apply forallb_order. eapply order_ok_perm_tail; [symmetry; exact HP'|exact Ho]. }
      rewrite Hf, Hret. specialize (IH s' _ HP' Hok Hrun). exact IH.
  Qed.
End LinDef.

Definition linearizable (s : spec) (h : list ev) : Prop := linearizable_from spec_step s h.

Lemma lin_check_sound s h : lin_check s h = true -> linearizable s h.
Proof. unfold lin_check, linearizable, linearizable_from. apply lin_sound. Qed.

Lemma lin_check_complete s h : linearizable s h -> lin_check s h = true.
Proof. intros (l & HP & Hok & Hrun). unfold lin_check. eapply lin_complete; eauto. Qed.

Lemma lin_check_correct s h : lin_check s h = true <-> linearizable s h.
Proof. split; [apply lin_check_sound|apply lin_check_complete]. Qed.

(* ================================================================== 2. schedules: termination measure, exhaustive exploration is complete *)
Lemma replace_nth_length {A} k (x : A) l : length (replace_nth k x l) = length l.
Proof. revert k. induction l as [|a l IH]; intros [|k]; cbn; auto. Qed.

Lemma nth_error_replace_nth_eq {A} k (x : A) l : k < length l -> nth_error (replace_nth k x l) k = Some x.
Proof. revert k. induction l as [|a l IH]; intros [|k] H; cbn in *; try lia; auto. apply IH. lia. Qed.

Lemma nth_error_replace_nth_neq {A} k j (x : A) l : k <> j -> nth_error (replace_nth k x l) j = nth_error l j.
Proof. revert k j. induction l as [|a l IH]; intros [|k] [|j] H; cbn in *; try congruence; auto. Qed.

Lemma sum_replace_nth {A} (f : A -> nat) k x l t : nth_error l k = Some t ->
  list_sum (map f (replace_nth k x l)) + f t = list_sum (map f l) + f x.
Proof.
  unfold list_sum. revert k. induction l as [|a l IH]; intros [|k] H; cbn in *; try discriminate.
  - inversion H; subst. lia.
  - specialize (IH _ H). lia.
Qed.

Lemma ksize_compile o : ksize (compile o) < 20.
Proof. destruct o as [[|] n i|n|i c|i|c|h]; cbn; lia. Qed.

Lemma mstep_ksize s m ms : ksize (snd (mstep s m ms)) < ksize (m :: ms).
Proof.
  unfold ksize. destruct m; cbn [mstep map list_sum msize];
    repeat match goal with |- context [if ?b then _ else _] => destruct b
                         | |- context [match ?x with Some _ => _ | None => _ end] => destruct x end;
    cbn; lia.
Qed.

Lemma sum_replace_lt k x l t : nth_error l k = Some t -> tsize x < tsize t ->
  list_sum (map tsize (replace_nth k x l)) < list_sum (map tsize l).
Proof. intros Hn Hlt. pose proof (sum_replace_nth tsize k x l t Hn). lia. Qed.

Lemma tstep_csize a c k c' : tstep a c k = Some c' -> csize c' < csize c.
Proof.
  unfold tstep. destruct (nth_error (thrs c) k) as [t|] eqn:Hn; [|discriminate].
  destruct (a && blocked (hold c) k); [discriminate|].
  unfold csize.
  destruct (cur t) as [[[o inv] ms]|] eqn:Hc.
  - destruct ms as [|m ms]; [discriminate|].
    assert (Ht : tsize t = ksize (m :: ms) + 20 * length (todo t)) by (unfold tsize; rewrite Hc; reflexivity).
    assert (Hgen : forall s' ms', (s', ms') = mstep (st c) m ms ->
              list_sum (map tsize (replace_nth k {| todo := todo t; cur := Some (o, inv, ms') |} (thrs c))) < list_sum (map tsize (thrs c))).
    { intros s' ms' E. apply (sum_replace_lt k _ _ t Hn).
      pose proof (mstep_ksize (st c) m ms) as Hk. rewrite <- E in Hk. cbn [snd] in Hk.
      rewrite Ht. unfold tsize. cbn [cur todo]. lia. }
    destruct m; intros H;
      try (destruct (mstep (st c) _ ms) as [s' ms'] eqn:E; inversion H; subst; cbn [thrs]; eapply Hgen; reflexivity).
    inversion H; subst; cbn [thrs]. apply (sum_replace_lt k _ _ t Hn).
    rewrite Ht. unfold tsize, ksize. cbn. lia.
  - destruct (todo t) as [|o rest] eqn:Hd; [discriminate|]. intros H. inversion H; subst; cbn [thrs].
    apply (sum_replace_lt k _ _ t Hn).
    unfold tsize. rewrite Hc, Hd. cbn [cur todo length]. pose proof (ksize_compile o). lia.
Qed.

Lemma run_sched_length a sched : forall c c', run_sched a c sched = Some c' -> length sched + csize c' <= csize c.
Proof.
  induction sched as [|k r IH]; intros c c' H; cbn in H.
  - inversion H; subst. cbn. lia.
  - destruct (tstep a c k) as [c1|] eqn:Ht; [|discriminate].
    apply tstep_csize in Ht. specialize (IH _ _ H). cbn. lia.
Qed.

Lemma tstep_in_nexts a c k c' : tstep a c k = Some c' -> In c' (nexts a c).
Proof.
  intros H. unfold nexts. apply in_flat_map. exists k. split.
  - apply in_seq. split; [lia|]. cbn. unfold tstep in H.
    destruct (nth_error (thrs c) k) eqn:Hn; [|discriminate]. apply nth_error_Some. congruence.
  - rewrite H. left. reflexivity.
Qed.

Lemma finished_no_next a c : finished c = true -> nexts a c = [].
Proof.
  intros Hf. unfold nexts.
  assert (H : forall k, tstep a c k = None).
  { intros k. unfold tstep. destruct (nth_error (thrs c) k) as [t|] eqn:Hn; [|reflexivity].
    destruct (a && blocked (hold c) k); [reflexivity|].
    unfold finished in Hf. rewrite forallb_forall in Hf. specialize (Hf t (nth_error_In _ _ Hn)).
    unfold thr_done in Hf. destruct (cur t); [discriminate|]. destruct (todo t); [reflexivity|discriminate]. }
  induction (seq 0 (length (thrs c))) as [|k l IH]; cbn; [reflexivity|]. rewrite H. cbn. exact IH.
Qed.

(* every complete schedule ends in a configuration that the exhaustive check has inspected *)
Lemma check_all_complete a P sched : forall fuel c c',
  run_sched a c sched = Some c' -> finished c' = true -> length sched < fuel ->
  check_all a P fuel c = true -> P c' = true.
Proof.
  induction sched as [|k r IH]; intros fuel c c' H Hf Hl Hc; cbn in H.
  - inversion H; subst. destruct fuel; [lia|]. cbn [check_all] in Hc. rewrite (finished_no_next a c' Hf) in Hc. exact Hc.
  - destruct (tstep a c k) as [c1|] eqn:Ht; [|discriminate].
    destruct fuel; [lia|]. cbn [check_all] in Hc. pose proof (tstep_in_nexts _ _ _ _ Ht) as Hin.
    destruct (nexts a c) as [|n0 ns] eqn:Hn; [destruct Hin|]. cbv iota in Hc.
    rewrite forallb_forall in Hc. apply (IH fuel c1 c' H Hf); [cbn in Hl; lia|apply Hc; exact Hin].
Qed.

Lemma check_all_run a P c sched c' :
  check_all a P (S (csize c)) c = true -> run_sched a c sched = Some c' -> finished c' = true -> P c' = true.
Proof.
  intros Hc Hr Hf. apply (check_all_complete a P sched (S (csize c)) c c' Hr Hf); [|exact Hc].
  apply run_sched_length in Hr. lia.
Qed.

(* ================================================================== 3. sequential refinement *)
Lemma lookup_some_in n i l : lookup n l = Some i -> In (n, i) l.
Proof.
  induction l as [|[m j] l IH]; cbn; [discriminate|].
  destruct (Nat.eqb_spec n m); intros H; [inversion H; subst; auto|auto].
Qed.

Lemma lookup_none_notin n l : lookup n l = None -> ~ In n (map fst l).
Proof.
  induction l as [|[m j] l IH]; cbn; [tauto|].
  destruct (Nat.eqb_spec n m); intros H; [discriminate|]. intros [E|E]; [congruence|]. exact (IH H E).
Qed.

Lemma notin_lookup_none n l : ~ In n (map fst l) -> lookup n l = None.
Proof.
  induction l as [|[m j] l IH]; cbn; [reflexivity|]. intros H.
  destruct (Nat.eqb_spec n m); [subst; tauto|]. apply IH. tauto.
Qed.

Lemma lookup_in n i (l : list (nat * nat)) : NoDup (map fst l) -> In (n, i) l -> lookup n l = Some i.
Proof.
  induction l as [|[m j] l IH]; cbn; [tauto|]. intros Hnd [E|E].
  - inversion E; subst. rewrite Nat.eqb_refl. reflexivity.
  - inversion Hnd as [|x xs Hni Hnd']; subst. destruct (Nat.eqb_spec n m); [|auto].
    subst. exfalso. apply Hni. apply in_map_iff. exists (m, i). auto.
Qed.

Lemma fst_inj (l : list (nat * nat)) n i i' : NoDup (map fst l) -> In (n, i) l -> In (n, i') l -> i = i'.
Proof. intros Hnd H1 H2. apply (lookup_in _ _ _ Hnd) in H1. apply (lookup_in _ _ _ Hnd) in H2. congruence. Qed.

Lemma snd_inj (l : list (nat * nat)) n n' i : NoDup (map snd l) -> In (n, i) l -> In (n', i) l -> n = n'.
Proof.
  induction l as [|[m j] l IH]; cbn; [tauto|]. intros Hnd H1 H2. inversion Hnd as [|x xs Hni Hnd']; subst.
  destruct H1 as [E1|E1], H2 as [E2|E2].
  - congruence.
  - inversion E1; subst. exfalso. apply Hni. apply in_map_iff. exists (n', i). auto.
  - inversion E2; subst. exfalso. apply Hni. apply in_map_iff. exists (n, i). auto.
  - eauto.
Qed.

Lemma del_name_remove_inst (l : list (nat * nat)) n i : NoDup (map fst l) -> NoDup (map snd l) -> In (n, i) l ->
  del_name n l = remove_inst i l.
Proof.
  intros Hk Hv Hin. unfold del_name, remove_inst. apply filter_ext_in. intros [m j] Hm. cbn. f_equal.
  destruct (Nat.eqb_spec m n), (Nat.eqb_spec j i); subst; auto.
  - exfalso. apply n0. eapply fst_inj; eauto.
  - exfalso. apply n0. eapply snd_inj; eauto.
Qed.

Lemma remove_notin i l : ~ In i l -> remove i l = l.
Proof.
  unfold remove. induction l as [|a l IH]; cbn; [reflexivity|]. intros H.
  destruct (Nat.eqb_spec a i); [subst; tauto|]. cbn. f_equal. apply IH. tauto.
Qed.

Lemma remove_inst_notin i l : ~ In i (map snd l) -> remove_inst i l = l.
Proof.
  unfold remove_inst. induction l as [|[m j] l IH]; cbn; [reflexivity|]. intros H.
  destruct (Nat.eqb_spec j i); [subst; tauto|]. cbn. f_equal. apply IH. tauto.
Qed.

Lemma in_remove i j l : In j (remove i l) <-> In j l /\ j <> i.
Proof.
  unfold remove. rewrite filter_In. split; intros [H1 H2]; split; auto.
  - apply negb_true_iff in H2. apply Nat.eqb_neq in H2. exact H2.
  - apply negb_true_iff. apply Nat.eqb_neq. exact H2.
Qed.

Lemma NoDup_filter {A} (f : A -> bool) l : NoDup l -> NoDup (filter f l).
Proof.
  induction 1 as [|x l Hni Hnd IH]; cbn; [constructor|].
  destruct (f x); [constructor; auto|auto]. rewrite filter_In. tauto.
Qed.

Lemma NoDup_map_filter {A B} (g : A -> B) (f : A -> bool) l : NoDup (map g l) -> NoDup (map g (filter f l)).
Proof.
  induction l as [|x l IH]; cbn; [auto|]. intros H. inversion H as [|y ys Hni Hnd]; subst.
  destruct (f x); cbn; [constructor|]; auto.
  intros Hin. apply Hni. apply in_map_iff in Hin. destruct Hin as (z & Ez & Hz). apply filter_In in Hz.
  apply in_map_iff. exists z. tauto.
Qed.

Lemma in_remove_inst p i l : In p (remove_inst i l) <-> In p l /\ snd p <> i.
Proof.
  unfold remove_inst. rewrite filter_In. split; intros [H1 H2]; split; auto.
  - apply negb_true_iff in H2. apply Nat.eqb_neq in H2. exact H2.
  - apply negb_true_iff. apply Nat.eqb_neq. exact H2.
Qed.

Lemma filter_all {A} (f : A -> bool) l : (forall x, In x l -> f x = true) -> filter f l = l.
Proof.
  induction l as [|a l IH]; cbn; [reflexivity|]. intros H. rewrite (H a) by auto. f_equal. apply IH. auto.
Qed.

Lemma lookup_app_map i c l e : lookup i (map (fun j => (j, c)) l ++ e) = if mem i l then Some c else lookup i e.
Proof.
  unfold mem. induction l as [|a l IH]; cbn; [reflexivity|]. destruct (Nat.eqb_spec i a); cbn; auto.
Qed.

Lemma mem_in_pre i l : mem i l = true <-> In i l.
Proof.
  unfold mem. rewrite existsb_exists. split.
  - intros (x & Hx & E). apply Nat.eqb_eq in E. subst. exact Hx.
  - intros H. exists i. split; [exact H|apply Nat.eqb_refl].
Qed.

Lemma dedup_nodup l : NoDup l -> dedup l = l.
Proof.
  induction 1 as [|x l Hni Hnd IH]; cbn; [reflexivity|].
  destruct (mem x l) eqn:E; [apply mem_in_pre in E; contradiction|]. rewrite IH. reflexivity.
Qed.

Lemma mem_in i l : mem i l = true <-> In i l.
Proof.
  unfold mem. rewrite existsb_exists. split.
  - intros (x & Hx & E). apply Nat.eqb_eq in E. subst. exact Hx.
  - intros H. exists i. split; [exact H|apply Nat.eqb_refl].
Qed.

(* clients only instantiate fresh instance identities *)
Fixpoint wf_ops (seen : list inst) (ops : list op) : Prop :=
  match ops with
  | [] => True
  | OInst _ _ i :: r => ~ In i seen /\ wf_ops (i :: seen) r
  | OClose i _ :: r => wf_ops (i :: seen) r
  | OIsClosed i :: r => wf_ops (i :: seen) r
  | _ :: r => wf_ops seen r
  end.

Definition seen_after (seen : list inst) (o : op) : list inst :=
  match o with OInst _ _ i => i :: seen | OClose i _ => i :: seen | OIsClosed i => i :: seen | _ => seen end.

Definition op_fresh (seen : list inst) (o : op) : Prop :=
  match o with OInst _ _ i => ~ In i seen | _ => True end.

Record Rseq (s : impl) (a : spec) (seen : list inst) : Prop := {
  rs_rt : rt_closed s = closed_rt a;
  rs_eng : eng_closed s = closed_rt a;
  rs_nmap : nmap s = if closed_rt a then None else Some (names a);
  rs_closed_empty : closed_rt a = true -> names a = [] /\ opened a = [];
  rs_mlist : mlist s = opened a;
  rs_closedw : closedw s = exits a;
  rs_res : res_log s = map fst (closedw s);
  rs_nd_exits : NoDup (map fst (exits a));
  rs_keys : NoDup (map fst (names a));
  rs_vals : NoDup (map snd (names a));
  rs_names : forall n i, In (n, i) (names a) -> n <> 0 /\ lookup i (iname s) = Some n /\ In i (opened a);
  rs_open_nd : NoDup (opened a);
  rs_open : forall i, In i (opened a) -> lookup i (exits a) = None /\
              exists n, lookup i (iname s) = Some n /\ (n <> 0 -> In (n, i) (names a));
  rs_built : forall i, In i (map fst (iname s)) -> In i (opened a) \/ lookup i (exits a) <> None;
  rs_seen : forall i, In i (map fst (iname s)) \/ In i (opened a) \/ lookup i (exits a) <> None -> In i seen
}.

Lemma Rseq_init : Rseq impl0 spec0 [].
Proof.
  constructor; cbn; auto; try constructor; try tauto; try discriminate.
Qed.

Lemma Rseq_mono s a seen seen' : Rseq s a seen -> incl seen seen' -> Rseq s a seen'.
Proof. intros [] Hi. constructor; auto. Qed.

Definition is_ret (m : micro) : bool := match m with MRet _ => true | _ => false end.
Lemma exec_ret f s r k : exec (S f) s (MRet r :: k) = (s, Some r).
Proof. reflexivity. Qed.
Lemma exec_micro f s m k : is_ret m = false ->
  exec (S f) s (m :: k) = exec f (fst (mstep s m k)) (snd (mstep s m k)).
Proof. intros H. cbn [exec]. destruct m; try discriminate; destruct (mstep s _ k); reflexivity. Qed.

Ltac estep := first [rewrite exec_ret | rewrite exec_micro by reflexivity].

Lemma NoDup_app_intro {A} (l1 l2 : list A) : NoDup l1 -> NoDup l2 -> (forall x, In x l1 -> In x l2 -> False) -> NoDup (l1 ++ l2).
Proof.
  induction 1 as [|x l Hni Hnd IH]; intros H2 Hd; cbn; [exact H2|]. constructor.
  - rewrite in_app_iff. intros [H|H]; [auto|]. eapply Hd; [left; reflexivity|exact H].
  - apply IH; auto. intros y Hy. apply Hd. right. exact Hy.
Qed.

Definition seq_ok s a seen o :=
  exists s' a' r, run_op s o = (s', Some r) /\ spec_step a o = (a', r) /\ Rseq s' a' (seen_after seen o).

Ltac fields := cbn [nmap mlist closedw iname rt_closed eng_closed notif attached res_log notified registered
                    names opened exits closed_rt set_closedw fst snd].

Lemma seq_look s a seen n : Rseq s a seen -> seq_ok s a seen (OLook n).
Proof.
  intros R. unfold seq_ok, run_op. cbn [compile spec_step seen_after]. estep. cbn [mstep]. fields. estep.
  do 3 eexists. splits; [| reflexivity | exact R].
  rewrite (rs_nmap _ _ _ R). destruct (closed_rt a) eqn:Hc; [|reflexivity].
  destruct (rs_closed_empty _ _ _ R Hc) as [-> _]. destruct (n =? 0); reflexivity.
Qed.

Lemma seq_isclosed s a seen i : Rseq s a seen -> seq_ok s a seen (OIsClosed i).
Proof.
  intros R. unfold seq_ok, run_op. cbn [compile spec_step seen_after]. estep. cbn [mstep]. fields. estep.
  do 3 eexists. splits; [| reflexivity | eapply Rseq_mono; [exact R|intros x Hx; right; exact Hx]].
  rewrite (rs_closedw _ _ _ R). reflexivity.
Qed.

Lemma seq_compile s a seen h : Rseq s a seen -> seq_ok s a seen (OCompile h).
Proof.
  intros R. unfold seq_ok, run_op. cbn [compile spec_step seen_after]. estep. cbn [mstep].
  rewrite (rs_rt _ _ _ R). destruct (closed_rt a) eqn:Hc; fields; estep.
  - do 3 eexists; splits; try reflexivity; exact R.
  - cbn [mstep]. rewrite (rs_nmap _ _ _ R), Hc. fields. estep. do 3 eexists; splits; try reflexivity; exact R.
Qed.

Lemma seq_rtclose s a seen c : Rseq s a seen -> seq_ok s a seen (ORtClose c).
Proof.
  intros R. unfold seq_ok, run_op. cbn [compile spec_step seen_after]. estep. cbn [mstep].
  rewrite (rs_rt _ _ _ R). destruct (closed_rt a) eqn:Hc; fields; estep.
  - do 3 eexists; splits; try reflexivity; exact R.
  - cbn [mstep]. fields. estep. cbn [mstep]. fields. estep.
    do 3 eexists; splits; try reflexivity.
    assert (Hlive : dedup (filter (fun i => negb (is_closed s i)) (mlist s)) = opened a).
    { rewrite (rs_mlist _ _ _ R). rewrite filter_all; [apply dedup_nodup; exact (rs_open_nd _ _ _ R)|]. intros x Hx. unfold is_closed. rewrite (rs_closedw _ _ _ R).
      destruct (rs_open _ _ _ R x Hx) as [-> _]. reflexivity. }
    unfold is_closed in Hlive |- *. fields. rewrite Hlive.
    destruct R as [rs_rt rs_eng rs_nmap rs_closed_empty rs_mlist rs_closedw rs_res rs_nd_exits rs_keys rs_vals rs_names rs_open_nd rs_open rs_built rs_seen]. constructor; fields; auto; try (constructor; fail); try (intros ? ? []; fail); try (intros ? []; fail).
    + congruence.
    + rewrite map_app, map_map. cbn [fst]. rewrite map_id. congruence.
    + rewrite map_app, map_map. cbn [fst]. rewrite map_id. apply NoDup_app_intro; auto.
      intros x Hx Hx'. destruct (rs_open x Hx) as [Hn _]. apply lookup_none_notin in Hn. auto.
    + intros i Hi. right. rewrite lookup_app_map. destruct (mem i (opened a)) eqn:Hm; [discriminate|].
      destruct (rs_built i Hi) as [Ho|Hcl]; [|exact Hcl]. apply mem_in in Ho. congruence.
    + intros i [Hi|[[]|Hi]]; [apply rs_seen; auto|].
      rewrite lookup_app_map in Hi. destruct (mem i (opened a)) eqn:Hm; [apply mem_in in Hm|]; apply rs_seen; auto.
Qed.
Lemma seq_close s a seen i c : Rseq s a seen -> seq_ok s a seen (OClose i c).
Proof.
  intros R. unfold seq_ok, run_op. cbn [compile spec_step seen_after]. estep. cbn [mstep].
  unfold is_closed. rewrite (rs_closedw _ _ _ R).
  destruct (lookup i (exits a)) as [c0|] eqn:Hl; cbn [is_some]; fields; estep.
  - do 3 eexists; splits; try reflexivity. eapply Rseq_mono; [exact R|intros x Hx; right; exact Hx].
  - cbn [mstep]. fields. estep. cbn [mstep]. fields. estep.
    assert (Hnotopen : ~ In i (opened a) -> ~ In i (map snd (names a))).
    { intros Hno Hin. apply in_map_iff in Hin. destruct Hin as ([n' i'] & E & Hin). cbn in E. subst i'.
      apply (rs_names _ _ _ R) in Hin. tauto. }
    assert (Hnm : match nmap s with
                  | None => None
                  | Some m => match lookup i (iname s) with
                              | Some n => if negb (n =? 0) && opt_eqb (lookup n m) (Some i) then Some (del_name n m) else Some m
                              | None => Some m
                              end
                  end = if closed_rt a then None else Some (remove_inst i (names a))).
    { rewrite (rs_nmap _ _ _ R). destruct (closed_rt a); [reflexivity|].
      destruct (in_dec Nat.eq_dec i (opened a)) as [Hio|Hio].
      - destruct (rs_open _ _ _ R i Hio) as (_ & n & Hn & Hnn). rewrite Hn.
        destruct (Nat.eqb_spec n 0) as [->|Hn0]; cbn [negb andb].
        + rewrite remove_inst_notin; [reflexivity|]. intros Hin. apply in_map_iff in Hin.
          destruct Hin as ([n' i'] & E & Hin). cbn in E. subst i'. apply (rs_names _ _ _ R) in Hin.
          destruct Hin as (Hn' & Hl' & _). congruence.
        + specialize (Hnn Hn0). rewrite (lookup_in _ _ _ (rs_keys _ _ _ R) Hnn). cbn [opt_eqb]. rewrite Nat.eqb_refl.
          rewrite (del_name_remove_inst _ _ _ (rs_keys _ _ _ R) (rs_vals _ _ _ R) Hnn). reflexivity.
      - rewrite (remove_inst_notin i (names a)) by auto.
        destruct (lookup i (iname s)) as [n|]; [|reflexivity].
        destruct (negb (n =? 0)); cbn [andb]; [|reflexivity].
        destruct (lookup n (names a)) as [j|] eqn:Hj; cbn [opt_eqb]; [|reflexivity].
        destruct (Nat.eqb_spec j i); [|reflexivity]. subst j. apply lookup_some_in in Hj.
        apply (rs_names _ _ _ R) in Hj. tauto. }
    rewrite Hnm. do 3 eexists; splits; try reflexivity.
    destruct R as [rs_rt rs_eng rs_nmap rs_closed_empty rs_mlist rs_closedw rs_res rs_nd_exits rs_keys rs_vals rs_names rs_open_nd rs_open rs_built rs_seen]. constructor; fields; auto.
    + intros Hc. destruct (rs_closed_empty Hc) as [-> ->]. split; reflexivity.
    + congruence.
    + cbn [map fst]. congruence.
    + cbn [map fst]. constructor; [apply lookup_none_notin; exact Hl|exact rs_nd_exits].
    + apply NoDup_map_filter. exact rs_keys.
    + apply NoDup_map_filter. exact rs_vals.
    + intros n i0 Hin. apply in_remove_inst in Hin. destruct Hin as [Hin Hne]. cbn [snd] in Hne.
      destruct (rs_names _ _ Hin) as (A & B & C). splits; auto. apply in_remove. auto.
    + apply NoDup_filter. exact rs_open_nd.
    + intros i0 Hin. apply in_remove in Hin. destruct Hin as [Hin Hne].
      destruct (rs_open _ Hin) as (A & n & B & C). split.
      * cbn [lookup]. destruct (Nat.eqb_spec i0 i); [contradiction|exact A].
      * exists n. split; [exact B|]. intros Hn0. apply in_remove_inst. cbn [snd]. auto.
    + intros i0 Hin. cbn [lookup]. destruct (Nat.eqb_spec i0 i) as [E|Hne]; [right; discriminate|].
      destruct (rs_built _ Hin) as [Ho|Hcl]; [left; apply in_remove; auto|right; exact Hcl].
    + intros i0 H. cbn [lookup] in H. destruct (Nat.eqb_spec i0 i) as [E|Hne]; [left; congruence|]. right.
      apply rs_seen. destruct H as [H|[H|H]]; auto. apply in_remove in H. tauto.
Qed.
Definition after_fail (s1 : impl) (i : inst) : impl :=
  {| nmap := nmap s1; mlist := remove i (mlist s1); closedw := (i, 0) :: closedw s1; iname := iname s1; rt_closed := rt_closed s1; eng_closed := eng_closed s1;
     notif := remove i (notif s1); attached := attached s1; res_log := i :: res_log s1;
     notified := (if mem i (notif s1) then i :: notified s1 else notified s1); registered := registered s1 |}.

Lemma exec_close_fail f s1 i e n :
  lookup i (closedw s1) = None -> lookup i (iname s1) = Some n ->
  (match nmap s1 with Some m => negb (n =? 0) && opt_eqb (lookup n m) (Some i) = false | None => True end) ->
  exec (S (S (S (S f)))) s1 (close_fail i e) = (after_fail s1 i, Some e).
Proof.
  intros Hcl Hin Hnm. unfold close_fail. estep. cbn [mstep]. unfold is_closed. rewrite Hcl. cbn [is_some]. fields.
  estep. cbn [mstep]. fields. rewrite Hin. cbv beta iota.
  unfold after_fail. destruct (nmap s1) as [m|]; [rewrite Hnm|]; fields; estep; cbn [mstep]; fields; estep; reflexivity.
Qed.

Lemma inst_tail s a seen h n i f : Rseq s a seen -> ~ In i seen -> closed_rt a = false ->
  exists s' a' r, exec (9 + f) s [MChkRt; MBuild n i; MRegister n i; MAttach i; MRet ROk] = (s', Some r) /\
                  spec_step a (OInst h n i) = (a', r) /\ Rseq s' a' (i :: seen).
Proof.
  intros R Hfresh Hc. cbn [spec_step]. rewrite Hc.
  assert (Hio : ~ In i (opened a)) by (intros H; apply Hfresh; apply (rs_seen _ _ _ R); auto).
  assert (Hie : lookup i (exits a) = None).
  { destruct (lookup i (exits a)) eqn:E; [|reflexivity]. exfalso. apply Hfresh. apply (rs_seen _ _ _ R).
    right. right. congruence. }
  assert (Hib : ~ In i (map fst (iname s))) by (intros H; apply Hfresh; apply (rs_seen _ _ _ R); auto).
  assert (Hrt : rt_closed s = false) by (rewrite (rs_rt _ _ _ R); exact Hc).
  assert (Hnm : nmap s = Some (names a)) by (rewrite (rs_nmap _ _ _ R), Hc; reflexivity).
  assert (Heng : eng_closed s = false) by (rewrite (rs_eng _ _ _ R); exact Hc).
  change (9 + f) with (S (S (S (S (S (S (S (S (S f))))))))).
  estep. cbn [mstep]. rewrite Hrt. fields. estep. cbn [mstep]. rewrite Heng. fields. estep. cbn [mstep]. fields. rewrite Hnm.
  destruct (negb (n =? 0) && is_some (lookup n (names a))) eqn:Hdup; fields.
  - rewrite (exec_close_fail _ _ i RErrDup n).
    + do 3 eexists; splits; try reflexivity. unfold after_fail. fields.
      rewrite (rs_mlist _ _ _ R), (remove_notin _ _ Hio).
      assert (Hne : forall i0, In i0 (opened a) -> (i0 =? i) = false).
      { intros i0 H0. apply Nat.eqb_neq. intros ->. exact (Hio H0). }
      destruct R as [rs_rt rs_eng rs_nmap rs_closed_empty rs_mlist rs_closedw rs_res rs_nd_exits rs_keys rs_vals rs_names rs_open_nd rs_open rs_built rs_seen]. constructor; fields; auto.
      * discriminate.
      * congruence.
      * cbn [map fst]. congruence.
      * cbn [map fst]. constructor; [apply lookup_none_notin; exact Hie|exact rs_nd_exits].
      * intros n0 i0 Hin. destruct (rs_names _ _ Hin) as (A & B & C). splits; auto.
        cbn [lookup]. rewrite (Hne _ C). exact B.
      * intros i0 Hin. destruct (rs_open _ Hin) as (A & n0 & B & C). cbn [lookup]. rewrite (Hne _ Hin).
        split; [exact A|]. exists n0. auto.
      * intros i0 Hin. cbn [lookup]. destruct (Nat.eqb_spec i0 i) as [E|Hn]; [right; discriminate|].
        destruct Hin as [E|Hin]; [cbn in E; congruence|]. apply rs_built. exact Hin.
      * intros i0 H. cbn [lookup] in H. destruct (Nat.eqb_spec i0 i) as [E|Hn]; [left; congruence|]. right.
        apply rs_seen. destruct H as [[E|H]|[H|H]]; auto; cbn in E; congruence.
    + fields. rewrite (rs_closedw _ _ _ R). exact Hie.
    + fields. cbn [lookup]. rewrite Nat.eqb_refl. reflexivity.
    + fields. apply andb_true_iff in Hdup. destruct Hdup as [Hn0 Hsome]. rewrite Hn0. cbn [andb].
      destruct (lookup n (names a)) as [j|] eqn:Hj; [|discriminate]. cbn [opt_eqb].
      apply Nat.eqb_neq. intros ->. apply lookup_some_in in Hj. apply (rs_names _ _ _ R) in Hj. tauto.
  - estep. cbn [mstep]. fields. estep.
    do 3 eexists; splits; try reflexivity.
    assert (Hne : forall i0, In i0 (opened a) -> (i0 =? i) = false).
    { intros i0 H0. apply Nat.eqb_neq. intros ->. exact (Hio H0). }
    assert (Hval : ~ In i (map snd (names a))).
    { intros Hin. apply in_map_iff in Hin. destruct Hin as ([n' i'] & E & Hin). cbn in E. subst i'.
      apply (rs_names _ _ _ R) in Hin. tauto. }
    assert (Hkey : (n =? 0) = false -> ~ In n (map fst (names a))).
    { intros Hn0. rewrite Hn0 in Hdup. cbn [negb andb] in Hdup. apply lookup_none_notin.
      destruct (lookup n (names a)); [discriminate|reflexivity]. }
    destruct R as [rs_rt rs_eng rs_nmap rs_closed_empty rs_mlist rs_closedw rs_res rs_nd_exits rs_keys rs_vals rs_names rs_open_nd rs_open rs_built rs_seen]. constructor; fields; auto.
    + discriminate.
    + congruence.
    + destruct (n =? 0) eqn:Hn0; [exact rs_keys|]. cbn [map fst]. constructor; auto.
    + destruct (n =? 0) eqn:Hn0; [exact rs_vals|]. cbn [map snd]. constructor; auto.
    + intros n0 i0 Hin.
      assert (Hcase : (n0 = n /\ i0 = i /\ (n =? 0) = false) \/ In (n0, i0) (names a)).
      { destruct (n =? 0); [right; exact Hin|]. destruct Hin as [E|Hin]; [left; inversion E; auto|right; exact Hin]. }
      destruct Hcase as [(-> & -> & Hn0)|Hin'].
      * splits; [apply Nat.eqb_neq; exact Hn0|cbn [lookup]; rewrite Nat.eqb_refl; reflexivity|left; reflexivity].
      * destruct (rs_names _ _ Hin') as (A & B & C). splits; auto; [|right; exact C].
        cbn [lookup]. rewrite (Hne _ C). exact B.
    + constructor; auto.
    + intros i0 [E|Hin].
      * subst i0. split; [exact Hie|]. exists n. cbn [lookup]. rewrite Nat.eqb_refl. split; [reflexivity|].
        intros Hn0. apply Nat.eqb_neq in Hn0. rewrite Hn0. left. reflexivity.
      * destruct (rs_open _ Hin) as (A & n0 & B & C). split; [exact A|]. exists n0. cbn [lookup]. rewrite (Hne _ Hin).
        split; [exact B|]. intros Hn0. specialize (C Hn0). destruct (n =? 0); [exact C|right; exact C].
    + intros i0 [E|Hin]; [left; left; cbn in E; congruence|].
      destruct (rs_built _ Hin) as [H|H]; [left; right; exact H|right; exact H].
    + intros i0 H. destruct (Nat.eq_dec i0 i) as [E|Hn]; [left; congruence|]. right. apply rs_seen.
      destruct H as [[E|H]|[[E|H]|H]]; auto; cbn in E; congruence.
Qed.

Lemma seq_inst s a seen h n i : Rseq s a seen -> ~ In i seen -> seq_ok s a seen (OInst h n i).
Proof.
  intros R Hfresh. unfold seq_ok, run_op. cbn [seen_after].
  destruct (closed_rt a) eqn:Hc.
  { assert (E : exec 14 s (compile (OInst h n i)) = (s, Some RErrClosed)).
    { destruct h; cbn [compile app]; estep; cbn [mstep]; rewrite (rs_rt _ _ _ R), Hc; fields; estep; reflexivity. }
    rewrite E. cbn [spec_step]. rewrite Hc. do 3 eexists; splits; try reflexivity.
    eapply Rseq_mono; [exact R|intros x Hx; right; exact Hx]. }
  assert (Hrt : rt_closed s = false) by (rewrite (rs_rt _ _ _ R); exact Hc).
  destruct h; cbn [compile app].
  - estep. cbn [mstep]. rewrite Hrt. fields. estep. cbn [mstep]. rewrite (rs_nmap _ _ _ R), Hc. fields.
    exact (inst_tail s a seen true n i 3 R Hfresh Hc).
  - exact (inst_tail s a seen false n i 5 R Hfresh Hc).
Qed.

Lemma seq_step s a seen o : Rseq s a seen -> op_fresh seen o -> seq_ok s a seen o.
Proof.
  intros R Hf. destruct o; cbn [op_fresh] in Hf.
  - apply seq_inst; auto.
  - apply seq_look; auto.
  - apply seq_close; auto.
  - apply seq_isclosed; auto.
  - apply seq_rtclose; auto.
  - apply seq_compile; auto.
Qed.

Lemma wf_ops_cons seen o r : wf_ops seen (o :: r) <-> op_fresh seen o /\ wf_ops (seen_after seen o) r.
Proof. destruct o; cbn; tauto. Qed.

Lemma seq_refines_gen ops : forall s a seen, Rseq s a seen -> wf_ops seen ops ->
  snd (run_ops s ops) = map Some (snd (spec_ops a ops)) /\
  exists seen', Rseq (fst (run_ops s ops)) (fst (spec_ops a ops)) seen'.
Proof.
  induction ops as [|o r IH]; intros s a seen R Hwf.
  - cbn. split; [reflexivity|]. exists seen. exact R.
  - apply wf_ops_cons in Hwf. destruct Hwf as [Hf Hwf].
    destruct (seq_step s a seen o R Hf) as (s' & a' & x & Hrun & Hspec & R').
    cbn [run_ops spec_ops]. rewrite Hrun, Hspec.
    destruct (IH s' a' _ R' Hwf) as [Hr [seen' R'']].
    destruct (run_ops s' r) as [s2 xs]. destruct (spec_ops a' r) as [a2 ys]. cbn [fst snd] in *.
    split; [rewrite Hr; reflexivity|]. exists seen'. exact R''.
Qed.

Lemma count_nodup i l : NoDup l -> count i l = (if mem i l then 1 else 0).
Proof.
  unfold count, mem. induction 1 as [|x l Hni Hnd IH]; cbn; [reflexivity|].
  destruct (Nat.eqb_spec i x) as [->|Hne]; cbn.
  - rewrite IH. destruct (existsb (Nat.eqb x) l) eqn:E; [|reflexivity].
    exfalso. apply Hni. apply existsb_exists in E. destruct E as (y & Hy & E). apply Nat.eqb_eq in E. subst. exact Hy.
  - exact IH.
Qed.

Lemma mem_fst_lookup i (l : list (nat * nat)) : mem i (map fst l) = is_some (lookup i l).
Proof.
  unfold mem. induction l as [|[a b] l IH]; cbn; [reflexivity|]. destruct (i =? a); cbn; [reflexivity|exact IH].
Qed.

(* every sequential history of the step model returns exactly what the abstract registry returns, and at the end
   the resources of an instance have been closed exactly once if it is closed, and never otherwise *)
Lemma seq_refines ops : wf_ops [] ops ->
  snd (run_ops impl0 ops) = map Some (snd (spec_ops spec0 ops)) /\ (forall i, count i (res_log (fst (run_ops impl0 ops))) = (if is_closed (fst (run_ops impl0 ops)) i then 1 else 0)).
Proof.
  intros Hwf. destruct (seq_refines_gen ops impl0 spec0 [] Rseq_init Hwf) as [Hr [seen R]].
  split; [exact Hr|]. intros i. rewrite (rs_res _ _ _ R). unfold is_closed. rewrite <- mem_fst_lookup.
  apply count_nodup. rewrite (rs_closedw _ _ _ R). exact (rs_nd_exits _ _ _ R).
Qed.

Example seq_example :
  let ops := [OInst false 1 1; OInst false 1 2; OLook 1; OClose 1 7; OClose 1 9; OIsClosed 1; OLook 1; OInst true 1 3; OLook 1;
              OInst false 0 4; ORtClose 5; OIsClosed 3; OIsClosed 4; OCompile false; OCompile true; OInst true 2 5; OInst false 2 6; OLook 1] in
  wf_ops [] ops /\ snd (spec_ops spec0 ops) =
    [ROk; RErrDup; RLook (Some 1); ROk; ROk; RExit (Some 7); RLook None; ROk; RLook (Some 3); ROk; ROk; RExit (Some 5); RExit (Some 5);
     RErrClosed; RErrClosed; RErrClosed; RErrClosed; RLook None].
Proof. cbv zeta. split; [cbn; intuition lia|vm_compute; reflexivity]. Qed.
(* ================================================================== 4. the CAS winner is unique: resources closed / notification fired once *)
(* number of resource closes of instance [i] that the rest [ms] of an operation is committed to (a CAS on i guards them) *)
Fixpoint pend (i : nat) (ms : list micro) : nat :=
  match ms with
  | [] => 0
  | MCas j _ :: k => if j =? i then 0 else pend i k
  | MRes j :: k => (if j =? i then 1 else 0) + pend i k
  | _ :: k => pend i k
  end.

(* shape of the rest of an operation *)
Fixpoint wfk (ms : list micro) : Prop :=
  match ms with
  | [] => True
  | MCas i _ :: k => exists e, k = [MDelete i; MRes i; MRet e]
  | MChkRt :: k | MTypeIDs :: k | MBuild _ _ :: k | MRegister _ _ :: k | MRtCas _ :: k | MLookup _ :: k | MLoad _ :: k | MRet _ :: k =>
      (forall j, pend j k = 0) /\ wfk k
  | _ :: k => wfk k
  end.

Definition b2n (b : bool) : nat := if b then 1 else 0.

Lemma wfk_compile o : wfk (compile o) /\ forall j, pend j (compile o) = 0.
Proof.
  destruct o as [[|] n i|n|i c|i|c|h]; cbn; splits; auto; try (eexists; reflexivity); intros j;
    try destruct (i =? j); reflexivity.
Qed.

Lemma pend_close_fail i e j : pend j (close_fail i e) = 0.
Proof. cbn. destruct (i =? j); reflexivity. Qed.

Lemma count_cons i j l : count i (j :: l) = b2n (i =? j) + count i l.
Proof. unfold count. cbn. destruct (i =? j); reflexivity. Qed.

Lemma count_app i l1 l2 : count i (l1 ++ l2) = count i l1 + count i l2.
Proof. unfold count. rewrite filter_app, app_length. reflexivity. Qed.

Lemma dedup_in i l : In i (dedup l) <-> In i l.
Proof.
  induction l as [|a l IH]; cbn; [tauto|]. destruct (mem a l) eqn:E.
  - apply mem_in in E. rewrite IH. split; [auto|]. intros [->|H]; auto.
  - cbn. rewrite IH. tauto.
Qed.

Lemma dedup_NoDup l : NoDup (dedup l).
Proof.
  induction l as [|a l IH]; cbn; [constructor|]. destruct (mem a l) eqn:E; [exact IH|].
  constructor; [|exact IH]. rewrite dedup_in. intros H. apply mem_in in H. congruence.
Qed.

Lemma count_le_1 i l : NoDup l -> count i l = b2n (mem i l).
Proof. intros H. rewrite count_nodup by exact H. reflexivity. Qed.

(* one micro step: shape kept, and the balance  pending + closed-resources  follows the closed word *)
Lemma mstep_balance s m k : is_ret m = false -> wfk (m :: k) ->
  wfk (snd (mstep s m k)) /\
  forall i, pend i (snd (mstep s m k)) + count i (res_log (fst (mstep s m k))) + b2n (is_closed s i)
            = pend i (m :: k) + count i (res_log s) + b2n (is_closed (fst (mstep s m k)) i).
Proof.
  intros Hr Hw. destruct m; try discriminate Hr; cbn [mstep]; cbn [wfk] in Hw.
  - (* MChkRt *) destruct Hw as [Hp Hw]. destruct (rt_closed s); cbn [fst snd]; (split; [cbn; auto|]); intros i; cbn [pend]; rewrite ?Hp; cbn; lia.
  - (* MTypeIDs *) destruct Hw as [Hp Hw]. destruct (nmap s); cbn [fst snd]; (split; [cbn; auto|]); intros j; cbn [pend]; rewrite ?Hp; cbn; lia.
  - (* MBuild *) destruct Hw as [Hp Hw]. destruct (eng_closed s); cbn [fst snd res_log]; (split; [cbn; auto|]); intros j; cbn [pend]; rewrite ?Hp;
      unfold is_closed; cbn [closedw]; lia.
  - (* MRegister *) destruct Hw as [Hp Hw].
    assert (Hf : forall e, wfk (close_fail i e)) by (intros e; cbn; eexists; reflexivity).
    destruct (nmap s) as [m|]; [destruct (negb (n =? 0) && is_some (lookup n m))|]; cbn [fst snd res_log];
      (split; [auto|]); intros j; rewrite ?pend_close_fail; cbn [pend]; rewrite ?Hp; unfold is_closed; cbn [closedw]; lia.
  - (* MAttach *) cbn [fst snd res_log]. split; [exact Hw|]. intros j. unfold is_closed. cbn [closedw pend]. lia.
  - (* MCas *) destruct Hw as [e ->]. unfold is_closed. destruct (lookup i (closedw s)) eqn:Hl; cbn [is_some fst snd].
    + split; [cbn; auto|]. intros j. cbn [pend]. destruct (Nat.eqb_spec i j); cbn; lia.
    + split; [cbn; auto|]. intros j. cbn [pend set_closedw res_log closedw lookup].
      rewrite (Nat.eqb_sym j i). destruct (Nat.eqb_spec i j); [subst; rewrite Hl|]; cbn; lia.
  - (* MDelete *) cbn [fst snd res_log]. split; [exact Hw|]. intros j. unfold is_closed. cbn [closedw pend]. lia.
  - (* MRes *) cbn [fst snd res_log]. split; [exact Hw|]. intros j. unfold is_closed. cbn [closedw pend]. rewrite count_cons.
    rewrite (Nat.eqb_sym j i). unfold b2n. destruct (i =? j); lia.
  - (* MLookup *) destruct Hw as [Hp Hw]. cbn [fst snd]. split; [cbn; auto|]. intros j. cbn [pend]. rewrite Hp. lia.
  - (* MLoad *) destruct Hw as [Hp Hw]. cbn [fst snd]. split; [cbn; auto|]. intros j. cbn [pend]. rewrite Hp. lia.
  - (* MRtCas *) destruct Hw as [Hp Hw]. destruct (rt_closed s); cbn [fst snd res_log]; (split; [cbn; auto|]); intros j; cbn [pend]; rewrite ?Hp;
      unfold is_closed; cbn [closedw]; lia.
  - (* MStoreClose *) cbn [fst snd res_log]. split; [exact Hw|]. intros j. cbn [pend]. unfold is_closed. cbn [closedw].
    set (live := dedup (filter (fun i => negb (is_some (lookup i (closedw s)))) (mlist s))).
    rewrite lookup_app_map, count_app. rewrite (count_le_1 j live) by apply dedup_NoDup.
    destruct (mem j live) eqn:Hm; cbn [b2n is_some].
    + apply mem_in in Hm. unfold live in Hm. apply (proj1 (dedup_in _ _)) in Hm. apply filter_In in Hm. destruct Hm as [_ Hm]. apply negb_true_iff in Hm.
      rewrite Hm. cbn. lia.
    + lia.
  - (* MEngClose *) cbn [fst snd res_log]. split; [exact Hw|]. intros j. unfold is_closed. cbn [closedw pend]. lia.
Qed.

Definition invB (s : impl) : Prop := forall i, count i (notified s) <= count i (res_log s).
Definition invC (s : impl) : Prop := forall i, In i (attached s) -> In i (notif s) \/ 1 <= count i (notified s).

Lemma count_filter_le i f l : count i (filter f l) <= count i l.
Proof.
  unfold count. induction l as [|a l IH]; cbn; [lia|]. destruct (f a); cbn; destruct (i =? a); cbn; lia.
Qed.

Lemma count_pos i l : In i l -> 1 <= count i l.
Proof.
  unfold count. induction l as [|a l IH]; cbn; [tauto|]. intros [->|H].
  - rewrite Nat.eqb_refl. cbn. lia.
  - destruct (i =? a); cbn; [lia|auto].
Qed.

Lemma mstep_BC s m k : invB s -> invC s -> invB (fst (mstep s m k)) /\ invC (fst (mstep s m k)).
Proof.
  intros HB HC. destruct m; cbn [mstep];
    try (repeat match goal with |- context [if ?b then _ else _] => destruct b
                         | |- context [match ?x with Some _ => _ | None => _ end] => destruct x end;
         cbn [fst]; split; assumption); cbn [fst].
  - (* MAttach *) split; [exact HB|]. intros j. cbn [attached notif notified]. intros [->|H]; [left; left; reflexivity|].
    destruct (HC j H); [left; right; assumption|right; assumption].
  - (* MRes *) split.
    + intros j. cbn [notified res_log]. specialize (HB j). rewrite count_cons.
      destruct (mem i (notif s)); [rewrite count_cons|]; lia.
    + intros j. cbn [attached notif notified]. intros H. destruct (Nat.eq_dec j i) as [->|Hne].
      * destruct (mem i (notif s)) eqn:Hm; [right; rewrite count_cons, Nat.eqb_refl; cbn; lia|].
        destruct (HC i H) as [Hin|Hc]; [apply mem_in in Hin; congruence|right; exact Hc].
      * destruct (HC j H) as [Hin|Hc]; [left; apply in_remove; auto|right].
        destruct (mem i (notif s)); [rewrite count_cons|]; lia.
  - (* MStoreClose *) set (live := dedup (filter (fun i => negb (is_closed s i)) (mlist s))). split.
    + intros j. cbn [notified res_log]. rewrite !count_app. specialize (HB j).
      pose proof (count_filter_le j (fun i => mem i (notif s)) live). lia.
    + intros j. cbn [attached notif notified]. intros H. rewrite count_app.
      destruct (HC j H) as [Hin|Hc]; [|right; lia].
      destruct (mem j live) eqn:Hm.
      * right. apply mem_in in Hm. assert (In j (filter (fun i => mem i (notif s)) live)).
        { apply filter_In. split; [exact Hm|apply mem_in; exact Hin]. }
        apply count_pos in H0. lia.
      * left. apply filter_In. split; [exact Hin|]. rewrite Hm. reflexivity.
Qed.

Definition pendt (i : nat) (t : thr) : nat := match cur t with Some (_, _, ms) => pend i ms | None => 0 end.
Definition wft (t : thr) : Prop := match cur t with Some (_, _, ms) => wfk ms | None => True end.

Record cinv (c : config) : Prop := {
  ci_wf : Forall wft (thrs c);
  ci_bal : forall i, list_sum (map (pendt i) (thrs c)) + count i (res_log (st c)) = b2n (is_closed (st c) i);
  ci_B : invB (st c);
  ci_C : invC (st c) }.

Lemma Forall_replace_nth {A} (P : A -> Prop) k x l : Forall P l -> P x -> Forall P (replace_nth k x l).
Proof.
  intros H Hx. revert k. induction H as [|a l Ha Hl IH]; intros [|k]; cbn; constructor; auto.
Qed.

Lemma tstep_cinv a c k c' : cinv c -> tstep a c k = Some c' -> cinv c'.
Proof.
  intros [Hwf Hbal HB HC]. unfold tstep. destruct (nth_error (thrs c) k) as [t|] eqn:Hn; [|discriminate].
  destruct (a && blocked (hold c) k); [discriminate|].
  assert (Hwt : wft t) by (rewrite Forall_forall in Hwf; apply Hwf; eapply nth_error_In; eauto).
  destruct (cur t) as [[[o inv] ms]|] eqn:Hc.
  - destruct ms as [|m ms]; [discriminate|].
    assert (Hpt : forall i, pendt i t = pend i (m :: ms)) by (intros i; unfold pendt; rewrite Hc; reflexivity).
    unfold wft in Hwt. rewrite Hc in Hwt.
    destruct (is_ret m) eqn:Hr.
    + destruct m; try discriminate Hr. intros H. inversion H; subst; clear H. cbn [wfk] in Hwt. destruct Hwt as [Hp _].
      constructor; cbn [thrs st]; auto.
      * apply Forall_replace_nth; [exact Hwf|exact I].
      * intros i. pose proof (sum_replace_nth (pendt i) k {| todo := todo t; cur := None |} _ _ Hn) as Hs.
        rewrite Hpt in Hs. cbn [pend] in Hs. rewrite Hp in Hs. unfold pendt at 3 in Hs. cbn [cur] in Hs.
        specialize (Hbal i). lia.
    + pose proof (mstep_balance (st c) m ms Hr Hwt) as [Hw' Hb'].
      pose proof (mstep_BC (st c) m ms HB HC) as [HB' HC'].
      assert (Hgen : forall s' ms', mstep (st c) m ms = (s', ms') -> forall hd hi cl,
                cinv {| st := s'; thrs := replace_nth k {| todo := todo t; cur := Some (o, inv, ms') |} (thrs c);
                        clk := cl; hist := hi; hold := hd |}).
      { intros s' ms' E hd hi cl. rewrite E in *. cbn [fst snd] in *. constructor; cbn [thrs st]; auto.
        - apply Forall_replace_nth; [exact Hwf|exact Hw'].
        - intros i. pose proof (sum_replace_nth (pendt i) k {| todo := todo t; cur := Some (o, inv, ms') |} _ _ Hn) as Hs.
          rewrite Hpt in Hs. unfold pendt at 3 in Hs. cbn [cur] in Hs. specialize (Hbal i). specialize (Hb' i). lia. }
      destruct m; try discriminate Hr; intros H;
        (destruct (mstep (st c) _ ms) as [s' ms'] eqn:E; inversion H; subst; eapply Hgen; reflexivity).
  - destruct (todo t) as [|o rest] eqn:Hd; [discriminate|]. intros H. inversion H; subst; clear H.
    destruct (wfk_compile o) as [Hw Hp].
    constructor; cbn [thrs st]; auto.
    + apply Forall_replace_nth; [exact Hwf|exact Hw].
    + intros i. pose proof (sum_replace_nth (pendt i) k {| todo := rest; cur := Some (o, clk c, compile o) |} _ _ Hn) as Hs.
      assert (E1 : pendt i t = 0) by (unfold pendt; rewrite Hc; reflexivity).
      assert (E2 : pendt i {| todo := rest; cur := Some (o, clk c, compile o) |} = 0) by (unfold pendt; cbn [cur]; apply Hp).
      specialize (Hbal i). lia.
Qed.

Lemma run_sched_cinv a sched : forall c c', cinv c -> run_sched a c sched = Some c' -> cinv c'.
Proof.
  induction sched as [|k r IH]; intros c c' Hi H; cbn in H.
  - inversion H; subst. exact Hi.
  - destruct (tstep a c k) as [c1|] eqn:Ht; [|discriminate]. eapply IH; [|exact H]. eapply tstep_cinv; eauto.
Qed.

(* states from which the concurrent phase may start: nothing half-closed *)
Definition base_ok (s : impl) : Prop :=
  (forall i, count i (res_log s) = b2n (is_closed s i)) /\ invB s /\ invC s.

Lemma base_ok_impl0 : base_ok impl0.
Proof. unfold base_ok, invB, invC. cbn. splits; auto; tauto. Qed.

Lemma init_cinv s prog : base_ok s -> cinv (init s prog).
Proof.
  intros (H1 & HB & HC). constructor; cbn [init thrs st]; auto.
  - apply Forall_forall. intros t Ht. apply in_map_iff in Ht. destruct Ht as (ops & <- & _). exact I.
  - intros i. rewrite <- H1. assert (E : list_sum (map (pendt i) (map mk prog)) = 0).
    { induction prog; cbn; auto. }
    rewrite E. reflexivity.
Qed.

Lemma finished_no_pending c i : finished c = true -> list_sum (map (pendt i) (thrs c)) = 0.
Proof.
  unfold finished. induction (thrs c) as [|t l IH]; [reflexivity|]. cbn [forallb map].
  intros H. apply andb_true_iff in H. destruct H as [Ht Hl]. specialize (IH Hl).
  assert (E : pendt i t = 0) by (unfold thr_done in Ht; unfold pendt; destruct (cur t); [discriminate|reflexivity]).
  change (list_sum (pendt i t :: map (pendt i) l)) with (pendt i t + list_sum (map (pendt i) l)). lia.
Qed.

(* C10_close_once *)
Lemma close_once a s0 prog sched c : base_ok s0 -> run_sched a (init s0 prog) sched = Some c ->
  forall i,
    count i (res_log (st c)) <= 1 /\ count i (notified (st c)) <= 1 /\
    (count i (res_log (st c)) = 1 -> is_closed (st c) i = true) /\
    (finished c = true -> is_closed (st c) i = true ->
       count i (res_log (st c)) = 1 /\
       (In i (attached (st c)) -> ~ In i (notif (st c)) -> count i (notified (st c)) = 1)).
Proof.
  intros Hb Hr i. pose proof (run_sched_cinv _ _ _ _ (init_cinv s0 prog Hb) Hr) as [Hwf Hbal HB HC].
  specialize (Hbal i). specialize (HB i). unfold b2n in Hbal. splits.
  - destruct (is_closed (st c) i); lia.
  - destruct (is_closed (st c) i); lia.
  - intros H. destruct (is_closed (st c) i); [reflexivity|lia].
  - intros Hf Hcl. rewrite (finished_no_pending c i Hf), Hcl in Hbal. split; [lia|].
    intros Hat Hno. destruct (HC i Hat) as [H|H]; [contradiction|lia].
Qed.
(* ================================================================== 5. after the runtime is closed *)
Definition step_invoke (c : config) (k : nat) (t : thr) (o : op) (rest : list op) : config :=
  {| st := st c; thrs := replace_nth k {| todo := rest; cur := Some (o, clk c, compile o) |} (thrs c);
     clk := S (clk c); hist := hist c; hold := hold c |}.
Definition step_return (c : config) (k : nat) (t : thr) (o : op) (inv : nat) (r : ret) : config :=
  {| st := st c; thrs := replace_nth k {| todo := todo t; cur := None |} (thrs c); clk := S (clk c);
     hist := {| e_thr := k; e_op := o; e_ret := r; e_inv := inv; e_res := clk c |} :: hist c; hold := hold c |}.
Definition step_micro (a : bool) (c : config) (k : nat) (t : thr) (o : op) (inv : nat) (m : micro) (ms : list micro) : config :=
  {| st := fst (mstep (st c) m ms);
     thrs := replace_nth k {| todo := todo t; cur := Some (o, inv, snd (mstep (st c) m ms)) |} (thrs c);
     clk := S (clk c); hist := hist c;
     hold := (if a then (if in_window (snd (mstep (st c) m ms)) then Some k else None) else None) |}.

Lemma tstep_cases a c k c' : tstep a c k = Some c' ->
  exists t, nth_error (thrs c) k = Some t /\
    ((exists o rest, cur t = None /\ todo t = o :: rest /\ c' = step_invoke c k t o rest) \/
     (exists o inv r ms, cur t = Some (o, inv, MRet r :: ms) /\ c' = step_return c k t o inv r) \/
     (exists o inv m ms, cur t = Some (o, inv, m :: ms) /\ is_ret m = false /\ c' = step_micro a c k t o inv m ms)).
Proof.
  unfold tstep. destruct (nth_error (thrs c) k) as [t|] eqn:Hn; [|discriminate].
  destruct (a && blocked (hold c) k); [discriminate|]. exists t. split; [reflexivity|].
  destruct (cur t) as [[[o inv] ms]|] eqn:Hc.
  - destruct ms as [|m ms]; [discriminate|]. destruct (is_ret m) eqn:Hr.
    + destruct m; try discriminate Hr. inversion H; subst. right. left. do 4 eexists. split; reflexivity.
    + right. right. exists o, inv, m, ms. split; [reflexivity|]. split; [exact Hr|].
      unfold step_micro. destruct m; try discriminate Hr; destruct (mstep (st c) _ ms) as [s' ms'] eqn:E; inversion H; reflexivity.
  - destruct (todo t) as [|o rest] eqn:Hd; [discriminate|]. inversion H; subst. left. exists o, rest. auto.
Qed.

Lemma in_replace_nth {A} k (x : A) l y : In y (replace_nth k x l) -> y = x \/ In y l.
Proof.
  revert k. induction l as [|a l IH]; intros [|k]; cbn; auto.
  - intros [H|H]; auto.
  - intros [H|H]; auto. destruct (IH _ H); auto.
Qed.

(* ---- clocks: invocation < response < now *)
Definition clkinv (c : config) : Prop :=
  (forall e, In e (hist c) -> e_inv e < e_res e /\ e_res e < clk c) /\
  (forall t o inv ms, In t (thrs c) -> cur t = Some (o, inv, ms) -> inv < clk c).

Lemma tstep_clkinv a c k c' : clkinv c -> tstep a c k = Some c' -> clkinv c'.
Proof.
  intros [Hh Ht] H. apply tstep_cases in H. destruct H as (t & Hn & [H|[H|H]]).
  - destruct H as (o & rest & Hc & Hd & ->). split; cbn [step_invoke hist thrs clk].
    + intros e He. specialize (Hh e He). lia.
    + intros t' o' inv' ms' Hin Hc'. apply in_replace_nth in Hin. destruct Hin as [->|Hin].
      * cbn in Hc'. inversion Hc'; subst. lia.
      * specialize (Ht _ _ _ _ Hin Hc'). lia.
  - destruct H as (o & inv & r & ms & Hc & ->). split; cbn [step_return hist thrs clk].
    + intros e [<-|He]; cbn [e_inv e_res].
      * pose proof (Ht _ _ _ _ (nth_error_In _ _ Hn) Hc). lia.
      * specialize (Hh e He). lia.
    + intros t' o' inv' ms' Hin Hc'. apply in_replace_nth in Hin. destruct Hin as [->|Hin]; [discriminate|].
      specialize (Ht _ _ _ _ Hin Hc'). lia.
  - destruct H as (o & inv & m & ms & Hc & Hr & ->). split; cbn [step_micro hist thrs clk].
    + intros e He. specialize (Hh e He). lia.
    + intros t' o' inv' ms' Hin Hc'. apply in_replace_nth in Hin. destruct Hin as [->|Hin].
      * cbn in Hc'. inversion Hc'; subst. pose proof (Ht _ _ _ _ (nth_error_In _ _ Hn) Hc). lia.
      * specialize (Ht _ _ _ _ Hin Hc'). lia.
Qed.

Lemma run_sched_clkinv a sched : forall c c', clkinv c -> run_sched a c sched = Some c' -> clkinv c'.
Proof.
  induction sched as [|k r IH]; intros c c' Hi H; cbn in H.
  - inversion H; subst. exact Hi.
  - destruct (tstep a c k) as [c1|] eqn:Ht; [|discriminate]. eapply IH; [|exact H]. eapply tstep_clkinv; eauto.
Qed.

Lemma init_clkinv s prog : clkinv (init s prog).
Proof.
  split; cbn [init hist thrs clk]; [intros e []|].
  intros t o inv ms Hin Hc. apply in_map_iff in Hin. destruct Hin as (ops & <- & _). discriminate.
Qed.

(* ---- the closed flag of the runtime is never reset; closed words are never reset *)
Lemma mstep_rt_closed s m k : rt_closed s = true -> rt_closed (fst (mstep s m k)) = true.
Proof.
  intros H. destruct m; cbn [mstep];
    repeat match goal with |- context [if ?b then _ else _] => destruct b eqn:?
                         | |- context [match ?x with Some _ => _ | None => _ end] => destruct x eqn:? end;
    cbn [fst rt_closed set_closedw]; auto; congruence.
Qed.

Lemma mstep_closed_mono s m k i : is_closed s i = true -> is_closed (fst (mstep s m k)) i = true.
Proof.
  unfold is_closed. intros H. destruct m; cbn [mstep];
    repeat match goal with |- context [if ?b then _ else _] => destruct b
                         | |- context [match nmap ?x with Some _ => _ | None => _ end] => destruct (nmap x) end;
    cbn [fst closedw set_closedw]; auto.
  - cbn [lookup]. destruct (i =? i0); auto.
  - rewrite lookup_app_map. destruct (mem i _); auto.
Qed.

(* ---- every compile / instantiate invoked once the runtime's closed flag is set fails *)
Definition icomp (o : op) : bool := match o with OInst _ _ _ => true | OCompile _ => true | _ => false end.

Definition rtinv (T : nat) (c : config) : Prop :=
  rt_closed (st c) = true /\
  (forall e, In e (hist c) -> T <= e_inv e -> icomp (e_op e) = true -> e_ret e = RErrClosed) /\
  (forall t o inv ms, In t (thrs c) -> cur t = Some (o, inv, ms) -> T <= inv -> icomp o = true ->
     ms = compile o \/ ms = [MRet RErrClosed]).

Lemma compile_icomp o : icomp o = true -> exists k, compile o = MChkRt :: k.
Proof. destruct o as [[|] n i|n|i c|i|c|h]; try discriminate; intros _; cbn; eexists; reflexivity. Qed.

Lemma tstep_rtinv T a c k c' : rtinv T c -> tstep a c k = Some c' -> rtinv T c'.
Proof.
  intros (Hrt & Hh & Ht) H. apply tstep_cases in H. destruct H as (t & Hn & [H|[H|H]]).
  - destruct H as (o & rest & Hc & Hd & ->). unfold rtinv. cbn [step_invoke st hist thrs]. splits; auto.
    intros t' o' inv' ms' Hin Hc'. apply in_replace_nth in Hin. destruct Hin as [->|Hin]; [|eauto].
    cbn in Hc'. inversion Hc'; subst. auto.
  - destruct H as (o & inv & r & ms & Hc & ->). unfold rtinv. cbn [step_return st hist thrs]. splits; auto.
    + intros e [<-|He]; [|auto]. cbn [e_inv e_op e_ret]. intros HT Hi.
      destruct (Ht _ _ _ _ (nth_error_In _ _ Hn) Hc HT Hi) as [E|E].
      * destruct (compile_icomp o Hi) as [k' Ek]. congruence.
      * inversion E; reflexivity.
    + intros t' o' inv' ms' Hin Hc'. apply in_replace_nth in Hin. destruct Hin as [->|Hin]; [discriminate|eauto].
  - destruct H as (o & inv & m & ms & Hc & Hr & ->). unfold rtinv. cbn [step_micro st hist thrs]. splits; auto.
    + apply mstep_rt_closed. exact Hrt.
    + intros t' o' inv' ms' Hin Hc'. apply in_replace_nth in Hin. destruct Hin as [->|Hin]; [|eauto].
      cbn in Hc'. inversion Hc'; subst. intros HT Hi. right.
      destruct (Ht _ _ _ _ (nth_error_In _ _ Hn) Hc HT Hi) as [E|E].
      * destruct (compile_icomp o' Hi) as [k' Ek]. rewrite Ek in E. inversion E; subst. cbn [mstep]. rewrite Hrt. reflexivity.
      * inversion E; subst. discriminate Hr.
Qed.

Lemma run_sched_rtinv T a sched : forall c c', rtinv T c -> run_sched a c sched = Some c' -> rtinv T c'.
Proof.
  induction sched as [|k r IH]; intros c c' Hi H; cbn in H.
  - inversion H; subst. exact Hi.
  - destruct (tstep a c k) as [c1|] eqn:Ht; [|discriminate]. eapply IH; [|exact H]. eapply tstep_rtinv; eauto.
Qed.

Lemma after_rt_close_fail a s0 prog s1 c1 s2 c2 :
  run_sched a (init s0 prog) s1 = Some c1 -> rt_closed (st c1) = true -> run_sched a c1 s2 = Some c2 ->
  rt_closed (st c2) = true /\
  forall e, In e (hist c2) -> clk c1 <= e_inv e -> icomp (e_op e) = true -> e_ret e = RErrClosed.
Proof.
  intros H1 Hrt H2. pose proof (run_sched_clkinv _ _ _ _ (init_clkinv s0 prog) H1) as [Ch Ct].
  assert (Hi : rtinv (clk c1) c1).
  { unfold rtinv. splits; [exact Hrt| |].
    - intros e He HT. destruct (Ch e He). lia.
    - intros t o inv ms Hin Hc HT. specialize (Ct _ _ _ _ Hin Hc). lia. }
  destruct (run_sched_rtinv _ _ _ _ _ Hi H2) as (A & B & _). split; assumption.
Qed.

(* ---- once the store has been swept every registered module is closed *)
Fixpoint ungd (i : nat) (ms : list micro) : bool :=
  match ms with
  | [] => false
  | MCas j _ :: k => if j =? i then false else ungd i k
  | MDelete j :: k => (j =? i) || ungd i k
  | _ :: k => ungd i k
  end.

Definition reginv (c : config) : Prop :=
  (forall i, In i (registered (st c)) -> In i (mlist (st c)) \/ is_closed (st c) i = true) /\
  (nmap (st c) = None -> mlist (st c) = []) /\
  (forall t o inv ms i, In t (thrs c) -> cur t = Some (o, inv, ms) -> ungd i ms = true -> is_closed (st c) i = true).

Lemma ungd_compile o i : ungd i (compile o) = false.
Proof. destruct o as [[|] n j|n|j c|j|c|h]; cbn; try reflexivity. destruct (j =? i); reflexivity. Qed.

Lemma ungd_close_fail j e i : ungd i (close_fail j e) = false.
Proof. cbn. destruct (j =? i); reflexivity. Qed.

(* the rest of the operation after one micro step commits to no new unguarded delete, except after winning the CAS *)
Lemma mstep_ungd s m k i : ungd i (snd (mstep s m k)) = true ->
  ungd i (m :: k) = true \/ is_closed (fst (mstep s m k)) i = true.
Proof.
  destruct m; cbn [mstep];
    repeat match goal with |- context [if ?b then _ else _] => destruct b eqn:?
                         | |- context [match ?x with Some _ => _ | None => _ end] => destruct x eqn:? end;
    cbn [fst snd]; rewrite ?ungd_close_fail; cbn [ungd]; auto; try discriminate.
  1: { intros H. destruct (Nat.eqb_spec i0 i) as [->|Hne]; [|left; exact H].
       right. unfold is_closed. cbn [set_closedw closedw lookup]. rewrite Nat.eqb_refl. reflexivity. }
  all: intros H; left; rewrite H; apply orb_true_r.
Qed.

Lemma tstep_reginv a c k c' : reginv c -> tstep a c k = Some c' -> reginv c'.
Proof.
  intros (Hreg & Hnil & Hth) H. apply tstep_cases in H. destruct H as (t & Hn & [H|[H|H]]).
  - destruct H as (o & rest & Hc & Hd & ->). unfold reginv. cbn [step_invoke st thrs]. splits; auto.
    intros t' o' inv' ms' i Hin Hc'. apply in_replace_nth in Hin. destruct Hin as [->|Hin]; [|eauto].
    cbn in Hc'. inversion Hc'; subst. rewrite ungd_compile. discriminate.
  - destruct H as (o & inv & r & ms & Hc & ->). unfold reginv. cbn [step_return st thrs]. splits; auto.
    intros t' o' inv' ms' i Hin Hc'. apply in_replace_nth in Hin. destruct Hin as [->|Hin]; [discriminate|eauto].
  - destruct H as (o & inv & m & ms & Hc & Hr & ->). unfold reginv. cbn [step_micro st thrs].
    assert (Hth' : forall t' o' inv' ms' i, In t' (replace_nth k {| todo := todo t; cur := Some (o, inv, snd (mstep (st c) m ms)) |} (thrs c)) ->
              cur t' = Some (o', inv', ms') -> ungd i ms' = true -> is_closed (fst (mstep (st c) m ms)) i = true).
    { intros t' o' inv' ms' i Hin Hc' Hu. apply in_replace_nth in Hin. destruct Hin as [->|Hin].
      - cbn in Hc'. inversion Hc'; subst. destruct (mstep_ungd _ _ _ _ Hu) as [H|H]; [|exact H].
        apply mstep_closed_mono. eapply Hth; [eapply nth_error_In; exact Hn|exact Hc|exact H].
      - apply mstep_closed_mono. eauto. }
    splits; [| |exact Hth'].
    + (* registered modules are listed or closed *)
      unfold is_closed in Hreg, Hth |- *.
      intros i. destruct m; try discriminate Hr; cbn [mstep];
        repeat match goal with |- context [if ?b then _ else _] => destruct b eqn:?
                             | |- context [match nmap ?x with Some _ => _ | None => _ end] => destruct (nmap x) eqn:? end;
        cbn [fst registered mlist set_closedw]; cbn [closedw set_closedw]; try (intros H; exact (Hreg _ H)).
      all: match goal with
           | |- In _ (_ :: registered _) -> _ =>
               intros [<-|H]; [left; left; reflexivity|]; destruct (Hreg _ H); [left; right; assumption|right; assumption]
           | |- _ -> _ \/ is_some (lookup _ ((_, _) :: _)) = true =>
               intros H; destruct (Hreg _ H) as [H'|H']; [left; exact H'|right]; cbn [lookup];
               match goal with |- context [if ?b then _ else _] => destruct b end; [reflexivity|exact H']
           | |- _ -> In _ (remove ?j _) \/ _ =>
               intros H; destruct (Nat.eq_dec i j) as [->|Hne];
               [right; eapply Hth; [eapply nth_error_In; exact Hn|exact Hc|]; cbn [ungd]; rewrite Nat.eqb_refl; reflexivity
               |destruct (Hreg _ H) as [H'|H']; [left; apply in_remove; auto|right; exact H']]
           | |- _ -> In _ [] \/ _ => idtac
           end.
      (* sweep *) intros H. right. rewrite lookup_app_map.
      set (live := dedup (filter (fun i => negb (is_closed (st c) i)) (mlist (st c)))).
      destruct (mem i live) eqn:Hm; [reflexivity|]. destruct (Hreg _ H) as [H'|H']; [|exact H'].
      destruct (is_some (lookup i (closedw (st c)))) eqn:Hcl; [reflexivity|]. exfalso.
      assert (In i live). { apply dedup_in. apply filter_In. split; [exact H'|]. unfold is_closed. rewrite Hcl. reflexivity. }
      apply mem_in in H0. congruence.
    + (* nil map means empty list *)
      destruct m; try discriminate Hr; cbn [mstep];
        repeat match goal with |- context [if ?b then _ else _] => destruct b eqn:?
                             | |- context [match nmap ?x with Some _ => _ | None => _ end] => destruct (nmap x) eqn:? end;
        cbn [fst nmap mlist set_closedw]; auto; try discriminate.
      all: try (destruct (lookup i (iname (st c))); [destruct (_ && _)|]; discriminate).
      all: intros HH; first [congruence | apply Hnil; congruence | rewrite Hnil by congruence; reflexivity].
Qed.

Lemma run_sched_reginv a sched : forall c c', reginv c -> run_sched a c sched = Some c' -> reginv c'.
Proof.
  induction sched as [|k r IH]; intros c c' Hi H; cbn in H.
  - inversion H; subst. exact Hi.
  - destruct (tstep a c k) as [c1|] eqn:Ht; [|discriminate]. eapply IH; [|exact H]. eapply tstep_reginv; eauto.
Qed.

Definition base_reg (s : impl) : Prop :=
  (forall i, In i (registered s) -> In i (mlist s) \/ is_closed s i = true) /\ (nmap s = None -> mlist s = []).

Lemma base_reg_impl0 : base_reg impl0.
Proof. split; cbn; [tauto|discriminate]. Qed.

Lemma store_closed_all_closed a s0 prog sched c : base_reg s0 -> run_sched a (init s0 prog) sched = Some c ->
  nmap (st c) = None -> mlist (st c) = [] /\ forall i, In i (registered (st c)) -> is_closed (st c) i = true.
Proof.
  intros [B1 B2] Hr Hnil.
  assert (Hi : reginv (init s0 prog)).
  { unfold reginv. cbn [init st thrs]. splits; auto.
    intros t o inv ms i Hin Hc. apply in_map_iff in Hin. destruct Hin as (ops & <- & _). discriminate. }
  destruct (run_sched_reginv _ _ _ _ Hi Hr) as (A & B & _). specialize (B Hnil). split; [exact B|].
  intros i Hin. destruct (A i Hin) as [H|H]; [rewrite B in H; destruct H|exact H].
Qed.
(* ================================================================== 6. witnesses and the bounded exhaustive result *)
(* instance 1 is registered under name 1 before the concurrent phase starts *)
Definition pre1 : list op := [OInst false 1 1].
Definition impl1 : impl := fst (run_ops impl0 pre1).
Definition spec1 : spec := fst (spec_ops spec0 pre1).

Lemma base_ok_impl1 : base_ok impl1.
Proof.
  unfold base_ok, invB, invC. splits.
  - intros i. vm_compute. reflexivity.
  - intros i. vm_compute. lia.
  - intros i. vm_compute. tauto.
Qed.

(* ---- F10: thread 0 is stopped between the CAS and the locked delete of Close(1); thread 1's Close(1) returns at once;
   thread 1 then instantiates under the same name and is refused although its own close has returned *)
Definition f10_prog : list (list op) := [[OClose 1 0]; [OClose 1 0; OInst false 1 2]].
Definition f10_sched : list nat := [0;0; 1;1;1; 1;1;1;1;1;1;1;1; 0;0;0].

Lemma f10_witness :
  exists c, run_sched false (init impl1 f10_prog) f10_sched = Some c /\ finished c = true /\
            map e_ret (filter (fun e => e_thr e =? 1) (rev (hist c))) = [ROk; RErrDup] /\
            ~ linearizable spec1 (hist c) /\
            rlin_check false spec1 (hist c) = true /\
            run_sched true (init impl1 f10_prog) f10_sched = None.
Proof.
  destruct (run_sched false (init impl1 f10_prog) f10_sched) as [c|] eqn:E; [|vm_compute in E; discriminate].
  exists c. split; [reflexivity|].
  assert (Hc : Some c = run_sched false (init impl1 f10_prog) f10_sched) by (symmetry; exact E).
  vm_compute in Hc. inversion Hc; subst c. clear Hc E.
  splits; try (vm_compute; reflexivity).
  intros H. apply lin_check_complete in H. vm_compute in H. discriminate.
Qed.

(* every interleaving of the F10 program is explained by the relaxed specification (close = mark + unlink) *)
Example f10_all_relaxed :
  check_all false (fun c => finished c && rlin_check false spec1 (hist c)) (S (csize (init impl1 f10_prog))) (init impl1 f10_prog) = true.
Proof. vm_compute. reflexivity. Qed.

(* ---- the same window in Runtime.Close: the closed flag is set before the store is swept *)
Definition rtwin_prog : list (list op) := [[ORtClose 0]; [OCompile false; OLook 1]].
Definition rtwin_sched : list nat := [0;0; 1;1;1; 1;1;1; 0;0;0].

Lemma rt_window_witness :
  exists c, run_sched false (init impl1 rtwin_prog) rtwin_sched = Some c /\ finished c = true /\
            map e_ret (filter (fun e => e_thr e =? 1) (rev (hist c))) = [RErrClosed; RLook (Some 1)] /\
            ~ linearizable spec1 (hist c) /\ classify spec1 (hist c) = 2%Z.
Proof.
  destruct (run_sched false (init impl1 rtwin_prog) rtwin_sched) as [c|] eqn:E; [|vm_compute in E; discriminate].
  exists c. split; [reflexivity|].
  assert (Hc : Some c = run_sched false (init impl1 rtwin_prog) rtwin_sched) by (symmetry; exact E).
  vm_compute in Hc. inversion Hc; subst c. clear Hc E.
  splits; try (vm_compute; reflexivity).
  intros H. apply lin_check_complete in H. vm_compute in H. discriminate.
Qed.

(* ---- the close notifier is attached after registration: a close that comes in between never notifies *)
Definition lost_prog : list (list op) := [[OInst false 1 1]; [OClose 1 0]].
Definition lost_sched : list nat := [0;0;0;0; 1;1;1;1;1; 0;0].

Lemma notify_lost_witness :
  exists c, run_sched true (init impl0 lost_prog) lost_sched = Some c /\ finished c = true /\
            lin_check spec0 (hist c) = true /\
            is_closed (st c) 1 = true /\ count 1 (res_log (st c)) = 1 /\
            In 1 (attached (st c)) /\ In 1 (notif (st c)) /\ count 1 (notified (st c)) = 0.
Proof.
  destruct (run_sched true (init impl0 lost_prog) lost_sched) as [c|] eqn:E; [|vm_compute in E; discriminate].
  exists c. split; [reflexivity|].
  assert (Hc : Some c = run_sched true (init impl0 lost_prog) lost_sched) by (symmetry; exact E).
  vm_compute in Hc. inversion Hc; subst c. clear Hc E.
  splits; try (vm_compute; reflexivity); cbn; auto.
Qed.

(* ---- bounded exhaustive result for close-atomic schedules.
   Alphabet (one name, instance 1 pre-registered under it): instantiate under the name (fresh identity), look the name up,
   close instance 1, read its closed word, close the runtime, compile.
   Programs: two threads with one operation each; two threads with (<=2, 1) operations; three threads with one operation each
   of which at most one is an instantiate. At most 3 operations in total. *)
Definition alpha (id : nat) : list op :=
  [OInst false 1 id; OLook 1; OClose 1 0; OIsClosed 1; ORtClose 0; OCompile false].
Definition nth_op (k id : nat) : op := nth k (alpha id) (OLook 1).
Definition seqs2 : list (list op) :=
  map (fun o => [o]) (alpha 10) ++ flat_map (fun o1 => map (fun o2 => [o1; o2]) (alpha 11)) (alpha 10).
Definition progs21 : list (list (list op)) := flat_map (fun p0 => map (fun o => [p0; [o]]) (alpha 12)) seqs2.
Definition progs111 : list (list (list op)) :=
  flat_map (fun a => flat_map (fun b => flat_map (fun c =>
     if (a <=? b) && (b <=? c) && (1 <=? b) then [[[nth_op a 10]; [nth_op b 12]; [nth_op c 14]]] else [])
     (seq 0 6)) (seq 0 6)) (seq 0 6).
Definition bounded_progs : list (list (list op)) := progs21 ++ progs111.

Definition has_panic (h : list ev) : bool := existsb (fun e => ret_eqb (e_ret e) RPanic) h.
Definition lin_ok (c : config) : bool := finished c && (if has_panic (hist c) then true else lin_check spec1 (hist c)).
Definition prog_ok (p : list (list op)) : bool :=
  check_all true lin_ok (S (csize (init impl1 p))) (init impl1 p).

Lemma bounded_progs_checked : forallb prog_ok bounded_progs = true.
Proof. vm_cast_no_check (eq_refl true). Qed.

Lemma linearizable_atomic_bounded p sched c :
  In p bounded_progs -> run_sched true (init impl1 p) sched = Some c -> finished c = true ->
  has_panic (hist c) = true \/ linearizable spec1 (hist c).
Proof.
  intros Hin Hr Hf. pose proof bounded_progs_checked as H. rewrite forallb_forall in H. specialize (H p Hin).
  unfold prog_ok in H. pose proof (check_all_run true lin_ok _ sched c H Hr Hf) as Hok.
  unfold lin_ok in Hok. apply andb_true_iff in Hok. destruct Hok as [_ Hok].
  destruct (has_panic (hist c)); [left; reflexivity|right; apply lin_check_sound; exact Hok].
Qed.

(* ---- a compile that passed the closed-runtime check panics on the nil type-id map when Runtime.Close sweeps in between
   (the schedule is close-atomic) *)
Definition cpanic_prog : list (list op) := [[OCompile true]; [ORtClose 0]].
Definition cpanic_sched : list nat := [0;0; 1;1;1;1;1; 0;0].

Lemma compile_panic_witness :
  exists c, run_sched true (init impl1 cpanic_prog) cpanic_sched = Some c /\ finished c = true /\
            map e_ret (filter (fun e => e_thr e =? 0) (hist c)) = [RPanic] /\ ~ linearizable spec1 (hist c).
Proof.
  destruct (run_sched true (init impl1 cpanic_prog) cpanic_sched) as [c|] eqn:E; [|vm_compute in E; discriminate].
  exists c. split; [reflexivity|].
  assert (Hc : Some c = run_sched true (init impl1 cpanic_prog) cpanic_sched) by (symmetry; exact E).
  vm_compute in Hc. inversion Hc; subst c. clear Hc E.
  splits; try (vm_compute; reflexivity).
  intros H. apply lin_check_complete in H. vm_compute in H. discriminate.
Qed.

(* non-vacuity: the F10 program itself is in the set (its close-atomic schedules all linearize, its other schedules do not),
   and close-atomic complete schedules exist *)
Example bounded_nonvacuous :
  In [[OClose 1 0; OInst false 1 11]; [OClose 1 0]] bounded_progs /\
  (exists c, run_sched true (init impl1 [[OClose 1 0; OInst false 1 11]; [OClose 1 0]])
                [0;0;0;0;0; 1;1;1; 0;0;0;0;0;0] = Some c /\ finished c = true /\
             map e_ret (rev (hist c)) = [ROk; ROk; ROk]) /\
  length bounded_progs = 302.
Proof.
  splits.
  - vm_compute. tauto.
  - eexists. splits; vm_compute; reflexivity.
  - vm_compute. reflexivity.
Qed.
