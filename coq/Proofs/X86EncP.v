(* Proofs about Engine/X86Enc.v (C02), part 2: the theorems. The bytes wazero's amd64 encoder emits for a memory
   operand, read by the SDM decoder, are the operand that was encoded, for every register, displacement and scale. *)
From Coq Require Import ZArith Lia Bool List ZifyBool.
From Verif Require Import Engine.Amode Engine.X86Enc Proofs.AmodeP Proofs.X86EncFinP.
Import ListNotations.
Open Scope Z_scope.
Ltac Zify.zify_post_hook ::= Z.div_mod_to_equations.
Ltac splits := repeat match goal with |- _ /\ _ => split end.

(* ---------------- the core: what the decoder's parser and the decoder make of the emitted bytes ---------------- *)
Definition enc_bytes (ri : Z) (ops : list byte) (r : Z) (a : xamode) (pb : list byte) : list byte :=
  pb ++ enc_rex ri r a ++ ops ++ enc_modrm r a :: ol (enc_sib a) ++ enc_disp a.

Definition core_stmt (ri : Z) (ops : list byte) (r : Z) (a : xamode) (rest pb : list byte) : Prop :=
  parse (enc_bytes ri ops r a pb ++ rest) =
    Some {| rw_prefixes := pb; rw_rex := rexo_of (enc_rex ri r a); rw_opcode := ops;
            rw_modrm := enc_modrm r a; rw_sib := enc_sib a; rw_disp := enc_disp a |} /\
  decode (enc_bytes ri ops r a pb ++ rest) =
    Some {| d_prefixes := pb; d_w := Z.testbit ri 0; d_opcode := ops; d_reg := r;
            d_rm := OMem (mem_of a); d_len := length (enc_bytes ri ops r a pb) |}.

Lemma nd_le4 md : (nd md <= 4)%nat.
Proof. unfold nd. destruct (md =? 0); [lia|]. destruct (md =? 1); lia. Qed.

Lemma core_imm_reg ri ops r imm bs rest pb :
  Forall (fun b => is_legacy_prefix b = true) pb -> (length pb <= 2)%nat -> opcode_wf ops = true ->
  is_reg r -> 0 <= imm < W32 -> is_reg bs -> core_stmt ri ops r (XImmReg imm bs) rest pb.
Proof.
  intros Hleg Hlen Hops Hr Himm Hbs. unfold core_stmt, enc_bytes. rewrite reassoc.
  cbn [enc_rex enc_modrm enc_sib enc_disp enc_md xa_imm xa_base mem_of].
  destruct (disp_ok imm bs Himm) as (Hl & Hv & Hmd & Hbad). cbv zeta in Hl, Hv, Hmd, Hbad.
  pose proof (chk_imm_reg_ok (Z.testbit ri 0) (Z.testbit ri 1) r bs (disp_mode imm bs) Hr Hbs Hmd) as Hc.
  unfold chk_imm_reg, bad_mod00 in Hc. rewrite Hbad in Hc.
  rewrite rex_encode_ri.
  destruct (finish _ _ _ _ _ _ _ pb ops (disp_bytes (disp_mode imm bs) imm) rest Hc Hleg Hlen Hops Hl (nd_le4 _)) as [Hpa Hde].
  split; [exact Hpa|]. rewrite Hde. cbn [attach]. rewrite Hv. reflexivity.
Qed.

Lemma core_imm_rbp ri ops r imm rest pb :
  Forall (fun b => is_legacy_prefix b = true) pb -> (length pb <= 2)%nat -> opcode_wf ops = true ->
  is_reg r -> 0 <= imm < W32 -> core_stmt ri ops r (XImmRBP imm) rest pb.
Proof.
  intros Hleg Hlen Hops Hr Himm.
  assert (H5 : is_reg 5) by (unfold is_reg; lia).
  exact (core_imm_reg ri ops r imm 5 rest pb Hleg Hlen Hops Hr Himm H5).
Qed.

Lemma core_rrs ri ops r imm bs ix sh rest pb :
  Forall (fun b => is_legacy_prefix b = true) pb -> (length pb <= 2)%nat -> opcode_wf ops = true ->
  is_reg r -> 0 <= imm < W32 -> is_reg bs -> is_reg ix -> ix <> 4 -> 0 <= sh <= 3 ->
  core_stmt ri ops r (XRegRegShift imm bs ix sh) rest pb.
Proof.
  intros Hleg Hlen Hops Hr Himm Hbs Hix Hne Hsh. unfold core_stmt, enc_bytes. rewrite reassoc.
  cbn [enc_rex enc_modrm enc_sib enc_disp enc_md xa_imm xa_base mem_of].
  destruct (disp_ok imm bs Himm) as (Hl & Hv & Hmd & Hbad). cbv zeta in Hl, Hv, Hmd, Hbad.
  pose proof (chk_rrs_ok (Z.testbit ri 0) (Z.testbit ri 1) r bs ix sh (disp_mode imm bs) Hr Hbs Hix Hsh Hmd) as Hc.
  unfold chk_rrs, bad_mod00 in Hc. rewrite Hbad in Hc. replace (ix =? 4) with false in Hc by lia.
  rewrite rex_encode_for_index_ri.
  destruct (finish _ _ _ _ _ _ _ pb ops (disp_bytes (disp_mode imm bs) imm) rest Hc Hleg Hlen Hops Hl (nd_le4 _)) as [Hpa Hde].
  split; [exact Hpa|]. rewrite Hde. cbn [attach]. rewrite Hv. reflexivity.
Qed.

Lemma core_rip ri ops r l rest pb :
  Forall (fun b => is_legacy_prefix b = true) pb -> (length pb <= 2)%nat -> opcode_wf ops = true ->
  is_reg r -> core_stmt ri ops r (XRipRel l) rest pb.
Proof.
  intros Hleg Hlen Hops Hr. unfold core_stmt, enc_bytes. rewrite reassoc.
  cbn [enc_rex enc_modrm enc_sib enc_disp enc_md mem_of].
  pose proof (chk_rip_ok (Z.testbit ri 0) (Z.testbit ri 1) r Hr) as Hc. unfold chk_rip in Hc.
  rewrite rex_encode_ri.
  destruct (finish _ _ _ _ _ _ _ pb ops (le32 0) rest Hc Hleg Hlen Hops eq_refl (Nat.le_refl 4)) as [Hpa Hde].
  split; [exact Hpa|]. rewrite Hde. reflexivity.
Qed.

Lemma mem_core ri p opcodes n r a rest :
  0 <= p <= 5 -> opcode_wf (opcode_bytes opcodes n) = true -> is_reg r -> xamode_wf a -> index_not_rsp a ->
  exists pb, prefix_bytes p = Some pb /\
    encode_mem ri p opcodes n r a = Some (enc_bytes ri (opcode_bytes opcodes n) r a pb) /\
    core_stmt ri (opcode_bytes opcodes n) r a rest pb.
Proof.
  intros Hp Hops Hr Hwf Hix.
  destruct (prefix_ok p Hp) as (pb & Hpb & Hleg & Hlen). exists pb. split; [exact Hpb|].
  split; [apply encode_mem_split; assumption|].
  destruct a as [imm bs | imm | imm bs ix sh | l]; cbn [xamode_wf index_not_rsp] in Hwf, Hix.
  - destruct Hwf. apply core_imm_reg; assumption.
  - apply core_imm_rbp; assumption.
  - destruct Hwf as (? & ? & ? & ?). apply core_rrs; assumption.
  - apply core_rip; assumption.
Qed.

(* ---------------- (1) round trip ---------------- *)
Theorem mem_operand_roundtrip : forall ri p opcodes n r a rest,
  0 <= p <= 5 -> opcode_wf (opcode_bytes opcodes n) = true -> 0 <= r < 16 -> xamode_wf a -> index_not_rsp a ->
  exists bs pb, encode_mem ri p opcodes n r a = Some bs /\ prefix_bytes p = Some pb /\
    decode (bs ++ rest) = Some {| d_prefixes := pb; d_w := Z.testbit ri 0; d_opcode := opcode_bytes opcodes n;
                                  d_reg := r; d_rm := OMem (mem_of a); d_len := length bs |}.
Proof.
  intros ri p opcodes n r a rest Hp Hops Hr Hwf Hix.
  destruct (mem_core ri p opcodes n r a rest Hp Hops Hr Hwf Hix) as (pb & Hpb & He & _ & Hd).
  exists (enc_bytes ri (opcode_bytes opcodes n) r a pb), pb. splits; assumption.
Qed.

(* the encoder's own precondition, exactly: it panics on an invalid legacy-prefix value and on rsp as index *)
Theorem encode_mem_panics_iff : forall ri p opcodes n r a,
  encode_mem ri p opcodes n r a = None <-> ~ (0 <= p <= 5) \/ (exists imm bs sh, a = XRegRegShift imm bs 4 sh).
Proof.
  intros. unfold encode_mem.
  assert (Hpn : prefix_bytes p = None <-> ~ (0 <= p <= 5)).
  { unfold prefix_bytes.
    destruct (p =? 0) eqn:E0; [split; [discriminate | lia]|]. destruct (p =? 1) eqn:E1; [split; [discriminate | lia]|].
    destruct (p =? 2) eqn:E2; [split; [discriminate | lia]|]. destruct (p =? 3) eqn:E3; [split; [discriminate | lia]|].
    destruct (p =? 4) eqn:E4; [split; [discriminate | lia]|]. destruct (p =? 5) eqn:E5; [split; [discriminate | lia]|].
    split; [lia | reflexivity]. }
  destruct (prefix_bytes p) as [pb|] eqn:Ep.
  - assert (Hin : 0 <= p <= 5).
    { destruct (Z_le_dec 0 p); [destruct (Z_le_dec p 5); [lia|] |]; exfalso; assert (Some pb = None) by (apply Hpn; lia); discriminate. }
    destruct a as [imm bs | imm | imm bs ix sh | l].
    + split; [discriminate | intros [H | (? & ? & ? & H)]; [lia | discriminate]].
    + split; [discriminate | intros [H | (? & ? & ? & H)]; [lia | discriminate]].
    + destruct (ix =? 4) eqn:E.
      * split; [| reflexivity]. intros _. right. exists imm, bs, sh. f_equal. lia.
      * split; [discriminate|]. intros [H | (? & ? & ? & H)]; [lia|]. injection H as -> -> Hx ->. lia.
    + split; [discriminate | intros [H | (? & ? & ? & H)]; [lia | discriminate]].
  - split; [| reflexivity]. intros _. left. apply Hpn. reflexivity.
Qed.

(* ---------------- (2) the decoded operand computes the intended address ---------------- *)
Lemma mem_of_address regs rip a am :
  amode_vals regs a = Some am -> ea_of_decoded regs rip (mem_of a) = eval_amode am.
Proof.
  destruct a as [imm bs | imm | imm bs ix sh | l]; cbn [amode_vals]; intros H; try discriminate;
    injection H as <-; unfold eval_amode; cbn [mem_of ea_of_decoded disp base index shift]; f_equal; lia.
Qed.

Theorem encoded_operand_address : forall ri p opcodes n r a rest regs rip am,
  0 <= p <= 5 -> opcode_wf (opcode_bytes opcodes n) = true -> 0 <= r < 16 -> xamode_wf a -> index_not_rsp a ->
  amode_vals regs a = Some am ->
  exists bs d m, encode_mem ri p opcodes n r a = Some bs /\ decode (bs ++ rest) = Some d /\
    d_len d = length bs /\ d_reg d = r /\ d_w d = Z.testbit ri 0 /\ d_opcode d = opcode_bytes opcodes n /\
    d_rm d = OMem m /\ ea_of_decoded regs rip m = eval_amode am.
Proof.
  intros ri p opcodes n r a rest regs rip am Hp Hops Hr Hwf Hix Ham.
  destruct (mem_operand_roundtrip ri p opcodes n r a rest Hp Hops Hr Hwf Hix) as (bs & pb & He & Hpb & Hd).
  eexists bs, _, (mem_of a). splits; try eassumption; try reflexivity.
  apply mem_of_address. exact Ham.
Qed.

(* the chain SSA pointer expression -> addressing mode -> bytes -> effective address, closed: whenever the registers
   hold the values of the parts of the addressing mode lowerToAddressMode built (register allocation: not modelled),
   the emitted bytes decode to an operand whose effective address is pointer value + offset *)
Theorem lowered_access_address_bytes : forall rg e off regs a ri p opcodes n r rest rip,
  lowerable off e = true -> zext_ok rg off e -> 0 <= off < W32 ->
  amode_vals regs a = Some (lower_to_amode true rg e off) ->
  0 <= p <= 5 -> opcode_wf (opcode_bytes opcodes n) = true -> 0 <= r < 16 -> xamode_wf a -> index_not_rsp a ->
  exists bs d m, encode_mem ri p opcodes n r a = Some bs /\ decode (bs ++ rest) = Some d /\
    d_len d = length bs /\ d_reg d = r /\ d_rm d = OMem m /\
    ea_of_decoded regs rip m = w64 (ev rg e + off).
Proof.
  intros rg e off regs a ri p opcodes n r rest rip Hl Hz Hoff Ham Hp Hops Hr Hwf Hix.
  destruct (encoded_operand_address ri p opcodes n r a rest regs rip _ Hp Hops Hr Hwf Hix Ham)
    as (bs & d & m & He & Hd & H1 & H2 & _ & _ & H3 & H4).
  exists bs, d, m. splits; try assumption.
  rewrite H4. apply amode_correct; assumption.
Qed.

(* ---------------- (3) register-register form ---------------- *)
Theorem reg_reg_roundtrip : forall ri p opcodes n r rm rest,
  0 <= p <= 5 -> opcode_wf (opcode_bytes opcodes n) = true -> 0 <= r < 16 -> 0 <= rm < 16 ->
  exists bs pb, encode_rr ri p opcodes n r rm = Some bs /\ prefix_bytes p = Some pb /\
    decode (bs ++ rest) = Some {| d_prefixes := pb; d_w := Z.testbit ri 0; d_opcode := opcode_bytes opcodes n;
                                  d_reg := r; d_rm := OReg rm; d_len := length bs |}.
Proof.
  intros ri p opcodes n r rm rest Hp Hops Hr Hm.
  destruct (prefix_ok p Hp) as (pb & Hpb & Hleg & Hlen).
  unfold encode_rr. rewrite Hpb. eexists _, pb. splits; try reflexivity.
  pose proof (chk_rr_ok (Z.testbit ri 0) (Z.testbit ri 1) r rm Hr Hm) as Hc. unfold chk_rr in Hc.
  rewrite rex_encode_ri.
  destruct (finish _ _ _ _ _ _ _ pb (opcode_bytes opcodes n) [] rest Hc Hleg Hlen Hops eq_refl (Nat.le_0_l 4)) as [_ Hde].
  cbn [ol app] in Hde.
  replace ((pb ++ rex_encode (ri_of (Z.testbit ri 0) (Z.testbit ri 1)) (Z.shiftr r 3) (Z.shiftr rm 3) ++
            opcode_bytes opcodes n ++ [encode_modrm 3 (Z.land r 7) (Z.land rm 7)]) ++ rest)
    with (pb ++ rex_encode (ri_of (Z.testbit ri 0) (Z.testbit ri 1)) (Z.shiftr r 3) (Z.shiftr rm 3) ++
          opcode_bytes opcodes n ++ encode_modrm 3 (Z.land r 7) (Z.land rm 7) :: rest)
    by (repeat (rewrite <- app_assoc || rewrite <- app_comm_cons); reflexivity).
  rewrite Hde. reflexivity.
Qed.

(* ---------------- (4) the classic encoder bugs, each as its own statement about the emitted fields ---------------- *)
Lemma modrm_mod_enc_fin :
  all4 (fun md => all16 (fun r => all16 (fun x => modrm_mod (encode_modrm md (reg_encoding r) (reg_encoding x)) =? md))) = true.
Proof. vm_compute. reflexivity. Qed.
Lemma modrm_mod_enc md r x : 0 <= md < 4 -> is_reg r -> is_reg x ->
  modrm_mod (encode_modrm md (reg_encoding r) (reg_encoding x)) = md.
Proof.
  intros Hm Hr Hx. pose proof modrm_mod_enc_fin as H.
  apply all4_spec with (x := md) in H; [| exact Hm]. apply all16_spec with (x := r) in H; [| exact Hr].
  apply all16_spec with (x := x) in H; [| exact Hx]. lia.
Qed.

Lemma enc_md_range a : xamode_wf a -> 0 <= enc_md a <= 2.
Proof.
  destruct a as [imm bs | imm | imm bs ix sh | l]; cbn [xamode_wf enc_md xa_imm xa_base]; intros H; try lia;
    unfold disp_mode; destruct (_ && _); try lia; destruct (lower8_will_sign_extend_to32 _); lia.
Qed.

Lemma modrm_mod_enc_modrm r a : is_reg r -> xamode_wf a -> modrm_mod (enc_modrm r a) = enc_md a.
Proof.
  intros Hr Hwf. pose proof (enc_md_range a Hwf) as Hm.
  assert (H4 : is_reg 4) by (unfold is_reg; lia). assert (H5 : is_reg 5) by (unfold is_reg; lia).
  destruct a as [imm bs | imm | imm bs ix sh | l]; cbn [enc_modrm xamode_wf] in *.
  - apply modrm_mod_enc; [lia | exact Hr | tauto].
  - apply modrm_mod_enc; [lia | exact Hr | exact H5].
  - change 4 with (reg_encoding 4) at 1. apply modrm_mod_enc; [lia | exact Hr | exact H4].
  - change 5 with (reg_encoding 5). apply modrm_mod_enc; [lia | exact Hr | exact H5].
Qed.

Definition fits8 (imm : Z) : Prop := -128 <= sext32 imm <= 127.
Definition no_disp (imm bs : Z) : Prop := imm = 0 /\ bs <> 5 /\ bs <> 13.

Lemma sext32_0_iff imm : 0 <= imm < W32 -> (sext32 imm = 0 <-> imm = 0).
Proof. intros H. unfold sext32, W32 in *. rewrite Z.mod_small by lia. destruct (imm <? 2147483648) eqn:E; lia. Qed.

Lemma disp_mode_cases imm bs : 0 <= imm < W32 ->
  (disp_mode imm bs = 0 <-> no_disp imm bs) /\
  (disp_mode imm bs = 1 <-> fits8 imm /\ ~ no_disp imm bs) /\
  (disp_mode imm bs = 2 <-> ~ fits8 imm).
Proof.
  intros Himm. unfold disp_mode, no_disp, fits8.
  pose proof (lower8_iff imm Himm) as Hl.
  assert (H0 : imm = 0 -> -128 <= sext32 imm <= 127) by (intros ->; vm_compute; split; discriminate).
  destruct ((imm =? 0) && negb (bs =? 5) && negb (bs =? 13)) eqn:E0.
  - splits; split; intros; lia.
  - destruct (lower8_will_sign_extend_to32 imm) eqn:E1.
    + assert (-128 <= sext32 imm <= 127) by (apply Hl; reflexivity). splits; split; intros; lia.
    + assert (~ (-128 <= sext32 imm <= 127)) by (intros Hc; apply Hl in Hc; discriminate).
      splits; split; intros; lia.
Qed.

Definition is_mem_amode (a : xamode) : Prop := xa_is_rip a = false.

(* disp8 is chosen exactly when the displacement sign-extends from 8 bits (and is needed); no displacement exactly
   when it is zero and the base is neither rbp nor r13; disp32 exactly when it does not fit *)
Theorem disp8_iff_fits : forall ri p opcodes n r a rest,
  0 <= p <= 5 -> opcode_wf (opcode_bytes opcodes n) = true -> 0 <= r < 16 -> xamode_wf a -> index_not_rsp a ->
  xa_is_rip a = false ->
  exists bs raw, encode_mem ri p opcodes n r a = Some bs /\ parse (bs ++ rest) = Some raw /\
    let imm := xa_imm a in let b := xa_base a in
    (modrm_mod (rw_modrm raw) = 1 <-> fits8 imm /\ ~ no_disp imm b) /\
    (length (rw_disp raw) = 1%nat <-> fits8 imm /\ ~ no_disp imm b) /\
    (modrm_mod (rw_modrm raw) = 0 <-> no_disp imm b) /\ (rw_disp raw = [] <-> no_disp imm b) /\
    (modrm_mod (rw_modrm raw) = 2 <-> ~ fits8 imm) /\ (length (rw_disp raw) = 4%nat <-> ~ fits8 imm) /\
    disp_val (rw_disp raw) = sext32 imm.
Proof.
  intros ri p opcodes n r a rest Hp Hops Hr Hwf Hix Hnr.
  destruct (mem_core ri p opcodes n r a rest Hp Hops Hr Hwf Hix) as (pb & Hpb & He & Hpa & _).
  eexists _, _. split; [exact He|]. split; [exact Hpa|].
  cbn [rw_modrm rw_disp]. cbv zeta. rewrite modrm_mod_enc_modrm by assumption.
  assert (Himm : 0 <= xa_imm a < W32).
  { destruct a; cbn [xamode_wf xa_imm xa_is_rip] in *; try tauto; discriminate. }
  assert (Hmd : enc_md a = disp_mode (xa_imm a) (xa_base a)) by (destruct a; try reflexivity; discriminate).
  assert (Hdb : enc_disp a = disp_bytes (disp_mode (xa_imm a) (xa_base a)) (xa_imm a)).
  { destruct a; try discriminate; reflexivity. }
  rewrite Hmd, Hdb.
  destruct (disp_mode_cases (xa_imm a) (xa_base a) Himm) as (C0 & C1 & C2).
  destruct (disp_ok (xa_imm a) (xa_base a) Himm) as (Hl & Hv & Hrange & _). cbv zeta in Hl, Hv, Hrange.
  assert (Hcase : disp_mode (xa_imm a) (xa_base a) = 0 \/ disp_mode (xa_imm a) (xa_base a) = 1 \/ disp_mode (xa_imm a) (xa_base a) = 2) by lia.
  split; [exact C1|]. split.
  { rewrite Hl, <- C1. destruct Hcase as [E | [E | E]]; rewrite E; unfold nd; simpl; lia. }
  split; [exact C0|]. split.
  { rewrite <- C0. destruct Hcase as [E | [E | E]]; rewrite E; unfold disp_bytes, le32; simpl; split; (discriminate || lia || reflexivity || idtac).
    all: intros; try discriminate; try lia. }
  split; [exact C2|]. split.
  { rewrite Hl, <- C2. destruct Hcase as [E | [E | E]]; rewrite E; unfold nd; simpl; lia. }
  exact Hv.
Qed.

(* rbp / r13 as base never use mod = 00 (which would mean rip-relative, or "no base" under a SIB byte): a
   displacement byte is always emitted, and the decoder reads the base back *)
Theorem rbp_r13_never_mod00 : forall ri p opcodes n r a rest,
  0 <= p <= 5 -> opcode_wf (opcode_bytes opcodes n) = true -> 0 <= r < 16 -> xamode_wf a -> index_not_rsp a ->
  xa_is_rip a = false -> xa_base a = 5 \/ xa_base a = 13 ->
  exists bs raw d, encode_mem ri p opcodes n r a = Some bs /\ parse (bs ++ rest) = Some raw /\
    modrm_mod (rw_modrm raw) <> 0 /\ rw_disp raw <> [] /\
    decode (bs ++ rest) = Some d /\ d_rm d = OMem (mem_of a).
Proof.
  intros ri p opcodes n r a rest Hp Hops Hr Hwf Hix Hnr Hb.
  destruct (disp8_iff_fits ri p opcodes n r a rest Hp Hops Hr Hwf Hix Hnr) as (bs & raw & He & Hpa & _ & _ & H0 & H0' & _).
  destruct (mem_operand_roundtrip ri p opcodes n r a rest Hp Hops Hr Hwf Hix) as (bs' & pb & He' & _ & Hd).
  rewrite He in He'. injection He' as <-.
  eexists bs, raw, _. splits; try eassumption; try reflexivity.
  - intros Hc. apply H0 in Hc. unfold no_disp in Hc. lia.
  - intros Hc. apply H0' in Hc. unfold no_disp in Hc. lia.
Qed.

Lemma sib_fields_fin :
  all4 (fun sh => all16 (fun ix => all16 (fun bs =>
    let s := encode_sib sh (reg_encoding ix) (reg_encoding bs) in
    (sib_scale s =? sh) && (sib_index s =? ix mod 8) && (sib_base s =? bs mod 8)))) = true.
Proof. vm_compute. reflexivity. Qed.

(* rsp / r12 as base always carry a SIB byte (r/m = 100 is the SIB escape), namely 0x24 = scale 0, no index, base
   100; no other base does; base + index<<shift always carries the SIB byte with exactly these three fields *)
Theorem rsp_r12_always_sib : forall ri p opcodes n r a rest,
  0 <= p <= 5 -> opcode_wf (opcode_bytes opcodes n) = true -> 0 <= r < 16 -> xamode_wf a -> index_not_rsp a ->
  exists bs raw, encode_mem ri p opcodes n r a = Some bs /\ parse (bs ++ rest) = Some raw /\
    match a with
    | XImmReg _ b => (rw_sib raw = Some 36 <-> b = 4 \/ b = 12) /\ (rw_sib raw = None <-> b <> 4 /\ b <> 12) /\
                     modrm_rm (rw_modrm raw) = b mod 8
    | XRegRegShift _ b ix sh =>
        modrm_rm (rw_modrm raw) = 4 /\
        exists s, rw_sib raw = Some s /\ sib_scale s = sh /\ sib_index s = ix mod 8 /\ sib_base s = b mod 8
    | XImmRBP _ | XRipRel _ => rw_sib raw = None /\ modrm_rm (rw_modrm raw) = 5
    end.
Proof.
  intros ri p opcodes n r a rest Hp Hops Hr Hwf Hix.
  destruct (mem_core ri p opcodes n r a rest Hp Hops Hr Hwf Hix) as (pb & Hpb & He & Hpa & _).
  eexists _, _. split; [exact He|]. split; [exact Hpa|].
  cbn [rw_modrm rw_sib].
  pose proof (enc_md_range a Hwf) as Hm.
  assert (Hrm : forall md x, 0 <= md <= 2 -> is_reg x -> modrm_rm (encode_modrm md (reg_encoding r) (reg_encoding x)) = x mod 8).
  { intros md x Hmd Hx.
    assert (F : forallb (fun md => all16 (fun r => all16 (fun x => modrm_rm (encode_modrm md (reg_encoding r) (reg_encoding x)) =? x mod 8))) [0; 1; 2] = true)
      by (vm_compute; reflexivity).
    rewrite forallb_forall in F. specialize (F md (in3 md Hmd)).
    apply all16_spec with (x := r) in F; [| exact Hr]. apply all16_spec with (x := x) in F; [| exact Hx]. lia. }
  assert (H4 : is_reg 4) by (unfold is_reg; lia). assert (H5 : is_reg 5) by (unfold is_reg; lia).
  destruct a as [imm bs | imm | imm bs ix sh | l]; cbn [enc_sib enc_modrm xamode_wf] in *.
  - destruct Hwf as [_ Hbs]. splits.
    + destruct ((bs =? 4) || (bs =? 12)) eqn:E; split; intros H; try discriminate; try lia; reflexivity.
    + destruct ((bs =? 4) || (bs =? 12)) eqn:E; split; intros H; try discriminate; try lia; reflexivity.
    + apply Hrm; assumption.
  - split; [reflexivity|]. rewrite Hrm by assumption. reflexivity.
  - destruct Hwf as (_ & Hbs & Hi & Hs). split.
    + change 4 with (reg_encoding 4) at 1. rewrite Hrm by assumption. reflexivity.
    + eexists. split; [reflexivity|].
      pose proof sib_fields_fin as F. apply all4_spec with (x := sh) in F; [| lia].
      apply all16_spec with (x := ix) in F; [| exact Hi]. apply all16_spec with (x := bs) in F; [| exact Hbs].
      cbv zeta in F. lia.
  - split; [reflexivity|]. change 5 with (reg_encoding 5) at 1. rewrite (Hrm 0 5) by (assumption || lia). reflexivity.
Qed.

(* ---------------- (5) rip-relative operands: the label fix-up of machine.Encode ---------------- *)
Lemma put_bytes_app (a old c new : list byte) :
  length old = length new -> put_bytes (a ++ old ++ c) (length a) new = a ++ new ++ c.
Proof.
  intros H. induction a as [| x a IH]; cbn [app length put_bytes].
  - replace (put_bytes (old ++ c) 0 new) with (new ++ skipn (length new) (old ++ c)) by (destruct (old ++ c); reflexivity).
    rewrite <- H, skipn_app, skipn_all, Nat.sub_diag. reflexivity.
  - rewrite IH. reflexivity.
Qed.

Lemma sext32_wrap x : - 2147483648 <= x < 2147483648 -> sext32 (x mod W32) = x.
Proof.
  intros H. unfold sext32. rewrite Z.mod_mod by (unfold W32; lia). unfold W32.
  destruct (x mod 4294967296 <? 2147483648) eqn:E; lia.
Qed.

(* the instruction sits at offset |pre| of the buffer; Encode overwrites its last four bytes with
   uint32(int32(target - end)); afterwards the buffer is unchanged around the instruction, the instruction decodes
   to the same prefixes / opcode / reg with a RIP-relative operand, and that operand addresses the label: (address of
   the next instruction) + displacement = address of the label, for any address the code is placed at *)
Theorem riprel_fixup : forall ri p opcodes n r l pre post target codebase regs,
  0 <= p <= 5 -> opcode_wf (opcode_bytes opcodes n) = true -> 0 <= r < 16 ->
  exists bs pb, encode_mem ri p opcodes n r (XRipRel l) = Some bs /\ prefix_bytes p = Some pb /\
    let iend := Z.of_nat (length pre + length bs) in
    - 2147483648 <= target - iend < 2147483648 ->
    let buf' := fixup_rip (pre ++ bs ++ post) iend target in
    firstn (length pre) buf' = pre /\ skipn (length pre + length bs) buf' = post /\
    decode (skipn (length pre) buf') =
      Some {| d_prefixes := pb; d_w := Z.testbit ri 0; d_opcode := opcode_bytes opcodes n; d_reg := r;
              d_rm := OMem (MRip (target - iend)); d_len := length bs |} /\
    ea_of_decoded regs (codebase + iend) (MRip (target - iend)) = w64 (codebase + target).
Proof.
  intros ri p opcodes n r l pre post target codebase regs Hp Hops Hr.
  destruct (prefix_ok p Hp) as (pb & Hpb & Hleg & Hlen).
  set (ops := opcode_bytes opcodes n).
  set (hd := pb ++ rex_encode (ri_of (Z.testbit ri 0) (Z.testbit ri 1)) (reg_rex_bit r) 0 ++ ops ++ [encode_modrm 0 (reg_encoding r) 5]).
  assert (He : encode_mem ri p opcodes n r (XRipRel l) = Some (hd ++ le32 0)).
  { unfold encode_mem, enc_rip_rel. rewrite Hpb, rex_encode_ri. unfold hd. fold ops.
    f_equal. repeat (rewrite <- app_assoc || rewrite <- app_comm_cons). reflexivity. }
  exists (hd ++ le32 0), pb. split; [exact He|]. split; [exact Hpb|].
  intros iend Hrange buf'.
  set (v := (target - iend) mod W32).
  assert (Hv : 0 <= v < W32) by (unfold v, W32; apply Z.mod_pos_bound; lia).
  assert (Hbuf : buf' = (pre ++ hd) ++ le32 v ++ post).
  { unfold buf', fixup_rip.
    replace (target - (iend - 4 + 4)) with (target - iend) by lia. fold v.
    replace (Z.to_nat (iend - 4)) with (length (pre ++ hd)).
    2:{ unfold iend. rewrite !app_length. change (length (le32 0)) with 4%nat. lia. }
    replace (pre ++ (hd ++ le32 0) ++ post) with ((pre ++ hd) ++ le32 0 ++ post)
      by (repeat rewrite <- app_assoc; reflexivity).
    apply put_bytes_app. reflexivity. }
  rewrite Hbuf.
  split. { rewrite <- app_assoc, firstn_app, Nat.sub_diag, firstn_all. simpl. apply app_nil_r. }
  split.
  { replace ((pre ++ hd) ++ le32 v ++ post) with ((pre ++ hd ++ le32 v) ++ post) by (repeat rewrite <- app_assoc; reflexivity).
    replace (length pre + length (hd ++ le32 0))%nat with (length (pre ++ hd ++ le32 v)).
    2:{ rewrite !app_length. reflexivity. }
    rewrite skipn_app, skipn_all, Nat.sub_diag. reflexivity. }
  split.
  - rewrite <- app_assoc, skipn_app, skipn_all, Nat.sub_diag. cbn [app skipn].
    pose proof (chk_rip_ok (Z.testbit ri 0) (Z.testbit ri 1) r Hr) as Hc. unfold chk_rip in Hc.
    destruct (finish _ _ _ _ _ _ _ pb ops (le32 v) post Hc Hleg Hlen Hops eq_refl (Nat.le_refl 4)) as [_ Hde].
    cbn [ol app] in Hde. unfold hd.
    replace ((pb ++ rex_encode (ri_of (Z.testbit ri 0) (Z.testbit ri 1)) (reg_rex_bit r) 0 ++ ops ++ [encode_modrm 0 (reg_encoding r) 5]) ++ le32 v ++ post)
      with (pb ++ rex_encode (ri_of (Z.testbit ri 0) (Z.testbit ri 1)) (reg_rex_bit r) 0 ++ ops ++ encode_modrm 0 (reg_encoding r) 5 :: le32 v ++ post)
      by (repeat (rewrite <- app_assoc || rewrite <- app_comm_cons); reflexivity).
    rewrite Hde. cbn [attach]. rewrite disp32_val by exact Hv. unfold v. rewrite sext32_wrap by exact Hrange.
    f_equal. f_equal. rewrite !app_length. unfold le32. cbn [length]. lia.
  - unfold ea_of_decoded. f_equal. lia.
Qed.

(* ---------------- non-vacuity: known encodings ---------------- *)
(* mov rax, [rbx+rcx*4+0x10] = 48 8B 44 8B 10 *)
Example enc_mov_rax_rbx_rcx4_16 :
  encode_mem 1 0 139 1 0 (XRegRegShift 16 3 1 2) = Some [72; 139; 68; 139; 16] /\
  decode [72; 139; 68; 139; 16; 204; 204] =
    Some {| d_prefixes := []; d_w := true; d_opcode := [139]; d_reg := 0; d_rm := OMem (MAddr (Some 3) (Some (1, 2)) 16); d_len := 5 |}.
Proof. vm_compute. split; reflexivity. Qed.
(* mov rax, [rsp] = 48 8B 04 24 ; mov rax, [rbp] = 48 8B 45 00 ; mov rax, [r13] = 49 8B 45 00 ; mov rax, [r12] = 49 8B 04 24 *)
Example enc_special_bases :
  encode_mem 1 0 139 1 0 (XImmReg 0 4) = Some [72; 139; 4; 36] /\
  encode_mem 1 0 139 1 0 (XImmReg 0 5) = Some [72; 139; 69; 0] /\
  encode_mem 1 0 139 1 0 (XImmRBP 0) = Some [72; 139; 69; 0] /\
  encode_mem 1 0 139 1 0 (XImmReg 0 13) = Some [73; 139; 69; 0] /\
  encode_mem 1 0 139 1 0 (XImmReg 0 12) = Some [73; 139; 4; 36] /\
  decode [72; 139; 4; 36] = Some {| d_prefixes := []; d_w := true; d_opcode := [139]; d_reg := 0; d_rm := OMem (MAddr (Some 4) None 0); d_len := 4 |} /\
  decode [73; 139; 69; 0] = Some {| d_prefixes := []; d_w := true; d_opcode := [139]; d_reg := 0; d_rm := OMem (MAddr (Some 13) None 0); d_len := 4 |}.
Proof. vm_compute. splits; reflexivity. Qed.
(* lea rax, [rip+0] = 48 8D 05 00000000 ; mov rax, [rax+r12] = 4A 8B 04 20 (r12 IS a legal index) ;
   mov rax, [r13+rcx*2] = 49 8B 44 4D 00 ; movdqu xmm9, [r14-129] = F3 45 0F 6F 8E 7F FF FF FF ; mov [rdi-128], r15d = 44 89 7F 80 *)
Example enc_more :
  encode_mem 1 0 141 1 0 (XRipRel 7) = Some [72; 141; 5; 0; 0; 0; 0] /\
  encode_mem 1 0 139 1 0 (XRegRegShift 0 0 12 0) = Some [74; 139; 4; 32] /\
  encode_mem 1 0 139 1 0 (XRegRegShift 0 13 1 1) = Some [73; 139; 68; 77; 0] /\
  encode_mem 0 5 3951 2 9 (XImmReg 4294967167 14) = Some [243; 69; 15; 111; 142; 127; 255; 255; 255] /\
  encode_mem 0 0 137 1 15 (XImmReg 4294967168 7) = Some [68; 137; 127; 128] /\
  encode_mem 1 0 139 1 0 (XRegRegShift 0 0 4 0) = None /\
  encode_rr 1 0 137 1 11 0 = Some [76; 137; 216].
Proof. vm_compute. splits; reflexivity. Qed.
(* the decoder is a specification of the format, not an inverse of the encoder: forms the encoder never emits *)
Example decode_forms_never_emitted :
  (* mov eax, [0x10] (SIB, no base, no index) *)
  decode [139; 4; 37; 16; 0; 0; 0] = Some {| d_prefixes := []; d_w := false; d_opcode := [139]; d_reg := 0; d_rm := OMem (MAddr None None 16); d_len := 7 |} /\
  (* mov eax, [r12*1 - 0x7ffffff0] (REX.X makes index 100 a register) *)
  decode [66; 139; 4; 37; 16; 0; 0; 128] = Some {| d_prefixes := []; d_w := false; d_opcode := [139]; d_reg := 0; d_rm := OMem (MAddr None (Some (12, 0)) (-2147483632)); d_len := 8 |} /\
  (* mov eax, [rip+1] ; with REX.B the same ModRM is still rip-relative, not [r13] *)
  decode [139; 5; 1; 0; 0; 0] = Some {| d_prefixes := []; d_w := false; d_opcode := [139]; d_reg := 0; d_rm := OMem (MRip 1); d_len := 6 |} /\
  decode [65; 139; 5; 1; 0; 0; 0] = Some {| d_prefixes := []; d_w := false; d_opcode := [139]; d_reg := 0; d_rm := OMem (MRip 1); d_len := 7 |} /\
  (* [rbx] with a redundant disp32 *)
  decode [139; 131; 0; 0; 0; 0] = Some {| d_prefixes := []; d_w := false; d_opcode := [139]; d_reg := 0; d_rm := OMem (MAddr (Some 3) None 0); d_len := 6 |} /\
  (* truncated instruction; address-size override; VEX *)
  decode [72; 139; 68; 139] = None /\ decode [103; 139; 0] = None /\ decode [197; 249; 111; 0] = None.
Proof. vm_compute. splits; reflexivity. Qed.
(* the hypotheses of the composed theorem are satisfiable: memBase (in rbx) + zero-extended address (in rcx) + 16 *)
Example lowered_access_instance :
  let rg := fun k => match k with O => 1099511627776 | _ => 4294967288 end in
  let regs := fun k => if k =? 3 then 1099511627776 else 4294967288 in
  let e := ADD (V64 0) (UX (R32 1) true) true in
  lowerable 16 e = true /\ zext_ok rg 16 e /\
  amode_vals regs (XRegRegShift 16 3 1 0) = Some (lower_to_amode true rg e 16) /\
  xamode_wf (XRegRegShift 16 3 1 0) /\ opcode_wf (opcode_bytes 139 1) = true /\
  encode_mem 1 0 139 1 0 (XRegRegShift 16 3 1 0) = Some [72; 139; 68; 11; 16] /\
  ea_of_decoded regs 0 (MAddr (Some 3) (Some (1, 0)) 16) = 1099511627776 + 4294967288 + 16.
Proof.
  cbv zeta. splits; try (vm_compute; reflexivity); try (cbn; unfold W32, is_reg; lia).
Qed.
Example riprel_fixup_instance :
  (* F3 0F 6F 05 <disp32> at offset 2 of a buffer, label at offset 25: disp = 25 - 10 = 15 *)
  fixup_rip ([144; 144] ++ [243; 15; 111; 5; 0; 0; 0; 0] ++ [204]) 10 25 = [144; 144; 243; 15; 111; 5; 15; 0; 0; 0; 204] /\
  fixup_rip ([144; 144] ++ [243; 15; 111; 5; 0; 0; 0; 0] ++ [204]) 10 0 = [144; 144; 243; 15; 111; 5; 246; 255; 255; 255; 204] /\
  decode [243; 15; 111; 5; 246; 255; 255; 255; 204] =
    Some {| d_prefixes := [243]; d_w := false; d_opcode := [15; 111]; d_reg := 0; d_rm := OMem (MRip (-10)); d_len := 8 |}.
Proof. vm_compute. splits; reflexivity. Qed.
