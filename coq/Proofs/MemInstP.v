(* Proofs about Rt/MemInst.v (C14). The arithmetic facts are about the definitions REGENERATED from
   the Go source (Gen.GenWasm / Gen.GenBinary), so a change of a comparison or a width in memory.go,
   module.go or decoder.go re-opens these proofs. *)
From Verif Require Import Lib.GoInt Gen.GenWasm Gen.GenBinary Rt.MemInst.
From Coq Require Import ZifyBool.
Open Scope Z_scope.
Ltac Zify.zify_post_hook ::= Z.div_mod_to_equations.

Ltac gen_unfold :=
  cbv [MemoryInstance_hasSize MemoryInstance_Pages MemoryInstance_Size memoryBytesNumToPages
       MemoryPagesToBytesNum Memory_Validate newMemorySizer is_nil] in *.

Definition u32 (z : Z) : Prop := 0 <= z < 2 ^ 32.

Definition wf_cfg (c : cfg) : Prop :=
  u32 (c_min c) /\ u32 (c_max c) /\ 0 <= c_limit c <= 65536.

(* every written cell lies below the current length *)
Definition data_in (l : Z) (d : list (Z * Z)) : Prop := Forall (fun kv => 0 <= fst kv < l) d.

Definition wf (m : mem) : Prop :=
  0 <= m_min m /\ m_min m <= pages m /\ pages m <= m_max m /\ m_max m <= 65536 /\
  m_len m = pages m * 65536 /\
  (m_alloc m = false -> pages m <= m_cap m) /\
  data_in (m_len m) (m_data m).

(* ---------------------------------------------------------------- configuration *)
Lemma accept_bounds c : wf_cfg c -> accept c = true ->
  let '(mn, cp, mx) := sized c in 0 <= mn /\ mn <= cp /\ cp <= mx /\ mx <= c_limit c.
Proof.
  intros (Hmin & Hmax & Hlim). unfold accept, sized, u32 in *. gen_unfold.
  destruct (negb (c_hasmax c)), (c_capmax c);
  repeat (cbn [negb]; cbv beta iota; match goal with |- context [if ?a <? ?b then _ else _] => destruct (Z.ltb_spec a b) end);
  cbn; intros Hacc; try discriminate; lia.
Qed.

Lemma pages_of_len p : 0 <= p <= 65536 -> MemoryInstance_Pages (MemoryPagesToBytesNum p) = p.
Proof. intros H. gen_unfold. goint_unfold. lia. Qed.

Lemma bytes_of_pages p : 0 <= p <= 65536 -> MemoryPagesToBytesNum p = p * 65536.
Proof. intros H. gen_unfold. goint_unfold. lia. Qed.

Lemma init_wf c : wf_cfg c -> accept c = true -> wf (mem_init c).
Proof.
  intros Hc Ha. pose proof (accept_bounds c Hc Ha) as Hb. destruct Hc as (_ & _ & Hlim).
  unfold mem_init, wf, pages. destruct (sized c) as [[mn cp] mx].
  destruct Hb as (H0 & H1 & H2 & H3). cbn [m_len m_min m_cap m_max m_alloc m_data].
  rewrite pages_of_len by lia. rewrite bytes_of_pages by lia.
  repeat split; try lia.
  - intros Hal. rewrite Hal. lia.
  - constructor.
Qed.

(* ---------------------------------------------------------------- growth *)
Lemma data_in_mono l l' d : l <= l' -> data_in l d -> data_in l' d.
Proof. intros Hl H. unfold data_in in *. eapply Forall_impl; [|exact H]. cbn. intros a Ha. lia. Qed.

Lemma grow_spec m d : wf m -> 0 <= d < 2 ^ 32 ->
  let '(m', r) := grow m d in
  (pages m + d <= m_max m ->
     r = Some (pages m) /\ pages m' = pages m + d /\ m_data m' = m_data m /\ wf m' /\
     m_max m' = m_max m /\ m_min m' = m_min m) /\
  (m_max m < pages m + d -> r = None /\ m' = m).
Proof.
  intros Hw Hd. pose proof Hw as (H0 & H1 & H2 & H3 & H4 & H5 & H6). unfold grow.
  destruct (Z.eqb_spec d 0) as [->|Hnz].
  { split; intros Hle; [|lia]. repeat split; auto; lia. }
  unfold wf. unfold pages in *. set (P := MemoryInstance_Pages (m_len m)) in *.
  assert (Hp : 0 <= P <= 65536) by lia.
  destruct (Z.ltb_spec (m_max m) (wrap 32 (P + d))) as [Hgt|Hle]; cbn [orb].
  { (* over max, possibly after wrapping: then d is huge and the sum really exceeds max *)
    split; intros Hs; [|split; reflexivity].
    exfalso. rewrite wrap_small in Hgt by lia. lia. }
  destruct (Z.ltb_spec (swrap 32 d) 0) as [Hneg|Hpos].
  { split; intros Hs; [|split; reflexivity]. exfalso.
    rewrite swrap_small in Hneg by (unfold in_s; lia). lia. }
  (* accepted: the sum did not wrap and is <= max *)
  assert (Hd31 : d < 2 ^ 31).
  { unfold swrap in Hpos. change (32 - 1) with 31 in Hpos. lia. }
  rewrite wrap_small in * by lia.
  assert (Hnew : 0 <= P + d <= 65536) by lia.
  destruct (m_alloc m) eqn:Hal.
  - cbv beta iota. split; [intros _ | intros Hs; lia].
    unfold with_len; cbn [m_len m_min m_cap m_max m_alloc m_data].
    rewrite pages_of_len by lia. rewrite bytes_of_pages by lia.
    repeat split; try lia; try congruence.
    eapply data_in_mono; [|exact H6]. lia.
  - specialize (H5 eq_refl).
    destruct (Z.ltb_spec (m_cap m) (P + d)) as [Hcap|Hcap];
      (cbv beta iota; split; [intros _ | intros Hs; lia]);
      unfold with_len; cbn [m_len m_min m_cap m_max m_alloc m_data].
    + rewrite (bytes_of_pages d) by lia. rewrite H4.
      replace (P * 65536 + d * 65536) with ((P + d) * 65536) by lia.
      rewrite <- (bytes_of_pages (P + d)) by lia. rewrite pages_of_len by lia. rewrite bytes_of_pages by lia.
      repeat split; try lia.
      eapply data_in_mono; [|exact H6]. lia.
    + rewrite pages_of_len by lia. rewrite bytes_of_pages by lia.
      repeat split; try lia.
      eapply data_in_mono; [|exact H6]. lia.
Qed.

Lemma grow_wf m d : wf m -> 0 <= d < 2 ^ 32 -> wf (fst (grow m d)) /\
  m_max (fst (grow m d)) = m_max m /\ m_min (fst (grow m d)) = m_min m /\ m_len m <= m_len (fst (grow m d)).
Proof.
  intros Hw Hd. pose proof (grow_spec m d Hw Hd) as Hs. destruct (grow m d) as [m' r]. cbn [fst].
  destruct Hs as [Hok Hfail].
  destruct (Z.le_gt_cases (pages m + d) (m_max m)) as [Hle|Hgt].
  - destruct (Hok Hle) as (_ & Hp & _ & Hw' & Hmx & Hmn).
    split; [exact Hw'|]. split; [exact Hmx|]. split; [exact Hmn|].
    destruct Hw as (_ & _ & _ & _ & Hl & _). destruct Hw' as (_ & _ & _ & _ & Hl' & _). lia.
  - destruct (Hfail Hgt) as (_ & ->).
    split; [exact Hw|]. split; [reflexivity|]. split; [reflexivity|]. lia.
Qed.

(* ---------------------------------------------------------------- contents *)
Lemma rd_above l d a : data_in l d -> l <= a -> rd d a = 0.
Proof.
  intros H Ha. induction d as [|[k v] r IH]; cbn [rd]; [reflexivity|].
  inversion H as [|x xs Hk Hr]; subst. cbn [fst] in Hk.
  destruct (Z.eqb_spec k a); [lia|]. apply IH; assumption.
Qed.

Lemma rd_wr_le d a n v x :
  rd (wr_le d a n v) x =
    if (a <=? x) && (x <? a + Z.of_nat n) then (v / 256 ^ (x - a)) mod 256 else rd d x.
Proof.
  revert a v. induction n as [|n IH]; intros a v.
  - cbn [wr_le]. destruct (Z.leb_spec a x), (Z.ltb_spec x (a + Z.of_nat 0)); cbn; try reflexivity; lia.
  - cbn [wr_le rd]. destruct (Z.eqb_spec a x) as [->|Hne].
    + rewrite Z.sub_diag, Z.pow_0_r, Z.div_1_r.
      destruct (Z.leb_spec x x), (Z.ltb_spec x (x + Z.of_nat (S n))); cbn; try reflexivity; lia.
    + rewrite IH.
      destruct (Z.leb_spec (a + 1) x), (Z.ltb_spec x (a + 1 + Z.of_nat n)),
               (Z.leb_spec a x), (Z.ltb_spec x (a + Z.of_nat (S n))); cbn [andb]; try reflexivity; try lia.
      replace (x - a) with (Z.succ (x - (a + 1))) by lia.
      rewrite Z.pow_succ_r by lia. rewrite Z.div_div by (try lia; apply Z.pow_pos_nonneg; lia).
      reflexivity.
Qed.

Lemma rd_wr_bytes d a bs x :
  rd (wr_bytes d a bs) x =
    if (a <=? x) && (x <? a + Z.of_nat (length bs)) then nth (Z.to_nat (x - a)) bs 0 mod 256 else rd d x.
Proof.
  revert a. induction bs as [|b r IH]; intros a.
  - cbn [wr_bytes length]. destruct (Z.leb_spec a x), (Z.ltb_spec x (a + Z.of_nat 0)); cbn; try reflexivity; lia.
  - cbn [wr_bytes rd length]. destruct (Z.eqb_spec a x) as [->|Hne].
    + rewrite Z.sub_diag. cbn [Z.to_nat nth].
      destruct (Z.leb_spec x x), (Z.ltb_spec x (x + Z.of_nat (S (length r)))); cbn; try reflexivity; lia.
    + rewrite IH.
      destruct (Z.leb_spec (a + 1) x), (Z.ltb_spec x (a + 1 + Z.of_nat (length r))),
               (Z.leb_spec a x), (Z.ltb_spec x (a + Z.of_nat (S (length r)))); cbn [andb]; try reflexivity; try lia.
      replace (Z.to_nat (x - a)) with (S (Z.to_nat (x - (a + 1)))) by lia. reflexivity.
Qed.

Lemma data_in_wr_le l d a n v : data_in l d -> 0 <= a -> a + Z.of_nat n <= l -> data_in l (wr_le d a n v).
Proof.
  revert a v. induction n as [|n IH]; intros a v Hd Ha Hl; cbn [wr_le]; [assumption|].
  constructor; [cbn [fst]; lia|]. apply IH; [assumption|lia|lia].
Qed.

Lemma data_in_wr_bytes l d a bs : data_in l d -> 0 <= a -> a + Z.of_nat (length bs) <= l -> data_in l (wr_bytes d a bs).
Proof.
  revert a. induction bs as [|b r IH]; intros a Hd Ha Hl; cbn [wr_bytes]; [assumption|].
  cbn [length] in Hl. constructor; [cbn [fst]; lia|]. apply IH; [assumption|lia|lia].
Qed.

(* ---------------------------------------------------------------- host accessors *)
Lemma has_size_exact m off n : 0 <= m_len m <= 2 ^ 32 -> 0 <= off < 2 ^ 32 -> 0 <= n < 2 ^ 63 ->
  has_size m off n = true <-> off + n <= m_len m.
Proof. intros Hl Ho Hn. unfold has_size. gen_unfold. goint_unfold. lia. Qed.

Lemma read_fixed_exact m off n : 0 <= m_len m <= 2 ^ 32 -> 0 <= off < 2 ^ 32 -> (n <= 8)%nat ->
  read_fixed m off n <> Panic /\
  (read_fixed m off n <> Fail <-> off + Z.of_nat n <= m_len m) /\
  (off + Z.of_nat n <= m_len m -> read_fixed m off n = Ok (rd_le (m_data m) off n)).
Proof.
  intros Hl Ho Hn8. unfold read_fixed.
  assert (Hn : 0 <= Z.of_nat n < 2 ^ 63) by lia.
  destruct (has_size m off (Z.of_nat n)) eqn:Hs.
  - apply has_size_exact in Hs; try lia.
    unfold slice_from_ok.
    destruct (Z.leb_spec off (m_len m)); [|lia]. destruct (Z.leb_spec (Z.of_nat n) (m_len m - off)); [|lia].
    cbn [andb]. split; [discriminate|]. split; [split; [auto|discriminate]|]. auto.
  - split; [discriminate|]. split; [split; [congruence|]|].
    + intros Hle. apply has_size_exact in Hle; try lia. congruence.
    + intros Hle. apply has_size_exact in Hle; try lia. congruence.
Qed.

Lemma read_region_exact m off n : 0 <= m_len m <= 2 ^ 32 -> 0 <= off < 2 ^ 32 -> 0 <= n < 2 ^ 32 ->
  read_region m off n <> Panic /\ (read_region m off n = Ok 0 <-> off + n <= m_len m).
Proof.
  intros Hl Ho Hn. unfold read_region.
  destruct (has_size m off n) eqn:Hs.
  - apply has_size_exact in Hs; try lia.
    rewrite wrap_small by lia.
    destruct (Z.leb_spec off (off + n)); [|lia]. destruct (Z.leb_spec (off + n) (m_len m)); [|lia].
    cbn. split; [discriminate|]. split; auto.
  - split; [discriminate|]. split; [discriminate|]. intros Hle.
    apply has_size_exact in Hle; try lia. congruence.
Qed.

Lemma write_fixed_exact m off n v : wf m -> 0 <= off < 2 ^ 32 -> (n <= 8)%nat ->
  let '(m', r) := write_fixed m off n v in
  r <> Panic /\ (r = Ok 0 <-> off + Z.of_nat n <= m_len m) /\
  (r <> Ok 0 -> m' = m) /\ wf m' /\ m_len m' = m_len m /\ m_max m' = m_max m /\ m_min m' = m_min m /\
  (r = Ok 0 -> forall x, rd (m_data m') x =
       if (off <=? x) && (x <? off + Z.of_nat n) then (v / 256 ^ (x - off)) mod 256 else rd (m_data m) x).
Proof.
  intros Hw Ho Hn8. pose proof Hw as (H0 & H1 & H2 & H3 & H4 & H5 & H6).
  assert (Hl : 0 <= m_len m <= 2 ^ 32) by lia.
  unfold write_fixed. destruct (has_size m off (Z.of_nat n)) eqn:Hs.
  - apply has_size_exact in Hs; try lia. unfold slice_from_ok.
    destruct (Z.leb_spec off (m_len m)); [|lia]. destruct (Z.leb_spec (Z.of_nat n) (m_len m - off)); [|lia].
    cbn [andb]. repeat split; try discriminate; auto; try congruence.
    + unfold wf, pages, with_data in *; cbn [m_len m_min m_cap m_max m_alloc m_data]. repeat split; auto.
      apply data_in_wr_le; [assumption|lia|lia].
    + intros _ x. cbn [with_data m_data]. apply rd_wr_le.
  - repeat split; try discriminate; auto; try congruence.
    intros Hle. apply has_size_exact in Hle; try lia. congruence.
Qed.

Lemma write_region_exact m off bs : wf m -> 0 <= off < 2 ^ 32 -> Z.of_nat (length bs) < 2 ^ 32 ->
  let '(m', r) := write_region m off bs in
  r <> Panic /\ (r = Ok 0 <-> off + Z.of_nat (length bs) <= m_len m) /\
  (r <> Ok 0 -> m' = m) /\ wf m' /\ m_len m' = m_len m /\ m_max m' = m_max m /\ m_min m' = m_min m /\
  (r = Ok 0 -> forall x, rd (m_data m') x =
       if (off <=? x) && (x <? off + Z.of_nat (length bs)) then nth (Z.to_nat (x - off)) bs 0 mod 256
       else rd (m_data m) x).
Proof.
  intros Hw Ho Hn. pose proof Hw as (H0 & H1 & H2 & H3 & H4 & H5 & H6).
  assert (Hl : 0 <= m_len m <= 2 ^ 32) by lia.
  unfold write_region. destruct (has_size m off (Z.of_nat (length bs))) eqn:Hs.
  - apply has_size_exact in Hs; try lia.
    destruct (Z.leb_spec off (m_len m)); [|lia].
    repeat split; try discriminate; auto; try congruence.
    + unfold wf, pages, with_data in *; cbn [m_len m_min m_cap m_max m_alloc m_data]. repeat split; auto.
      apply data_in_wr_bytes; [assumption|lia|lia].
    + intros _ x. cbn [with_data m_data]. apply rd_wr_bytes.
  - repeat split; try discriminate; auto; try congruence.
    intros Hle. apply has_size_exact in Hle; try lia. congruence.
Qed.

(* ---------------------------------------------------------------- every reachable state *)
Definition op_ok (o : op) : Prop :=
  match o with
  | OGrow d => 0 <= d < 2 ^ 32
  | OPages | OSizeBytes => True
  | ORead n off => 0 <= off < 2 ^ 32 /\ (n <= 8)%nat
  | OReadRegion off n => 0 <= off < 2 ^ 32 /\ 0 <= n < 2 ^ 32
  | OWrite n off _ => 0 <= off < 2 ^ 32 /\ (n <= 8)%nat
  | OWriteRegion off bs => 0 <= off < 2 ^ 32 /\ Z.of_nat (length bs) < 2 ^ 32
  end.

Ltac splits := repeat match goal with |- _ /\ _ => split end.

Lemma step_wf m o : wf m -> op_ok o ->
  wf (fst (step m o)) /\ m_max (fst (step m o)) = m_max m /\ m_min (fst (step m o)) = m_min m /\
  m_len m <= m_len (fst (step m o)) /\ snd (step m o) <> Panic.
Proof.
  intros Hw Ho. destruct o as [d| | |n off|off n|n off v|off bs]; cbn [step op_ok] in *.
  - pose proof (grow_wf m d Hw Ho) as (A & B & C & D). destruct (grow m d) as [m' r]; cbn [fst snd] in *.
    splits; auto. destruct r; cbn; discriminate.
  - cbn [fst snd]. splits; auto; try lia. discriminate.
  - cbn [fst snd]. splits; auto; try lia. discriminate.
  - cbn [fst snd]. splits; auto; try lia.
    destruct Hw as (H0 & H1 & H2 & H3 & H4 & _). destruct Ho. apply read_fixed_exact; lia.
  - cbn [fst snd]. splits; auto; try lia.
    destruct Hw as (H0 & H1 & H2 & H3 & H4 & _). apply read_region_exact; lia.
  - destruct Ho as [Ho Hn8]. pose proof (write_fixed_exact m off n v Hw Ho Hn8) as Hx. destruct (write_fixed m off n v) as [m' r].
    cbn [fst snd]. destruct Hx as (A & B & C & D & E & F & G & H). splits; auto. lia.
  - destruct Ho as [Ho Hn]. pose proof (write_region_exact m off bs Hw Ho Hn) as Hx.
    destruct (write_region m off bs) as [m' r].
    cbn [fst snd]. destruct Hx as (A & B & C & D & E & F & G & H). splits; auto. lia.
Qed.

Lemma final_wf ops : forall m, wf m -> Forall op_ok ops ->
  wf (final m ops) /\ m_max (final m ops) = m_max m /\ m_min (final m ops) = m_min m /\ m_len m <= m_len (final m ops).
Proof.
  induction ops as [|o r IH]; intros m Hw Ho; unfold final in *; cbn [fold_left].
  - splits; auto; lia.
  - inversion Ho as [|x xs Hox Hor]; subst.
    pose proof (step_wf m o Hw Hox) as (A & B & C & D & _).
    destruct (IH _ A Hor) as (A' & B' & C' & D'). splits; auto; try congruence; lia.
Qed.

Lemma run_no_panic ops : forall m, wf m -> Forall op_ok ops -> ~ In Panic (snd (run m ops)).
Proof.
  induction ops as [|o r IH]; intros m Hw Ho; cbn [run].
  - cbn. tauto.
  - inversion Ho as [|x xs Hox Hor]; subst.
    pose proof (step_wf m o Hw Hox) as (A & _ & _ & _ & E).
    destruct (step m o) as [m1 x] eqn:Hs. cbn [fst snd] in *.
    specialize (IH m1 A Hor). destruct (run m1 r) as [m2 xs]. cbn [snd] in *.
    intros [Hh|Ht]; [congruence|tauto].
Qed.

(* the guest's memory.size as the interpreter computes it is the page count, including at 65536 pages *)
Lemma size_interp_pages m : wf m -> size_interp m = pages m.
Proof.
  intros (H0 & H1 & H2 & H3 & H4 & _). unfold size_interp. unfold pages in *. gen_unfold.
  rewrite (wrap_small 64 (m_len m)) by (goint_unfold; lia). reflexivity.
Qed.

(* the compiler's 32-bit load of the length agrees below 4GiB ... *)
Lemma size_compiler_pages m : wf m -> pages m < 65536 -> size_compiler m = pages m.
Proof.
  intros (H0 & H1 & H2 & H3 & H4 & _) Hp. unfold size_compiler.
  rewrite H4. goint_unfold. lia.
Qed.

(* ---------------------------------------------------------------- statements in terms of the configuration *)
Definition pages_bound (c : cfg) : Z := if c_hasmax c then Z.min (c_max c) (c_limit c) else c_limit c.

Lemma sized_semantics c : wf_cfg c -> accept c = true ->
  fst (fst (sized c)) = c_min c /\ snd (sized c) = pages_bound c.
Proof.
  intros (Hmin & Hmax & Hlim). unfold accept, sized, pages_bound, u32 in *. gen_unfold.
  destruct (c_hasmax c), (c_capmax c);
  repeat (cbn [negb]; cbv beta iota; match goal with |- context [if ?a <? ?b then _ else _] => destruct (Z.ltb_spec a b) end);
  cbn; intros Hacc; try discriminate; lia.
Qed.

Lemma init_fields c : m_min (mem_init c) = fst (fst (sized c)) /\ m_max (mem_init c) = snd (sized c).
Proof. unfold mem_init. destruct (sized c) as [[a b] d]. cbn. split; reflexivity. Qed.

Lemma reachable_invariant c ops : wf_cfg c -> accept c = true -> Forall op_ok ops ->
  let m := final (mem_init c) ops in
  wf m /\
  c_min c <= pages m <= pages_bound c /\ pages_bound c <= 65536 /\ m_len m = pages m * 65536 /\
  ~ In Panic (snd (run (mem_init c) ops)).
Proof.
  intros Hc Ha Ho. pose proof (init_wf c Hc Ha) as Hw.
  pose proof (final_wf ops _ Hw Ho) as (A & B & C & D).
  pose proof (sized_semantics c Hc Ha) as (E & F). pose proof (init_fields c) as (G & H).
  cbv zeta. split; [exact A|]. destruct A as (A0 & A1 & A2 & A3 & A4 & _).
  splits; try lia. apply run_no_panic; assumption.
Qed.

Lemma grow_contents m d : wf m -> 0 <= d < 2 ^ 32 ->
  let m' := fst (grow m d) in
  (forall a, rd (m_data m') a = rd (m_data m) a) /\ (forall a, m_len m <= a -> rd (m_data m') a = 0).
Proof.
  intros Hw Hd. pose proof (grow_spec m d Hw Hd) as Hs. destruct (grow m d) as [m' r]. cbn [fst].
  destruct Hs as [Hok Hfail]. pose proof Hw as (_ & _ & _ & _ & _ & _ & H6).
  destruct (Z.le_gt_cases (pages m + d) (m_max m)) as [Hle|Hgt].
  - destruct (Hok Hle) as (_ & _ & Hdat & _). rewrite Hdat. split; [reflexivity|].
    intros a Ha. eapply rd_above; eassumption.
  - destruct (Hfail Hgt) as (_ & ->). split; [reflexivity|]. intros a Ha. eapply rd_above; eassumption.
Qed.

Lemma compiler_size_65536 :
  exists m, wf m /\ pages m = 65536 /\ size_interp m = 65536 /\ size_compiler m = 0.
Proof.
  exists {| m_len := 2 ^ 32; m_min := 0; m_cap := 65536; m_max := 65536; m_alloc := false; m_data := [] |}.
  unfold wf, pages, size_interp, size_compiler, data_in. cbn [m_len m_min m_cap m_max m_alloc m_data].
  assert (E : MemoryInstance_Pages (2 ^ 32) = 65536) by (vm_compute; reflexivity). rewrite E.
  splits; try lia; try (apply Forall_nil); vm_compute; reflexivity.
Qed.

(* non-vacuity: a concrete accepted configuration and a grow/write/read history *)
Example c14_example :
  let c := {| c_min := 1; c_hasmax := true; c_max := 3; c_limit := 65536; c_capmax := false; c_alloc := false |} in
  wf_cfg c /\ accept c = true /\
  snd (run (mem_init c) [OGrow 1; OWrite 4 131068 305419896; ORead 4 131068; OGrow 2; OGrow 1; OPages; ORead 1 196607; ORead 1 196608])
   = [Ok 1; Ok 0; Ok 305419896; Fail; Ok 2; Ok 3; Ok 0; Fail].
Proof.
  cbv zeta. unfold wf_cfg, u32. cbn [c_min c_max c_limit].
  split; [lia|]. split; vm_compute; reflexivity.
Qed.
