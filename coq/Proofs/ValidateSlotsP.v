(* C01: the typing hypothesis of SlotsP.slot_machine_refines_spec_partial discharged for validated programs.
   ValidateP.exec_sound, instantiated with the operators of the completed specification SpecG (which agree
   with Spec's on typed operands: SlotsP.specg_un_on_wf / specg_bin_on_wf), shows that on a validated program
   SpecG and Spec run in lock step; composing with the unconditional Slot-vs-SpecG refinement gives the slot
   machine against the specification itself. *)
From Coq Require Import ZArith List Bool Lia.
From Verif Require Import Lib.GoInt Lib.StackEff Wasm.Numerics Wasm.Sem Gen.GenInterp Wasm.Slots Wasm.Validate
  Proofs.SemP Proofs.SemRelP Proofs.SlotsP Proofs.ValidateP.
Import ListNotations.
Open Scope Z_scope.

(* the checker's operator tables are those of Wasm/Slots.v *)
Lemma vun_valid o : vun o = valid_un o. Proof. destruct o as [w []|w| | |]; reflexivity. Qed.
Lemma vbin_valid o : vbin o = valid_bin o. Proof. destruct o; reflexivity. Qed.
Lemma uin_un_in o : uin o = un_in o. Proof. destruct o; reflexivity. Qed.
Lemma b_in_bin_in o : b_in o = bin_in o. Proof. destruct o; reflexivity. Qed.

Lemma specg_un_typed o x : vun o = true -> wfv (uin o) x -> specg_un o x = spec_un o x.
Proof. rewrite vun_valid, uin_un_in. apply specg_un_on_wf. Qed.
Lemma specg_bin_typed o x y : vbin o = true -> wfv (b_in o) x -> wfv (b_in o) y -> specg_bin o x y = spec_bin o x y.
Proof. rewrite vbin_valid, b_in_bin_in. apply specg_bin_on_wf. Qed.

Notation zeq D1 D2 := (fun (a : val D1) (b : val D2) => a = b).

(* a Spec outcome read as a SpecG outcome is related to itself *)
Lemma out_rel_co (o : out Spec) :
  out_rel SpecG Spec (zeq SpecG Spec) (store_eq (zeq SpecG Spec)) (co specg_un specg_bin o) o.
Proof.
  assert (Hs : forall s : store Spec, store_eq (zeq SpecG Spec) (cs specg_un specg_bin s) s).
  { intros s. apply (seq_intro specg_un spec_un specg_bin spec_bin); reflexivity. }
  assert (Hf : forall f : frame Spec, Rf SpecG Spec (zeq SpecG Spec) (cf specg_un specg_bin f) f).
  { intros f. split; cbn; apply F2refl. }
  destruct o; cbn; auto.
Qed.

Section Typed.
Variable host : nat -> list Z -> hostres Z.
Variable listened : nat -> bool.
Variable maxdepth : nat.
Variable T : tenv.
Hypothesis Hhost : host_ok host T.

(* on a validated program the completed specification IS the specification *)
Theorem guarded_spec_is_spec_on_validated fuel depth ii (s : store Spec) stk lcs lt rt L tis st res :
  store_ok T s -> check_seq T (the_inst Spec s ii) lt rt L tis (STy st) = Some res ->
  Forall2 wfv st stk -> Forall2 wfv lt lcs ->
  out_rel SpecG Spec (zeq SpecG Spec) (store_eq (zeq SpecG Spec))
    (exec SpecG host listened maxdepth fuel depth ii (cs specg_un specg_bin s) (Build_frame SpecG stk lcs) (map erase tis))
    (exec Spec host listened maxdepth fuel depth ii s (Build_frame Spec stk lcs) (map erase tis)).
Proof.
  intros Hs Hc Hst Hl.
  pose proof (proj1 (exec_sound specg_un specg_bin specg_un_typed specg_bin_typed host listened maxdepth T Hhost
                       fuel depth ii s stk lcs lt rt L tis st res Hs Hc Hst Hl)) as E.
  change (exec SpecG host listened maxdepth fuel depth ii (cs specg_un specg_bin s) (Build_frame SpecG stk lcs) (map erase tis))
    with (exec (zd specg_un specg_bin) host listened maxdepth fuel depth ii (cs specg_un specg_bin s)
               (Build_frame (zd specg_un specg_bin) stk lcs) (map erase tis)).
  rewrite E. apply out_rel_co.
Qed.

(* the slot machine refines the SPECIFICATION on validated programs *)
Theorem slot_machine_refines_spec fuel depth ii (s1 : store Slot) (s2 : store Spec) (f1 : frame Slot) (f2 : frame Spec) lt rt L tis st res :
  store_ok T s2 -> check_seq T (the_inst Spec s2 ii) lt rt L tis (STy st) = Some res ->
  Forall2 wfv st (stack f2) -> Forall2 wfv lt (locals f2) ->
  store_eq (zeq Slot Spec) s1 s2 -> Rf Slot Spec (zeq Slot Spec) f1 f2 ->
  out_rel Slot Spec (zeq Slot Spec) (store_eq (zeq Slot Spec))
    (exec Slot host listened maxdepth fuel depth ii s1 f1 (map erase tis))
    (exec Spec host listened maxdepth fuel depth ii s2 f2 (map erase tis)).
Proof.
  intros Hs Hc Hst Hl Hseq Hf. destruct f2 as [stk lcs]. cbn [stack locals] in *.
  apply (slot_machine_refines_spec_partial host listened maxdepth fuel depth ii s1 (cs specg_un specg_bin s2) s2
           f1 (Build_frame SpecG stk lcs) (Build_frame Spec stk lcs)).
  - apply (seq_elim slot_un spec_un slot_bin spec_bin) in Hseq. destruct Hseq as (E1 & E2 & E3 & E4 & E5 & E6).
    apply (seq_intro slot_un specg_un slot_bin specg_bin); assumption.
  - exact Hf.
  - eapply guarded_spec_is_spec_on_validated; eassumption.
Qed.

(* ... and at the level of exported calls (what the correspondence run compares): same result slots / same trap,
   equal stores afterwards *)
Definition res_rel (r1 : result Slot) (r2 : result Spec) : Prop :=
  match r1, r2 with
  | RVals a, RVals b => a = b
  | RTrap t, RTrap u => t = u
  | RFuel, RFuel => True
  | _, _ => False
  end.

Theorem slot_call_export_refines_spec fuel (s1 : store Slot) (s2 : store Spec) fa fd (args : list Z) :
  store_ok T s2 -> nth_error (t_funcs T) fa = Some fd -> Forall2 wfv (fst (tsig fd)) args ->
  store_eq (zeq Slot Spec) s1 s2 ->
  store_eq (zeq Slot Spec) (fst (call_export Slot host listened maxdepth fuel s1 fa args))
                           (fst (call_export Spec host listened maxdepth fuel s2 fa args)) /\
  res_rel (snd (call_export Slot host listened maxdepth fuel s1 fa args))
          (snd (call_export Spec host listened maxdepth fuel s2 fa args)).
Proof.
  intros Hs Hn Ha Hseq. pose proof Hseq as Hseq0.
  apply (seq_elim slot_un spec_un slot_bin spec_bin) in Hseq. destruct Hseq as (G1 & G2 & G3 & G4 & G5 & G6).
  assert (E1 : @s_funcs Slot s1 = s_funcs s2) by exact G1. assert (E2 : @s_insts Slot s1 = s_insts s2) by exact G2.
  assert (E3 : @s_tabs Slot s1 = s_tabs s2) by exact G3. assert (E4 : @s_mems Slot s1 = s_mems s2) by exact G4.
  assert (E5 : @s_globals Slot s1 = s_globals s2) by exact G5. assert (E6 : @s_log Slot s1 = s_log s2) by exact G6.
  clear G1 G2 G3 G4 G5 G6.
  destruct (store_ok_func T s2 fa fd Hs Hn) as [Ef _].
  pose proof (store_ok_drv T s2 fa fd Hs Hn) as Hsx.
  pose proof (drv_check T s2 fa fd Hn) as Hc.
  set (x2 := with_insts s2 (s_insts s2 ++ [drv_inst fa])) in *.
  set (x1 := Build_store Slot (s_funcs s2) (s_insts s2 ++ [drv_inst fa]) (s_globals s1) (s_mems s1) (s_tabs s1) (s_log s1)).
  assert (Hx : store_eq (zeq Slot Spec) x1 x2).
  { apply (seq_intro slot_un spec_un slot_bin spec_bin); unfold x1, x2, with_insts;
      cbn [s_funcs s_insts s_globals s_mems s_tabs s_log]; [reflexivity|reflexivity|exact E3|exact E4|exact E5|exact E6]. }
  pose proof (slot_machine_refines_spec fuel 0%nat (length (s_insts s2)) x1 x2 (Build_frame Slot (rev args) []) (Build_frame Spec (rev args) [])
                [] (rev (snd (tsig fd))) [] [TCall 0] (rev (fst (tsig fd))) _ Hsx Hc (F2_rev _ _ _ Ha) (Forall2_nil _) Hx
                (conj (F2refl _) (Forall2_nil _))) as R.
  cbn [map erase] in R.
  unfold call_export. rewrite E1, E2, Ef.
  assert (Hstrip : forall (a : store Slot) (b : store Spec), store_eq (zeq Slot Spec) a b ->
    store_eq (zeq Slot Spec)
      {| s_funcs := s_funcs a; s_insts := firstn (length (s_insts s2)) (s_insts a); s_globals := s_globals a;
         s_mems := s_mems a; s_tabs := s_tabs a; s_log := s_log a |}
      {| s_funcs := s_funcs b; s_insts := firstn (length (s_insts s2)) (s_insts b); s_globals := s_globals b;
         s_mems := s_mems b; s_tabs := s_tabs b; s_log := s_log b |}).
  { intros a b H. apply (seq_elim slot_un spec_un slot_bin spec_bin) in H. destruct H as (A1 & A2 & A3 & A4 & A5 & A6).
    apply (seq_intro slot_un spec_un slot_bin spec_bin); cbn [s_funcs s_insts s_globals s_mems s_tabs s_log];
      [exact A1|exact (f_equal (firstn (length (s_insts s2))) A2)|exact A3|exact A4|exact A5|exact A6]. }
  assert (Hvals : forall (f1 : frame Slot) (f2 : frame Spec) n, Rf Slot Spec (zeq Slot Spec) f1 f2 ->
            rev (firstn n (stack f1)) = rev (firstn n (stack f2))).
  { intros f1 f2 n [H _]. apply F2eq in H. rewrite H. reflexivity. }
  destruct fd as [gi tp tr tl body|h tp tr]; cbn [erase_func tsig fst snd] in *;
    (match goal with |- store_eq _ (fst (match ?X1 with _ => _ end)) (fst (match ?X2 with _ => _ end)) /\ _ =>
       assert (R' : out_rel Slot Spec (zeq Slot Spec) (store_eq (zeq Slot Spec)) X1 X2) by exact R; clear R;
       destruct X1 as [a1 f1|n1 a1 f1|a1 f1|t1 a1|], X2 as [a2 f2|n2 a2 f2|a2 f2|t2 a2|] end;
     cbn [out_rel] in R'; try contradiction; cbn [fst snd res_rel];
     [ destruct R' as [Ra Rf']; split; [apply Hstrip; exact Ra|apply Hvals; exact Rf']
     | destruct R' as (_ & Ra & Rf'); split; [apply Hstrip; exact Ra|apply Hvals; exact Rf']
     | destruct R' as [Ra Rf']; split; [apply Hstrip; exact Ra|apply Hvals; exact Rf']
     | destruct R' as [Rt Ra]; split; [apply Hstrip; exact Ra|exact Rt]
     | split; [exact Hseq0|exact I] ]).
Qed.
End Typed.

(* non-vacuity: ValidateP's validated example program on the slot machine, for every fuel *)
Definition ex_store_slot : store Slot :=
  Build_store Slot (s_funcs ex_store) (s_insts ex_store) (s_globals ex_store) (s_mems ex_store) (s_tabs ex_store) [].

Example ex_slot_refines fuel :
  out_rel Slot Spec (zeq Slot Spec) (store_eq (zeq Slot Spec))
    (exec Slot ex_host (fun _ => true) 10 fuel 0 0 ex_store_slot (Build_frame Slot [] []) (map erase [TCall 1; TDrop; TDrop]))
    (exec Spec ex_host (fun _ => true) 10 fuel 0 0 ex_store (Build_frame Spec [] []) (map erase [TCall 1; TDrop; TDrop])).
Proof.
  apply (slot_machine_refines_spec ex_host (fun _ => true) 10%nat ex_T ex_host_ok fuel 0%nat 0%nat ex_store_slot ex_store
           (Build_frame Slot [] []) (Build_frame Spec [] []) [] [] [] [TCall 1; TDrop; TDrop] [] (STy [])).
  - exact ex_store_ok.
  - vm_compute. reflexivity.
  - constructor.
  - constructor.
  - apply (seq_intro slot_un spec_un slot_bin spec_bin); reflexivity.
  - split; constructor.
Qed.
