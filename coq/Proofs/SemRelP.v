(* Relational metatheory of W: two executions (possibly over different value domains, hosts and
   listener sets) started in related states proceed in lock step and end in related states.
   Instances: listeners are transparent (C20), an instance computes from its footprint only (C11),
   and a refinement of value domains lifts from operators to programs (C01). *)
From Coq Require Import ZArith List Bool Lia.
From Verif Require Import Wasm.Numerics Wasm.Sem Proofs.SemP.
Import ListNotations.
Open Scope Z_scope.

Section Rel.
Variables D1 D2 : domain.
Variable host1 : nat -> list (val D1) -> hostres (val D1).
Variable host2 : nat -> list (val D2) -> hostres (val D2).
Variables listened1 listened2 : nat -> bool.
Variable maxdepth : nat.

Notation exec1 := (exec D1 host1 listened1 maxdepth).
Notation exec2 := (exec D2 host2 listened2 maxdepth).

Variable Rv : val D1 -> val D2 -> Prop.
Variable Rs : store D1 -> store D2 -> Prop.
Variable ok_inst : store D1 -> nat -> Prop.

Definition Rl := Forall2 Rv.
Definition Rf (f1 : frame D1) (f2 : frame D2) : Prop := Rl (stack f1) (stack f2) /\ Rl (locals f1) (locals f2).

Definition code_eq (s1 : store D1) (s2 : store D2) : Prop :=
  s_funcs s1 = s_funcs s2 /\ s_insts s1 = s_insts s2 /\ s_tabs s1 = s_tabs s2.

Definition sres_rel (r1 : sres D1) (r2 : sres D2) : Prop :=
  match r1, r2 with
  | SOk s1 f1, SOk s2 f2 => Rs s1 s2 /\ Rf f1 f2
  | STrap t, STrap u => t = u
  | SNot, SNot => True
  | _, _ => False
  end.

Definition hostres_rel (r1 : hostres (val D1)) (r2 : hostres (val D2)) : Prop :=
  match r1, r2 with
  | HRet a, HRet b => Rl a b
  | HPanic c, HPanic d => c = d
  | HExit c, HExit d => c = d
  | HReenter g a, HReenter k b => g = k /\ Rl a b
  | _, _ => False
  end.

Hypothesis Rs_code : forall s1 s2, Rs s1 s2 -> code_eq s1 s2.
Hypothesis ok_pres : forall s1 s1' ii, same_code D1 s1 s1' -> ok_inst s1 ii -> ok_inst s1' ii.
Hypothesis H_simple : forall ii s1 s2 f1 f2 i, ok_inst s1 ii -> Rs s1 s2 -> Rf f1 f2 ->
  sres_rel (step_simple D1 ii s1 f1 i) (step_simple D2 ii s2 f2 i).
Hypothesis H_truthy : forall a b, Rv a b -> truthy D1 a = truthy D2 b.
Hypothesis H_u32 : forall a b, Rv a b -> to_u32 D1 a = to_u32 D2 b.
Hypothesis H_zero : Rv (of_const D1 64 0) (of_const D2 64 0).
Hypothesis H_host : forall h a b, Rl a b -> hostres_rel (host1 h a) (host2 h b).
Hypothesis H_hostlog : forall s1 s2 h a b, Rs s1 s2 -> Rl a b -> Rs (add_log D1 s1 (EHost h a)) (add_log D2 s2 (EHost h b)).
Hypothesis H_before : forall s1 s2 fa a b, Rs s1 s2 -> Rl a b ->
  Rs (if listened1 fa then add_log D1 s1 (EBefore fa a) else s1) (if listened2 fa then add_log D2 s2 (EBefore fa b) else s2).
Hypothesis H_after : forall s1 s2 fa a b, Rs s1 s2 -> Rl a b ->
  Rs (if listened1 fa then add_log D1 s1 (EAfter fa a) else s1) (if listened2 fa then add_log D2 s2 (EAfter fa b) else s2).
Hypothesis H_abort : forall s1 s2 fa, Rs s1 s2 ->
  Rs (if listened1 fa then add_log D1 s1 (EAbort fa) else s1) (if listened2 fa then add_log D2 s2 (EAbort fa) else s2).
Hypothesis ok_call : forall s ii k fa ci tp tr nl body, ok_inst s ii ->
  nth_error (i_funcs (the_inst D1 s ii)) k = Some fa -> nth_error (s_funcs s) fa = Some (FWasm ci tp tr nl body) -> ok_inst s ci.
Hypothesis ok_indirect : forall s ii ta fa ci tp tr nl body, ok_inst s ii ->
  i_tab (the_inst D1 s ii) = Some ta -> In (Some fa) (nth ta (s_tabs s) []) ->
  nth_error (s_funcs s) fa = Some (FWasm ci tp tr nl body) -> ok_inst s ci.
Hypothesis ok_reenter : forall s ii h args g gargs ci tp tr nl body, ok_inst s ii ->
  host1 h args = HReenter g gargs -> nth_error (s_funcs s) g = Some (FWasm ci tp tr nl body) -> ok_inst s ci.

Definition out_rel (o1 : out D1) (o2 : out D2) : Prop :=
  match o1, o2 with
  | Normal s1 f1, Normal s2 f2 | Ret s1 f1, Ret s2 f2 => Rs s1 s2 /\ Rf f1 f2
  | Branch n s1 f1, Branch m s2 f2 => n = m /\ Rs s1 s2 /\ Rf f1 f2
  | Trap t s1, Trap u s2 => t = u /\ Rs s1 s2
  | OutOfFuel, OutOfFuel => True
  | _, _ => False
  end.

Definition ires_rel (r1 : ires D1) (r2 : ires D2) : Prop :=
  match r1, r2 with
  | IOk s1 a, IOk s2 b => Rs s1 s2 /\ Rl a b
  | ITrap t s1, ITrap u s2 => t = u /\ Rs s1 s2
  | IFuel, IFuel => True
  | _, _ => False
  end.

Definition ex_rel (ex1 : nat -> nat -> store D1 -> frame D1 -> list instr -> out D1)
                  (ex2 : nat -> nat -> store D2 -> frame D2 -> list instr -> out D2) : Prop :=
  forall depth ii s1 s2 f1 f2 is, ok_inst s1 ii -> Rs s1 s2 -> Rf f1 f2 ->
    out_rel (ex1 depth ii s1 f1 is) (ex2 depth ii s2 f2 is).

Lemma Rl_firstn n a b : Rl a b -> Rl (firstn n a) (firstn n b).
Proof.
  intros H. revert n. induction H as [|x y a b Hxy H IH]; intros [|n]; cbn.
  - constructor. - constructor. - constructor. - constructor; [exact Hxy|apply IH].
Qed.
Lemma Rl_skipn n a b : Rl a b -> Rl (skipn n a) (skipn n b).
Proof.
  intros H. revert n. induction H as [|x y a b Hxy H IH]; intros [|n]; cbn.
  - constructor. - constructor. - constructor; assumption. - apply IH.
Qed.
Lemma Rl_rev a b : Rl a b -> Rl (rev a) (rev b).
Proof. induction 1; cbn; [constructor|]. apply Forall2_app; auto. Qed.
Lemma Rl_app a b c d : Rl a b -> Rl c d -> Rl (a ++ c) (b ++ d).
Proof. intros. apply Forall2_app; assumption. Qed.
Lemma Rl_zeros n : Rl (zeros D1 n) (zeros D2 n).
Proof. unfold zeros. induction n; cbn; constructor; auto. Qed.
Lemma Rl_length a b : Rl a b -> length a = length b.
Proof. induction 1; cbn; congruence. Qed.

Lemma run_body_rel ex1 ex2 depth ci s1 s2 a b nr nl body :
  ex_rel ex1 ex2 -> ok_inst s1 ci -> Rs s1 s2 -> Rl a b ->
  ires_rel (run_body D1 ex1 depth ci s1 a nr nl body) (run_body D2 ex2 depth ci s2 b nr nl body).
Proof.
  intros Hex Hok Hs Hab. unfold run_body.
  assert (Hf : Rf {| stack := []; locals := a ++ zeros D1 nl |} {| stack := []; locals := b ++ zeros D2 nl |}).
  { split; cbn; [constructor|]. apply Rl_app; [assumption|apply Rl_zeros]. }
  specialize (Hex depth ci s1 s2 _ _ body Hok Hs Hf).
  destruct (ex1 depth ci s1 _ body) as [x1 g1|n1 x1 g1|x1 g1|t1 x1|], (ex2 depth ci s2 _ body) as [x2 g2|n2 x2 g2|x2 g2|t2 x2|];
    cbn in Hex |- *; try contradiction; auto.
  - destruct Hex as [A [B _]]. split; [exact A|]. apply Rl_rev, Rl_firstn. exact B.
  - destruct Hex as [_ [A [B _]]]. split; [exact A|]. apply Rl_rev, Rl_firstn. exact B.
  - destruct Hex as [A [B _]]. split; [exact A|]. apply Rl_rev, Rl_firstn. exact B.
Qed.

Lemma same_code1_trans a b c : same_code D1 a b -> same_code D1 b c -> same_code D1 a c.
Proof. intros (A1 & A2 & A3) (B1 & B2 & B3). unfold same_code. repeat split; congruence. Qed.
Lemma add_log_same1 s e : same_code D1 s (add_log D1 s e).
Proof. unfold same_code, add_log, set_log; cbn; auto. Qed.
Lemma same_code1_refl s : same_code D1 s s.
Proof. unfold same_code; auto. Qed.

Lemma bracket_rel fa a b s1 s2 k1 k2 :
  Rs s1 s2 -> Rl a b ->
  (forall x1 x2, same_code D1 s1 x1 -> Rs x1 x2 -> ires_rel (k1 x1) (k2 x2)) ->
  ires_rel (bracket D1 listened1 fa a s1 k1) (bracket D2 listened2 fa b s2 k2).
Proof.
  intros Hs Hab Hk. unfold bracket.
  pose proof (H_before s1 s2 fa a b Hs Hab) as Hb.
  assert (Hsc : same_code D1 s1 (if listened1 fa then add_log D1 s1 (EBefore fa a) else s1)).
  { destruct (listened1 fa); [apply add_log_same1|apply same_code1_refl]. }
  pose proof (Hk _ _ Hsc Hb) as Hr.
  destruct (listened1 fa) eqn:E1, (listened2 fa) eqn:E2;
    match goal with |- ires_rel ?l ?r =>
      match l with context [k1 ?x1] => match r with context [k2 ?x2] =>
        destruct (k1 x1) as [y1 v1|t1 y1|], (k2 x2) as [y2 v2|t2 y2|] end end end;
    cbn in Hr |- *; try contradiction; auto.
  all: try (destruct Hr as [Hy Hv]; pose proof (H_after y1 y2 fa v1 v2 Hy Hv) as Ha; rewrite E1, E2 in Ha; split; assumption).
  all: try (destruct Hr as [-> Hy]; pose proof (H_abort y1 y2 fa Hy) as Ha; rewrite E1, E2 in Ha; split; [reflexivity|assumption]).
Qed.

Lemma invoke_rel ex1 ex2 depth s1 s2 ii fa a b :
  ex_rel ex1 ex2 -> ok_inst s1 ii -> Rs s1 s2 -> Rl a b ->
  (forall ci tp tr nl body, nth_error (s_funcs s1) fa = Some (FWasm ci tp tr nl body) -> ok_inst s1 ci) ->
  ires_rel (invoke_with D1 host1 listened1 maxdepth ex1 depth s1 fa a)
           (invoke_with D2 host2 listened2 maxdepth ex2 depth s2 fa b).
Proof.
  intros Hex Hii Hs Hab Hfa. unfold invoke_with.
  apply bracket_rel; auto. intros x1 x2 Hsc Hx.
  destruct (Nat.ltb maxdepth depth); [cbn; auto|].
  pose proof (Rs_code _ _ Hx) as (Cf & Ci & Ct). rewrite <- Cf.
  pose proof Hsc as (Sf & Si & St). rewrite Sf.
  destruct (nth_error (s_funcs s1) fa) as [[ci tp tr nl body|h tp tr]|] eqn:Hn; [| |cbn; auto].
  - apply run_body_rel; auto. eapply ok_pres; [exact Hsc|]. eapply Hfa. reflexivity.
  - cbv zeta. pose proof (H_host h a b Hab) as Hh.
    pose proof (H_hostlog x1 x2 h a b Hx Hab) as Hy.
    destruct (host1 h a) as [v1|c1|c1|g1 ga1] eqn:E1, (host2 h b) as [v2|c2|c2|g2 ga2]; cbn in Hh; try contradiction.
    + cbn. auto.
    + subst. cbn. auto.
    + subst. cbn. auto.
    + destruct Hh as [-> Hga]. cbn [add_log set_log s_funcs]. rewrite <- Cf, Sf.
      destruct (nth_error (s_funcs s1) g2) as [[ci gtp gtr gnl gbody|? ? ?]|] eqn:Hg; try (cbn; auto).
      apply bracket_rel; auto. intros z1 z2 Hz Hzz.
      apply run_body_rel; auto.
      eapply ok_pres; [|eapply ok_reenter; eassumption].
      eapply same_code1_trans; [exact Hsc|]. eapply same_code1_trans; [apply add_log_same1|exact Hz].
Qed.

Lemma code_of_exec1 fuel depth ii s f is :
  match exec1 fuel depth ii s f is with
  | Normal s' _ | Branch _ s' _ | Ret s' _ | Trap _ s' => same_code D1 s s'
  | OutOfFuel => True
  end.
Proof. exact (exec_same_code D1 host1 listened1 maxdepth fuel depth ii s f is). Qed.

Lemma Rf_stack f1 f2 : Rf f1 f2 -> Rl (stack f1) (stack f2). Proof. intros [H _]; exact H. Qed.
Lemma Rf_locals f1 f2 : Rf f1 f2 -> Rl (locals f1) (locals f2). Proof. intros [_ H]; exact H. Qed.

Theorem exec_rel fuel : ex_rel (exec1 fuel) (exec2 fuel).
Proof.
  induction fuel as [|fu IH]; intros depth ii s1 s2 f1 f2 is Hok Hs Hf; [exact I|].
  destruct is as [|i rest]; [cbn; split; assumption|].
  cbn [Sem.exec].
  pose proof (H_simple ii s1 s2 f1 f2 i Hok Hs Hf) as Hsim.
  destruct (step_simple D1 ii s1 f1 i) as [x1 g1|t1|] eqn:E1, (step_simple D2 ii s2 f2 i) as [x2 g2|t2|] eqn:E2;
    cbn in Hsim; try contradiction.
  - (* simple step on both sides *)
    destruct Hsim as [Hx Hg]. apply IH; auto.
    eapply ok_pres; [|exact Hok]. eapply (proj1 (step_simple_log D1 ii s1 f1 i x1 g1 E1)).
  - subst. cbn. split; [reflexivity|exact Hs].
  - (* control flow and calls *)
    clear Hsim.
    assert (Hcont : forall x1 x2 g1 g2, same_code D1 s1 x1 -> Rs x1 x2 -> Rf g1 g2 ->
              out_rel (Sem.exec D1 host1 listened1 maxdepth fu depth ii x1 g1 rest)
                      (Sem.exec D2 host2 listened2 maxdepth fu depth ii x2 g2 rest)).
    { intros x1 x2 g1 g2 Hsc Hx Hg. apply IH; auto. eapply ok_pres; eassumption. }
    assert (Hblock : forall np nr body stk1 stk2 lb, Rl stk1 stk2 ->
      out_rel
       (match Sem.exec D1 host1 listened1 maxdepth fu depth ii s1 {| stack := firstn np stk1; locals := locals f1 |} body with
        | Normal s' f' => Sem.exec D1 host1 listened1 maxdepth fu depth ii s' {| stack := firstn nr (stack f') ++ skipn np stk1; locals := locals f' |} rest
        | Branch O s' f' =>
            match lb with
            | None => Sem.exec D1 host1 listened1 maxdepth fu depth ii s' {| stack := firstn nr (stack f') ++ skipn np stk1; locals := locals f' |} rest
            | Some l => Sem.exec D1 host1 listened1 maxdepth fu depth ii s' {| stack := firstn np (stack f') ++ skipn np stk1; locals := locals f' |}
                              (Loop np nr l :: rest)
            end
        | Branch (S n) s' f' => Branch n s' f'
        | o => o
        end)
       (match Sem.exec D2 host2 listened2 maxdepth fu depth ii s2 {| stack := firstn np stk2; locals := locals f2 |} body with
        | Normal s' f' => Sem.exec D2 host2 listened2 maxdepth fu depth ii s' {| stack := firstn nr (stack f') ++ skipn np stk2; locals := locals f' |} rest
        | Branch O s' f' =>
            match lb with
            | None => Sem.exec D2 host2 listened2 maxdepth fu depth ii s' {| stack := firstn nr (stack f') ++ skipn np stk2; locals := locals f' |} rest
            | Some l => Sem.exec D2 host2 listened2 maxdepth fu depth ii s' {| stack := firstn np (stack f') ++ skipn np stk2; locals := locals f' |}
                              (Loop np nr l :: rest)
            end
        | Branch (S n) s' f' => Branch n s' f'
        | o => o
        end)).
    { intros np nr body stk1 stk2 lb Hstk.
      assert (Hf0 : Rf {| stack := firstn np stk1; locals := locals f1 |} {| stack := firstn np stk2; locals := locals f2 |}).
      { split; cbn; [apply Rl_firstn; exact Hstk|apply Rf_locals; exact Hf]. }
      pose proof (IH depth ii s1 s2 _ _ body Hok Hs Hf0) as H1.
      pose proof (code_of_exec1 fu depth ii s1 {| stack := firstn np stk1; locals := locals f1 |} body) as Hc.
      destruct (Sem.exec D1 host1 listened1 maxdepth fu depth ii s1 _ body) as [x1 g1|[|n1] x1 g1|x1 g1|t1 x1|],
               (Sem.exec D2 host2 listened2 maxdepth fu depth ii s2 _ body) as [x2 g2|[|n2] x2 g2|x2 g2|t2 x2|];
        cbn in H1; try contradiction; try (destruct H1 as [? _]; discriminate).
      - destruct H1 as [Hx [Hg1 Hg2]]. apply Hcont; auto. split; cbn; [|exact Hg2].
        apply Rl_app; [apply Rl_firstn; exact Hg1|apply Rl_skipn; exact Hstk].
      - destruct H1 as [_ [Hx [Hg1 Hg2]]]. destruct lb as [l|].
        + apply IH; auto; [eapply ok_pres; eassumption|]. split; cbn; [|exact Hg2].
          apply Rl_app; [apply Rl_firstn; exact Hg1|apply Rl_skipn; exact Hstk].
        + apply Hcont; auto. split; cbn; [|exact Hg2].
          apply Rl_app; [apply Rl_firstn; exact Hg1|apply Rl_skipn; exact Hstk].
      - destruct H1 as [E [Hx Hg]]. inversion E; subst. cbn. auto.
      - exact H1.
      - exact H1.
      - exact I. }
    assert (Hinv : forall fa a b stk1 stk2 np, Rl a b -> Rl stk1 stk2 ->
      (forall ci tp tr nl body, nth_error (s_funcs s1) fa = Some (FWasm ci tp tr nl body) -> ok_inst s1 ci) ->
      out_rel
        (match invoke_with D1 host1 listened1 maxdepth (Sem.exec D1 host1 listened1 maxdepth fu) depth s1 fa a with
         | IOk s' vs => Sem.exec D1 host1 listened1 maxdepth fu depth ii s' (setstack D1 f1 (rev vs ++ skipn np stk1)) rest
         | ITrap t s' => Trap t s'
         | IFuel => OutOfFuel
         end)
        (match invoke_with D2 host2 listened2 maxdepth (Sem.exec D2 host2 listened2 maxdepth fu) depth s2 fa b with
         | IOk s' vs => Sem.exec D2 host2 listened2 maxdepth fu depth ii s' (setstack D2 f2 (rev vs ++ skipn np stk2)) rest
         | ITrap t s' => Trap t s'
         | IFuel => OutOfFuel
         end)).
    { intros fa a b stk1 stk2 np Hab Hstk Hfa.
      pose proof (invoke_rel _ _ depth s1 s2 ii fa a b IH Hok Hs Hab Hfa) as H1.
      pose proof (invoke_same_code D1 host1 listened1 maxdepth fu depth s1 fa a) as Hc.
      destruct (invoke_with D1 host1 listened1 maxdepth _ depth s1 fa a) as [x1 v1|t1 x1|],
               (invoke_with D2 host2 listened2 maxdepth _ depth s2 fa b) as [x2 v2|t2 x2|]; cbn in H1; try contradiction.
      - destruct H1 as [Hx Hv]. apply Hcont; auto. split; cbn; [|apply Rf_locals; exact Hf].
        apply Rl_app; [apply Rl_rev; exact Hv|apply Rl_skipn; exact Hstk].
      - destruct H1 as [-> Hx]. cbn. auto.
      - exact I. }
    pose proof (Rs_code _ _ Hs) as (Cf & Ci & Ct).
    assert (Hinst : the_inst D2 s2 ii = the_inst D1 s1 ii) by (unfold the_inst; rewrite Ci; reflexivity).
    pose proof (Rf_stack _ _ Hf) as Hstk.
    destruct i as [w c|o|o| | | | |k|k|k|k|k|w n sx off|n off| | |np nr body|np nr body|np nr t e|n|n|ls d| |f0|ty];
      try (exfalso; unfold step_simple, the_mem in E1;
           repeat match type of E1 with context [match ?x with _ => _ end] => destruct x end; discriminate E1);
      clear E1 E2.
    + (* Block *) apply (Hblock np nr body (stack f1) (stack f2) None Hstk).
    + (* Loop *) apply (Hblock np nr body (stack f1) (stack f2) (Some body) Hstk).
    + (* If *) inversion Hstk as [|c1 c2 k1 k2 Hc Hk Ea Eb]; [cbn; auto|].
      rewrite (H_truthy _ _ Hc).
      assert (Hf0 : Rf {| stack := firstn np k1; locals := locals f1 |} {| stack := firstn np k2; locals := locals f2 |}).
      { split; cbn; [apply Rl_firstn; exact Hk|apply Rf_locals; exact Hf]. }
      pose proof (IH depth ii s1 s2 _ _ (if truthy D2 c2 then t else e) Hok Hs Hf0) as H1.
      pose proof (code_of_exec1 fu depth ii s1 {| stack := firstn np k1; locals := locals f1 |} (if truthy D2 c2 then t else e)) as Hc1.
      destruct (Sem.exec D1 host1 listened1 maxdepth fu depth ii s1 _ (if truthy D2 c2 then t else e)) as [x1 g1|[|n1] x1 g1|x1 g1|t1 x1|],
               (Sem.exec D2 host2 listened2 maxdepth fu depth ii s2 _ (if truthy D2 c2 then t else e)) as [x2 g2|[|n2] x2 g2|x2 g2|t2 x2|];
        cbn in H1; try contradiction; try (destruct H1 as [? _]; discriminate).
      * destruct H1 as [Hx [Hg1 Hg2]]. apply Hcont; auto. split; cbn; [|exact Hg2].
        apply Rl_app; [apply Rl_firstn; exact Hg1|apply Rl_skipn; exact Hk].
      * destruct H1 as [_ [Hx [Hg1 Hg2]]]. apply Hcont; auto. split; cbn; [|exact Hg2].
        apply Rl_app; [apply Rl_firstn; exact Hg1|apply Rl_skipn; exact Hk].
      * destruct H1 as [E [Hx Hg]]. inversion E; subst. cbn. auto.
      * exact H1.
      * exact H1.
      * exact I.
    + (* Br *) cbn. auto.
    + (* BrIf *) inversion Hstk as [|c1 c2 k1 k2 Hc Hk Ea Eb]; [cbn; auto|].
      rewrite (H_truthy _ _ Hc). destruct (truthy D2 c2).
      * cbn. splits; auto. split; cbn; [exact Hk|apply Rf_locals; exact Hf].
      * apply Hcont; [apply same_code1_refl|exact Hs|]. split; cbn; [exact Hk|apply Rf_locals; exact Hf].
    + (* BrTable *) inversion Hstk as [|c1 c2 k1 k2 Hc Hk Ea Eb]; [cbn; auto|].
      cbv zeta. rewrite (H_u32 _ _ Hc). cbn. splits; auto. split; cbn; [exact Hk|apply Rf_locals; exact Hf].
    + (* Return *) cbn. auto.
    + (* Call *) rewrite Hinst.
      destruct (nth_error (i_funcs (the_inst D1 s1 ii)) f0) as [fa|] eqn:Hk; [|cbn; auto].
      rewrite <- Cf.
      apply Hinv; [apply Rl_rev, Rl_firstn; exact Hstk|exact Hstk|].
      intros ci tp tr nl body Hn. eapply ok_call; eassumption.
    + (* CallIndirect *) inversion Hstk as [|c1 c2 k1 k2 Hc Hk Ea Eb]; [cbn; auto|].
      rewrite Hinst. destruct (i_tab (the_inst D1 s1 ii)) as [ta|] eqn:Ht; [|cbn; auto].
      cbv zeta. rewrite <- Ct, <- Cf, (H_u32 _ _ Hc).
      destruct (to_u32 D2 c2 <? Z.of_nat (length (nth ta (s_tabs s1) []))); [|cbn; auto].
      destruct (nth_error (nth ta (s_tabs s1) []) (Z.to_nat (to_u32 D2 c2))) as [[fa|]|] eqn:Hn; try (cbn; auto).
      destruct (nth_error (s_funcs s1) fa) as [[ci tp tr nl body|h tp tr]|] eqn:Hfn; try (cbn; auto).
      * destruct (list_eqb tp _ && list_eqb tr _); [|cbn; auto].
        apply Hinv; [apply Rl_rev, Rl_firstn; exact Hk|exact Hk|].
        intros ci' tp' tr' nl' body' Hn'. rewrite Hfn in Hn'. inversion Hn'; subst.
        eapply ok_indirect; try eassumption. eapply nth_error_In; eassumption.
      * destruct (list_eqb tp _ && list_eqb tr _); [|cbn; auto].
        apply Hinv; [apply Rl_rev, Rl_firstn; exact Hk|exact Hk|].
        intros ci' tp' tr' nl' body' Hn'. rewrite Hfn in Hn'. discriminate.
Qed.

End Rel.

(* ================================================================ instance: listeners are transparent (C20) *)
Section Transparent.
Variable D : domain.
Variable host : nat -> list (val D) -> hostres (val D).
Variable listened : nat -> bool.
Variable maxdepth : nat.

Fixpoint host_only (l : list (event (val D))) : list (event (val D)) :=
  match l with
  | [] => []
  | EHost h a :: r => EHost h a :: host_only r
  | _ :: r => host_only r
  end.

Lemma host_only_app a b : host_only (a ++ b) = host_only a ++ host_only b.
Proof. induction a as [|e a IH]; cbn; [reflexivity|]. destruct e; cbn; rewrite IH; reflexivity. Qed.

(* s2 is s1 with the listener events erased from the log *)
Definition erased (s1 s2 : store D) : Prop := s2 = set_log D s1 (host_only (s_log s1)).

Lemma Forall2_eq {A} (a b : list A) : Forall2 eq a b -> a = b.
Proof. induction 1; congruence. Qed.
Lemma Forall2_eq_refl {A} (a : list A) : Forall2 eq a a.
Proof. induction a; constructor; auto. Qed.

Lemma step_simple_set_log ii s l f i :
  step_simple D ii (set_log D s l) f i =
  match step_simple D ii s f i with SOk s' f' => SOk (set_log D s' l) f' | STrap t => STrap t | SNot => SNot end.
Proof.
  unfold step_simple, the_mem, the_inst, set_log; cbn [s_insts s_mems s_globals].
  destruct i; cbn;
    repeat match goal with
           | |- context [match ?x with _ => _ end] => destruct x eqn:?
           end; try reflexivity.
Qed.

Lemma erased_simple ii s1 s2 f1 f2 i : erased s1 s2 -> Rf D D eq f1 f2 ->
  sres_rel D D eq erased (step_simple D ii s1 f1 i) (step_simple D ii s2 f2 i).
Proof.
  intros -> [Hs Hl]. apply Forall2_eq in Hs. apply Forall2_eq in Hl.
  assert (f2 = f1) as -> by (destruct f1, f2; cbn in *; congruence).
  rewrite step_simple_set_log.
  destruct (step_simple D ii s1 f1 i) as [s' f'|t|] eqn:E; cbn; auto.
  split; [|split; apply Forall2_eq_refl].
  apply step_simple_log in E. destruct E as [_ El]. unfold erased. rewrite El. reflexivity.
Qed.

Theorem listeners_transparent fuel depth ii s1 s2 f is : erased s1 s2 ->
  out_rel D D eq erased (exec D host listened maxdepth fuel depth ii s1 f is)
                         (exec D host (fun _ => false) maxdepth fuel depth ii s2 f is).
Proof.
  intros He.
  refine (exec_rel D D host host listened (fun _ => false) maxdepth eq erased (fun _ _ => True)
            _ (fun _ _ _ _ _ => I) _ _ _ _ _ _ _ _ _ (fun _ _ _ _ _ _ _ _ _ _ _ _ => I) (fun _ _ _ _ _ _ _ _ _ _ _ _ _ => I)
            (fun _ _ _ _ _ _ _ _ _ _ _ _ _ _ => I) fuel depth ii s1 s2 f f is I He _).
  - intros a b ->. unfold code_eq, set_log; cbn. auto.
  - intros k a b g1 g2 j _ Hab Hg. apply erased_simple; assumption.
  - intros a b ->. reflexivity.
  - intros a b ->. reflexivity.
  - reflexivity.
  - intros h a b Hab. apply Forall2_eq in Hab. subst. destruct (host h b); cbn; try split; try reflexivity; apply Forall2_eq_refl.
  - intros a b h x y -> Hxy. apply Forall2_eq in Hxy. subst. unfold erased, add_log, set_log; cbn. rewrite host_only_app. reflexivity.
  - intros a b fa x y -> Hxy. destruct (listened fa); [|reflexivity].
    unfold erased, add_log, set_log; cbn. rewrite host_only_app. cbn. rewrite app_nil_r. reflexivity.
  - intros a b fa x y -> Hxy. destruct (listened fa); [|reflexivity].
    unfold erased, add_log, set_log; cbn. rewrite host_only_app. cbn. rewrite app_nil_r. reflexivity.
  - intros a b fa ->. destruct (listened fa); [|reflexivity].
    unfold erased, add_log, set_log; cbn. rewrite host_only_app. cbn. rewrite app_nil_r. reflexivity.
  - split; apply Forall2_eq_refl.
Qed.
End Transparent.

(* ================================================================ instance: an instance computes from its footprint only (C11) *)
Section NonInterference.
Variable D : domain.
Variable host : nat -> list (val D) -> hostres (val D).
Variable listened : nat -> bool.
Variable maxdepth : nat.
Variable s0 : store D.
Variables Fm Fg : nat -> Prop.

(* two stores with the code of s0 that agree on the footprint (and on nothing else necessarily) *)
Definition agree (s1 s2 : store D) : Prop :=
  code_eq D D s1 s2 /\
  (forall a, Fm a -> nth_error (s_mems s1) a = nth_error (s_mems s2) a) /\
  (forall g, Fg g -> nth_error (s_globals s1) g = nth_error (s_globals s2) g).

Lemma nth_error_upd_same {A} (l : list A) i x :
  nth_error (upd l i x) i = match nth_error l i with Some _ => Some x | None => None end.
Proof.
  unfold upd. destruct (Nat.ltb_spec i (length l)) as [Hlt|Hge].
  - rewrite nth_error_app2 by (rewrite firstn_length; lia).
    rewrite firstn_length. replace (i - Nat.min i (length l))%nat with O by lia. cbn.
    destruct (nth_error l i) eqn:E; [reflexivity|]. apply nth_error_None in E. lia.
  - destruct (nth_error l i) eqn:E; [|reflexivity].
    assert (nth_error l i <> None) by congruence. apply nth_error_Some in H. lia.
Qed.

Lemma agree_upd_mems s1 s2 ma m' : agree s1 s2 -> Fm ma ->
  agree (set_mems D s1 (upd (s_mems s1) ma m')) (set_mems D s2 (upd (s_mems s2) ma m')).
Proof.
  intros (Hc & Hm & Hg) Hma. unfold agree, code_eq, set_mems in *; cbn. repeat split; try tauto.
  intros a Ha. destruct (Nat.eq_dec ma a) as [->|Hne].
  - rewrite !nth_error_upd_same, (Hm a Ha). reflexivity.
  - rewrite !nth_error_upd_ne by assumption. apply Hm; assumption.
Qed.

Lemma agree_upd_globals s1 s2 ga v : agree s1 s2 -> Fg ga ->
  agree (set_globals D s1 (upd (s_globals s1) ga v)) (set_globals D s2 (upd (s_globals s2) ga v)).
Proof.
  intros (Hc & Hm & Hg) Hga. unfold agree, code_eq, set_globals in *; cbn. repeat split; try tauto.
  intros a Ha. destruct (Nat.eq_dec ga a) as [->|Hne].
  - rewrite !nth_error_upd_same, (Hg a Ha). reflexivity.
  - rewrite !nth_error_upd_ne by assumption. apply Hg; assumption.
Qed.

Lemma agree_simple ii s1 s2 f1 f2 i : ok_frame D s0 Fm Fg s1 ii -> agree s1 s2 -> Rf D D eq f1 f2 ->
  sres_rel D D eq agree (step_simple D ii s1 f1 i) (step_simple D ii s2 f2 i).
Proof.
  intros [Hc0 [Hokm Hokg]] Hag [Hs Hl]. apply Forall2_eq in Hs. apply Forall2_eq in Hl.
  assert (Ef : f2 = f1) by (destruct f1, f2; cbn in *; congruence). subst f2.
  pose proof Hag as ((Cf & Ci & Ct) & Hm & Hg).
  assert (Hi1 : the_inst D s1 ii = the_inst D s0 ii) by (apply (the_inst_code D); exact Hc0).
  assert (Hi2 : the_inst D s2 ii = the_inst D s0 ii) by (unfold the_inst in *; rewrite <- Ci; exact Hi1).
  assert (Hmem : the_mem D s2 ii = the_mem D s1 ii).
  { unfold the_mem. rewrite Hi1, Hi2. destruct (i_mem (the_inst D s0 ii)) as [ma|] eqn:E; [|reflexivity].
    rewrite (Hm ma (Hokm ma eq_refl)). reflexivity. }
  assert (Hfm : forall ma m, the_mem D s1 ii = Some (ma, m) -> Fm ma).
  { intros ma m H. unfold the_mem in H. rewrite Hi1 in H. destruct (i_mem (the_inst D s0 ii)) as [a|] eqn:E; [|discriminate].
    destruct (nth_error (s_mems s1) a); [|discriminate]. inversion H; subst. apply Hokm. reflexivity. }
  assert (Rff : forall f, Rf D D eq f f) by (intros f; split; apply Forall2_eq_refl).
  unfold step_simple. rewrite Hmem, Hi1, Hi2.
  destruct i; cbn [sres_rel];
    try (destruct (stack f1) as [|x1 [|x2 [|x3 stk]]]; cbn; auto; fail).
  all: destruct (stack f1) as [|x1 stk1] eqn:Est; cbn; auto.
  all: try (destruct stk1 as [|x2 stk2]; cbn; auto).
  all: try (destruct stk2 as [|x3 stk3]; cbn; auto).
  all: repeat match goal with
       | |- context [match d_bin D ?o ?a ?b with _ => _ end] => destruct (d_bin D o a b); cbn; auto
       | |- context [match nth_error (locals ?ff) ?k with _ => _ end] => destruct (nth_error (locals ff) k); cbn; auto
       end.
  (* the remaining goals read or write globals / memory of the footprint *)
  all: repeat match goal with
       | |- context [nth_error (i_globals (the_inst D ?S ?I)) ?kk] =>
           destruct (nth_error (i_globals (the_inst D S I)) kk) as [ga|] eqn:Eg; cbn [sres_rel]; [|reflexivity];
           try rewrite <- (Hg ga (Hokg _ _ Eg))
       | |- context [match nth_error (s_globals ?S1) ?g with _ => _ end] =>
           destruct (nth_error (s_globals S1) g); cbn [sres_rel]
       | |- context [match the_mem D ?S ?I with _ => _ end] =>
           destruct (the_mem D S I) as [[ma m]|] eqn:Em; cbn [sres_rel]; [|reflexivity]
       | |- sres_rel _ _ _ _ (if ?c then _ else _) _ => destruct c; cbn [sres_rel]
       end.
  all: cbn [sres_rel]; try reflexivity.
  all: try (split; [|apply Rff]).
  all: try exact Hag.
  all: try (apply agree_upd_globals; [exact Hag|eapply Hokg; first [eassumption|reflexivity]]).
  all: try (apply agree_upd_mems; [exact Hag|eapply Hfm; first [eassumption|reflexivity]]).
Qed.


Hypothesis closed_call : forall ii k fa ci tp tr nl body, okfp D s0 Fm Fg ii ->
  nth_error (i_funcs (the_inst D s0 ii)) k = Some fa -> nth_error (s_funcs s0) fa = Some (FWasm ci tp tr nl body) -> okfp D s0 Fm Fg ci.
Hypothesis closed_indirect : forall ii ta fa ci tp tr nl body, okfp D s0 Fm Fg ii ->
  i_tab (the_inst D s0 ii) = Some ta -> In (Some fa) (nth ta (s_tabs s0) []) ->
  nth_error (s_funcs s0) fa = Some (FWasm ci tp tr nl body) -> okfp D s0 Fm Fg ci.
Hypothesis closed_reenter : forall h args g gargs ci tp tr nl body,
  host h args = HReenter g gargs -> nth_error (s_funcs s0) g = Some (FWasm ci tp tr nl body) -> okfp D s0 Fm Fg ci.

Lemma agree_log1 s1 s2 e1 e2 : agree s1 s2 -> agree (add_log D s1 e1) (add_log D s2 e2).
Proof. intros (Hc & Hm & Hg). unfold agree, code_eq, add_log, set_log in *; cbn. tauto. Qed.

Lemma agree_if_log (c : bool) s1 s2 e1 e2 : agree s1 s2 ->
  agree (if c then add_log D s1 e1 else s1) (if c then add_log D s2 e2 else s2).
Proof. intros H. destruct c; [apply agree_log1|]; exact H. Qed.

Theorem exec_noninterference fuel depth ii s1 s2 f is :
  ok_frame D s0 Fm Fg s1 ii -> agree s1 s2 ->
  out_rel D D eq agree (exec D host listened maxdepth fuel depth ii s1 f is)
                       (exec D host listened maxdepth fuel depth ii s2 f is).
Proof.
  intros Hok Hag.
  refine (exec_rel D D host host listened listened maxdepth eq agree (ok_frame D s0 Fm Fg)
            (fun a b H => proj1 H) _ agree_simple _ _ eq_refl _
            (fun a b h x y H _ => agree_log1 a b _ _ H)
            (fun a b fa x y H _ => agree_if_log (listened fa) a b _ _ H)
            (fun a b fa x y H _ => agree_if_log (listened fa) a b _ _ H)
            (fun a b fa H => agree_if_log (listened fa) a b _ _ H)
            _ _ _ fuel depth ii s1 s2 f f is Hok Hag _).
  - intros a b k Hab [Hc Hk]. split; [eapply same_code_trans; eassumption|exact Hk].
  - intros a b ->. reflexivity.
  - intros a b ->. reflexivity.
  - intros h a b Hab. apply Forall2_eq in Hab. subst. destruct (host h b); cbn; try split; try reflexivity; apply Forall2_eq_refl.
  - intros a k j fa ci tp tr nl body [Hc Hk] Hn Hf. split; [exact Hc|].
    rewrite (the_inst_code D s0 a k Hc) in Hn. destruct Hc as (Hc1 & _). rewrite Hc1 in Hf.
    eapply closed_call; eassumption.
  - intros a k ta fa ci tp tr nl body [Hc Hk] Ht Hin Hf. split; [exact Hc|].
    rewrite (the_inst_code D s0 a k Hc) in Ht. pose proof Hc as (Hc1 & _ & Hc3). rewrite Hc1 in Hf. rewrite Hc3 in Hin.
    eapply closed_indirect; eassumption.
  - intros a k h args g gargs ci tp tr nl body [Hc Hk] Hh Hf. split; [exact Hc|].
    destruct Hc as (Hc1 & _). rewrite Hc1 in Hf. eapply closed_reenter; eassumption.
  - split; apply Forall2_eq_refl.
Qed.

End NonInterference.
