(* Proofs about Rt/Limits.v (C12). newMemorySizer and Memory.Validate are the definitions REGENERATED from
   internal/wasm/binary/decoder.go and internal/wasm/module.go; the memory-instance facts reuse the C14 lemmas. *)
From Verif Require Import Lib.GoInt Gen.GenWasm Gen.GenBinary Rt.MemInst Proofs.MemInstP Rt.Limits.
From Coq Require Import ZifyBool.
Open Scope Z_scope.
Ltac Zify.zify_post_hook ::= Z.div_mod_to_equations.

Ltac splits := repeat match goal with |- _ /\ _ => split end.
Ltac case_ltb := repeat (cbn [negb]; cbv beta iota;
  match goal with |- context [if ?a <? ?b then _ else _] => destruct (Z.ltb_spec a b) end).

(* ---------------------------------------------------------------- limits *)
(* (accepted?, min, max) do not depend on memoryCapacityFromMax nor on the allocator *)
Lemma sizer_semantic_part c b1 a1 b2 a2 : wf_cfg c ->
  sem_part (with_flags c b1 a1) = sem_part (with_flags c b2 a2).
Proof.
  intros (Hmin & Hmax & Hlim). unfold sem_part, accept, sized, with_flags, u32 in *.
  cbn [c_min c_hasmax c_max c_limit c_capmax c_alloc]. gen_unfold.
  destruct (c_hasmax c), b1, b2; case_ltb; cbn; try reflexivity; try lia.
Qed.

Lemma wf_cfg_flags c b a : wf_cfg c -> wf_cfg (with_flags c b a).
Proof. unfold wf_cfg, with_flags. cbn. auto. Qed.

(* the flag moves the capacity only, and never outside [min, max] *)
Lemma cap_only_capacity c b1 a1 b2 a2 : wf_cfg c -> accept (with_flags c b1 a1) = true ->
  let '(mn1, cp1, mx1) := sized (with_flags c b1 a1) in
  let '(mn2, cp2, mx2) := sized (with_flags c b2 a2) in
  accept (with_flags c b2 a2) = true /\ mn1 = mn2 /\ mx1 = mx2 /\
  mn1 <= cp1 <= mx1 /\ mn2 <= cp2 <= mx2 /\ mx1 <= c_limit c /\
  (b1 = b2 -> cp1 = cp2).
Proof.
  intros Hc Ha.
  pose proof (sizer_semantic_part c b1 a1 b2 a2 Hc) as Hs.
  pose proof (accept_bounds _ (wf_cfg_flags c b1 a1 Hc) Ha) as B1.
  unfold sem_part in Hs. rewrite Ha in Hs.
  assert (Ha2 : accept (with_flags c b2 a2) = true).
  { destruct (sized (with_flags c b1 a1)) as [[x y] z], (sized (with_flags c b2 a2)) as [[x' y'] z']. congruence. }
  pose proof (accept_bounds _ (wf_cfg_flags c b2 a2 Hc) Ha2) as B2.
  assert (Hcap : b1 = b2 -> snd (fst (sized (with_flags c b1 a1))) = snd (fst (sized (with_flags c b2 a2)))).
  { intros ->. reflexivity. }
  destruct (sized (with_flags c b1 a1)) as [[x y] z], (sized (with_flags c b2 a2)) as [[x' y'] z'].
  cbn [fst snd c_limit with_flags] in *. inversion Hs; subst. splits; auto; lia.
Qed.

(* the flag does make a difference to the capacity (non-vacuity of "only") *)
Example cap_differs :
  let c := {| c_min := 1; c_hasmax := true; c_max := 5; c_limit := 65536; c_capmax := false; c_alloc := false |} in
  wf_cfg c /\ accept c = true /\ capacity (with_flags c false false) = 1 /\ capacity (with_flags c true false) = 5 /\
  sem_part (with_flags c false false) = (true, 1, 5) /\ sem_part (with_flags c true true) = (true, 1, 5).
Proof. cbv zeta. unfold wf_cfg, u32. cbn [c_min c_max c_limit]. splits; try lia; vm_compute; reflexivity. Qed.

(* F11 (repaired): a declared maximum above the limit is clamped with and without the flag *)
Example f11_regression :
  let c := {| c_min := 1; c_hasmax := true; c_max := 100; c_limit := 10; c_capmax := false; c_alloc := false |} in
  sem_part (with_flags c true false) = (true, 1, 10) /\ sem_part (with_flags c false false) = (true, 1, 10).
Proof. split; vm_compute; reflexivity. Qed.

(* ---------------------------------------------------------------- instances *)
Lemma same_semantics_refl m : same_semantics m m.
Proof. unfold same_semantics. auto. Qed.

Lemma same_pages a b : same_semantics a b -> pages a = pages b.
Proof. intros (H & _). unfold pages. rewrite H. reflexivity. Qed.

(* one operation: same observation, and the states stay related *)
Lemma step_same a b o : wf a -> wf b -> same_semantics a b -> op_ok o ->
  snd (step a o) = snd (step b o) /\ same_semantics (fst (step a o)) (fst (step b o)).
Proof.
  intros Wa Wb S Ho. pose proof (same_pages a b S) as Hp. pose proof S as (Hl & Hmn & Hmx & Hd).
  destruct o as [d| | |n off|off n|n off v|off bs]; cbn [step op_ok] in *.
  - (* grow: the decision and the new size depend on pages and max only *)
    pose proof (grow_spec a d Wa Ho) as Ga. pose proof (grow_spec b d Wb Ho) as Gb.
    destruct (grow a d) as [a' ra], (grow b d) as [b' rb]. cbn [fst snd].
    destruct Ga as [Oa Fa], Gb as [Ob Fb].
    destruct (Z.le_gt_cases (pages a + d) (m_max a)) as [Hle|Hgt].
    + destruct (Oa Hle) as (-> & Pa & Da & Wa' & Ma & Na).
      assert (Hle' : pages b + d <= m_max b) by (rewrite <- Hp, <- Hmx; exact Hle).
      destruct (Ob Hle') as (-> & Pb & Db & Wb' & Mb & Nb).
      split; [rewrite Hp; reflexivity|].
      destruct Wa' as (_ & _ & _ & _ & La & _), Wb' as (_ & _ & _ & _ & Lb & _).
      unfold same_semantics. splits; congruence.
    + destruct (Fa Hgt) as (-> & ->).
      assert (Hgt' : m_max b < pages b + d) by (rewrite <- Hp, <- Hmx; exact Hgt).
      destruct (Fb Hgt') as (-> & ->). split; [reflexivity|exact S].
  - cbn [fst snd]. rewrite Hp. auto.
  - cbn [fst snd]. rewrite Hl. auto.
  - cbn [fst snd]. unfold read_fixed, has_size, slice_from_ok. rewrite Hl, Hd. auto.
  - cbn [fst snd]. unfold read_region, has_size. rewrite Hl. auto.
  - unfold write_fixed, has_size, slice_from_ok. rewrite Hl.
    destruct (MemoryInstance_hasSize (m_len b) off (Z.of_nat n)); [|cbn [fst snd]; auto].
    destruct ((off <=? m_len b) && (Z.of_nat n <=? m_len b - off)); cbn [fst snd]; [|auto].
    split; [reflexivity|]. unfold same_semantics, with_data. cbn [m_len m_min m_max m_data]. splits; auto. rewrite Hd. reflexivity.
  - unfold write_region, has_size. rewrite Hl.
    destruct (MemoryInstance_hasSize (m_len b) off (Z.of_nat (length bs))); [|cbn [fst snd]; auto].
    destruct (off <=? m_len b); cbn [fst snd]; [|auto].
    split; [reflexivity|]. unfold same_semantics, with_data. cbn [m_len m_min m_max m_data]. splits; auto. rewrite Hd. reflexivity.
Qed.

(* every history: identical observation lists *)
Lemma run_same ops : forall a b, wf a -> wf b -> same_semantics a b -> Forall op_ok ops ->
  snd (run a ops) = snd (run b ops) /\ same_semantics (fst (run a ops)) (fst (run b ops)).
Proof.
  induction ops as [|o r IH]; intros a b Wa Wb S Ho; cbn [run].
  - cbn. auto.
  - inversion Ho as [|x xs Hox Hor]; subst.
    pose proof (step_same a b o Wa Wb S Hox) as (E & S').
    pose proof (step_wf a o Wa Hox) as (Wa' & _). pose proof (step_wf b o Wb Hox) as (Wb' & _).
    destruct (step a o) as [a1 xa], (step b o) as [b1 xb]. cbn [fst snd] in *.
    specialize (IH a1 b1 Wa' Wb' S' Hor).
    destruct (run a1 r) as [a2 xsa], (run b1 r) as [b2 xsb]. cbn [fst snd] in *.
    destruct IH as (E' & S''). split; [congruence|exact S''].
Qed.

Lemma init_same c b1 a1 b2 a2 : wf_cfg c ->
  same_semantics (mem_init (with_flags c b1 a1)) (mem_init (with_flags c b2 a2)).
Proof.
  intros Hc. pose proof (sizer_semantic_part c b1 a1 b2 a2 Hc) as Hs. unfold sem_part in Hs.
  unfold mem_init, same_semantics.
  destruct (sized (with_flags c b1 a1)) as [[x y] z], (sized (with_flags c b2 a2)) as [[x' y'] z'].
  inversion Hs; subst. cbn [m_len m_min m_max m_data]. auto.
Qed.

(* capacity-from-max and a (well-behaved) allocator are unobservable through grow / read / write / size,
   for every accepted configuration and every operation history *)
Lemma capacity_unobservable c b1 a1 b2 a2 ops : wf_cfg c -> accept (with_flags c b1 a1) = true -> Forall op_ok ops ->
  accept (with_flags c b2 a2) = true /\
  snd (run (mem_init (with_flags c b1 a1)) ops) = snd (run (mem_init (with_flags c b2 a2)) ops).
Proof.
  intros Hc Ha Ho.
  assert (Ha2 : accept (with_flags c b2 a2) = true).
  { pose proof (sizer_semantic_part c b1 a1 b2 a2 Hc) as Hs. unfold sem_part in Hs.
    destruct (sized (with_flags c b1 a1)) as [[x y] z], (sized (with_flags c b2 a2)) as [[x' y'] z']. congruence. }
  split; [exact Ha2|].
  apply run_same; auto.
  - apply init_wf; [apply wf_cfg_flags; exact Hc|exact Ha].
  - apply init_wf; [apply wf_cfg_flags; exact Hc|exact Ha2].
  - apply init_same; exact Hc.
Qed.

(* the two initial states do differ (in capacity and backing), so the statement is not about identical states *)
Example capacity_example :
  let c := {| c_min := 1; c_hasmax := true; c_max := 3; c_limit := 65536; c_capmax := false; c_alloc := false |} in
  let ops := [OGrow 1; OWrite 4 131068 305419896; ORead 4 131068; OGrow 2; OGrow 1; OPages; ORead 1 196607; ORead 1 196608] in
  mem_init (with_flags c false false) <> mem_init (with_flags c true true) /\
  m_cap (mem_init (with_flags c false false)) <> m_cap (mem_init (with_flags c true false)) /\
  snd (run (mem_init (with_flags c false false)) ops) = [Ok 1; Ok 0; Ok 305419896; Fail; Ok 2; Ok 3; Ok 0; Fail] /\
  snd (run (mem_init (with_flags c true true)) ops) = [Ok 1; Ok 0; Ok 305419896; Fail; Ok 2; Ok 3; Ok 0; Fail].
Proof. cbv zeta. splits; try (vm_compute; reflexivity); vm_compute; discriminate. Qed.

(* ---------------------------------------------------------------- module identity *)
Lemma b2z_inj a b : b2z a = b2z b -> a = b.
Proof. destruct a, b; cbn; congruence. Qed.

Lemma listener_bytes_inj ls1 : forall ls2 i t1 t2,
  listener_bytes i ls1 ++ [b2z t1] = listener_bytes i ls2 ++ [b2z t2] -> ls1 = ls2 /\ t1 = t2.
Proof.
  induction ls1 as [|l1 r1 IH]; intros [|l2 r2] i t1 t2 E; cbn [listener_bytes] in E.
  - cbn [app] in E. injection E as E1. apply b2z_inj in E1. auto.
  - exfalso. apply (f_equal (@length Z)) in E. rewrite !app_length in E. cbn [length le32] in E. lia.
  - exfalso. apply (f_equal (@length Z)) in E. rewrite !app_length in E. cbn [length le32] in E. lia.
  - rewrite <- !app_assoc in E. apply app_inv_head in E. cbn [app] in E. injection E as E5 E6.
    apply b2z_inj in E5. subst. destruct (IH r2 (i + 1) t1 t2 E6) as (-> & ->). auto.
Qed.

Section ModuleIDProofs.
  Variable H : list Z -> Z.
  Hypothesis H_inj : forall a b, H a = H b -> a = b.

  (* the same binary compiled under different instrumentation (listener presence per function, or none at all;
     ensure-termination) never gets the same identity, hence never shares a cache entry *)
  Lemma module_id_separates wasm ls1 t1 ls2 t2 :
    module_id H wasm ls1 t1 = module_id H wasm ls2 t2 -> ls1 = ls2 /\ t1 = t2.
  Proof.
    unfold module_id, id_input. intros E. apply H_inj in E. apply app_inv_head in E.
    eapply listener_bytes_inj; exact E.
  Qed.
End ModuleIDProofs.

(* the hypothesis is satisfiable on any finite set of inputs one cares about, and the input strings themselves differ *)
Example id_input_example :
  id_input [0; 97; 115; 109] [true; false] true = [0; 97; 115; 109; 0; 0; 0; 0; 1; 1; 0; 0; 0; 0; 1] /\
  id_input [0; 97; 115; 109] [] true = [0; 97; 115; 109; 1] /\
  id_input [0; 97; 115; 109] [false; false] false <> id_input [0; 97; 115; 109] [] false.
Proof. splits; try (vm_compute; reflexivity). vm_compute. discriminate. Qed.
