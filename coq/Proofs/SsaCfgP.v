(* C01, SSA stream: soundness of the checkers of Engine/SsaCfg.v against the path-based definitions, for ALL graphs. *)
From Coq Require Import List Arith Bool PeanoNat Lia.
Import ListNotations.
From Verif Require Import Engine.SsaCfg.

Ltac splits := repeat match goal with |- _ /\ _ => split end.
Ltac bool_hyps :=
  repeat match goal with
         | H : _ && _ = true |- _ => apply andb_true_iff in H; destruct H
         end.

(* ------------------------------------------------------------------------------------------------------------ *)
(* list helpers *)

Lemma mem_In : forall x l, mem x l = true <-> In x l.
Proof.
  intros x l. unfold mem. rewrite existsb_exists. split.
  - intros [y [Hy He]]. apply Nat.eqb_eq in He. subst. exact Hy.
  - intros H. exists x. split; [exact H | apply Nat.eqb_refl].
Qed.

Lemma mem_false : forall x l, mem x l = false <-> ~ In x l.
Proof.
  intros x l. rewrite <- mem_In. destruct (mem x l); split; intros; try discriminate; try congruence.
Qed.

Lemma memfst_In : forall x l, memfst x l = true <-> exists p, In (x, p) l.
Proof.
  intros x l. induction l as [|[y q] t IH]; simpl.
  - split; [discriminate | intros [p []]].
  - rewrite orb_true_iff, IH, Nat.eqb_eq. split.
    + intros [He | [p Hp]]; [subst; exists q; left; reflexivity | exists p; right; exact Hp].
    + intros [p [He | Hp]]; [inversion He; left; reflexivity | right; exists p; exact Hp].
Qed.

Lemma nodupb_NoDup : forall l, nodupb l = true -> NoDup l.
Proof.
  induction l as [|x t IH]; simpl; intros H; [constructor|].
  apply andb_true_iff in H. destruct H as [H1 H2]. apply negb_true_iff in H1. apply mem_false in H1.
  constructor; [exact H1 | apply IH; exact H2].
Qed.

Lemma index_of_nth : forall x l i, index_of x l = Some i -> nth_error l i = Some x.
Proof.
  intros x l. induction l as [|y t IH]; simpl; intros i H; [discriminate|].
  destruct (x =? y) eqn:E.
  - inversion H. subst. apply Nat.eqb_eq in E. subst. reflexivity.
  - destruct (index_of x t) as [j|]; [|discriminate]. inversion H. subst. simpl. apply IH. reflexivity.
Qed.

Lemma index_of_None : forall x l, index_of x l = None -> ~ In x l.
Proof.
  intros x l. induction l as [|y t IH]; simpl; intros H; [tauto|].
  destruct (x =? y) eqn:E; [discriminate|]. apply Nat.eqb_neq in E.
  destruct (index_of x t); [discriminate|]. intros [Hy | Ht]; [congruence | apply IH; auto].
Qed.

Lemma nth_index_of : forall l i x, NoDup l -> nth_error l i = Some x -> index_of x l = Some i.
Proof.
  induction l as [|y t IH]; intros i x Hnd H; [destruct i; discriminate|].
  inversion Hnd as [|? ? Hnot Hnd']. subst. destruct i as [|i]; simpl in *.
  - inversion H. subst. rewrite Nat.eqb_refl. reflexivity.
  - destruct (x =? y) eqn:E.
    + apply Nat.eqb_eq in E. subst. exfalso. apply Hnot. eapply nth_error_In. exact H.
    + rewrite (IH i x Hnd' H). reflexivity.
Qed.

Lemma count_notin : forall x l, ~ In x l -> count x l = 0.
Proof.
  intros x l. induction l as [|y t IH]; simpl; intros H; [reflexivity|].
  destruct (x =? y) eqn:E; [apply Nat.eqb_eq in E; subst; exfalso; apply H; left; reflexivity|].
  simpl. apply IH. tauto.
Qed.

Lemma count_pos_In : forall x l, 0 < count x l -> In x l.
Proof.
  intros x l H. destruct (in_dec Nat.eq_dec x l) as [Hi|Hn]; [exact Hi|]. rewrite (count_notin _ _ Hn) in H. lia.
Qed.

Lemma same_multiset_count : forall l1 l2, same_multiset l1 l2 = true -> forall x, count x l1 = count x l2.
Proof.
  intros l1 l2 H x. unfold same_multiset in H. rewrite forallb_forall in H.
  destruct (in_dec Nat.eq_dec x (l1 ++ l2)) as [Hi|Hn].
  - apply Nat.eqb_eq. apply H. exact Hi.
  - rewrite !count_notin; [reflexivity| |]; intros Hx; apply Hn; apply in_or_app; tauto.
Qed.

Lemma list_eqb_eq : forall l1 l2, list_eqb l1 l2 = true -> l1 = l2.
Proof.
  induction l1 as [|x t IH]; destruct l2 as [|y t2]; simpl; intros H; try discriminate; [reflexivity|].
  apply andb_true_iff in H. destruct H as [H1 H2]. apply Nat.eqb_eq in H1. subst. f_equal. apply IH. exact H2.
Qed.

Lemma tgt_eqb_eq : forall a b, tgt_eqb a b = true -> a = b.
Proof.
  intros [a1 a2] [b1 b2]. unfold tgt_eqb. simpl. intros H. apply andb_true_iff in H. destruct H as [H1 H2].
  apply Nat.eqb_eq in H1. apply list_eqb_eq in H2. subst. reflexivity.
Qed.

Lemma opt_eqb_eq : forall a b, opt_eqb a b = true -> a = b.
Proof.
  intros [a|] [b|]; simpl; intros H; try discriminate; [apply Nat.eqb_eq in H; subst|]; reflexivity.
Qed.

Lemma forallb2_nth : forall {A B} (f : A -> B -> bool) l1 l2, forallb2 f l1 l2 = true ->
  length l1 = length l2 /\
  forall i y, nth_error l2 i = Some y -> exists x, nth_error l1 i = Some x /\ f x y = true.
Proof.
  intros A B f. induction l1 as [|x t IH]; destruct l2 as [|y t2]; simpl; intros H; try discriminate.
  - split; [reflexivity|]. intros i y Hy. destruct i; discriminate.
  - apply andb_true_iff in H. destruct H as [H1 H2]. destruct (IH _ H2) as [Hl Hn]. split; [lia|].
    intros i y' Hy. destruct i as [|i]; simpl in *.
    + inversion Hy. subst. exists x. split; [reflexivity | exact H1].
    + apply Hn. exact Hy.
Qed.

Lemma in_seq0 : forall n x, In x (seq 0 n) <-> x < n.
Proof. intros. rewrite in_seq. lia. Qed.

(* ------------------------------------------------------------------------------------------------------------ *)
(* paths *)

Lemma path_head : forall g v l, path g v l -> exists t, l = v :: t.
Proof. intros g v l H. destruct H; eexists; reflexivity. Qed.

Lemma path_In_end : forall g v l, path g v l -> In v l.
Proof. intros g v l H. destruct (path_head _ _ _ H) as [t ->]. left. reflexivity. Qed.

Lemma edge_src_lt : forall g u v, edge g u v -> u < length g.
Proof.
  intros g u v H. unfold edge, succs in H. destruct (Nat.lt_ge_cases u (length g)) as [Hl|Hg]; [exact Hl|].
  rewrite nth_overflow in H by exact Hg. destruct H.
Qed.

Lemma edge_dst_lt : forall g u v, wf_graph g = true -> edge g u v -> v < length g.
Proof.
  intros g u v Hwf H. pose proof (edge_src_lt _ _ _ H) as Hu. unfold wf_graph in Hwf.
  apply andb_true_iff in Hwf. destruct Hwf as [_ Hall]. rewrite forallb_forall in Hall.
  unfold edge, succs in H. specialize (Hall (nth u g []) (nth_In _ _ Hu)). rewrite forallb_forall in Hall.
  apply Nat.ltb_lt. apply Hall. exact H.
Qed.

Lemma path_nodes_lt : forall g v l, wf_graph g = true -> path g v l -> forall x, In x l -> x < length g.
Proof.
  intros g v l Hwf H. induction H as [|u v l Hp IH He]; intros x Hx.
  - destruct Hx as [<-|[]]. unfold wf_graph in Hwf. apply andb_true_iff in Hwf. destruct Hwf as [H0 _].
    apply Nat.ltb_lt in H0. exact H0.
  - destruct Hx as [<-|Hx]; [eapply edge_dst_lt; eauto | apply IH; exact Hx].
Qed.

Lemma reachable_lt : forall g v, wf_graph g = true -> reachable g v -> v < length g.
Proof. intros g v Hwf [l Hl]. eapply path_nodes_lt; eauto. eapply path_In_end; eauto. Qed.

Lemma reach_av_path : forall g d v, reach_av g d v <-> exists l, path g v l /\ ~ In d l.
Proof.
  intros g d v. split.
  - intros H. induction H as [Hne | u v Hu [l [Hp Hn]] He Hne].
    + exists [entry]. split; [constructor|]. intros [Hx|[]]. congruence.
    + exists (v :: l). split; [econstructor; eauto|]. intros [Hx|Hx]; [congruence | tauto].
  - intros [l [Hp Hn]]. induction Hp as [|u v l Hp IH He].
    + apply ra_entry. intros Hx. apply Hn. left. exact Hx.
    + apply ra_step with u; [apply IH; intros Hx; apply Hn; right; exact Hx | exact He |].
      intros Hx. apply Hn. left. exact Hx.
Qed.

Lemma dominates_iff : forall g d v, dominates g d v <-> (v = d \/ ~ reach_av g d v).
Proof.
  intros g d v. split.
  - intros H. destruct (Nat.eq_dec v d) as [He|Hne]; [left; exact He|]. right. intros Hr.
    apply reach_av_path in Hr. destruct Hr as [l [Hp Hn]]. apply Hn. apply H. exact Hp.
  - intros [He | Hn] l Hp.
    + subst. eapply path_In_end. exact Hp.
    + destruct (in_dec Nat.eq_dec d l) as [Hi|Hni]; [exact Hi|]. exfalso. apply Hn. apply reach_av_path.
      exists l. split; assumption.
Qed.

Lemma dominates_refl : forall g v, dominates g v v.
Proof. intros g v l Hp. eapply path_In_end. exact Hp. Qed.

Lemma dominator_lt : forall g d v, wf_graph g = true -> reachable g v -> dominates g d v -> d < length g.
Proof. intros g d v Hwf [l Hl] Hd. eapply path_nodes_lt; eauto. Qed.

Lemma reach_av_none : forall g v, wf_graph g = true -> (reach_av g (length g) v <-> reachable g v).
Proof.
  intros g v Hwf. rewrite reach_av_path. split.
  - intros [l [Hp _]]. exists l. exact Hp.
  - intros [l Hp]. exists l. split; [exact Hp|]. intros Hx. pose proof (path_nodes_lt _ _ _ Hwf Hp _ Hx). lia.
Qed.

(* ------------------------------------------------------------------------------------------------------------ *)
(* the certified traversal *)

Lemma disc_sound : forall g d l, disc_ok g d l = true -> forall v, memfst v l = true -> reach_av g d v.
Proof.
  intros g d l. induction l as [|[v0 p] t IH]; simpl; intros H v Hv; [discriminate|].
  apply andb_true_iff in H. destruct H as [H Ht]. apply andb_true_iff in H. destruct H as [Hd Hs].
  apply negb_true_iff in Hd. apply Nat.eqb_neq in Hd.
  apply orb_true_iff in Hv. destruct Hv as [Hv | Hv]; [|apply IH; assumption].
  apply Nat.eqb_eq in Hv. subst v0. apply orb_true_iff in Hs. destruct Hs as [Hs | Hs].
  - apply Nat.eqb_eq in Hs. subst v. apply ra_entry. congruence.
  - apply andb_true_iff in Hs. destruct Hs as [Hp He]. apply ra_step with p.
    + apply IH; assumption.
    + apply mem_In in He. exact He.
    + exact Hd.
Qed.

Lemma closed_complete : forall g d l, closed_ok g d l = true -> forall v, reach_av g d v -> memfst v l = true.
Proof.
  intros g d l H v Hr. unfold closed_ok in H. apply andb_true_iff in H. destruct H as [He Hc].
  rewrite forallb_forall in Hc. induction Hr as [Hne | u v Hu IH Hed Hne].
  - apply orb_true_iff in He. destruct He as [He | He]; [apply Nat.eqb_eq in He; congruence | exact He].
  - apply memfst_In in IH. destruct IH as [p Hp]. specialize (Hc _ Hp). simpl in Hc. rewrite forallb_forall in Hc.
    specialize (Hc _ Hed). apply orb_true_iff in Hc. destruct Hc as [Hc | Hc]; [apply Nat.eqb_eq in Hc; congruence | exact Hc].
Qed.

Lemma sets_ok_wf : forall g ss, sets_ok g ss = true -> wf_graph g = true.
Proof. intros g ss H. unfold sets_ok in H. apply andb_true_iff in H. tauto. Qed.

Lemma inset_iff : forall g ss d v, sets_ok g ss = true -> d <= length g ->
  (inset ss d v = true <-> reach_av g d v).
Proof.
  intros g ss d v H Hd. unfold sets_ok in H. apply andb_true_iff in H. destruct H as [_ H].
  rewrite forallb_forall in H. assert (Hin : In d (seq 0 (S (length g)))) by (apply in_seq0; lia).
  specialize (H _ Hin). unfold set_ok in H. apply andb_true_iff in H. destruct H as [H1 H2]. unfold inset. split.
  - apply disc_sound. exact H1.
  - apply closed_complete. exact H2.
Qed.

Lemma reachb_iff : forall g ss v, sets_ok g ss = true -> (reachb g ss v = true <-> reachable g v).
Proof.
  intros g ss v H. unfold reachb. rewrite (inset_iff g ss (length g) v H (le_n _)).
  apply reach_av_none. eapply sets_ok_wf; eauto.
Qed.

Lemma reachb_false : forall g ss v, sets_ok g ss = true -> (reachb g ss v = false <-> ~ reachable g v).
Proof.
  intros g ss v H. rewrite <- (reachb_iff g ss v H). destruct (reachb g ss v); split; intros; try discriminate; try congruence.
Qed.

Lemma domb_iff : forall g ss d v, sets_ok g ss = true -> d <= length g ->
  (domb ss d v = true <-> dominates g d v).
Proof.
  intros g ss d v H Hd. rewrite dominates_iff. unfold domb. rewrite orb_true_iff, Nat.eqb_eq, negb_true_iff.
  rewrite <- (inset_iff g ss d v H Hd). destruct (inset ss d v); split; intros [A|B]; auto; try discriminate.
  exfalso. apply B. reflexivity.
Qed.

Lemma domb_false : forall g ss d v, sets_ok g ss = true -> d <= length g ->
  (domb ss d v = false <-> ~ dominates g d v).
Proof.
  intros g ss d v H Hd. rewrite <- (domb_iff g ss d v H Hd). destruct (domb ss d v); split; intros; try discriminate; try congruence.
Qed.

(* ------------------------------------------------------------------------------------------------------------ *)
(* dead-block elimination *)

Lemma dead_block_sound : forall g invalid, dead_block_check g invalid = true ->
  forall b, b < length g -> (nth b invalid false = true <-> ~ reachable g b).
Proof.
  intros g invalid H b Hb. unfold dead_block_check in H. apply andb_true_iff in H. destruct H as [Hs H].
  unfold dead_with in H. rewrite forallb_forall in H. specialize (H b (proj2 (in_seq0 _ _) Hb)).
  apply eqb_prop in H. rewrite H, negb_true_iff. apply reachb_false. exact Hs.
Qed.

(* ------------------------------------------------------------------------------------------------------------ *)
(* immediate dominators *)

Lemma dom_sound : forall g idom, dom_check g idom = true ->
  forall b, b < length g ->
    (reachable g b -> exists p, nth b idom None = Some p /\ (b = entry -> p = entry) /\ (b <> entry -> is_idom g p b)) /\
    (~ reachable g b -> nth b idom None = None).
Proof.
  intros g idom H b Hb. unfold dom_check in H. apply andb_true_iff in H. destruct H as [Hs H].
  pose proof (sets_ok_wf _ _ Hs) as Hwf.
  unfold dom_with in H. rewrite forallb_forall in H. specialize (H b (proj2 (in_seq0 _ _) Hb)).
  destruct (nth b idom None) as [p|] eqn:Ei.
  - apply andb_true_iff in H. destruct H as [Hr H]. apply (reachb_iff g _ b Hs) in Hr. split; [|tauto].
    intros _. exists p. split; [reflexivity|]. destruct (b =? entry) eqn:Eb.
    + apply Nat.eqb_eq in Eb. apply Nat.eqb_eq in H. split; [intros; exact H | intros; congruence].
    + apply Nat.eqb_neq in Eb. split; [intros; congruence|]. intros _.
      bool_hyps. apply Nat.ltb_lt in H. apply negb_true_iff in H2. apply Nat.eqb_neq in H2.
      apply (domb_iff g _ p b Hs) in H1; [|lia]. split; [split; assumption|].
      intros d' [Hd' Hne]. pose proof (dominator_lt _ _ _ Hwf Hr Hd') as Hlt.
      rewrite forallb_forall in H0. specialize (H0 d' (proj2 (in_seq0 _ _) Hlt)).
      apply orb_true_iff in H0. destruct H0 as [H0 | H0].
      * apply orb_true_iff in H0. destruct H0 as [H0 | H0].
        -- apply Nat.eqb_eq in H0. congruence.
        -- apply negb_true_iff in H0. apply (domb_false g _ d' b Hs) in H0; [tauto | lia].
      * apply (domb_iff g _ d' p Hs) in H0; [exact H0 | lia].
  - apply negb_true_iff in H. apply (reachb_false g _ b Hs) in H. split; [tauto | reflexivity].
Qed.

(* ------------------------------------------------------------------------------------------------------------ *)
(* loop headers *)

Lemma is_header_iff : forall g ss b, sets_ok g ss = true -> b < length g ->
  (is_header g ss b = true <-> exists u, reachable g u /\ edge g u b /\ dominates g b u).
Proof.
  intros g ss b Hs Hb. unfold is_header. rewrite existsb_exists. split.
  - intros [u [Hu H]]. unfold preds_of in Hu. apply filter_In in Hu. destruct Hu as [_ He]. apply mem_In in He.
    apply andb_true_iff in H. destruct H as [Hr Hd]. exists u. splits.
    + apply (reachb_iff g ss u Hs). exact Hr.
    + exact He.
    + apply (domb_iff g ss b u Hs); [lia | exact Hd].
  - intros [u [Hr [He Hd]]]. exists u. split.
    + unfold preds_of. apply filter_In. split; [apply in_seq0; eapply edge_src_lt; eauto | apply mem_In; exact He].
    + apply andb_true_iff. split; [apply (reachb_iff g ss u Hs); exact Hr | apply (domb_iff g ss b u Hs); [lia | exact Hd]].
Qed.

Lemma loop_sound : forall g hdr, loop_check g hdr = true ->
  forall b, b < length g ->
    (nth b hdr false = true <-> exists u, reachable g u /\ edge g u b /\ dominates g b u).
Proof.
  intros g hdr H b Hb. unfold loop_check in H. apply andb_true_iff in H. destruct H as [Hs H].
  unfold loop_with in H. rewrite forallb_forall in H. specialize (H b (proj2 (in_seq0 _ _) Hb)).
  apply eqb_prop in H. rewrite H. apply is_header_iff; assumption.
Qed.

(* ------------------------------------------------------------------------------------------------------------ *)
(* loop nesting forest *)

Lemma strict_hdrs_In : forall g ss hdr b h, sets_ok g ss = true ->
  (In h (strict_hdrs g ss hdr b) <-> h < length g /\ nth h hdr false = true /\ h <> b /\ dominates g h b).
Proof.
  intros g ss hdr b h Hs. unfold strict_hdrs. rewrite filter_In, in_seq0. split.
  - intros [Hl H]. bool_hyps. apply negb_true_iff in H1. apply Nat.eqb_neq in H1.
    apply (domb_iff g ss h b Hs) in H0; [|lia]. tauto.
  - intros [Hl [Hh [Hne Hd]]]. split; [exact Hl|]. rewrite Hh. simpl. apply andb_true_iff. split.
    + apply negb_true_iff. apply Nat.eqb_neq. exact Hne.
    + apply (domb_iff g ss h b Hs); [lia | exact Hd].
Qed.

Lemma parents_of_In : forall g children b h, length children <= length g ->
  (In h (parents_of g children b) <-> In b (nth h children [])).
Proof.
  intros g children b h Hl. unfold parents_of. rewrite filter_In, in_seq0, mem_In. split; [tauto|].
  intros H. split; [|exact H]. destruct (Nat.lt_ge_cases h (length children)) as [Hlt|Hge]; [lia|].
  rewrite nth_overflow in H by exact Hge. destruct H.
Qed.

Lemma forest_sound : forall g hdr children roots, forest_check g hdr children roots = true ->
  forall b, b < length g ->
    (reachable g b ->
       (forall h, In b (nth h children []) -> nearest_hdr g hdr h b /\ count b (nth h children []) = 1) /\
       ((exists h, sdom g h b /\ nth h hdr false = true) -> exists h, In b (nth h children [])) /\
       (In b roots <-> nth b hdr false = true /\ ~ exists h, sdom g h b /\ nth h hdr false = true)) /\
    (~ reachable g b -> ~ In b roots /\ forall h, ~ In b (nth h children [])).
Proof.
  intros g hdr children roots H b Hb. unfold forest_check in H. apply andb_true_iff in H. destruct H as [Hs H].
  pose proof (sets_ok_wf _ _ Hs) as Hwf.
  unfold forest_with in H. apply andb_true_iff in H. destruct H as [Hlen H]. apply Nat.leb_le in Hlen.
  rewrite forallb_forall in H. specialize (H b (proj2 (in_seq0 _ _) Hb)). cbv zeta in H.
  set (ss := all_sets g) in *. set (HH := strict_hdrs g ss hdr b) in *.
  assert (Hex : (exists h, sdom g h b /\ nth h hdr false = true) -> reachable g b -> exists h, In h HH).
  { intros [h [[Hd Hne] Hh]] Hr. exists h. apply (strict_hdrs_In g ss hdr b h Hs). splits; auto.
    eapply dominator_lt; eauto. }
  destruct (reachb g ss b) eqn:Er.
  - apply (reachb_iff g ss b Hs) in Er. split; [|tauto]. intros _.
    apply andb_true_iff in H. destruct H as [Hroot Hpar]. apply eqb_prop in Hroot. splits.
    + intros h Hin. apply (parents_of_In g children b h Hlen) in Hin.
      destruct (parents_of g children b) as [|h0 [|h1 t]] eqn:Ep; [destruct Hin | | discriminate].
      destruct Hin as [<-|[]]. bool_hyps. apply mem_In in H. apply (strict_hdrs_In g ss hdr b h0 Hs) in H.
      destruct H as [Hl [Hh [Hne Hd]]]. apply Nat.eqb_eq in H0. split; [|exact H0]. unfold nearest_hdr. splits; auto.
      * split; assumption.
      * intros h' [Hd' Hne'] Hh'. rewrite forallb_forall in H1.
        assert (Hi : In h' HH).
        { apply (strict_hdrs_In g ss hdr b h' Hs). splits; auto. eapply dominator_lt; eauto. }
        specialize (H1 _ Hi). apply (domb_iff g ss h' h0 Hs) in H1; [exact H1|].
        apply (strict_hdrs_In g ss hdr b h' Hs) in Hi. lia.
    + intros Hx. destruct (Hex Hx Er) as [h Hh].
      destruct (parents_of g children b) as [|h0 [|h1 t]] eqn:Ep.
      * destruct HH; [destruct Hh | discriminate].
      * exists h0. apply (parents_of_In g children b h0 Hlen). rewrite Ep. left. reflexivity.
      * discriminate.
    + rewrite <- mem_In, Hroot, andb_true_iff. split.
      * intros [Hh Hn]. split; [exact Hh|]. intros Hx. destruct (Hex Hx Er) as [h Hi].
        destruct HH; [destruct Hi | discriminate].
      * intros [Hh Hn]. split; [exact Hh|]. destruct HH as [|h t] eqn:EH; [reflexivity|]. exfalso. apply Hn.
        assert (Hi : In h HH) by (rewrite EH; left; reflexivity).
        apply (strict_hdrs_In g ss hdr b h Hs) in Hi. exists h. unfold sdom. tauto.
  - apply (reachb_false g ss b Hs) in Er. split; [tauto|]. intros _.
    apply andb_true_iff in H. destruct H as [Hroot Hpar]. apply negb_true_iff in Hroot. apply mem_false in Hroot.
    split; [exact Hroot|]. intros h Hin. apply (parents_of_In g children b h Hlen) in Hin.
    destruct (parents_of g children b); [destruct Hin | discriminate].
Qed.

(* ------------------------------------------------------------------------------------------------------------ *)
(* lowest common ancestor in the dominator tree *)

Lemma lca_sound : forall g qs, lca_check g qs = true ->
  forall u v l, In (u, v, l) qs ->
    reachable g u /\ reachable g v /\ dominates g l u /\ dominates g l v /\
    forall d, dominates g d u -> dominates g d v -> dominates g d l.
Proof.
  intros g qs H u v l Hin. unfold lca_check in H. apply andb_true_iff in H. destruct H as [Hs H].
  pose proof (sets_ok_wf _ _ Hs) as Hwf. unfold lca_with in H. rewrite forallb_forall in H.
  specialize (H _ Hin). cbv beta iota in H. bool_hyps. apply Nat.ltb_lt in H3.
  apply (reachb_iff g _ u Hs) in H. apply (reachb_iff g _ v Hs) in H4.
  apply (domb_iff g _ l u Hs) in H2; [|lia]. apply (domb_iff g _ l v Hs) in H1; [|lia]. splits; auto.
  intros d Hdu Hdv. pose proof (dominator_lt _ _ _ Hwf H Hdu) as Hlt. rewrite forallb_forall in H0.
  specialize (H0 d (proj2 (in_seq0 _ _) Hlt)). apply orb_true_iff in H0. destruct H0 as [H0|H0].
  - apply negb_true_iff in H0. apply andb_false_iff in H0. destruct H0 as [H0|H0];
      apply (domb_false g _ d _ Hs) in H0; try lia; tauto.
  - apply (domb_iff g _ d l Hs) in H0; [exact H0 | lia].
Qed.

(* ------------------------------------------------------------------------------------------------------------ *)
(* reverse post order *)

Lemma rpo_sound : forall g order rpo, rpo_check g order rpo = true ->
  NoDup order /\ hd_error order = Some entry /\
  (forall b, In b order <-> reachable g b) /\
  (forall b i, nth_error order i = Some b -> nth b rpo None = Some i) /\
  (forall u v i j, nth_error order i = Some u -> nth_error order j = Some v -> edge g u v ->
                   i < j \/ dominates g v u).
Proof.
  intros g order rpo H. unfold rpo_check in H. apply andb_true_iff in H. destruct H as [Hs H].
  pose proof (sets_ok_wf _ _ Hs) as Hwf. unfold rpo_with in H. bool_hyps.
  apply nodupb_NoDup in H. apply opt_eqb_eq in H4. rewrite forallb_forall in H3, H2, H1, H0.
  assert (Hlt : forall b, In b order -> b < length g) by (intros b Hb; apply Nat.ltb_lt; apply H2; exact Hb).
  splits; auto.
  - intros b. split.
    + intros Hb. specialize (H3 b (proj2 (in_seq0 _ _) (Hlt b Hb))). apply eqb_prop in H3.
      apply (reachb_iff g _ b Hs). rewrite <- H3. apply mem_In. exact Hb.
    + intros Hr. pose proof (reachable_lt _ _ Hwf Hr) as Hb. specialize (H3 b (proj2 (in_seq0 _ _) Hb)).
      apply eqb_prop in H3. apply mem_In. rewrite H3. apply (reachb_iff g _ b Hs). exact Hr.
  - intros b i Hn. pose proof (Hlt b (nth_error_In _ _ Hn)) as Hb. specialize (H1 b (proj2 (in_seq0 _ _) Hb)).
    apply opt_eqb_eq in H1. rewrite H1. apply nth_index_of; assumption.
  - intros u v i j Hi Hj He. specialize (H0 u (nth_error_In _ _ Hi)). rewrite forallb_forall in H0.
    specialize (H0 v He). rewrite (nth_index_of _ _ _ H Hi), (nth_index_of _ _ _ H Hj) in H0.
    apply orb_true_iff in H0. destruct H0 as [H0|H0]; [left; apply Nat.ltb_lt; exact H0 | right].
    apply (domb_iff g _ v u Hs) in H0; [exact H0|]. pose proof (Hlt v (nth_error_In _ _ Hj)). lia.
Qed.

(* ------------------------------------------------------------------------------------------------------------ *)
(* block layout *)

Definition contract (after : list blk) (n0 : nat) (x : next) : next :=
  match x with
  | NGo t => match resolve after n0 (S (length after)) t with Some r => NGo r | None => NStuck end
  | y => y
  end.

Lemma step_after_contract : forall after n0 b o, step_after after n0 b o = contract after n0 (tnext (term_of after b) o).
Proof. intros. unfold step_after, contract, step. destruct (tnext (term_of after b) o); reflexivity. Qed.

Lemma res_eq_resolve : forall after n0 ta tb, res_eq after n0 ta tb = true ->
  resolve after n0 (S (length after)) ta = Some tb.
Proof.
  unfold res_eq. intros after n0 ta tb H. destruct (resolve after n0 (S (length after)) ta) as [r|]; [|discriminate].
  apply tgt_eqb_eq in H. subst. reflexivity.
Qed.

Lemma term_equiv_next : forall after n0 tb ta, term_equiv after n0 tb ta = true ->
  cond_of ta = cond_of tb /\
  forall o, contract after n0 (tnext ta o) = tnext tb o /\ tnext tb o <> NStuck.
Proof.
  intros after n0 tb ta H. destruct tb as [|t ft|nz c t e ft|c ts]; destruct ta as [|t' ft'|nz' c' t' e' ft'|c' ts'];
    cbn [term_equiv] in H; try discriminate.
  - split; [reflexivity|]. intros o. cbn [tnext contract]. split; [reflexivity | discriminate].
  - split; [reflexivity|]. intros o. cbn [tnext contract]. rewrite (res_eq_resolve _ _ _ _ H). split; [reflexivity | discriminate].
  - apply andb_true_iff in H. destruct H as [Hc H]. apply Nat.eqb_eq in Hc. subst c'. split; [reflexivity|].
    intros o. cbn [tnext contract]. split; [|discriminate]. destruct (Bool.eqb nz nz') eqn:En.
    + apply eqb_prop in En. subst nz'. apply andb_true_iff in H. destruct H as [H1 H2].
      destruct (Bool.eqb (negb (o =? 0)) nz); [rewrite (res_eq_resolve _ _ _ _ H1) | rewrite (res_eq_resolve _ _ _ _ H2)]; reflexivity.
    + apply andb_true_iff in H. destruct H as [H1 H2].
      destruct nz, nz', (o =? 0); cbn [Bool.eqb negb] in *; try discriminate;
        first [rewrite (res_eq_resolve _ _ _ _ H1) | rewrite (res_eq_resolve _ _ _ _ H2)]; reflexivity.
  - apply andb_true_iff in H. destruct H as [H Hall]. apply andb_true_iff in H. destruct H as [Hc Hlen].
    apply Nat.eqb_eq in Hc. subst c'. apply negb_true_iff in Hlen. apply Nat.eqb_neq in Hlen.
    split; [reflexivity|]. intros o. destruct (forallb2_nth _ _ _ Hall) as [Hl Hn]. simpl. rewrite Hl.
    set (i := Nat.min o (length ts - 1)).
    destruct (nth_error ts i) as [y|] eqn:Ey.
    + destruct (Hn i y Ey) as [x [Hx Hr]]. rewrite Hx. cbn [contract]. rewrite (res_eq_resolve _ _ _ _ Hr).
      split; [reflexivity | discriminate].
    + exfalso. apply nth_error_None in Ey. unfold i in Ey. lia.
Qed.

Lemma tnext_in_targets : forall t o x, tnext t o = NGo x -> In (fst x) (targets t).
Proof.
  intros t o x H. destruct t as [|t ft|nz c t e ft|c ts]; simpl in *.
  - discriminate.
  - inversion H. left. reflexivity.
  - inversion H. destruct (Bool.eqb (negb (o =? 0)) nz); [left | right; left]; reflexivity.
  - destruct (nth_error ts (Nat.min o (length ts - 1))) as [y|] eqn:Ey; [|discriminate]. inversion H. subst.
    apply in_map. eapply nth_error_In. exact Ey.
Qed.

Lemma ft_ok_sound : forall after order, ft_ok after order = true ->
  forall i b t, nth_error order i = Some b -> last_jump (term_of after b) = Some (t, true) ->
                nth_error order (S i) = Some t.
Proof.
  intros after order. induction order as [|b0 rest IH]; intros H i b t Hn Hl; [destruct i; discriminate|].
  simpl in H. apply andb_true_iff in H. destruct H as [H1 H2]. destruct i as [|i]; simpl in Hn.
  - inversion Hn. subst b0. rewrite Hl in H1. apply eqb_prop in H1. destruct rest as [|b' r]; [discriminate|].
    symmetry in H1. apply Nat.eqb_eq in H1. subst. reflexivity.
  - change (nth_error rest (S i) = Some t). eapply IH; eauto.
Qed.

Lemma ft_ok_complete : forall after order, ft_ok after order = true ->
  forall i b t, nth_error order i = Some b -> nth_error order (S i) = Some t ->
                last_jump (term_of after b) = Some (t, false) -> False.
Proof.
  intros after order. induction order as [|b0 rest IH]; intros H i b t Hn Hs Hl; [destruct i; discriminate|].
  simpl in H. apply andb_true_iff in H. destruct H as [H1 H2]. destruct i as [|i]; simpl in Hn, Hs.
  - inversion Hn. subst b0. rewrite Hl in H1. destruct rest as [|b' r]; [discriminate|]. simpl in Hs. inversion Hs. subst.
    rewrite Nat.eqb_refl in H1. discriminate.
  - eapply IH; eauto.
Qed.

Definition laid_out (before after : list blk) (order : list nat) (b : nat) : Prop :=
  In b order /\ b < length before.

Lemma layout_sound : forall before valid after order,
  layout_check before valid after order = true ->
  let n0 := length before in
  let n1 := length after in
  (* the layout: every live block of the input exactly once, the entry first, plus trampolines *)
  NoDup order /\ hd_error order = Some entry /\
  (forall b, b < n0 -> (In b order <-> nth b valid false = true)) /\
  (forall b, In b order -> b < n1) /\
  (* trampolines hold one unconditional jump and nothing else *)
  (forall b, In b order -> n0 <= b ->
     exists t ft, term_of after b = TJump t ft /\ b_nins (nth b after dblk) = 1 /\ b_params (nth b after dblk) = 0) /\
  (* every other block keeps its body and its condition value, and for every value of the condition / index control
     reaches the same non-trampoline block with the same block arguments *)
  (forall b, In b order -> b < n0 ->
     b_body (nth b after dblk) = b_body (nth b before dblk) /\
     b_params (nth b after dblk) = b_params (nth b before dblk) /\
     b_nins (nth b after dblk) = b_nins (nth b before dblk) /\
     cond_of (term_of after b) = cond_of (term_of before b) /\
     forall o, step_after after n0 b o = step before b o /\ step before b o <> NStuck) /\
  (* control stays inside the layout *)
  (forall b o t, In b order -> b < n0 -> step before b o = NGo t -> fst t = n1 \/ (In (fst t) order /\ fst t < n0)) /\
  (forall b t, In b order -> In t (targets (term_of after b)) -> t = n1 \/ In t order) /\
  (* a jump is marked fallthrough only if (and whenever) its target is the next block of the layout *)
  (forall i b t, nth_error order i = Some b -> last_jump (term_of after b) = Some (t, true) -> nth_error order (S i) = Some t) /\
  (forall i b t, nth_error order i = Some b -> nth_error order (S i) = Some t -> last_jump (term_of after b) <> Some (t, false)).
Proof.
  intros before valid after order H n0 n1. unfold layout_check in H. fold n0 n1 in H. bool_hyps.
  apply nodupb_NoDup in H5. apply opt_eqb_eq in H4. rewrite forallb_forall in H3, H2, H1.
  assert (Hval : forall b, b < n0 -> (In b order <-> nth b valid false = true)).
  { intros b Hb. specialize (H2 b (proj2 (in_seq0 _ _) Hb)). apply eqb_prop in H2. rewrite <- H2. symmetry. apply mem_In. }
  assert (Hblk : forall b, In b order -> b < n0 ->
            term_equiv after n0 (term_of before b) (term_of after b) = true /\
            b_body (nth b before dblk) = b_body (nth b after dblk) /\
            b_params (nth b before dblk) = b_params (nth b after dblk) /\
            b_nins (nth b before dblk) = b_nins (nth b after dblk) /\
            forall t, In t (targets (term_of before b)) -> t = n1 \/ (In t order /\ t < n0)).
  { intros b Hb Hlt. specialize (H1 b Hb). cbv beta in H1. apply andb_true_iff in H1. destruct H1 as [_ H1].
    destruct (n0 <=? b) eqn:El; [apply Nat.leb_le in El; lia|]. cbv zeta in H1.
    apply andb_true_iff in H1. destruct H1 as [H1 Hcl]. apply andb_true_iff in H1. destruct H1 as [H1 Hni].
    apply andb_true_iff in H1. destruct H1 as [H1 Hpa]. apply andb_true_iff in H1. destruct H1 as [Hte Hbo].
    apply Nat.eqb_eq in Hni, Hpa, Hbo. rewrite forallb_forall in Hcl. unfold term_of. splits; auto.
    intros t Ht. pose proof (Hcl t Ht) as H1. apply orb_true_iff in H1. destruct H1 as [H1|H1]; [left; apply Nat.eqb_eq; exact H1|].
    right. apply andb_true_iff in H1. destruct H1 as [Ha Hb']. apply Nat.ltb_lt in Ha. split; [apply Hval; assumption | exact Ha]. }
  splits; auto.
  - intros b Hb. apply Nat.ltb_lt. apply H3. exact Hb.
  - intros b Hb Hge. specialize (H1 b Hb). cbv beta in H1. apply andb_true_iff in H1. destruct H1 as [_ H1].
    destruct (n0 <=? b) eqn:El; [|apply Nat.leb_gt in El; lia]. unfold tramp_ok in H1. unfold term_of.
    destruct (b_term (nth b after dblk)) as [|t ft| |]; try discriminate. apply andb_true_iff in H1. destruct H1 as [Ha Hb'].
    apply Nat.eqb_eq in Ha, Hb'. exists t, ft. splits; auto.
  - intros b Hb Hlt. destruct (Hblk b Hb Hlt) as [Hte [Hbody [Hpar [Hnins _]]]].
    destruct (term_equiv_next _ _ _ _ Hte) as [Hc Hn]. splits; auto.
    intros o. rewrite step_after_contract. unfold step. apply Hn.
  - intros b o t Hb Hlt Hst. destruct (Hblk b Hb Hlt) as [_ [_ [_ [_ Hcl]]]]. apply Hcl.
    eapply tnext_in_targets. exact Hst.
  - intros b t Hb Ht. specialize (H1 b Hb). cbv beta in H1. apply andb_true_iff in H1. destruct H1 as [H1 _].
    rewrite forallb_forall in H1. specialize (H1 t Ht). apply orb_true_iff in H1.
    destruct H1 as [H1|H1]; [left; apply Nat.eqb_eq; exact H1 | right; apply mem_In; exact H1].
  - apply ft_ok_sound. exact H0.
  - intros i b t Hn Hs Hl. exact (ft_ok_complete _ _ H0 _ _ _ Hn Hs Hl).
Qed.

(* consequence: the same sequence of non-trampoline blocks for every sequence of condition values *)
Lemma layout_traces : forall before valid after order,
  layout_check before valid after order = true ->
  forall os b, In b order -> b < length before ->
    trace (step_after after (length before)) b os = trace (step before) b os.
Proof.
  intros before valid after order H. pose proof (layout_sound _ _ _ _ H) as L. cbv zeta in L.
  destruct L as [_ [_ [_ [_ [_ [Hstep [Hclos _]]]]]]].
  assert (Hle : length before <= length after).
  { unfold layout_check in H. bool_hyps. apply Nat.leb_le. assumption. }
  assert (Hret : forall os, trace (step_after after (length before)) (length after) os = trace (step before) (length after) os).
  { intros os. destruct os as [|o t]; [reflexivity|]. simpl. unfold step_after, step, term_of.
    rewrite !nth_overflow by lia. reflexivity. }
  induction os as [|o t IH]; intros b Hb Hlt; [reflexivity|]. simpl.
  destruct (Hstep b Hb Hlt) as [_ [_ [_ [_ Ho]]]]. destruct (Ho o) as [Heq _]. rewrite Heq.
  destruct (step before b o) as [|x|] eqn:Es; try reflexivity. f_equal.
  destruct (Hclos b o x Hb Hlt Es) as [Hr | [Hi Hl]]; [rewrite Hr; apply Hret | apply IH; assumption].
Qed.

(* ------------------------------------------------------------------------------------------------------------ *)
(* the pre-layout passes keep the graph; the builder's bookkeeping agrees with the terminators *)

Lemma shape_targets : forall a b, shape_eqb a b = true -> targets a = targets b.
Proof.
  intros a b H. destruct a as [|t ft|nz c t e ft|c ts]; destruct b as [|t' ft'|nz' c' t' e' ft'|c' ts']; simpl in *; try discriminate.
  - reflexivity.
  - apply Nat.eqb_eq in H. congruence.
  - bool_hyps. apply Nat.eqb_eq in H0, H1. congruence.
  - apply list_eqb_eq. exact H.
Qed.

Lemma cfg_kept_sound : forall bs0 bs1, cfg_kept_check bs0 bs1 = true ->
  length bs0 = length bs1 /\
  (forall b, targets (term_of bs0 b) = targets (term_of bs1 b)) /\
  forall ret, cfg_of ret bs0 = cfg_of ret bs1.
Proof.
  unfold cfg_kept_check. induction bs0 as [|x t IH]; destruct bs1 as [|y t1]; simpl; intros H; try discriminate.
  - splits; auto.
  - apply andb_true_iff in H. destruct H as [H1 H2]. destruct (IH _ H2) as [Hl [Ht Hg]]. splits.
    + lia.
    + intros b. unfold term_of in *. destruct b as [|b]; simpl; [apply shape_targets; exact H1 | apply Ht].
    + intros ret. unfold cfg_of in *. simpl. rewrite (shape_targets _ _ H1). f_equal. apply Hg.
Qed.

Lemma bookkeeping_sound : forall bs valid succl predl, bookkeeping_check bs valid succl predl = true ->
  forall b, b < length bs -> nth b valid false = true ->
    (forall v, count v (nth b succl []) = count v (targets (term_of bs b))) /\
    (forall u, In u (nth b predl []) -> u < length bs) /\
    (forall u, u < length bs -> nth u valid false = true ->
               count u (nth b predl []) = count b (targets (term_of bs u))).
Proof.
  intros bs valid succl predl H b Hb Hv. unfold bookkeeping_check in H. rewrite forallb_forall in H.
  specialize (H b (proj2 (in_seq0 _ _) Hb)). rewrite Hv in H. simpl in H. bool_hyps. splits.
  - apply same_multiset_count. exact H.
  - intros u Hu. rewrite forallb_forall in H1. apply Nat.ltb_lt. apply H1. exact Hu.
  - intros u Hu Hvu. rewrite forallb_forall in H0. specialize (H0 u (proj2 (in_seq0 _ _) Hu)). rewrite Hvu in H0.
    simpl in H0. apply Nat.eqb_eq. exact H0.
Qed.

(* ------------------------------------------------------------------------------------------------------------ *)
(* the evaluation of one dumped function runs exactly the checkers above *)

Lemma fcase_check_sound : forall c, fcase_check c = true ->
  let g1 := cfg_of (fc_ret c) (fc_b1 c) in
  let g3 := cfg_of (fc_ret c) (fc_b3 c) in
  cfg_kept_check (fc_b0 c) (fc_b1 c) = true /\
  bookkeeping_check (fc_b1 c) (fc_valid c) (fc_succ1 c) (fc_pred1 c) = true /\
  bookkeeping_check (fc_b3 c) (fc_valid3 c) (fc_succ3 c) (fc_pred3 c) = true /\
  dead_block_check g1 (map negb (fc_valid c)) = true /\
  rpo_check g1 (fc_order1 c) (fc_rpo1 c) = true /\
  dom_check g1 (fc_idom1 c) = true /\
  loop_check g1 (fc_hdr1 c) = true /\
  layout_check (fc_b1 c) (fc_valid c) (fc_b3 c) (fc_order3 c) = true /\
  dom_check g3 (fc_idom3 c) = true /\
  loop_check g3 (fc_hdr3 c) = true /\
  forest_check g3 (fc_hdr3 c) (fc_kids3 c) (fc_roots3 c) = true /\
  lca_check g3 (fc_lca3 c) = true.
Proof.
  intros c H. unfold fcase_check, fcase_results in H. cbv zeta in H. simpl forallb in H.
  repeat match type of H with _ && _ = true => let H' := fresh "K" in apply andb_true_iff in H; destruct H as [H' H] end.
  cbv zeta. unfold dead_block_check, rpo_check, dom_check, loop_check, forest_check, lca_check. cbv zeta.
  apply andb_true_iff in K1. destruct K1 as [Ka Kb]. splits; assumption.
Qed.

(* ------------------------------------------------------------------------------------------------------------ *)
(* non-vacuity: a 7-block function with a loop nested in a loop and three critical edges (3->2, 4->1, 1->6);
   the checkers accept what correct passes produce for it and reject each of the classic mistakes *)

Definition ex_g : graph := [[1]; [6; 2]; [3]; [2; 4]; [5; 1]; [6]; []].
Definition ex_idom : list (option nat) := [Some 0; Some 0; Some 1; Some 2; Some 3; Some 4; Some 1].
Definition ex_hdr : list bool := [false; true; true; false; false; false; false].
Definition ex_order : list nat := [0; 1; 2; 3; 4; 5; 6].
Definition ex_rpo : list (option nat) := [Some 0; Some 1; Some 2; Some 3; Some 4; Some 5; Some 6].
Definition ex_kids : list (list nat) := [[]; [2; 6]; [3; 4; 5]; []; []; []; []].

Example ex_dom_accepts : dom_check ex_g ex_idom = true.
Proof. vm_compute. reflexivity. Qed.
(* 5 is on one path to 6 only *)
Example ex_dom_rejects_wrong_idom : dom_check ex_g [Some 0; Some 0; Some 1; Some 2; Some 3; Some 4; Some 5] = false.
Proof. vm_compute. reflexivity. Qed.
(* 2 dominates 4 but is not its IMMEDIATE dominator *)
Example ex_dom_rejects_non_immediate : dom_check ex_g [Some 0; Some 0; Some 1; Some 2; Some 2; Some 4; Some 1] = false.
Proof. vm_compute. reflexivity. Qed.
Example ex_dom_rejects_missing : dom_check ex_g [Some 0; Some 0; Some 1; Some 2; Some 3; None; Some 1] = false.
Proof. vm_compute. reflexivity. Qed.
Example ex_loop_accepts : loop_check ex_g ex_hdr = true.
Proof. vm_compute. reflexivity. Qed.
Example ex_loop_rejects_missed_header : loop_check ex_g [false; true; false; false; false; false; false] = false.
Proof. vm_compute. reflexivity. Qed.
Example ex_loop_rejects_spurious_header : loop_check ex_g [false; true; true; false; true; false; false] = false.
Proof. vm_compute. reflexivity. Qed.
Example ex_forest_accepts : forest_check ex_g ex_hdr ex_kids [1] = true.
Proof. vm_compute. reflexivity. Qed.
(* 4 sits in the inner loop's subtree, not directly under the outer header *)
Example ex_forest_rejects_outer_parent : forest_check ex_g ex_hdr [[]; [2; 6; 4]; [3; 5]; []; []; []; []] [1] = false.
Proof. vm_compute. reflexivity. Qed.
Example ex_forest_rejects_inner_root : forest_check ex_g ex_hdr ex_kids [1; 2] = false.
Proof. vm_compute. reflexivity. Qed.
Example ex_rpo_accepts : rpo_check ex_g ex_order ex_rpo = true.
Proof. vm_compute. reflexivity. Qed.
(* 6 before 5: the edge 5->6 would go backwards although 6 does not dominate 5 *)
Example ex_rpo_rejects_non_topological :
  rpo_check ex_g [0; 1; 6; 2; 3; 4; 5] [Some 0; Some 1; Some 3; Some 4; Some 5; Some 6; Some 2] = false.
Proof. vm_compute. reflexivity. Qed.
Example ex_lca_accepts : lca_check ex_g [(5, 6, 1); (3, 5, 3); (4, 4, 4); (0, 6, 0)] = true.
Proof. vm_compute. reflexivity. Qed.
Example ex_lca_rejects_too_high : lca_check ex_g [(3, 5, 2)] = false.
Proof. vm_compute. reflexivity. Qed.
(* an eighth block that nothing reaches (it branches into the loop) *)
Example ex_dead_accepts : dead_block_check (ex_g ++ [[2]]) [false; false; false; false; false; false; false; true] = true.
Proof. vm_compute. reflexivity. Qed.
Example ex_dead_rejects_kept : dead_block_check (ex_g ++ [[2]]) [false; false; false; false; false; false; false; false] = false.
Proof. vm_compute. reflexivity. Qed.
Example ex_dead_rejects_removed_live : dead_block_check (ex_g ++ [[2]]) [false; false; false; false; false; true; false; true] = false.
Proof. vm_compute. reflexivity. Qed.

Definition mk (t : term) (body nins : nat) : blk := {| b_term := t; b_body := body; b_params := 0; b_nins := nins |}.
(* the return block is 10 = the number of blocks after layout *)
Definition ex_before : list blk :=
  [ mk (TJump (1, []) false) 0 2;
    mk (TCond true 0 (6, []) (2, []) false) 1 3;       (* brnz v0, blk6 ; jump blk2 *)
    mk (TJump (3, []) false) 2 2;
    mk (TCond true 1 (2, [5]) (4, []) false) 3 4;      (* brnz v1, blk2(v5) ; jump blk4 *)
    mk (TCond false 2 (5, []) (1, []) false) 4 3;      (* brz v2, blk5 ; jump blk1 *)
    mk (TJump (6, []) false) 5 2;
    mk TExit 6 1 ].
Definition ex_after_with (b3 b5 t7 : term) : list blk :=
  [ mk (TJump (1, []) true) 0 2;
    mk (TCond true 0 (9, []) (2, []) true) 1 3;        (* critical edge 1->6 through trampoline 9 *)
    mk (TJump (3, []) true) 2 2;
    mk b3 3 4;
    mk (TCond false 2 (5, []) (8, []) true) 4 3;       (* critical edge 4->1 through trampoline 8 *)
    mk b5 5 2;
    mk TExit 6 1;
    mk t7 0 1;
    mk (TJump (1, []) false) 0 1;
    mk (TJump (6, []) true) 0 1 ].
Definition ex_layout : list nat := [0; 1; 2; 3; 7; 4; 8; 5; 9; 6].
Definition ex_valid : list bool := [true; true; true; true; true; true; true].
(* block 3 inverted: brz v1, blk4 ; jump trampoline 7 (fallthrough), the arguments moved into the trampoline *)
Definition ex_after : list blk :=
  ex_after_with (TCond false 1 (4, []) (7, []) true) (TJump (6, []) false) (TJump (2, [5]) false).

Example ex_layout_accepts : layout_check ex_before ex_valid ex_after ex_layout = true.
Proof. vm_compute. reflexivity. Qed.
Example ex_layout_traces :
  trace (step_after ex_after 7) 0 [0; 0; 0; 1; 0; 0; 1; 1; 0; 7] = [0; 1; 2; 3; 2; 3; 4; 1; 6] /\
  trace (step ex_before) 0 [0; 0; 0; 1; 0; 0; 1; 1; 0; 7] = [0; 1; 2; 3; 2; 3; 4; 1; 6].
Proof. vm_compute. split; reflexivity. Qed.
(* targets swapped, opcode not inverted *)
Example ex_layout_rejects_swap_without_invert :
  layout_check ex_before ex_valid (ex_after_with (TCond true 1 (4, []) (7, []) true) (TJump (6, []) false) (TJump (2, [5]) false)) ex_layout = false.
Proof. vm_compute. reflexivity. Qed.
(* opcode inverted, targets not swapped *)
Example ex_layout_rejects_invert_without_swap :
  layout_check ex_before ex_valid (ex_after_with (TCond false 1 (7, []) (4, []) false) (TJump (6, []) false) (TJump (2, [5]) false)) ex_layout = false.
Proof. vm_compute. reflexivity. Qed.
(* block 5 is followed by trampoline 9, not by block 6 *)
Example ex_layout_rejects_fallthrough_non_adjacent :
  layout_check ex_before ex_valid (ex_after_with (TCond false 1 (4, []) (7, []) true) (TJump (6, []) true) (TJump (2, [5]) false)) ex_layout = false.
Proof. vm_compute. reflexivity. Qed.
(* trampoline 7 wired to the other successor of block 3 *)
Example ex_layout_rejects_trampoline_wrong_successor :
  layout_check ex_before ex_valid (ex_after_with (TCond false 1 (4, []) (7, []) true) (TJump (6, []) false) (TJump (4, []) false)) ex_layout = false.
Proof. vm_compute. reflexivity. Qed.
(* the block arguments of the split edge lost *)
Example ex_layout_rejects_lost_arguments :
  layout_check ex_before ex_valid (ex_after_with (TCond false 1 (4, []) (7, []) true) (TJump (6, []) false) (TJump (2, []) false)) ex_layout = false.
Proof. vm_compute. reflexivity. Qed.
(* a block laid out twice / a live block missing *)
Example ex_layout_rejects_duplicate : layout_check ex_before ex_valid ex_after [0; 1; 2; 3; 7; 4; 8; 5; 9; 6; 5] = false.
Proof. vm_compute. reflexivity. Qed.
Example ex_layout_rejects_missing : layout_check ex_before ex_valid ex_after [0; 1; 2; 3; 7; 4; 8; 9; 6] = false.
Proof. vm_compute. reflexivity. Qed.
Example ex_cfg_of : cfg_of 10 ex_before = ex_g.
Proof. vm_compute. reflexivity. Qed.
