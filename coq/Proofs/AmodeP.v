(* Proofs about Engine/Amode.v (C02). *)
From Coq Require Import ZArith Lia Bool List.
From Verif Require Import Engine.Amode.
Import ListNotations.
Open Scope Z_scope.


(* the unfixed code is wrong on the witness of F01 *)
Example amode_uextend_const_refuted :
  let rg := fun _ => 1099511627776 (* memBase = 2^40 *) in
  let e := ADD (V64 0) (UX (C32 2147483648) true) true in
  eval_amode (lower_to_amode false rg e 0) = 1099511627776 - 2147483648 /\
  ev rg e = 1099511627776 + 2147483648.
Proof. vm_compute. split; reflexivity. Qed.
Example amode_uextend_const_fixed :
  let rg := fun _ => 1099511627776 in
  let e := ADD (V64 0) (UX (C32 2147483648) true) true in
  eval_amode (lower_to_amode true rg e 0) = ev rg e.
Proof. vm_compute. reflexivity. Qed.

(* ---- the general theorem for the repaired lowering ---- *)
Ltac Zify.zify_post_hook ::= Z.div_mod_to_equations.

Lemma w64_idem a : w64 (w64 a) = w64 a.
Proof. unfold w64. rewrite Z.mod_mod; [reflexivity | unfold W64; lia]. Qed.
Lemma w64_add_l a b : w64 (w64 a + b) = w64 (a + b).
Proof. unfold w64. rewrite Z.add_mod_idemp_l; [reflexivity | unfold W64; lia]. Qed.
Lemma w64_add_r a b : w64 (a + w64 b) = w64 (a + b).
Proof. unfold w64. rewrite Z.add_mod_idemp_r; [reflexivity | unfold W64; lia]. Qed.
Lemma w64_congr a b : (exists k, a = b + k * W64) -> w64 a = w64 b.
Proof. intros [k ->]. unfold w64. rewrite Z.mod_add; [reflexivity | unfold W64; lia]. Qed.

(* meaning of an addend, and the fact that lowering an addend preserves meaning *)
Definition addend_val (a : addend) : Z :=
  match a with AReg v s => w64 (v * 2 ^ s) | AOff o => w64 o end.

Lemma pow2_cases k : 0 <= k <= 3 -> k = 0 \/ k = 1 \/ k = 2 \/ k = 3.
Proof. lia. Qed.

Lemma ev_reduced rg e : w64 (ev rg e) = ev rg e.
Proof.
  destruct e as [r | c m | x m | x m | sg n x m | n x m | x k m | x y m | a b m]; cbn [ev]; try apply w64_idem.
  destruct x; cbn [ev32]; unfold w64, zext32, W64, W32.
  - pose proof (Z.mod_pos_bound (rg r) 4294967296). rewrite Z.mod_small; lia.
  - pose proof (Z.mod_pos_bound c 4294967296). rewrite Z.mod_small; lia.
Qed.

Lemma w64_s64 u : w64 (s64 (w64 u)) = w64 u.
Proof.
  unfold s64. destruct (w64 u <? 9223372036854775808); [apply w64_idem|].
  rewrite <- (w64_idem u) at 2. apply w64_congr. exists (-1). lia.
Qed.

Lemma sext32_zext32 c : sext32 (zext32 c) = sext32 c.
Proof. unfold sext32, zext32. rewrite Z.mod_mod by (unfold W32; lia). reflexivity. Qed.

Lemma lower_addend_ok rg e :
  addend_ok e = true -> addend_zext rg e ->
  addend_val (lower_addend true rg e) = ev rg e.
Proof.
  intros Hs Hz. unfold lower_addend.
  destruct (matchable_addend e) eqn:Hm;
    [| cbn [addend_val]; rewrite Z.pow_0_r, Z.mul_1_r; apply ev_reduced].
  destruct e as [r | c m | x m | x m | sg n x m | n x m | x k m | x y m | a b m];
    cbn [matchable_addend] in Hm; try discriminate; subst m.
  - cbn [lower_addend_from_instr addend_val ev]. apply w64_s64.
  - destruct x as [r | c]; cbn [lower_addend_from_instr addend_val ev ev32].
    + cbn in Hz. rewrite Z.pow_0_r, Z.mul_1_r, w64_idem. unfold w64, zext32, W64, W32 in *.
      rewrite !Z.mod_small; lia.
    + unfold w64, zext32, W64, W32. rewrite (Z.mod_small (c mod _)); [reflexivity|].
      pose proof (Z.mod_pos_bound c 4294967296). lia.
  - destruct x as [r | c]; [cbn in Hs; discriminate|].
    cbn [lower_addend_from_instr addend_val ev ev32]. rewrite sext32_zext32. reflexivity.
  - cbn in Hs. discriminate.
  - cbn in Hs. discriminate.
  - cbn in Hs. apply andb_prop in Hs as [H0 H3]. apply Z.leb_le in H0, H3.
    cbn [lower_addend_from_instr addend_val ev].
    replace (k <=? 3) with true by (symmetry; apply Z.leb_le; lia).
    cbn [addend_val]. rewrite (Z.mod_small k 64) by lia. reflexivity.
  - cbn in Hs. discriminate.
Qed.

Definition wf_addend (a : addend) : Prop :=
  match a with
  | AReg v s => 0 <= v < W64 /\ 0 <= s <= 3
  | AOff o => - 9223372036854775808 <= o < 9223372036854775808
  end.

Lemma sext32_small u : 0 <= u < 2147483648 -> sext32 u = u.
Proof. intros H. unfold sext32, W32. rewrite Z.mod_small by lia. destruct (u <? 2147483648) eqn:E; lia. Qed.

Ltac split_shift s H :=
  let H' := fresh in
  assert (H' : s = 0 \/ s = 1 \/ s = 2 \/ s = 3) by lia;
  destruct H' as [-> | [-> | [-> | ->]]].

Ltac crush :=
  unfold eval_amode; cbn [disp base index shift addend_val];
  rewrite ?sext32_small by lia;
  change (2 ^ 0) with 1; change (2 ^ 1) with 2; change (2 ^ 2) with 4; change (2 ^ 3) with 8;
  unfold w64, W64, W32 in *; try lia.

Lemma lower_addends_ok x y off :
  wf_addend x -> wf_addend y -> 0 <= off < 2147483648 ->
  (match x, y with AReg _ _, AReg _ _ => off = off | _, _ => True end) ->
  eval_amode (lower_addends_to_amode x y off false) = w64 (addend_val x + addend_val y + off).
Proof.
  intros Hx Hy Hoff _. unfold lower_addends_to_amode.
  destruct x as [vx sx | ox], y as [vy sy | oy]; cbn [wf_addend] in Hx, Hy.
  - (* reg, reg: offsets 0 *)
    destruct Hx as [Hvx Hsx], Hy as [Hvy Hsy].
    replace (w64 (w64 (0 + 0) + off)) with off by (unfold w64, W64; cbn; rewrite Z.mod_small; lia).
    destruct (off =? 0) eqn:E0.
    + apply Z.eqb_eq in E0; subst off.
      rewrite (Z.mod_small 0 W32) by (unfold W32; lia).
      split_shift sx Hsx; split_shift sy Hsy; cbn [Z.eqb negb andb]; crush.
    + unfold as_imm32_nosign. replace (off <? 2147483648) with true by (symmetry; apply Z.ltb_lt; lia).
      rewrite (Z.mod_small off W32) by (unfold W32; lia).
      split_shift sx Hsx; split_shift sy Hsy;
        cbn [Z.eqb negb andb]; crush.
  - (* reg, off *)
    destruct Hx as [Hvx Hsx].
    replace (0 + oy) with oy by lia.
    set (u64 := w64 (w64 oy + off)).
    assert (Hu : 0 <= u64 < W64) by (unfold u64, w64, W64; apply Z.mod_pos_bound; lia).
    assert (Hval : w64 (addend_val (AReg vx sx) + addend_val (AOff oy) + off) = w64 (vx * 2 ^ sx + u64)).
    { cbn [addend_val]. unfold u64. rewrite w64_add_r. rewrite <- Z.add_assoc. rewrite w64_add_l. reflexivity. }
    rewrite Hval. clear Hval.
    destruct (u64 =? 0) eqn:E0.
    + apply Z.eqb_eq in E0. rewrite E0. rewrite (Z.mod_small 0 W32) by (unfold W32; lia).
      split_shift sx Hsx; cbn [Z.eqb negb andb]; crush.
    + unfold as_imm32_nosign. destruct (u64 <? 2147483648) eqn:E1.
      * apply Z.ltb_lt in E1. rewrite (Z.mod_small u64 W32) by (unfold W32; lia).
        split_shift sx Hsx; cbn [Z.eqb negb andb]; crush.
      * rewrite (Z.mod_small 0 W32) by (unfold W32; lia).
        split_shift sx Hsx; cbn [Z.eqb negb andb]; crush.
  - (* off, reg *)
    destruct Hy as [Hvy Hsy].
    replace (ox + 0) with ox by lia.
    set (u64 := w64 (w64 ox + off)).
    assert (Hu : 0 <= u64 < W64) by (unfold u64, w64, W64; apply Z.mod_pos_bound; lia).
    assert (Hval : w64 (addend_val (AOff ox) + addend_val (AReg vy sy) + off) = w64 (vy * 2 ^ sy + u64)).
    { cbn [addend_val]. unfold u64. rewrite w64_add_r.
      replace (w64 ox + w64 (vy * 2 ^ sy) + off) with (w64 (vy * 2 ^ sy) + (w64 ox + off)) by lia.
      rewrite w64_add_l. reflexivity. }
    rewrite Hval. clear Hval.
    destruct (u64 =? 0) eqn:E0.
    + apply Z.eqb_eq in E0. rewrite E0. rewrite (Z.mod_small 0 W32) by (unfold W32; lia).
      split_shift sy Hsy; cbn [Z.eqb negb andb]; crush.
    + unfold as_imm32_nosign. destruct (u64 <? 2147483648) eqn:E1.
      * apply Z.ltb_lt in E1. rewrite (Z.mod_small u64 W32) by (unfold W32; lia).
        split_shift sy Hsy; cbn [Z.eqb negb andb]; crush.
      * rewrite (Z.mod_small 0 W32) by (unfold W32; lia).
        split_shift sy Hsy; cbn [Z.eqb negb andb]; crush.
  - (* off, off *)
    set (u64 := w64 (w64 (ox + oy) + off)).
    assert (Hu : 0 <= u64 < W64) by (unfold u64, w64, W64; apply Z.mod_pos_bound; lia).
    assert (Hval : w64 (addend_val (AOff ox) + addend_val (AOff oy) + off) = u64).
    { cbn [addend_val]. unfold u64. rewrite (w64_add_l (ox + oy) off).
      replace (w64 ox + w64 oy + off) with (w64 ox + (w64 oy + off)) by lia.
      rewrite w64_add_l.
      replace (ox + (w64 oy + off)) with (w64 oy + (ox + off)) by lia.
      rewrite w64_add_l. f_equal; lia. }
    rewrite Hval. clear Hval.
    destruct (u64 =? 0) eqn:E0.
    + apply Z.eqb_eq in E0. rewrite E0. crush.
    + unfold as_imm32_nosign. destruct (u64 <? 2147483648) eqn:E1.
      * apply Z.ltb_lt in E1. crush.
      * cbn [Z.eqb negb andb]. rewrite (Z.mod_small 0 W32) by (unfold W32; lia). crush.
Qed.

Lemma ev_range rg e : 0 <= ev rg e < W64.
Proof. rewrite <- ev_reduced. unfold w64, W64. apply Z.mod_pos_bound. lia. Qed.

Lemma lower_addend_wf rg e :
  addend_ok e = true -> wf_addend (lower_addend true rg e).
Proof.
  intros Hs. unfold lower_addend.
  destruct (matchable_addend e) eqn:Hm; [| cbn; split; [apply ev_range | lia]].
  destruct e as [r | c m | x m | x m | sg n x m | n x m | x k m | x y m | a b m];
    cbn [matchable_addend] in Hm; try discriminate; subst m; try (cbn in Hs; discriminate).
  - cbn. unfold s64. pose proof (Z.mod_pos_bound c W64 ltac:(unfold W64; lia)). unfold w64.
    destruct (c mod W64 <? 9223372036854775808) eqn:E; unfold W64 in *; lia.
  - destruct x as [r | c]; cbn.
    + split; [| lia]. unfold w64, W64. apply Z.mod_pos_bound. lia.
    + unfold zext32, W32. pose proof (Z.mod_pos_bound c 4294967296). lia.
  - destruct x as [r | c]; [cbn in Hs; discriminate|]. cbn.
    unfold sext32, W32. pose proof (Z.mod_pos_bound c 4294967296).
    destruct (c mod 4294967296 <? 2147483648) eqn:E; lia.
  - cbn in Hs. apply andb_prop in Hs as [H0 H3]. apply Z.leb_le in H0, H3.
    cbn. replace (k <=? 3) with true by (symmetry; apply Z.leb_le; lia). cbn.
    split; [apply ev_range | lia].
Qed.

(* the repaired lowering computes value + offset for EVERY static offset, including those with the top bit set
   (which go through a materialised constant), on the whole class `lowerable` *)
Theorem amode_correct rg e off :
  lowerable off e = true -> zext_ok rg off e -> 0 <= off < W32 ->
  eval_amode (lower_to_amode true rg e off) = w64 (ev rg e + off).
Proof.
  intros Hs Hz Hoff. unfold lower_to_amode, lowerable, zext_ok in *.
  destruct (2147483648 <=? off) eqn:Hbig.
  - (* the offset is materialised: base register = off (+ the constant addend), index = the register addend *)
    apply Z.leb_le in Hbig.
    rewrite <- (lower_addend_ok rg e Hs Hz).
    pose proof (lower_addend_wf rg e Hs) as Hwf.
    destruct (lower_addend true rg e) as [v s | o]; cbn [wf_addend] in Hwf.
    + destruct Hwf as [Hv Hsft]. split_shift s Hsft; crush.
    + crush.
  - apply Z.leb_gt in Hbig.
    assert (Hgen : addend_ok e = true -> addend_zext rg e -> eval_amode
              match lower_addend true rg e with
              | AReg v s => if negb (s =? 0) then {| disp := off; base := 0; index := v; shift := s |}
                            else {| disp := off; base := v; index := 0; shift := 0 |}
              | AOff o => {| disp := 0; base := w64 (o + off); index := 0; shift := 0 |}
              end = w64 (ev rg e + off)).
    { intros Hs' Hz'. rewrite <- (lower_addend_ok rg e Hs' Hz').
      pose proof (lower_addend_wf rg e Hs') as Hwf.
      destruct (lower_addend true rg e) as [v s | o]; cbn [wf_addend] in Hwf.
      - destruct Hwf as [Hv Hsft]. split_shift s Hsft; cbn [Z.eqb negb]; crush.
      - crush. }
    destruct e as [r | c m | x m | x m | sg n x m | n x m | x k m | x y m | a b m]; try (apply Hgen; assumption).
    destruct m; [| apply Hgen; assumption].
    apply andb_prop in Hs as [Hs Hal]. apply negb_true_iff in Hal. rewrite Hal.
    apply andb_prop in Hs as [Hsa Hsb]. destruct Hz as [Hza Hzb].
    rewrite lower_addends_ok; try (apply lower_addend_wf; assumption); try lia.
    + rewrite !lower_addend_ok by assumption. cbn [ev]. rewrite w64_add_l. reflexivity.
    + destruct (lower_addend true rg a), (lower_addend true rg b); auto.
Qed.
Print Assumptions amode_correct.

(* on that class the real function does not panic *)
Lemma lowerable_no_panic e off : lowerable off e = true -> lower_panics e off = false.
Proof.
  assert (H : forall x, addend_ok x = true -> addend_panics x = false).
  { intros x. destruct x as [r | c m | x m | x m | sg n x m | n x m | x k m | x y m | a b m]; cbn; try reflexivity.
    destruct m; [discriminate | reflexivity]. }
  unfold lowerable, lower_panics. destruct (2147483648 <=? off); [apply H|].
  destruct e as [r | c m | x m | x m | sg n x m | n x m | x k m | x y m | a b m]; try apply H.
  destruct m; [| apply H]. intros Hab. apply andb_prop in Hab as [Hab _]. apply andb_prop in Hab as [Ha Hb].
  rewrite (H a Ha), (H b Hb). reflexivity.
Qed.

(* the frontend's image lies inside the class *)
Lemma frontend_addend_ok e : frontend_shape e = true -> addend_ok e = true.
Proof.
  destruct e as [r | c m | x m | x m | sg n x m | n x m | x k m | x y m | a b m]; cbn; try reflexivity; try discriminate.
  intros H. apply andb_prop in H as [H _]. destruct m; [exact H | reflexivity].
Qed.
Lemma frontend_lowerable e off : frontend_shape e = true -> lowerable off e = true.
Proof.
  intros H. unfold lowerable. destruct (2147483648 <=? off); [apply frontend_addend_ok; exact H|].
  destruct e as [r | c m | x m | x m | sg n x m | n x m | x k m | x y m | a b m]; try (apply frontend_addend_ok; exact H).
  destruct m; [| reflexivity]. cbn [frontend_shape] in H. apply andb_prop in H as [H Hal]. apply andb_prop in H as [Ha Hb].
  rewrite (frontend_addend_ok a Ha), (frontend_addend_ok b Hb), Hal. reflexivity.
Qed.
Lemma zext_all_addend rg e : zext_all rg e -> addend_zext rg e.
Proof.
  destruct e as [r | c m | x m | x m | sg n x m | n x m | x k m | x y m | a b m]; cbn; auto.
  destruct x; auto. destruct m; auto.
Qed.
Lemma zext_all_ok rg e off : zext_all rg e -> zext_ok rg off e.
Proof.
  intros H. unfold zext_ok. destruct (2147483648 <=? off); [apply zext_all_addend; exact H|].
  destruct e as [r | c m | x m | x m | sg n x m | n x m | x k m | x y m | a b m]; try (apply zext_all_addend; exact H).
  destruct m; [| exact I]. cbn in H. destruct H as [Ha Hb]. split; apply zext_all_addend; assumption.
Qed.

Theorem amode_correct_frontend rg e off :
  frontend_shape e = true -> zext_all rg e -> 0 <= off < W32 ->
  eval_amode (lower_to_amode true rg e off) = w64 (ev rg e + off) /\ lower_panics e off = false.
Proof.
  intros Hs Hz Hoff. split.
  - apply amode_correct; [apply frontend_lowerable | apply zext_all_ok |]; assumption.
  - apply lowerable_no_panic, frontend_lowerable; assumption.
Qed.

(* non-vacuity: the shapes memOpSetup produces, constants and offsets with the top bit set *)
Example amode_frontend_instances :
  let rg := fun n => match n with O => 1099511627776 | _ => 4294967288 end in
  let e1 := ADD (V64 0) (UX (R32 1) true) true in
  let e2 := ADD (V64 0) (UX (C32 2147483648) true) true in
  frontend_shape e1 = true /\ frontend_shape e2 = true /\ zext_all rg e1 /\ zext_all rg e2 /\
  eval_amode (lower_to_amode true rg e1 4294967295) = 1099511627776 + 4294967288 + 4294967295 /\
  eval_amode (lower_to_amode true rg e2 2147483648) = 1099511627776 + 4294967296 /\
  eval_amode (lower_to_amode true rg e2 2147483647) = 1099511627776 + 4294967295.
Proof. cbn [frontend_shape zext_all andb]. unfold W32. repeat split; try lia; vm_compute; reflexivity. Qed.

(* outside the class the code is wrong (latent: the frontend does not produce these): a matched sign extension of
   a register is used without extending, a shift by more than 3 is dropped *)
Example amode_outside_class_refuted :
  let rg := fun _ => 4294967295 in
  eval_amode (lower_to_amode true rg (SX (R32 0) true) 0) <> ev rg (SX (R32 0) true) /\
  eval_amode (lower_to_amode true rg (SHL (V64 0) 4 true) 0) <> ev rg (SHL (V64 0) 4 true).
Proof. vm_compute. split; discriminate. Qed.

(* two shifted addends: the code shifts the first one's register in place; when both are shifts of one register the
   index is read after the shift (latent: the frontend never adds two shifts). Found by the direct stream. *)
Example amode_double_shift_same_register_refuted :
  let rg := fun _ => 1 in
  let e := ADD (SHL (V64 0) 3 true) (SHL (V64 0) 2 true) true in
  eval_amode (lower_to_amode true rg e 0) = 40 /\ ev rg e = 12 /\ lowerable 0 e = false.
Proof. vm_compute. repeat split; reflexivity. Qed.
