(* Proofs about Engine/Amode.v (C02). *)
From Coq Require Import ZArith Lia Bool List.
From Verif Require Import Engine.Amode.
Import ListNotations.
Open Scope Z_scope.


(* the unfixed code is wrong on the witness of F01 *)
Example amode_uextend_const_refuted :
  let rg := fun _ => 1099511627776 (* memBase = 2^40 *) in
  let e := ADD (V64 0) (UX (C32 2147483648) true) true in
  eval_amode (lower_to_amode false rg e 0) = 1099511627776 - 2147483648 /\
  ev rg e = 1099511627776 + 2147483648.
Proof. vm_compute. split; reflexivity. Qed.
Example amode_uextend_const_fixed :
  let rg := fun _ => 1099511627776 in
  let e := ADD (V64 0) (UX (C32 2147483648) true) true in
  eval_amode (lower_to_amode true rg e 0) = ev rg e.
Proof. vm_compute. reflexivity. Qed.

(* ---- the general theorem for the repaired lowering ---- *)
Ltac Zify.zify_post_hook ::= Z.div_mod_to_equations.

Fixpoint wf_e (e : e64) : Prop :=
  match e with
  | K64 c _ => 0 <= c < W64
  | ADD a b _ => wf_e a /\ wf_e b
  | _ => True
  end.

Lemma w64_idem a : w64 (w64 a) = w64 a.
Proof. unfold w64. rewrite Z.mod_mod; [reflexivity | unfold W64; lia]. Qed.
Lemma w64_add_l a b : w64 (w64 a + b) = w64 (a + b).
Proof. unfold w64. rewrite Z.add_mod_idemp_l; [reflexivity | unfold W64; lia]. Qed.
Lemma w64_add_r a b : w64 (a + w64 b) = w64 (a + b).
Proof. unfold w64. rewrite Z.add_mod_idemp_r; [reflexivity | unfold W64; lia]. Qed.
Lemma w64_congr a b : (exists k, a = b + k * W64) -> w64 a = w64 b.
Proof. intros [k ->]. unfold w64. rewrite Z.mod_add; [reflexivity | unfold W64; lia]. Qed.

(* meaning of an addend, and the fact that lowering an addend preserves meaning *)
Definition addend_val (a : addend) : Z :=
  match a with AReg v s => w64 (v * 2 ^ s) | AOff o => w64 o end.

Lemma pow2_cases k : 0 <= k <= 3 -> k = 0 \/ k = 1 \/ k = 2 \/ k = 3.
Proof. lia. Qed.

Lemma ev_reduced rg e : w64 (ev rg e) = ev rg e.
Proof.
  destruct e as [r | c m | x m | x m | x k m | a b m]; cbn [ev]; try apply w64_idem.
  destruct x; cbn [ev32]; unfold w64, zext32, W64, W32.
  - pose proof (Z.mod_pos_bound (rg r) 4294967296). rewrite Z.mod_small; lia.
  - pose proof (Z.mod_pos_bound c 4294967296). rewrite Z.mod_small; lia.
Qed.

Lemma lower_addend_ok rg e :
  frontend_shape e = true -> zext_ok rg e -> wf_e e ->
  addend_val (lower_addend true rg e) = ev rg e.
Proof.
  intros Hs Hz Hw. unfold lower_addend.
  destruct (matchable_addend e) eqn:Hm;
    [| cbn [addend_val]; rewrite Z.pow_0_r, Z.mul_1_r; apply ev_reduced].
  destruct e as [r | c m | x m | x m | x k m | a b m]; cbn [matchable_addend] in Hm; try discriminate; subst m.
  - cbn [lower_addend_from_instr addend_val ev]. cbn in Hw.
    destruct (c <? 9223372036854775808) eqn:E; [reflexivity|].
    apply w64_congr. exists (-1). lia.
  - destruct x as [r | c]; cbn [lower_addend_from_instr addend_val ev ev32].
    + cbn in Hz. rewrite Z.pow_0_r, Z.mul_1_r, w64_idem. unfold w64, zext32, W64, W32 in *.
      rewrite !Z.mod_small; lia.
    + unfold w64, zext32, W64, W32. rewrite (Z.mod_small (c mod _)); [reflexivity|].
      pose proof (Z.mod_pos_bound c 4294967296). lia.
  - cbn in Hs. apply andb_prop in Hs as [H0 H3]. apply Z.leb_le in H0, H3.
    cbn [lower_addend_from_instr addend_val ev].
    replace (k <=? 3) with true by (symmetry; apply Z.leb_le; lia).
    cbn [addend_val].
    destruct (pow2_cases k ltac:(lia)) as [-> | [-> | [-> | ->]]]; cbn [Z.pow Z.pow_pos Pos.iter Z.mul Pos.mul];
      unfold w64, W64; lia.
Qed.

Definition wf_addend (a : addend) : Prop :=
  match a with
  | AReg v s => 0 <= v < W64 /\ 0 <= s <= 3
  | AOff o => - 9223372036854775808 <= o < 9223372036854775808
  end.

Lemma sext32_small u : 0 <= u < 2147483648 -> sext32 u = u.
Proof. intros H. unfold sext32, W32. rewrite Z.mod_small by lia. destruct (u <? 2147483648) eqn:E; lia. Qed.

Ltac split_shift s H :=
  let H' := fresh in
  assert (H' : s = 0 \/ s = 1 \/ s = 2 \/ s = 3) by lia;
  destruct H' as [-> | [-> | [-> | ->]]].

Ltac crush :=
  unfold eval_amode; cbn [disp base index shift addend_val];
  rewrite ?sext32_small by lia;
  change (2 ^ 0) with 1; change (2 ^ 1) with 2; change (2 ^ 2) with 4; change (2 ^ 3) with 8;
  unfold w64, W64, W32 in *; try lia.

Lemma lower_addends_ok x y off :
  wf_addend x -> wf_addend y -> 0 <= off < 2147483648 ->
  (match x, y with AReg _ _, AReg _ _ => off = off | _, _ => True end) ->
  eval_amode (lower_addends_to_amode x y off) = w64 (addend_val x + addend_val y + off).
Proof.
  intros Hx Hy Hoff _. unfold lower_addends_to_amode.
  destruct x as [vx sx | ox], y as [vy sy | oy]; cbn [wf_addend] in Hx, Hy.
  - (* reg, reg: offsets 0 *)
    destruct Hx as [Hvx Hsx], Hy as [Hvy Hsy].
    replace (w64 (w64 (0 + 0) + off)) with off by (unfold w64, W64; cbn; rewrite Z.mod_small; lia).
    destruct (off =? 0) eqn:E0.
    + apply Z.eqb_eq in E0; subst off.
      rewrite (Z.mod_small 0 W32) by (unfold W32; lia).
      split_shift sx Hsx; split_shift sy Hsy; cbn [Z.eqb negb andb]; crush.
    + unfold as_imm32_nosign. replace (off <? 2147483648) with true by (symmetry; apply Z.ltb_lt; lia).
      rewrite (Z.mod_small off W32) by (unfold W32; lia).
      split_shift sx Hsx; split_shift sy Hsy;
        cbn [Z.eqb negb andb]; crush.
  - (* reg, off *)
    destruct Hx as [Hvx Hsx].
    replace (0 + oy) with oy by lia.
    set (u64 := w64 (w64 oy + off)).
    assert (Hu : 0 <= u64 < W64) by (unfold u64, w64, W64; apply Z.mod_pos_bound; lia).
    assert (Hval : w64 (addend_val (AReg vx sx) + addend_val (AOff oy) + off) = w64 (vx * 2 ^ sx + u64)).
    { cbn [addend_val]. unfold u64. rewrite w64_add_r. rewrite <- Z.add_assoc. rewrite w64_add_l. reflexivity. }
    rewrite Hval. clear Hval.
    destruct (u64 =? 0) eqn:E0.
    + apply Z.eqb_eq in E0. rewrite E0. rewrite (Z.mod_small 0 W32) by (unfold W32; lia).
      split_shift sx Hsx; cbn [Z.eqb negb andb]; crush.
    + unfold as_imm32_nosign. destruct (u64 <? 2147483648) eqn:E1.
      * apply Z.ltb_lt in E1. rewrite (Z.mod_small u64 W32) by (unfold W32; lia).
        split_shift sx Hsx; cbn [Z.eqb negb andb]; crush.
      * rewrite (Z.mod_small 0 W32) by (unfold W32; lia).
        split_shift sx Hsx; cbn [Z.eqb negb andb]; crush.
  - (* off, reg *)
    destruct Hy as [Hvy Hsy].
    replace (ox + 0) with ox by lia.
    set (u64 := w64 (w64 ox + off)).
    assert (Hu : 0 <= u64 < W64) by (unfold u64, w64, W64; apply Z.mod_pos_bound; lia).
    assert (Hval : w64 (addend_val (AOff ox) + addend_val (AReg vy sy) + off) = w64 (vy * 2 ^ sy + u64)).
    { cbn [addend_val]. unfold u64. rewrite w64_add_r.
      replace (w64 ox + w64 (vy * 2 ^ sy) + off) with (w64 (vy * 2 ^ sy) + (w64 ox + off)) by lia.
      rewrite w64_add_l. reflexivity. }
    rewrite Hval. clear Hval.
    destruct (u64 =? 0) eqn:E0.
    + apply Z.eqb_eq in E0. rewrite E0. rewrite (Z.mod_small 0 W32) by (unfold W32; lia).
      split_shift sy Hsy; cbn [Z.eqb negb andb]; crush.
    + unfold as_imm32_nosign. destruct (u64 <? 2147483648) eqn:E1.
      * apply Z.ltb_lt in E1. rewrite (Z.mod_small u64 W32) by (unfold W32; lia).
        split_shift sy Hsy; cbn [Z.eqb negb andb]; crush.
      * rewrite (Z.mod_small 0 W32) by (unfold W32; lia).
        split_shift sy Hsy; cbn [Z.eqb negb andb]; crush.
  - (* off, off *)
    set (u64 := w64 (w64 (ox + oy) + off)).
    assert (Hu : 0 <= u64 < W64) by (unfold u64, w64, W64; apply Z.mod_pos_bound; lia).
    assert (Hval : w64 (addend_val (AOff ox) + addend_val (AOff oy) + off) = u64).
    { cbn [addend_val]. unfold u64. rewrite (w64_add_l (ox + oy) off).
      replace (w64 ox + w64 oy + off) with (w64 ox + (w64 oy + off)) by lia.
      rewrite w64_add_l.
      replace (ox + (w64 oy + off)) with (w64 oy + (ox + off)) by lia.
      rewrite w64_add_l. f_equal; lia. }
    rewrite Hval. clear Hval.
    destruct (u64 =? 0) eqn:E0.
    + apply Z.eqb_eq in E0. rewrite E0. crush.
    + unfold as_imm32_nosign. destruct (u64 <? 2147483648) eqn:E1.
      * apply Z.ltb_lt in E1. crush.
      * cbn [Z.eqb negb andb]. rewrite (Z.mod_small 0 W32) by (unfold W32; lia). crush.
Qed.

Lemma ev_range rg e : 0 <= ev rg e < W64.
Proof. rewrite <- ev_reduced. unfold w64, W64. apply Z.mod_pos_bound. lia. Qed.

Lemma lower_addend_wf rg e :
  frontend_shape e = true -> wf_e e -> wf_addend (lower_addend true rg e).
Proof.
  intros Hs Hw. unfold lower_addend.
  destruct (matchable_addend e) eqn:Hm; [| cbn; split; [apply ev_range | lia]].
  destruct e as [r | c m | x m | x m | x k m | a b m]; cbn [matchable_addend] in Hm; try discriminate; subst m.
  - cbn in Hw |- *. destruct (c <? 9223372036854775808) eqn:E; unfold W64 in *; lia.
  - destruct x as [r | c]; cbn.
    + split; [| lia]. unfold w64, W64. apply Z.mod_pos_bound. lia.
    + unfold zext32, W32. pose proof (Z.mod_pos_bound c 4294967296). lia.
  - cbn in Hs. apply andb_prop in Hs as [H0 H3]. apply Z.leb_le in H0, H3.
    cbn. replace (k <=? 3) with true by (symmetry; apply Z.leb_le; lia). cbn.
    split; [| lia]. unfold w64, W64. apply Z.mod_pos_bound. lia.
Qed.

(* main statement for the repaired lowering, offsets without the top bit *)
Theorem amode_correct_small_off rg e off :
  frontend_shape e = true -> zext_ok rg e -> wf_e e -> 0 <= off < 2147483648 ->
  eval_amode (lower_to_amode true rg e off) = w64 (ev rg e + off).
Proof.
  intros Hs Hz Hw Hoff. unfold lower_to_amode.
  replace (2147483648 <=? off) with false by (symmetry; apply Z.leb_gt; lia).
  assert (Hgen : eval_amode
            match lower_addend true rg e with
            | AReg v s => if negb (s =? 0) then {| disp := off; base := 0; index := v; shift := s |}
                          else {| disp := off; base := v; index := 0; shift := 0 |}
            | AOff o => {| disp := 0; base := w64 (o + off); index := 0; shift := 0 |}
            end = w64 (ev rg e + off)).
  { rewrite <- (lower_addend_ok rg e Hs Hz Hw).
    pose proof (lower_addend_wf rg e Hs Hw) as Hwf.
    destruct (lower_addend true rg e) as [v s | o]; cbn [wf_addend] in Hwf.
    - destruct Hwf as [Hv Hsft]. split_shift s Hsft; cbn [Z.eqb negb]; crush.
    - crush. }
  destruct e as [r | c m | x m | x m | x k m | a b m]; try exact Hgen.
  destruct m; [| exact Hgen].
  cbn in Hs, Hz, Hw. apply andb_prop in Hs as [Hsa Hsb]. destruct Hz as [Hza Hzb], Hw as [Hwa Hwb].
  rewrite lower_addends_ok; try (apply lower_addend_wf; assumption); try lia.
  - rewrite !lower_addend_ok by assumption. cbn [ev]. rewrite w64_add_l. reflexivity.
  - destruct (lower_addend true rg a), (lower_addend true rg b); auto.
Qed.
Print Assumptions amode_correct_small_off.
