(* Proofs about coq/Engine/TermHost.v (C07: host nodes, call entry as a check point). *)
From Coq Require Import List Arith Bool ZArith Lia.
From Verif Require Import Lib.GoInt Gen.GenC07Wasm Gen.GenC07Sys Engine.TermCheck Engine.TermHost Proofs.TermCheckP.
Import ListNotations.
Close Scope Z_scope.
Open Scope nat_scope.

Ltac splits := repeat match goal with |- _ /\ _ => split end.

(* ================================================================== A. the projection *)
Lemma proj_nth v H n : nth n (proj v H) dead = proj_node v (nth n H hdead).
Proof. unfold proj. change dead with (proj_node v hdead). apply map_nth. Qed.

Lemma proj_length v H : length (proj v H) = length H.
Proof. apply map_length. Qed.

Lemma proj_check v H n : is_check (proj v H) n = node_obs v H n.
Proof. unfold is_check, node_obs, is_hcheck. rewrite proj_nth. reflexivity. Qed.

Lemma proj_edges v H n e pe : In e (hedges H n) -> In pe (proj_edge e) -> In pe (edges (proj v H) n).
Proof.
  unfold edges, hedges. rewrite proj_nth. cbn [proj_node n_edges]. intros He Hp. apply in_flat_map. exists e; auto.
Qed.

Lemma hedges_in H n e : In e (hedges H n) -> exists nd, In nd H /\ In e (h_edges nd).
Proof.
  unfold hedges. intros He. destruct (Nat.ltb_spec n (length H)).
  - exists (nth n H hdead). split; [apply nth_In; assumption|exact He].
  - rewrite nth_overflow in He by assumption. destruct He.
Qed.

Lemma enter_checked v H c ks c' : entries_checked v H = true -> hstep H c (Some ks) c' -> v_entry v ks = true.
Proof.
  intros Hc Hs. inversion Hs as [| | | |n st c0 r ks0 Hin]; subst. destruct (hedges_in _ _ _ Hin) as (nd & Hnd & He).
  unfold entries_checked in Hc. rewrite forallb_forall in Hc. specialize (Hc nd Hnd).
  rewrite forallb_forall in Hc. exact (Hc _ He).
Qed.

Lemma enter_from_host H n st ks c' : wf_host H = true -> hstep H (n, st) (Some ks) c' -> is_host H n = true.
Proof.
  intros Hw Hs. inversion Hs as [| | | |n0 st0 c0 r ks0 H5]; subst. unfold hedges in H5. unfold is_host.
  destruct (Nat.ltb_spec n (length H)) as [Hlt|Hge].
  - unfold wf_host in Hw. rewrite forallb_forall in Hw. specialize (Hw _ (nth_In H hdead Hlt)).
    apply orb_true_iff in Hw as [Hw|Hw]; [exact Hw|].
    rewrite forallb_forall in Hw. specialize (Hw _ H5). discriminate.
  - rewrite nth_overflow in H5 by assumption. destruct H5.
Qed.

(* ================================================================== B. soundness with host nodes *)
Fixpoint hpot (r : nat -> nat) (b D n : nat) (st : list frame) : nat :=
  S (r n) * b ^ (D - seg_depth st) + match st with [] => 0 | f :: st' => hpot r b D (fcont f) st' end.
Definition hrest (r : nat -> nat) (b D : nat) (st : list frame) : nat :=
  match st with [] => 0 | f :: st' => hpot r b D (fcont f) st' end.

Lemma hpot_eq r b D n st : hpot r b D n st = S (r n) * b ^ (D - seg_depth st) + hrest r b D st.
Proof. destruct st; reflexivity. Qed.

Lemma segs_le_tail D f st : segs_le D (f :: st) -> segs_le D st.
Proof. intros [_ H]; exact H. Qed.

Lemma segs_le_head D st : segs_le D st -> seg_depth st <= D.
Proof. destruct st; intros [H _]; exact H. Qed.

Lemma hpot_step v H r D c c' :
  valid_rank (proj v H) r -> hstep H c None c' -> node_obs v H (fst c) = false ->
  segs_le D (snd c) -> segs_le D (snd c') ->
  hpot r (length H + 2) D (fst c') (snd c') < hpot r (length H + 2) D (fst c) (snd c).
Proof.
  intros [Hv Hb] Hs Hc Hd Hd'. rewrite proj_length in Hb. set (b := length H + 2).
  assert (Hbpos : 0 < b) by (unfold b; lia).
  assert (Hrank : forall n e t, node_obs v H n = false -> In e (hedges H n) ->
                    (exists pe, In pe (proj_edge e) /\ In t (htargets pe)) -> r t < r n).
  { intros n e t Hn He (pe & Hpe & Ht).
    destruct (edges_in _ _ _ (proj_edges v H n e pe He Hpe)) as (nd & E & Hin & Hck).
    rewrite proj_check, Hn in Hck. apply (Hv n nd E (eq_sym Hck)). eapply hsucc_in; eassumption. }
  inversion Hs as [n st t H4|n st c0 r0 H4|n st c0 H4|n f st H4|]; subst; cbn [fst snd] in *.
  - assert (r t < r n) by (apply (Hrank n (HSeq t) t Hc H4); exists (ESeq t); cbn; auto).
    rewrite !hpot_eq. pose proof (pow_pos b (D - seg_depth st) Hbpos). nia.
  - assert (Hr : r r0 < r n) by (apply (Hrank n (HCall c0 r0) r0 Hc H4); exists (ECall c0 r0); cbn; auto).
    pose proof (segs_le_head _ _ Hd') as Hsd. cbn [seg_depth] in Hsd.
    rewrite (hpot_eq r b D c0). cbn [hrest seg_depth fcont]. rewrite !hpot_eq.
    set (d := seg_depth st) in *. set (rest := hrest r b D st).
    assert (Hpow : b ^ (D - d) = b * b ^ (D - S d)).
    { replace (D - d) with (S (D - S d)) by lia. reflexivity. }
    rewrite Hpow. pose proof (pow_pos b (D - S d) Hbpos) as HY. set (Y := b ^ (D - S d)) in *.
    pose proof (Hb c0) as Hc0.
    assert (S (r c0) * Y < b * Y) by (apply Nat.mul_lt_mono_pos_r; unfold b; lia).
    assert (S (r r0) * (b * Y) <= r n * (b * Y)) by (apply Nat.mul_le_mono_r; lia).
    lia.
  - assert (r c0 < r n) by (apply (Hrank n (HTail c0) c0 Hc H4); exists (ETail c0); cbn; auto).
    rewrite !hpot_eq. pose proof (pow_pos b (D - seg_depth st) Hbpos). nia.
  - rewrite (hpot_eq r b D n). cbn [hrest]. pose proof (pow_pos b (D - seg_depth (f :: st)) Hbpos). nia.
Qed.

Lemma hpot_bound r b D : (forall m, S (r m) < b) ->
  forall st n, segs_le D st -> hpot r b D n st + b ^ (D - seg_depth st) <= b ^ (S D) * nest st.
Proof.
  intros Hr. induction st as [|f st IH]; intros n Hd.
  - cbn [hpot seg_depth nest]. rewrite Nat.sub_0_r. cbn [Nat.pow]. pose proof (Hr n). nia.
  - pose proof (segs_le_head _ _ Hd) as Hsd. specialize (IH (fcont f) (segs_le_tail _ _ _ Hd)).
    destruct f as [k|k]; cbn [hpot seg_depth nest fcont] in *.
    + set (d := seg_depth st) in *.
      assert (Hpow : b ^ (D - d) = b * b ^ (D - S d)).
      { replace (D - d) with (S (D - S d)) by lia. reflexivity. }
      rewrite Hpow in IH. pose proof (Hr n). set (Y := b ^ (D - S d)) in *. nia.
    + rewrite Nat.sub_0_r. pose proof (Hr n) as Hn. set (X := b ^ D) in *.
      assert (E : b ^ S D = b * X) by reflexivity. rewrite E in *.
      assert (S (r n) * X + X <= b * X) by nia.
      set (Q := hpot r b D k st) in *. set (N := nest st) in *. set (BX := b * X) in *. nia.
Qed.

Definition hfree (v : view) (H : hgraph) (c0 : hcfg) (l : hpath) : Prop :=
  node_obs v H (fst c0) = false /\
  forall lab c, In (lab, c) l -> lab_obs v lab = false /\ node_obs v H (fst c) = false.
Definition hdepth_le (D : nat) (c0 : hcfg) (l : hpath) : Prop := forall c, In c (cfgs c0 l) -> segs_le D (snd c).

Lemma hpath_length v H r D : valid_rank (proj v H) r -> entries_checked v H = true ->
  forall l c0, is_hpath H c0 l -> hfree v H c0 l -> hdepth_le D c0 l ->
  length l <= hpot r (length H + 2) D (fst c0) (snd c0).
Proof.
  intros Hv He. induction l as [|[lab c1] l IH]; intros c0 Hp [Hn0 Hn] Hd; [cbn; lia|].
  destruct Hp as [Hs Hp]. destruct (Hn lab c1 (or_introl eq_refl)) as [Hlab Hn1].
  destruct lab as [ks|].
  - cbn [lab_obs] in Hlab. rewrite (enter_checked v H c0 ks c1 He Hs) in Hlab. discriminate.
  - assert (Hlt := hpot_step v H r D c0 c1 Hv Hs Hn0 (Hd c0 (or_introl eq_refl))
                     (Hd c1 (or_intror (or_introl eq_refl)))).
    assert (IH' : length l <= hpot r (length H + 2) D (fst c1) (snd c1)).
    { apply IH; [exact Hp|split; [exact Hn1|intros lab c Hin; apply Hn; right; exact Hin]|].
      intros c Hin. apply Hd. right. exact Hin. }
    cbn [length]. lia.
Qed.

Lemma checkpointb_spec v H c0 l : checkpointb v H c0 l = true <-> checkpoint v H c0 l.
Proof.
  unfold checkpointb, checkpoint. rewrite orb_true_iff, existsb_exists. split.
  - intros [H0|([lab c] & Hin & Hx)]; [left; exact H0|right]. exists lab, c. split; [exact Hin|].
    apply orb_true_iff in Hx. exact Hx.
  - intros [H0|(lab & c & Hin & Hx)]; [left; exact H0|right]. exists (lab, c). split; [exact Hin|].
    apply orb_true_iff. exact Hx.
Qed.

Lemma not_checkpoint_free v H c0 l : checkpointb v H c0 l = false -> hfree v H c0 l.
Proof.
  unfold checkpointb. intros Hf. apply orb_false_iff in Hf as [H0 Hl]. split; [exact H0|].
  intros lab c Hin. destruct (lab_obs v lab || node_obs v H (fst c)) eqn:E.
  - assert (existsb (fun x => lab_obs v (fst x) || node_obs v H (fst (snd x))) l = true).
    { apply existsb_exists. exists (lab, c). split; [exact Hin|exact E]. }
    congruence.
  - apply orb_false_iff in E. exact E.
Qed.

(* For ALL graphs with host nodes: if hcheck accepts H in a situation (view) v, a path in which no call engine ever
   holds more than D frames - the number of nested call engines is NOT bounded - passes a check point that observes
   the situation within hbound steps, a bound that depends on the nesting at the start of the path only. *)
Lemma host_checker_sound v H D c0 l :
  hcheck v H = true -> is_hpath H c0 l -> hdepth_le D c0 l ->
  hbound (length H) D (nest (snd c0)) <= length l ->
  checkpoint v H c0 l.
Proof.
  intros Hok Hp Hd Hlen. apply checkpointb_spec. destruct (checkpointb v H c0 l) eqn:Ex; [reflexivity|exfalso].
  apply not_checkpoint_free in Ex. unfold hcheck in Hok. apply andb_true_iff in Hok as [Hok He].
  apply ranked_ok_valid in Hok.
  set (r := fun n => if n <? length (proj v H) then rk (compute_rank (proj v H)) n else 0) in *.
  pose proof (hpath_length v H r D Hok He l c0 Hp Ex Hd) as H1.
  assert (Hr : forall m, S (r m) < length H + 2).
  { intros m. destruct Hok as [_ Hb]. specialize (Hb m). rewrite proj_length in Hb. lia. }
  pose proof (hpot_bound r (length H + 2) D Hr (snd c0) (fst c0) (Hd c0 (or_introl eq_refl))) as H2.
  pose proof (pow_pos (length H + 2) (D - seg_depth (snd c0)) ltac:(lia)).
  unfold hbound in Hlen. replace (D + 1) with (S D) in Hlen by lia. lia.
Qed.

(* ================================================================== C. cycles through the host *)
Lemma nest_step H c c' : hstep H c None c' -> nest (snd c') <= nest (snd c).
Proof.
  intros Hs. inversion Hs; subst; cbn [snd nest]; try lia. destruct f; cbn [nest]; lia.
Qed.

(* For ALL graphs in which every call entry carries a check observing the situation: every path along which the
   host <-> guest nesting grows - every trip round a cycle guest -> host -> guest - passes such an entry check.
   No ceiling, no bound on the length: this is the check point that stops a recursion through the host. *)
Lemma host_cycles_checked v H : entries_checked v H = true ->
  forall l c0, is_hpath H c0 l -> nest (snd c0) < nest (snd (hlast c0 l)) ->
  exists ks c, In (Some ks, c) l /\ v_entry v ks = true.
Proof.
  intros He. induction l as [|[lab c1] l IH]; intros c0 Hp Hn; [cbn in Hn; lia|].
  destruct Hp as [Hs Hp]. cbn [hlast] in Hn. destruct lab as [ks|].
  - exists ks, c1. split; [left; reflexivity|]. exact (enter_checked v H c0 ks c1 He Hs).
  - pose proof (nest_step H c0 c1 Hs) as Hle.
    destruct (IH c1 Hp ltac:(lia)) as (ks & c & Hin & Hk). exists ks, c. split; [right; exact Hin|exact Hk].
Qed.

Lemma host_cycles_checked_full :
  (forall v H, entries_checked v H = true ->
     forall l c0, is_hpath H c0 l -> nest (snd c0) < nest (snd (hlast c0 l)) ->
     exists ks c, In (Some ks, c) l /\ v_entry v ks = true) /\
  (forall H n st ks c', wf_host H = true -> hstep H (n, st) (Some ks) c' -> is_host H n = true).
Proof. split; [exact host_cycles_checked|exact enter_from_host]. Qed.

(* ================================================================== D. what the checks observe *)
Open Scope Z_scope.

Lemma closed_some wd : wd <> 0 -> fail_if_closed wd = Some (wrap 32 (shr wd 32)).
Proof. intros H. unfold fail_if_closed. destruct (Z.eqb_spec wd 0); [contradiction|reflexivity]. Qed.

Lemma apply_cause_some wd c : cause_wf c -> exists code, fail_if_closed (apply_cause wd c) = Some code /\
  (wd = 0 -> code = cause_code c /\ is_closed (apply_cause wd c) = true) /\
  (wd <> 0 -> fail_if_closed wd = Some code).
Proof.
  intros Hw. destruct (Z.eq_dec wd 0) as [->|Hnz].
  - destruct (apply_open c Hw) as [H1 H2]. exists (cause_code c). splits; auto. intros; congruence.
  - rewrite (apply_closed wd c Hnz). exists (wrap 32 (shr wd 32)). rewrite closed_some by exact Hnz.
    splits; auto. intros; congruence.
Qed.

Definition ctx_code (c : ctx_state) : Z :=
  match c with CtxCanceled => ExitCodeContextCanceled | CtxDeadline => ExitCodeDeadlineExceeded | CtxLive => -1 end.

(* the entry pre-check as it is now: a context that is done is observed, with its code when it is the first cause
   (the module is closed by it), with the code of the earlier cause otherwise *)
Lemma entry_now_observes_ctx w : w_ctx w <> CtxLive ->
  exists code, fst (run_entry entry_now w) = Some code /\
    (w_word w = 0 -> code = ctx_code (w_ctx w) /\ is_closed (w_word (snd (run_entry entry_now w))) = true) /\
    (w_word w <> 0 -> fail_if_closed (w_word w) = Some code).
Proof.
  destruct w as [c wd]. cbn [w_ctx w_word]. intros Hc. destruct c; [contradiction| |].
  - destruct (apply_cause_some wd CancelledAtEntry I) as (code & E & H0 & H1). exists code.
    cbn [entry_now run_entry run_chk w_ctx w_word]. rewrite E. cbn [fst snd w_word]. splits; auto.
  - destruct (apply_cause_some wd DeadlineAtEntry I) as (code & E & H0 & H1). exists code.
    cbn [entry_now run_entry run_chk w_ctx w_word]. rewrite E. cbn [fst snd w_word]. splits; auto.
Qed.

(* ... and nothing else is: with a live context the call proceeds into the guest, whatever the closed word says *)
Lemma entry_now_blind w : w_ctx w = CtxLive -> run_entry entry_now w = (None, w).
Proof. destruct w as [c wd]. cbn. intros ->. reflexivity. Qed.

Lemma word_check_observes w : w_word w <> 0 -> fst (run_chk KWord w) = fail_if_closed (w_word w) /\
  exists code, fail_if_closed (w_word w) = Some code.
Proof. intros H. split; [reflexivity|]. rewrite closed_some by exact H. eauto. Qed.

Lemma entry_repaired_observes w : w_ctx w <> CtxLive \/ w_word w <> 0 -> observes entry_repaired w = true.
Proof.
  destruct w as [c wd]. cbn [w_ctx w_word]. unfold observes, entry_repaired. intros H. destruct c.
  - destruct H as [H|H]; [contradiction|]. cbn [run_entry run_chk w_ctx w_word]. rewrite closed_some by exact H. reflexivity.
  - destruct (apply_cause_some wd CancelledAtEntry I) as (code & E & _).
    cbn [run_entry run_chk w_ctx w_word]. rewrite E. reflexivity.
  - destruct (apply_cause_some wd DeadlineAtEntry I) as (code & E & _).
    cbn [run_entry run_chk w_ctx w_word]. rewrite E. reflexivity.
Qed.

Lemma close_word_nonzero code : apply_cause 0 (Closed code) <> 0.
Proof.
  unfold apply_cause, set_exit_code. cbn [Z.eqb fst]. apply pack_nonzero. apply (cause_flag_cases (Closed code)).
Qed.

(* which cause is observed where *)
Lemma entry_observes_cause :
  (* cancellation and deadline of the context handed to the call: observed at entry at once, watcher or not *)
  (forall b, fst (run_entry entry_now (sit_cancel b)) = Some ExitCodeContextCanceled) /\
  (forall b, fst (run_entry entry_now (sit_deadline b)) = Some ExitCodeDeadlineExceeded) /\
  (* a module closed from another goroutine, or by the watcher of an outer call whose context the host function did
     not pass on: NOT observed at entry *)
  (forall code, observes entry_now (sit_close code) = false) /\
  observes entry_now sit_outer_cancel = false /\ observes entry_now sit_outer_deadline = false /\
  (* after the seeded change nothing is observed at entry, in any situation *)
  (forall w, observes entry_seeded w = false) /\
  (* with FailIfClosed added at entry every cause is *)
  (forall b, observes entry_repaired (sit_cancel b) = true) /\ (forall b, observes entry_repaired (sit_deadline b) = true) /\
  (forall code, observes entry_repaired (sit_close code) = true) /\
  observes entry_repaired sit_outer_cancel = true /\ observes entry_repaired sit_outer_deadline = true /\
  (* the checks inside the guest read the word only: they see a close at once, a cancellation / deadline once a
     watcher goroutine has run *)
  (forall code, observes [KWord] (sit_close code) = true) /\
  observes [KWord] (sit_cancel true) = true /\ observes [KWord] (sit_cancel false) = false /\
  observes [KWord] (sit_deadline true) = true /\ observes [KWord] (sit_deadline false) = false /\
  (* nothing fires when nothing happened *)
  observes entry_now sit_quiet = false /\ observes entry_repaired sit_quiet = false /\ observes [KWord] sit_quiet = false.
Proof.
  assert (Hcl : forall code, observes [KWord] (sit_close code) = true).
  { intros code. unfold observes. cbn [run_entry run_chk sit_close w_word].
    rewrite closed_some by apply close_word_nonzero. reflexivity. }
  split; [intros []; vm_compute; reflexivity|].
  split; [intros []; vm_compute; reflexivity|].
  split; [intros code; unfold observes, sit_close, entry_now; cbn [run_entry run_chk w_ctx fst is_some]; reflexivity|].
  split; [vm_compute; reflexivity|]. split; [vm_compute; reflexivity|].
  split; [intros w; reflexivity|].
  split; [intros []; vm_compute; reflexivity|].
  split; [intros []; vm_compute; reflexivity|].
  split; [intros code; apply entry_repaired_observes; right; apply close_word_nonzero|].
  split; [vm_compute; reflexivity|]. split; [vm_compute; reflexivity|].
  split; [exact Hcl|].
  splits; vm_compute; reflexivity.
Qed.

Close Scope Z_scope.

(* ================================================================== E. the seeded defect's shape *)
Lemma hostrec_graph_eq ks : hostrec_graph ks =
  [hmk true false [HSeq 1; HRet]; hmk true false [HEnter 2 0 ks]; hmk false false [HCall 0 3]; hmk false false [HRet]].
Proof. reflexivity. Qed.

Lemma hostrec_is_path ks : forall n st, is_hpath (hostrec_graph ks) (2, st) (hostrec_path ks n st).
Proof.
  rewrite hostrec_graph_eq. induction n as [|n IH]; intros st; [exact I|]. cbn [hostrec_path is_hpath]. splits.
  - apply hs_call. cbn. auto.
  - apply hs_seq. cbn. auto.
  - apply hs_enter. cbn. auto.
  - apply IH.
Qed.

Lemma hostrec_free v ks : v_entry v ks = false ->
  forall n st, hfree v (hostrec_graph ks) (2, st) (hostrec_path ks n st).
Proof.
  intros Hk n st. rewrite hostrec_graph_eq. split; [reflexivity|]. revert st.
  induction n as [|n IH]; intros st lab c Hin; [destruct Hin|]. cbn [hostrec_path] in Hin.
  destruct Hin as [E|[E|[E|Hin]]]; try (inversion E; subst; split; [try reflexivity; exact Hk|reflexivity]).
  exact (IH _ lab c Hin).
Qed.

Lemma hostrec_depth ks : forall n st, segs_le 1 st -> seg_depth st = 0 -> hdepth_le 1 (2, st) (hostrec_path ks n st).
Proof.
  induction n as [|n IH]; intros st Hs H0 c Hin.
  - destruct Hin as [<-|[]]. exact Hs.
  - cbn [hostrec_path cfgs map snd] in Hin.
    assert (S1 : segs_le 1 (FRet 3 :: st)) by (split; [cbn [seg_depth]; lia|exact Hs]).
    assert (S2 : segs_le 1 (FEntry 0 :: FRet 3 :: st)) by (split; [cbn [seg_depth]; lia|exact S1]).
    destruct Hin as [<-|[<-|[<-|Hin]]]; try assumption.
    apply (IH (FEntry 0 :: FRet 3 :: st) S2 eq_refl). exact Hin.
Qed.

Lemma hostrec_length ks : forall n st, length (hostrec_path ks n st) = 3 * n.
Proof. induction n as [|n IH]; intros st; [reflexivity|]. cbn [hostrec_path length]. rewrite IH. lia. Qed.

Lemma hostrec_nest ks : forall n st, nest (snd (hlast (2, st) (hostrec_path ks n st))) = n + nest st.
Proof.
  induction n as [|n IH]; intros st; [reflexivity|]. cbn [hostrec_path hlast]. rewrite IH. cbn [nest]. lia.
Qed.

Lemma hfree_not_checkpoint v H c0 l : hfree v H c0 l -> ~ checkpoint v H c0 l.
Proof.
  intros [H0 Hl] [Hc|(lab & c & Hin & [Hc|Hc])]; [congruence| |]; destruct (Hl lab c Hin); congruence.
Qed.

(* the seeded defect's shape: one guest function calling an imported Go function that calls it back. The lowerings place
   no check in it. When the call entry does not observe the situation, the graph has check-free paths of every
   length in which every call engine holds one frame (so no stack ceiling ever stops them) and the nesting grows
   for ever; hcheck rejects it. When the entry observes the situation, hcheck accepts it. *)
Lemma host_cycle_unchecked_refuted :
  place interp_now hostrec_prog = hostrec_prog /\ place comp_now hostrec_prog = hostrec_prog /\
  (forall v ks, v_entry v ks = false ->
     hcheck v (hostrec_graph ks) = false /\
     forall n, let l := hostrec_path ks n [] in
       is_hpath (hostrec_graph ks) (2, []) l /\ ~ checkpoint v (hostrec_graph ks) (2, []) l /\
       (forall c, In c (cfgs (2, []) l) -> segs_le 1 (snd c)) /\ length l = 3 * n /\
       nest (snd (hlast (2, []) l)) = n + 1) /\
  (forall v ks, v_entry v ks = true -> hcheck v (hostrec_graph ks) = true) /\
  (* instances: after the seeded change, in every situation; in the code as it is now, for a module closed from
     another goroutine and for an outer call's context the host did not pass on - but not for the call's own context *)
  (forall w, v_entry (view_of w) entry_seeded = false) /\
  (forall code, v_entry (view_of (sit_close code)) entry_now = false) /\
  v_entry (view_of sit_outer_cancel) entry_now = false /\
  (forall b, v_entry (view_of (sit_cancel b)) entry_now = true) /\
  (forall b, v_entry (view_of (sit_deadline b)) entry_now = true).
Proof.
  splits; try reflexivity.
  - intros v ks Hk. split.
    + unfold hcheck. assert (E : entries_checked v (hostrec_graph ks) = false).
      { rewrite hostrec_graph_eq. cbn. rewrite Hk. reflexivity. }
      rewrite E. apply andb_false_r.
    + intros n l. subst l. splits.
      * apply hostrec_is_path.
      * apply hfree_not_checkpoint. apply hostrec_free. exact Hk.
      * apply hostrec_depth; [split; [cbn; lia|exact I]|reflexivity].
      * apply hostrec_length.
      * rewrite hostrec_nest. reflexivity.
  - intros v ks Hk. unfold hcheck. apply andb_true_iff. split.
    + rewrite hostrec_graph_eq. vm_compute. reflexivity.
    + rewrite hostrec_graph_eq. cbn. rewrite Hk. reflexivity.
  - intros []; vm_compute; reflexivity.
  - intros []; vm_compute; reflexivity.
Qed.

(* ================================================================== F. graphs of programs *)
Lemma proj_lift_edges es : flat_map proj_edge (map lift_edge es) = es.
Proof. induction es as [|e es IH]; [reflexivity|]. destruct e; cbn; rewrite IH; reflexivity. Qed.

Lemma proj_lift_node v host nd : v_node v = true -> proj_node v (lift_node host nd) = nd.
Proof.
  intros Hv. unfold proj_node, lift_node. cbn [h_check h_edges]. rewrite Hv, andb_true_r, proj_lift_edges.
  destruct nd; reflexivity.
Qed.

Lemma proj_enter_edges ks es : (forall e, In e es -> exists c r, e = ECall c r) ->
  flat_map proj_edge (map (enter_edge ks) es) = [].
Proof.
  induction es as [|e es IH]; intros H; [reflexivity|].
  destruct (H e (or_introl eq_refl)) as (c & r & ->). cbn. apply IH. intros e' He'. apply H. right. exact He'.
Qed.

Lemma proj_of_graph v ks h re rest : v_node v = true ->
  (forall e, In e (n_edges re) -> exists c r, e = ECall c r) ->
  proj v (of_graph ks (h :: re :: rest)) = h :: mk false [] :: rest.
Proof.
  intros Hv Hre. cbn [of_graph proj map]. rewrite proj_lift_node by exact Hv. f_equal. f_equal.
  - unfold proj_node. cbn [h_check h_edges andb]. rewrite proj_enter_edges by exact Hre. reflexivity.
  - rewrite map_map. rewrite <- (map_id rest) at 2. apply map_ext. intros nd. apply proj_lift_node. exact Hv.
Qed.

Lemma valid_rank_cut h re rest r : valid_rank (h :: re :: rest) r -> valid_rank (h :: mk false [] :: rest) r.
Proof.
  intros [Hv Hb]. split; [|exact Hb]. intros n nd Hn Hc t Ht.
  destruct n as [|[|n]]; cbn in Hn.
  - apply (Hv 0 nd); assumption.
  - inversion Hn; subst. destruct Ht.
  - apply (Hv (S (S n)) nd); assumption.
Qed.

Lemma entries_lift v es : forallb (edge_entry_ok v) (map lift_edge es) = true.
Proof. induction es as [|e es IH]; [reflexivity|]. destruct e; cbn; exact IH. Qed.

Lemma entries_enter v ks es : v_entry v ks = true -> forallb (edge_entry_ok v) (map (enter_edge ks) es) = true.
Proof. intros Hk. induction es as [|e es IH]; [reflexivity|]. destruct e; cbn; try rewrite Hk; exact IH. Qed.

Lemma entries_of_graph v ks G : v_entry v ks = true -> entries_checked v (of_graph ks G) = true.
Proof.
  intros Hk. unfold entries_checked.
  assert (L : forall host l, forallb (fun nd => forallb (edge_entry_ok v) (h_edges nd)) (map (lift_node host) l) = true).
  { intros host. induction l as [|nd l IH]; [reflexivity|]. cbn. rewrite entries_lift. exact IH. }
  destruct G as [|h [|re rest]]; [reflexivity|cbn; rewrite entries_lift; reflexivity|].
  cbn [of_graph forallb lift_node h_edges]. rewrite entries_lift, entries_enter by exact Hk. apply L.
Qed.

(* every graph in the format of TermCheck that its checker accepts is accepted with host nodes as soon as the node
   checks and the entry checks observe the situation *)
Lemma hcheck_of_graph v ks h re rest :
  all_cycles_checked (h :: re :: rest) = true -> (forall e, In e (n_edges re) -> exists c r, e = ECall c r) ->
  v_node v = true -> v_entry v ks = true -> hcheck v (of_graph ks (h :: re :: rest)) = true.
Proof.
  intros Hok Hre Hv Hk. unfold hcheck. apply andb_true_iff. split; [|apply entries_of_graph; exact Hk].
  rewrite proj_of_graph by assumption. apply ranked_ok_valid in Hok. eapply rank_complete. eapply valid_rank_cut. exact Hok.
Qed.

(* For EVERY program and any placement that checks loop headers and tail calls (both engines' placements do): the graph
   WITH host nodes and entry edges is accepted in every situation that the in-guest checks and the entry checks observe *)
Lemma host_insertion_complete pl p ks v : pl_loop pl = true -> pl_tail pl = true ->
  v_node v = true -> v_entry v ks = true -> hcheck v (hgraph_of ks (place pl p)) = true.
Proof.
  intros Hl Ht Hv Hk. unfold hgraph_of, graph_of. apply hcheck_of_graph; try assumption.
  - apply (insertion_complete pl p Hl Ht).
  - unfold reenter_node. cbn [n_edges]. intros e He. apply in_map_iff in He as (x & <- & _). eauto.
Qed.

Lemma host_insertion_complete_all :
  (forall pl p ks v, pl_loop pl = true -> pl_tail pl = true -> v_node v = true -> v_entry v ks = true ->
     hcheck v (hgraph_of ks (place pl p)) = true) /\
  (* the situations covered by the code as it is now: the call's own context is cancelled / past its deadline and a
     watcher has written the word *)
  (forall p, hcheck (view_of (sit_cancel true)) (hgraph_of entry_now (place interp_now p)) = true /\
             hcheck (view_of (sit_cancel true)) (hgraph_of entry_now (place comp_now p)) = true /\
             hcheck (view_of (sit_deadline true)) (hgraph_of entry_now (place interp_now p)) = true /\
             hcheck (view_of (sit_deadline true)) (hgraph_of entry_now (place comp_now p)) = true) /\
  (* and every situation with the candidate repair (FailIfClosed at call entry) *)
  (forall p code, hcheck (view_of (sit_close code)) (hgraph_of entry_repaired (place interp_now p)) = true /\
                  hcheck (view_of (sit_close code)) (hgraph_of entry_repaired (place comp_now p)) = true /\
                  hcheck (view_of sit_outer_cancel) (hgraph_of entry_repaired (place interp_now p)) = true /\
                  hcheck (view_of sit_outer_cancel) (hgraph_of entry_repaired (place comp_now p)) = true).
Proof.
  pose proof entry_observes_cause as E.
  destruct E as (_ & _ & _ & _ & _ & _ & _ & _ & Ecl & _ & _ & Ewc & _).
  assert (C1 : v_node (view_of (sit_cancel true)) = true) by (vm_compute; reflexivity).
  assert (C2 : v_entry (view_of (sit_cancel true)) entry_now = true) by (vm_compute; reflexivity).
  assert (D1 : v_node (view_of (sit_deadline true)) = true) by (vm_compute; reflexivity).
  assert (D2 : v_entry (view_of (sit_deadline true)) entry_now = true) by (vm_compute; reflexivity).
  assert (O1 : v_node (view_of sit_outer_cancel) = true) by (vm_compute; reflexivity).
  assert (O2 : v_entry (view_of sit_outer_cancel) entry_repaired = true) by (vm_compute; reflexivity).
  split; [exact host_insertion_complete|]. split.
  - intros p. splits; apply host_insertion_complete; solve [reflexivity|assumption].
  - intros p code.
    assert (K1 : v_node (view_of (sit_close code)) = true) by (exact (Ewc code)).
    assert (K2 : v_entry (view_of (sit_close code)) entry_repaired = true) by (exact (Ecl code)).
    splits; apply host_insertion_complete; solve [reflexivity|assumption].
Qed.

(* the shared evaluation used for the engine graphs is hcheck *)
Lemma proj_ext v v' H : v_node v = v_node v' -> proj v H = proj v' H.
Proof. intros E. unfold proj. apply map_ext. intros nd. unfold proj_node. rewrite E. reflexivity. Qed.

Lemma hcheck_shared_eq v g : hcheck_shared (all_cycles_checked (proj full_view g)) v g = hcheck v g.
Proof.
  unfold hcheck_shared, hcheck. destruct (v_node v) eqn:E; [|reflexivity].
  rewrite (proj_ext v full_view g) by (rewrite E; reflexivity). reflexivity.
Qed.

(* ================================================================== G. non-vacuity *)
(* the hypotheses of host_checker_sound are satisfiable on the recursion through the host, with the entry check as it is
   now and the call's context cancelled: 13 round trips = 39 steps >= hbound 4 1 1 = 36, nesting 14 at the end *)
Example host_checker_sound_instance :
  let v := view_of (sit_cancel false) in
  let H := hostrec_graph entry_now in
  let l := hostrec_path entry_now 13 [] in
  hcheck v H = true /\ is_hpath H (2, []) l /\ hdepth_le 1 (2, []) l /\ hbound (length H) 1 (nest []) <= length l /\
  nest (snd (hlast (2, []) l)) = 14 /\ checkpoint v H (2, []) l.
Proof.
  intros v H l.
  assert (H1 : hcheck v H = true) by (vm_compute; reflexivity).
  assert (H2 : is_hpath H (2, []) l) by apply hostrec_is_path.
  assert (H3 : hdepth_le 1 (2, []) l) by (apply hostrec_depth; [split; [cbn; lia|exact I]|reflexivity]).
  assert (H4 : hbound (length H) 1 (nest []) <= length l) by (vm_compute; lia).
  splits; auto. exact (host_checker_sound v H 1 (2, []) l H1 H2 H3 H4).
Qed.

(* a loop whose body calls an imported function that calls the guest back, and a function reached through the host only *)
Definition host_loop_prog : prog :=
  {| p_nimp := 1; p_funcs := [[ILoop false [ICall 0; IBr 0]]; [IIf [IReturnCall false 0] [ICallIndirect]]] |}.

Example host_graph_instances :
  wf_host (hgraph_of entry_now (place interp_now host_loop_prog)) = true /\
  hcheck (view_of (sit_cancel true)) (hgraph_of entry_now (place interp_now host_loop_prog)) = true /\
  hcheck (view_of (sit_cancel true)) (hgraph_of entry_now (place comp_now host_loop_prog)) = true /\
  (* not trivially true: rejected without the entry check, rejected for a close from another goroutine with the entry
     as it is now, rejected (by the cycle checker) while no watcher has written the word, accepted with the repair *)
  hcheck (view_of (sit_cancel true)) (hgraph_of entry_seeded (place interp_now host_loop_prog)) = false /\
  hcheck (view_of (sit_close 7)) (hgraph_of entry_now (place interp_now host_loop_prog)) = false /\
  hcheck (view_of (sit_cancel false)) (hgraph_of entry_now (place interp_now host_loop_prog)) = false /\
  hcheck (view_of (sit_close 7)) (hgraph_of entry_repaired (place interp_now host_loop_prog)) = true /\
  (* the entry probe model: a cancelled context returns at entry, a closed module runs the body first *)
  probe_model entry_now (sit_cancel false) = (false, ExitCodeContextCanceled) /\
  probe_model entry_now (sit_close 7) = (true, 7%Z) /\
  probe_model entry_seeded (sit_cancel false) = (true, (-1)%Z) /\
  probe_model entry_repaired (sit_close 7) = (false, 7%Z).
Proof. splits; vm_compute; reflexivity. Qed.
