(* C18: proofs about the default module configuration (coq/Sys/DefaultCtx.v). *)
From Coq Require Import ZifyBool.
From Verif Require Import Lib.GoInt Gen.GenC18Platform Gen.GenC18Sys Gen.GenC18Wasip1 Gen.GenC18Wasi Sys.DefaultCtx.
Open Scope Z_scope.
Ltac Zify.zify_post_hook ::= Z.div_mod_to_equations.
Ltac splits := repeat match goal with |- _ /\ _ => split end.

(* ------------------------------------------------------------------------------------------ *)
(* the default configuration never looks at the host                                           *)

Lemma mk_ctx_default h : mk_ctx default_config h = Some default_ctx.
Proof. reflexivity. Qed.

Lemma default_ignores_host h1 h2 : mk_ctx default_config h1 = mk_ctx default_config h2.
Proof. rewrite !mk_ctx_default. reflexivity. Qed.

Lemma default_hermetic : hermetic default_ctx.
Proof. unfold hermetic, default_ctx; cbn. splits; eauto. Qed.

Section WithStream.
Variable R : nat -> Z.

(* every call keeps a hermetic context hermetic and has no effect on the host *)
Lemma step_hermetic c k : hermetic c ->
  hermetic (fst (wasi_step R c k)) /\
  c_emitted (fst (wasi_step R c k)) = c_emitted c /\ c_slept (fst (wasi_step R c k)) = c_slept c.
Proof.
  intros (Ha & He & Hi & Ho & Hr & (p & Hp) & (tw & Hw) & (tm & Hm) & Hs & Hy & Hpre & Hl).
  unfold hermetic.
  destruct k; cbn [wasi_step];
    cbv zeta; rewrite ?Hw, ?Hm, ?Hp, ?Hi, ?Ho, ?Hr, ?Hs; cbn [andb];
    repeat match goal with
           | |- context [if ?b then _ else _] =>
               lazymatch b with context [if _ then _ else _] => fail | _ => destruct b eqn:? end
           end;
    cbn;
    rewrite ?Ha, ?He, ?Hi, ?Ho, ?Hr, ?Hp, ?Hw, ?Hm, ?Hs, ?Hy, ?Hpre, ?Hl; splits; eauto; try congruence.
  all: destruct (poll_result _ _) as [[e out] sl]; cbn; rewrite ?Hs; cbn;
    rewrite ?Ha, ?He, ?Hi, ?Ho, ?Hr, ?Hp, ?Hw, ?Hm, ?Hs, ?Hy, ?Hpre, ?Hl; splits; eauto; try congruence.
Qed.

Lemma final_hermetic ks : forall c, hermetic c ->
  hermetic (final R c ks) /\ c_emitted (final R c ks) = c_emitted c /\ c_slept (final R c ks) = c_slept c.
Proof.
  induction ks as [|k r IH]; intros c Hc; [cbn; auto|].
  unfold final in *. cbn [fold_left].
  destruct (step_hermetic c k Hc) as (H1 & H2 & H3). destruct (IH _ H1) as (H4 & H5 & H6).
  splits; auto; congruence.
Qed.

(* the complete trace is a function of the call sequence alone: by induction over the calls, two instances
   started under the default configuration on ANY two hosts stay in the same state and answer the same *)
Lemma trace_reproducible ks : forall h1 h2 c1 c2,
  mk_ctx default_config h1 = Some c1 -> mk_ctx default_config h2 = Some c2 ->
  trace R c1 ks = trace R c2 ks /\ final R c1 ks = final R c2 ks.
Proof.
  intros h1 h2 c1 c2 H1 H2. rewrite mk_ctx_default in H1, H2. inversion H1; inversion H2; subst.
  revert ks. generalize default_ctx as c.
  intros c ks; revert c. induction ks as [|k r IH]; intros c; [split; reflexivity|].
  cbn [trace]. unfold final in *. cbn [fold_left]. destruct (wasi_step R c k) as [c' x]. cbn [fst].
  destruct (IH c') as (Ht & Hf). split; [reflexivity|exact Hf].
Qed.

Lemma default_no_host_effects ks :
  c_emitted (final R default_ctx ks) = [] /\ c_slept (final R default_ctx ks) = 0 /\ hermetic (final R default_ctx ks).
Proof. destruct (final_hermetic ks default_ctx default_hermetic) as (H & He & Hs). splits; auto. Qed.

(* ------------------------------------------------------------------------------------------ *)
(* instances are independent: interleaving the calls of several instances changes no instance's trace *)

Lemma set_nth_length {A} (l : list A) n v : length (set_nth l n v) = length l.
Proof. revert n; induction l; intros [|n]; cbn; auto. Qed.

Lemma nth_error_set_nth_same {A} (l : list A) n v : (n < length l)%nat -> nth_error (set_nth l n v) n = Some v.
Proof. revert n; induction l; intros [|n] H; cbn in *; try lia; auto. apply IHl. lia. Qed.

Lemma nth_error_set_nth_other {A} (l : list A) n m v : n <> m -> nth_error (set_nth l n v) m = nth_error l m.
Proof. revert n m; induction l; intros [|n] [|m] H; cbn; auto; try congruence. Qed.

Lemma interleave_proj sched : forall cs i c, nth_error cs i = Some c ->
  proj i (run_multi R cs sched) = trace R c (map snd (filter (fun e => Nat.eqb (fst e) i) sched)).
Proof.
  induction sched as [|[j k] r IH]; intros cs i c Hc; [reflexivity|].
  cbn [run_multi filter fst].
  destruct (Nat.eqb j i) eqn:E.
  - apply Nat.eqb_eq in E. subst j. rewrite Hc. cbn [map snd trace].
    destruct (wasi_step R c k) as [c' x]. unfold proj. cbn [filter fst]. rewrite Nat.eqb_refl. cbn [map snd].
    f_equal. apply IH. apply nth_error_set_nth_same. apply nth_error_Some. congruence.
  - apply Nat.eqb_neq in E.
    destruct (nth_error cs j) as [cj|] eqn:Ej; [|apply IH; exact Hc].
    destruct (wasi_step R cj k) as [c' x]. unfold proj. cbn [filter fst].
    replace (Nat.eqb j i) with false by (symmetry; apply Nat.eqb_neq; exact E).
    apply IH. rewrite nth_error_set_nth_other by exact E. exact Hc.
Qed.

Lemma nth_error_repeat {A} (x : A) n i : (i < n)%nat -> nth_error (repeat x n) i = Some x.
Proof. revert i; induction n; intros [|i] H; cbn; try lia; auto. apply IHn. lia. Qed.

(* every instance starts from the same state whatever the host, and n default instances of one runtime,
   scheduled in any interleaving, each produce the trace they produce alone *)
Lemma fresh_per_instance n sched i h : (i < n)%nat ->
  mk_ctx default_config h = Some default_ctx /\
  proj i (run_multi R (repeat default_ctx n) sched) =
  trace R default_ctx (map snd (filter (fun e => Nat.eqb (fst e) i) sched)).
Proof.
  intros Hi. split; [apply mk_ctx_default|]. apply interleave_proj. apply nth_error_repeat. exact Hi.
Qed.

(* ------------------------------------------------------------------------------------------ *)
(* the k-th reading of each clock                                                               *)

Lemma step_wall c k : c_wall (fst (wasi_step R c k)) =
  if reads_wall k then snd (read_clock (c_wall c)) else c_wall c.
Proof.
  destruct k; cbn [wasi_step reads_wall];
    repeat match goal with |- context [if ?b then _ else _] => destruct b eqn:? end;
    try reflexivity; try (destruct (read_clock _); reflexivity); try (destruct (read_rand _ _ _); reflexivity);
    try (destruct (c_stdin c); reflexivity); try lia.
  all: try (destruct (read_clock (c_wall c)); reflexivity).
  all: destruct (poll_result _ _) as [[e out] sl]; reflexivity.
Qed.

Lemma step_mono c k : c_mono (fst (wasi_step R c k)) =
  if reads_mono k then snd (read_clock (c_mono c)) else c_mono c.
Proof.
  destruct k; cbn [wasi_step reads_mono];
    repeat match goal with |- context [if ?b then _ else _] => destruct b eqn:? end;
    try reflexivity; try (destruct (read_clock _); reflexivity); try (destruct (read_rand _ _ _); reflexivity);
    try (destruct (c_stdin c); reflexivity); try lia.
  all: try (destruct (read_clock (c_mono c)); reflexivity).
  all: try (unfold ClockIDRealtime, ClockIDMonotonic in *; lia).
  all: destruct (poll_result _ _) as [[e out] sl]; reflexivity.
Qed.

Lemma ms_val : ms = 1000000. Proof. reflexivity. Qed.

Lemma count_cons f k r : count f (k :: r) = (if f k then 1 else 0) + count f r.
Proof. unfold count. cbn [filter]. destruct (f k); cbn [length]; lia. Qed.

Lemma count_nonneg f ks : 0 <= count f ks. Proof. unfold count. lia. Qed.

Lemma wall_after ks : forall c t, c_wall c = FakeClock t -> 0 <= t -> t + count reads_wall ks * ms < 2 ^ 63 ->
  c_wall (final R c ks) = FakeClock (t + count reads_wall ks * ms).
Proof.
  induction ks as [|k r IH]; intros c t Hc Ht Hb.
  - cbn. rewrite Hc. f_equal. unfold count. cbn. lia.
  - unfold final in *. cbn [fold_left]. rewrite count_cons in *. pose proof (count_nonneg reads_wall r) as Hn. rewrite ms_val in *.
    pose proof (step_wall c k) as Hs. rewrite Hc in Hs. cbn [read_clock snd] in Hs.
    destruct (reads_wall k).
    + rewrite (IH _ (t + 1000000)); [f_equal; lia| |lia|lia].
      rewrite Hs. f_equal. rewrite ms_val. apply swrap_small; [lia|]. unfold in_s. change (2 ^ (64 - 1)) with (2 ^ 63). lia.
    + rewrite (IH _ t); [f_equal; lia|exact Hs|lia|lia].
Qed.

Lemma mono_after ks : forall c t, c_mono c = FakeClock t -> 0 <= t -> t + count reads_mono ks * ms < 2 ^ 63 ->
  c_mono (final R c ks) = FakeClock (t + count reads_mono ks * ms).
Proof.
  induction ks as [|k r IH]; intros c t Hc Ht Hb.
  - cbn. rewrite Hc. f_equal. unfold count. cbn. lia.
  - unfold final in *. cbn [fold_left]. rewrite count_cons in *. pose proof (count_nonneg reads_mono r) as Hn. rewrite ms_val in *.
    pose proof (step_mono c k) as Hs. rewrite Hc in Hs. cbn [read_clock snd] in Hs.
    destruct (reads_mono k).
    + rewrite (IH _ (t + 1000000)); [f_equal; lia| |lia|lia].
      rewrite Hs. f_equal. rewrite ms_val. apply swrap_small; [lia|]. unfold in_s. change (2 ^ (64 - 1)) with (2 ^ 63). lia.
    + rewrite (IH _ t); [f_equal; lia|exact Hs|lia|lia].
Qed.

(* after any calls of which kw read the wall clock and km the monotonic clock, the next readings are
   epoch + kw ms and km ms (2022-01-01T00:00:00Z = 1640995200 s) *)
Lemma clock_values ks p :
  let c := final R default_ctx ks in
  let kw := count reads_wall ks in let km := count reads_mono ks in
  fake_epoch + kw * ms < 2 ^ 63 -> km * ms < 2 ^ 63 ->
  snd (wasi_step R c (ClockTimeGet ClockIDRealtime p)) = (0, le_bytes 8 (1640995200 * 10 ^ 9 + kw * 10 ^ 6)) /\
  snd (wasi_step R c (ClockTimeGet ClockIDMonotonic p)) = (0, le_bytes 8 (km * 10 ^ 6)).
Proof.
  cbv zeta. intros Hw Hm.
  pose proof (wall_after ks default_ctx fake_epoch eq_refl ltac:(unfold fake_epoch, FakeEpochNanos; lia) Hw) as H1.
  pose proof (mono_after ks default_ctx 0 eq_refl ltac:(lia) ltac:(lia)) as H2.
  pose proof (count_nonneg reads_wall ks). pose proof (count_nonneg reads_mono ks).
  cbn [wasi_step]. change (wrap 32 ClockIDRealtime =? ClockIDRealtime) with true.
  change (wrap 32 ClockIDMonotonic =? ClockIDRealtime) with false. change (wrap 32 ClockIDMonotonic =? ClockIDMonotonic) with true.
  cbv beta iota. rewrite H1, H2. cbn [read_clock snd fst].
  rewrite ms_val in *. unfold fake_epoch, FakeEpochNanos in *. change (10 ^ 9) with 1000000000. change (10 ^ 6) with 1000000.
  split; f_equal; f_equal; unfold wrap; rewrite Z.mod_small; lia.
Qed.

End WithStream.

(* ------------------------------------------------------------------------------------------ *)
(* poll_oneoff: the order of the events is fixed by the order of the subscriptions               *)

(* a subscription that is answered after the immediate ones: fd_read on an open descriptor *)
Definition sub_deferred (nf : Z) (s : sub) : bool :=
  match s with SFdRead fd _ => (0 <=? swrap 32 fd) && (swrap 32 fd <? nf) | _ => false end.

(* the event written for a subscription (when the scan meets no error) *)
Definition sub_event (nf : Z) (s : sub) : bytes :=
  match s with
  | SClock _ _ u => poll_event u 0 EventTypeClock
  | SFdRead fd u => poll_event u (if swrap 32 fd <? nf then 0 else ErrnoBadf) EventTypeFdRead
  | SFdWrite fd u => poll_event u (if swrap 32 fd <? nf then ErrnoNotsup else ErrnoBadf) EventTypeFdWrite
  | SOther ty u => poll_event u 0 ty
  end.

Lemma poll_scan_order nf subs : forall now deferred tmo now' deferred' tmo',
  poll_scan nf subs now deferred tmo = inr (now', deferred', tmo') ->
  now' = now ++ map (sub_event nf) (filter (fun s => negb (sub_deferred nf s)) subs) /\
  deferred' = deferred ++ map (sub_event nf) (filter (sub_deferred nf) subs).
Proof.
  induction subs as [|s r IH]; intros now deferred tmo now' deferred' tmo' H; cbn [poll_scan] in H.
  - inversion H; subst. cbn. rewrite !app_nil_r. auto.
  - destruct s as [t fl u|fd u|fd u|ty u]; cbv zeta in H; cbn [filter sub_deferred negb map sub_event].
    + destruct (wrap 16 fl =? 0); [|destruct (wrap 16 fl =? 1); discriminate].
      apply IH in H. destruct H as (H1 & H2). rewrite H1, H2, <- app_assoc. auto.
    + destruct (swrap 32 fd <? 0) eqn:E0; [discriminate|].
      replace (0 <=? swrap 32 fd) with true by lia. cbn [andb].
      destruct (swrap 32 fd <? nf) eqn:E1; cbn [negb map]; apply IH in H; destruct H as (H1 & H2);
        rewrite H1, H2, <- ?app_assoc; cbn [sub_event]; rewrite ?E1; auto.
    + destruct (swrap 32 fd <? 0) eqn:E0; [discriminate|].
      apply IH in H. destruct H as (H1 & H2). rewrite H1, H2, <- app_assoc. auto.
    + discriminate.
Qed.

(* the answer of a successful poll_oneoff: the number of events, then the events of the immediately answered
   subscriptions in subscription order, then those of the deferred ones in subscription order, then zeroes *)
Lemma poll_events_in_subscription_order nf subs out sl :
  poll_result nf subs = (0, out, sl) -> subs <> [] ->
  let evs := map (sub_event nf) (filter (fun s => negb (sub_deferred nf s)) subs) ++
             map (sub_event nf) (filter (sub_deferred nf) subs) in
  length evs = length subs /\
  out = le_bytes 4 (Z.of_nat (length subs)) ++ concat evs ++ repeat 0 (32 * length subs - length (concat evs))%nat.
Proof.
  intros H Hne. cbv zeta. unfold poll_result in H.
  assert (H' : match poll_scan nf subs [] [] (2 ^ 63 - 1) with
               | inl e => (e, [], 0)
               | inr (now, deferred, tmo) =>
                   (0, le_bytes 4 (Z.of_nat (length (now ++ deferred))) ++ concat (now ++ deferred) ++
                       repeat 0 (32 * length subs - length (concat (now ++ deferred)))%nat,
                    match deferred with [] => (if 0 <? tmo then tmo else 0) | _ => 0 end)
               end = (0, out, sl)) by (destruct subs; [congruence|exact H]).
  clear H. rename H' into H.
  destruct (poll_scan nf subs [] [] (2 ^ 63 - 1)) as [e|[[now deferred] tmo]] eqn:E.
  - injection H as He _ _. (* an error errno is never 0 here *)
    exfalso. clear Hne. subst e. revert E. generalize (2 ^ 63 - 1) as t. generalize (@nil bytes) at 1 as a. generalize (@nil bytes) as b.
    induction subs as [|s r IH]; intros b a t E; cbn [poll_scan] in E; [discriminate|].
    destruct s as [t1 fl u|fd u|fd u|ty u]; cbv zeta in E;
      repeat match type of E with context [if ?c then _ else _] => destruct c end;
      try (apply IH in E; exact E); inversion E.
  - apply poll_scan_order in E. destruct E as (E1 & E2). cbn [app] in E1, E2. subst now deferred.
    injection H as Hout _. subst out.
    assert (Hlen : length (map (sub_event nf) (filter (fun s => negb (sub_deferred nf s)) subs) ++
                           map (sub_event nf) (filter (sub_deferred nf) subs)) = length subs).
    { rewrite app_length, !map_length. clear. induction subs as [|s r IH]; [reflexivity|].
      cbn [filter]. destruct (sub_deferred nf s); cbn [negb length]; lia. }
    split; [exact Hlen|]. rewrite Hlen. reflexivity.
Qed.

(* ------------------------------------------------------------------------------------------ *)
(* Examples: non-vacuity                                                                        *)

Definition host_a : host_env := dummy_host.
Definition host_b : host_env :=
  {| h_args := [[98]]; h_environ := []; h_cwd := [47; 98]; h_stdin := [9];
     h_wall := fun k => 1800000000000000000 + 7 * Z.of_nat k; h_mono := fun k => 99 + Z.of_nat k; h_entropy := fun k => 255 - Z.of_nat k mod 256;
     h_dirs := []; h_listeners := 0%nat |}.

(* a configuration that passes the host through (WithArgs(os.Args...), WithSysWalltime, WithRandSource(crypto/rand),
   WithStdin(os.Stdin), WithSysNanosleep, a directory mount): mk_ctx and the traces DO depend on the host *)
Definition host_config : module_config :=
  {| m_args := FromHost; m_environ := FromHost; m_stdin := FromHost; m_stdout := true; m_stderr := false; m_rand := FromHost;
     m_walltime := FromHost; m_walltime_res := 1; m_nanotime := FromHost; m_nanotime_res := 1;
     m_nanosleep := true; m_osyield := true; m_mounts := FromHost; m_listeners := true |}.

Definition ex_calls : list call :=
  [ClockTimeGet 0 0; ClockTimeGet 1 0; ClockTimeGet 0 0; RandomGet 3; ArgsSizesGet; EnvironSizesGet; FdRead 0 2; FdWrite 1 [65];
   PollClock 0 5000 0 7; FdPrestatGet 3; ClockTimeGet 0 0; ClockTimeGet 1 0; SchedYield; PathOpen 3; FdFdstatGet 4].

Definition ex_stream : nat -> Z := fun k => (Z.of_nat k * 37 + 5) mod 256.

Example host_config_depends_on_host :
  match mk_ctx host_config host_a, mk_ctx host_config host_b with
  | Some ca, Some cb => negb (first_diff 0 (trace ex_stream ca ex_calls) (trace ex_stream cb ex_calls) =? -1) = true /\
                        c_emitted (final ex_stream ca ex_calls) = [65] /\ c_slept (final ex_stream ca ex_calls) = 5000
  | _, _ => False
  end.
Proof. vm_compute. splits; reflexivity. Qed.

Example default_trace :
  trace ex_stream default_ctx ex_calls =
  [(0, le_bytes 8 1640995200000000000); (0, le_bytes 8 0); (0, le_bytes 8 1640995200001000000); (0, [5; 42; 79]);
   (0, [0; 0; 0; 0; 0; 0; 0; 0]); (0, [0; 0; 0; 0; 0; 0; 0; 0]); (0, [0; 0; 0; 0]); (0, [1; 0; 0; 0]);
   (0, [1; 0; 0; 0; 7; 0; 0; 0; 0; 0; 0; 0] ++ repeat 0 24); (ErrnoBadf, []); (0, le_bytes 8 1640995200002000000); (0, le_bytes 8 1000000);
   (0, []); (ErrnoBadf, []); (ErrnoBadf, [])].
Proof. vm_compute. reflexivity. Qed.

(* invalid clock resolutions are instantiation errors (only reachable when a clock is configured) *)
Example bad_resolution :
  mk_ctx {| m_args := Unset; m_environ := Unset; m_stdin := Unset; m_stdout := false; m_stderr := false; m_rand := Unset;
            m_walltime := FromHost; m_walltime_res := 0; m_nanotime := Unset; m_nanotime_res := 0;
            m_nanosleep := false; m_osyield := false; m_mounts := Unset; m_listeners := false |} host_a = None.
Proof. reflexivity. Qed.

(* two interleaved default instances *)
Example interleaved :
  let sched := [(0%nat, ClockTimeGet 0 0); (1%nat, ClockTimeGet 0 0); (1%nat, RandomGet 2); (0%nat, RandomGet 2); (0%nat, ClockTimeGet 0 0)] in
  proj 0 (run_multi ex_stream [default_ctx; default_ctx] sched) =
    [(0, le_bytes 8 1640995200000000000); (0, [5; 42]); (0, le_bytes 8 1640995200001000000)] /\
  proj 1 (run_multi ex_stream [default_ctx; default_ctx] sched) = [(0, le_bytes 8 1640995200000000000); (0, [5; 42])].
Proof. vm_compute. split; reflexivity. Qed.

(* three fd_read subscriptions on the three stdio descriptors between two clocks: all five events, clocks first *)
Example poll_three_stdio :
  snd (wasi_step ex_stream default_ctx (Poll [SFdRead 2 12; SClock 5 0 10; SFdRead 0 11; SFdWrite 7 13; SFdRead 1 14])) =
  (0, le_bytes 4 5 ++ poll_event 10 0 0 ++ poll_event 13 ErrnoBadf 2 ++ poll_event 12 0 1 ++ poll_event 11 0 1 ++ poll_event 14 0 1).
Proof. vm_compute. reflexivity. Qed.
