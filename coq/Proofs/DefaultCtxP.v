(* C18: proofs about the default module configuration (coq/Sys/DefaultCtx.v). *)
From Coq Require Import ZifyBool.
From Verif Require Import Lib.GoInt Gen.GenC18Platform Gen.GenC18Sys Gen.GenC18Wasip1 Gen.GenC18Wasi Sys.DefaultCtx.
Open Scope Z_scope.
Ltac Zify.zify_post_hook ::= Z.div_mod_to_equations.
Ltac splits := repeat match goal with |- _ /\ _ => split end.

(* ------------------------------------------------------------------------------------------ *)
(* the default configuration never looks at the host                                           *)

Lemma mk_ctx_default h : mk_ctx default_config h = Some default_ctx.
Proof. reflexivity. Qed.

Lemma default_ignores_host h1 h2 : mk_ctx default_config h1 = mk_ctx default_config h2.
Proof. rewrite !mk_ctx_default. reflexivity. Qed.

Lemma default_hermetic : hermetic default_ctx.
Proof. unfold hermetic, default_ctx; cbn. splits; eauto. Qed.

(* ---- small facts about the descriptor table ---- *)
Definition stdio_fd (fd : Z) : bool := (0 <=? fd) && (fd <? 3).

Lemma forallb_filter {A} (P Q : A -> bool) l : forallb P l = true -> forallb P (filter Q l) = true.
Proof.
  induction l as [|x r IH]; cbn; [auto|]. intros H. apply andb_prop in H. destruct H as (H1 & H2).
  destruct (Q x); cbn; [rewrite H1|]; auto.
Qed.

Lemma fd_in_forallb P fds fd : forallb P fds = true -> fd_in fds fd = true -> P fd = true.
Proof.
  unfold fd_in. induction fds as [|x r IH]; cbn; [discriminate|]. intros H1 H2.
  apply andb_prop in H1. destruct H1 as (Hx & Hr). apply orb_prop in H2. destruct H2 as [E|E].
  - apply Z.eqb_eq in E. subst. exact Hx.
  - auto.
Qed.

Lemma fd_remove_absent fds fd : fd_in fds fd = false -> fd_remove fds fd = fds.
Proof.
  unfold fd_in, fd_remove. induction fds as [|x r IH]; cbn; [auto|]. intros H.
  apply orb_false_elim in H. destruct H as (H1 & H2). rewrite Z.eqb_sym in H1. rewrite H1. cbn. f_equal. auto.
Qed.

Lemma fd_remove_incl fds fd x : In x (fd_remove fds fd) -> In x fds.
Proof. unfold fd_remove. intros H. apply filter_In in H. tauto. Qed.

Lemma fd_in_remove fds fd x : fd_in (fd_remove fds fd) x = fd_in fds x && negb (x =? fd).
Proof.
  unfold fd_in, fd_remove. induction fds as [|y r IH]; cbn; [reflexivity|].
  destruct (y =? fd) eqn:E; cbn.
  - rewrite IH. apply Z.eqb_eq in E. subst y. destruct (x =? fd); cbn; [rewrite andb_false_r; reflexivity|reflexivity].
  - rewrite IH. destruct (x =? y) eqn:E2; cbn; [|reflexivity]. apply Z.eqb_eq in E2. subst y. rewrite E. reflexivity.
Qed.

Section WithStream.
Variable R : nat -> Z.

Lemma on_fd_fst c fd a b : fst (on_fd c fd a b) = c.
Proof. unfold on_fd. destruct (fd_kind c (swrap 32 fd)); reflexivity. Qed.

Lemma at_path_fst c fd p : fst (at_path c fd p) = c.
Proof. unfold at_path. destruct (negb (ascii p)); [reflexivity|]. destruct (negb (path_ok p)); [reflexivity|]. apply on_fd_fst. Qed.

(* toTimes over a fake clock leaves a fake clock *)
Lemma to_times_fake t fl : exists t' e, to_times (FakeClock t) fl = (FakeClock t', e).
Proof.
  unfold to_times. cbv zeta.
  destruct (has (wrap 16 fl) FstflagsAtim && has (wrap 16 fl) FstflagsAtimNow); [eauto|].
  destruct (has (wrap 16 fl) FstflagsAtimNow); cbn [read_clock];
    destruct (has (wrap 16 fl) FstflagsMtim && has (wrap 16 fl) FstflagsMtimNow); eauto;
    match goal with |- context [if ?b then _ else _] => destruct b end; cbn [read_clock snd]; eauto.
Qed.

(* a context that differs from a hermetic one only in the value of a fake clock / the position in the fixed stream /
   a smaller descriptor table is hermetic and has had the same effects on the host *)
Definition same_effects (c c' : ctx) : Prop := c_emitted c' = c_emitted c /\ c_slept c' = c_slept c.

Lemma hermetic_frame c c' :
  hermetic c ->
  c_args c' = c_args c -> c_environ c' = c_environ c -> c_stdin c' = c_stdin c -> c_stdout_host c' = c_stdout_host c ->
  c_stderr_host c' = c_stderr_host c ->
  (c_rand c' = c_rand c \/ exists p, c_rand c' = FakeRand p) ->
  (c_wall c' = c_wall c \/ exists t, c_wall c' = FakeClock t) ->
  (c_mono c' = c_mono c \/ exists t, c_mono c' = FakeClock t) ->
  c_sleep_real c' = c_sleep_real c -> c_yield_real c' = c_yield_real c -> c_preopens c' = c_preopens c ->
  c_listeners c' = c_listeners c ->
  (forall x, In x (c_fds c') -> In x (c_fds c)) ->
  hermetic c'.
Proof.
  intros (Ha & He & Hi & Ho & Hr & Hp & Hw & Hm & Hs & Hy & Hpre & Hl & Hf) E1 E2 E3 E4 E5 E6 E7 E8 E9 E10 E11 E12 E13.
  unfold hermetic. rewrite E1, E2, E3, E4, E5, E9, E10, E11, E12. splits; auto.
  - destruct E6 as [E|E]; [rewrite E|]; auto.
  - destruct E7 as [E|E]; [rewrite E|]; auto.
  - destruct E8 as [E|E]; [rewrite E|]; auto.
  - apply forallb_forall. intros x Hx. rewrite forallb_forall in Hf. auto.
Qed.

Ltac frame_tac H :=
  split; [apply (hermetic_frame _ _ H); cbn; eauto; try tauto; try apply fd_remove_incl|split; reflexivity].

Ltac crunch :=
  repeat (cbn [fst read_clock read_rand andb];
          first
            [ progress rewrite ?on_fd_fst, ?at_path_fst
            | match goal with
              | |- context [to_times (FakeClock ?t) ?fl] => destruct (to_times_fake t fl) as (? & ? & ->)
              | |- context [match fd_kind ?c ?f with _ => _ end] => destruct (fd_kind c f)
              | |- context [let '(_, _) := at_path ?c ?f ?p in _] => destruct (at_path c f p)
              | |- context [poll_result ?a ?b] => destruct (poll_result a b) as [[? ?] ?]
              | |- context [if ?b then _ else _] =>
                  lazymatch b with context [if _ then _ else _] => fail | _ => destruct b eqn:? end
              end ]).

(* every call keeps a hermetic context hermetic and has no effect on the host *)
Lemma step_hermetic c k : hermetic c ->
  hermetic (fst (wasi_step R c k)) /\
  c_emitted (fst (wasi_step R c k)) = c_emitted c /\ c_slept (fst (wasi_step R c k)) = c_slept c.
Proof.
  intros H. unfold wasi_step. destruct (c_exited c) eqn:Ex; [cbn; auto|].
  pose proof H as (Ha & He & Hi & Ho & Hr & (p & Hp) & (tw & Hw) & (tm & Hm) & Hs & Hy & Hpre & Hl & Hf).
  destruct k; cbn [wasi_live]; cbv zeta; rewrite ?Hw, ?Hm, ?Hp, ?Hi, ?Ho, ?Hr, ?Hs; crunch;
    first [solve [splits; auto] | solve [frame_tac H]].
Qed.

Lemma final_hermetic ks : forall c, hermetic c ->
  hermetic (final R c ks) /\ c_emitted (final R c ks) = c_emitted c /\ c_slept (final R c ks) = c_slept c.
Proof.
  induction ks as [|k r IH]; intros c Hc; [cbn; auto|].
  unfold final in *. cbn [fold_left].
  destruct (step_hermetic c k Hc) as (H1 & H2 & H3). destruct (IH _ H1) as (H4 & H5 & H6).
  splits; auto; congruence.
Qed.

(* the complete trace is a function of the call sequence alone: by induction over the calls, two instances
   started under the default configuration on ANY two hosts stay in the same state and answer the same *)
Lemma trace_reproducible ks : forall h1 h2 c1 c2,
  mk_ctx default_config h1 = Some c1 -> mk_ctx default_config h2 = Some c2 ->
  trace R c1 ks = trace R c2 ks /\ final R c1 ks = final R c2 ks.
Proof.
  intros h1 h2 c1 c2 H1 H2. rewrite mk_ctx_default in H1, H2. inversion H1; inversion H2; subst.
  revert ks. generalize default_ctx as c.
  intros c ks; revert c. induction ks as [|k r IH]; intros c; [split; reflexivity|].
  cbn [trace]. unfold final in *. cbn [fold_left]. destruct (wasi_step R c k) as [c' x]. cbn [fst].
  destruct (IH c') as (Ht & Hf). split; [reflexivity|exact Hf].
Qed.

Lemma default_no_host_effects ks :
  c_emitted (final R default_ctx ks) = [] /\ c_slept (final R default_ctx ks) = 0 /\ hermetic (final R default_ctx ks).
Proof. destruct (final_hermetic ks default_ctx default_hermetic) as (H & He & Hs). splits; auto. Qed.

(* ------------------------------------------------------------------------------------------ *)
(* instances are independent: interleaving the calls of several instances changes no instance's trace *)

Lemma set_nth_length {A} (l : list A) n v : length (set_nth l n v) = length l.
Proof. revert n; induction l; intros [|n]; cbn; auto. Qed.

Lemma nth_error_set_nth_same {A} (l : list A) n v : (n < length l)%nat -> nth_error (set_nth l n v) n = Some v.
Proof. revert n; induction l; intros [|n] H; cbn in *; try lia; auto. apply IHl. lia. Qed.

Lemma nth_error_set_nth_other {A} (l : list A) n m v : n <> m -> nth_error (set_nth l n v) m = nth_error l m.
Proof. revert n m; induction l; intros [|n] [|m] H; cbn; auto; try congruence. Qed.

Lemma interleave_proj sched : forall cs i c, nth_error cs i = Some c ->
  proj i (run_multi R cs sched) = trace R c (map snd (filter (fun e => Nat.eqb (fst e) i) sched)).
Proof.
  induction sched as [|[j k] r IH]; intros cs i c Hc; [reflexivity|].
  cbn [run_multi filter fst].
  destruct (Nat.eqb j i) eqn:E.
  - apply Nat.eqb_eq in E. subst j. rewrite Hc. cbn [map snd trace].
    destruct (wasi_step R c k) as [c' x]. unfold proj. cbn [filter fst]. rewrite Nat.eqb_refl. cbn [map snd].
    f_equal. apply IH. apply nth_error_set_nth_same. apply nth_error_Some. congruence.
  - apply Nat.eqb_neq in E.
    destruct (nth_error cs j) as [cj|] eqn:Ej; [|apply IH; exact Hc].
    destruct (wasi_step R cj k) as [c' x]. unfold proj. cbn [filter fst].
    replace (Nat.eqb j i) with false by (symmetry; apply Nat.eqb_neq; exact E).
    apply IH. rewrite nth_error_set_nth_other by exact E. exact Hc.
Qed.

Lemma nth_error_repeat {A} (x : A) n i : (i < n)%nat -> nth_error (repeat x n) i = Some x.
Proof. revert i; induction n; intros [|i] H; cbn; try lia; auto. apply IHn. lia. Qed.

(* every instance starts from the same state whatever the host, and n default instances of one runtime,
   scheduled in any interleaving, each produce the trace they produce alone *)
Lemma fresh_per_instance n sched i h : (i < n)%nat ->
  mk_ctx default_config h = Some default_ctx /\
  proj i (run_multi R (repeat default_ctx n) sched) =
  trace R default_ctx (map snd (filter (fun e => Nat.eqb (fst e) i) sched)).
Proof.
  intros Hi. split; [apply mk_ctx_default|]. apply interleave_proj. apply nth_error_repeat. exact Hi.
Qed.

(* ------------------------------------------------------------------------------------------ *)
(* the descriptor table evolves as a function of the calls alone                                 *)

Lemma fd_kind_open c fd : is_open c fd = match fd_kind c fd with KClosed => false | _ => true end.
Proof.
  unfold fd_kind. destruct (is_open c fd); cbn [negb]; [|reflexivity].
  repeat match goal with
         | |- context [if ?b then _ else _] => destruct b
         | |- context [match c_stdin c with _ => _ end] => destruct (c_stdin c)
         end; reflexivity.
Qed.

(* in a hermetic context every descriptor is closed or one of the no-op stdio files *)
Lemma hermetic_kind c fd : hermetic c -> fd_kind c fd <> KOther.
Proof.
  intros (Ha & He & Hi & Ho & Hr & _ & _ & _ & _ & _ & _ & _ & Hf).
  unfold fd_kind. destruct (is_open c fd) eqn:E; cbn [negb]; [|discriminate].
  pose proof (fd_in_forallb _ _ _ Hf E) as Hs. cbv beta in Hs.
  rewrite Hi, Ho, Hr. unfold FdStdin, FdStdout, FdStderr.
  destruct (fd =? 0) eqn:E0; [discriminate|]. destruct (fd =? 1) eqn:E1; [discriminate|].
  destruct (fd =? 2) eqn:E2; [discriminate|]. lia.
Qed.

Lemma step_tbl c k : hermetic c -> ctx_tbl (fst (wasi_step R c k)) = tbl_step (ctx_tbl c) k.
Proof.
  intros H. unfold wasi_step, ctx_tbl at 2. destruct (c_exited c) eqn:Ex; [unfold ctx_tbl; cbn; rewrite Ex; reflexivity|].
  pose proof H as (Ha & He & Hi & Ho & Hr & (p & Hp) & (tw & Hw) & (tm & Hm) & Hs & Hy & Hpre & Hl & Hf).
  destruct k; cbn [wasi_live tbl_step]; cbv zeta; rewrite ?Hw, ?Hm, ?Hp, ?Hi, ?Ho, ?Hr, ?Hs;
    try solve [crunch; unfold ctx_tbl; cbn; rewrite ?Ex; reflexivity].
  (* fd_close *)
  pose proof (fd_kind_open c (swrap 32 fd)) as Ho'. pose proof (hermetic_kind c (swrap 32 fd) H) as Hk.
  destruct (fd_kind c (swrap 32 fd)); try congruence; unfold ctx_tbl; cbn; rewrite ?Ex; try reflexivity.
  rewrite fd_remove_absent; [reflexivity|exact Ho'].
Qed.

Lemma final_tbl ks : forall c, hermetic c -> ctx_tbl (final R c ks) = fold_left tbl_step ks (ctx_tbl c).
Proof.
  induction ks as [|k r IH]; intros c Hc; [reflexivity|].
  unfold final in *. cbn [fold_left]. destruct (step_hermetic c k Hc) as (H1 & _).
  rewrite IH by exact H1. rewrite step_tbl by exact Hc. reflexivity.
Qed.

(* the table never gains a descriptor: a closed descriptor stays closed, nothing of the host is ever opened *)
Lemma tbl_monotone ks : forall l fds, fold_left tbl_step ks (Some l) = Some fds -> forall x, In x fds -> In x l.
Proof.
  induction ks as [|k r IH]; intros l fds H x Hx; cbn [fold_left] in H; [injection H as <-; exact Hx|].
  assert (Hn : forall r0, fold_left tbl_step r0 None = None) by (induction r0; cbn; auto).
  destruct k; cbn [tbl_step] in H; try (eapply IH; eassumption).
  - eapply fd_remove_incl. eapply IH; eassumption.
  - rewrite Hn in H. discriminate.
Qed.

Lemma table_function_of_calls ks :
  ctx_tbl (final R default_ctx ks) = tbl_after ks /\
  (forall fds, tbl_after ks = Some fds -> forall x, In x fds -> x = 0 \/ x = 1 \/ x = 2) /\
  (forall ks' fds fds', tbl_after ks = Some fds -> tbl_after (ks ++ ks') = Some fds' -> forall x, In x fds' -> In x fds).
Proof.
  splits.
  - apply (final_tbl ks default_ctx default_hermetic).
  - intros fds H x Hx. pose proof (tbl_monotone ks _ _ H x Hx) as Hi. cbn in Hi. intuition lia.
  - intros ks' fds fds' H1 H2 x Hx. unfold tbl_after in *. rewrite fold_left_app, H1 in H2.
    eapply tbl_monotone; eassumption.
Qed.

(* ------------------------------------------------------------------------------------------ *)
(* no call of a hermetic context falls outside the model                                        *)

Lemma to_times_errno w fl : snd (to_times w fl) = 0 \/ snd (to_times w fl) = ErrnoInval.
Proof.
  unfold to_times. cbv zeta.
  destruct (has (wrap 16 fl) FstflagsAtim && has (wrap 16 fl) FstflagsAtimNow); [auto|].
  destruct (if has (wrap 16 fl) FstflagsAtimNow then read_clock w else (0, w)) as [now w1].
  destruct (has (wrap 16 fl) FstflagsMtim && has (wrap 16 fl) FstflagsMtimNow); [auto|].
  destruct (has (wrap 16 fl) FstflagsMtimNow && (now =? 0)); auto.
Qed.

Lemma poll_scan_errno opn subs : forall now deferred tmo e, poll_scan opn subs now deferred tmo = inl e -> 0 < e.
Proof.
  induction subs as [|s r IH]; intros now deferred tmo e H; cbn [poll_scan] in H; [discriminate|].
  destruct s as [t fl u|fd u|fd u|ty u]; cbv zeta in H;
    repeat match type of H with context [if ?c then _ else _] => destruct c end;
    try (eapply IH; eassumption); injection H as <-; reflexivity.
Qed.

Lemma poll_result_errno opn subs : 0 <= fst (fst (poll_result opn subs)).
Proof.
  unfold poll_result. destruct subs as [|s r]; [cbn; unfold ErrnoInval; lia|].
  destruct (poll_scan opn (s :: r) [] [] (2 ^ 63 - 1)) as [e|[[now deferred] tmo]] eqn:E.
  - apply poll_scan_errno in E. cbn. lia.
  - destruct deferred; [cbn; lia|]. destruct (opn FdStdin); cbn; unfold ErrnoBadf; lia.
Qed.

Ltac errno_leaf :=
  first [ solve [cbn [fst snd]; unfold bad, unmodelled, res_unmodelled, res_exit, res_closed, ErrnoBadf, ErrnoInval, ErrnoNotsup,
                   ErrnoNotdir, ErrnoNosys, ErrnoNametoolong, ErrnoPerm; cbn [fst snd]; lia]
        | solve [change (0 =? 0) with true; change (ErrnoInval =? 0) with false; cbv iota; cbn [fst snd];
                 unfold res_unmodelled, ErrnoNosys, ErrnoInval; lia] ].

Lemma on_fd_total c fd a b : hermetic c -> fst a <> res_unmodelled -> fst b <> res_unmodelled ->
  fst (snd (on_fd c fd a b)) <> res_unmodelled.
Proof.
  intros H Ha Hb. unfold on_fd. pose proof (hermetic_kind c (swrap 32 fd) H).
  destruct (fd_kind c (swrap 32 fd)); cbn [snd]; congruence.
Qed.

Lemma at_path_total c fd p : hermetic c -> ascii p = true -> fst (snd (at_path c fd p)) <> res_unmodelled.
Proof.
  intros H Hp. unfold at_path. rewrite Hp. cbn [negb]. destruct (negb (path_ok p)); [errno_leaf|].
  apply on_fd_total; [exact H|errno_leaf|errno_leaf].
Qed.

Lemma hermetic_total c k : hermetic c -> ascii_call k = true -> fst (snd (wasi_step R c k)) <> res_unmodelled.
Proof.
  intros H Hk. unfold wasi_step. destruct (c_exited c) eqn:Ex; [errno_leaf|].
  pose proof H as (Ha & He & Hi & Ho & Hr & (p & Hp) & (tw & Hw) & (tm & Hm) & Hs & Hy & Hpre & Hl & Hf).
  assert (Hopen : forall fd, is_open c fd = true -> (fd =? 0) || ((fd =? 1) || (fd =? 2)) = true).
  { intros fd E. pose proof (fd_in_forallb _ _ _ Hf E) as X. cbv beta in X. lia. }
  destruct k; cbn [wasi_live ascii_call] in *; cbv zeta; rewrite ?Hw, ?Hm, ?Hp, ?Hi, ?Ho, ?Hr, ?Hs, ?Hpre;
    cbn [read_clock read_rand];
    try solve [ errno_leaf
              | apply at_path_total; assumption
              | apply on_fd_total; [exact H| |]; repeat match goal with |- context [if ?b then _ else _] => destruct b end; errno_leaf
              | repeat match goal with |- context [if ?b then _ else _] => destruct b end;
                first [errno_leaf | apply at_path_total; assumption | apply on_fd_total; [exact H|errno_leaf|errno_leaf]] ].
  - (* fd_read *)
    unfold FdStdin, FdStdout, FdStderr. destruct (is_open c (swrap 32 fd)) eqn:E; cbn [negb]; [|errno_leaf].
    apply Hopen in E. destruct (swrap 32 fd =? 0); [errno_leaf|]. cbn [orb] in E. rewrite E.
    destruct (all_zero lens); errno_leaf.
  - (* fd_write *)
    unfold FdStdin, FdStdout, FdStderr. destruct (is_open c (swrap 32 fd)) eqn:E; cbn [negb]; [|errno_leaf].
    apply Hopen in E. destruct (swrap 32 fd =? 0); [destruct chunks; errno_leaf|]. cbn [orb] in E. rewrite E. errno_leaf.
  - (* fd_filestat_set_times *)
    pose proof (hermetic_kind c (swrap 32 fd) H). pose proof (to_times_errno (FakeClock tw) fstflags) as Ht.
    destruct (fd_kind c (swrap 32 fd)); try congruence; try errno_leaf;
      destruct (to_times (FakeClock tw) fstflags) as [w e]; cbn [snd] in Ht; destruct Ht as [->| ->]; errno_leaf.
  - (* fd_close *)
    pose proof (hermetic_kind c (swrap 32 fd) H). destruct (fd_kind c (swrap 32 fd)); try congruence; errno_leaf.
  - (* poll_oneoff *)
    pose proof (poll_result_errno (is_open c) subs) as Hp0. destruct (poll_result (is_open c) subs) as [[e out] sl].
    cbn [fst snd] in *. unfold res_unmodelled. lia.
  - (* path_filestat_set_times *)
    pose proof (to_times_errno (FakeClock tw) fstflags) as Ht.
    destruct (to_times (FakeClock tw) fstflags) as [w e]; cbn [snd] in Ht; destruct Ht as [->| ->].
    + change (0 =? 0) with true. cbv iota. pose proof (at_path_total c fd path H Hk) as Ha'.
      destruct (at_path c fd path) as [c' r]. exact Ha'.
    + errno_leaf.
Qed.

(* whatever a default instance has done before, its next call is answered by the model proper *)
Lemma default_total ks k : ascii_call k = true ->
  fst (snd (wasi_step R (final R default_ctx ks) k)) <> res_unmodelled.
Proof. intros Hk. apply hermetic_total; [|exact Hk]. apply (final_hermetic ks default_ctx default_hermetic). Qed.

(* ------------------------------------------------------------------------------------------ *)
(* the k-th reading of each clock                                                               *)

Lemma to_times_reads t fl : t <> 0 ->
  fst (to_times (FakeClock t) fl) = if times_reads fl then FakeClock (swrap 64 (t + ms)) else FakeClock t.
Proof.
  intros Hne. apply Z.eqb_neq in Hne. unfold to_times, times_reads. cbv zeta.
  destruct (has (wrap 16 fl) FstflagsAtim), (has (wrap 16 fl) FstflagsAtimNow), (has (wrap 16 fl) FstflagsMtim),
    (has (wrap 16 fl) FstflagsMtimNow); cbn [andb read_clock fst snd]; rewrite ?Hne; cbn [andb fst snd read_clock]; reflexivity.
Qed.

Lemma step_wall c k t : hermetic c -> c_wall c = FakeClock t -> t <> 0 ->
  c_wall (fst (wasi_step R c k)) = if reads_wall (ctx_tbl c) k then FakeClock (swrap 64 (t + ms)) else FakeClock t.
Proof.
  intros H Hw Hne. unfold wasi_step, ctx_tbl. destruct (c_exited c) eqn:Ex; [cbn; exact Hw|].
  pose proof H as (Ha & He & Hi & Ho & Hr & (p & Hp) & _ & (tm & Hm) & Hs & Hy & Hpre & Hl & Hf).
  destruct k; cbn [wasi_live reads_wall]; cbv zeta; rewrite ?Hw, ?Hm, ?Hp, ?Hi, ?Ho, ?Hr, ?Hs;
    try solve [crunch; cbn; rewrite ?Hw; reflexivity].
  - (* fd_filestat_set_times *)
    pose proof (fd_kind_open c (swrap 32 fd)) as Ho'. pose proof (hermetic_kind c (swrap 32 fd) H) as Hk.
    pose proof (to_times_reads t fstflags Hne) as Ht. unfold is_open in Ho'.
    destruct (fd_kind c (swrap 32 fd)); try congruence; rewrite Ho'; cbn [andb fst]; try exact Hw;
      destruct (to_times (FakeClock t) fstflags) as [w e]; cbn [fst] in *; cbn; exact Ht.
  - (* path_filestat_set_times *)
    pose proof (to_times_reads t fstflags Hne) as Ht.
    destruct (to_times (FakeClock t) fstflags) as [w e]; cbn [fst] in Ht.
    destruct (e =? 0); [destruct (at_path c fd path)|]; cbn; exact Ht.
Qed.

Lemma step_mono c k t : hermetic c -> c_mono c = FakeClock t ->
  c_mono (fst (wasi_step R c k)) = if reads_mono (ctx_tbl c) k then FakeClock (swrap 64 (t + ms)) else FakeClock t.
Proof.
  intros H Hm. unfold wasi_step, ctx_tbl. destruct (c_exited c) eqn:Ex; [cbn; exact Hm|].
  pose proof H as (Ha & He & Hi & Ho & Hr & (p & Hp) & (tw & Hw) & _ & Hs & Hy & Hpre & Hl & Hf).
  destruct k; cbn [wasi_live reads_mono]; cbv zeta; rewrite ?Hw, ?Hm, ?Hp, ?Hi, ?Ho, ?Hr, ?Hs;
    try solve [crunch; cbn; rewrite ?Hm; first [reflexivity | unfold ClockIDRealtime, ClockIDMonotonic in *; lia]].
Qed.

Lemma ms_val : ms = 1000000. Proof. reflexivity. Qed.

Lemma count_nonneg f ks : forall t, 0 <= count f t ks.
Proof. induction ks as [|k r IH]; intros t; cbn [count]; [lia|]. specialize (IH (tbl_step t k)). destruct (f t k); lia. Qed.

Lemma wall_after ks : forall c t, hermetic c -> c_wall c = FakeClock t -> 0 < t ->
  t + count reads_wall (ctx_tbl c) ks * ms < 2 ^ 63 ->
  c_wall (final R c ks) = FakeClock (t + count reads_wall (ctx_tbl c) ks * ms).
Proof.
  induction ks as [|k r IH]; intros c t H Hc Ht Hb.
  - cbn. rewrite Hc. f_equal. lia.
  - unfold final in *. cbn [fold_left]. cbn [count] in *.
    pose proof (count_nonneg reads_wall r (tbl_step (ctx_tbl c) k)) as Hn. rewrite ms_val in *.
    pose proof (step_wall c k t H Hc ltac:(lia)) as Hs. destruct (step_hermetic c k H) as (H' & _).
    rewrite <- (step_tbl c k H) in *.
    destruct (reads_wall (ctx_tbl c) k).
    + rewrite (IH _ (t + 1000000)); [f_equal; lia|exact H'| |lia|lia].
      rewrite Hs. f_equal. rewrite ms_val. apply swrap_small; [lia|]. unfold in_s. change (2 ^ (64 - 1)) with (2 ^ 63). lia.
    + rewrite (IH _ t); [f_equal; lia|exact H'|exact Hs|lia|lia].
Qed.

Lemma mono_after ks : forall c t, hermetic c -> c_mono c = FakeClock t -> 0 <= t ->
  t + count reads_mono (ctx_tbl c) ks * ms < 2 ^ 63 ->
  c_mono (final R c ks) = FakeClock (t + count reads_mono (ctx_tbl c) ks * ms).
Proof.
  induction ks as [|k r IH]; intros c t H Hc Ht Hb.
  - cbn. rewrite Hc. f_equal. lia.
  - unfold final in *. cbn [fold_left]. cbn [count] in *.
    pose proof (count_nonneg reads_mono r (tbl_step (ctx_tbl c) k)) as Hn. rewrite ms_val in *.
    pose proof (step_mono c k t H Hc) as Hs. destruct (step_hermetic c k H) as (H' & _).
    rewrite <- (step_tbl c k H) in *.
    destruct (reads_mono (ctx_tbl c) k).
    + rewrite (IH _ (t + 1000000)); [f_equal; lia|exact H'| |lia|lia].
      rewrite Hs. f_equal. rewrite ms_val. apply swrap_small; [lia|]. unfold in_s. change (2 ^ (64 - 1)) with (2 ^ 63). lia.
    + rewrite (IH _ t); [f_equal; lia|exact H'|exact Hs|lia|lia].
Qed.

(* after any calls (the instance not having exited) of which kw read the wall clock and km the monotonic clock, the
   next readings are epoch + kw ms and km ms (2022-01-01T00:00:00Z = 1640995200 s).  Readings are made by
   clock_time_get and by fd/path_filestat_set_times with a "now" flag; whether the latter reads depends on the
   descriptor being open, i.e. on the earlier fd_close calls: [count] threads the table through the calls. *)
Lemma clock_values ks p :
  let c := final R default_ctx ks in
  let kw := count reads_wall (Some [0; 1; 2]) ks in let km := count reads_mono (Some [0; 1; 2]) ks in
  tbl_after ks <> None ->
  fake_epoch + kw * ms < 2 ^ 63 -> km * ms < 2 ^ 63 ->
  snd (wasi_step R c (ClockTimeGet ClockIDRealtime p)) = (0, le_bytes 8 (1640995200 * 10 ^ 9 + kw * 10 ^ 6)) /\
  snd (wasi_step R c (ClockTimeGet ClockIDMonotonic p)) = (0, le_bytes 8 (km * 10 ^ 6)).
Proof.
  cbv zeta. intros Hx Hw Hm.
  pose proof (wall_after ks default_ctx fake_epoch default_hermetic eq_refl ltac:(unfold fake_epoch, FakeEpochNanos; lia) Hw) as H1.
  pose proof (mono_after ks default_ctx 0 default_hermetic eq_refl ltac:(lia) ltac:(change (ctx_tbl default_ctx) with (Some [0; 1; 2]); lia)) as H2.
  change (ctx_tbl default_ctx) with (Some [0; 1; 2]) in *.
  pose proof (count_nonneg reads_wall ks (Some [0; 1; 2])). pose proof (count_nonneg reads_mono ks (Some [0; 1; 2])).
  destruct (table_function_of_calls ks) as (Ht & _). rewrite <- Ht in Hx. unfold ctx_tbl in Hx.
  unfold wasi_step. destruct (c_exited (final R default_ctx ks)); [congruence|].
  cbn [wasi_live]. change (wrap 32 ClockIDRealtime =? ClockIDRealtime) with true.
  change (wrap 32 ClockIDMonotonic =? ClockIDRealtime) with false. change (wrap 32 ClockIDMonotonic =? ClockIDMonotonic) with true.
  cbv beta iota zeta. rewrite H1, H2. cbn [read_clock snd fst].
  rewrite ms_val in *. unfold fake_epoch, FakeEpochNanos in *. change (10 ^ 9) with 1000000000. change (10 ^ 6) with 1000000.
  split; f_equal; f_equal; unfold wrap; rewrite Z.mod_small; lia.
Qed.

End WithStream.

(* ------------------------------------------------------------------------------------------ *)
(* poll_oneoff: the order of the events is fixed by the order of the subscriptions               *)

(* a subscription that is answered after the immediate ones: fd_read on an open descriptor *)
Definition sub_deferred (opn : Z -> bool) (s : sub) : bool :=
  match s with SFdRead fd _ => (0 <=? swrap 32 fd) && opn (swrap 32 fd) | _ => false end.

(* the event written for a subscription (when the scan meets no error) *)
Definition sub_event (opn : Z -> bool) (s : sub) : bytes :=
  match s with
  | SClock _ _ u => poll_event u 0 EventTypeClock
  | SFdRead fd u => poll_event u (if opn (swrap 32 fd) then 0 else ErrnoBadf) EventTypeFdRead
  | SFdWrite fd u => poll_event u (if opn (swrap 32 fd) then ErrnoNotsup else ErrnoBadf) EventTypeFdWrite
  | SOther ty u => poll_event u 0 ty
  end.

Lemma poll_scan_order opn subs : forall now deferred tmo now' deferred' tmo',
  poll_scan opn subs now deferred tmo = inr (now', deferred', tmo') ->
  now' = now ++ map (sub_event opn) (filter (fun s => negb (sub_deferred opn s)) subs) /\
  deferred' = deferred ++ map (sub_event opn) (filter (sub_deferred opn) subs).
Proof.
  induction subs as [|s r IH]; intros now deferred tmo now' deferred' tmo' H; cbn [poll_scan] in H.
  - inversion H; subst. cbn. rewrite !app_nil_r. auto.
  - destruct s as [t fl u|fd u|fd u|ty u]; cbv zeta in H; cbn [filter sub_deferred negb map sub_event].
    + destruct (wrap 16 fl =? 0); [|destruct (wrap 16 fl =? 1); discriminate].
      apply IH in H. destruct H as (H1 & H2). rewrite H1, H2, <- app_assoc. auto.
    + destruct (swrap 32 fd <? 0) eqn:E0; [discriminate|].
      replace (0 <=? swrap 32 fd) with true by lia. cbn [andb].
      destruct (opn (swrap 32 fd)) eqn:E1; cbn [negb map]; apply IH in H; destruct H as (H1 & H2);
        rewrite H1, H2, <- ?app_assoc; cbn [sub_event]; rewrite ?E1; auto.
    + destruct (swrap 32 fd <? 0) eqn:E0; [discriminate|].
      apply IH in H. destruct H as (H1 & H2). rewrite H1, H2, <- app_assoc. auto.
    + discriminate.
Qed.

(* the answer of a successful poll_oneoff: the number of events, then the events of the immediately answered
   subscriptions in subscription order, then those of the deferred ones in subscription order, then zeroes *)
Lemma poll_events_in_subscription_order opn subs out sl :
  poll_result opn subs = (0, out, sl) -> subs <> [] ->
  let evs := map (sub_event opn) (filter (fun s => negb (sub_deferred opn s)) subs) ++
             map (sub_event opn) (filter (sub_deferred opn) subs) in
  length evs = length subs /\
  out = le_bytes 4 (Z.of_nat (length subs)) ++ concat evs ++ repeat 0 (32 * length subs - length (concat evs))%nat.
Proof.
  intros H Hne. cbv zeta. unfold poll_result in H.
  assert (H' : match poll_scan opn subs [] [] (2 ^ 63 - 1) with
               | inl e => (e, [], 0)
               | inr (now, deferred, tmo) =>
                   match deferred with
                   | [] => (0, le_bytes 4 (Z.of_nat (length (now ++ deferred))) ++ concat (now ++ deferred) ++
                               repeat 0 (32 * length subs - length (concat (now ++ deferred)))%nat,
                            if existsb is_clock_sub subs && (0 <? tmo) then tmo else 0)
                   | _ => if opn FdStdin
                          then (0, le_bytes 4 (Z.of_nat (length (now ++ deferred))) ++ concat (now ++ deferred) ++
                                   repeat 0 (32 * length subs - length (concat (now ++ deferred)))%nat, 0)
                          else (ErrnoBadf, [], 0)
                   end
               end = (0, out, sl)) by (destruct subs; [congruence|exact H]).
  clear H. rename H' into H.
  destruct (poll_scan opn subs [] [] (2 ^ 63 - 1)) as [e|[[now deferred] tmo]] eqn:E.
  - apply poll_scan_errno in E. injection H as He _ _. lia.
  - apply poll_scan_order in E. destruct E as (E1 & E2). cbn [app] in E1, E2.
    assert (Hout : out = le_bytes 4 (Z.of_nat (length (now ++ deferred))) ++ concat (now ++ deferred) ++
                         repeat 0 (32 * length subs - length (concat (now ++ deferred)))%nat).
    { destruct deferred; [injection H as <- _; reflexivity|].
      destruct (opn FdStdin); [injection H as <- _; reflexivity|]. injection H as He _ _. unfold ErrnoBadf in He. lia. }
    clear H. subst now deferred out.
    assert (Hlen : length (map (sub_event opn) (filter (fun s => negb (sub_deferred opn s)) subs) ++
                           map (sub_event opn) (filter (sub_deferred opn) subs)) = length subs).
    { rewrite app_length, !map_length. clear. induction subs as [|s r IH]; [reflexivity|].
      cbn [filter]. destruct (sub_deferred opn s); cbn [negb length]; lia. }
    split; [exact Hlen|]. rewrite Hlen. reflexivity.
Qed.

(* when a read subscription on an open descriptor must wait for stdin and stdin itself has been closed, the whole
   call fails: the events are a function of the subscriptions and the descriptor table alone *)
Lemma poll_stdin_closed opn subs :
  opn FdStdin = false -> existsb (sub_deferred opn) subs = true ->
  fst (fst (poll_result opn subs)) <> 0.
Proof.
  intros Hc Hd. unfold poll_result. destruct subs as [|s0 r0]; [discriminate|]. set (subs := s0 :: r0) in *.
  destruct (poll_scan opn subs [] [] (2 ^ 63 - 1)) as [e|[[now deferred] tmo]] eqn:E.
  - apply poll_scan_errno in E. cbn. lia.
  - apply poll_scan_order in E. destruct E as (_ & E2). cbn [app] in E2.
    destruct deferred as [|d dr].
    + exfalso. clear - E2 Hd. induction subs as [|s r IH]; [discriminate|].
      cbn [filter existsb] in *. destruct (sub_deferred opn s); [discriminate|]. auto.
    + rewrite Hc. cbn. unfold ErrnoBadf. lia.
Qed.

(* ------------------------------------------------------------------------------------------ *)
(* Examples: non-vacuity                                                                        *)

Definition host_a : host_env := dummy_host.
Definition host_b : host_env :=
  {| h_args := [[98]]; h_environ := []; h_cwd := [47; 98]; h_stdin := [9];
     h_wall := fun k => 1800000000000000000 + 7 * Z.of_nat k; h_mono := fun k => 99 + Z.of_nat k; h_entropy := fun k => 255 - Z.of_nat k mod 256;
     h_dirs := []; h_listeners := 0%nat |}.

(* a configuration that passes the host through (WithArgs(os.Args...), WithSysWalltime, WithRandSource(crypto/rand),
   WithStdin(os.Stdin), WithSysNanosleep, a directory mount): mk_ctx and the traces DO depend on the host *)
Definition host_config : module_config :=
  {| m_args := FromHost; m_environ := FromHost; m_stdin := FromHost; m_stdout := true; m_stderr := false; m_rand := FromHost;
     m_walltime := FromHost; m_walltime_res := 1; m_nanotime := FromHost; m_nanotime_res := 1;
     m_nanosleep := true; m_osyield := true; m_mounts := FromHost; m_listeners := true |}.

Definition ex_calls : list call :=
  [ClockTimeGet 0 0; ClockTimeGet 1 0; ClockTimeGet 0 0; RandomGet 3; ArgsSizesGet; EnvironSizesGet; FdRead 0 [2%nat]; FdWrite 1 [[65]];
   PollClock 0 5000 0 7; FdPrestatGet 3; ClockTimeGet 0 0; ClockTimeGet 1 0; SchedYield; PathOpen 3 [120]; FdFdstatGet 4].

Definition ex_stream : nat -> Z := fun k => (Z.of_nat k * 37 + 5) mod 256.

Example host_config_depends_on_host :
  match mk_ctx host_config host_a, mk_ctx host_config host_b with
  | Some ca, Some cb => negb (first_diff 0 (trace ex_stream ca ex_calls) (trace ex_stream cb ex_calls) =? -1) = true /\
                        c_emitted (final ex_stream ca ex_calls) = [65] /\ c_slept (final ex_stream ca ex_calls) = 5000
  | _, _ => False
  end.
Proof. vm_compute. splits; reflexivity. Qed.

Example default_trace :
  trace ex_stream default_ctx ex_calls =
  [(0, le_bytes 8 1640995200000000000); (0, le_bytes 8 0); (0, le_bytes 8 1640995200001000000); (0, [5; 42; 79]);
   (0, [0; 0; 0; 0; 0; 0; 0; 0]); (0, [0; 0; 0; 0; 0; 0; 0; 0]); (0, [0; 0; 0; 0]); (0, [1; 0; 0; 0]);
   (0, [1; 0; 0; 0; 7; 0; 0; 0; 0; 0; 0; 0] ++ repeat 0 24); (ErrnoBadf, []); (0, le_bytes 8 1640995200002000000); (0, le_bytes 8 1000000);
   (0, []); (ErrnoBadf, []); (ErrnoBadf, [])].
Proof. vm_compute. reflexivity. Qed.

(* invalid clock resolutions are instantiation errors (only reachable when a clock is configured) *)
Example bad_resolution :
  mk_ctx {| m_args := Unset; m_environ := Unset; m_stdin := Unset; m_stdout := false; m_stderr := false; m_rand := Unset;
            m_walltime := FromHost; m_walltime_res := 0; m_nanotime := Unset; m_nanotime_res := 0;
            m_nanosleep := false; m_osyield := false; m_mounts := Unset; m_listeners := false |} host_a = None.
Proof. reflexivity. Qed.

(* two interleaved default instances *)
Example interleaved :
  let sched := [(0%nat, ClockTimeGet 0 0); (1%nat, ClockTimeGet 0 0); (1%nat, RandomGet 2); (0%nat, RandomGet 2); (0%nat, ClockTimeGet 0 0)] in
  proj 0 (run_multi ex_stream [default_ctx; default_ctx] sched) =
    [(0, le_bytes 8 1640995200000000000); (0, [5; 42]); (0, le_bytes 8 1640995200001000000)] /\
  proj 1 (run_multi ex_stream [default_ctx; default_ctx] sched) = [(0, le_bytes 8 1640995200000000000); (0, [5; 42])].
Proof. vm_compute. split; reflexivity. Qed.

(* three fd_read subscriptions on the three stdio descriptors between two clocks: all five events, clocks first *)
Example poll_three_stdio :
  snd (wasi_step ex_stream default_ctx (Poll [SFdRead 2 12; SClock 5 0 10; SFdRead 0 11; SFdWrite 7 13; SFdRead 1 14])) =
  (0, le_bytes 4 5 ++ poll_event 10 0 0 ++ poll_event 13 ErrnoBadf 2 ++ poll_event 12 0 1 ++ poll_event 11 0 1 ++ poll_event 14 0 1).
Proof. vm_compute. reflexivity. Qed.

(* the descriptor table at work: stdout is inspected, closed, used again (EBADF), cannot be re-created by renumbering;
   a read subscription on the still open stderr needs stdin and fails once stdin is closed; "now" timestamps read the
   fake wall clock exactly when the descriptor is open; paths are refused (climbing out: EPERM, stdio: ENOTDIR, closed:
   EBADF); after proc_exit every call is refused with the exit code *)
Definition ex_fd_calls : list call :=
  [FdFilestatGet 1; FdClose 1; FdFilestatGet 1; FdWrite 1 [[65]]; FdClose 1; FdRenumber 0 1; FdRenumber 2 5;
   Poll [SFdRead 2 9]; FdClose 0; Poll [SFdRead 2 9]; Poll [SFdRead 0 9];
   FdFilestatSetTimes 2 0 0 2; ClockTimeGet 0 0; FdFilestatSetTimes 1 0 0 2; ClockTimeGet 0 0;
   PathOpen 2 [46; 46]; PathOpen 2 [97]; PathOpen 1 [97]; FdSeek 2 0 0; FdPread 2 [0%nat] 0; FdPread 2 [1%nat] 0;
   SockAccept 2 0; ProcRaise 1; ProcExit 7; ClockTimeGet 0 0].

Example default_fd_trace :
  trace ex_stream default_ctx ex_fd_calls =
  [(0, stdio_filestat); (0, []); (ErrnoBadf, []); (ErrnoBadf, []); (ErrnoBadf, []); (ErrnoNotsup, []); (ErrnoNotsup, []);
   (0, le_bytes 4 1 ++ poll_event 9 0 1); (0, []); (ErrnoBadf, []); (0, le_bytes 4 1 ++ poll_event 9 ErrnoBadf 1);
   (ErrnoNosys, []); (0, le_bytes 8 1640995200001000000); (ErrnoBadf, []); (0, le_bytes 8 1640995200002000000);
   (ErrnoPerm, []); (ErrnoNotdir, []); (ErrnoBadf, []); (ErrnoNosys, []); (0, le_bytes 4 0); (ErrnoBadf, []);
   (ErrnoBadf, []); (ErrnoNosys, []); (res_exit, le_bytes 4 7); (res_closed, le_bytes 4 7)] /\
  stdio_filestat = repeat 0 16 ++ [1] ++ repeat 0 7 ++ [1] ++ repeat 0 39 /\
  tbl_after ex_fd_calls = None /\ tbl_after (firstn 23 ex_fd_calls) = Some [2] /\
  count reads_wall (Some [0; 1; 2]) ex_fd_calls = 3.
Proof. vm_compute. splits; reflexivity. Qed.
