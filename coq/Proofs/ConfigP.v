(* C19: proofs about the configuration heap model Rt/Config.v.
   ext h h'   : h is a prefix of h' — every cell that existed before still holds the same value, i.e. only
                cells allocated since were written.
   wf_node    : everything reachable from a configuration lies inside the heap and has the right shape.
   Frame lemmas need no hypothesis at all (any growth function, any heap); well-formedness of the new
   node needs [need <= grow len need]. *)
From Coq Require Import List ZArith Bool Arith Lia.
From Verif Require Import Rt.Config.
Import ListNotations.

Ltac splits := repeat match goal with |- _ /\ _ => split end.
Ltac inv H := inversion H; subst; clear H.

(* ------------------------------------------------------------------------------------------ *)
(* prefix order on heaps *)
Definition ext (h h' : heap) : Prop := exists t, h' = h ++ t.

Lemma ext_refl h : ext h h.
Proof. exists []. now rewrite app_nil_r. Qed.
Lemma ext_trans h1 h2 h3 : ext h1 h2 -> ext h2 h3 -> ext h1 h3.
Proof. intros [t ->] [u ->]. exists (t ++ u). now rewrite app_assoc. Qed.
Lemma ext_len h h' : ext h h' -> length h <= length h'.
Proof. intros [t ->]. rewrite app_length. lia. Qed.
Lemma ext_nth h h' a c : ext h h' -> nth_error h a = Some c -> nth_error h' a = Some c.
Proof.
  intros [t ->] H. rewrite nth_error_app1; [exact H|]. apply nth_error_Some. congruence.
Qed.
Lemma ext_nth_lt h h' a : ext h h' -> a < length h -> nth_error h' a = nth_error h a.
Proof. intros [t ->] H. now rewrite nth_error_app1. Qed.
Lemma ext_app h t : ext h (h ++ t).
Proof. now exists t. Qed.

Lemma alloc_eq h c : alloc h c = (h ++ [c], length h).
Proof. reflexivity. Qed.
Lemma nth_error_new (h : heap) c : nth_error (h ++ [c]) (length h) = Some c.
Proof. rewrite nth_error_app2 by lia. now rewrite Nat.sub_diag. Qed.

Lemma ext_write h0 h a c : ext h0 h -> length h0 <= a -> ext h0 (write h a c).
Proof.
  intros [t ->] Ha. unfold write. rewrite firstn_app, firstn_all2 by exact Ha.
  exists (firstn (a - length h0) t ++ c :: skipn (S a) (h0 ++ t)). now rewrite <- app_assoc.
Qed.
Lemma write_length h a c : a < length h -> length (write h a c) = length h.
Proof.
  intros H. unfold write. rewrite app_length, firstn_length. cbn [length]. rewrite skipn_length. lia.
Qed.
Lemma write_same h a c : a < length h -> nth_error (write h a c) a = Some c.
Proof.
  intros H. unfold write. rewrite nth_error_app2 by (rewrite firstn_length; lia).
  rewrite firstn_length, Nat.min_l by lia. now rewrite Nat.sub_diag.
Qed.
Lemma nth_error_firstn_lt' {A} (l : list A) : forall a b, b < a -> nth_error (firstn a l) b = nth_error l b.
Proof.
  induction l as [|x l IH]; intros a b H; [now rewrite firstn_nil|].
  destruct a; [lia|]. destruct b; [reflexivity|]. cbn. apply IH. lia.
Qed.
Lemma write_other h : forall a c b, a <> b -> a < length h -> nth_error (write h a c) b = nth_error h b.
Proof.
  induction h as [|x h IH]; intros a c b Hne Ha; [cbn in Ha; lia|].
  destruct a as [|a]; destruct b as [|b]; try lia; try reflexivity.
  cbn in Ha. change (write (x :: h) (S a) c) with (x :: write h a c). cbn [nth_error]. apply IH; lia.
Qed.

(* ------------------------------------------------------------------------------------------ *)
(* frame lemmas: no hypotheses on the heap or on the growth function *)
Definition fresh_slice (n : nat) (s : slice) : Prop := (len s = 0 /\ cap s = 0) \/ n <= aid s.

Lemma fresh_nil n : fresh_slice n nil_slice.
Proof. left. split; reflexivity. Qed.

Lemma new_slice_ext h l h' s : new_slice h l = (h', s) -> ext h h' /\ fresh_slice (length h) s.
Proof.
  unfold new_slice. destruct l.
  - intros E. inv E. split; [apply ext_refl | apply fresh_nil].
  - rewrite alloc_eq. intros E. inv E. split; [apply ext_app | right; cbn; lia].
Qed.
Lemma make0_ext h n h' s : make0 h n = (h', s) -> ext h h' /\ fresh_slice (length h) s.
Proof. unfold make0. rewrite alloc_eq. intros E. inv E. split; [apply ext_app | right; cbn; lia]. Qed.

Lemma store_ext h0 h s i v h' : ext h0 h -> fresh_slice (length h0) s -> store h s i v = Some h' -> ext h0 h'.
Proof.
  intros He Hf. unfold store. destruct (i <? len s) eqn:E; [|discriminate].
  apply Nat.ltb_lt in E. intros H. inv H. apply ext_write; [exact He|].
  destruct Hf as [[H0 _]|H]; [lia | exact H].
Qed.

Lemma map_set_ext h0 h m k v : ext h0 h -> length h0 <= m -> ext h0 (map_set h m k v).
Proof. intros. unfold map_set. now apply ext_write. Qed.

Section Frame.
Variable grow : nat -> nat -> nat.

Lemma append_ext h0 h s xs h' s' :
  ext h0 h -> fresh_slice (length h0) s -> append grow h s xs = (h', s') ->
  ext h0 h' /\ fresh_slice (length h0) s'.
Proof.
  intros He Hf. unfold append. destruct xs as [|x xs].
  - intros E. inv E. now split.
  - set (need := len s + length (x :: xs)).
    destruct (need <=? cap s) eqn:Ec.
    + apply Nat.leb_le in Ec. intros E. inv E.
      assert (Ha : length h0 <= aid s).
      { destruct Hf as [[_ H0]|H]; [|exact H]. unfold need in Ec. cbn [length] in Ec. lia. }
      split; [now apply ext_write | right; exact Ha].
    + rewrite alloc_eq. intros E. inv E. split.
      * eapply ext_trans; [exact He | apply ext_app].
      * right. cbn [aid]. now apply ext_len.
Qed.

Lemma mc_clone_ext h0 h c h' r :
  ext h0 h -> mc_clone grow h c = (h', r) ->
  ext h0 h' /\ fresh_slice (length h0) (m_environ r) /\ length h0 <= m_environKeys r /\
  r = mset_environKeys (mset_environ c (m_environ r)) (m_environKeys r).
Proof.
  intros He. unfold mc_clone.
  destruct (append grow h nil_slice (sview h (m_environ c))) as [h1 e] eqn:Ea.
  rewrite alloc_eq. intros E. inv E.
  destruct (append_ext h0 h nil_slice _ h1 e He (fresh_nil _) Ea) as [H1 H2].
  splits.
  - eapply ext_trans; [exact H1 | apply ext_app].
  - exact H2.
  - cbn. now apply ext_len.
  - reflexivity.
Qed.

Lemma fc_clone_ext h0 h c h' r :
  ext h0 h -> fc_clone grow h c = (h', r) ->
  ext h0 h' /\ fresh_slice (length h0) (f_fs r) /\ fresh_slice (length h0) (f_guestPaths r) /\
  length h0 <= f_guestPathToFS r.
Proof.
  intros He. unfold fc_clone.
  destruct (make0 h (len (f_fs c))) as [h1 s1] eqn:E1.
  destruct (append grow h1 s1 (sview h1 (f_fs c))) as [h2 s2] eqn:E2.
  destruct (make0 h2 (len (f_guestPaths c))) as [h3 g1] eqn:E3.
  destruct (append grow h3 g1 (sview h3 (f_guestPaths c))) as [h4 g2] eqn:E4.
  rewrite alloc_eq. intros E. inv E. cbn [f_fs f_guestPaths f_guestPathToFS].
  apply make0_ext in E1 as [X1 F1].
  assert (Y1 : ext h0 h1) by (eapply ext_trans; eassumption).
  assert (F1' : fresh_slice (length h0) s1).
  { destruct F1 as [F|F]; [left; exact F | right; apply ext_len in He; lia]. }
  destruct (append_ext h0 h1 s1 _ h2 s2 Y1 F1' E2) as [Y2 F2].
  apply make0_ext in E3 as [X3 F3].
  assert (Y3 : ext h0 h3) by (eapply ext_trans; eassumption).
  assert (F3' : fresh_slice (length h0) g1).
  { destruct F3 as [F|F]; [left; exact F | right; apply ext_len in Y2; lia]. }
  destruct (append_ext h0 h3 g1 _ h4 g2 Y3 F3' E4) as [Y4 F4].
  splits; try assumption.
  - eapply ext_trans; [exact Y4 | apply ext_app].
  - now apply ext_len.
Qed.

Lemma sc_clone_ext h0 h c h' r :
  ext h0 h -> sc_clone grow h c = (h', r) -> ext h0 h' /\ fresh_slice (length h0) (s_TCPAddresses r).
Proof.
  intros He. unfold sc_clone.
  destruct (make0 h (len (s_TCPAddresses c))) as [h1 s1] eqn:E1.
  destruct (append grow h1 s1 (sview h1 (s_TCPAddresses c))) as [h2 s2] eqn:E2.
  intros E. injection E as <- <-. cbn [s_TCPAddresses].
  apply make0_ext in E1 as [X1 F1].
  assert (Y1 : ext h0 h1) by (eapply ext_trans; eassumption).
  assert (F1' : fresh_slice (length h0) s1).
  { destruct F1 as [F|F]; [left; exact F | right; apply ext_len in He; lia]. }
  exact (append_ext h0 h1 s1 _ h2 s2 Y1 F1' E2).
Qed.

Lemma fc_WithSysFSMount_ext h0 h c fs g cl u h' r :
  ext h0 h -> fc_WithSysFSMount grow h c fs g cl u = Some (h', r) -> ext h0 h'.
Proof.
  intros He. unfold fc_WithSysFSMount. destruct u; [intros E; inv E; exact He|].
  destruct (fc_clone grow h c) as [h1 ret] eqn:Ec.
  destruct (fc_clone_ext h0 h c h1 ret He Ec) as (Y1 & Ff & Fg & Fm).
  destruct (find cl (mapc h1 (f_guestPathToFS ret))) as [i|].
  - destruct (store h1 (f_fs ret) i fs) as [h2|] eqn:S1; [|discriminate].
    destruct (store h2 (f_guestPaths ret) i g) as [h3|] eqn:S2; [|discriminate].
    intros E. injection E as <- <-.
    assert (Y2 : ext h0 h2) by exact (store_ext h0 h1 _ _ _ h2 Y1 Ff S1).
    exact (store_ext h0 h2 _ _ _ h3 Y2 Fg S2).
  - destruct (fs =? 0)%Z; [intros E; injection E as <- <-; exact Y1|].
    set (h2 := map_set h1 (f_guestPathToFS ret) cl (len (f_fs ret))).
    destruct (append grow h2 (f_fs ret) [fs]) as [h3 s] eqn:A1.
    destruct (append grow h3 (f_guestPaths ret) [g]) as [h4 g'] eqn:A2.
    intros E. injection E as <- <-.
    assert (Y2 : ext h0 h2) by (apply map_set_ext; assumption).
    destruct (append_ext h0 h2 _ _ h3 s Y2 Ff A1) as [Y3 _].
    destruct (append_ext h0 h3 _ _ h4 g' Y3 Fg A2) as [Y4 _]. exact Y4.
Qed.

Lemma fc_apply_ext h0 h c m h' r : ext h0 h -> fc_apply grow h c m = Some (h', r) -> ext h0 h'.
Proof.
  intros He. unfold fc_apply. destruct (dir_empty m); [discriminate|].
  destruct m; apply fc_WithSysFSMount_ext; exact He.
Qed.

Lemma fc_call_ext h0 h p m h' q : ext h0 h -> fc_call grow h p m = Some (h', q) -> ext h0 h'.
Proof.
  intros He. unfold fc_call. destruct (get_fc h p) as [c|]; [|discriminate].
  destruct (fc_apply grow h c m) as [[h1 [ret|]]|] eqn:E; [| |discriminate].
  - rewrite alloc_eq. intros X. inv X. eapply ext_trans; [eapply fc_apply_ext; eassumption | apply ext_app].
  - intros X. inv X. eapply fc_apply_ext; eassumption.
Qed.

Lemma mc_WithEnv_ext h0 h c k v h' r : ext h0 h -> mc_WithEnv grow h c k v = Some (h', r) -> ext h0 h'.
Proof.
  intros He. unfold mc_WithEnv.
  destruct (mc_clone grow h c) as [h1 ret] eqn:Ec.
  destruct (mc_clone_ext h0 h c h1 ret He Ec) as (Y1 & Fe & Fk & _).
  destruct (find k (mapc h1 (m_environKeys ret))) as [i|].
  - destruct (store h1 (m_environ ret) (S i) v) as [h2|] eqn:S1; [|discriminate].
    intros E. injection E as <- <-. exact (store_ext h0 h1 _ _ _ h2 Y1 Fe S1).
  - set (h2 := map_set h1 (m_environKeys ret) k (len (m_environ ret))).
    destruct (append grow h2 (m_environ ret) [k; v]) as [h3 e] eqn:A1.
    intros E. injection E as <- <-.
    assert (Y2 : ext h0 h2) by (apply map_set_ext; assumption).
    now destruct (append_ext h0 h2 _ _ h3 e Y2 Fe A1).
Qed.

Lemma mc_clone_ext' h0 h c h' r : ext h0 h -> mc_clone grow h c = (h', r) -> ext h0 h'.
Proof. intros He E. now destruct (mc_clone_ext h0 h c h' r He E). Qed.

Lemma mc_WithFSConfig_ext h0 h c f h' r : ext h0 h -> mc_WithFSConfig grow h c f = Some (h', r) -> ext h0 h'.
Proof.
  intros He. unfold mc_WithFSConfig. destruct (mc_clone grow h c) as [h1 ret] eqn:Ec.
  intros E. inv E. eapply mc_clone_ext'; eassumption.
Qed.

Lemma mc_apply_ext h0 h c m h' r : ext h0 h -> mc_apply grow h c m = Some (h', r) -> ext h0 h'.
Proof.
  intros He. destruct m; cbn [mc_apply]; unfold mc_WithWalltime, mc_WithNanotime, mc_WithNanosleep, mc_WithOsyield;
    try (destruct (mc_clone grow h c) as [h1 ret] eqn:Ec; intros E; inv E; eapply mc_clone_ext'; eassumption);
    try (intros E; inv E; exact He).
  - (* WithArgs *)
    destruct (mc_clone grow h c) as [h1 ret] eqn:Ec. unfold toByteSlices.
    destruct (new_slice h1 args) as [h2 a] eqn:En. intros E. inv E.
    apply new_slice_ext in En as [X _].
    eapply ext_trans; [eapply mc_clone_ext'; eassumption | exact X].
  - apply mc_WithEnv_ext; exact He.
  - (* WithFS *)
    destruct (fs =? 0)%Z; [apply mc_WithFSConfig_ext; exact He|].
    unfold fc_new. rewrite !alloc_eq.
    set (h2 := (h ++ [CMap []]) ++ [CFc _]).
    destruct (fc_call grow h2 _ _) as [[h3 p]|] eqn:Ef; [|discriminate].
    intros E.
    assert (Y2 : ext h0 h2).
    { eapply ext_trans; [exact He|]. eapply ext_trans; apply ext_app. }
    eapply mc_WithFSConfig_ext; [|exact E]. eapply fc_call_ext; eassumption.
  - apply mc_WithFSConfig_ext; exact He.
  - (* WithStartFunctions *)
    destruct (new_slice h fns) as [h1 s] eqn:En.
    destruct (mc_clone grow h1 c) as [h2 ret] eqn:Ec. intros E. inv E.
    apply new_slice_ext in En as [X _].
    eapply mc_clone_ext'; [|eassumption]. eapply ext_trans; eassumption.
Qed.

Lemma mc_call_ext h0 h p m h' q : ext h0 h -> mc_call grow h p m = Some (h', q) -> ext h0 h'.
Proof.
  intros He. unfold mc_call. destruct (get_mc h p) as [c|]; [|discriminate].
  destruct (mc_apply grow h c m) as [[h1 ret]|] eqn:E; [|discriminate].
  rewrite alloc_eq. intros X. inv X. eapply ext_trans; [eapply mc_apply_ext; eassumption | apply ext_app].
Qed.

Lemma sc_call_ext h0 h p a h' q : ext h0 h -> sc_call grow h p a = Some (h', q) -> ext h0 h'.
Proof.
  intros He. unfold sc_call. destruct (get_sc h p) as [c|]; [|discriminate].
  destruct (sc_clone grow h c) as [h1 ret] eqn:Ec.
  destruct (append grow h1 (s_TCPAddresses ret) [a]) as [h2 s] eqn:Ea.
  rewrite alloc_eq. intros X. inv X.
  destruct (sc_clone_ext h0 h c h1 ret He Ec) as [Y1 F1].
  destruct (append_ext h0 h1 _ _ h2 s Y1 F1 Ea) as [Y2 _].
  eapply ext_trans; [exact Y2 | apply ext_app].
Qed.

Lemma instantiate_ext h0 h p s h' g : ext h0 h -> instantiate grow h p s = Some (h', g) -> ext h0 h'.
Proof.
  intros He. unfold instantiate. destruct (get_mc h p) as [c|]; [|discriminate].
  destruct s as [q|]; [|intros E; inv E; exact He].
  destruct (mc_clone grow h c) as [h1 ret] eqn:Ec. rewrite alloc_eq.
  destruct (get_mc _ _); [|discriminate]. intros E. inv E.
  eapply ext_trans; [eapply mc_clone_ext'; eassumption | apply ext_app].
Qed.

(* one operation of a derivation tree only allocates: every cell of the old heap is intact,
   and the nodes created so far are still there *)
Lemma step_frame st o :
  ext (st_heap st) (st_heap (step grow st o)) /\ exists l, st_nodes (step grow st o) = st_nodes st ++ l.
Proof.
  assert (R : ext (st_heap st) (st_heap st) /\ exists l, st_nodes st = st_nodes st ++ l).
  { split; [apply ext_refl | exists []; now rewrite app_nil_r]. }
  assert (A : forall r mk, ext (st_heap st) (fst r) ->
              ext (st_heap st) (st_heap (add_node st r mk)) /\ exists l, st_nodes (add_node st r mk) = st_nodes st ++ l).
  { intros r mk H. split; [exact H | now exists [mk (snd r)]]. }
  destruct o; cbn [step].
  - apply A. apply ext_app.
  - unfold mc_new, new_slice. rewrite !alloc_eq. apply A. cbn [fst].
    eapply ext_trans; [|apply ext_app]. eapply ext_trans; apply ext_app.
  - unfold fc_new. rewrite !alloc_eq. apply A. cbn [fst]. eapply ext_trans; apply ext_app.
  - apply A. apply ext_app.
  - destruct (nth_error (st_nodes st) parent) as [[p|p|p|p]|]; try exact R.
    destruct (get_rc (st_heap st) p) as [c|]; [|exact R].
    destruct (rc_apply c m); [|exact R]. apply A. apply ext_app.
  - destruct (nth_error (st_nodes st) parent) as [[p|p|p|p]|]; try exact R.
    destruct (resolve_m (st_nodes st) m) as [m'|]; [|exact R].
    destruct (mc_call grow (st_heap st) p m') as [[h1 q]|] eqn:E; [|exact R].
    apply A. eapply mc_call_ext; [apply ext_refl | exact E].
  - destruct (nth_error (st_nodes st) parent) as [[p|p|p|p]|]; try exact R.
    destruct (fc_call grow (st_heap st) p m) as [[h1 q]|] eqn:E; [|exact R].
    apply A. eapply fc_call_ext; [apply ext_refl | exact E].
  - destruct (nth_error (st_nodes st) parent) as [[p|p|p|p]|]; try exact R.
    destruct (sc_call grow (st_heap st) p addr) as [[h1 q]|] eqn:E; [|exact R].
    apply A. eapply sc_call_ext; [apply ext_refl | exact E].
  - destruct (nth_error (st_nodes st) n) as [[p|p|p|p]|]; try exact R.
    destruct (instantiate grow (st_heap st) p (resolve_sock st sock)) as [[h1 g]|] eqn:E; [|exact R].
    split; [|exists []; cbn; now rewrite app_nil_r]. cbn [st_heap].
    eapply instantiate_ext; [apply ext_refl | exact E].
  - exact R.
Qed.

Lemma run_frame ops : forall st,
  ext (st_heap st) (st_heap (run grow st ops)) /\ exists l, st_nodes (run grow st ops) = st_nodes st ++ l.
Proof.
  induction ops as [|o ops IH]; intros st.
  - split; [apply ext_refl | exists []; cbn; now rewrite app_nil_r].
  - cbn [run fold_left]. destruct (step_frame st o) as [H1 [l1 E1]].
    destruct (IH (step grow st o)) as [H2 [l2 E2]]. unfold run in *. split.
    + eapply ext_trans; eassumption.
    + exists (l1 ++ l2). rewrite E2, E1. now rewrite app_assoc.
Qed.
End Frame.

(* ------------------------------------------------------------------------------------------ *)
(* well-formedness: what a configuration refers to exists and has the right shape *)
Definition wf_slice (h : heap) (s : slice) : Prop :=
  len s <= cap s /\ (cap s = 0 \/ exists l, nth_error h (aid s) = Some (CArr l) /\ cap s <= length l).
Definition wf_map (h : heap) (m : nat) (P : nat -> Prop) : Prop :=
  exists l, nth_error h m = Some (CMap l) /\ forall k i, find k l = Some i -> P i.
Definition wf_fcfg (h : heap) (c : fcfg) : Prop :=
  wf_slice h (f_fs c) /\ wf_slice h (f_guestPaths c) /\ len (f_fs c) = len (f_guestPaths c) /\
  wf_map h (f_guestPathToFS c) (fun i => i < len (f_fs c)).
Definition wf_scfg (h : heap) (c : scfg) : Prop := wf_slice h (s_TCPAddresses c).
Definition wf_fptr (h : heap) (o : option nat) : Prop :=
  match o with Some p => exists c, nth_error h p = Some (CFc c) /\ wf_fcfg h c | None => True end.
Definition wf_sptr (h : heap) (o : option nat) : Prop :=
  match o with Some p => exists c, nth_error h p = Some (CSc c) /\ wf_scfg h c | None => True end.
Definition wf_mcfg (h : heap) (c : mcfg) : Prop :=
  wf_slice h (m_startFunctions c) /\ wf_slice h (m_args c) /\ wf_slice h (m_environ c) /\
  wf_map h (m_environKeys c) (fun i => S i < len (m_environ c)) /\
  wf_fptr h (m_fsConfig c) /\ wf_sptr h (m_sockConfig c).
Definition wf_node (h : heap) (n : node) : Prop :=
  match n with
  | NR p => exists c, nth_error h p = Some (CRc c)
  | NM p => exists c, nth_error h p = Some (CMc c) /\ wf_mcfg h c
  | NF p => wf_fptr h (Some p)
  | NS p => wf_sptr h (Some p)
  end.

(* a fact about one cell survives whatever leaves that cell alone *)
Lemma wf_slice_pres h h' s :
  wf_slice h s -> (cap s <> 0 -> nth_error h' (aid s) = nth_error h (aid s)) -> wf_slice h' s.
Proof.
  intros [H1 [H2|[l [H2 H3]]]] Hp; split; try assumption; [now left|].
  destruct (Nat.eq_dec (cap s) 0) as [E|E]; [now left|]. right. exists l. rewrite Hp by exact E. now split.
Qed.
Lemma wf_map_pres h h' m P : wf_map h m P -> nth_error h' m = nth_error h m -> wf_map h' m P.
Proof. intros [l [H1 H2]] E. exists l. rewrite E. now split. Qed.
Lemma wf_map_weaken h m (P Q : nat -> Prop) : wf_map h m P -> (forall i, P i -> Q i) -> wf_map h m Q.
Proof. intros [l [H1 H2]] H. exists l. split; [exact H1|]. intros k i Hf. apply H. eapply H2. exact Hf. Qed.

Lemma wf_slice_ext h h' s : ext h h' -> wf_slice h s -> wf_slice h' s.
Proof.
  intros He [H1 [H2|[l [H2 H3]]]]; split; try assumption; [now left|].
  right. exists l. split; [eapply ext_nth; eassumption | exact H3].
Qed.
Lemma wf_map_ext h h' m P : ext h h' -> wf_map h m P -> wf_map h' m P.
Proof. intros He [l [H1 H2]]. exists l. split; [eapply ext_nth; eassumption | exact H2]. Qed.
Lemma wf_fcfg_ext h h' c : ext h h' -> wf_fcfg h c -> wf_fcfg h' c.
Proof.
  intros He (H1 & H2 & H3 & H4). unfold wf_fcfg. splits;
    [eapply wf_slice_ext | eapply wf_slice_ext | | eapply wf_map_ext]; eassumption.
Qed.
Lemma wf_fptr_ext h h' o : ext h h' -> wf_fptr h o -> wf_fptr h' o.
Proof.
  intros He. destruct o as [p|]; [|trivial]. intros [c [H1 H2]]. exists c.
  split; [eapply ext_nth; eassumption | eapply wf_fcfg_ext; eassumption].
Qed.
Lemma wf_sptr_ext h h' o : ext h h' -> wf_sptr h o -> wf_sptr h' o.
Proof.
  intros He. destruct o as [p|]; [|trivial]. intros [c [H1 H2]]. exists c.
  split; [eapply ext_nth; eassumption | eapply wf_slice_ext; eassumption].
Qed.
Lemma wf_mcfg_ext h h' c : ext h h' -> wf_mcfg h c -> wf_mcfg h' c.
Proof.
  intros He (H1 & H2 & H3 & H4 & H5 & H6). unfold wf_mcfg. splits;
    [eapply wf_slice_ext | eapply wf_slice_ext | eapply wf_slice_ext | eapply wf_map_ext
     | eapply wf_fptr_ext | eapply wf_sptr_ext]; eassumption.
Qed.
Lemma wf_node_ext h h' n : ext h h' -> wf_node h n -> wf_node h' n.
Proof.
  intros He. destruct n as [p|p|p|p]; cbn [wf_node].
  - intros [c H]. exists c. eapply ext_nth; eassumption.
  - intros [c [H1 H2]]. exists c. split; [eapply ext_nth; eassumption | eapply wf_mcfg_ext; eassumption].
  - now apply wf_fptr_ext.
  - now apply wf_sptr_ext.
Qed.

(* ---- the deep view of a well-formed node only reads cells of the heap it is well-formed in ---- *)
Lemma sview_ext h h' s : ext h h' -> wf_slice h s -> sview h' s = sview h s.
Proof.
  intros He [H1 [H2|[l [H2 H3]]]]; unfold sview, arr.
  - assert (len s = 0) as -> by lia. reflexivity.
  - now rewrite (ext_nth _ _ _ _ He H2), H2.
Qed.
Lemma mapc_ext h h' m P : ext h h' -> wf_map h m P -> mapc h' m = mapc h m.
Proof. intros He [l [H1 _]]. unfold mapc. now rewrite (ext_nth _ _ _ _ He H1), H1. Qed.

Lemma fc_view_ext h h' c : ext h h' -> wf_fcfg h c -> fc_view h' c = fc_view h c.
Proof.
  intros He (H1 & H2 & _ & H4). unfold fc_view.
  now rewrite (sview_ext _ _ _ He H1), (sview_ext _ _ _ He H2), (mapc_ext _ _ _ _ He H4).
Qed.
Lemma get_fc_ext h h' p c : ext h h' -> nth_error h p = Some (CFc c) -> get_fc h' p = Some c /\ get_fc h p = Some c.
Proof. intros He H. unfold get_fc. now rewrite (ext_nth _ _ _ _ He H), H. Qed.
Lemma get_sc_ext h h' p c : ext h h' -> nth_error h p = Some (CSc c) -> get_sc h' p = Some c /\ get_sc h p = Some c.
Proof. intros He H. unfold get_sc. now rewrite (ext_nth _ _ _ _ He H), H. Qed.

Lemma guest_view_ext h h' c : ext h h' -> wf_mcfg h c -> guest_view h' c = guest_view h c.
Proof.
  intros He (H1 & H2 & H3 & H4 & H5 & H6). unfold guest_view.
  rewrite (sview_ext _ _ _ He H2), (sview_ext _ _ _ He H3).
  destruct (m_fsConfig c) as [p|]; [|reflexivity].
  destruct H5 as [f [Hf (F1 & F2 & _)]]. destruct (get_fc_ext _ _ _ _ He Hf) as [-> ->].
  now rewrite (sview_ext _ _ _ He F1), (sview_ext _ _ _ He F2).
Qed.

Lemma mc_view_ext h h' c : ext h h' -> wf_mcfg h c -> mc_view h' c = mc_view h c.
Proof.
  intros He Hwf. pose proof (guest_view_ext _ _ _ He Hwf) as G.
  destruct Hwf as (H1 & H2 & H3 & H4 & H5 & H6). unfold mc_view. rewrite G.
  rewrite (sview_ext _ _ _ He H1), (sview_ext _ _ _ He H2), (sview_ext _ _ _ He H3), (mapc_ext _ _ _ _ He H4).
  assert (Ef : match m_fsConfig c with Some p => option_map (fc_view h') (get_fc h' p) | None => None end =
               match m_fsConfig c with Some p => option_map (fc_view h) (get_fc h p) | None => None end).
  { destruct (m_fsConfig c) as [p|]; [|reflexivity]. destruct H5 as [f [Hf Hw]].
    destruct (get_fc_ext _ _ _ _ He Hf) as [-> ->]. cbn. now rewrite (fc_view_ext _ _ _ He Hw). }
  assert (Es : match m_sockConfig c with Some q => option_map (sc_view h') (get_sc h' q) | None => None end =
               match m_sockConfig c with Some q => option_map (sc_view h) (get_sc h q) | None => None end).
  { destruct (m_sockConfig c) as [q|]; [|reflexivity]. destruct H6 as [sc [Hs Hw]].
    destruct (get_sc_ext _ _ _ _ He Hs) as [-> ->]. cbn. unfold sc_view. now rewrite (sview_ext _ _ _ He Hw). }
  now rewrite Ef, Es.
Qed.

Lemma view_ext h h' n : ext h h' -> wf_node h n -> view h' n = view h n.
Proof.
  intros He. destruct n as [p|p|p|p]; cbn [wf_node view].
  - intros [c H]. unfold get_rc. now rewrite (ext_nth _ _ _ _ He H), H.
  - intros [c [H Hw]]. unfold get_mc. rewrite (ext_nth _ _ _ _ He H), H. cbn. now rewrite (mc_view_ext _ _ _ He Hw).
  - intros [c [H Hw]]. destruct (get_fc_ext _ _ _ _ He H) as [-> ->]. cbn. now rewrite (fc_view_ext _ _ _ He Hw).
  - intros [c [H Hw]]. destruct (get_sc_ext _ _ _ _ He H) as [-> ->]. cbn. unfold sc_view.
    now rewrite (sview_ext _ _ _ He Hw).
Qed.

(* ------------------------------------------------------------------------------------------ *)
(* what each method builds is well-formed, and no call panics on a well-formed receiver *)
Ltac msimpl :=
  cbn [m_name m_nameSet m_startFunctions m_stdin m_stdout m_stderr m_randSource m_walltime m_walltimeResolution
       m_nanotime m_nanotimeResolution m_nanosleep m_osyield m_args m_environ m_environKeys m_fsConfig m_sockConfig
       mset_scalars mset_refs f_fs f_guestPaths f_guestPathToFS s_TCPAddresses aid len cap] in *.

Lemma wf_mcfg_scalars h c a1 a2 a3 a4 a5 a6 a7 a8 a9 a10 a11 a12 :
  wf_mcfg h c -> wf_mcfg h (mset_scalars c a1 a2 a3 a4 a5 a6 a7 a8 a9 a10 a11 a12).
Proof. unfold wf_mcfg. msimpl. trivial. Qed.
Lemma wf_mcfg_refs h c s a e k f q :
  wf_slice h s -> wf_slice h a -> wf_slice h e -> wf_map h k (fun i => S i < len e) -> wf_fptr h f -> wf_sptr h q ->
  wf_mcfg h (mset_refs c s a e k f q).
Proof. unfold wf_mcfg. msimpl. intros. splits; assumption. Qed.

Lemma length_cons' {A} (x : A) l : length (x :: l) = S (length l).
Proof. reflexivity. Qed.

Lemma wf_nil h : wf_slice h nil_slice.
Proof. split; cbn; [lia | now left]. Qed.

Lemma sview_length h s : wf_slice h s -> length (sview h s) = len s.
Proof.
  intros [H1 [H2|[l [H2 H3]]]]; unfold sview; rewrite firstn_length.
  - lia.
  - unfold arr. rewrite H2. lia.
Qed.

Lemma new_slice_wf h l h' s : new_slice h l = (h', s) -> wf_slice h' s.
Proof.
  unfold new_slice. destruct l as [|x l].
  - intros E. injection E as <- <-. apply wf_nil.
  - rewrite alloc_eq. intros E. injection E as <- <-. split; cbn [len cap aid]; [lia|].
    right. eexists. split; [apply nth_error_new | cbn [length]; lia].
Qed.

Lemma store_wf h s i v h' :
  wf_slice h s -> store h s i v = Some h' ->
  wf_slice h' s /\ length h' = length h /\ (forall b, b <> aid s -> nth_error h' b = nth_error h b).
Proof.
  intros [H1 H2]. unfold store. destruct (i <? len s) eqn:E; [|discriminate]. apply Nat.ltb_lt in E.
  destruct H2 as [H2|[l [H2 H3]]]; [lia|].
  assert (Ha : aid s < length h) by (apply nth_error_Some; congruence).
  intros X. injection X as <-. splits.
  - split; [exact H1|]. right. eexists. split; [apply write_same; exact Ha|].
    assert (Earr : arr h (aid s) = l) by (unfold arr; now rewrite H2).
    change (match arr h (aid s) with [] => [] | _ :: l0 => skipn i l0 end) with (skipn (S i) (arr h (aid s))).
    rewrite Earr, app_length, firstn_length, length_cons', skipn_length. lia.
  - now apply write_length.
  - intros b Hb. apply write_other; auto.
Qed.
Lemma store_ok h s i v : i < len s -> store h s i v <> None.
Proof. intros H. unfold store. apply Nat.ltb_lt in H. now rewrite H. Qed.

Lemma map_set_spec h m l k v :
  nth_error h m = Some (CMap l) ->
  nth_error (map_set h m k v) m = Some (CMap ((k, v) :: l)) /\ length (map_set h m k v) = length h /\
  (forall b, b <> m -> nth_error (map_set h m k v) b = nth_error h b).
Proof.
  intros H. assert (Ha : m < length h) by (apply nth_error_Some; congruence).
  unfold map_set, mapc. rewrite H. splits.
  - now apply write_same.
  - now apply write_length.
  - intros b Hb. apply write_other; auto.
Qed.

Section WF.
Variable grow : nat -> nat -> nat.
Hypothesis grow_ok : forall l n, n <= grow l n.

Lemma append_wf h s xs h' s' :
  wf_slice h s -> append grow h s xs = (h', s') ->
  wf_slice h' s' /\ len s' = len s + length xs /\ length h <= length h' /\
  (forall b, b < length h -> cap s = 0 \/ b <> aid s -> nth_error h' b = nth_error h b) /\
  (len s + length xs <= cap s -> aid s' = aid s /\ cap s' = cap s /\ length h' = length h).
Proof.
  intros Hw. pose proof (sview_length _ _ Hw) as Hl. destruct Hw as [H1 H2]. unfold append.
  destruct xs as [|x xs].
  - intros E. injection E as <- <-. splits.
    + split; assumption.
    + cbn. lia.
    + lia.
    + reflexivity.
    + intros _. auto.
  - remember (x :: xs) as xs' eqn:Exs.
    assert (Hpos : 0 < length xs') by (subst xs'; cbn; lia).
    destruct (len s + length xs' <=? cap s) eqn:Ec.
    + apply Nat.leb_le in Ec. destruct H2 as [H2|[l [H2 H3]]]; [lia|].
      assert (Ha : aid s < length h) by (apply nth_error_Some; congruence).
      intros E. injection E as <- <-. splits.
      * split; cbn [len cap aid]; [exact Ec|]. right. eexists. split; [apply write_same; exact Ha|].
        assert (Earr : arr h (aid s) = l) by (unfold arr; now rewrite H2).
        rewrite Earr, !app_length, firstn_length, skipn_length. lia.
      * reflexivity.
      * rewrite write_length; [lia | exact Ha].
      * intros b Hb [Hc|Hne]; [lia|]. apply write_other; auto.
      * intros _. cbn [aid cap]. splits; auto. now apply write_length.
    + apply Nat.leb_gt in Ec. rewrite alloc_eq. intros E. injection E as <- <-.
      pose proof (grow_ok (len s) (len s + length xs')) as Hg. splits.
      * split; cbn [len cap aid]; [exact Hg|]. right. eexists. split; [apply nth_error_new|].
        rewrite !app_length, repeat_length, Hl. lia.
      * reflexivity.
      * rewrite app_length. lia.
      * intros b Hb _. now rewrite nth_error_app1.
      * intros. lia.
Qed.

(* make([]T, 0, n) followed by append(.., xs...) with len(xs) = n: one fresh array, filled in place *)
Lemma make_copy_wf h n xs h1 s1 h2 s2 :
  length xs = n -> make0 h n = (h1, s1) -> append grow h1 s1 xs = (h2, s2) ->
  wf_slice h2 s2 /\ len s2 = n /\ aid s2 = length h /\ length h2 = S (length h) /\ ext h h2 /\
  (forall b, b < length h -> nth_error h2 b = nth_error h b).
Proof.
  intros Hn E1 E2. unfold make0 in E1. rewrite alloc_eq in E1. injection E1 as <- <-.
  assert (W1 : wf_slice (h ++ [CArr (repeat 0%Z n)]) {| aid := length h; len := 0; cap := n |}).
  { split; cbn [len cap aid]; [lia|]. right. eexists. split; [apply nth_error_new | rewrite repeat_length; lia]. }
  destruct (append_wf _ _ _ _ _ W1 E2) as (A1 & A2 & A3 & A4 & A5). cbn [len cap aid] in *.
  destruct A5 as (B1 & B2 & B3); [lia|]. rewrite app_length in *. cbn [length] in *.
  splits; try assumption; try lia.
  - assert (X : ext h (h ++ [CArr (repeat 0%Z n)])) by apply ext_app.
    refine (proj1 (append_ext grow h _ _ _ _ _ X _ E2)). right. cbn. lia.
  - intros b Hb. rewrite A4 by (try right; lia). now rewrite nth_error_app1.
Qed.

Lemma mc_clone_wf h c h1 r :
  wf_mcfg h c -> mc_clone grow h c = (h1, r) ->
  ext h h1 /\ wf_mcfg h1 r /\ len (m_environ r) = len (m_environ c) /\
  nth_error h1 (m_environKeys r) = Some (CMap (mapc h (m_environKeys c))) /\
  r = mset_environKeys (mset_environ c (m_environ r)) (m_environKeys r).
Proof.
  intros Hwf E. destruct (mc_clone_ext grow h h c h1 r (ext_refl h) E) as (He & _ & _ & Hr).
  destruct Hwf as (H1 & H2 & H3 & H4 & H5 & H6).
  unfold mc_clone in E.
  destruct (append grow h nil_slice (sview h (m_environ c))) as [h1a e] eqn:Ea.
  rewrite alloc_eq in E. injection E as <- <-.
  destruct (append_wf _ _ _ _ _ (wf_nil h) Ea) as (A1 & A2 & A3 & A4 & _).
  rewrite (sview_length _ _ H3) in A2. cbn [len nil_slice] in A2.
  assert (Xa : ext h h1a).
  { exact (proj1 (append_ext grow h h _ _ _ _ (ext_refl h) (fresh_nil _) Ea)). }
  assert (Em : mapc h1a (m_environKeys c) = mapc h (m_environKeys c)) by (eapply mapc_ext; eassumption).
  unfold mset_environKeys, mset_environ. msimpl. splits.
  - exact He.
  - apply wf_mcfg_refs.
    + eapply wf_slice_ext; eassumption.
    + eapply wf_slice_ext; eassumption.
    + eapply wf_slice_ext; [apply ext_app | exact A1].
    + exists (mapc h (m_environKeys c)). split; [rewrite Em; apply nth_error_new|].
      destruct H4 as [l [L1 L2]]. unfold mapc. rewrite L1. intros k i Hf. rewrite A2. eapply L2. exact Hf.
    + eapply wf_fptr_ext; eassumption.
    + eapply wf_sptr_ext; eassumption.
  - exact A2.
  - rewrite Em. apply nth_error_new.
  - reflexivity.
Qed.

Lemma fc_clone_wf h c h' r :
  wf_fcfg h c -> fc_clone grow h c = (h', r) ->
  ext h h' /\ wf_slice h' (f_fs r) /\ wf_slice h' (f_guestPaths r) /\
  len (f_fs r) = len (f_fs c) /\ len (f_guestPaths r) = len (f_guestPaths c) /\
  aid (f_fs r) = length h /\ aid (f_guestPaths r) = S (length h) /\ f_guestPathToFS r = S (S (length h)) /\
  length h' = S (S (S (length h))) /\
  nth_error h' (f_guestPathToFS r) = Some (CMap (mapc h (f_guestPathToFS c))).
Proof.
  intros (W1 & W2 & W3 & W4) E. unfold fc_clone in E.
  destruct (make0 h (len (f_fs c))) as [h1 s1] eqn:E1.
  destruct (append grow h1 s1 (sview h1 (f_fs c))) as [h2 s2] eqn:E2.
  destruct (make0 h2 (len (f_guestPaths c))) as [h3 g1] eqn:E3.
  destruct (append grow h3 g1 (sview h3 (f_guestPaths c))) as [h4 g2] eqn:E4.
  rewrite alloc_eq in E. injection E as <- <-. msimpl.
  assert (X1 : ext h h1) by (apply make0_ext in E1; tauto).
  assert (L1 : length (sview h1 (f_fs c)) = len (f_fs c)).
  { apply sview_length. eapply wf_slice_ext; eassumption. }
  destruct (make_copy_wf _ _ _ _ _ _ _ L1 E1 E2) as (A1 & A2 & A3 & A4 & A5 & A6).
  assert (X3 : ext h2 h3) by (apply make0_ext in E3; tauto).
  assert (L2 : length (sview h3 (f_guestPaths c)) = len (f_guestPaths c)).
  { apply sview_length. eapply wf_slice_ext; [|exact W2]. eapply ext_trans; eassumption. }
  destruct (make_copy_wf _ _ _ _ _ _ _ L2 E3 E4) as (B1 & B2 & B3 & B4 & B5 & B6).
  assert (X4 : ext h h4) by (eapply ext_trans; eassumption).
  assert (Em : mapc h4 (f_guestPathToFS c) = mapc h (f_guestPathToFS c)) by (eapply mapc_ext; eassumption).
  splits; try lia.
  - eapply ext_trans; [exact X4 | apply ext_app].
  - eapply wf_slice_ext; [apply ext_app|]. exact (wf_slice_ext _ _ _ B5 A1).
  - eapply wf_slice_ext; [apply ext_app | exact B1].
  - rewrite app_length. cbn [length]. lia.
  - rewrite Em. apply nth_error_new.
Qed.

Lemma fc_WithSysFSMount_wf h c fs g cl u :
  wf_fcfg h c ->
  match fc_WithSysFSMount grow h c fs g cl u with
  | Some (h', Some r) => wf_fcfg h' r
  | Some (h', None) => h' = h
  | None => False
  end.
Proof.
  intros Hwf. unfold fc_WithSysFSMount. destruct u; [reflexivity|].
  destruct (fc_clone grow h c) as [h1 ret] eqn:Ec.
  destruct (fc_clone_wf _ _ _ _ Hwf Ec) as (X1 & S1 & S2 & L1 & L2 & A1 & A2 & A3 & A4 & M1).
  destruct Hwf as (W1 & W2 & W3 & [l [W4 W5]]).
  assert (Em : mapc h (f_guestPathToFS c) = l) by (unfold mapc; now rewrite W4).
  assert (Em1 : mapc h1 (f_guestPathToFS ret) = l) by (unfold mapc; now rewrite M1, Em).
  rewrite Em1. rewrite Em in M1.
  destruct (find cl l) as [i|] eqn:Ef.
  - pose proof (W5 _ _ Ef) as Hi.
    destruct (store h1 (f_fs ret) i fs) as [h2|] eqn:St1; [|exfalso; eapply store_ok; [|exact St1]; lia].
    destruct (store_wf _ _ _ _ _ S1 St1) as (T1 & T2 & T3).
    assert (S2' : wf_slice h2 (f_guestPaths ret)).
    { eapply wf_slice_pres; [exact S2|]. intros _. apply T3. lia. }
    destruct (store h2 (f_guestPaths ret) i g) as [h3|] eqn:St2; [|exfalso; eapply store_ok; [|exact St2]; lia].
    destruct (store_wf _ _ _ _ _ S2' St2) as (U1 & U2 & U3).
    unfold wf_fcfg. splits.
    + eapply wf_slice_pres; [exact T1|]. intros _. apply U3. lia.
    + exact U1.
    + lia.
    + exists l. split; [rewrite U3, T3 by lia; exact M1|]. intros k j Hf. rewrite L1. eapply W5. exact Hf.
  - destruct (fs =? 0)%Z.
    + unfold wf_fcfg. splits; try assumption; [lia|].
      exists l. split; [exact M1|]. intros k j Hf. rewrite L1. eapply W5. exact Hf.
    + destruct (map_set_spec h1 _ l cl (len (f_fs ret)) M1) as (P1 & P2 & P3).
      set (h2 := map_set h1 (f_guestPathToFS ret) cl (len (f_fs ret))) in *.
      assert (S1' : wf_slice h2 (f_fs ret)) by (eapply wf_slice_pres; [exact S1|]; intros _; apply P3; lia).
      assert (S2' : wf_slice h2 (f_guestPaths ret)) by (eapply wf_slice_pres; [exact S2|]; intros _; apply P3; lia).
      destruct (append grow h2 (f_fs ret) [fs]) as [h3 s] eqn:Ap1.
      destruct (append_wf _ _ _ _ _ S1' Ap1) as (Q1 & Q2 & Q3 & Q4 & _).
      assert (S2'' : wf_slice h3 (f_guestPaths ret)).
      { eapply wf_slice_pres; [exact S2'|]. intros _. apply Q4; [|right]; lia. }
      destruct (append grow h3 (f_guestPaths ret) [g]) as [h4 g'] eqn:Ap2.
      destruct (append_wf _ _ _ _ _ S2'' Ap2) as (R1 & R2 & R3 & R4 & _).
      unfold wf_fcfg. msimpl. cbn [length] in *. splits.
      * destruct Q1 as [Q1a Q1b]. eapply wf_slice_pres; [split; eassumption|]. intros Hc.
        destruct Q1b as [Q1b|[l' [Q1b _]]]; [lia|].
        assert (aid s < length h3) by (apply nth_error_Some; congruence).
        destruct (Nat.eq_dec (aid s) (aid (f_guestPaths ret))) as [Eq|Ne].
        -- (* the two arrays are different cells: fs's array is either the clone's (address |h|) or newer than h2 *)
           exfalso. destruct (Nat.le_gt_cases (len (f_fs ret) + 1) (cap (f_fs ret))) as [Hin|Hre].
           ++ destruct (append_wf _ _ _ _ _ S1' Ap1) as (_ & _ & _ & _ & Z). destruct (Z Hin) as (Z1 & _). lia.
           ++ clear - Ap1 Hre Eq A2 P2 A4. unfold append in Ap1. cbn [length] in Ap1.
              apply Nat.leb_gt in Hre. rewrite Hre in Ap1. rewrite alloc_eq in Ap1. injection Ap1 as <- <-.
              cbn [aid] in Eq. lia.
        -- apply R4; [exact H | right; exact Ne].
      * exact R1.
      * lia.
      * exists ((cl, len (f_fs ret)) :: l). split.
        -- rewrite R4, Q4; [exact P1 | lia | right; lia | lia | right; lia].
        -- intros k j Hf. cbn [find] in Hf. destruct (Z.eqb k cl).
           ++ injection Hf as <-. lia.
           ++ pose proof (W5 _ _ Hf). lia.
Qed.
End WF.

Lemma slice_map_distinct h s k m : wf_slice h s -> cap s <> 0 -> nth_error h k = Some (CMap m) -> aid s <> k.
Proof. intros [_ [H|[l [H _]]]] Hc Hk E; [contradiction|]. subst k. congruence. Qed.

Definition m_ok (h : heap) (m : mmeth) : Prop := match m with MWithFSConfig f => wf_fptr h f | _ => True end.

Section WF2.
Variable grow : nat -> nat -> nat.
Hypothesis grow_ok : forall l n, n <= grow l n.

Lemma fc_apply_wf h c m :
  wf_fcfg h c ->
  match fc_apply grow h c m with
  | Some (h', Some r) => wf_fcfg h' r
  | Some (h', None) => h' = h
  | None => dir_empty m = true
  end.
Proof.
  intros H. unfold fc_apply. destruct (dir_empty m) eqn:Ed; [reflexivity|].
  assert (G : forall fs g cl u, match fc_WithSysFSMount grow h c fs g cl u with
                                | Some (h', Some r) => wf_fcfg h' r | Some (h', None) => h' = h | None => false = true end).
  { intros fs g cl u. pose proof (fc_WithSysFSMount_wf grow grow_ok h c fs g cl u H) as X.
    destruct (fc_WithSysFSMount grow h c fs g cl u) as [[h1 [r|]]|]; try exact X. contradiction. }
  destruct m; apply G.
Qed.

Lemma fc_call_wf h p m :
  wf_fptr h (Some p) ->
  match fc_call grow h p m with Some (h', q) => wf_fptr h' (Some q) | None => dir_empty m = true end.
Proof.
  intros [c [Hc Hw]]. unfold fc_call, get_fc. rewrite Hc.
  pose proof (fc_apply_wf h c m Hw) as H.
  destruct (fc_apply grow h c m) as [[h1 [ret|]]|]; [| |exact H].
  - rewrite alloc_eq. exists ret. split; [apply nth_error_new | eapply wf_fcfg_ext; [apply ext_app | exact H]].
  - subst h1. exists c. now split.
Qed.

Lemma mc_WithEnv_wf h c key value :
  wf_mcfg h c -> match mc_WithEnv grow h c key value with Some (h', r) => wf_mcfg h' r | None => False end.
Proof.
  intros Hwf. unfold mc_WithEnv. destruct (mc_clone grow h c) as [h1 ret] eqn:Ec.
  destruct (mc_clone_wf grow grow_ok _ _ _ _ Hwf Ec) as (X1 & Wr & Le & Mk & Er).
  destruct (mc_clone_ext grow h h c h1 ret (ext_refl h) Ec) as (_ & Fe & Fk & _).
  destruct Hwf as (H1 & H2 & H3 & H4 & H5 & H6).
  destruct Wr as (_ & _ & R3 & [l [R4 R5]] & _ & _).
  assert (l = mapc h (m_environKeys c)) by congruence. subst l.
  set (e1 := m_environ ret) in *. set (k1 := m_environKeys ret) in *.
  assert (Em : mapc h1 k1 = mapc h (m_environKeys c)) by (unfold mapc at 1; now rewrite Mk).
  rewrite Em.
  assert (Inh : forall h', ext h h' -> forall e, wf_slice h' e -> wf_map h' k1 (fun i => S i < len e) ->
                wf_mcfg h' (mset_refs c (m_startFunctions c) (m_args c) e k1 (m_fsConfig c) (m_sockConfig c))).
  { intros h' X e We Wm. apply wf_mcfg_refs; try assumption;
      [eapply wf_slice_ext | eapply wf_slice_ext | eapply wf_fptr_ext | eapply wf_sptr_ext]; eassumption. }
  destruct (find key (mapc h (m_environKeys c))) as [i|] eqn:Ef.
  - pose proof (R5 _ _ Ef) as Hi.
    destruct (store h1 e1 (S i) value) as [h2|] eqn:St; [|exfalso; eapply store_ok; [|exact St]; exact Hi].
    destruct (store_wf _ _ _ _ _ R3 St) as (T1 & T2 & T3).
    assert (X2 : ext h h2) by exact (store_ext h h1 _ _ _ h2 X1 Fe St).
    rewrite Er. unfold mset_environKeys, mset_environ. msimpl. fold e1. fold k1.
    apply Inh; [exact X2 | exact T1 |].
    eapply wf_map_pres; [exists (mapc h (m_environKeys c)); split; [exact Mk | exact R5]|].
    apply T3. intros E. eapply (slice_map_distinct h1 e1 k1); [exact R3 | destruct R3; lia | exact Mk | auto].
  - destruct (map_set_spec h1 k1 _ key (len e1) Mk) as (P1 & P2 & P3).
    set (h2 := map_set h1 k1 key (len e1)) in *.
    assert (R3' : wf_slice h2 e1).
    { eapply wf_slice_pres; [exact R3|]. intros Hc. apply P3. eapply slice_map_distinct; eassumption. }
    destruct (append grow h2 e1 [key; value]) as [h3 e3] eqn:Ap.
    destruct (append_wf grow grow_ok _ _ _ _ _ R3' Ap) as (Q1 & Q2 & Q3 & Q4 & _). cbn [length] in Q2.
    assert (X2 : ext h h2) by (apply map_set_ext; assumption).
    assert (X3 : ext h h3) by exact (proj1 (append_ext grow h h2 _ _ _ _ X2 Fe Ap)).
    rewrite Er. unfold mset_environKeys, mset_environ. msimpl. fold e1. fold k1.
    apply Inh; [exact X3 | exact Q1 |].
    exists ((key, len e1) :: mapc h (m_environKeys c)). split.
    + assert (Hk : k1 < length h2) by (rewrite P2; apply nth_error_Some; congruence).
      rewrite Q4; [exact P1 | exact Hk |].
      destruct (Nat.eq_dec (cap e1) 0) as [Hc|Hc]; [now left | right].
      intros E. eapply (slice_map_distinct h1 e1 k1); eauto.
    + intros k j Hf. cbn [find] in Hf. destruct (Z.eqb k key).
      * injection Hf as <-. lia.
      * pose proof (R5 _ _ Hf). lia.
Qed.

Lemma mc_clone_set_wf h c h1 ret :
  wf_mcfg h c -> mc_clone grow h c = (h1, ret) -> ext h h1 /\ wf_mcfg h1 ret.
Proof. intros Hwf Ec. destruct (mc_clone_wf grow grow_ok _ _ _ _ Hwf Ec) as (X1 & Wr & _). now split. Qed.

Lemma mc_WithFSConfig_wf h c f :
  wf_mcfg h c -> wf_fptr h f ->
  match mc_WithFSConfig grow h c f with Some (h', r) => wf_mcfg h' r | None => False end.
Proof.
  intros Hwf Hf. unfold mc_WithFSConfig. destruct (mc_clone grow h c) as [h1 ret] eqn:Ec.
  destruct (mc_clone_set_wf _ _ _ _ Hwf Ec) as (X1 & R1 & R2 & R3 & R4 & R5 & R6).
  unfold mset_fsConfig. apply wf_mcfg_refs; try assumption. eapply wf_fptr_ext; eassumption.
Qed.

Lemma mc_apply_wf h c m :
  wf_mcfg h c -> m_ok h m ->
  match mc_apply grow h c m with Some (h', r) => wf_mcfg h' r | None => False end.
Proof.
  intros Hwf Hm.
  destruct m; cbn [mc_apply]; unfold mc_WithWalltime, mc_WithNanotime, mc_WithNanosleep, mc_WithOsyield;
    try (destruct (mc_clone grow h c) as [h1 ret] eqn:Ec;
         destruct (mc_clone_set_wf _ _ _ _ Hwf Ec) as (X1 & Wr);
         unfold mset_name, mset_nameSet, mset_stdin, mset_stdout, mset_stderr, mset_randSource, mset_walltime,
                mset_walltimeResolution, mset_nanotime, mset_nanotimeResolution;
         repeat apply wf_mcfg_scalars; exact Wr);
    try (unfold mset_nanosleep, mset_osyield; apply wf_mcfg_scalars; exact Hwf).
  - (* WithArgs *)
    destruct (mc_clone grow h c) as [h1 ret] eqn:Ec.
    destruct (mc_clone_set_wf _ _ _ _ Hwf Ec) as (X1 & Wr).
    unfold toByteSlices. destruct (new_slice h1 args) as [h2 a] eqn:En.
    pose proof (new_slice_wf _ _ _ _ En) as Wa. apply new_slice_ext in En as [X2 _].
    destruct (wf_mcfg_ext _ _ _ X2 Wr) as (R1 & R2 & R3 & R4 & R5 & R6).
    unfold mset_args. now apply wf_mcfg_refs.
  - now apply mc_WithEnv_wf.
  - (* WithFS *)
    destruct (fs =? 0)%Z; [apply mc_WithFSConfig_wf; [exact Hwf | exact I]|].
    unfold fc_new. rewrite !alloc_eq.
    set (f0 := {| f_fs := nil_slice; f_guestPaths := nil_slice; f_guestPathToFS := length h |}).
    set (h2 := (h ++ [CMap []]) ++ [CFc f0]).
    assert (X2 : ext h h2) by (eapply ext_trans; apply ext_app).
    assert (W0 : wf_fptr h2 (Some (length (h ++ [CMap []])))).
    { exists f0. split; [apply nth_error_new|]. unfold wf_fcfg, f0. msimpl. splits; try apply wf_nil; [reflexivity|].
      exists []. split; [|intros k i Hf; discriminate].
      unfold h2. rewrite nth_error_app1 by (rewrite app_length; cbn; lia). apply nth_error_new. }
    pose proof (fc_call_wf h2 _ (FWithFSMount fs empty_str empty_str) W0) as Hc.
    destruct (fc_call grow h2 _ _) as [[h3 p]|] eqn:Ef; [|discriminate Hc].
    assert (X3 : ext h h3).
    { eapply ext_trans; [exact X2|]. eapply fc_call_ext; [apply ext_refl | exact Ef]. }
    apply mc_WithFSConfig_wf; [eapply wf_mcfg_ext; eassumption | exact Hc].
  - apply mc_WithFSConfig_wf; [exact Hwf | exact Hm].
  - (* WithStartFunctions *)
    destruct (new_slice h fns) as [h1 s] eqn:En.
    pose proof (new_slice_wf _ _ _ _ En) as Ws. apply new_slice_ext in En as [X1 _].
    destruct (mc_clone grow h1 c) as [h2 ret] eqn:Ec.
    destruct (mc_clone_set_wf _ _ _ _ (wf_mcfg_ext _ _ _ X1 Hwf) Ec) as (X2 & R1 & R2 & R3 & R4 & R5 & R6).
    unfold mset_startFunctions. apply wf_mcfg_refs; try assumption. eapply wf_slice_ext; eassumption.
Qed.

Lemma mc_call_wf h p m :
  wf_node h (NM p) -> m_ok h m ->
  match mc_call grow h p m with Some (h', q) => wf_node h' (NM q) | None => False end.
Proof.
  intros [c [Hc Hw]] Hm. unfold mc_call, get_mc. rewrite Hc.
  pose proof (mc_apply_wf h c m Hw Hm) as H.
  destruct (mc_apply grow h c m) as [[h1 ret]|]; [|exact H].
  rewrite alloc_eq. exists ret. split; [apply nth_error_new | eapply wf_mcfg_ext; [apply ext_app | exact H]].
Qed.

Lemma sc_call_wf h p a :
  wf_sptr h (Some p) -> match sc_call grow h p a with Some (h', q) => wf_sptr h' (Some q) | None => False end.
Proof.
  intros [c [Hc Hw]]. unfold sc_call, get_sc. rewrite Hc. unfold sc_clone.
  destruct (make0 h (len (s_TCPAddresses c))) as [h1 s1] eqn:E1.
  destruct (append grow h1 s1 (sview h1 (s_TCPAddresses c))) as [h2 s2] eqn:E2.
  assert (X1 : ext h h1) by (apply make0_ext in E1; tauto).
  assert (L1 : length (sview h1 (s_TCPAddresses c)) = len (s_TCPAddresses c)).
  { apply sview_length. eapply wf_slice_ext; eassumption. }
  destruct (make_copy_wf grow grow_ok _ _ _ _ _ _ _ L1 E1 E2) as (A1 & _). msimpl.
  destruct (append grow h2 s2 [a]) as [h3 s3] eqn:E3.
  destruct (append_wf grow grow_ok _ _ _ _ _ A1 E3) as (B1 & _).
  rewrite alloc_eq. eexists. split; [apply nth_error_new|].
  unfold wf_scfg. msimpl. eapply wf_slice_ext; [apply ext_app | exact B1].
Qed.

Lemma instantiate_ok h p s :
  wf_node h (NM p) -> instantiate grow h p s <> None.
Proof.
  intros [c [Hc Hw]]. unfold instantiate, get_mc. rewrite Hc. destruct s as [q|]; [|discriminate].
  destruct (mc_clone grow h c) as [h1 ret]. rewrite alloc_eq. rewrite nth_error_new. discriminate.
Qed.

(* ---- the invariant of derivation trees ---- *)
Definition inv (st : state) : Prop := Forall (wf_node (st_heap st)) (st_nodes st).

Lemma inv_init : inv init.
Proof. constructor. Qed.

Lemma inv_add st r mk :
  inv st -> ext (st_heap st) (fst r) -> wf_node (fst r) (mk (snd r)) -> inv (add_node st r mk).
Proof.
  intros Hi He Hn. unfold inv, add_node. cbn [st_heap st_nodes]. apply Forall_app. split.
  - eapply Forall_impl; [|exact Hi]. intros n. now apply wf_node_ext.
  - constructor; [exact Hn | constructor].
Qed.

Lemma nth_inv st i n : inv st -> nth_error (st_nodes st) i = Some n -> wf_node (st_heap st) n.
Proof. intros Hi H. unfold inv in Hi. rewrite Forall_forall in Hi. apply Hi. eapply nth_error_In. exact H. Qed.

Lemma resolve_m_ok st m m' : inv st -> resolve_m (st_nodes st) m = Some m' -> m_ok (st_heap st) m'.
Proof.
  intros Hi. destruct m; cbn [resolve_m]; try (intros E; injection E as <-; exact I).
  destruct config as [i|]; [|intros E; injection E as <-; exact I].
  destruct (nth_error (st_nodes st) i) as [[p|p|p|p]|] eqn:En; try discriminate.
  intros E. injection E as <-. cbn [m_ok]. exact (nth_inv _ _ _ Hi En).
Qed.

Lemma step_inv st o : inv st -> inv (step grow st o).
Proof.
  intros Hi. destruct o; cbn [step].
  - apply inv_add; [exact Hi | apply ext_app |]. rewrite alloc_eq. cbn [fst snd wf_node]. eexists. apply nth_error_new.
  - unfold mc_new, new_slice. rewrite !alloc_eq. apply inv_add; [exact Hi | |]; cbn [fst snd].
    + eapply ext_trans; [|apply ext_app]. eapply ext_trans; apply ext_app.
    + eexists. split; [apply nth_error_new|]. unfold wf_mcfg. msimpl. splits; try apply wf_nil; try exact I.
      * split; cbn [len cap]; [lia|]. right. eexists. split.
        { rewrite !nth_error_app1 by (rewrite ?app_length; cbn; lia). apply nth_error_new. }
        cbn [length]; lia.
      * exists []. split; [|intros k i Hf; discriminate].
        rewrite nth_error_app1 by (rewrite !app_length; cbn; lia). apply nth_error_new.
  - unfold fc_new. rewrite !alloc_eq. apply inv_add; [exact Hi | |]; cbn [fst snd].
    + eapply ext_trans; apply ext_app.
    + eexists. split; [apply nth_error_new|]. unfold wf_fcfg. msimpl. splits; try apply wf_nil; [reflexivity|].
      exists []. split; [|intros k i Hf; discriminate].
      rewrite nth_error_app1 by (rewrite app_length; cbn; lia). apply nth_error_new.
  - apply inv_add; [exact Hi | apply ext_app |]. rewrite alloc_eq. cbn [fst snd wf_node wf_sptr].
    eexists. split; [apply nth_error_new | apply wf_nil].
  - destruct (nth_error (st_nodes st) parent) as [[p|p|p|p]|]; try exact Hi.
    destruct (get_rc (st_heap st) p) as [c|]; [|exact Hi].
    destruct (rc_apply c m); [|exact Hi].
    apply inv_add; [exact Hi | apply ext_app |]. rewrite alloc_eq. cbn [fst snd wf_node]. eexists. apply nth_error_new.
  - destruct (nth_error (st_nodes st) parent) as [[p|p|p|p]|] eqn:En; try exact Hi.
    destruct (resolve_m (st_nodes st) m) as [m'|] eqn:Er; [|exact Hi].
    pose proof (mc_call_wf _ _ m' (nth_inv _ _ _ Hi En) (resolve_m_ok _ _ _ Hi Er)) as H.
    destruct (mc_call grow (st_heap st) p m') as [[h1 q]|] eqn:E; [|exact Hi].
    apply inv_add; [exact Hi | | exact H]. eapply mc_call_ext; [apply ext_refl | exact E].
  - destruct (nth_error (st_nodes st) parent) as [[p|p|p|p]|] eqn:En; try exact Hi.
    pose proof (fc_call_wf _ _ m (nth_inv _ _ _ Hi En)) as H.
    destruct (fc_call grow (st_heap st) p m) as [[h1 q]|] eqn:E; [|exact Hi].
    apply inv_add; [exact Hi | | exact H]. eapply fc_call_ext; [apply ext_refl | exact E].
  - destruct (nth_error (st_nodes st) parent) as [[p|p|p|p]|] eqn:En; try exact Hi.
    pose proof (sc_call_wf _ _ addr (nth_inv _ _ _ Hi En)) as H.
    destruct (sc_call grow (st_heap st) p addr) as [[h1 q]|] eqn:E; [|exact Hi].
    apply inv_add; [exact Hi | | exact H]. eapply sc_call_ext; [apply ext_refl | exact E].
  - destruct (nth_error (st_nodes st) n) as [[p|p|p|p]|] eqn:En; try exact Hi.
    destruct (instantiate grow (st_heap st) p (resolve_sock st sock)) as [[h1 g]|] eqn:E; [|exact Hi].
    unfold inv. cbn [st_heap st_nodes]. eapply Forall_impl; [|exact Hi]. intros x. apply wf_node_ext.
    eapply instantiate_ext; [apply ext_refl | exact E].
  - exact Hi.
Qed.

Lemma run_inv ops : forall st, inv st -> inv (run grow st ops).
Proof. induction ops as [|o ops IH]; intros st Hi; [exact Hi|]. cbn [run fold_left]. apply IH. now apply step_inv. Qed.

(* no call on a node of a derivation tree panics, except the documented panic of WithMemoryLimitPages *)
Lemma step_no_panic st o : inv st -> panics grow st o = true -> known_panic o = true.
Proof.
  intros Hi. destruct o; cbn [panics known_panic]; try discriminate.
  - destruct (nth_error (st_nodes st) parent) as [[p|p|p|p]|] eqn:En; try discriminate.
    destruct (nth_inv _ _ _ Hi En) as [c Hc]. unfold get_rc. rewrite Hc.
    destruct m; cbn [rc_apply]; try discriminate. destruct (MemoryLimitPages <? n)%Z; [reflexivity | discriminate].
  - destruct (nth_error (st_nodes st) parent) as [[p|p|p|p]|] eqn:En; try discriminate.
    destruct (resolve_m (st_nodes st) m) as [m'|] eqn:Er; [|discriminate].
    pose proof (mc_call_wf _ _ m' (nth_inv _ _ _ Hi En) (resolve_m_ok _ _ _ Hi Er)) as H.
    destruct (mc_call grow (st_heap st) p m'); [discriminate | contradiction].
  - destruct (nth_error (st_nodes st) parent) as [[p|p|p|p]|] eqn:En; try discriminate.
    pose proof (fc_call_wf _ _ m (nth_inv _ _ _ Hi En)) as H.
    destruct (fc_call grow (st_heap st) p m); [discriminate | intros _; exact H].
  - destruct (nth_error (st_nodes st) parent) as [[p|p|p|p]|] eqn:En; try discriminate.
    pose proof (sc_call_wf _ _ addr (nth_inv _ _ _ Hi En)) as H.
    destruct (sc_call grow (st_heap st) p addr); [discriminate | contradiction].
  - destruct (nth_error (st_nodes st) n) as [[p|p|p|p]|] eqn:En; try discriminate.
    pose proof (instantiate_ok _ _ (resolve_sock st sock) (nth_inv _ _ _ Hi En)) as H.
    destruct (instantiate grow (st_heap st) p (resolve_sock st sock)); [discriminate | contradiction].
Qed.
End WF2.

(* ------------------------------------------------------------------------------------------ *)
(* main statements *)
Lemma run_app grow st a b : run grow st (a ++ b) = run grow (run grow st a) b.
Proof. unfold run. apply fold_left_app. Qed.

Lemma ext_cells h h' : ext h h' <-> (forall a c, nth_error h a = Some c -> nth_error h' a = Some c).
Proof.
  split; [intros He a c; now apply ext_nth|].
  revert h'. induction h as [|x h IH]; intros h' H; [now exists h'|].
  destruct h' as [|y h']; [specialize (H 0 x eq_refl); discriminate|].
  pose proof (H 0 x eq_refl) as H0. cbn in H0. injection H0 as ->.
  destruct (IH h') as [t ->]; [intros a c Ha; exact (H (S a) c Ha) | now exists t].
Qed.

Section Main.
Variable grow : nat -> nat -> nat.

Lemma frame_cells st o a c :
  nth_error (st_heap st) a = Some c -> nth_error (st_heap (step grow st o)) a = Some c.
Proof. apply ext_cells. apply step_frame. Qed.

Hypothesis grow_ok : forall l n, n <= grow l n.

Lemma reachable_inv ops : inv (run grow init ops).
Proof. apply run_inv; [exact grow_ok | apply inv_init]. Qed.

Lemma later_ops_preserve st ops :
  inv st ->
  forall i n, nth_error (st_nodes st) i = Some n ->
    nth_error (st_nodes (run grow st ops)) i = Some n /\
    view (st_heap (run grow st ops)) n = view (st_heap st) n.
Proof.
  intros Hi i n Hn. destruct (run_frame grow ops st) as [He [l El]]. split.
  - rewrite El. rewrite nth_error_app1; [exact Hn|]. apply nth_error_Some. congruence.
  - apply view_ext; [exact He | eapply nth_inv; eassumption].
Qed.

Lemma derivation_tree ops1 ops2 i n :
  nth_error (st_nodes (run grow init ops1)) i = Some n ->
  nth_error (st_nodes (run grow init (ops1 ++ ops2))) i = Some n /\
  view (st_heap (run grow init (ops1 ++ ops2))) n = view (st_heap (run grow init ops1)) n.
Proof. intros Hn. rewrite run_app. apply later_ops_preserve; [apply reachable_inv | exact Hn]. Qed.

Lemma view_defined h n :
  wf_node h n ->
  match view h n with VR None | VM None | VF None | VS None => False | _ => True end.
Proof.
  destruct n as [p|p|p|p]; cbn [wf_node view wf_fptr wf_sptr].
  - intros [c H]. unfold get_rc. now rewrite H.
  - intros [c [H _]]. unfold get_mc. now rewrite H.
  - intros [c [H _]]. unfold get_fc. now rewrite H.
  - intros [c [H _]]. unfold get_sc. now rewrite H.
Qed.

Lemma reachable_views_defined ops n :
  In n (st_nodes (run grow init ops)) ->
  match view (st_heap (run grow init ops)) n with VR None | VM None | VF None | VS None => False | _ => True end.
Proof.
  intros Hin. apply view_defined. pose proof (reachable_inv ops) as Hi. unfold inv in Hi.
  rewrite Forall_forall in Hi. now apply Hi.
Qed.

Lemma instantiate_pure ops i sock :
  let st := run grow init ops in
  let st' := step grow st (OInstantiate i sock) in
  st_nodes st' = st_nodes st /\ panics grow st (OInstantiate i sock) = false /\
  ext (st_heap st) (st_heap st') /\
  forall n, In n (st_nodes st) -> view (st_heap st') n = view (st_heap st) n.
Proof.
  intros st st'. pose proof (reachable_inv ops) as Hi. fold st in Hi.
  assert (Hn : st_nodes st' = st_nodes st).
  { unfold st'. cbn [step]. destruct (nth_error (st_nodes st) i) as [[p|p|p|p]|]; try reflexivity.
    destruct (instantiate grow (st_heap st) p (resolve_sock st sock)) as [[h1 g]|]; reflexivity. }
  splits.
  - exact Hn.
  - destruct (panics grow st (OInstantiate i sock)) eqn:E; [|reflexivity].
    apply (step_no_panic grow grow_ok) in E; [discriminate | exact Hi].
  - apply step_frame.
  - intros n Hin. apply view_ext; [apply step_frame|]. unfold inv in Hi. rewrite Forall_forall in Hi. now apply Hi.
Qed.

Lemma no_panic ops o :
  panics grow (run grow init ops) o = true -> known_panic o = true.
Proof. apply step_no_panic; [exact grow_ok | apply reachable_inv]. Qed.
End Main.

(* ------------------------------------------------------------------------------------------ *)
(* non-vacuity: the hypotheses are satisfiable, the views are not trivial, in-place appends do happen in the
   model, and the same trees DO alias with the code as it was before the two repairs *)
Lemma grow_tight_ok : forall l n, n <= grow_tight l n.
Proof. intros. unfold grow_tight. lia. Qed.
Lemma grow_double_ok : forall l n, n <= grow_double l n.
Proof. intros. unfold grow_double. destruct (n <=? 2 * l) eqn:E; [apply Nat.leb_le in E|]; lia. Qed.
Lemma grow_roomy_ok : forall l n, n <= grow_roomy l n.
Proof. intros. unfold grow_roomy. lia. Qed.

(* a parent with three variables, then two children setting a fourth one *)
Definition tree_env : list op :=
  [ONewModuleConfig; OM 0 (MWithEnv 11 21); OM 1 (MWithEnv 12 22); OM 2 (MWithEnv 13 23);   (* node 3: the parent *)
   OM 3 (MWithEnv 14 100);                                                                 (* node 4: first child *)
   OM 3 (MWithEnv 14 200)].                                                                (* node 5: second child *)

Definition environ_of (h : heap) (n : node) : list Z :=
  match n with NM p => match get_mc h p with Some c => sview h (m_environ c) | None => [] end | _ => [] end.
Definition nth_node (st : state) (i : nat) : node := nth i (st_nodes st) (NR 0).

Example tree_env_current :
  let st4 := run grow_double init (firstn 5 tree_env) in
  let st5 := run grow_double init tree_env in
  environ_of (st_heap st4) (nth_node st4 4) = [11; 21; 12; 22; 13; 23; 14; 100]%Z /\
  environ_of (st_heap st5) (nth_node st5 4) = [11; 21; 12; 22; 13; 23; 14; 100]%Z /\
  environ_of (st_heap st5) (nth_node st5 5) = [11; 21; 12; 22; 13; 23; 14; 200]%Z /\
  environ_of (st_heap st5) (nth_node st5 3) = [11; 21; 12; 22; 13; 23]%Z.
Proof. vm_compute. splits; reflexivity. Qed.

(* in-place appends are really taken by the model: with spare capacity fewer arrays are allocated *)
Example inplace_append_taken :
  length (st_heap (run grow_roomy init tree_env)) < length (st_heap (run grow_tight init tree_env)).
Proof. vm_compute. lia. Qed.

(* the same tree on the code before "fix: moduleConfig.clone must copy environ": the second child overwrites the first *)
Definition before_step (hn : heap * list nat) (d : nat * Z * Z) : heap * list nat :=
  let '(parent, k, v) := d in
  match withenv_before grow_double (fst hn) (nth parent (snd hn) 0) k v with
  | Some (h', q) => (h', snd hn ++ [q])
  | None => hn
  end.
Definition before_root : heap * list nat := let '(h1, c) := mc_new [] in let '(h2, p) := alloc h1 (CMc c) in (h2, [p]).
Definition tree_env_before (n : nat) : heap * list nat :=
  fold_left before_step (firstn n [(0, 11%Z, 21%Z); (1, 12%Z, 22%Z); (2, 13%Z, 23%Z); (3, 14%Z, 100%Z); (3, 14%Z, 200%Z)]) before_root.

Example tree_env_before_aliases :
  let '(h4, n4) := tree_env_before 4 in
  let '(h5, n5) := tree_env_before 5 in
  environ_of h4 (NM (nth 4 n4 0)) = [11; 21; 12; 22; 13; 23; 14; 100]%Z /\
  environ_of h5 (NM (nth 4 n5 0)) = [11; 21; 12; 22; 13; 23; 14; 200]%Z.      (* changed by deriving a sibling *)
Proof. vm_compute. split; reflexivity. Qed.

(* overriding a key in a child rewrote the parent (before); it does not now *)
Example override_before_rewrites_parent :
  let '(h1, n1) := fold_left before_step [(0, 7%Z, 1%Z)] before_root in
  let '(h2, n2) := fold_left before_step [(0, 7%Z, 1%Z); (1, 7%Z, 2%Z)] before_root in
  environ_of h1 (NM (nth 1 n1 0)) = [7; 1]%Z /\ environ_of h2 (NM (nth 1 n2 0)) = [7; 2]%Z.
Proof. vm_compute. split; reflexivity. Qed.
Example override_current_keeps_parent :
  let st := run grow_double init [ONewModuleConfig; OM 0 (MWithEnv 7 1); OM 1 (MWithEnv 7 2)] in
  environ_of (st_heap st) (nth_node st 1) = [7; 1]%Z /\ environ_of (st_heap st) (nth_node st 2) = [7; 2]%Z.
Proof. vm_compute. split; reflexivity. Qed.

(* InstantiateModule with a sock config in the context: before the repair the caller's struct was written *)
Definition tree_sock : list op := [ONewModuleConfig; ONewSockConfig; OS 1 5; OM 0 (MWithName 9)].
Definition sock_of (h : heap) (n : node) : option nat :=
  match n with NM p => match get_mc h p with Some c => m_sockConfig c | None => None end | _ => None end.

Example instantiate_before_writes_caller :
  let st := run grow_double init tree_sock in
  match nth_node st 3, nth_node st 2 with
  | NM p, NS q =>
      sock_of (st_heap st) (NM p) = None /\
      option_map (fun h => sock_of h (NM p)) (instantiate_before (st_heap st) p (Some q)) = Some (Some q)
  | _, _ => False
  end.
Proof. vm_compute. split; reflexivity. Qed.
Example instantiate_current_keeps_caller :
  let st := run grow_double init tree_sock in
  let st' := step grow_double st (OInstantiate 3 (Some 2)) in
  resolve_sock st (Some 2) <> None /\ length (st_heap st) < length (st_heap st') /\
  sock_of (st_heap st') (nth_node st' 3) = None /\ view (st_heap st') (nth_node st' 3) = view (st_heap st) (nth_node st 3).
Proof. vm_compute. splits; try reflexivity; [discriminate | lia]. Qed.

(* one tree through every kind of operation: all views defined, sharing as in the code (WithNanosleep shares
   its receiver's environ array; WithSysFSMount with an UnimplementedFS returns the receiver itself) *)
Definition tree_all : list op :=
  [ONewRuntimeConfig (-1); OR 0 (RWithMemoryLimitPages 10); OR 1 (RWithDebugInfoEnabled false); OR 0 (RWithMemoryLimitPages 65537);
   ONewFSConfig; OF 3 (FWithDirMount 30 31 31); OF 4 (FWithReadOnlyDirMount 32 33 31); OF 4 (FWithFSMount 0 34 35);
   OF 5 (FWithSysFSMount 40 36 36 true);
   ONewModuleConfig; OM 8 (MWithArgs [50; 51]%Z); OM 9 (MWithEnv 52 53); OM 10 (MWithNanosleep 3); OM 11 (MWithEnv 52 54);
   OM 11 (MWithFSConfig (Some 5)); OM 8 (MWithFS 60); OM 8 (MWithStartFunctions []); OM 13 (MWithSysWalltime);
   ONewSockConfig; OS 17 70; OInstantiate 13 (Some 18); ONewRuntime 1].
Example tree_all_shape :
  let st := run grow_double init tree_all in
  length (st_nodes st) = 19 /\                                         (* the panicking WithMemoryLimitPages made no node *)
  nth_node st 7 = nth_node st 5 /\                                     (* `return c` *)
  map (environ_of (st_heap st)) (map (nth_node st) [10; 11; 12]) = [[52; 53]; [52; 53]; [52; 54]]%Z /\
  (match nth_node st 10, nth_node st 11 with
   | NM p, NM q => option_map m_environ (get_mc (st_heap st) p) = option_map m_environ (get_mc (st_heap st) q)
   | _, _ => False end).
Proof. vm_compute. splits; reflexivity. Qed.

(* ------------------------------------------------------------------------------------------ *)
(* the copy InstantiateModule works on shows the guest exactly what the caller's configuration shows *)
Section GuestView.
Variable grow : nat -> nat -> nat.
Hypothesis grow_ok : forall l n, n <= grow l n.

Lemma append_nil_content h s h1 e :
  wf_slice h s -> append grow h nil_slice (sview h s) = (h1, e) -> sview h1 e = sview h s.
Proof.
  intros Hw. pose proof (sview_length _ _ Hw) as Hl. unfold append.
  destruct (sview h s) as [|x xs] eqn:Ex.
  - intros E. injection E as <- <-. reflexivity.
  - cbn [len cap nil_slice]. rewrite alloc_eq.
    destruct (0 + length (x :: xs) <=? 0) eqn:Ec; [apply Nat.leb_le in Ec; cbn [length] in Ec; lia|].
    intros E. injection E as <- <-. unfold sview at 1. cbn [aid len].
    unfold arr. rewrite nth_error_new. unfold sview. cbn [len nil_slice firstn app].
    rewrite firstn_app, Nat.sub_diag. cbn [firstn]. rewrite app_nil_r. f_equal. apply firstn_all.
Qed.

Lemma instantiate_guest_view h p c s h' g :
  nth_error h p = Some (CMc c) -> wf_mcfg h c -> instantiate grow h p s = Some (h', g) -> g = guest_view h c.
Proof.
  intros Hc Hwf. unfold instantiate, get_mc. rewrite Hc. destruct s as [q|]; [|intros E; now injection E as <- <-].
  destruct (mc_clone grow h c) as [h1 ret] eqn:Ec. rewrite alloc_eq, nth_error_new. intros E. injection E as <- <-.
  destruct (mc_clone_wf grow grow_ok _ _ _ _ Hwf Ec) as (X1 & Wr & Le & Mk & Er).
  assert (X2 : ext h (h1 ++ [CMc (mset_sockConfig ret (Some q))])) by (eapply ext_trans; [exact X1 | apply ext_app]).
  rewrite <- (guest_view_ext _ _ _ X2 Hwf).
  unfold guest_view. rewrite Er. unfold mset_sockConfig, mset_environKeys, mset_environ. msimpl. f_equal. f_equal.
  (* the environment: the clone's fresh array holds the same elements *)
  destruct Hwf as (_ & _ & H3 & _). destruct Wr as (_ & _ & R3 & _).
  unfold mc_clone in Ec.
  destruct (append grow h nil_slice (sview h (m_environ c))) as [h1a e] eqn:Ea.
  rewrite alloc_eq in Ec. injection Ec as <- <-. msimpl.
  pose proof (append_nil_content _ _ _ _ H3 Ea) as Hcont.
  destruct (append_wf grow grow_ok _ _ _ _ _ (wf_nil h) Ea) as (A1 & _).
  rewrite (sview_ext h1a _ e) by (try (eapply ext_trans; apply ext_app); exact A1).
  rewrite Hcont. symmetry. apply sview_ext; [exact X2 | exact H3].
Qed.

Lemma instantiate_same_guest_view ops i p c sock h' g :
  let st := run grow init ops in
  nth_error (st_nodes st) i = Some (NM p) -> get_mc (st_heap st) p = Some c ->
  instantiate grow (st_heap st) p sock = Some (h', g) -> g = guest_view (st_heap st) c.
Proof.
  intros st Hn Hg. pose proof (nth_inv _ _ _ (reachable_inv grow grow_ok ops) Hn) as [c' [Hc Hw]].
  fold st in Hc, Hw. unfold get_mc in Hg. rewrite Hc in Hg. injection Hg as ->.
  now apply instantiate_guest_view.
Qed.
End GuestView.
