(* C03: proofs about the LEB128 model coq/Wasm/Leb.v (internal/leb128/leb128.go).
   (A) number of bytes consumed, (B) value ranges, (C) encode/decode round trips with the
   canonical length bound, (D) closed examples. *)
From Verif Require Import Lib.GoInt Wasm.Leb.
From Coq Require Import ZifyBool.
Open Scope Z_scope.
Ltac Zify.zify_post_hook ::= Z.div_mod_to_equations.

Definition bytes_ok (bs : list Z) : Prop := Forall (fun b => 0 <= b < 256) bs.

(* ------------------------------------------------------------------ *)
(* bit-level to arithmetic bridge                                      *)
(* ------------------------------------------------------------------ *)

Lemma pow2_pos n : 0 <= n -> 0 < 2 ^ n.
Proof. intros. apply Z.pow_pos_nonneg; lia. Qed.

Lemma lor_disj a x s : 0 <= s -> 0 <= a < 2 ^ s -> x mod 2 ^ s = 0 -> Z.lor a x = a + x.
Proof.
  intros Hs Ha Hx.
  assert (Hl : Z.land a x = 0).
  { apply Z.bits_inj'. intros i Hi. rewrite Z.land_spec, Z.bits_0.
    destruct (Z.lt_ge_cases i s) as [Hlt | Hge].
    - assert (Ex : x = (x / 2 ^ s) * 2 ^ s).
      { pose proof (pow2_pos s Hs). pose proof (Z.div_mod x (2 ^ s) ltac:(lia)). lia. }
      rewrite Ex, Z.mul_pow2_bits_low by lia. apply andb_false_r.
    - rewrite <- (Z.mod_small a (2 ^ s)) by lia.
      rewrite Z.mod_pow2_bits_high by lia. reflexivity. }
  rewrite (Z.add_nocarry_lxor _ _ Hl). symmetry. apply Z.lxor_lor. exact Hl.
Qed.

Lemma land_pow2 k z : 0 <= k -> Z.land z (2 ^ k) = 2 ^ k * ((z / 2 ^ k) mod 2).
Proof.
  intros Hk. apply Z.bits_inj'. intros i Hi.
  rewrite Z.land_spec, Z.pow2_bits_eqb by lia.
  rewrite (Z.mul_comm (2 ^ k)).
  destruct (Z.lt_ge_cases i k) as [Hlt | Hge].
  - rewrite Z.mul_pow2_bits_low by lia.
    replace (k =? i) with false by (symmetry; apply Z.eqb_neq; lia). apply andb_false_r.
  - rewrite Z.mul_pow2_bits by lia.
    change 2 with (2 ^ 1) at 2.
    destruct (Z.eqb_spec k i) as [E | E].
    + subst i. rewrite Z.sub_diag, Z.mod_pow2_bits_low by lia.
      rewrite Z.div_pow2_bits by lia. rewrite Z.add_0_l. apply andb_true_r.
    + rewrite Z.mod_pow2_bits_high by lia. apply andb_false_r.
Qed.

Lemma land127 z : Z.land z 127 = z mod 128.
Proof. change 127 with (Z.ones 7). rewrite Z.land_ones by lia. reflexivity. Qed.

Lemma land64 z : Z.land z 64 = 64 * ((z / 64) mod 2).
Proof. change 64 with (2 ^ 6). apply land_pow2. lia. Qed.

Lemma land128 z : Z.land z 128 = 128 * ((z / 128) mod 2).
Proof. change 128 with (2 ^ 7). apply land_pow2. lia. Qed.

Lemma land32 z : Z.land z 32 = 32 * ((z / 32) mod 2).
Proof. change 32 with (2 ^ 5). apply land_pow2. lia. Qed.

Lemma land_2p32 z : Z.land z 4294967296 = 4294967296 * ((z / 4294967296) mod 2).
Proof. change 4294967296 with (2 ^ 32). apply land_pow2. lia. Qed.

Lemma land_ones33 z : Z.land z 8589934591 = z mod 8589934592.
Proof. change 8589934591 with (Z.ones 33). rewrite Z.land_ones by lia. reflexivity. Qed.

Lemma lor128 b : 0 <= b < 128 -> Z.lor b 128 = b + 128.
Proof. intros. apply (lor_disj b 128 7); [lia | exact H | reflexivity]. Qed.

(* brute force over bytes *)
Fixpoint all_below (n : nat) (P : Z -> bool) : bool :=
  match n with O => true | S k => P (Z.of_nat k) && all_below k P end.

Lemma all_below_spec n P : all_below n P = true -> forall b, 0 <= b < Z.of_nat n -> P b = true.
Proof.
  induction n as [|n IH]; intros H b Hb.
  - lia.
  - cbn [all_below] in H. apply andb_prop in H. destruct H as [H1 H2].
    destruct (Z.eq_dec b (Z.of_nat n)) as [E | E].
    + subst b. exact H1.
    + apply IH; [exact H2 | lia].
Qed.

Ltac byte_brute b H :=
  apply Z.eqb_eq;
  match goal with |- ?g = true =>
    match eval pattern b in g with
    | ?P _ => apply (all_below_spec 256 P); [vm_compute; reflexivity | exact H]
    end end.

Lemma byte_land240 b : 0 <= b < 256 -> Z.land b 240 = 16 * (b / 16).
Proof. intros H. byte_brute b H. Qed.
Lemma byte_land48 b : 0 <= b < 256 -> Z.land b 48 = 16 * ((b / 16) mod 4).
Proof. intros H. byte_brute b H. Qed.
Lemma byte_land62 b : 0 <= b < 256 -> Z.land b 62 = 2 * ((b / 2) mod 32).
Proof. intros H. byte_brute b H. Qed.
Lemma byte_land_not128 b : 0 <= b < 256 -> Z.land b (Z.lnot 128) = b mod 128.
Proof. intros H. byte_brute b H. Qed.

(* ------------------------------------------------------------------ *)
(* range of Z.lor on unsigned / signed fixed-width values              *)
(* ------------------------------------------------------------------ *)

Lemma lor_u_range w a b : 0 <= w -> 0 <= a < 2 ^ w -> 0 <= b < 2 ^ w -> 0 <= Z.lor a b < 2 ^ w.
Proof.
  intros Hw Ha Hb. pose proof (pow2_pos w Hw) as Hp.
  assert (E : Z.lor a b / 2 ^ w = 0).
  { rewrite <- Z.shiftr_div_pow2, Z.shiftr_lor, !Z.shiftr_div_pow2 by lia.
    rewrite (Z.div_small a), (Z.div_small b) by lia. reflexivity. }
  apply Z.div_small_iff in E; lia.
Qed.

Lemma in_s_div w z : 0 < w -> in_s w z <-> (z / 2 ^ (w - 1) = 0 \/ z / 2 ^ (w - 1) = -1).
Proof.
  intros Hw. unfold in_s. pose proof (pow2_pos (w - 1) ltac:(lia)) as Hp.
  set (p := 2 ^ (w - 1)) in *.
  pose proof (Z.div_mod z p ltac:(lia)) as Hd.
  pose proof (Z.mod_pos_bound z p Hp) as Hm.
  split.
  - intros [Hl Hh].
    assert (-1 <= z / p) by (apply Z.div_le_lower_bound; lia).
    assert (z / p < 1) by (apply Z.div_lt_upper_bound; lia).
    lia.
  - intros [E | E]; rewrite E in Hd; lia.
Qed.

Lemma lor_s_range w a b : 0 < w -> in_s w a -> in_s w b -> in_s w (Z.lor a b).
Proof.
  intros Hw Ha Hb. apply in_s_div in Ha; [|exact Hw]. apply in_s_div in Hb; [|exact Hw].
  apply in_s_div; [exact Hw|].
  rewrite <- Z.shiftr_div_pow2, Z.shiftr_lor, !Z.shiftr_div_pow2 by lia.
  destruct Ha as [-> | ->], Hb as [-> | ->]; cbn; auto.
Qed.

Lemma shlv_range w x k : 0 <= w -> 0 <= shlv w x k < 2 ^ w.
Proof.
  intros Hw. unfold shlv. destruct (k <? w).
  - apply wrap_range; exact Hw.
  - pose proof (pow2_pos w Hw). lia.
Qed.

Lemma sshlv_range w x k : 0 < w -> in_s w (sshlv w x k).
Proof.
  intros Hw. unfold sshlv. destruct (k <? w).
  - apply swrap_range; exact Hw.
  - unfold in_s. pose proof (pow2_pos (w - 1) ltac:(lia)). lia.
Qed.

(* ------------------------------------------------------------------ *)
(* (A) number of bytes consumed                                        *)
(* ------------------------------------------------------------------ *)

Lemma decU_len : forall fuel w last chk bs i s ret v n,
  decU w last chk fuel bs i s ret = LOk v n ->
  i + 1 <= n <= i + Z.of_nat fuel /\ n - i <= Z.of_nat (length bs).
Proof.
  induction fuel as [|f IH]; intros w last chk bs i s ret v n H; cbn [decU] in H.
  - discriminate.
  - destruct bs as [|b r]; [discriminate|].
    destruct (b <? 128).
    + destruct ((i =? last) && chk b); [discriminate|].
      injection H as _ Hn. subst n. cbn [length]. lia.
    + apply IH in H. cbn [length]. lia.
Qed.

Lemma DecodeUint32_len : forall bs v n, DecodeUint32 bs = LOk v n -> 1 <= n <= 5 /\ n <= Z.of_nat (length bs).
Proof. intros bs v n H. apply decU_len in H. lia. Qed.

Lemma LoadUint64_len : forall bs v n, LoadUint64 bs = LOk v n -> 1 <= n <= 10 /\ n <= Z.of_nat (length bs).
Proof. intros bs v n H. apply decU_len in H. lia. Qed.

Lemma decS_len : forall bs w maxlen umask ret shift n0 v n,
  decS w maxlen umask bs ret shift n0 = LOk v n ->
  n0 + 1 <= n <= maxlen /\ n - n0 <= Z.of_nat (length bs).
Proof.
  induction bs as [|b r IH]; intros w maxlen umask ret shift n0 v n H; cbn [decS] in H.
  - discriminate.
  - destruct (Z.land b 128 =? 0).
    + destruct (Z.ltb_spec maxlen (n0 + 1)); [discriminate|].
      match type of H with (if ?c then _ else _) = _ => destruct c; [discriminate|] end.
      match type of H with (if ?c then _ else _) = _ => destruct c; [discriminate|] end.
      injection H as _ Hn. subst n. cbn [length]. lia.
    + apply IH in H. cbn [length]. lia.
Qed.

Lemma DecodeInt32_len : forall bs v n, DecodeInt32 bs = LOk v n -> 1 <= n <= 5 /\ n <= Z.of_nat (length bs).
Proof. intros bs v n H. apply decS_len in H. lia. Qed.

Lemma DecodeInt64_len : forall bs v n, DecodeInt64 bs = LOk v n -> 1 <= n <= 10 /\ n <= Z.of_nat (length bs).
Proof. intros bs v n H. apply decS_len in H. lia. Qed.

Lemma fin33_len ret shift n0 b v n : fin33 ret shift n0 b = LOk v n -> n = n0 /\ n0 <= 5.
Proof.
  unfold fin33. intros H.
  destruct (Z.ltb_spec 5 n0); [discriminate|].
  match type of H with (if ?c then _ else _) = _ => destruct c; [discriminate|] end.
  match type of H with (if ?c then _ else _) = _ => destruct c; [discriminate|] end.
  injection H as _ Hn. lia.
Qed.

Lemma dec33_len : forall fuel bs ret shift n0 b v n,
  dec33 fuel bs ret shift n0 b = LOk v n ->
  n0 <= n <= 5 /\ n - n0 <= Z.of_nat (length bs) /\ ((0 < fuel)%nat -> n0 + 1 <= n).
Proof.
  induction fuel as [|f IH]; intros bs ret shift n0 b v n H; cbn [dec33] in H.
  - apply fin33_len in H. lia.
  - destruct bs as [|rb r]; [discriminate|].
    destruct (Z.land rb 128 =? 0).
    + apply fin33_len in H. cbn [length]. lia.
    + apply IH in H. cbn [length]. lia.
Qed.

Lemma DecodeInt33AsInt64_len : forall bs v n,
  DecodeInt33AsInt64 bs = LOk v n -> 1 <= n <= 5 /\ n <= Z.of_nat (length bs).
Proof. intros bs v n H. apply dec33_len in H. lia. Qed.

(* ------------------------------------------------------------------ *)
(* (B) value ranges                                                    *)
(* ------------------------------------------------------------------ *)

Lemma decU_range : forall fuel w last chk bs i s ret v n,
  0 <= w -> 0 <= ret < 2 ^ w ->
  decU w last chk fuel bs i s ret = LOk v n -> 0 <= v < 2 ^ w.
Proof.
  induction fuel as [|f IH]; intros w last chk bs i s ret v n Hw Hr H; cbn [decU] in H.
  - discriminate.
  - destruct bs as [|b r]; [discriminate|].
    destruct (b <? 128).
    + destruct ((i =? last) && chk b); [discriminate|].
      injection H as Hv _. subst v. apply lor_u_range; [exact Hw | exact Hr | apply shlv_range; exact Hw].
    + eapply IH; [exact Hw | | exact H].
      apply lor_u_range; [exact Hw | exact Hr | apply shlv_range; exact Hw].
Qed.

Lemma DecodeUint32_range : forall bs v n, bytes_ok bs -> DecodeUint32 bs = LOk v n -> 0 <= v < 2 ^ 32.
Proof. intros bs v n _ H. apply decU_range in H; lia. Qed.

Lemma LoadUint64_range : forall bs v n, bytes_ok bs -> LoadUint64 bs = LOk v n -> 0 <= v < 2 ^ 64.
Proof. intros bs v n _ H. apply decU_range in H; lia. Qed.

Lemma decS_range : forall bs w maxlen umask ret shift n0 v n,
  0 < w -> in_s w ret ->
  decS w maxlen umask bs ret shift n0 = LOk v n -> in_s w v.
Proof.
  induction bs as [|b r IH]; intros w maxlen umask ret shift n0 v n Hw Hr H; cbn [decS] in H.
  - discriminate.
  - assert (H1 : in_s w (Z.lor ret (sshlv w (Z.land b 127) shift))).
    { apply lor_s_range; [exact Hw | exact Hr | apply sshlv_range; exact Hw]. }
    destruct (Z.land b 128 =? 0).
    + destruct (maxlen <? n0 + 1); [discriminate|].
      match type of H with (if ?c then _ else _) = _ => destruct c; [discriminate|] end.
      match type of H with (if ?c then _ else _) = _ => destruct c; [discriminate|] end.
      injection H as Hv _. subst v.
      destruct ((shift + 7 <? w) && negb (Z.land b 64 =? 0)); [|exact H1].
      apply lor_s_range; [exact Hw | exact H1 | apply sshlv_range; exact Hw].
    + eapply IH; [exact Hw | exact H1 | exact H].
Qed.

Lemma DecodeInt32_range : forall bs v n, bytes_ok bs -> DecodeInt32 bs = LOk v n -> - 2 ^ 31 <= v < 2 ^ 31.
Proof.
  intros bs v n _ H. apply decS_range in H; [exact H | lia |].
  unfold in_s; lia.
Qed.

Lemma DecodeInt64_range : forall bs v n, bytes_ok bs -> DecodeInt64 bs = LOk v n -> - 2 ^ 63 <= v < 2 ^ 63.
Proof.
  intros bs v n _ H. apply decS_range in H; [exact H | lia |].
  unfold in_s; lia.
Qed.

Lemma fin33_range ret shift n0 b v n : fin33 ret shift n0 b = LOk v n -> - 2 ^ 32 <= v < 2 ^ 32.
Proof.
  unfold fin33. intros H.
  destruct (5 <? n0); [discriminate|].
  match type of H with (if ?c then _ else _) = _ => destruct c; [discriminate|] end.
  match type of H with (if ?c then _ else _) = _ => destruct c; [discriminate|] end.
  injection H as Hv _. subst v.
  rewrite land_ones33. rewrite land_2p32.
  match goal with |- context [?x mod 8589934592] => generalize x; intros r end.
  destruct (Z.ltb_spec 0 (4294967296 * ((r mod 8589934592 / 4294967296) mod 2))); lia.
Qed.

Lemma dec33_range : forall fuel bs ret shift n0 b v n,
  dec33 fuel bs ret shift n0 b = LOk v n -> - 2 ^ 32 <= v < 2 ^ 32.
Proof.
  induction fuel as [|f IH]; intros bs ret shift n0 b v n H; cbn [dec33] in H.
  - eapply fin33_range; exact H.
  - destruct bs as [|rb r]; [discriminate|].
    destruct (Z.land rb 128 =? 0).
    + eapply fin33_range; exact H.
    + eapply IH; exact H.
Qed.

Lemma DecodeInt33AsInt64_range : forall bs v n,
  bytes_ok bs -> DecodeInt33AsInt64 bs = LOk v n -> - 2 ^ 32 <= v < 2 ^ 32.
Proof. intros bs v n _ H. eapply dec33_range; exact H. Qed.

(* ------------------------------------------------------------------ *)
(* (C) round trips                                                     *)
(* ------------------------------------------------------------------ *)

(* evaluate a closed subterm (literal positions / shift amounts) everywhere *)
Ltac ev t := let v := eval vm_compute in t in change t with v in *.

(* the accumulation `ret |= x << s` is an addition when ret occupies only the bits below s *)
Lemma wrap_mul_pow w b s : 0 <= s <= w -> (wrap w (b * 2 ^ s)) mod 2 ^ s = 0.
Proof.
  intros H. unfold wrap.
  replace (2 ^ w) with (2 ^ (w - s) * 2 ^ s) by (rewrite <- Z.pow_add_r by lia; f_equal; lia).
  pose proof (pow2_pos s ltac:(lia)). pose proof (pow2_pos (w - s) ltac:(lia)).
  rewrite Z.mul_mod_distr_r by lia. apply Z.mod_mul. lia.
Qed.

Lemma swrap_mul_pow w b s : 0 <= s < w -> (swrap w (b * 2 ^ s)) mod 2 ^ s = 0.
Proof.
  intros H. unfold swrap.
  replace (2 ^ w) with (2 ^ (w - s) * 2 ^ s) by (rewrite <- Z.pow_add_r by lia; f_equal; lia).
  replace (2 ^ (w - 1)) with (2 ^ (w - 1 - s) * 2 ^ s) by (rewrite <- Z.pow_add_r by lia; f_equal; lia).
  pose proof (pow2_pos s ltac:(lia)). pose proof (pow2_pos (w - s) ltac:(lia)).
  rewrite <- Z.mul_add_distr_r.
  rewrite Z.mul_mod_distr_r by lia. rewrite <- Z.mul_sub_distr_r. apply Z.mod_mul. lia.
Qed.

Lemma accU w ret b s : 0 <= s < w -> 0 <= ret < 2 ^ s ->
  Z.lor ret (shlv w b s) = ret + wrap w (b * 2 ^ s).
Proof.
  intros Hs Hr. unfold shlv. replace (s <? w) with true by (symmetry; apply Z.ltb_lt; lia).
  apply (lor_disj _ _ s); [lia | exact Hr | apply wrap_mul_pow; lia].
Qed.

Lemma accS w ret b s : 0 <= s < w -> 0 <= ret < 2 ^ s ->
  Z.lor ret (sshlv w b s) = ret + swrap w (b * 2 ^ s).
Proof.
  intros Hs Hr. unfold sshlv. replace (s <? w) with true by (symmetry; apply Z.ltb_lt; lia).
  apply (lor_disj _ _ s); [lia | exact Hr | apply swrap_mul_pow; lia].
Qed.

Lemma encU_stop f x : 0 <= x < 128 -> encU (S f) x = Some [x].
Proof.
  intros H. cbn [encU]. rewrite land127. unfold shr. change (2 ^ 7) with 128.
  rewrite (Z.div_small x 128), (Z.mod_small x 128) by lia. cbn [Z.eqb negb].
  replace (Z.land x 128 =? 0) with true by (rewrite land128; lia). reflexivity.
Qed.

Lemma encU_cont f x : 128 <= x ->
  encU (S f) x = match encU f (x / 128) with Some l => Some ((x mod 128 + 128) :: l) | None => None end.
Proof.
  intros H. cbn [encU]. rewrite land127. unfold shr. change (2 ^ 7) with 128.
  replace (x / 128 =? 0) with false by lia. cbn [negb].
  rewrite lor128 by lia.
  replace (Z.land (x mod 128 + 128) 128 =? 0) with false by (rewrite land128; lia). reflexivity.
Qed.

Lemma decU_stop w last chk f b r i s ret : b < 128 ->
  decU w last chk (S f) (b :: r) i s ret =
  if (i =? last) && chk b then LOvf else LOk (Z.lor ret (shlv w b s)) (i + 1).
Proof. intros H. cbn [decU]. replace (b <? 128) with true by lia. reflexivity. Qed.

Lemma decU_cont w last chk f b r i s ret : 128 <= b ->
  decU w last chk (S f) (b :: r) i s ret =
  decU w last chk f r (i + 1) (wrap w (s + 7)) (Z.lor ret (shlv w (b mod 128) s)).
Proof. intros H. cbn [decU]. replace (b <? 128) with false by lia. rewrite land127. reflexivity. Qed.

(* unsigned round trip: at byte position i the encoder holds V / 2^(7i) and the decoder V mod 2^(7i);
   the position is split into literal cases so that lia sees only literal powers of two *)

Lemma rtU32 : forall (k : nat) i s x ret V rest,
  0 <= V < 2 ^ 32 -> 0 <= i -> i + Z.of_nat k = 5 -> (1 <= k)%nat ->
  s = 7 * i -> x = V / 2 ^ s -> ret = V mod 2 ^ s ->
  exists l, encU (k + 5) x = Some l /\ bytes_ok l /\ (1 <= length l <= k)%nat /\
    decU 32 4 (fun b => 0 <? Z.land b 240) k (l ++ rest) i s ret = LOk V (i + Z.of_nat (length l)).
Proof.
  induction k as [|k IH]; intros i s x ret V rest HV Hi Hk Hk1 Hs Hx Hr; [lia|].
  cbn [Nat.add].
  assert (Hc : i = 0 \/ i = 1 \/ i = 2 \/ i = 3 \/ i = 4) by lia.
  destruct Hc as [->| [->| [->| [->| ->]]]].
  all: vm_compute in Hs; subst s.
  all: destruct (Z.ltb_spec x 128) as [Hlt | Hge].
  all: try (rewrite encU_stop by lia;
      exists [x]; split; [|split; [|split]];
      [ reflexivity
      | constructor; [lia | constructor]
      | cbn [length]; lia
      | cbn [app length]; rewrite decU_stop by lia;
        (replace (_ && _) with false by (rewrite ?byte_land240 by lia; lia));
        rewrite accU by lia; f_equal; unfold wrap; lia ]).
  all: try (exfalso; lia).
  all: rewrite encU_cont by lia.
  all: match goal with |- context [decU _ _ _ _ _ ?i ?s _] =>
         let i' := eval vm_compute in (i + 1) in
         let s' := eval vm_compute in (s + 7) in
         destruct (IH i' s' (x / 128) (ret + (x mod 128) * 2 ^ s) V rest
           ltac:(lia) ltac:(lia) ltac:(lia) ltac:(lia) ltac:(lia) ltac:(lia) ltac:(lia)) as (l & He & Hb & Hl & Hd) end.
  all: rewrite He; exists ((x mod 128 + 128) :: l); split; [|split; [|split]];
    [ reflexivity
    | constructor; [lia | exact Hb]
    | cbn [length]; lia
    | cbn [app length]; rewrite decU_cont by lia;
      replace ((x mod 128 + 128) mod 128) with (x mod 128) by lia;
      rewrite accU by lia;
      match type of Hd with _ = LOk _ ?n => 
        match goal with |- _ = LOk _ ?m => replace m with n by lia end end;
      rewrite <- Hd; f_equal; try reflexivity; unfold wrap; lia ].
Qed.

Lemma rtU64 : forall (k : nat) i s x ret V rest,
  0 <= V < 2 ^ 64 -> 0 <= i -> i + Z.of_nat k = 10 -> (1 <= k)%nat ->
  s = 7 * i -> x = V / 2 ^ s -> ret = V mod 2 ^ s ->
  exists l, encU (k + 0) x = Some l /\ bytes_ok l /\ (1 <= length l <= k)%nat /\
    decU 64 9 (fun b => 1 <? b) k (l ++ rest) i s ret = LOk V (i + Z.of_nat (length l)).
Proof.
  induction k as [|k IH]; intros i s x ret V rest HV Hi Hk Hk1 Hs Hx Hr; [lia|].
  cbn [Nat.add].
  assert (Hc : i = 0 \/ i = 1 \/ i = 2 \/ i = 3 \/ i = 4 \/ i = 5 \/ i = 6 \/ i = 7 \/ i = 8 \/ i = 9) by lia.
  destruct Hc as [->| [->| [->| [->| [->| [->| [->| [->| [->| ->]]]]]]]]].
  all: vm_compute in Hs; subst s.
  all: destruct (Z.ltb_spec x 128) as [Hlt | Hge].
  all: try (rewrite encU_stop by lia;
      exists [x]; split; [|split; [|split]];
      [ reflexivity
      | constructor; [lia | constructor]
      | cbn [length]; lia
      | cbn [app length]; rewrite decU_stop by lia;
        (replace (_ && _) with false by (rewrite ?byte_land240 by lia; lia));
        rewrite accU by lia; f_equal; unfold wrap; lia ]).
  all: try (exfalso; lia).
  all: rewrite encU_cont by lia.
  all: match goal with |- context [decU _ _ _ _ _ ?i ?s _] =>
         let i' := eval vm_compute in (i + 1) in
         let s' := eval vm_compute in (s + 7) in
         destruct (IH i' s' (x / 128) (ret + (x mod 128) * 2 ^ s) V rest
           ltac:(lia) ltac:(lia) ltac:(lia) ltac:(lia) ltac:(lia) ltac:(lia) ltac:(lia)) as (l & He & Hb & Hl & Hd) end.
  all: rewrite He; exists ((x mod 128 + 128) :: l); split; [|split; [|split]];
    [ reflexivity
    | constructor; [lia | exact Hb]
    | cbn [length]; lia
    | cbn [app length]; rewrite decU_cont by lia;
      replace ((x mod 128 + 128) mod 128) with (x mod 128) by lia;
      rewrite accU by lia;
      match type of Hd with _ = LOk _ ?n => 
        match goal with |- _ = LOk _ ?m => replace m with n by lia end end;
      rewrite <- Hd; f_equal; try reflexivity; unfold wrap; lia ].
Qed.

Lemma EncodeUint32_roundtrip : forall v rest, 0 <= v < 2 ^ 32 ->
  exists l, EncodeUint32 v = Some l /\ bytes_ok l /\ (1 <= length l <= 5)%nat /\
    DecodeUint32 (l ++ rest) = LOk v (Z.of_nat (length l)).
Proof.
  intros v rest Hv.
  destruct (rtU32 5 0 0 v 0 v rest) as (l & He & Hb & Hl & Hd); try lia.
  exists l. split; [exact He | split; [exact Hb | split; [exact Hl | exact Hd]]].
Qed.

Lemma EncodeUint64_roundtrip : forall v rest, 0 <= v < 2 ^ 64 ->
  exists l, EncodeUint64 v = Some l /\ bytes_ok l /\ (1 <= length l <= 10)%nat /\
    LoadUint64 (l ++ rest) = LOk v (Z.of_nat (length l)).
Proof.
  intros v rest Hv.
  destruct (rtU64 10 0 0 v 0 v rest) as (l & He & Hb & Hl & Hd); try lia.
  exists l. split; [exact He | split; [exact Hb | split; [exact Hl | exact Hd]]].
Qed.

(* signed round trips *)
Lemma encS_stop f x : -64 <= x < 64 -> encS (S f) x = Some [x mod 128].
Proof.
  intros H. cbn [encS]. rewrite land127, land64. unfold shr. change (2 ^ 7) with 128.
  match goal with |- context [if ?c then Z.lor _ _ else _] => replace c with false by lia end.
  replace (Z.land (x mod 128) 128 =? 0) with true by (rewrite land128; lia). reflexivity.
Qed.

Lemma encS_cont f x : x < -64 \/ 64 <= x ->
  encS (S f) x = match encS f (x / 128) with Some l => Some ((x mod 128 + 128) :: l) | None => None end.
Proof.
  intros H. cbn [encS]. rewrite land127, land64. unfold shr. change (2 ^ 7) with 128.
  match goal with |- context [if ?c then Z.lor _ _ else _] => replace c with true by lia end.
  rewrite lor128 by lia.
  replace (Z.land (x mod 128 + 128) 128 =? 0) with false by (rewrite land128; lia). reflexivity.
Qed.

Lemma decS_cont w m u b r ret shift n : 128 <= b < 256 ->
  decS w m u (b :: r) ret shift n = decS w m u r (Z.lor ret (sshlv w (b mod 128) shift)) (shift + 7) (n + 1).
Proof.
  intros H. cbn [decS]. rewrite land127.
  replace (Z.land b 128 =? 0) with false by (rewrite land128; lia). reflexivity.
Qed.

Lemma decS_stop w m u b r ret shift n : 0 <= b < 128 ->
  decS w m u (b :: r) ret shift n =
  let ret1 := Z.lor ret (sshlv w b shift) in
  let ret2 := if (shift + 7 <? w) && (64 <=? b) then Z.lor ret1 (sshlv w (-1) (shift + 7)) else ret1 in
  if m <? n + 1 then LOvf
  else if (n + 1 =? m) && (ret2 <? 0) && negb (Z.land b u =? u) then LOvf
  else if (n + 1 =? m) && (0 <=? ret2) && negb (Z.land b u =? 0) then LOvf
  else LOk ret2 (n + 1).
Proof.
  intros H. cbn [decS]. rewrite land127. rewrite (Z.mod_small b 128) by lia.
  replace (Z.land b 128 =? 0) with true by (rewrite land128; lia).
  replace (negb (Z.land b 64 =? 0)) with (64 <=? b) by (rewrite land64; lia).
  reflexivity.
Qed.

Lemma if3 c1 c2 c3 r n : c1 = false -> c2 = false -> c3 = false ->
  (if c1 then LOvf else if c2 then LOvf else if c3 then LOvf else LOk r n) = LOk r n.
Proof. intros -> -> ->. reflexivity. Qed.


Ltac rtS_stop x ret V bl :=
  rewrite encS_stop by lia;
  exists [x mod 128]; split; [|split; [|split]];
  [ reflexivity
  | constructor; [lia | constructor]
  | cbn [length]; lia
  | cbn [app length]; rewrite decS_stop by lia; cbv zeta;
    match goal with |- context [sshlv ?w (x mod 128) ?s] => rewrite (accS w ret (x mod 128) s) by lia end;
    match goal with |- context [LOk ?R _] =>
      let ER := fresh "ER" in assert (ER : R = V);
      [ match goal with |- context [?a + 7 <? ?w] => ev (a + 7 <? w) end;
        destruct (Z.leb_spec 64 (x mod 128)); cbn [andb];
        [ rewrite ?accS by (unfold swrap; lia) | ]; unfold swrap, sshlv; lia
      | rewrite ER; clear ER ]
    end;
    match goal with |- _ = LOk _ ?m => 
      match goal with |- context [LOk V ?n] => replace m with n by lia end end;
    apply if3; [ lia | rewrite bl by lia; lia | rewrite bl by lia; lia ] ].

Ltac rtS_cont IH x ret V rest :=
  rewrite encS_cont by lia;
  let l := fresh "l" in let He := fresh "He" in let Hb := fresh "Hb" in
  let Hl := fresh "Hl" in let Hd := fresh "Hd" in
  match goal with |- context [decS _ _ _ _ _ ?s ?i] =>
         let i' := eval vm_compute in (i + 1) in
         let s' := eval vm_compute in (s + 7) in
         destruct (IH i' s' (x / 128) (ret + (x mod 128) * 2 ^ s) V rest
           ltac:(lia) ltac:(lia) ltac:(lia) ltac:(lia) ltac:(lia) ltac:(lia) ltac:(lia)) as (l & He & Hb & Hl & Hd) end;
  rewrite He; exists ((x mod 128 + 128) :: l); split; [|split; [|split]];
    [ reflexivity
    | constructor; [lia | exact Hb]
    | cbn [length]; lia
    | cbn [app length]; rewrite decS_cont by lia;
      replace ((x mod 128 + 128) mod 128) with (x mod 128) by lia;
      rewrite accS by lia;
      match type of Hd with _ = LOk _ ?n => 
        match goal with |- _ = LOk _ ?m => replace m with n by lia end end;
      rewrite <- Hd; f_equal; try reflexivity; unfold swrap; lia ].

Lemma rtS32 : forall (k : nat) i s x ret V rest,
  - 2 ^ 31 <= V < 2 ^ 31 -> 0 <= i -> i + Z.of_nat k = 5 -> (1 <= k)%nat ->
  s = 7 * i -> x = V / 2 ^ s -> ret = V mod 2 ^ s ->
  exists l, encS (k + 5) x = Some l /\ bytes_ok l /\ (1 <= length l <= k)%nat /\
    decS 32 5 48 (l ++ rest) ret s i = LOk V (i + Z.of_nat (length l)).
Proof.
  induction k as [|k IH]; intros i s x ret V rest HV Hi Hk Hk1 Hs Hx Hr; [lia|].
  cbn [Nat.add].
  assert (Hc : i = 0 \/ i = 1 \/ i = 2 \/ i = 3 \/ i = 4) by lia.
  destruct Hc as [->| [->| [->| [->| ->]]]].
  all: vm_compute in Hs; subst s.
  all: assert (Hcase : -64 <= x < 64 \/ (x < -64 \/ 64 <= x)) by lia; destruct Hcase as [Hst | Hco].
  all: try (exfalso; lia).
  all: try (rtS_stop x ret V byte_land48).
  all: rtS_cont IH x ret V rest.
Qed.

Lemma rtS64 : forall (k : nat) i s x ret V rest,
  - 2 ^ 63 <= V < 2 ^ 63 -> 0 <= i -> i + Z.of_nat k = 10 -> (1 <= k)%nat ->
  s = 7 * i -> x = V / 2 ^ s -> ret = V mod 2 ^ s ->
  exists l, encS (k + 0) x = Some l /\ bytes_ok l /\ (1 <= length l <= k)%nat /\
    decS 64 10 62 (l ++ rest) ret s i = LOk V (i + Z.of_nat (length l)).
Proof.
  induction k as [|k IH]; intros i s x ret V rest HV Hi Hk Hk1 Hs Hx Hr; [lia|].
  cbn [Nat.add].
  assert (Hc : i = 0 \/ i = 1 \/ i = 2 \/ i = 3 \/ i = 4 \/ i = 5 \/ i = 6 \/ i = 7 \/ i = 8 \/ i = 9) by lia.
  destruct Hc as [->| [->| [->| [->| [->| [->| [->| [->| [->| ->]]]]]]]]].
  all: vm_compute in Hs; subst s.
  all: assert (Hcase : -64 <= x < 64 \/ (x < -64 \/ 64 <= x)) by lia; destruct Hcase as [Hst | Hco].
  all: try (exfalso; lia).
  all: try (rtS_stop x ret V byte_land62).
  all: rtS_cont IH x ret V rest.
Qed.

(* ---- Int33 ---- *)
Lemma dec33_stop f b r ret shift n pb : 0 <= b < 128 ->
  dec33 (S f) (b :: r) ret shift n pb = fin33 (Z.lor ret (sshlv 64 b shift)) (shift + 7) (n + 1) b.
Proof.
  intros H. cbn [dec33]. rewrite byte_land_not128 by lia. rewrite (Z.mod_small b 128) by lia.
  replace (Z.land b 128 =? 0) with true by (rewrite land128; lia). reflexivity.
Qed.

Lemma dec33_cont f b r ret shift n pb : 128 <= b < 256 ->
  dec33 (S f) (b :: r) ret shift n pb = dec33 f r (Z.lor ret (sshlv 64 (b mod 128) shift)) (shift + 7) (n + 1) b.
Proof.
  intros H. cbn [dec33]. rewrite byte_land_not128 by lia.
  replace (Z.land b 128 =? 0) with false by (rewrite land128; lia). reflexivity.
Qed.

Lemma fin33_ok ret shift n b V : - 2 ^ 32 <= V < 2 ^ 32 -> n <= 5 -> 0 <= b < 128 ->
  (if (shift <? 33) && (64 <=? b) then Z.lor ret (sshlv 64 8589934591 shift) else ret) mod 8589934592
    = V mod 8589934592 ->
  (n = 5 -> V < 0 -> 96 <= b) -> (n = 5 -> 0 <= V -> b < 32) ->
  fin33 ret shift n b = LOk V n.
Proof.
  intros HV Hn Hb HR Hneg Hpos. unfold fin33.
  replace (Z.land b 64 =? 64) with (64 <=? b) by (rewrite land64; lia).
  rewrite land_ones33, land_2p32, HR, land32.
  assert (E : (if 0 <? 4294967296 * ((V mod 8589934592 / 4294967296) mod 2)
               then V mod 8589934592 - 8589934592 else V mod 8589934592) = V).
  { destruct (Z.ltb_spec 0 (4294967296 * ((V mod 8589934592 / 4294967296) mod 2))); lia. }
  rewrite E. apply if3; lia.
Qed.

Lemma EncodeInt32_roundtrip : forall v rest, - 2 ^ 31 <= v < 2 ^ 31 ->
  exists l, EncodeInt32 v = Some l /\ bytes_ok l /\ (1 <= length l <= 5)%nat /\
    DecodeInt32 (l ++ rest) = LOk v (Z.of_nat (length l)).
Proof.
  intros v rest Hv.
  destruct (rtS32 5 0 0 v 0 v rest) as (l & He & Hb & Hl & Hd); try lia.
  exists l. split; [exact He | split; [exact Hb | split; [exact Hl | exact Hd]]].
Qed.

Lemma EncodeInt64_roundtrip : forall v rest, - 2 ^ 63 <= v < 2 ^ 63 ->
  exists l, EncodeInt64 v = Some l /\ bytes_ok l /\ (1 <= length l <= 10)%nat /\
    DecodeInt64 (l ++ rest) = LOk v (Z.of_nat (length l)).
Proof.
  intros v rest Hv.
  destruct (rtS64 10 0 0 v 0 v rest) as (l & He & Hb & Hl & Hd); try lia.
  exists l. split; [exact He | split; [exact Hb | split; [exact Hl | exact Hd]]].
Qed.

Ltac rt33_stop x ret V :=
  rewrite encS_stop by lia;
  exists [x mod 128]; split; [|split; [|split]];
  [ reflexivity
  | constructor; [lia | constructor]
  | cbn [length]; lia
  | cbn [app length]; rewrite dec33_stop by lia;
    match goal with |- context [sshlv ?w (x mod 128) ?s] => rewrite (accS w ret (x mod 128) s) by lia end;
    match goal with |- fin33 _ _ ?n _ = LOk _ ?m => replace m with n by lia end;
    apply fin33_ok; [ lia | lia | lia | | lia | lia ];
    match goal with |- context [?a + 7 <? 33] => ev (a + 7) end;
    match goal with |- context [?a <? 33] => ev (a <? 33) end;
    destruct (Z.leb_spec 64 (x mod 128)); cbn [andb];
    [ rewrite ?accS by (unfold swrap; lia) | ]; unfold swrap; lia ].

Ltac rt33_cont IH x ret V rest :=
  rewrite encS_cont by lia;
  let l := fresh "l" in let He := fresh "He" in let Hb := fresh "Hb" in
  let Hl := fresh "Hl" in let Hd := fresh "Hd" in
  match goal with |- context [dec33 _ _ _ ?s ?i _] =>
         let i' := eval vm_compute in (i + 1) in
         let s' := eval vm_compute in (s + 7) in
         destruct (IH i' s' (x / 128) (ret + (x mod 128) * 2 ^ s) V rest (x mod 128 + 128)
           ltac:(lia) ltac:(lia) ltac:(lia) ltac:(lia) ltac:(lia) ltac:(lia) ltac:(lia)) as (l & He & Hb & Hl & Hd) end;
  rewrite He; exists ((x mod 128 + 128) :: l); split; [|split; [|split]];
    [ reflexivity
    | constructor; [lia | exact Hb]
    | cbn [length]; lia
    | cbn [app length]; rewrite dec33_cont by lia;
      replace ((x mod 128 + 128) mod 128) with (x mod 128) by lia;
      rewrite accS by lia;
      match type of Hd with _ = LOk _ ?n => 
        match goal with |- _ = LOk _ ?m => replace m with n by lia end end;
      rewrite <- Hd; f_equal; try reflexivity; unfold swrap; lia ].

Lemma rt33 : forall (k : nat) i s x ret V rest pb,
  - 2 ^ 32 <= V < 2 ^ 32 -> 0 <= i -> i + Z.of_nat k = 5 -> (1 <= k)%nat ->
  s = 7 * i -> x = V / 2 ^ s -> ret = V mod 2 ^ s ->
  exists l, encS (k + 5) x = Some l /\ bytes_ok l /\ (1 <= length l <= k)%nat /\
    dec33 k (l ++ rest) ret s i pb = LOk V (i + Z.of_nat (length l)).
Proof.
  induction k as [|k IH]; intros i s x ret V rest pb HV Hi Hk Hk1 Hs Hx Hr; [lia|].
  cbn [Nat.add].
  assert (Hc : i = 0 \/ i = 1 \/ i = 2 \/ i = 3 \/ i = 4) by lia.
  destruct Hc as [->| [->| [->| [->| ->]]]].
  all: vm_compute in Hs; subst s.
  all: assert (Hcase : -64 <= x < 64 \/ (x < -64 \/ 64 <= x)) by lia; destruct Hcase as [Hst | Hco].
  all: try (exfalso; lia).
  all: try (rt33_stop x ret V).
  all: rt33_cont IH x ret V rest.
Qed.

Lemma EncodeInt33_roundtrip : forall v rest, - 2 ^ 32 <= v < 2 ^ 32 ->
  exists l, EncodeInt64 v = Some l /\ bytes_ok l /\ (1 <= length l <= 5)%nat /\
    DecodeInt33AsInt64 (l ++ rest) = LOk v (Z.of_nat (length l)).
Proof.
  intros v rest Hv.
  destruct (rt33 5 0 0 v 0 v rest 0) as (l & He & Hb & Hl & Hd); try lia.
  exists l. split; [exact He | split; [exact Hb | split; [exact Hl | exact Hd]]].
Qed.

(* ------------------------------------------------------------------ *)
(* (D) closed examples (non-vacuity)                                   *)
(* ------------------------------------------------------------------ *)

Example ex_DecodeUint32_624485 : DecodeUint32 [229; 142; 38] = LOk 624485 3.
Proof. vm_compute; reflexivity. Qed.
Example ex_DecodeUint32_rest : DecodeUint32 [229; 142; 38; 255; 255] = LOk 624485 3.
Proof. vm_compute; reflexivity. Qed.
Example ex_DecodeUint32_max : DecodeUint32 [255; 255; 255; 255; 15] = LOk 4294967295 5.
Proof. vm_compute; reflexivity. Qed.
Example ex_DecodeUint32_ovf : DecodeUint32 [255; 255; 255; 255; 16] = LOvf.
Proof. vm_compute; reflexivity. Qed.
Example ex_DecodeUint32_eof : DecodeUint32 [255; 255] = LEof.
Proof. vm_compute; reflexivity. Qed.
Example ex_LoadUint64_max :
  LoadUint64 [255; 255; 255; 255; 255; 255; 255; 255; 255; 1] = LOk 18446744073709551615 10.
Proof. vm_compute; reflexivity. Qed.
Example ex_LoadUint64_ovf : LoadUint64 [255; 255; 255; 255; 255; 255; 255; 255; 255; 2] = LOvf.
Proof. vm_compute; reflexivity. Qed.
Example ex_DecodeInt32_neg : DecodeInt32 [192; 187; 120] = LOk (-123456) 3.
Proof. vm_compute; reflexivity. Qed.
Example ex_DecodeInt32_min : DecodeInt32 [128; 128; 128; 128; 120] = LOk (-2147483648) 5.
Proof. vm_compute; reflexivity. Qed.
Example ex_DecodeInt32_ovf : DecodeInt32 [128; 128; 128; 128; 8] = LOvf.
Proof. vm_compute; reflexivity. Qed.
Example ex_DecodeInt32_toolong : DecodeInt32 [128; 128; 128; 128; 128; 0] = LOvf.
Proof. vm_compute; reflexivity. Qed.
Example ex_DecodeInt64_min :
  DecodeInt64 [128; 128; 128; 128; 128; 128; 128; 128; 128; 127] = LOk (-9223372036854775808) 10.
Proof. vm_compute; reflexivity. Qed.
Example ex_DecodeInt33_neg1 : DecodeInt33AsInt64 [127] = LOk (-1) 1.
Proof. vm_compute; reflexivity. Qed.
Example ex_DecodeInt33_min : DecodeInt33AsInt64 [128; 128; 128; 128; 112] = LOk (-4294967296) 5.
Proof. vm_compute; reflexivity. Qed.
Example ex_EncodeUint32_624485 : EncodeUint32 624485 = Some [229; 142; 38].
Proof. vm_compute; reflexivity. Qed.
Example ex_EncodeInt32_neg : EncodeInt32 (-123456) = Some [192; 187; 120].
Proof. vm_compute; reflexivity. Qed.
Example ex_EncodeInt64_min :
  EncodeInt64 (-9223372036854775808) = Some [128; 128; 128; 128; 128; 128; 128; 128; 128; 127].
Proof. vm_compute; reflexivity. Qed.

(* Lenient acceptance, as coded: decodeInt32 does not look at bit 6 of the fifth byte (only at
   bits 4-5 through `unused`), so a fifth byte 0x40 with a non-negative result is accepted; and
   DecodeInt33AsInt64 leaves its loop after five bytes without checking the continuation bit of
   the fifth byte, so five continuation bytes decode to 0 with 5 bytes read. *)
Example ex_DecodeInt32_lenient : DecodeInt32 [128; 128; 128; 128; 64] = LOk 0 5.
Proof. vm_compute; reflexivity. Qed.
Example ex_DecodeInt33_lenient : DecodeInt33AsInt64 [128; 128; 128; 128; 128] = LOk 0 5.
Proof. vm_compute; reflexivity. Qed.

Print Assumptions DecodeUint32_len.
Print Assumptions LoadUint64_len.
Print Assumptions DecodeInt32_len.
Print Assumptions DecodeInt64_len.
Print Assumptions DecodeInt33AsInt64_len.
Print Assumptions DecodeUint32_range.
Print Assumptions LoadUint64_range.
Print Assumptions DecodeInt32_range.
Print Assumptions DecodeInt64_range.
Print Assumptions DecodeInt33AsInt64_range.
Print Assumptions EncodeUint32_roundtrip.
Print Assumptions EncodeUint64_roundtrip.
Print Assumptions EncodeInt32_roundtrip.
Print Assumptions EncodeInt64_roundtrip.
Print Assumptions EncodeInt33_roundtrip.

(* ---- the statements of coq/Properties/C03.v, assembled ---- *)
Lemma leb_total : forall bs v n, bytes_ok bs ->
  (DecodeUint32 bs = LOk v n -> 1 <= n <= 5 /\ n <= Z.of_nat (length bs) /\ 0 <= v < 2 ^ 32) /\
  (LoadUint64 bs = LOk v n -> 1 <= n <= 10 /\ n <= Z.of_nat (length bs) /\ 0 <= v < 2 ^ 64) /\
  (DecodeInt32 bs = LOk v n -> 1 <= n <= 5 /\ n <= Z.of_nat (length bs) /\ - 2 ^ 31 <= v < 2 ^ 31) /\
  (DecodeInt64 bs = LOk v n -> 1 <= n <= 10 /\ n <= Z.of_nat (length bs) /\ - 2 ^ 63 <= v < 2 ^ 63) /\
  (DecodeInt33AsInt64 bs = LOk v n -> 1 <= n <= 5 /\ n <= Z.of_nat (length bs) /\ - 2 ^ 32 <= v < 2 ^ 32).
Proof.
  intros bs v n Hb. repeat match goal with |- _ /\ _ => split end; intros E.
  - destruct (DecodeUint32_len bs v n E). pose proof (DecodeUint32_range bs v n Hb E). tauto.
  - destruct (LoadUint64_len bs v n E). pose proof (LoadUint64_range bs v n Hb E). tauto.
  - destruct (DecodeInt32_len bs v n E). pose proof (DecodeInt32_range bs v n Hb E). tauto.
  - destruct (DecodeInt64_len bs v n E). pose proof (DecodeInt64_range bs v n Hb E). tauto.
  - destruct (DecodeInt33AsInt64_len bs v n E). pose proof (DecodeInt33AsInt64_range bs v n Hb E). tauto.
Qed.

Lemma leb_roundtrip : forall v rest,
  (0 <= v < 2 ^ 32 -> exists l, EncodeUint32 v = Some l /\ DecodeUint32 (l ++ rest) = LOk v (Z.of_nat (length l))) /\
  (0 <= v < 2 ^ 64 -> exists l, EncodeUint64 v = Some l /\ LoadUint64 (l ++ rest) = LOk v (Z.of_nat (length l))) /\
  (- 2 ^ 31 <= v < 2 ^ 31 -> exists l, EncodeInt32 v = Some l /\ DecodeInt32 (l ++ rest) = LOk v (Z.of_nat (length l))) /\
  (- 2 ^ 63 <= v < 2 ^ 63 -> exists l, EncodeInt64 v = Some l /\ DecodeInt64 (l ++ rest) = LOk v (Z.of_nat (length l))) /\
  (- 2 ^ 32 <= v < 2 ^ 32 -> exists l, EncodeInt64 v = Some l /\ DecodeInt33AsInt64 (l ++ rest) = LOk v (Z.of_nat (length l))).
Proof.
  intros v rest. repeat match goal with |- _ /\ _ => split end; intros H.
  - destruct (EncodeUint32_roundtrip v rest H) as (l & A & _ & _ & B). exists l. tauto.
  - destruct (EncodeUint64_roundtrip v rest H) as (l & A & _ & _ & B). exists l. tauto.
  - destruct (EncodeInt32_roundtrip v rest H) as (l & A & _ & _ & B). exists l. tauto.
  - destruct (EncodeInt64_roundtrip v rest H) as (l & A & _ & _ & B). exists l. tauto.
  - destruct (EncodeInt33_roundtrip v rest H) as (l & A & _ & _ & B). exists l. tauto.
Qed.

Lemma leb_canonical_bound : forall v,
  (0 <= v < 2 ^ 32 -> exists l, EncodeUint32 v = Some l /\ bytes_ok l /\ (1 <= length l <= 5)%nat) /\
  (0 <= v < 2 ^ 64 -> exists l, EncodeUint64 v = Some l /\ bytes_ok l /\ (1 <= length l <= 10)%nat) /\
  (- 2 ^ 31 <= v < 2 ^ 31 -> exists l, EncodeInt32 v = Some l /\ bytes_ok l /\ (1 <= length l <= 5)%nat) /\
  (- 2 ^ 63 <= v < 2 ^ 63 -> exists l, EncodeInt64 v = Some l /\ bytes_ok l /\ (1 <= length l <= 10)%nat).
Proof.
  intros v. repeat match goal with |- _ /\ _ => split end; intros H.
  - destruct (EncodeUint32_roundtrip v [] H) as (l & A & B & C & _). exists l. tauto.
  - destruct (EncodeUint64_roundtrip v [] H) as (l & A & B & C & _). exists l. tauto.
  - destruct (EncodeInt32_roundtrip v [] H) as (l & A & B & C & _). exists l. tauto.
  - destruct (EncodeInt64_roundtrip v [] H) as (l & A & B & C & _). exists l. tauto.
Qed.
