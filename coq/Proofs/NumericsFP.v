(* Laws for the float and vector layers of the specification (Wasm/NumericsF.v, Wasm/NumericsV.v).
   The statements are about the bit-level functions (plain Z arithmetic), so they are closed under the
   global context; the Flocq-based operators (add sub mul div sqrt convert demote promote) are only
   cross-checked here against their defining Flocq functions on boundary sets (bounded statements). *)
From Coq Require Import ZArith Bool List Lia ZifyBool.
From Verif Require Import Wasm.Numerics Wasm.NumericsF Wasm.NumericsV Proofs.NumericsP.
Import ListNotations.
Open Scope Z_scope.
Ltac Zify.zify_post_hook ::= Z.div_mod_to_equations.
Ltac splits := repeat match goal with |- _ /\ _ => split end.

(* a well-formed format and an in-range bit pattern *)
Definition fmt_ok (mw ew : Z) : Prop := 0 < mw /\ 1 < ew.
Definition fbits (mw ew x : Z) : Prop := 0 <= x < 2 ^ (mw + ew + 1).

Lemma f32_fmt : fmt_ok 23 8. Proof. unfold fmt_ok; lia. Qed.
Lemma f64_fmt : fmt_ok 52 11. Proof. unfold fmt_ok; lia. Qed.

(* ---- sign / magnitude decomposition ---- *)
Lemma f_sign_mag mw ew x : fmt_ok mw ew -> fbits mw ew x ->
  (f_sign mw ew x = 0 \/ f_sign mw ew x = 1) /\ 0 <= f_mag mw ew x < 2 ^ (mw + ew) /\
  x = f_sign mw ew x * 2 ^ (mw + ew) + f_mag mw ew x.
Proof.
  intros [Hm He] Hx. unfold fbits, f_sign, f_mag in *.
  replace (mw + ew + 1) with (Z.succ (mw + ew)) in Hx by lia. rewrite Z.pow_succ_r in Hx by lia.
  pose proof (pow2_pos (mw + ew) ltac:(lia)). set (P := 2 ^ (mw + ew)) in *. clearbody P.
  pose proof (Z.div_mod x P ltac:(lia)). pose proof (Z.mod_pos_bound x P ltac:(lia)).
  assert (0 <= x / P < 2) by (split; [apply Z.div_pos; lia | apply Z.div_lt_upper_bound; lia]).
  splits; lia.
Qed.

Lemma f_compose mw ew s g : fmt_ok mw ew -> (s = 0 \/ s = 1) -> 0 <= g < 2 ^ (mw + ew) ->
  fbits mw ew (g + s * 2 ^ (mw + ew)) /\ f_sign mw ew (g + s * 2 ^ (mw + ew)) = s /\ f_mag mw ew (g + s * 2 ^ (mw + ew)) = g.
Proof.
  intros [Hm He] Hs Hg. unfold fbits, f_sign, f_mag.
  replace (mw + ew + 1) with (Z.succ (mw + ew)) by lia. rewrite Z.pow_succ_r by lia.
  pose proof (pow2_pos (mw + ew) ltac:(lia)). set (P := 2 ^ (mw + ew)) in *. clearbody P.
  rewrite Z.div_add, Z.mod_add by lia. rewrite Z.div_small, Z.mod_small by lia. splits; destruct Hs; subst; lia.
Qed.

(* abs / neg / copysign are pure sign-bit operations on EVERY bit pattern (NaNs included) *)
Lemma f_abs_spec mw ew x : fmt_ok mw ew -> fbits mw ew x ->
  fbits mw ew (f_abs mw ew x) /\ f_sign mw ew (f_abs mw ew x) = 0 /\ f_mag mw ew (f_abs mw ew x) = f_mag mw ew x.
Proof.
  intros F Hx. destruct (f_sign_mag mw ew x F Hx) as (S & M & E). unfold f_abs.
  pose proof (f_compose mw ew 0 (f_mag mw ew x) F ltac:(auto) M) as C. rewrite Z.mul_0_l, Z.add_0_r in C. exact C.
Qed.

Lemma f_neg_spec mw ew x : fmt_ok mw ew -> fbits mw ew x ->
  fbits mw ew (f_neg mw ew x) /\ f_sign mw ew (f_neg mw ew x) = 1 - f_sign mw ew x /\
  f_mag mw ew (f_neg mw ew x) = f_mag mw ew x /\ f_neg mw ew (f_neg mw ew x) = x.
Proof.
  intros F Hx. destruct (f_sign_mag mw ew x F Hx) as (S & M & E). unfold f_neg at 1 2 3.
  destruct (f_compose mw ew (1 - f_sign mw ew x) (f_mag mw ew x) F ltac:(lia) M) as (C1 & C2 & C3).
  splits; try assumption. unfold f_neg. rewrite C2, C3. lia.
Qed.

Lemma f_copysign_spec mw ew a b : fmt_ok mw ew -> fbits mw ew a -> fbits mw ew b ->
  fbits mw ew (f_copysign mw ew a b) /\ f_sign mw ew (f_copysign mw ew a b) = f_sign mw ew b /\
  f_mag mw ew (f_copysign mw ew a b) = f_mag mw ew a.
Proof.
  intros F Ha Hb. destruct (f_sign_mag mw ew a F Ha) as (_ & M & _). destruct (f_sign_mag mw ew b F Hb) as (S & _ & _).
  unfold f_copysign. apply f_compose; assumption.
Qed.

(* ---- comparisons: every comparison with a NaN operand is false except ne; otherwise the order of f_key ---- *)
Lemma f_cmp_nan mw ew a b : f_nan mw ew a || f_nan mw ew b = true ->
  f_eq mw ew a b = 0 /\ f_ne mw ew a b = 1 /\ f_lt mw ew a b = 0 /\ f_gt mw ew a b = 0 /\ f_le mw ew a b = 0 /\ f_ge mw ew a b = 0.
Proof.
  intros H. unfold f_ne, f_gt, f_ge, f_eq, f_lt, f_le. rewrite H. rewrite (orb_comm (f_nan mw ew b)), H. splits; reflexivity.
Qed.

Lemma f_cmp_ord mw ew a b : f_nan mw ew a || f_nan mw ew b = false ->
  (f_eq mw ew a b = 1 <-> f_key mw ew a = f_key mw ew b) /\ (f_ne mw ew a b = 1 <-> f_key mw ew a <> f_key mw ew b) /\
  (f_lt mw ew a b = 1 <-> f_key mw ew a < f_key mw ew b) /\ (f_gt mw ew a b = 1 <-> f_key mw ew a > f_key mw ew b) /\
  (f_le mw ew a b = 1 <-> f_key mw ew a <= f_key mw ew b) /\ (f_ge mw ew a b = 1 <-> f_key mw ew a >= f_key mw ew b).
Proof.
  intros H. unfold f_ne, f_gt, f_ge, f_eq, f_lt, f_le. rewrite H. rewrite (orb_comm (f_nan mw ew b)), H. unfold b2z. splits.
  all: match goal with |- context [if ?c then _ else _] => destruct c eqn:E end; lia.
Qed.

(* the key: zero for both zeros, positive for positive values, negative for negative ones, and the
   magnitude order of encodings *)
Lemma f_key_spec mw ew x : fmt_ok mw ew -> fbits mw ew x ->
  (f_key mw ew x = 0 <-> f_zero mw ew x = true) /\
  (f_sign mw ew x = 0 -> f_key mw ew x = f_mag mw ew x) /\ (f_sign mw ew x = 1 -> f_key mw ew x = - f_mag mw ew x).
Proof.
  intros F Hx. destruct (f_sign_mag mw ew x F Hx) as (S & M & E). unfold f_key, f_zero.
  destruct (Z.eqb_spec (f_sign mw ew x) 0), (Z.eqb_spec (f_mag mw ew x) 0); splits; try lia.
Qed.

(* ---- min / max ---- *)
Lemma f_canon_is_nan mw ew : fmt_ok mw ew -> f_nan mw ew (f_canon mw ew) = true /\ fbits mw ew (f_canon mw ew) /\
  f_canon_nan mw ew (f_canon mw ew) = true /\ f_arith_nan mw ew (f_canon mw ew) = true.
Proof.
  intros [Hm He]. unfold f_nan, f_canon_nan, f_arith_nan, f_nan, f_exp, f_frac, f_mag, f_canon, fbits.
  pose proof (pow2_pos mw ltac:(lia)) as PM. pose proof (pow2_pos ew ltac:(lia)) as PE. pose proof (pow2_pos (mw - 1) ltac:(lia)) as PH.
  pose proof (pow2_half mw Hm) as HH.
  assert (EE : 2 <= 2 ^ ew) by (change 2 with (2 ^ 1) at 1; apply Z.pow_le_mono_r; lia).
  replace (mw + ew + 1) with (Z.succ (mw + ew)) by lia. rewrite Z.pow_succ_r by lia. rewrite (Z.pow_add_r 2 mw ew) by lia.
  set (M := 2 ^ mw) in *. set (E := 2 ^ ew) in *. set (H := 2 ^ (mw - 1)) in *. clearbody M E H.
  assert (D : ((E - 1) * M + H) / M = E - 1) by (symmetry; apply (Z.div_unique_pos _ M (E - 1) H); lia).
  assert (R : ((E - 1) * M + H) mod M = H) by (symmetry; apply (Z.mod_unique_pos _ M (E - 1) H); lia).
  assert (S : ((E - 1) * M + H) mod (M * E) = (E - 1) * M + H) by (apply Z.mod_small; nia).
  rewrite D, R, S. rewrite (Z.mod_small (E - 1) E) by lia.
  rewrite Z.eqb_refl. destruct (Z.eqb_spec H 0); [lia|]. destruct (Z.leb_spec H H); [|lia]. splits; try reflexivity; nia.
Qed.

Lemma f_minmax_nan mw ew a b : fmt_ok mw ew -> f_nan mw ew a || f_nan mw ew b = true ->
  f_nan mw ew (f_min mw ew a b) = true /\ f_nan mw ew (f_max mw ew a b) = true.
Proof. intros F H. unfold f_min, f_max. rewrite H. split; apply f_canon_is_nan; assumption. Qed.

Lemma f_min_ord mw ew a b : fmt_ok mw ew -> fbits mw ew a -> fbits mw ew b -> f_nan mw ew a || f_nan mw ew b = false ->
  (f_min mw ew a b = a \/ f_min mw ew a b = b) /\
  f_key mw ew (f_min mw ew a b) = Z.min (f_key mw ew a) (f_key mw ew b) /\
  (f_key mw ew a = f_key mw ew b -> f_sign mw ew (f_min mw ew a b) = Z.max (f_sign mw ew a) (f_sign mw ew b)).
Proof.
  intros F Ha Hb H. destruct (f_sign_mag mw ew a F Ha) as (Sa & _ & _). destruct (f_sign_mag mw ew b F Hb) as (Sb & _ & _).
  unfold f_min. rewrite H.
  destruct (Z.ltb_spec (f_key mw ew a) (f_key mw ew b)); [splits; auto; lia|].
  destruct (Z.ltb_spec (f_key mw ew b) (f_key mw ew a)); [splits; auto; lia|].
  destruct (Z.eqb_spec (f_sign mw ew a) 1) as [E|E]; splits; auto; lia.
Qed.

Lemma f_max_ord mw ew a b : fmt_ok mw ew -> fbits mw ew a -> fbits mw ew b -> f_nan mw ew a || f_nan mw ew b = false ->
  (f_max mw ew a b = a \/ f_max mw ew a b = b) /\
  f_key mw ew (f_max mw ew a b) = Z.max (f_key mw ew a) (f_key mw ew b) /\
  (f_key mw ew a = f_key mw ew b -> f_sign mw ew (f_max mw ew a b) = Z.min (f_sign mw ew a) (f_sign mw ew b)).
Proof.
  intros F Ha Hb H. destruct (f_sign_mag mw ew a F Ha) as (Sa & _ & _). destruct (f_sign_mag mw ew b F Hb) as (Sb & _ & _).
  unfold f_max. rewrite H.
  destruct (Z.ltb_spec (f_key mw ew b) (f_key mw ew a)); [splits; auto; lia|].
  destruct (Z.ltb_spec (f_key mw ew a) (f_key mw ew b)); [splits; auto; lia|].
  destruct (Z.eqb_spec (f_sign mw ew a) 0) as [E|E]; splits; auto; lia.
Qed.

(* -0 < +0 for min / max, on the bit patterns of both formats *)
Lemma f_minmax_zero :
  f_min 23 8 0x80000000 0 = 0x80000000 /\ f_min 23 8 0 0x80000000 = 0x80000000 /\
  f_max 23 8 0x80000000 0 = 0 /\ f_max 23 8 0 0x80000000 = 0 /\
  f_min 52 11 0x8000000000000000 0 = 0x8000000000000000 /\ f_min 52 11 0 0x8000000000000000 = 0x8000000000000000 /\
  f_max 52 11 0x8000000000000000 0 = 0 /\ f_max 52 11 0 0x8000000000000000 = 0.
Proof. vm_compute. splits; reflexivity. Qed.

(* ---- truncation toward zero of the denoted rational (-1)^s * m * 2^e ---- *)
Lemma f_trunc_mag_spec mw ew x :
  let m := f_m mw ew x in let e := f_e mw ew x in let t := f_trunc_mag mw ew x in
  (0 <= e -> t = m * 2 ^ e) /\ (e < 0 -> t * 2 ^ (- e) <= m < (t + 1) * 2 ^ (- e)).
Proof.
  cbv zeta. unfold f_trunc_mag. split; intros He.
  - destruct (Z.leb_spec 0 (f_e mw ew x)); lia.
  - destruct (Z.leb_spec 0 (f_e mw ew x)); [lia|]. pose proof (pow2_pos (- f_e mw ew x) ltac:(lia)).
    set (D := 2 ^ (- f_e mw ew x)) in *. clearbody D. set (m := f_m mw ew x). clearbody m.
    pose proof (Z.div_mod m D ltac:(lia)). pose proof (Z.mod_pos_bound m D ltac:(lia)). nia.
Qed.

(* trapping truncation: defined exactly when the integer part lies in the target range, i.e. when the value
   lies in the open interval (lo - 1, hi + 1); NaN and infinities trap *)
Lemma f_to_int_spec (signed : bool) mw ew N x : 0 < N ->
  let lo := if signed then - 2 ^ (N - 1) else 0 in
  let hi := if signed then 2 ^ (N - 1) - 1 else 2 ^ N - 1 in
  let t := f_trunc_z mw ew x in
  (f_to_int signed mw ew N x = None <-> f_nan mw ew x = true \/ f_inf mw ew x = true \/ t < lo \/ hi < t) /\
  (forall v, f_to_int signed mw ew N x = Some v -> inr N v /\ (if signed then sgn N v else v) = t).
Proof.
  intros HN. cbv zeta. unfold f_to_int.
  destruct (f_nan mw ew x); [cbn [orb]; split; [split; auto | discriminate]|].
  destruct (f_inf mw ew x); [cbn [orb]; split; [split; auto | discriminate]|]. cbn [orb].
  set (t := f_trunc_z mw ew x). clearbody t. pose proof (pow2_pos (N - 1) ltac:(lia)).
  destruct signed.
  - destruct (Z.leb_spec (- 2 ^ (N - 1)) t), (Z.ltb_spec t (2 ^ (N - 1))); cbn [andb]; split.
    all: try (split; [discriminate | intros [?|[?|[?|?]]]; (discriminate || lia)]).
    all: try (split; [intros _; lia | reflexivity]).
    all: try discriminate.
    intros v [= <-]. split. apply modN_range; lia. apply sgn_modN; lia.
  - destruct (Z.leb_spec 0 t), (Z.ltb_spec t (2 ^ N)); cbn [andb]; split.
    all: try (split; [discriminate | intros [?|[?|[?|?]]]; (discriminate || lia)]).
    all: try (split; [intros _; lia | reflexivity]).
    all: try discriminate.
    intros v [= <-]. unfold inr. lia.
Qed.

(* saturating truncation: NaN -> 0, infinities and out-of-range values clamp, otherwise the truncation *)
Lemma f_to_int_sat_spec (signed : bool) mw ew N x : 0 < N ->
  let lo := if signed then - 2 ^ (N - 1) else 0 in
  let hi := if signed then 2 ^ (N - 1) - 1 else 2 ^ N - 1 in
  let r := f_to_int_sat signed mw ew N x in
  inr N r /\
  (f_nan mw ew x = true -> r = 0) /\
  (f_nan mw ew x = false -> f_inf mw ew x = true -> r = modN N (if f_sign mw ew x =? 0 then hi else lo)) /\
  (f_nan mw ew x = false -> f_inf mw ew x = false -> r = modN N (Z.max lo (Z.min hi (f_trunc_z mw ew x)))) /\
  (forall v, f_to_int signed mw ew N x = Some v -> r = v).
Proof.
  intros HN. cbv zeta. pose proof (pow2_pos (N - 1) ltac:(lia)) as HP. pose proof (pow2_half N HN) as HH. splits.
  - unfold f_to_int_sat. destruct (f_nan mw ew x). unfold inr; pose proof (pow2_pos N); lia. apply modN_range; lia.
  - intros E. unfold f_to_int_sat. now rewrite E.
  - intros E1 E2. unfold f_to_int_sat. rewrite E1, E2. f_equal.
    destruct signed, (f_sign mw ew x =? 0);
      repeat match goal with |- context [if ?c then _ else _] => destruct c eqn:? end; lia.
  - intros E1 E2. unfold f_to_int_sat. rewrite E1, E2. f_equal.
    destruct signed; repeat match goal with |- context [if ?c then _ else _] => destruct c eqn:? end; lia.
  - intros v. unfold f_to_int, f_to_int_sat. destruct (f_nan mw ew x); [discriminate|]. destruct (f_inf mw ew x); [discriminate|].
    cbn [orb]. set (t := f_trunc_z mw ew x). clearbody t. destruct signed.
    + destruct (Z.leb_spec (- 2 ^ (N - 1)) t), (Z.ltb_spec t (2 ^ (N - 1))); cbn [andb]; try discriminate.
      intros [= <-]. f_equal. repeat match goal with |- context [if ?c then _ else _] => destruct c eqn:? end; lia.
    + destruct (Z.leb_spec 0 t), (Z.ltb_spec t (2 ^ N)); cbn [andb]; try discriminate.
      intros [= <-].
      match goal with |- modN N ?X = t =>
        assert (EX : X = t) by (repeat match goal with |- context [if ?c then _ else _] => destruct c eqn:? end; lia); rewrite EX end.
      apply modN_small. unfold inr. lia.
Qed.

(* ---- integral roundings of m / 2^d: the magnitude n chosen for a value of sign s ---- *)
Lemma f_round_int_spec s m d : 0 <= m -> 0 < d ->
  let D := 2 ^ d in
  let nt := f_round_int RTrunc s m d in let nf := f_round_int RFloor s m d in
  let nc := f_round_int RCeil s m d in let nn := f_round_int RNearest s m d in
  (* trunc: toward zero *)
  (nt * D <= m < (nt + 1) * D) /\
  (* floor / ceil: toward -inf / +inf of the SIGNED value (s = 0: +m/D, otherwise -m/D) *)
  (s = 0 -> nf * D <= m < (nf + 1) * D) /\ (s <> 0 -> (nf - 1) * D < m <= nf * D) /\
  (s = 0 -> (nc - 1) * D < m <= nc * D) /\ (s <> 0 -> nc * D <= m < (nc + 1) * D) /\
  (* nearest: within one half, ties to even *)
  (2 * Z.abs (m - nn * D) <= D /\ (2 * Z.abs (m - nn * D) = D -> Z.even nn = true)) /\
  0 <= nt /\ 0 <= nf /\ 0 <= nc /\ 0 <= nn.
Proof.
  intros Hm Hd. cbv zeta. unfold f_round_int.
  pose proof (pow2_pos (d - 1) ltac:(lia)) as HP. rewrite (pow2_half d Hd). set (H := 2 ^ (d - 1)) in *. clearbody H.
  pose proof (Z.div_mod m (2 * H) ltac:(lia)) as E. pose proof (Z.mod_pos_bound m (2 * H) ltac:(lia)) as B.
  assert (Q : 0 <= m / (2 * H)) by (apply Z.div_pos; lia).
  set (q := m / (2 * H)) in *. set (r := m mod (2 * H)) in *. clearbody q r.
  destruct (Z.eqb_spec s 0), (Z.eqb_spec r 0), (Z.ltb_spec r H), (Z.ltb_spec H r), (Z.even q) eqn:Ev; splits; try nia.
  all: try (intros _; rewrite Z.even_add, Ev; reflexivity).
  all: intros; try assumption; try nia.
Qed.

(* ---- the exact encoding of a small integer magnitude ---- *)
Definition fmt_wide (mw ew : Z) : Prop := fmt_ok mw ew /\ mw + 2 <= 2 ^ (ew - 1).
Lemma f32_wide : fmt_wide 23 8. Proof. split; [apply f32_fmt | vm_compute; discriminate]. Qed.
Lemma f64_wide : fmt_wide 52 11. Proof. split; [apply f64_fmt | vm_compute; discriminate]. Qed.

Lemma field_split M E g h f s : 0 < M -> 0 < E -> 0 <= f < M -> 0 <= h < E -> (s = 0 \/ s = 1) ->
  g = h * M + f ->
  ((g + s * (M * E)) / M) mod E = h /\ (g + s * (M * E)) mod M = f /\ 0 <= g < M * E.
Proof.
  intros HM HE Hf Hh Hs ->.
  replace (h * M + f + s * (M * E)) with (f + (h + s * E) * M) by lia.
  rewrite Z.div_add, (Z.mod_add f) by lia. rewrite (Z.div_small f M), (Z.mod_small f M) by lia. rewrite Z.add_0_l.
  rewrite Z.mod_add by lia. rewrite (Z.mod_small h E) by lia. splits; try reflexivity; nia.
Qed.

Lemma f_of_small_int_spec mw ew s n : fmt_wide mw ew -> (s = 0 \/ s = 1) -> 0 <= n <= 2 ^ mw ->
  let y := f_of_small_int mw ew s n in
  fbits mw ew y /\ f_sign mw ew y = s /\ f_nan mw ew y = false /\ f_inf mw ew y = false /\
  f_trunc_mag mw ew y = n /\ (f_e mw ew y < 0 -> f_m mw ew y mod 2 ^ (- f_e mw ew y) = 0).
Proof.
  intros [[Hm He] Hw] Hs Hn. cbv zeta.
  pose proof (pow2_pos mw ltac:(lia)) as PM. pose proof (pow2_pos ew ltac:(lia)) as PE.
  pose proof (pow2_half ew ltac:(lia)) as HE2. pose proof (pow2_pos (ew - 1) ltac:(lia)) as PB.
  assert (EE : 2 ^ (mw + ew) = 2 ^ mw * 2 ^ ew) by (apply Z.pow_add_r; lia).
  (* the magnitude part g = h * 2^mw + f *)
  assert (G : exists h f, 0 <= f < 2 ^ mw /\ 0 <= h < 2 ^ ew - 1 /\
              f_of_small_int mw ew s n = (h * 2 ^ mw + f) + s * 2 ^ (mw + ew) /\
              (let m := if h =? 0 then f else f + 2 ^ mw in let e := (if h =? 0 then 1 else h) - f_bias ew - mw in
               (if 0 <=? e then m * 2 ^ e else m / 2 ^ (- e)) = n /\ (e < 0 -> m mod 2 ^ (- e) = 0))).
  { unfold f_of_small_int. destruct (Z.eqb_spec n 0) as [->|Hn0].
    - exists 0, 0. cbv zeta. change (0 =? 0) with true. cbv iota. splits; try lia.
      + destruct (0 <=? 1 - f_bias ew - mw); [apply Z.mul_0_l | apply Zdiv_0_l].
      + intros _. apply Zmod_0_l.
    - pose proof (Z.log2_spec n ltac:(lia)) as L. pose proof (Z.log2_nonneg n) as L0.
      assert (Lk : Z.log2 n <= mw).
      { destruct (Z.eq_dec n (2 ^ mw)) as [->|]. rewrite Z.log2_pow2; lia.
        assert (Z.log2 n < mw); [|lia]. apply Z.log2_lt_pow2; lia. }
      set (k := Z.log2 n) in *. clearbody k.
      assert (SP : 2 ^ mw = 2 ^ (mw - k) * 2 ^ k) by (apply pow2_split; lia).
      pose proof (pow2_pos k ltac:(lia)) as PK. pose proof (pow2_pos (mw - k) ltac:(lia)) as PD.
      assert (DV : n * 2 ^ mw / 2 ^ k = n * 2 ^ (mw - k)).
      { rewrite SP. rewrite Z.mul_assoc. apply Z.div_mul. lia. }
      rewrite DV. rewrite Z.pow_succ_r in L by lia.
      exists (k + f_bias ew), (n * 2 ^ (mw - k) - 2 ^ mw). unfold f_bias in *.
      assert (F1 : 0 <= n * 2 ^ (mw - k) - 2 ^ mw < 2 ^ mw) by (rewrite SP; nia).
      splits; try lia; cbv zeta;
        (destruct (Z.eqb_spec (k + (2 ^ (ew - 1) - 1)) 0); [lia|]);
        replace (k + (2 ^ (ew - 1) - 1) - (2 ^ (ew - 1) - 1) - mw) with (k - mw) by lia;
        replace (n * 2 ^ (mw - k) - 2 ^ mw + 2 ^ mw) with (n * 2 ^ (mw - k)) by lia.
      + destruct (Z.leb_spec 0 (k - mw)).
        * replace (k - mw) with 0 by lia. replace (mw - k) with 0 by lia. rewrite Z.pow_0_r. lia.
        * replace (- (k - mw)) with (mw - k) by lia. apply Z.div_mul; lia.
      + intros Hneg. replace (- (k - mw)) with (mw - k) by lia. apply Z.mod_mul; lia. }
  destruct G as (h & f & Hf & Hh & -> & Hval).
  destruct (field_split (2 ^ mw) (2 ^ ew) (h * 2 ^ mw + f) h f s PM PE Hf ltac:(lia) Hs eq_refl) as (X1 & X2 & X3).
  rewrite <- EE in *.
  destruct (f_compose mw ew s (h * 2 ^ mw + f) (conj Hm He) Hs X3) as (C1 & C2 & C3).
  assert (Xe : f_exp mw ew (h * 2 ^ mw + f + s * 2 ^ (mw + ew)) = h) by (unfold f_exp; exact X1).
  assert (Xf : f_frac mw (h * 2 ^ mw + f + s * 2 ^ (mw + ew)) = f) by (unfold f_frac; exact X2).
  splits; try assumption.
  - unfold f_nan. rewrite Xe. destruct (Z.eqb_spec h (2 ^ ew - 1)); [lia|reflexivity].
  - unfold f_inf. rewrite Xe. destruct (Z.eqb_spec h (2 ^ ew - 1)); [lia|reflexivity].
  - unfold f_trunc_mag, f_m, f_e. rewrite Xe, Xf. apply Hval.
  - unfold f_m, f_e. rewrite Xe, Xf. apply Hval.
Qed.

(* the integral roundings as a whole: for a finite non-integral-exponent value the result is the exact
   encoding, with the operand's sign, of the magnitude chosen by f_round_int; other values are returned unchanged *)
Lemma f_round_spec r mw ew x : fmt_wide mw ew -> fbits mw ew x ->
  (f_nan mw ew x = true -> f_round r mw ew x = f_canon mw ew) /\
  (f_nan mw ew x = false -> f_inf mw ew x = true \/ 0 <= f_e mw ew x -> f_round r mw ew x = x) /\
  (f_nan mw ew x = false -> f_inf mw ew x = false -> f_e mw ew x < 0 ->
     let y := f_round r mw ew x in
     fbits mw ew y /\ f_sign mw ew y = f_sign mw ew x /\ f_nan mw ew y = false /\ f_inf mw ew y = false /\
     f_trunc_mag mw ew y = f_round_int r (f_sign mw ew x) (f_m mw ew x) (- f_e mw ew x) /\
     (f_e mw ew y < 0 -> f_m mw ew y mod 2 ^ (- f_e mw ew y) = 0)).
Proof.
  intros W Hx. destruct (f_sign_mag mw ew x (proj1 W) Hx) as (S & M & E). unfold f_round. splits.
  - intros ->. reflexivity.
  - intros -> [->|H]; [reflexivity|]. destruct (f_inf mw ew x); [reflexivity|]. destruct (Z.leb_spec 0 (f_e mw ew x)); [reflexivity|lia].
  - intros -> -> He. destruct (Z.leb_spec 0 (f_e mw ew x)); [lia|]. cbv zeta.
    apply f_of_small_int_spec; try assumption.
    (* the chosen magnitude is at most 2^mw because m < 2^(mw+1) and d >= 1 *)
    destruct W as [[Hm Hew] _].
    assert (Mb : 0 <= f_m mw ew x < 2 * 2 ^ mw).
    { unfold f_m, f_frac. pose proof (pow2_pos mw ltac:(lia)). pose proof (Z.mod_pos_bound x (2 ^ mw) ltac:(lia)).
      destruct (f_exp mw ew x =? 0); lia. }
    pose proof (f_round_int_spec (f_sign mw ew x) (f_m mw ew x) (- f_e mw ew x) ltac:(lia) ltac:(lia)) as R. cbv zeta in R.
    destruct R as (T & F0 & F1 & C0 & C1 & (N1 & _) & P1 & P2 & P3 & P4).
    assert (D2 : 2 <= 2 ^ (- f_e mw ew x)) by (change 2 with (2 ^ 1) at 1; apply Z.pow_le_mono_r; lia).
    set (D := 2 ^ (- f_e mw ew x)) in *. clearbody D. set (m := f_m mw ew x) in *. clearbody m.
    pose proof (pow2_pos mw ltac:(lia)).
    destruct r; split; try assumption; destruct (Z.eq_dec (f_sign mw ew x) 0) as [Z0|Z0];
      try specialize (F0 Z0); try specialize (F1 Z0); try specialize (C0 Z0); try specialize (C1 Z0); nia.
Qed.

(* ------------------------------------------------------------------------------------------------ *)
(* vectors: lanes recombine                                                                          *)

Lemma split_lanes_step n w v : 0 <= w -> split_lanes (S n) w v = v mod 2 ^ w :: split_lanes n w (v / 2 ^ w).
Proof. intros Hw. cbn [split_lanes]. rewrite Z.land_ones, Z.shiftr_div_pow2 by lia. reflexivity. Qed.

(* lane i is (v / 2^(w*i)) mod 2^w *)
Lemma split_lanes_nth n w v i : 0 <= w -> (i < n)%nat -> nth i (split_lanes n w v) 0 = (v / 2 ^ (w * Z.of_nat i)) mod 2 ^ w.
Proof.
  intros Hw. revert v i. induction n as [|n IH]; intros v i Hi; [lia|]. rewrite split_lanes_step by lia.
  destruct i as [|i]; cbn [nth].
  - rewrite Z.mul_0_r, Z.pow_0_r, Z.div_1_r. reflexivity.
  - rewrite IH by lia. rewrite Z.div_div by (try apply pow2_pos; try (pose proof (pow2_pos (w * Z.of_nat i)); nia); lia).
    rewrite <- Z.pow_add_r by nia. do 3 f_equal. lia.
Qed.

Lemma split_lanes_length n w v : length (split_lanes n w v) = n.
Proof. revert v. induction n; intros; cbn [split_lanes length]; auto. Qed.

Lemma join_split n w v : 0 <= w -> 0 <= v < 2 ^ (w * Z.of_nat n) -> join_lanes w (split_lanes n w v) = v.
Proof.
  intros Hw. revert v. induction n as [|n IH]; intros v Hv.
  - cbn [split_lanes join_lanes]. rewrite Z.mul_0_r, Z.pow_0_r in Hv. lia.
  - rewrite split_lanes_step by lia. cbn [join_lanes]. pose proof (pow2_pos w Hw) as PW.
    rewrite Nat2Z.inj_succ, Z.mul_succ_r, Z.pow_add_r in Hv by nia.
    rewrite IH.
    + rewrite modN_small by (unfold inr; apply Z.mod_pos_bound; lia). pose proof (Z.div_mod v (2 ^ w) ltac:(lia)). lia.
    + split. apply Z.div_pos; lia. apply Z.div_lt_upper_bound; lia.
Qed.

Lemma join_lanes_range w l : 0 <= w -> 0 <= join_lanes w l < 2 ^ (w * Z.of_nat (length l)).
Proof.
  intros Hw. induction l as [|x l IH]; cbn [join_lanes length].
  - rewrite Z.mul_0_r, Z.pow_0_r. lia.
  - rewrite Nat2Z.inj_succ, Z.mul_succ_r, Z.pow_add_r by nia. pose proof (modN_range w x Hw) as R. unfold inr in R.
    pose proof (pow2_pos w Hw). nia.
Qed.

Lemma split_join w l : 0 <= w -> split_lanes (length l) w (join_lanes w l) = map (modN w) l.
Proof.
  intros Hw. induction l as [|x l IH]; [reflexivity|]. cbn [length map]. rewrite split_lanes_step by lia. cbn [join_lanes].
  pose proof (pow2_pos w Hw) as PW. pose proof (modN_range w x Hw) as R. unfold inr in R. f_equal.
  - rewrite Z.mul_comm, Z.mod_add by lia. apply Z.mod_small; lia.
  - rewrite Z.mul_comm, Z.div_add by lia. rewrite Z.div_small by lia. rewrite Z.add_0_l. exact IH.
Qed.

(* a v128 splits into 16/8/4/2 lanes and is recovered from them *)
Lemma v128_join_split w v : In w [8; 16; 32; 64] -> 0 <= v < 2 ^ 128 -> join_lanes w (lanes w v) = v.
Proof.
  intros Hw Hv. unfold lanes. apply join_split.
  - cbn [In] in Hw. lia.
  - cbn [In] in Hw. destruct Hw as [<-|[<-|[<-|[<-|[]]]]]; exact Hv.
Qed.

Lemma map2_length {A B C} (f : A -> B -> C) l1 l2 : length l1 = length l2 -> length (map2 f l1 l2) = length l1.
Proof. revert l2. induction l1 as [|a l1 IH]; intros [|b l2]; cbn [map2 length]; try lia. intros [= H]. now rewrite IH. Qed.

(* the lanes of a lane-wise result are the scalar results (reduced to the lane width) *)
Lemma lanes_lanewise1 w f a : In w [8; 16; 32; 64] -> lanes w (lanewise1 w f a) = map (fun x => modN w (f x)) (lanes w a).
Proof.
  intros Hw. unfold lanewise1, lanes.
  assert (L : length (map f (split_lanes (nlanes w) w a)) = nlanes w) by (rewrite map_length; apply split_lanes_length).
  rewrite <- L at 1. rewrite split_join by (cbn [In] in Hw; lia). rewrite map_map. reflexivity.
Qed.

Lemma map_map2 {A B C D} (g : C -> D) (f : A -> B -> C) l1 l2 : map g (map2 f l1 l2) = map2 (fun x y => g (f x y)) l1 l2.
Proof. revert l2. induction l1 as [|a l1 IH]; intros [|b l2]; cbn [map2 map]; auto. now rewrite IH. Qed.

Lemma lanes_lanewise2 w f a b : In w [8; 16; 32; 64] ->
  lanes w (lanewise2 w f a b) = map2 (fun x y => modN w (f x y)) (lanes w a) (lanes w b).
Proof.
  intros Hw. unfold lanewise2, lanes.
  assert (L : length (map2 f (split_lanes (nlanes w) w a) (split_lanes (nlanes w) w b)) = nlanes w).
  { rewrite map2_length; rewrite !split_lanes_length; reflexivity. }
  rewrite <- L at 1. rewrite split_join by (cbn [In] in Hw; lia). apply map_map2.
Qed.

(* every vector operator is, by definition, the lane-wise application of its scalar operator *)
Lemma vector_ops_are_lanewise w a b s :
  v_add w a b = lanewise2 w (iadd w) a b /\ v_sub w a b = lanewise2 w (isub w) a b /\ v_mul w a b = lanewise2 w (imul w) a b /\
  v_neg w a = lanewise1 w (ineg w) a /\ v_abs w a = lanewise1 w (iabs w) a /\
  v_min_s w a b = lanewise2 w (imin_s w) a b /\ v_min_u w a b = lanewise2 w (imin_u w) a b /\
  v_max_s w a b = lanewise2 w (imax_s w) a b /\ v_max_u w a b = lanewise2 w (imax_u w) a b /\
  v_avgr_u w a b = lanewise2 w (iavgr_u w) a b /\
  v_add_sat_s w a b = lanewise2 w (iadd_sat_s w) a b /\ v_add_sat_u w a b = lanewise2 w (iadd_sat_u w) a b /\
  v_sub_sat_s w a b = lanewise2 w (isub_sat_s w) a b /\ v_sub_sat_u w a b = lanewise2 w (isub_sat_u w) a b /\
  v_shl w a s = lanewise1 w (fun x => ishl w x s) a /\ v_shr_s w a s = lanewise1 w (fun x => ishr_s w x s) a /\
  v_shr_u w a s = lanewise1 w (fun x => ishr_u w x s) a /\
  v_popcnt w a = lanewise1 w (ipopcnt w) a /\ v_q15mulr_sat_s a b = lanewise2 16 iq15mulr_sat_s a b /\
  (forall o, v_cmp w o a b = lanewise2 w (fun x y => mask_of w (eval_irelop w o x y)) a b) /\
  (forall o, v_fcmp w o a b = lanewise2 w (fun x y => mask_of w (eval_frelop w o x y)) a b) /\
  v_and a b = lanewise2 64 (iand 64) a b /\ v_or a b = lanewise2 64 (ior 64) a b /\ v_xor a b = lanewise2 64 (ixor 64) a b /\
  v_not a = lanewise1 64 (inot 64) a /\ v_andnot a b = lanewise2 64 (iandnot 64) a b.
Proof. splits; reflexivity. Qed.

(* ---- the scalar lane operators that have no scalar instruction ---- *)
Lemma sat_s_spec N x : 0 < N -> inr N (sat_s N x) /\ sgn N (sat_s N x) = Z.max (- 2 ^ (N - 1)) (Z.min (2 ^ (N - 1) - 1) x).
Proof.
  intros HN. pose proof (pow2_pos (N - 1) ltac:(lia)). unfold sat_s. split. apply modN_range; lia.
  rewrite sgn_modN by (try lia; repeat match goal with |- context [if ?c then _ else _] => destruct c eqn:? end; lia).
  repeat match goal with |- context [if ?c then _ else _] => destruct c eqn:? end; lia.
Qed.

Lemma sat_u_spec N x : 0 <= N -> inr N (sat_u N x) /\ sat_u N x = Z.max 0 (Z.min (2 ^ N - 1) x).
Proof.
  intros HN. pose proof (pow2_pos N HN). unfold sat_u, inr.
  repeat match goal with |- context [if ?c then _ else _] => destruct c eqn:? end; lia.
Qed.

Lemma lane_ops_spec N a b : 0 < N -> inr N a -> inr N b ->
  sgn N (imin_s N a b) = Z.min (sgn N a) (sgn N b) /\ sgn N (imax_s N a b) = Z.max (sgn N a) (sgn N b) /\
  imin_u N a b = Z.min a b /\ imax_u N a b = Z.max a b /\
  (inr N (iavgr_u N a b) /\ 2 * iavgr_u N a b - 1 <= a + b <= 2 * iavgr_u N a b) /\
  (inr N (iabs N a) /\ iabs N a = modN N (Z.abs (sgn N a))) /\
  (inr N (ineg N a) /\ ineg N a = modN N (- sgn N a)) /\
  sgn N (iadd_sat_s N a b) = Z.max (- 2 ^ (N - 1)) (Z.min (2 ^ (N - 1) - 1) (sgn N a + sgn N b)) /\
  sgn N (isub_sat_s N a b) = Z.max (- 2 ^ (N - 1)) (Z.min (2 ^ (N - 1) - 1) (sgn N a - sgn N b)) /\
  iadd_sat_u N a b = Z.min (2 ^ N - 1) (a + b) /\ isub_sat_u N a b = Z.max 0 (a - b).
Proof.
  intros HN Ha Hb. pose proof (pow2_pos N ltac:(lia)) as PN.
  pose proof (sgn_range N a HN Ha) as Ra. pose proof (sgn_range N b HN Hb) as Rb. splits.
  - unfold imin_s. destruct (Z.ltb_spec (sgn N a) (sgn N b)); lia.
  - unfold imax_s. destruct (Z.ltb_spec (sgn N b) (sgn N a)); lia.
  - unfold imin_u. destruct (Z.ltb_spec a b); lia.
  - unfold imax_u. destruct (Z.ltb_spec b a); lia.
  - unfold iavgr_u, inr in *. lia.
  - unfold iavgr_u. lia.
  - unfold iavgr_u. lia.
  - unfold iabs. destruct (Z.ltb_spec (sgn N a) 0). apply modN_range; lia. assumption.
  - unfold iabs. destruct (Z.ltb_spec (sgn N a) 0). f_equal; lia. rewrite Z.abs_eq by lia. symmetry. now apply sgn_congr.
  - unfold ineg, isub. apply modN_range; lia.
  - unfold ineg, isub. rewrite <- (sgn_congr N a HN Ha) at 1. unfold modN. rewrite Zminus_mod_idemp_r. reflexivity.
  - unfold iadd_sat_s. apply sat_s_spec; lia.
  - unfold isub_sat_s. apply sat_s_spec; lia.
  - unfold iadd_sat_u. pose proof (sat_u_spec N (a + b) ltac:(lia)). unfold inr in *. lia.
  - unfold isub_sat_u. pose proof (sat_u_spec N (a - b) ltac:(lia)). unfold inr in *. lia.
Qed.

Lemma bitwise_lane_spec N a b c : 0 <= N -> inr N a -> inr N b -> inr N c ->
  (inr N (inot N a) /\ forall i, 0 <= i < N -> Z.testbit (inot N a) i = negb (Z.testbit a i)) /\
  (forall i, 0 <= i -> Z.testbit (ibitselect N a b c) i = if Z.testbit c i then Z.testbit a i else Z.testbit b i && (i <? N)).
Proof.
  intros HN Ha Hb Hc. pose proof (pow2_pos N HN).
  assert (NE : forall x i, inr N x -> 0 <= i -> Z.testbit (inot N x) i = negb (Z.testbit x i) && (i <? N)).
  { intros x i Hx Hi. unfold inot.
    replace (2 ^ N - 1 - x) with (Z.lnot x mod 2 ^ N) by (unfold Z.lnot; rewrite (mod_k _ _ 1); unfold inr in Hx; lia).
    destruct (Z.ltb_spec i N).
    - rewrite Z.mod_pow2_bits_low by lia. rewrite Z.lnot_spec by lia. now rewrite andb_true_r.
    - rewrite Z.mod_pow2_bits_high by lia. now rewrite andb_false_r. }
  split.
  - split.
    + unfold inot, inr in *. lia.
    + intros i Hi. rewrite NE by (assumption || lia). destruct (Z.ltb_spec i N); [|lia]. apply andb_true_r.
  - intros i Hi. unfold ibitselect, ior, iand. rewrite Z.lor_spec, !Z.land_spec, NE by (assumption || lia).
    destruct (Z.testbit a i), (Z.testbit b i), (Z.testbit c i), (i <? N); reflexivity.
Qed.

(* ---- the sign-magnitude key orders bit patterns exactly as the denoted values are ordered ---- *)
(* |value| * 2^(bias + mw - 1): an integer, because every exponent is at least 1 - bias - mw *)
Definition f_scaled (mw ew x : Z) : Z := f_m mw ew x * 2 ^ (f_e mw ew x - (1 - f_bias ew - mw)).
Definition f_sval (mw ew x : Z) : Z := if f_sign mw ew x =? 0 then f_scaled mw ew x else - f_scaled mw ew x.

Definition sc (M E F : Z) : Z := if E =? 0 then F else (F + M) * 2 ^ (E - 1).

Lemma sc_lex M Ex Fx Ey Fy : 0 < M -> 0 <= Ex -> 0 <= Ey -> 0 <= Fx < M -> 0 <= Fy < M ->
  (Ex < Ey \/ (Ex = Ey /\ Fx < Fy)) -> sc M Ex Fx < sc M Ey Fy.
Proof.
  intros HM HEx HEy HFx HFy [Hlt|[-> Hlt]]; unfold sc.
  - destruct (Z.eqb_spec Ey 0); [lia|]. pose proof (pow2_pos (Ey - 1) ltac:(lia)) as PY.
    destruct (Z.eqb_spec Ex 0).
    + nia.
    + pose proof (pow2_pos (Ex - 1) ltac:(lia)) as PX.
      assert (LE : 2 * 2 ^ (Ex - 1) <= 2 ^ (Ey - 1)).
      { rewrite <- Z.pow_succ_r by lia. apply Z.pow_le_mono_r; lia. }
      nia.
  - destruct (Z.eqb_spec Ey 0); [lia|]. pose proof (pow2_pos (Ey - 1) ltac:(lia)). nia.
Qed.

Lemma fields mw ew x : fmt_ok mw ew -> fbits mw ew x ->
  0 <= f_exp mw ew x < 2 ^ ew /\ 0 <= f_frac mw x < 2 ^ mw /\ f_mag mw ew x = f_exp mw ew x * 2 ^ mw + f_frac mw x /\
  f_scaled mw ew x = sc (2 ^ mw) (f_exp mw ew x) (f_frac mw x).
Proof.
  intros F Hx. destruct F as [Hm He]. unfold f_exp, f_frac, f_mag, f_scaled, f_m, f_e, sc, f_exp, f_frac.
  pose proof (pow2_pos mw ltac:(lia)) as PM. pose proof (pow2_pos ew ltac:(lia)) as PE.
  rewrite (Z.pow_add_r 2 mw ew) by lia.
  set (M := 2 ^ mw) in *. set (E := 2 ^ ew) in *.
  pose proof (Z.mod_pos_bound (x / M) E ltac:(lia)). pose proof (Z.mod_pos_bound x M ltac:(lia)).
  splits; try lia.
  - rewrite Z.rem_mul_r by lia. ring.
  - destruct (Z.eqb_spec ((x / M) mod E) 0).
    + replace (1 - f_bias ew - mw - (1 - f_bias ew - mw)) with 0 by lia. rewrite Z.pow_0_r. lia.
    + f_equal. f_equal. lia.
Qed.

Lemma f_mag_order mw ew x y : fmt_ok mw ew -> fbits mw ew x -> fbits mw ew y ->
  (f_mag mw ew x < f_mag mw ew y <-> f_scaled mw ew x < f_scaled mw ew y) /\
  (f_mag mw ew x = f_mag mw ew y <-> f_scaled mw ew x = f_scaled mw ew y).
Proof.
  intros F Hx Hy. destruct (fields mw ew x F Hx) as (Ex & Fx & -> & ->). destruct (fields mw ew y F Hy) as (Ey & Fy & -> & ->).
  pose proof (pow2_pos mw ltac:(destruct F; lia)) as PM.
  set (M := 2 ^ mw) in *. set (ex := f_exp mw ew x) in *. set (fx := f_frac mw x) in *. set (ey := f_exp mw ew y) in *. set (fy := f_frac mw y) in *.
  clearbody M ex fx ey fy.
  assert (L1 : ex * M + fx < ey * M + fy -> ex < ey \/ (ex = ey /\ fx < fy)) by nia.
  assert (L2 : ey * M + fy < ex * M + fx -> ey < ex \/ (ey = ex /\ fy < fx)) by nia.
  assert (L3 : ex * M + fx = ey * M + fy -> ex = ey /\ fx = fy).
  { intros H. assert (ex = ey) by (destruct (Z.lt_trichotomy ex ey) as [?|[?|?]]; nia). split; [assumption|nia]. }
  pose proof (sc_lex M ex fx ey fy PM ltac:(lia) ltac:(lia) Fx Fy) as S1.
  pose proof (sc_lex M ey fy ex fx PM ltac:(lia) ltac:(lia) Fy Fx) as S2.
  split; split; intros H.
  - apply S1, L1, H.
  - destruct (Z.lt_trichotomy (ex * M + fx) (ey * M + fy)) as [?|[E|G]]; [assumption| |].
    + apply L3 in E. destruct E as [-> ->]. lia.
    + apply L2, S2 in G. lia.
  - apply L3 in H. destruct H as [-> ->]. reflexivity.
  - destruct (Z.lt_trichotomy (ex * M + fx) (ey * M + fy)) as [L|[E|G]]; [|assumption|].
    + apply L1, S1 in L. lia.
    + apply L2, S2 in G. lia.
Qed.

Lemma f_scaled_nonneg mw ew x : fmt_ok mw ew -> fbits mw ew x -> 0 <= f_scaled mw ew x /\ (f_scaled mw ew x = 0 <-> f_mag mw ew x = 0).
Proof.
  intros F Hx. destruct (fields mw ew x F Hx) as (Ex & Fx & -> & ->). pose proof (pow2_pos mw ltac:(destruct F; lia)) as PM.
  unfold sc. destruct (Z.eqb_spec (f_exp mw ew x) 0) as [->|]. lia.
  pose proof (pow2_pos (f_exp mw ew x - 1) ltac:(lia)). nia.
Qed.

(* comparisons of non-NaN floats are comparisons of the denoted values (scaled by a fixed power of two) *)
Lemma f_key_order mw ew x y : fmt_ok mw ew -> fbits mw ew x -> fbits mw ew y ->
  (f_key mw ew x < f_key mw ew y <-> f_sval mw ew x < f_sval mw ew y) /\
  (f_key mw ew x = f_key mw ew y <-> f_sval mw ew x = f_sval mw ew y).
Proof.
  intros F Hx Hy. destruct (f_mag_order mw ew x y F Hx Hy) as (O1 & O2). destruct (f_mag_order mw ew y x F Hy Hx) as (O3 & O4).
  destruct (f_scaled_nonneg mw ew x F Hx) as (Nx & Zx). destruct (f_scaled_nonneg mw ew y F Hy) as (Ny & Zy).
  destruct (f_sign_mag mw ew x F Hx) as (_ & Mx & _). destruct (f_sign_mag mw ew y F Hy) as (_ & My & _).
  unfold f_key, f_sval. destruct (f_sign mw ew x =? 0), (f_sign mw ew y =? 0); lia.
Qed.

(* ------------------------------------------------------------------------------------------------ *)
(* exhaustive sweeps over 8-bit pairs and 16-bit values, lifted to universally quantified statements *)

(* [start, start + n) built with a Z counter (Z.of_nat on a large unary number is linear) *)
Fixpoint zrange_from (n : nat) (start : Z) : list Z :=
  match n with O => [] | S n' => start :: zrange_from n' (start + 1) end.
Lemma zrange_from_in n s x : s <= x < s + Z.of_nat n -> In x (zrange_from n s).
Proof.
  revert s. induction n as [|n IH]; intros s H; [lia|]. cbn [zrange_from In].
  destruct (Z.eq_dec s x); [left; assumption|right]. apply IH. lia.
Qed.
Definition zrange (n : Z) : list Z := zrange_from (Z.to_nat n) 0.
Lemma zrange_in n x : 0 <= x < n -> In x (zrange n).
Proof. intros H. apply zrange_from_in. lia. Qed.
Definition sweep1 (n : Z) (P : Z -> bool) : bool := forallb P (zrange n).
Definition sweep2 (n : Z) (P : Z -> Z -> bool) : bool := forallb (fun a => forallb (P a) (zrange n)) (zrange n).
Lemma sweep1_sound n P : sweep1 n P = true -> forall a, 0 <= a < n -> P a = true.
Proof. unfold sweep1. intros H a Ha. rewrite forallb_forall in H. apply H, zrange_in, Ha. Qed.
Lemma sweep2_sound n P : sweep2 n P = true -> forall a b, 0 <= a < n -> 0 <= b < n -> P a b = true.
Proof.
  unfold sweep2. intros H a b Ha Hb. rewrite forallb_forall in H. specialize (H a (zrange_in n a Ha)).
  rewrite forallb_forall in H. apply H, zrange_in, Hb.
Qed.

(* reference readings written without modN / sgn *)
Definition s8 (x : Z) : Z := if x <? 128 then x else x - 256.
Definition u8 (z : Z) : Z := if z <? 0 then z + 256 else z.
Definition clamp (lo hi z : Z) : Z := if z <? lo then lo else if hi <? z then hi else z.
Definition in8 (z : Z) : bool := (0 <=? z) && (z <? 256).

Definition i8_pair_ok (a b : Z) : bool :=
  (iadd_sat_s 8 a b =? u8 (clamp (-128) 127 (s8 a + s8 b))) && (isub_sat_s 8 a b =? u8 (clamp (-128) 127 (s8 a - s8 b))) &&
  (iadd_sat_u 8 a b =? clamp 0 255 (a + b)) && (isub_sat_u 8 a b =? clamp 0 255 (a - b)) &&
  (imin_s 8 a b =? (if s8 a <? s8 b then a else b)) && (imax_s 8 a b =? (if s8 a <? s8 b then b else a)) &&
  (imin_u 8 a b =? Z.min a b) && (imax_u 8 a b =? Z.max a b) &&
  (iavgr_u 8 a b =? (a + b + 1) / 2) && in8 (iavgr_u 8 a b) &&
  (iadd 8 a b =? (a + b) mod 256) && (isub 8 a b =? (a - b) mod 256) &&
  (ishl 8 a b =? (a * 2 ^ (b mod 8)) mod 256) && (ishr_u 8 a b =? a / 2 ^ (b mod 8)) && (ishr_s 8 a b =? u8 (s8 a / 2 ^ (b mod 8))) &&
  (icmp 8 LtS a b =? (if s8 a <? s8 b then 255 else 0)) && (icmp 8 GeU a b =? (if b <=? a then 255 else 0)) &&
  (imul 16 (ext true 8 a) (ext true 8 b) =? (s8 a * s8 b) mod 65536) && (imul 16 (ext false 8 a) (ext false 8 b) =? a * b) &&
  (iabs 8 a =? Z.abs (s8 a) mod 256) && (ineg 8 a =? (- a) mod 256) && (ipopcnt 8 a =? bits_set 8 a) && in8 (iabs 8 a).

Lemma i8_pairs_sweep : sweep2 256 i8_pair_ok = true.
Proof. vm_cast_no_check (eq_refl true). Time Qed.

Lemma i8_pairs_all : forall a b, 0 <= a < 256 -> 0 <= b < 256 -> i8_pair_ok a b = true.
Proof. intros a b Ha Hb. apply (sweep2_sound 256 i8_pair_ok i8_pairs_sweep); lia. Qed.

Definition s16 (x : Z) : Z := if x <? 32768 then x else x - 65536.
Definition i16_value_ok (x : Z) : bool :=
  (sat_s 8 (sgn 16 x) =? u8 (clamp (-128) 127 (s16 x))) && (sat_u 8 (sgn 16 x) =? clamp 0 255 (s16 x)) &&
  (iabs 16 x =? Z.abs (s16 x) mod 65536) && (ineg 16 x =? (- x) mod 65536) &&
  (ext true 16 x =? (s16 x) mod 2 ^ 32) && (ext false 16 x =? x) &&
  (iextend_s 8 16 x =? (s8 (x mod 256)) mod 65536) &&
  (iq15mulr_sat_s x x =? (clamp (-32768) 32767 ((s16 x * s16 x + 16384) / 32768)) mod 65536) &&
  (iclz 16 x + (if x =? 0 then 0 else Z.log2 x + 1) =? 16).

Lemma i16_values_sweep : sweep1 65536 i16_value_ok = true.
Proof. vm_cast_no_check (eq_refl true). Time Qed.

Lemma i16_values_all : forall x, 0 <= x < 65536 -> i16_value_ok x = true.
Proof. intros x Hx. apply (sweep1_sound 65536 i16_value_ok i16_values_sweep). lia. Qed.

(* ------------------------------------------------------------------------------------------------ *)
(* the bit-level layer agrees with Flocq's IEEE-754 formalisation on boundary sets (bounded statements;
   these mention Flocq's decoders and therefore inherit the real-number axioms of the standard library) *)
From Flocq Require Import IEEE754.Binary IEEE754.Bits.
From Flocq Require IEEE754.BinarySingleNaN.

Definition bnd32 : list Z :=
  [0; 0x80000000; 1; 0x80000001; 0x007fffff; 0x00800000; 0x3f800000; 0xbf800000; 0x3f000000; 0xbf000000; 0x3fc00000; 0x40200000; 0xc0200000;
   0x7f7fffff; 0xff7fffff; 0x7f800000; 0xff800000; 0x7fc00000; 0xffc00000; 0x7fc00001; 0x7fa00000; 0xff800001;
   0x4f000000; 0x4effffff; 0xcf000000; 0xcf000001; 0x4f800000; 0x4f7fffff; 0x5f000000; 0xdf000000; 0xdf000001; 0x5f800000; 0xbf7fffff;
   0x3effffff; 0x3f000001; 0x40600000; 0xc0600000; 0x4b000000; 0x4affffff; 0x4a800001; 0x4b800000; 0x40490fdb; 0xc0490fdb; 0x00000002; 0x33800000].
Definition bnd64 : list Z :=
  [0; 0x8000000000000000; 1; 0x8000000000000001; 0x000fffffffffffff; 0x0010000000000000; 0x3ff0000000000000; 0xbff0000000000000;
   0x3fe0000000000000; 0xbfe0000000000000; 0x3ff8000000000000; 0x4004000000000000; 0xc004000000000000; 0x7fefffffffffffff; 0xffefffffffffffff;
   0x7ff0000000000000; 0xfff0000000000000; 0x7ff8000000000000; 0xfff8000000000000; 0x7ff8000000000001; 0x7ff4000000000000; 0xfff0000000000001;
   0x41e0000000000000; 0x41dfffffffffffff; 0xc1e0000000000000; 0xc1e00000001fffff; 0xc1e0000000200000; 0x41f0000000000000; 0x41efffffffffffff;
   0x43e0000000000000; 0xc3e0000000000000; 0xc3e0000000000001; 0x43f0000000000000; 0x43efffffffffffff; 0xbfefffffffffffff; 0x3fdfffffffffffff;
   0x3fe0000000000001; 0x400c000000000000; 0xc00c000000000000; 0x4330000000000000; 0x432fffffffffffff; 0x4320000000000001; 0x4340000000000000;
   0x400921fb54442d18; 0xc00921fb54442d18; 0x47efffffe0000000; 0x36a0000000000000].

Definition cmp_code (c : option comparison) : Z :=
  match c with Some Datatypes.Eq => 0 | Some Datatypes.Lt => -1 | Some Datatypes.Gt => 1 | None => 2 end.
Definition key_code (mw ew a b : Z) : Z :=
  if f_nan mw ew a || f_nan mw ew b then 2 else if f_key mw ew a <? f_key mw ew b then -1 else if f_key mw ew b <? f_key mw ew a then 1 else 0.

Definition mode_of (r : rounding) : BinarySingleNaN.mode :=
  match r with RCeil => BinarySingleNaN.mode_UP | RFloor => BinarySingleNaN.mode_DN | RTrunc => BinarySingleNaN.mode_ZR | RNearest => BinarySingleNaN.mode_NE end.
Definition flocq_round32 (r : rounding) (x : Z) : Z := lift32_1 (Binary.Bnearbyint 24 128 eq_refl unop_nan_pl32 (mode_of r)) x.
Definition flocq_round64 (r : rounding) (x : Z) : Z := lift64_1 (Binary.Bnearbyint 53 1024 eq_refl unop_nan_pl64 (mode_of r)) x.

Definition agree32 : bool :=
  forallb (fun a => forallb (fun b => key_code 23 8 a b =? cmp_code (b32_compare (b32_of_bits a) (b32_of_bits b))) bnd32) bnd32 &&
  forallb (fun a => forallb (fun r => f_round r 23 8 a =? flocq_round32 r a) [RCeil; RFloor; RTrunc; RNearest]) bnd32 &&
  forallb (fun a => f_nan 23 8 a || f_inf 23 8 a || (f_trunc_z 23 8 a =? Binary.Btrunc 24 128 (b32_of_bits a))) bnd32 &&
  forallb (fun a => Bool.eqb (f_nan 23 8 a) (Binary.is_nan 24 128 (b32_of_bits a))) bnd32.
Definition agree64 : bool :=
  forallb (fun a => forallb (fun b => key_code 52 11 a b =? cmp_code (b64_compare (b64_of_bits a) (b64_of_bits b))) bnd64) bnd64 &&
  forallb (fun a => forallb (fun r => f_round r 52 11 a =? flocq_round64 r a) [RCeil; RFloor; RTrunc; RNearest]) bnd64 &&
  forallb (fun a => f_nan 52 11 a || f_inf 52 11 a || (f_trunc_z 52 11 a =? Binary.Btrunc 53 1024 (b64_of_bits a))) bnd64 &&
  forallb (fun a => Bool.eqb (f_nan 52 11 a) (Binary.is_nan 53 1024 (b64_of_bits a))) bnd64.

Lemma bitlevel_agrees_with_flocq_on_boundary : agree32 = true /\ agree64 = true.
Proof. split; vm_cast_no_check (eq_refl true). Time Qed.

(* a few landmark values (decimal meaning in comments) *)
Example ex_nearest_half_even :
  eval_funop 32 FNearest 0x3f000000 = 0 (* 0.5 -> 0 *) /\ eval_funop 32 FNearest 0x3fc00000 = 0x40000000 (* 1.5 -> 2 *) /\
  eval_funop 32 FNearest 0x40200000 = 0x40000000 (* 2.5 -> 2 *) /\ eval_funop 32 FNearest 0xc0200000 = 0xc0000000 (* -2.5 -> -2 *) /\
  eval_funop 32 FNearest 0xbf000000 = 0x80000000 (* -0.5 -> -0 *) /\ eval_funop 64 FNearest 0x4012000000000000 = 0x4010000000000000 (* 4.5 -> 4 *) /\
  eval_funop 32 FCeil 0xbf000000 = 0x80000000 (* ceil -0.5 = -0 *) /\ eval_funop 32 FFloor 0xbf000000 = 0xbf800000 (* floor -0.5 = -1 *).
Proof. vm_compute. splits; reflexivity. Qed.
Example ex_trunc_boundaries :
  f_to_int true 23 8 32 0xcf000000 = Some 0x80000000 (* -2^31 *) /\ f_to_int true 23 8 32 0x4f000000 = None (* 2^31 *) /\
  f_to_int true 52 11 32 0xc1e00000001fffff = Some 0x80000000 (* -2147483648.9999995 *) /\ f_to_int true 52 11 32 0xc1e0000000200000 = None (* -2147483649 *) /\
  f_to_int false 23 8 32 0xbf7fffff = Some 0 (* -0.99999994 *) /\ f_to_int false 23 8 32 0xbf800000 = None (* -1 *) /\
  f_to_int false 52 11 64 0x43efffffffffffff = Some 0xfffffffffffff800 /\ f_to_int false 52 11 64 0x43f0000000000000 = None (* 2^64 *) /\
  f_to_int_sat true 23 8 32 0x7fc00000 = 0 /\ f_to_int_sat true 23 8 32 0x7f800000 = 0x7fffffff /\ f_to_int_sat true 23 8 32 0xff800000 = 0x80000000 /\
  f_to_int_sat false 52 11 64 0xbff0000000000000 = 0 /\ f_to_int_sat false 52 11 64 0x7ff0000000000000 = 0xffffffffffffffff.
Proof. vm_compute. splits; reflexivity. Qed.
Example ex_arith :
  f32_add 0x3f800000 0x3f800000 = 0x40000000 /\ f64_div 0x3ff0000000000000 0x4008000000000000 = 0x3fd5555555555555 /\
  f32_sqrt 0x40000000 = 0x3fb504f3 /\ f32_convert false 32 0xffffffff = 0x4f800000 /\ f32_convert true 64 0x7fffffbfffffffff = 0x5effffff /\
  f32_demote 0x36a8000000000000 = 2 /\ f64_promote 1 = 0x36a0000000000000 /\ f32_sub 0x7f800000 0x7f800000 = 0x7fc00000.
Proof. vm_compute. splits; reflexivity. Qed.
