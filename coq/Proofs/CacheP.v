(* Proofs about Rt/CacheCodec.v and Rt/CacheFs.v (C13). *)
From Verif Require Import Lib.GoInt Rt.CacheCodec Rt.CacheFs.
From Coq Require Import ZifyBool.
Open Scope Z_scope.
Ltac Zify.zify_post_hook ::= Z.div_mod_to_equations.
Ltac splits := repeat match goal with |- _ /\ _ => split end.

(* ================================================================ lists and little endian *)
Lemma some_inj {A} (a b : A) : Some a = Some b -> a = b.
Proof. congruence. Qed.

Lemma zlen_app {A} (a b : list A) : zlen (a ++ b) = zlen a + zlen b.
Proof. unfold zlen. rewrite app_length. lia. Qed.

Lemma zlen_nonneg {A} (a : list A) : 0 <= zlen a.
Proof. unfold zlen. lia. Qed.

Lemma firstn_app_exact {A} (a b : list A) : firstn (length a) (a ++ b) = a.
Proof. induction a; cbn; [destruct b|]; congruence. Qed.

Lemma skipn_app_exact {A} (a b : list A) : skipn (length a) (a ++ b) = b.
Proof. induction a; cbn; auto. Qed.

Lemma bytes_eqb_spec a b : bytes_eqb a b = true <-> a = b.
Proof.
  revert b. induction a as [|x a IH]; destruct b as [|y b]; cbn; try (split; congruence).
  rewrite andb_true_iff, IH, Z.eqb_eq. split; [intros [-> ->]; auto | intros H; inversion H; auto].
Qed.

Lemma bytes_eqb_refl a : bytes_eqb a a = true.
Proof. apply bytes_eqb_spec; auto. Qed.

Lemma bytes_eqb_neq a b : a <> b -> bytes_eqb a b = false.
Proof. intros H. destruct (bytes_eqb a b) eqn:E; auto. apply bytes_eqb_spec in E. contradiction. Qed.

Lemma le_enc_length n x : length (le_enc n x) = n.
Proof. revert x. induction n; cbn; auto. Qed.

Lemma le_dec_enc n x : le_dec (le_enc n x) = x mod 256 ^ Z.of_nat n.
Proof.
  revert x. induction n as [|n IH]; intros x.
  - cbn. rewrite Z.mod_1_r. reflexivity.
  - cbn [le_enc le_dec]. rewrite IH. rewrite Nat2Z.inj_succ, Z.pow_succ_r by lia.
    rewrite Z.rem_mul_r by (try apply Z.pow_pos_nonneg; lia). reflexivity.
Qed.

Lemma le_dec_enc4 x : 0 <= x < 2 ^ 32 -> le_dec (le_enc 4 x) = x.
Proof. intros H. rewrite le_dec_enc. change (256 ^ Z.of_nat 4) with (2 ^ 32). apply Z.mod_small; lia. Qed.

Lemma le_dec_enc8 x : 0 <= x < 2 ^ 64 -> le_dec (le_enc 8 x) = x.
Proof. intros H. rewrite le_dec_enc. change (256 ^ Z.of_nat 8) with (2 ^ 64). apply Z.mod_small; lia. Qed.

Lemma swrap_wrap64 o : in_s 64 o -> swrap 64 (wrap 64 o) = o.
Proof.
  unfold in_s, swrap, wrap. change (64 - 1) with 63. intros H.
  change (2 ^ 64) with 18446744073709551616 in *. change (2 ^ 63) with 9223372036854775808 in *. lia.
Qed.

(* ================================================================ take *)
Lemma take_app a r : take (zlen a) (a ++ r) = Some (a, r).
Proof.
  unfold take. rewrite zlen_app. pose proof (zlen_nonneg a). pose proof (zlen_nonneg r).
  replace ((0 <=? zlen a) && (zlen a <=? zlen a + zlen r)) with true by lia.
  unfold zlen. rewrite Nat2Z.id, firstn_app_exact, skipn_app_exact. reflexivity.
Qed.

Lemma take_app' k a r : k = zlen a -> take k (a ++ r) = Some (a, r).
Proof. intros ->. apply take_app. Qed.

Lemma take_some k inp a r : take k inp = Some (a, r) -> inp = a ++ r /\ zlen a = k /\ 0 <= k <= zlen inp.
Proof.
  unfold take. destruct ((0 <=? k) && (k <=? zlen inp)) eqn:E; [|discriminate].
  intros H. inversion H; subst. rewrite firstn_skipn. unfold zlen in *. rewrite firstn_length.
  split; [reflexivity|]. lia.
Qed.

Lemma take_none k inp : take k inp = None -> k < 0 \/ zlen inp < k.
Proof. unfold take. destruct ((0 <=? k) && (k <=? zlen inp)) eqn:E; [discriminate|]. lia. Qed.

Lemma take_ext k inp a r x : take k inp = Some (a, r) -> take k (inp ++ x) = Some (a, r ++ x).
Proof.
  intros H. apply take_some in H. destruct H as (-> & <- & _).
  rewrite <- app_assoc. apply take_app.
Qed.

(* ================================================================ u64 sequences and pairs *)
Lemma read_u64s_n_ext n : forall inp xs r x,
  read_u64s_n n inp = Some (xs, r) -> read_u64s_n n (inp ++ x) = Some (xs, r ++ x).
Proof.
  induction n as [|n IH]; cbn [read_u64s_n]; intros inp xs r x H.
  - inversion H; subst; reflexivity.
  - destruct (take 8 inp) as [[b r0]|] eqn:E; [|discriminate].
    rewrite (take_ext _ _ _ _ x E).
    destruct (read_u64s_n n r0) as [[ys r1]|] eqn:E1; [|discriminate].
    rewrite (IH _ _ _ x E1). inversion H; subst; reflexivity.
Qed.

Lemma read_u64s_ext n inp xs r x :
  read_u64s n inp = Some (xs, r) -> read_u64s n (inp ++ x) = Some (xs, r ++ x).
Proof.
  unfold read_u64s. rewrite zlen_app. pose proof (zlen_nonneg x).
  destruct (Z.leb_spec (8 * n) (zlen inp)); [|discriminate].
  replace (8 * n <=? zlen inp + zlen x) with true by lia. apply read_u64s_n_ext.
Qed.

(* the guard of read_u64s is implied by the loop itself *)
Lemma read_u64s_short n : forall inp, zlen inp < 8 * Z.of_nat n -> read_u64s_n n inp = None.
Proof.
  induction n as [|n IH]; intros inp H.
  - pose proof (zlen_nonneg inp). lia.
  - cbn [read_u64s_n]. destruct (take 8 inp) as [[b r]|] eqn:E; auto.
    apply take_some in E. destruct E as (-> & Hb & _). rewrite zlen_app in H.
    rewrite IH; auto. lia.
Qed.

Lemma read_u64s_n_roundtrip xs rest : Forall (in_s 64) xs ->
  read_u64s_n (length xs) (flat_map (fun o => le_enc 8 (wrap 64 o)) xs ++ rest)
  = Some (map (wrap 64) xs, rest).
Proof.
  induction 1 as [|o xs Ho Hxs IH]; cbn [length flat_map read_u64s_n map]; auto.
  rewrite <- app_assoc. rewrite take_app' by (unfold zlen; rewrite le_enc_length; reflexivity).
  rewrite IH. rewrite le_dec_enc8 by (apply wrap_range; lia). reflexivity.
Qed.

Lemma map_swrap_wrap xs : Forall (in_s 64) xs -> map (swrap 64) (map (wrap 64) xs) = xs.
Proof. induction 1; cbn; auto. rewrite swrap_wrap64 by auto. congruence. Qed.

Lemma flat_map_len8 (f : Z -> bytes) xs : (forall o, length (f o) = 8%nat) -> zlen (flat_map f xs) = 8 * zlen xs.
Proof.
  intros Hf. induction xs as [|o xs IH]; cbn [flat_map]; auto.
  rewrite zlen_app, IH. unfold zlen. rewrite Hf. cbn [length]. lia.
Qed.

Lemma read_pairs_n_ext n : forall inp ws es r x,
  read_pairs_n n inp = Some (ws, es, r) -> read_pairs_n n (inp ++ x) = Some (ws, es, r ++ x).
Proof.
  induction n as [|n IH]; cbn [read_pairs_n]; intros inp ws es r x H.
  - inversion H; subst; reflexivity.
  - destruct (take 8 inp) as [[a r0]|] eqn:E; [|discriminate].
    rewrite (take_ext _ _ _ _ x E).
    destruct (take 8 r0) as [[b r1]|] eqn:E0; [|discriminate].
    rewrite (take_ext _ _ _ _ x E0).
    destruct (read_pairs_n n r1) as [[[ws1 es1] r2]|] eqn:E1; [|discriminate].
    rewrite (IH _ _ _ _ x E1). inversion H; subst; reflexivity.
Qed.

Lemma read_pairs_ext n inp ws es r x :
  read_pairs n inp = Some (ws, es, r) -> read_pairs n (inp ++ x) = Some (ws, es, r ++ x).
Proof.
  unfold read_pairs. rewrite zlen_app. pose proof (zlen_nonneg x).
  destruct (Z.leb_spec (16 * n) (zlen inp)); [|discriminate].
  replace (16 * n <=? zlen inp + zlen x) with true by lia. apply read_pairs_n_ext.
Qed.

Lemma read_pairs_short n : forall inp, zlen inp < 16 * Z.of_nat n -> read_pairs_n n inp = None.
Proof.
  induction n as [|n IH]; intros inp H.
  - pose proof (zlen_nonneg inp). lia.
  - cbn [read_pairs_n]. destruct (take 8 inp) as [[a r]|] eqn:E; auto.
    apply take_some in E. destruct E as (-> & Ha & _). rewrite zlen_app in H.
    destruct (take 8 r) as [[b r1]|] eqn:E0; auto.
    apply take_some in E0. destruct E0 as (-> & Hb & _). rewrite zlen_app in H.
    rewrite IH; auto. lia.
Qed.

Lemma ser_pairs_roundtrip : forall ws es, length ws = length es ->
  Forall (in_u 64) ws -> Forall (in_u 64) es ->
  exists p, ser_pairs ws es = Some p /\ zlen p = 16 * zlen ws /\
            forall rest, read_pairs_n (length ws) (p ++ rest) = Some (ws, es, rest).
Proof.
  induction ws as [|w ws IH]; intros es Hl Hw He.
  - destruct es; [|discriminate]. exists []. cbn. auto.
  - destruct es as [|e es]; [discriminate|]. cbn in Hl. inversion Hw; subst. inversion He; subst.
    destruct (IH es) as (p & Hp & Hlen & Hr); auto.
    cbn [ser_pairs]. rewrite Hp. eexists. split; [reflexivity|]. split.
    + rewrite !zlen_app, Hlen. unfold zlen. rewrite !le_enc_length. cbn [length]. lia.
    + intros rest. cbn [length read_pairs_n]. rewrite <- !app_assoc.
      rewrite take_app' by (unfold zlen; rewrite le_enc_length; reflexivity).
      rewrite take_app' by (unfold zlen; rewrite le_enc_length; reflexivity).
      rewrite Hr. unfold in_u in *. rewrite !le_dec_enc8 by lia. reflexivity.
Qed.

(* ================================================================ the codec *)
Definition crc_ok (crc : bytes -> Z) : Prop := forall x, 0 <= crc x < 2 ^ 32.

(* what the implementation guarantees about a compiledModule and a version string *)
Definition wf_entry (v : bytes) (cm : cmod) : Prop :=
  zlen v < 256 /\
  zlen (cm_offsets cm) < 2 ^ 32 /\ Forall (in_s 64) (cm_offsets cm) /\
  zlen (cm_exec cm) < 2 ^ 63 /\
  length (cm_sm_wasm cm) = length (cm_sm_exec cm) /\
  Forall (in_u 64) (cm_sm_wasm cm) /\ Forall (in_u 64) (cm_sm_exec cm) /\
  zlen (cm_sm_wasm cm) < 2 ^ 63 /\
  (cm_exec cm = [] -> cm_sm_exec cm = []).

Definition ext (r : result) (x : bytes) : result :=
  match r with ROk cm rest => ROk cm (rest ++ x) | o => o end.

Section CodecProofs.
Variable crc : bytes -> Z.

(* ---- success (and Stale, Panic) is stable under extension of the input ---- *)
Lemma deser_tail_ext offs ex r x R :
  deser_tail offs ex r = R -> R <> RError -> deser_tail offs ex (r ++ x) = ext R x.
Proof.
  unfold deser_tail. intros H Hne.
  destruct (take 1 r) as [[fb r1]|] eqn:E; [|congruence].
  rewrite (take_ext _ _ _ _ x E).
  destruct (nth 0 fb 0 =? 1).
  - destruct (take 8 r1) as [[lb r2]|] eqn:E1; [|congruence].
    rewrite (take_ext _ _ _ _ x E1).
    destruct ex; [subst; reflexivity|].
    destruct (read_pairs (le_dec lb) r2) as [[[ws es] r3]|] eqn:E2; [|congruence].
    rewrite (read_pairs_ext _ _ _ _ _ x E2). subst; reflexivity.
  - subst; reflexivity.
Qed.

Lemma deser_body_ext n r x R :
  deser_body crc n r = R -> R <> RError -> deser_body crc n (r ++ x) = ext R x.
Proof.
  unfold deser_body. intros H Hne.
  destruct (read_u64s n r) as [[offs r2]|] eqn:E; [|congruence].
  rewrite (read_u64s_ext _ _ _ _ x E).
  destruct (take 8 r2) as [[lb r3]|] eqn:E1; [|congruence].
  rewrite (take_ext _ _ _ _ x E1).
  destruct (0 <? le_dec lb).
  - destruct (take (le_dec lb) r3) as [[ex r4]|] eqn:E2; [|congruence].
    rewrite (take_ext _ _ _ _ x E2).
    destruct (take 4 r4) as [[cb r5]|] eqn:E3; [|congruence].
    rewrite (take_ext _ _ _ _ x E3).
    destruct (le_dec cb =? crc ex); [|congruence].
    apply deser_tail_ext; auto.
  - apply deser_tail_ext; auto.
Qed.

Lemma deserialize_ext v inp x R :
  deserialize_c crc v inp = R -> R <> RError -> deserialize_c crc v (inp ++ x) = ext R x.
Proof.
  unfold deserialize_c. intros H Hne.
  destruct (take (6 + 1 + zlen v + 4) inp) as [[hd r1]|] eqn:E; [|congruence].
  rewrite (take_ext _ _ _ _ x E).
  destruct (negb (bytes_eqb (firstn 6 hd) magic)); [congruence|].
  destruct (6 + 1 + zlen v + 4 <=? 7 + nth 6 hd 0); [subst; reflexivity|].
  destruct (negb (bytes_eqb (firstn (Z.to_nat (nth 6 hd 0)) (skipn 7 hd)) v)); [subst; reflexivity|].
  apply deser_body_ext; auto.
Qed.

(* a successful deserialization never consumes more than the input *)
Lemma consumed_le v inp n : consumed crc v inp = Some n -> 0 <= n <= zlen inp.
Proof.
  unfold consumed. destruct (deserialize_c crc v inp) as [cm r| | |] eqn:E; try discriminate.
  intros H. inversion H; subst. pose proof (zlen_nonneg r).
  (* the rest is a suffix of the input: extend by nothing and compare *)
  assert (Hs : exists a, inp = a ++ r).
  { clear H. unfold deserialize_c in E.
    destruct (take (6 + 1 + zlen v + 4) inp) as [[hd r1]|] eqn:E0; [|discriminate].
    apply take_some in E0. destruct E0 as (-> & _ & _).
    destruct (negb (bytes_eqb (firstn 6 hd) magic)); [discriminate|].
    destruct (6 + 1 + zlen v + 4 <=? 7 + nth 6 hd 0); [discriminate|].
    destruct (negb (bytes_eqb (firstn (Z.to_nat (nth 6 hd 0)) (skipn 7 hd)) v)); [discriminate|].
    unfold deser_body in E.
    assert (Hu : forall n i xs r', read_u64s_n n i = Some (xs, r') -> exists a, i = a ++ r').
    { induction n as [|n IH]; cbn [read_u64s_n]; intros i xs r' Hr.
      - inversion Hr; subst. exists []. reflexivity.
      - destruct (take 8 i) as [[b r0]|] eqn:Et; [|discriminate].
        apply take_some in Et. destruct Et as (-> & _ & _).
        destruct (read_u64s_n n r0) as [[ys r2]|] eqn:E1; [|discriminate].
        inversion Hr; subst. destruct (IH _ _ _ E1) as (a & ->). exists (b ++ a). rewrite app_assoc. reflexivity. }
    assert (Hp : forall n i ws es r', read_pairs_n n i = Some (ws, es, r') -> exists a, i = a ++ r').
    { induction n as [|n IH]; cbn [read_pairs_n]; intros i ws es r' Hr.
      - inversion Hr; subst. exists []. reflexivity.
      - destruct (take 8 i) as [[b r0]|] eqn:Et; [|discriminate].
        apply take_some in Et. destruct Et as (-> & _ & _).
        destruct (take 8 r0) as [[b1 r01]|] eqn:Et1; [|discriminate].
        apply take_some in Et1. destruct Et1 as (-> & _ & _).
        destruct (read_pairs_n n r01) as [[[ws1 es1] r2]|] eqn:E1; [|discriminate].
        inversion Hr; subst. destruct (IH _ _ _ _ E1) as (a & ->). exists (b ++ b1 ++ a).
        rewrite <- !app_assoc. reflexivity. }
    assert (Ht : forall offs ex i, deser_tail offs ex i = ROk cm r -> exists a, i = a ++ r).
    { unfold deser_tail. intros offs ex i Hd.
      destruct (take 1 i) as [[fb r0]|] eqn:Et; [|discriminate].
      apply take_some in Et. destruct Et as (-> & _ & _).
      destruct (nth 0 fb 0 =? 1).
      - destruct (take 8 r0) as [[lb r2]|] eqn:Et1; [|discriminate].
        apply take_some in Et1. destruct Et1 as (-> & _ & _).
        destruct ex; [discriminate|]. unfold read_pairs in Hd.
        destruct (16 * le_dec lb <=? zlen r2); [|discriminate].
        destruct (read_pairs_n (Z.to_nat (le_dec lb)) r2) as [[[ws es] r3]|] eqn:E2; [|discriminate].
        inversion Hd; subst. destruct (Hp _ _ _ _ _ E2) as (a & ->). exists (fb ++ lb ++ a).
        rewrite <- !app_assoc. reflexivity.
      - inversion Hd; subst. exists fb. reflexivity. }
    unfold read_u64s in E.
    destruct (8 * le_dec (skipn (Z.to_nat (6 + 1 + zlen v + 4 - 4)) hd) <=? zlen r1); [|discriminate].
    destruct (read_u64s_n _ r1) as [[offs r2]|] eqn:E1; [|discriminate].
    destruct (Hu _ _ _ _ E1) as (a1 & ->).
    destruct (take 8 r2) as [[lb r3]|] eqn:E2; [|discriminate].
    apply take_some in E2. destruct E2 as (-> & _ & _).
    destruct (0 <? le_dec lb).
    - destruct (take (le_dec lb) r3) as [[ex r4]|] eqn:E3; [|discriminate].
      apply take_some in E3. destruct E3 as (-> & _ & _).
      destruct (take 4 r4) as [[cb r5]|] eqn:E4; [|discriminate].
      apply take_some in E4. destruct E4 as (-> & _ & _).
      destruct (le_dec cb =? crc ex); [|discriminate].
      destruct (Ht _ _ _ E) as (a & ->). exists (hd ++ a1 ++ lb ++ ex ++ cb ++ a).
      rewrite <- !app_assoc. reflexivity.
    - destruct (Ht _ _ _ E) as (a & ->). exists (hd ++ a1 ++ lb ++ a).
      rewrite <- !app_assoc. reflexivity. }
  destruct Hs as (a & ->). rewrite zlen_app. pose proof (zlen_nonneg a). lia.
Qed.

(* ---- the header ---- *)
Definition hdr (v : bytes) (c : Z) : bytes := magic ++ [wrap 8 (zlen v)] ++ v ++ le_enc 4 c.

Lemma hdr_len v c : zlen (hdr v c) = 6 + 1 + zlen v + 4.
Proof. unfold hdr. rewrite !zlen_app. unfold zlen. rewrite le_enc_length. cbn [length magic]. lia. Qed.

(* reading with the version the entry was written with reaches the body *)
Lemma hdr_cons v c : zlen v < 256 ->
  hdr v c = 87 :: 65 :: 90 :: 69 :: 86 :: 79 :: zlen v :: (v ++ le_enc 4 c).
Proof.
  intros Hv. pose proof (zlen_nonneg v). unfold hdr. cbn [magic app].
  rewrite wrap_small by lia. reflexivity.
Qed.

Lemma deser_header_same v c R : zlen v < 256 -> 0 <= c < 2 ^ 32 ->
  deserialize_c crc v (hdr v c ++ R) = deser_body crc c R.
Proof.
  intros Hv Hc. unfold deserialize_c. rewrite take_app' by (rewrite hdr_len; reflexivity).
  pose proof (zlen_nonneg v) as Hv0.
  rewrite hdr_cons by auto.
  cbn [firstn magic bytes_eqb]. rewrite !Z.eqb_refl. cbn [andb negb nth skipn].
  replace (6 + 1 + zlen v + 4 <=? 7 + zlen v) with false by lia.
  unfold zlen at 1. rewrite Nat2Z.id, firstn_app_exact, bytes_eqb_refl. cbn [negb].
  replace (Z.to_nat (6 + 1 + zlen v + 4 - 4)) with (S (S (S (S (S (S (S (length v)))))))) by (unfold zlen; lia).
  cbn [skipn]. rewrite skipn_app_exact. rewrite le_dec_enc4 by lia. reflexivity.
Qed.

(* reading with any other version never reaches the body *)
Lemma deser_header_other v v' c R : zlen v < 256 -> v <> v' ->
  deserialize_c crc v' (hdr v c ++ R) = RStale \/ deserialize_c crc v' (hdr v c ++ R) = RError.
Proof.
  intros Hv Hne. unfold deserialize_c.
  destruct (take (6 + 1 + zlen v' + 4) (hdr v c ++ R)) as [[hd r1]|] eqn:E; [|auto].
  pose proof (zlen_nonneg v) as Hv0. pose proof (zlen_nonneg v') as Hv0'.
  assert (Hw : wrap 8 (zlen v) = zlen v) by (apply wrap_small; lia).
  assert (Hhd : hd = firstn (Z.to_nat (6 + 1 + zlen v' + 4)) (hdr v c ++ R)).
  { unfold take in E. destruct (_ && _); inversion E; reflexivity. }
  set (X := hdr v c ++ R) in *.
  assert (HX : X = 87 :: 65 :: 90 :: 69 :: 86 :: 79 :: zlen v :: (v ++ le_enc 4 c ++ R)).
  { unfold X, hdr. cbn [magic app]. rewrite Hw, <- !app_assoc. reflexivity. }
  replace (Z.to_nat (6 + 1 + zlen v' + 4)) with (S (S (S (S (S (S (S (length v' + 4)))))))) in Hhd
    by (unfold zlen; lia).
  rewrite HX in Hhd. cbn [firstn] in Hhd. subst hd.
  cbn [firstn magic bytes_eqb]. rewrite !Z.eqb_refl. cbn [andb negb nth skipn].
  destruct (Z.leb_spec (6 + 1 + zlen v' + 4) (7 + zlen v)); [auto|].
  left. rewrite firstn_firstn. unfold zlen at 1. rewrite Nat2Z.id.
  replace (Nat.min (length v) (length v' + 4)) with (length v) by (unfold zlen in *; lia).
  rewrite firstn_app_exact. rewrite bytes_eqb_neq by auto. reflexivity.
Qed.

(* ---- serialize: shape of the output ---- *)
Definition ser_mid (cm : cmod) : bytes :=
  flat_map (fun o => le_enc 8 (wrap 64 o)) (cm_offsets cm)
  ++ le_enc 8 (zlen (cm_exec cm)) ++ cm_exec cm ++ le_enc 4 (crc (cm_exec cm)).

Lemma ser_head_split v cm :
  ser_head crc v cm = hdr v (wrap 32 (zlen (cm_offsets cm))) ++ ser_mid cm.
Proof. unfold ser_head, hdr, ser_mid. rewrite <- !app_assoc. reflexivity. Qed.

Lemma serialize_total v cm : wf_entry v cm -> exists e, serialize crc v cm = Some e.
Proof.
  intros (_ & _ & _ & _ & Hl & Hw & He & _ & Hex). unfold serialize.
  destruct (cm_sm_exec cm) as [|e0 es] eqn:Es; [eauto|].
  destruct (cm_exec cm) eqn:Ee; [specialize (Hex eq_refl); discriminate|].
  destruct (ser_pairs_roundtrip _ _ Hl Hw He) as (p & Hp & _). rewrite Hp. eauto.
Qed.

(* the body of an entry with code parses back, leaving exactly the rest *)
Lemma deser_body_code v cm e : crc_ok crc -> wf_entry v cm -> cm_exec cm <> [] ->
  serialize crc v cm = Some e ->
  exists t, e = hdr v (wrap 32 (zlen (cm_offsets cm))) ++ t /\
            forall rest, deser_body crc (zlen (cm_offsets cm)) (t ++ rest) = ROk cm rest.
Proof.
  intros Hcrc (Hv & Hn & Ho & Hx & Hl & Hw & He & Hsl & Hex) Hne Hs.
  assert (Hbody : forall tl,
     deser_body crc (zlen (cm_offsets cm)) (ser_mid cm ++ tl)
     = deser_tail (cm_offsets cm) (cm_exec cm) tl).
  { intros tl. unfold deser_body, ser_mid, read_u64s.
    rewrite <- !app_assoc.
    rewrite zlen_app, flat_map_len8 by (intros; apply le_enc_length).
    match goal with |- context [zlen ?l] => match l with (le_enc 8 _ ++ _) => pose proof (zlen_nonneg l) end end.
    replace (8 * zlen (cm_offsets cm) <=? _) with true by lia.
    unfold zlen at 1. rewrite Nat2Z.id. rewrite read_u64s_n_roundtrip by auto.
    rewrite map_swrap_wrap by auto.
    rewrite take_app' by (unfold zlen; rewrite le_enc_length; reflexivity).
    pose proof (zlen_nonneg (cm_exec cm)).
    rewrite le_dec_enc8 by lia.
    assert (0 < zlen (cm_exec cm)).
    { destruct (cm_exec cm); [congruence|]. unfold zlen. cbn [length]. lia. }
    replace (0 <? zlen (cm_exec cm)) with true by lia.
    rewrite take_app.
    rewrite take_app' by (unfold zlen; rewrite le_enc_length; reflexivity).
    rewrite le_dec_enc4 by apply Hcrc. rewrite Z.eqb_refl. reflexivity. }
  unfold serialize in Hs. rewrite ser_head_split in Hs.
  destruct (cm_sm_exec cm) as [|e0 es] eqn:Es.
  - apply some_inj in Hs; subst e. eexists. split; [rewrite <- app_assoc; reflexivity|]. intros rest.
    rewrite <- app_assoc. rewrite Hbody. unfold deser_tail. cbn [app].
    change (take 1 (0 :: rest)) with (if (0 <=? 1) && (1 <=? zlen (0 :: rest)) then Some ([0], rest) else None).
    unfold zlen. cbn [length]. replace ((0 <=? 1) && (1 <=? Z.of_nat (S (length rest)))) with true by lia.
    cbn [nth]. change (0 =? 1) with false. cbv iota.
    destruct cm as [o x w s]. cbn in *. destruct w; [|discriminate]. subst. reflexivity.
  - destruct (cm_exec cm) as [|x0 xs] eqn:Ee; [congruence|].
    rewrite <- Es in *.
    destruct (ser_pairs_roundtrip _ _ Hl Hw He) as (p & Hp & Hplen & Hr). rewrite Hp in Hs.
    apply some_inj in Hs; subst e. eexists. split; [rewrite <- app_assoc; reflexivity|]. intros rest.
    rewrite <- !app_assoc. rewrite Hbody. unfold deser_tail. cbn [app].
    change (take 1 (1 :: ?r)) with (if (0 <=? 1) && (1 <=? zlen (1 :: r)) then Some ([1], r) else None).
    match goal with |- context [zlen (1 :: ?r)] =>
      replace ((0 <=? 1) && (1 <=? zlen (1 :: r))) with true by (unfold zlen; cbn [length]; lia) end.
    cbn [nth]. change (1 =? 1) with true. cbv iota.
    rewrite take_app' by (unfold zlen; rewrite le_enc_length; reflexivity).
    pose proof (zlen_nonneg (cm_sm_wasm cm)).
    rewrite le_dec_enc8 by lia. unfold read_pairs. rewrite zlen_app, Hplen.
    pose proof (zlen_nonneg rest).
    replace (16 * zlen (cm_sm_wasm cm) <=? 16 * zlen (cm_sm_wasm cm) + zlen rest) with true by lia.
    unfold zlen at 1. rewrite Nat2Z.id, Hr.
    destruct cm as [o x w s]. cbn in *. subst. reflexivity.
Qed.

(* an entry without code: the checksum (4 zero bytes) is written but never read; the source-map flag
   is read from its first byte *)
Lemma deser_body_nocode v cm e : wf_entry v cm -> cm_exec cm = [] -> crc [] = 0 ->
  serialize crc v cm = Some e ->
  exists t, e = hdr v (wrap 32 (zlen (cm_offsets cm))) ++ t ++ [0; 0; 0; 0] /\
            forall rest, deser_body crc (zlen (cm_offsets cm)) (t ++ rest) = ROk cm rest.
Proof.
  intros (Hv & Hn & Ho & Hx & Hl & Hw & He & Hsl & Hex) Hnil Hc0 Hs.
  specialize (Hex Hnil). unfold serialize in Hs. rewrite Hex in Hs. apply some_inj in Hs. subst e.
  rewrite ser_head_split. unfold ser_mid. rewrite Hnil, Hc0.
  exists (flat_map (fun o => le_enc 8 (wrap 64 o)) (cm_offsets cm) ++ le_enc 8 0 ++ [0]).
  split.
  - rewrite <- !app_assoc. reflexivity.
  - intros rest. unfold deser_body, read_u64s. rewrite <- !app_assoc.
    rewrite zlen_app, flat_map_len8 by (intros; apply le_enc_length).
    match goal with |- context [zlen ?l] => match l with (le_enc 8 _ ++ _) => pose proof (zlen_nonneg l) end end.
    replace (8 * zlen (cm_offsets cm) <=? _) with true by lia.
    unfold zlen at 1. rewrite Nat2Z.id. rewrite read_u64s_n_roundtrip by auto.
    rewrite map_swrap_wrap by auto.
    rewrite take_app' by reflexivity.
    change (le_dec (le_enc 8 0)) with 0. change (0 <? 0) with false. cbv iota.
    unfold deser_tail. cbn [app].
    change (take 1 (0 :: rest)) with (if (0 <=? 1) && (1 <=? zlen (0 :: rest)) then Some ([0], rest) else None).
    unfold zlen. cbn [length]. replace ((0 <=? 1) && (1 <=? Z.of_nat (S (length rest)))) with true by lia.
    cbn [nth]. change (0 =? 1) with false. cbv iota.
    destruct cm as [o x w s]. cbn in *. subst. destruct w; [|discriminate]. reflexivity.
Qed.

Definition slack (cm : cmod) : bytes := match cm_exec cm with [] => [0; 0; 0; 0] | _ => [] end.

(* (i) round trip with consumption: an entry is e1 ++ slack; e1 followed by anything parses back to
   cm and leaves exactly what followed *)
Lemma ser_split v cm e : crc_ok crc -> wf_entry v cm -> (cm_exec cm = [] -> crc [] = 0) ->
  serialize crc v cm = Some e ->
  exists e1, e = e1 ++ slack cm /\ forall y, deserialize_c crc v (e1 ++ y) = ROk cm y.
Proof.
  intros Hcrc Hwf Hc0 Hs. pose proof Hwf as (Hv & Hn & _).
  pose proof (zlen_nonneg (cm_offsets cm)) as Hn0.
  assert (Hw : wrap 32 (zlen (cm_offsets cm)) = zlen (cm_offsets cm)) by (apply wrap_small; lia).
  unfold slack. destruct (cm_exec cm) eqn:Ee.
  - destruct (deser_body_nocode v cm e Hwf Ee (Hc0 eq_refl) Hs) as (t & -> & Ht).
    exists (hdr v (wrap 32 (zlen (cm_offsets cm))) ++ t). split; [rewrite <- app_assoc; reflexivity|].
    intros y. rewrite <- app_assoc, deser_header_same by lia. rewrite Hw. apply Ht.
  - destruct (deser_body_code v cm e Hcrc Hwf ltac:(congruence) Hs) as (t & -> & Ht).
    exists (hdr v (wrap 32 (zlen (cm_offsets cm))) ++ t). split; [rewrite app_nil_r; reflexivity|].
    intros y. rewrite <- app_assoc, deser_header_same by lia. rewrite Hw. apply Ht.
Qed.

Lemma roundtrip v cm e : crc_ok crc -> wf_entry v cm -> (cm_exec cm = [] -> crc [] = 0) ->
  serialize crc v cm = Some e -> deserialize crc v e = Ok cm.
Proof.
  intros Hcrc Hwf Hc0 Hs. destruct (ser_split v cm e Hcrc Hwf Hc0 Hs) as (e1 & -> & H).
  unfold deserialize. rewrite H. reflexivity.
Qed.

Lemma roundtrip_rest v cm e rest : crc_ok crc -> wf_entry v cm -> cm_exec cm <> [] ->
  serialize crc v cm = Some e ->
  deserialize_c crc v (e ++ rest) = ROk cm rest /\ consumed crc v (e ++ rest) = Some (zlen e).
Proof.
  intros Hcrc Hwf Hne Hs.
  destruct (ser_split v cm e Hcrc Hwf ltac:(congruence) Hs) as (e1 & -> & H).
  unfold slack, consumed. destruct (cm_exec cm); [congruence|]. rewrite app_nil_r, H.
  split; auto. rewrite zlen_app. f_equal. lia.
Qed.

(* (iii) every strict prefix: Error below e1, the same module within the slack *)
Lemma prefix_exact v cm e k : crc_ok crc -> wf_entry v cm -> (cm_exec cm = [] -> crc [] = 0) ->
  serialize crc v cm = Some e -> (k < length e)%nat ->
  deserialize crc v (firstn k e) =
    if (k <? length e - length (slack cm))%nat then Error else Ok cm.
Proof.
  intros Hcrc Hwf Hc0 Hs Hk. destruct (ser_split v cm e Hcrc Hwf Hc0 Hs) as (e1 & -> & H).
  rewrite app_length in *. replace (length e1 + length (slack cm) - length (slack cm))%nat with (length e1) by lia.
  unfold deserialize. destruct (Nat.ltb_spec k (length e1)) as [Hlt|Hge].
  - destruct (deserialize_c crc v (firstn k (e1 ++ slack cm))) as [cm' r| | |] eqn:E; auto; exfalso.
    all: pose proof (deserialize_ext v _ (skipn k (e1 ++ slack cm)) _ E ltac:(discriminate)) as Hx;
         rewrite firstn_skipn, H in Hx; cbn [ext] in Hx; try discriminate.
    inversion Hx as [[Hcm Hr]].
    apply (f_equal (@length Z)) in Hr. rewrite app_length, skipn_length, app_length in Hr. lia.
  - rewrite firstn_app. rewrite firstn_all2 by lia. rewrite H. reflexivity.
Qed.

Lemma strict_prefix_rejected v cm e k : crc_ok crc -> wf_entry v cm -> cm_exec cm <> [] ->
  serialize crc v cm = Some e -> (k < length e)%nat -> deserialize crc v (firstn k e) = Error.
Proof.
  intros Hcrc Hwf Hne Hs Hk.
  rewrite (prefix_exact v cm e k Hcrc Hwf ltac:(congruence) Hs Hk).
  unfold slack. destruct (cm_exec cm); [congruence|]. cbn [length].
  replace (k <? length e - 0)%nat with true; auto. symmetry. apply Nat.ltb_lt. lia.
Qed.

Lemma prefix_no_code v cm e k : crc_ok crc -> wf_entry v cm -> cm_exec cm = [] -> crc [] = 0 ->
  serialize crc v cm = Some e -> (k < length e)%nat ->
  deserialize crc v (firstn k e) = if (k <? length e - 4)%nat then Error else Ok cm.
Proof.
  intros Hcrc Hwf Hnil Hc0 Hs Hk.
  rewrite (prefix_exact v cm e k Hcrc Hwf (fun _ => Hc0) Hs Hk).
  unfold slack. rewrite Hnil. reflexivity.
Qed.

(* an entry written under another version string is never accepted *)
Lemma other_version v v' cm e : zlen v < 256 -> v <> v' -> serialize crc v cm = Some e ->
  deserialize crc v' e = Stale \/ deserialize crc v' e = Error.
Proof.
  intros Hv Hne Hs.
  assert (Hh : exists t, e = hdr v (wrap 32 (zlen (cm_offsets cm))) ++ t).
  { unfold serialize in Hs. rewrite ser_head_split in Hs.
    destruct (cm_sm_exec cm); [|destruct (cm_exec cm); [discriminate|];
      destruct (ser_pairs _ _); [|discriminate]];
    apply some_inj in Hs; subst e; rewrite <- app_assoc; eauto. }
  destruct Hh as (t & ->). unfold deserialize.
  destruct (deser_header_other v v' (wrap 32 (zlen (cm_offsets cm))) t Hv Hne) as [-> | ->]; auto.
Qed.

End CodecProofs.

(* ================================================================ the directory *)
Lemma name_eqb_spec a b : reflect (a = b) (name_eqb a b).
Proof.
  destruct a as [x|x i], b as [y|y j]; cbn; try (constructor; congruence).
  - destruct (Z.eqb_spec x y); constructor; congruence.
  - destruct (Z.eqb_spec x y), (Z.eqb_spec i j); constructor; congruence.
Qed.

Lemma lookup_remove_same n d : lookup n (remove n d) = None.
Proof.
  induction d as [|[m f] d IH]; cbn; auto.
  destruct (name_eqb_spec n m); auto. cbn. destruct (name_eqb_spec n m); [contradiction|auto].
Qed.

Lemma lookup_remove_other n m d : n <> m -> lookup n (remove m d) = lookup n d.
Proof.
  intros Hne. induction d as [|[m' f] d IH]; cbn; auto.
  destruct (name_eqb_spec m m'); subst.
  - destruct (name_eqb_spec n m'); [contradiction|auto].
  - cbn. destruct (name_eqb_spec n m'); auto.
Qed.

Lemma lookup_set_same n f d : lookup n (set n f d) = Some f.
Proof. unfold set. cbn. destruct (name_eqb_spec n n); congruence. Qed.

Lemma lookup_set_other n m f d : n <> m -> lookup n (set m f d) = lookup n d.
Proof.
  intros Hne. unfold set. cbn. destruct (name_eqb_spec n m); [contradiction|].
  apply lookup_remove_other; auto.
Qed.

Lemma firstn_chunk {A} (l : list A) off c :
  firstn off l ++ firstn c (skipn off l) = firstn (off + c) l.
Proof.
  revert l. induction off as [|off IH]; intros l; cbn; auto.
  destruct l; cbn; [destruct c; reflexivity|]. rewrite IH. reflexivity.
Qed.

Lemma chunk_bounds p r : (1 <= r)%nat -> (1 <= chunk p r <= r)%nat.
Proof. unfold chunk. lia. Qed.

Section FsProofs.
Variable wkey : nat -> Z.
Variable wdata : nat -> bytes.
Variable d0 : dir.

Notation step := (step wkey wdata).
Notation run := (run wkey wdata).

(* the temp name a writer currently owns *)
Definition owned (s : state) (i : nat) : option name :=
  match s_pc s i with
  | PCopy id _ | PSynced id | PClosed id => Some (Tmp (wkey i) id)
  | _ => None
  end.

Definition complete (k : Z) (f : file) : Prop := exists i, wkey i = k /\ f_data f = wdata i /\ f_synced f = true.
Definition partial (k : Z) (f : file) : Prop := exists i n, wkey i = k /\ f_data f = firstn n (wdata i).

Record Inv (s : state) : Prop := {
  (* a final name holds what it held before, or the complete, synced content of a writer of that key *)
  inv_final : forall k f, lookup (Final k) (s_dir s) = Some f -> lookup (Final k) d0 = Some f \/ complete k f;
  (* any other content lives under a temp name of the key and is a prefix of a writer's content *)
  inv_temp : forall k id f, lookup (Tmp k id) (s_dir s) = Some f -> lookup (Tmp k id) d0 = Some f \/ partial k f;
  (* each writer's own temp file holds exactly what it has written so far *)
  inv_own : forall i, match s_pc s i with
            | PCopy id off => exists f, lookup (Tmp (wkey i) id) (s_dir s) = Some f /\
                                        f_data f = firstn off (wdata i) /\ (off <= length (wdata i))%nat
            | PSynced id | PClosed id => exists f, lookup (Tmp (wkey i) id) (s_dir s) = Some f /\
                                        f_data f = wdata i /\ f_synced f = true
            | _ => True
            end;
  (* no two writers own the same temp name *)
  inv_excl : forall i j n, i <> j -> owned s i = Some n -> owned s j <> Some n
}.

Lemma inv_init : Inv (init d0).
Proof. constructor; cbn; auto. intros. discriminate. Qed.

Lemma owned_lookup s i n : Inv s -> owned s i = Some n -> exists f, lookup n (s_dir s) = Some f.
Proof.
  intros HI. pose proof (inv_own s HI i) as Ho. unfold owned.
  destruct (s_pc s i); try discriminate; intros H; inversion H; subst;
  destruct Ho as (f & Hf & _); eauto.
Qed.

Lemma upd_same f i x : upd f i x i = x.
Proof. unfold upd. rewrite Nat.eqb_refl. reflexivity. Qed.

Lemma upd_other f i x j : j <> i -> upd f i x j = f j.
Proof. unfold upd. intros H. destruct (Nat.eqb_spec j i); congruence. Qed.

Lemma owned_upd_other d p s w x j : j <> w -> s_pc s = p ->
  owned (mk d (upd p w x)) j = owned s j.
Proof. intros Hne <-. unfold owned. cbn. rewrite upd_other by auto. reflexivity. Qed.

(* other writers' temp names differ from every name this step touches *)
Ltac other_owned HI j w :=
  let Ho := fresh "Ho" in pose proof (inv_own _ HI j) as Ho.

Lemma step_inv s e : Inv s -> Inv (step s e).
Proof.
  intros HI. destruct e as [w p|w|w|k]; cbn [CacheFs.step].
  - (* a step of writer w *)
    pose proof (inv_own s HI w) as Hw.
    destruct (s_pc s w) as [|id off|id|id|ok|] eqn:Epc; auto.
    + (* create *)
      destruct (lookup (Tmp (wkey w) p) (s_dir s)) eqn:El; auto.
      constructor; cbn [s_dir s_pc mk].
      * intros k f. rewrite lookup_set_other by discriminate. apply (inv_final s HI).
      * intros k id f. destruct (name_eqb_spec (Tmp k id) (Tmp (wkey w) p)) as [E|E].
        -- rewrite E, lookup_set_same. intros H; inversion H; subst. right. inversion E; subst.
           exists w, O. cbn. auto.
        -- rewrite lookup_set_other by auto. apply (inv_temp s HI).
      * intros i. destruct (Nat.eq_dec i w) as [->|Hne].
        -- rewrite upd_same. eexists. rewrite lookup_set_same. splits; eauto. lia.
        -- rewrite upd_other by auto. pose proof (inv_own s HI i) as Hi.
           destruct (s_pc s i); auto; destruct Hi as (f & Hf & Hr);
           (exists f; split; [|exact Hr]; rewrite lookup_set_other; auto; intros E; rewrite E in Hf; congruence).
      * intros i j n Hij Hi Hj.
        assert (Hfresh : forall x, x <> w -> owned s x <> Some (Tmp (wkey w) p)).
        { intros x Hx Hown. destruct (owned_lookup s x _ HI Hown) as (f & Hf). congruence. }
        destruct (Nat.eq_dec i w) as [->|Hiw]; destruct (Nat.eq_dec j w) as [->|Hjw]; try congruence.
        -- unfold owned in Hi. cbn in Hi. rewrite upd_same in Hi. inversion Hi; subst.
           rewrite (owned_upd_other _ _ s) in Hj by auto. eapply Hfresh; eauto.
        -- unfold owned in Hj. cbn in Hj. rewrite upd_same in Hj. inversion Hj; subst.
           rewrite (owned_upd_other _ _ s) in Hi by auto. eapply Hfresh; eauto.
        -- rewrite (owned_upd_other _ _ s) in Hi, Hj by auto. exact (inv_excl s HI i j n Hij Hi Hj).
    + (* write / sync *)
      destruct Hw as (f & Hf & Hd & Hoff). rewrite Hf.
      assert (Hothers : forall x n, x <> w -> owned s x = Some n -> n <> Tmp (wkey w) id).
      { intros x n Hx Hown E. subst n. apply (inv_excl s HI x w (Tmp (wkey w) id) Hx Hown). unfold owned. rewrite Epc. reflexivity. }
      destruct (Nat.ltb_spec off (length (wdata w))) as [Hlt|Hge].
      * pose proof (chunk_bounds p (length (wdata w) - off) ltac:(lia)) as Hc.
        set (c := chunk p (length (wdata w) - off)) in *.
        constructor; cbn [s_dir s_pc mk].
        -- intros k g. rewrite lookup_set_other by discriminate. apply (inv_final s HI).
        -- intros k id' g. destruct (name_eqb_spec (Tmp k id') (Tmp (wkey w) id)) as [E|E].
           ++ rewrite E, lookup_set_same. intros H; inversion H; subst. right. inversion E; subst.
              exists w, (off + c)%nat. cbn. rewrite Hd, firstn_chunk. auto.
           ++ rewrite lookup_set_other by auto. apply (inv_temp s HI).
        -- intros i. destruct (Nat.eq_dec i w) as [->|Hne].
           ++ rewrite upd_same. eexists. rewrite lookup_set_same. splits; eauto.
              ** cbn. rewrite Hd, firstn_chunk. reflexivity.
              ** lia.
           ++ rewrite upd_other by auto. pose proof (inv_own s HI i) as Hi.
              assert (Hown : forall n, owned s i = Some n -> n <> Tmp (wkey w) id) by (intros; eapply Hothers; eauto).
              unfold owned in Hown.
              destruct (s_pc s i); auto; destruct Hi as (g & Hg & Hr);
              (exists g; split; [|exact Hr]; rewrite lookup_set_other; auto).
        -- intros i j n Hij Hi Hj.
           assert (Hsame : forall x, owned (mk (set (Tmp (wkey w) id) {| f_data := f_data f ++ firstn c (skipn off (wdata w)); f_synced := false |} (s_dir s)) (upd (s_pc s) w (PCopy id (off + c)))) x = owned s x).
           { intros x. unfold owned. cbn. destruct (Nat.eq_dec x w) as [->|Hx];
             [rewrite upd_same, Epc | rewrite upd_other by auto]; reflexivity. }
           rewrite Hsame in *. exact (inv_excl s HI i j n Hij Hi Hj).
      * assert (off = length (wdata w)) by lia. subst off. rewrite firstn_all in Hd.
        constructor; cbn [s_dir s_pc mk].
        -- intros k g. rewrite lookup_set_other by discriminate. apply (inv_final s HI).
        -- intros k id' g. destruct (name_eqb_spec (Tmp k id') (Tmp (wkey w) id)) as [E|E].
           ++ rewrite E, lookup_set_same. intros H; inversion H; subst. right. inversion E; subst.
              exists w, (length (wdata w)). cbn. rewrite Hd, firstn_all. auto.
           ++ rewrite lookup_set_other by auto. apply (inv_temp s HI).
        -- intros i. destruct (Nat.eq_dec i w) as [->|Hne].
           ++ rewrite upd_same. eexists. rewrite lookup_set_same. splits; eauto.
           ++ rewrite upd_other by auto. pose proof (inv_own s HI i) as Hi.
              assert (Hown : forall n, owned s i = Some n -> n <> Tmp (wkey w) id) by (intros; eapply Hothers; eauto).
              unfold owned in Hown.
              destruct (s_pc s i); auto; destruct Hi as (g & Hg & Hr);
              (exists g; split; [|exact Hr]; rewrite lookup_set_other; auto).
        -- intros i j n Hij Hi Hj.
           assert (Hsame : forall x, owned (mk (set (Tmp (wkey w) id) {| f_data := f_data f; f_synced := true |} (s_dir s)) (upd (s_pc s) w (PSynced id))) x = owned s x).
           { intros x. unfold owned. cbn. destruct (Nat.eq_dec x w) as [->|Hx];
             [rewrite upd_same, Epc | rewrite upd_other by auto]; reflexivity. }
           rewrite Hsame in *. exact (inv_excl s HI i j n Hij Hi Hj).
    + (* close *)
      constructor; cbn [s_dir s_pc mk].
      * apply (inv_final s HI).
      * apply (inv_temp s HI).
      * intros i. destruct (Nat.eq_dec i w) as [->|Hne].
        -- rewrite upd_same. exact Hw.
        -- rewrite upd_other by auto. apply (inv_own s HI i).
      * intros i j n Hij Hi Hj.
        assert (Hsame : forall x, owned (mk (s_dir s) (upd (s_pc s) w (PClosed id))) x = owned s x).
        { intros x. unfold owned. cbn. destruct (Nat.eq_dec x w) as [->|Hx];
          [rewrite upd_same, Epc | rewrite upd_other by auto]; reflexivity. }
        rewrite Hsame in *. exact (inv_excl s HI i j n Hij Hi Hj).
    + (* rename *)
      destruct Hw as (f & Hf & Hd & Hsy). rewrite Hf.
      assert (Hothers : forall x n, x <> w -> owned s x = Some n -> n <> Tmp (wkey w) id).
      { intros x n Hx Hown E. subst n. apply (inv_excl s HI x w (Tmp (wkey w) id) Hx Hown). unfold owned. rewrite Epc. reflexivity. }
      constructor; cbn [s_dir s_pc mk].
      * intros k g. destruct (name_eqb_spec (Final k) (Final (wkey w))) as [E|E].
        -- rewrite E, lookup_set_same. intros H; inversion H; subst. right. inversion E; subst.
           exists w. auto.
        -- rewrite lookup_set_other by auto. rewrite lookup_remove_other by discriminate. apply (inv_final s HI).
      * intros k id' g. rewrite lookup_set_other by discriminate.
        destruct (name_eqb_spec (Tmp k id') (Tmp (wkey w) id)) as [E|E].
        -- rewrite E, lookup_remove_same. discriminate.
        -- rewrite lookup_remove_other by auto. apply (inv_temp s HI).
      * intros i. destruct (Nat.eq_dec i w) as [->|Hne].
        -- rewrite upd_same. exact I.
        -- rewrite upd_other by auto. pose proof (inv_own s HI i) as Hi.
           assert (Hown : forall n, owned s i = Some n -> n <> Tmp (wkey w) id) by (intros; eapply Hothers; eauto).
           unfold owned in Hown.
           destruct (s_pc s i); auto; destruct Hi as (g & Hg & Hr);
           (exists g; split; [|exact Hr]; rewrite lookup_set_other by discriminate; rewrite lookup_remove_other; auto).
      * intros i j n Hij Hi Hj.
        destruct (Nat.eq_dec i w) as [->|Hiw].
        { unfold owned in Hi. cbn in Hi. rewrite upd_same in Hi. discriminate. }
        destruct (Nat.eq_dec j w) as [->|Hjw].
        { unfold owned in Hj. cbn in Hj. rewrite upd_same in Hj. discriminate. }
        rewrite (owned_upd_other _ _ s) in Hi, Hj by auto. exact (inv_excl s HI i j n Hij Hi Hj).
  - (* failure path *)
    pose proof (inv_own s HI w) as Hw.
    assert (Hdone : forall d, (forall n, lookup n d = lookup n (s_dir s)) -> owned s w = None ->
                     Inv (mk d (upd (s_pc s) w (PDone false)))).
    { intros d Hd Hnone. constructor; cbn [s_dir s_pc mk].
      - intros k f. rewrite Hd. apply (inv_final s HI).
      - intros k id f. rewrite Hd. apply (inv_temp s HI).
      - intros i. destruct (Nat.eq_dec i w) as [->|Hne]; [rewrite upd_same; exact I|].
        rewrite upd_other by auto. pose proof (inv_own s HI i) as Hi.
        destruct (s_pc s i); auto; rewrite Hd; auto.
      - intros i j n Hij Hi Hj.
        destruct (Nat.eq_dec i w) as [->|Hiw].
        { unfold owned in Hi. cbn in Hi. rewrite upd_same in Hi. discriminate. }
        destruct (Nat.eq_dec j w) as [->|Hjw].
        { unfold owned in Hj. cbn in Hj. rewrite upd_same in Hj. discriminate. }
        rewrite (owned_upd_other _ _ s) in Hi, Hj by auto. exact (inv_excl s HI i j n Hij Hi Hj). }
    assert (Hclean : forall id, owned s w = Some (Tmp (wkey w) id) ->
                     Inv (mk (remove (Tmp (wkey w) id) (s_dir s)) (upd (s_pc s) w (PDone false)))).
    { intros id Hown.
      assert (Hothers : forall x n, x <> w -> owned s x = Some n -> n <> Tmp (wkey w) id).
      { intros x n Hx Hownx E. subst n. exact (inv_excl s HI x w (Tmp (wkey w) id) Hx Hownx Hown). }
      constructor; cbn [s_dir s_pc mk].
      - intros k f. rewrite lookup_remove_other by discriminate. apply (inv_final s HI).
      - intros k id' f. destruct (name_eqb_spec (Tmp k id') (Tmp (wkey w) id)) as [E|E].
        + rewrite E, lookup_remove_same. discriminate.
        + rewrite lookup_remove_other by auto. apply (inv_temp s HI).
      - intros i. destruct (Nat.eq_dec i w) as [->|Hne]; [rewrite upd_same; exact I|].
        rewrite upd_other by auto. pose proof (inv_own s HI i) as Hi.
        assert (Hown' : forall n, owned s i = Some n -> n <> Tmp (wkey w) id) by (intros; eapply Hothers; eauto).
        unfold owned in Hown'.
        destruct (s_pc s i); auto; destruct Hi as (g & Hg & Hr);
        (exists g; split; [|exact Hr]; rewrite lookup_remove_other; auto).
      - intros i j n Hij Hi Hj.
        destruct (Nat.eq_dec i w) as [->|Hiw].
        { unfold owned in Hi. cbn in Hi. rewrite upd_same in Hi. discriminate. }
        destruct (Nat.eq_dec j w) as [->|Hjw].
        { unfold owned in Hj. cbn in Hj. rewrite upd_same in Hj. discriminate. }
        rewrite (owned_upd_other _ _ s) in Hi, Hj by auto. exact (inv_excl s HI i j n Hij Hi Hj). }
    destruct (s_pc s w) as [|id off|id|id|ok|] eqn:Epc; auto.
    + apply Hdone; auto. unfold owned. rewrite Epc. reflexivity.
    + apply Hclean. unfold owned. rewrite Epc. reflexivity.
    + apply Hclean. unfold owned. rewrite Epc. reflexivity.
    + apply Hclean. unfold owned. rewrite Epc. reflexivity.
  - (* crash: the writer stops; its temp file stays *)
    assert (Hcr : Inv (mk (s_dir s) (upd (s_pc s) w PCrashed))).
    { constructor; cbn [s_dir s_pc mk].
      - apply (inv_final s HI).
      - apply (inv_temp s HI).
      - intros i. destruct (Nat.eq_dec i w) as [->|Hne]; [rewrite upd_same; exact I|].
        rewrite upd_other by auto. apply (inv_own s HI i).
      - intros i j n Hij Hi Hj.
        destruct (Nat.eq_dec i w) as [->|Hiw].
        { unfold owned in Hi. cbn in Hi. rewrite upd_same in Hi. discriminate. }
        destruct (Nat.eq_dec j w) as [->|Hjw].
        { unfold owned in Hj. cbn in Hj. rewrite upd_same in Hj. discriminate. }
        rewrite (owned_upd_other _ _ s) in Hi, Hj by auto. exact (inv_excl s HI i j n Hij Hi Hj). }
    destruct (s_pc s w); auto.
  - (* a reader deletes the final name *)
    constructor; cbn [s_dir s_pc mk].
    + intros k' f. destruct (name_eqb_spec (Final k') (Final k)) as [E|E].
      * rewrite E, lookup_remove_same. discriminate.
      * rewrite lookup_remove_other by auto. apply (inv_final s HI).
    + intros k' id f. rewrite lookup_remove_other by discriminate. apply (inv_temp s HI).
    + intros i. pose proof (inv_own s HI i) as Hi.
      destruct (s_pc s i); auto; rewrite lookup_remove_other by discriminate; auto.
    + intros i j n Hij Hi Hj. exact (inv_excl s HI i j n Hij Hi Hj).
Qed.

Lemma run_inv evs : Inv (run d0 evs).
Proof.
  unfold run. generalize (init d0) inv_init. induction evs as [|e evs IH]; cbn; auto.
  intros s HI. apply IH. apply step_inv; auto.
Qed.

(* every interleaving, every crash point: a final name holds the old entry or a complete, synced one *)
Lemma crash_safe evs k f : lookup (Final k) (s_dir (run d0 evs)) = Some f ->
  lookup (Final k) d0 = Some f \/ exists i, wkey i = k /\ f_data f = wdata i /\ f_synced f = true.
Proof. apply (inv_final _ (run_inv evs)). Qed.

(* partial content only ever sits under temp names *)
Lemma partial_only_temp evs n f : lookup n (s_dir (run d0 evs)) = Some f ->
  lookup n d0 = Some f \/
  match n with
  | Final k => exists i, wkey i = k /\ f_data f = wdata i
  | Tmp k _ => exists i m, wkey i = k /\ f_data f = firstn m (wdata i)
  end.
Proof.
  intros H. destruct n as [k|k id].
  - destruct (inv_final _ (run_inv evs) _ _ H) as [|(i & ? & ? & ?)]; eauto.
  - destruct (inv_temp _ (run_inv evs) _ _ _ H) as [|(i & m & ? & ?)]; eauto.
Qed.

(* the failure path removes the writer's temp file and touches nothing else *)
Lemma add_failure_cleans s w n : owned s w = Some n ->
  let s' := step s (EFail w) in
  lookup n (s_dir s') = None /\ s_pc s' w = PDone false /\
  (forall m, m <> n -> lookup m (s_dir s') = lookup m (s_dir s)) /\
  (forall j, j <> w -> s_pc s' j = s_pc s j).
Proof.
  unfold owned. cbn [CacheFs.step].
  destruct (s_pc s w) eqn:E; try discriminate; intros H; inversion H; subst; cbn [s_dir s_pc mk];
  (splits; [apply lookup_remove_same | apply upd_same
           | intros; apply lookup_remove_other; auto | intros; apply upd_other; auto]).
Qed.

(* a failing CreateTemp creates nothing *)
Lemma add_failure_before_create s w : s_pc s w = PInit ->
  s_dir (step s (EFail w)) = s_dir s /\ s_pc (step s (EFail w)) w = PDone false.
Proof. intros E. cbn [CacheFs.step]. rewrite E. cbn. rewrite upd_same. auto. Qed.

End FsProofs.

(* ================================================================ both layers together *)
(* whatever the interleaving, crashes, injected errors and deletions: the final name of a key holds
   what it held before the writers started, or an entry that deserializes to a writer's module *)
Lemma crash_safe_entries crc v (cms : nat -> cmod) (ents : nat -> bytes) wkey d0 evs k f :
  crc_ok crc ->
  (forall i, wf_entry v (cms i) /\ (cm_exec (cms i) = [] -> crc [] = 0) /\ serialize crc v (cms i) = Some (ents i)) ->
  lookup (Final k) (s_dir (run wkey ents d0 evs)) = Some f ->
  lookup (Final k) d0 = Some f \/
  exists i, wkey i = k /\ f_data f = ents i /\ f_synced f = true /\ deserialize crc v (f_data f) = Ok (cms i).
Proof.
  intros Hcrc Hall H. destruct (crash_safe wkey ents d0 evs k f H) as [|(i & Hk & Hd & Hs)]; auto.
  right. exists i. destruct (Hall i) as (Hwf & Hc0 & Hser). splits; auto.
  rewrite Hd. eapply roundtrip; eauto.
Qed.

(* ================================================================ the concrete checksum *)
Lemma crc32c_ok : crc_ok crc32c.
Proof. intros x. unfold crc32c. apply Z.mod_pos_bound. reflexivity. Qed.

Example crc32c_empty : crc32c [] = 0.
Proof. vm_compute. reflexivity. Qed.

(* the standard check value of CRC-32C: "123456789" -> 0xE3069283 *)
Example crc32c_check : crc32c [49; 50; 51; 52; 53; 54; 55; 56; 57] = 3808858755.
Proof. vm_compute. reflexivity. Qed.

(* ================================================================ non-vacuity witnesses *)
Definition ex_v : bytes := [100; 101; 118].                       (* "dev" *)
Definition ex_cm : cmod :=
  {| cm_offsets := [0; 16; -1]; cm_exec := [85; 72; 137; 229; 195; 144; 144; 144];
     cm_sm_wasm := [34; 40]; cm_sm_exec := [0; 4] |}.
Definition ex_nocode : cmod := {| cm_offsets := []; cm_exec := []; cm_sm_wasm := []; cm_sm_exec := [] |}.

Ltac wf_solve :=
  unfold wf_entry, zlen, in_s, in_u; cbn [length cm_offsets cm_exec cm_sm_wasm cm_sm_exec ex_v ex_cm ex_nocode];
  splits; try lia; try reflexivity; try discriminate;
  repeat (constructor; try (split; [vm_compute; discriminate | vm_compute; reflexivity])).

Example ex_cm_wf : wf_entry ex_v ex_cm.
Proof. wf_solve. Qed.

Example ex_nocode_wf : wf_entry ex_v ex_nocode.
Proof. wf_solve. Qed.

Definition ex_entry : bytes :=
  match serialize crc32c ex_v ex_cm with Some e => e | None => [] end.

Example ex_entry_bytes : serialize crc32c ex_v ex_cm = Some ex_entry /\ length ex_entry = 99%nat.
Proof. vm_compute. auto. Qed.

Example ex_roundtrip : deserialize crc32c ex_v ex_entry = Ok ex_cm.
Proof. vm_compute. reflexivity. Qed.

(* every one of the 99 strict prefixes is an Error (computed, independently of the theorem) *)
Example ex_all_prefixes_rejected :
  forallb (fun k => outcome_eqb (deserialize crc32c ex_v (firstn k ex_entry)) Error) (seq 0 99) = true.
Proof. vm_compute. reflexivity. Qed.

Example ex_other_version : deserialize crc32c [100; 101; 119] ex_entry = Stale /\
                           deserialize crc32c [100; 101] ex_entry = Stale /\
                           deserialize crc32c (repeat 120 200) ex_entry = Error.
Proof. vm_compute. auto. Qed.

(* one flipped code byte: the checksum rejects it *)
Example ex_corrupt_code :
  deserialize crc32c ex_v (firstn 50 ex_entry ++ [nth 50 ex_entry 0 + 1] ++ skipn 51 ex_entry) = Error.
Proof. vm_compute. reflexivity. Qed.

(* the panic sites are reachable (for inputs outside the property's quantification) *)
Example ex_serialize_panics :
  serialize crc32c ex_v {| cm_offsets := []; cm_exec := []; cm_sm_wasm := [1]; cm_sm_exec := [2] |} = None.
Proof. reflexivity. Qed.

Example ex_deserialize_panics :
  deserialize crc32c ex_v ([87; 65; 90; 69; 86; 79; 3; 100; 101; 118; 0; 0; 0; 0] ++ le_enc 8 0 ++ [1] ++ le_enc 8 0) = Panic.
Proof. vm_compute. reflexivity. Qed.

(* the limit of the prefix theorem: an entry without code is accepted when only its last <= 4 bytes
   (the unread checksum and flag) are missing, and yields the same (empty) module *)
Definition ex_nocode_entry : bytes :=
  match serialize crc32c ex_v ex_nocode with Some e => e | None => [] end.

Example ex_nocode_prefix_accepted :
  length ex_nocode_entry = 27%nat /\
  deserialize crc32c ex_v (firstn 23 ex_nocode_entry) = Ok ex_nocode /\
  deserialize crc32c ex_v (firstn 22 ex_nocode_entry) = Error.
Proof. vm_compute. auto. Qed.

(* the directory: two processes add the same key; the first dies in the middle of the copy *)
Definition ex_wdata (i : nat) : bytes := ex_entry.
Definition ex_evs : list event :=
  [EStep 0 7; EStep 1 7; EStep 1 9; EStep 0 40; EStep 1 1000; ECrash 0; EStep 1 0; EStep 1 0; EStep 1 0].

Example ex_crash_state :
  let d := s_dir (run (fun _ => 0) ex_wdata [] ex_evs) in
  final_of 0 d = Some ex_entry /\ temps_of 0 d = [firstn 40 ex_entry].
Proof. vm_compute. auto. Qed.

(* just before the rename nothing is visible under the final name *)
Example ex_before_rename :
  let d := s_dir (run (fun _ => 0) ex_wdata [] (firstn 8 ex_evs)) in
  final_of 0 d = None /\ length (temps_of 0 d) = 2%nat.
Proof. vm_compute. auto. Qed.

Example ex_failure_cleans :
  s_dir (run (fun _ => 0) ex_wdata [] [EStep 0 7; EStep 0 40; EFail 0]) = [].
Proof. vm_compute. reflexivity. Qed.

(* the hypothesis `zlen v < 256` of other_version is necessary: the length byte wraps, and an entry
   written under a 256-byte version is read as a (code-less) module by a reader whose version is empty *)
Example ex_long_version_accepted :
  match serialize crc32c (repeat 0 256) ex_nocode with
  | Some e => deserialize crc32c [] e = Ok ex_nocode
  | None => False
  end.
Proof. vm_compute. reflexivity. Qed.
