(* Metatheory of Wasm/SemExit.v (C06: closed modules on top of W). *)
From Coq Require Import ZArith List Bool Lia.
From Verif Require Import Wasm.Numerics Wasm.Sem Wasm.Harness Rt.Linking Wasm.ListenerLink Wasm.SemExit Proofs.SemP.
Import ListNotations.
Open Scope Z_scope.

(* ---------------------------------------------------------------- closed maps *)
Lemma mark_keeps cl ii c j d : closed_code cl j = Some d -> closed_code (mark cl ii c) j = Some d.
Proof.
  intros H. unfold mark. destruct (closed_code cl ii) eqn:E; [exact H|].
  cbn [closed_code]. destruct (Nat.eqb_spec ii j) as [->|_]; [congruence|exact H].
Qed.

Lemma mark_other cl ii c j : j <> ii -> closed_code (mark cl ii c) j = closed_code cl j.
Proof.
  intros H. unfold mark. destruct (closed_code cl ii); [reflexivity|].
  cbn [closed_code]. destruct (Nat.eqb_spec ii j) as [->|_]; [congruence|reflexivity].
Qed.

Lemma mark_closes cl ii c : exists d, closed_code (mark cl ii c) ii = Some d /\ (closed_code cl ii = None -> d = c).
Proof.
  unfold mark. destruct (closed_code cl ii) as [d|] eqn:E.
  - exists d. split; [exact E|discriminate].
  - exists c. cbn [closed_code]. rewrite Nat.eqb_refl. split; auto.
Qed.

Section XP.
Variable D : domain.
Variable host : nat -> list (val D) -> hostres (val D).
Variable listened : nat -> bool.
Variable maxdepth : nat.
Variable who : nat -> nat.

Notation V := (val D).
Notation last_host := (last_host D).

(* ---------------------------------------------------------------- the last host call of a log *)
Lemma last_host_app (l1 l2 : list (event V)) :
  last_host (l1 ++ l2) = match last_host l2 with Some x => Some x | None => last_host l1 end.
Proof.
  induction l1 as [|e l1 IH]; cbn [app SemExit.last_host].
  - destruct (last_host l2); reflexivity.
  - rewrite IH. destruct (last_host l2); [reflexivity|]. reflexivity.
Qed.

Definition exit_last (c : Z) (l : list (event V)) : Prop :=
  exists h args, last_host l = Some (h, args) /\ host h args = HExit c.

Lemma exit_last_abort c l fa : exit_last c l -> exit_last c (l ++ [EAbort fa]).
Proof. intros (h & a & H1 & H2). exists h, a. rewrite last_host_app. cbn. split; assumption. Qed.

Lemma exit_last_host c l h args : host h args = HExit c -> exit_last c (l ++ [EHost h args]).
Proof. intros H. exists h, args. rewrite last_host_app. cbn. split; [reflexivity|exact H]. Qed.

Definition out_X (o : out D) : Prop :=
  match o with Trap (TExit c) s' => exit_last c (s_log s') | _ => True end.
Definition ires_X (r : ires D) : Prop :=
  match r with ITrap (TExit c) s' => exit_last c (s_log s') | _ => True end.

Definition ex_X (ex : nat -> nat -> store D -> frame D -> list instr -> out D) : Prop :=
  forall depth ii s f is, out_X (ex depth ii s f is).

Lemma run_body_X ex depth ci s args nr nl body : ex_X ex -> ires_X (run_body D ex depth ci s args nr nl body).
Proof.
  intros Hex. unfold run_body.
  specialize (Hex depth ci s {| stack := []; locals := args ++ zeros D nl |} body).
  destruct (ex depth ci s _ body); cbn in *; auto.
Qed.

Lemma bracket_X fa args s k : (forall s0, ires_X (k s0)) -> ires_X (bracket D listened fa args s k).
Proof.
  intros Hk. unfold bracket. destruct (listened fa); [|apply Hk].
  pose proof (Hk (add_log D s (EBefore fa args))) as H.
  destruct (k _) as [s' vs|t s'|]; cbn [ires_X] in *; auto.
  destruct t; auto. cbn [add_log set_log s_log]. apply exit_last_abort. exact H.
Qed.

Lemma invoke_X ex depth s fa args : ex_X ex -> ires_X (invoke_with D host listened maxdepth ex depth s fa args).
Proof.
  intros Hex. unfold invoke_with. apply bracket_X. intros s0.
  destruct (Nat.ltb maxdepth depth); [exact I|].
  destruct (nth_error (s_funcs s0) fa) as [[ci tp tr nl body|h tp tr]|]; [apply run_body_X; exact Hex| |exact I].
  destruct (host h args) as [vs|c|c|g gargs] eqn:Hh; cbn [ires_X]; auto.
  - cbn [add_log set_log s_log]. apply exit_last_host. exact Hh.
  - destruct (nth_error (s_funcs (add_log D s0 (EHost h args))) g) as [[ci gtp gtr gnl gbody|? ? ?]|]; try exact I.
    apply bracket_X. intros s2. apply run_body_X. exact Hex.
Qed.

Lemma step_simple_no_exit ii s f i t c : step_simple D ii s f i = STrap t -> t <> TExit c.
Proof.
  unfold step_simple, the_mem. intros H.
  destruct i; cbn in H;
    repeat match type of H with
           | context [match ?x with _ => _ end] => destruct x
           end; try discriminate H; inversion H; subst; discriminate.
Qed.

Notation exec := (Sem.exec D host listened maxdepth).

Theorem exec_X fuel : ex_X (exec fuel).
Proof.
  induction fuel as [|fu IH]; intros depth ii s f is; [exact I|].
  destruct is as [|i rest]; [exact I|].
  cbn [Sem.exec].
  destruct (step_simple D ii s f i) as [s1 f1|t|] eqn:Hs.
  - apply IH.
  - cbn. destruct t; auto. exfalso. eapply step_simple_no_exit; [exact Hs|reflexivity].
  - assert (Hblock : forall np nr body stk lb,
      out_X (match exec fu depth ii s {| stack := firstn np stk; locals := locals f |} body with
        | Normal s' f' => exec fu depth ii s' {| stack := firstn nr (stack f') ++ skipn np stk; locals := locals f' |} rest
        | Branch O s' f' =>
            match lb with
            | None => exec fu depth ii s' {| stack := firstn nr (stack f') ++ skipn np stk; locals := locals f' |} rest
            | Some l => exec fu depth ii s' {| stack := firstn np (stack f') ++ skipn np stk; locals := locals f' |}
                              (Loop np nr l :: rest)
            end
        | Branch (S n) s' f' => Branch n s' f'
        | o => o
        end)).
    { intros np nr body stk lb.
      pose proof (IH depth ii s {| stack := firstn np stk; locals := locals f |} body) as H1.
      destruct (exec fu depth ii s _ body) as [s' f'|[|n] s' f'|s' f'|t s'|]; cbn in H1 |- *; auto; try apply IH; try (destruct lb; apply IH). }
    assert (Hinv : forall fa args stk np,
      out_X (match invoke_with D host listened maxdepth (exec fu) depth s fa args with
               | IOk s' vs => exec fu depth ii s' (setstack D f (rev vs ++ skipn np stk)) rest
               | ITrap t s' => Trap t s'
               | IFuel => OutOfFuel
               end)).
    { intros fa args stk np.
      pose proof (invoke_X (exec fu) depth s fa args IH) as H1.
      destruct (invoke_with D host listened maxdepth _ depth s fa args) as [s' vs|t s'|]; cbn in H1 |- *; auto; try apply IH. }
    destruct i as [w c|o|o| | | | |k|k|k|k|k|w n sx off|n off| | |np nr body|np nr body|np nr t e|n|n|ls d| |f0|ty];
      try (exfalso; unfold step_simple, the_mem in Hs;
           repeat match type of Hs with context [match ?x with _ => _ end] => destruct x end; discriminate Hs);
      clear Hs.
    + apply (Hblock np nr body (stack f) None).
    + apply (Hblock np nr body (stack f) (Some body)).
    + destruct (stack f) as [|c stk]; [exact I|].
      pose proof (IH depth ii s {| stack := firstn np stk; locals := locals f |} (if truthy D c then t else e)) as H1.
      destruct (exec fu depth ii s _ (if truthy D c then t else e)) as [s' f'|[|n] s' f'|s' f'|t' s'|];
        cbn in H1 |- *; auto; apply IH.
    + exact I.
    + destruct (stack f) as [|c stk]; [exact I|]. destruct (truthy D c); [exact I|apply IH].
    + destruct (stack f) as [|c stk]; exact I.
    + exact I.
    + destruct (nth_error (i_funcs (the_inst D s ii)) f0) as [fa|]; [|exact I]. apply Hinv.
    + destruct (stack f) as [|c stk]; [exact I|].
      destruct (i_tab (the_inst D s ii)) as [ta|]; [|exact I].
      cbv zeta.
      destruct (to_u32 D c <? Z.of_nat (length (nth ta (s_tabs s) []))); [|exact I].
      destruct (nth_error (nth ta (s_tabs s) []) (Z.to_nat (to_u32 D c))) as [[fa|]|]; try exact I.
      destruct (nth_error (s_funcs s) fa) as [[ci tp tr nl body|h tp tr]|]; try exact I;
        (destruct (list_eqb tp _ && list_eqb tr _); [apply Hinv|exact I]).
Qed.

(* an export call that ends in an exit: the exit code is the one of the LAST host call of the log, and that host call
   is an exiting one (the innermost exiting call: nothing runs after it) *)
Theorem exit_is_last_host_call fuel s fa args s' c :
  call_export D host listened maxdepth fuel s fa args = (s', RTrap (TExit c)) -> exit_last c (s_log s').
Proof.
  unfold call_export.
  destruct (match nth_error (s_funcs s) fa with
            | Some (FWasm ii tp tr _ _) => (ii, length tp, length tr)
            | Some (FHost _ tp tr) => (O, length tp, length tr) | None => (O, O, O) end) as [[ii np] nr].
  set (s1 := {| s_funcs := s_funcs s; s_insts := s_insts s ++ [_]; s_globals := s_globals s; s_mems := s_mems s;
                s_tabs := s_tabs s; s_log := s_log s |}).
  pose proof (exec_X fuel O (length (s_insts s)) s1 {| stack := rev args; locals := [] |} [Call O]) as H.
  destruct (exec fuel O (length (s_insts s)) s1 _ [Call O]) as [s2 f'|n s2 f'|s2 f'|t s2|]; intros E; inversion E; subst.
  cbn [out_X s_log] in *. exact H.
Qed.

(* ---------------------------------------------------------------- one call on the extended state *)
Notation xcall := (xcall D host listened maxdepth who).
Notation xrun_calls := (xrun_calls D host listened maxdepth who).
Notation call_export := (call_export D host listened maxdepth).
Notation run_calls := (run_calls D host listened maxdepth).

(* effects persist: the store after a call on the extended state - failing or not, on an open or a closed instance,
   whatever is closed - is the store W leaves (so everything proved about W's stores transfers: C06_store_survives_failures,
   C06_other_instances_untouched) *)
Lemma xcall_store fuel x fa args : x_s (fst (xcall fuel x fa args)) = fst (call_export fuel (x_s x) fa args).
Proof. unfold SemExit.xcall. destruct (call_export fuel (x_s x) fa args) as [s' r]. reflexivity. Qed.

(* a call into an OPEN instance behaves exactly as in W from the store the failures left, whatever other instances
   are closed *)
Theorem xcall_open_as_W fuel x fa args :
  (forall ii, inst_of D (x_s x) fa = Some ii -> closed_code (x_cl x) ii = None) ->
  snd (xcall fuel x fa args) = snd (call_export fuel (x_s x) fa args).
Proof.
  intros Hopen. unfold SemExit.xcall. destruct (call_export fuel (x_s x) fa args) as [s' r]. cbn [snd].
  destruct r as [vs|t|]; cbn [closed_result exit_code_of exit_marks]; try reflexivity.
  destruct (inst_of D (x_s x) fa) as [ii|]; [|reflexivity]. rewrite (Hopen ii eq_refl). reflexivity.
Qed.

(* in every case the result is W's, except that values returned by an export of a closed instance are replaced by the
   exit error of that instance (its first code) *)
Definition res_rel (r w : result D) : Prop := r = w \/ exists vs c, w = RVals vs /\ r = RTrap (TExit c).

Lemma xcall_res_rel fuel x fa args : res_rel (snd (xcall fuel x fa args)) (snd (call_export fuel (x_s x) fa args)).
Proof.
  unfold SemExit.xcall. destruct (call_export fuel (x_s x) fa args) as [s' r]. cbn [snd].
  destruct r as [vs|t|]; cbn [closed_result]; try (left; reflexivity).
  destruct (inst_of D (x_s x) fa) as [ii|]; [|left; reflexivity].
  destruct (closed_code _ ii) as [c|]; [right; exists vs, c; auto|left; reflexivity].
Qed.

Theorem xcall_closed_never_values fuel x fa args ii c :
  inst_of D (x_s x) fa = Some ii -> closed_code (x_cl x) ii = Some c ->
  (forall vs, snd (xcall fuel x fa args) <> RVals vs) /\
  (forall vs, snd (call_export fuel (x_s x) fa args) = RVals vs -> snd (xcall fuel x fa args) = RTrap (TExit c)).
Proof.
  intros Hi Hc. unfold SemExit.xcall. destruct (call_export fuel (x_s x) fa args) as [s' r]. cbn [snd]. rewrite Hi.
  destruct r as [vs|t|]; cbn [closed_result exit_code_of exit_marks]; (split; [intros vs'|intros vs' E; try discriminate E]).
  - rewrite Hc. discriminate.
  - rewrite Hc. reflexivity.
  - discriminate.
  - discriminate.
Qed.

(* an exit: the error carries the code of the innermost (= last) exiting host call; exactly the instance that made
   that call is closed (if it was open; its first code wins), every other instance keeps its status *)
Theorem xcall_exit fuel x fa args c :
  snd (call_export fuel (x_s x) fa args) = RTrap (TExit c) ->
  snd (xcall fuel x fa args) = RTrap (TExit c) /\
  exists h hargs,
    last_host (s_log (x_s (fst (xcall fuel x fa args)))) = Some (h, hargs) /\ host h hargs = HExit c /\
    x_cl (fst (xcall fuel x fa args)) = mark (x_cl x) (who h) c /\
    (exists d, closed_code (x_cl (fst (xcall fuel x fa args))) (who h) = Some d /\ (closed_code (x_cl x) (who h) = None -> d = c)) /\
    (forall j, j <> who h -> closed_code (x_cl (fst (xcall fuel x fa args))) j = closed_code (x_cl x) j).
Proof.
  intros E. pose proof (exit_is_last_host_call fuel (x_s x) fa args) as HX.
  unfold SemExit.xcall. destruct (call_export fuel (x_s x) fa args) as [s' r]. cbn [snd] in E. subst r.
  destruct (HX s' c eq_refl) as (h & hargs & Hl & Hh).
  cbn [fst snd x_s x_cl closed_result exit_code_of exit_marks]. rewrite Hl.
  split; [reflexivity|]. exists h, hargs. repeat (split; [first [assumption|reflexivity]|]). split.
  - apply mark_closes.
  - intros j Hj. apply mark_other. exact Hj.
Qed.

(* traps, exhaustion, host panics and normal returns close nothing *)
Theorem xcall_no_exit_no_close fuel x fa args :
  (forall c, snd (call_export fuel (x_s x) fa args) <> RTrap (TExit c)) -> x_cl (fst (xcall fuel x fa args)) = x_cl x.
Proof.
  intros H. unfold SemExit.xcall. destruct (call_export fuel (x_s x) fa args) as [s' r]. cbn [snd] in H.
  destruct r as [vs|t|]; try reflexivity. destruct t; try reflexivity. exfalso. eapply H. reflexivity.
Qed.

Lemma xcall_closed_mono fuel x fa args j d :
  closed_code (x_cl x) j = Some d -> closed_code (x_cl (fst (xcall fuel x fa args))) j = Some d.
Proof.
  intros H. unfold SemExit.xcall. destruct (call_export fuel (x_s x) fa args) as [s' r]. cbn [fst x_cl].
  unfold exit_marks. destruct (exit_code_of D r); [|exact H]. destruct (last_host (s_log s')) as [[h a]|]; [|exact H].
  apply mark_keeps. exact H.
Qed.

(* ---------------------------------------------------------------- histories *)
(* continue-as-if on the extended state: what follows a prefix of a history (with failures of every kind, exits and
   calls on closed instances included) depends only on the extended state the prefix left *)
Theorem xrun_calls_app fuel c1 : forall x c2,
  xrun_calls fuel x (c1 ++ c2) =
  let '(x1, r1) := xrun_calls fuel x c1 in
  let '(x2, r2) := xrun_calls fuel x1 c2 in (x2, r1 ++ r2).
Proof.
  induction c1 as [|[fa args] r IH]; intros x c2; cbn [SemExit.xrun_calls app].
  - destruct (xrun_calls fuel x c2). reflexivity.
  - destruct (xcall fuel x fa args) as [x1 y].
    rewrite IH. destruct (xrun_calls fuel x1 r) as [x2 ys].
    destruct (xrun_calls fuel x2 c2) as [x3 zs]. reflexivity.
Qed.

(* the stores along a history are W's; the results are W's except for values returned by exports of closed instances *)
Theorem xrun_calls_vs_W fuel calls : forall x,
  x_s (fst (xrun_calls fuel x calls)) = fst (run_calls fuel (x_s x) calls) /\
  Forall2 res_rel (snd (xrun_calls fuel x calls)) (snd (run_calls fuel (x_s x) calls)).
Proof.
  induction calls as [|[fa args] r IH]; intros x; cbn [SemExit.xrun_calls Sem.run_calls].
  - cbn. split; [reflexivity|constructor].
  - pose proof (xcall_store fuel x fa args) as Hs. pose proof (xcall_res_rel fuel x fa args) as Hr.
    destruct (xcall fuel x fa args) as [x1 y]. destruct (call_export fuel (x_s x) fa args) as [s1 w].
    cbn [fst snd] in Hs, Hr. specialize (IH x1). rewrite Hs in IH.
    destruct (xrun_calls fuel x1 r) as [x2 ys]. destruct (run_calls fuel s1 r) as [s2 ws]. cbn [fst snd] in *.
    destruct IH as [IH1 IH2]. split; [exact IH1|constructor; assumption].
Qed.

(* closed stays closed, with its first code, along every history *)
Theorem xrun_closed_mono fuel calls : forall x j d,
  closed_code (x_cl x) j = Some d -> closed_code (x_cl (fst (xrun_calls fuel x calls))) j = Some d.
Proof.
  induction calls as [|[fa args] r IH]; intros x j d H; cbn [SemExit.xrun_calls]; [exact H|].
  pose proof (xcall_closed_mono fuel x fa args j d H) as H1.
  destruct (xcall fuel x fa args) as [x1 y]. cbn [fst] in H1. specialize (IH x1 j d H1).
  destruct (xrun_calls fuel x1 r) as [x2 ys]. exact IH.
Qed.

End XP.

(* ---------------------------------------------------------------- non-vacuity: B exits in the middle of A -> B -> host *)
(* instance 0 (A): f0 = call B's function; instance 1 (B): g0 = global0 := 7; call exiting host (code 8*3+1 = 25: host
   function 3, importer position 1); never reached: global0 := 9 *)
Definition ex_store : store Spec :=
  Build_store Spec
    [FHost 25 [32] []; FWasm 0 [] [] 0 [Call 0]; FWasm 1 [] [] 0 [Const 32 7; GlobalSet 0; Const 32 5; Call 1; Const 32 9; GlobalSet 0];
     FWasm 0 [] [32] 0 [GlobalGet 0]]
    [{| i_funcs := [2%nat; 3%nat]; i_globals := [0%nat]; i_mem := None; i_tab := None; i_types := [] |};
     {| i_funcs := [2%nat; 0%nat]; i_globals := [0%nat]; i_mem := None; i_tab := None; i_types := [] |}]
    [0] [] [] [].
Definition ex_host (h : nat) (args : list Z) : hostres Z := HExit (hd 0 args).
Definition ex_who (h : nat) : nat := Nat.modulo h 8.

(* entered through A (function 1): the exit error carries 5 (class 7 + 100*5), B (instance 1) is closed with 5, A stays
   open (-1), the write made before the exit persists (a later call on A reads 7), a later call on B's export reports
   B's exit *)
Definition ex_summary : list Z :=
  let '(x, rs) := xrun_calls Spec ex_host (fun _ => false) 10 ex_who 100 {| x_s := ex_store; x_cl := [] |}
                    [(1%nat, []); (3%nat, []); (2%nat, [])] in
  map (fun r : result Spec => match r with RVals vs => hd 0 vs | RTrap t => - trap_code t | RFuel => -1 end) rs ++
  [match closed_code (x_cl x) 1 with Some c => c | None => -1 end; match closed_code (x_cl x) 0 with Some c => c | None => -1 end].
Example ex_exit_in_the_middle : ex_summary = [-507; 7; -507; 5; -1].
Proof. vm_compute. reflexivity. Qed.

(* ---------------------------------------------------------------- linked histories *)
Section XL.
Variable hs : list hostsig.

(* continue-as-if for histories of instantiations and calls on the extended state (store, positions, closed flags,
   registrations) *)
Theorem xlrun_app a1 : forall x a2,
  xlrun hs x (a1 ++ a2) =
  let '(x1, r1) := xlrun hs x a1 in
  let '(x2, r2) := xlrun hs x1 a2 in (x2, r1 ++ r2).
Proof.
  induction a1 as [|a r IH]; intros x a2; cbn [xlrun app].
  - destruct (xlrun hs x a2). reflexivity.
  - destruct a as [m starts|mn fi args|].
    + destruct (linst _ _ _ _ _) as [st1 c]. rewrite IH.
      destruct (xlrun hs _ r) as [x2 ys]. destruct (xlrun hs x2 a2) as [x3 zs]. reflexivity.
    + destruct (nth mn (xl_mm x) None) as [ii|].
      * destruct (nth_error _ fi) as [fa|].
        -- destruct (SemExit.xcall _ _ _ _ _ _ _ _ _) as [y res]. rewrite IH.
           destruct (xlrun hs _ r) as [x2 ys]. destruct (xlrun hs x2 a2) as [x3 zs]. reflexivity.
        -- rewrite IH. destruct (xlrun hs x r) as [x2 ys]. destruct (xlrun hs x2 a2) as [x3 zs]. reflexivity.
      * rewrite IH. destruct (xlrun hs x r) as [x2 ys]. destruct (xlrun hs x2 a2) as [x3 zs]. reflexivity.
    + rewrite IH. destruct (xlrun hs _ r) as [x2 ys]. destruct (xlrun hs x2 a2) as [x3 zs]. reflexivity.
Qed.

End XL.
