(* C01: the interpreter's value discipline (Wasm/Slots.v, operators REGENERATED from interpreter.go and
   compiler.go into Gen/GenInterp.v) refines the specification's numerics, operator by operator, and the
   refinement lifts to whole executions of the reference semantics through SemRelP.exec_rel. *)
From Coq Require Import ZArith List Bool Lia ZifyBool.
From Verif Require Import Lib.GoInt Lib.GoBits Lib.StackEff Wasm.Numerics Wasm.Sem Gen.GenInterp Wasm.Slots
  Proofs.NumericsP Proofs.SemP Proofs.SemRelP.
Import ListNotations.
Open Scope Z_scope.
Ltac Zify.zify_post_hook ::= Z.div_mod_to_equations.

(* ------------------------------------------------------------------ running a generated case body *)
Ltac lit_eqb := repeat match goal with
  | |- context [Z.eqb ?a ?b] =>
      match a with Z0 => idtac | Zpos _ => idtac | Zneg _ => idtac end;
      match b with Z0 => idtac | Zpos _ => idtac | Zneg _ => idtac end;
      let r := eval compute in (Z.eqb a b) in change (Z.eqb a b) with r
  end.

Ltac unfold_gen :=
  cbv beta iota zeta delta [slot_un_eff slot_bin_eff lower_un lower_bin pick exec_op l_kind l_b1 l_b2 l_b3
    lower_OpcodeI32Eqz lower_OpcodeI32Eq lower_OpcodeI32Ne lower_OpcodeI32LtS lower_OpcodeI32LtU lower_OpcodeI32GtS
    lower_OpcodeI32GtU lower_OpcodeI32LeS lower_OpcodeI32LeU lower_OpcodeI32GeS lower_OpcodeI32GeU lower_OpcodeI32Clz
    lower_OpcodeI32Ctz lower_OpcodeI32Popcnt lower_OpcodeI32Add lower_OpcodeI32Sub lower_OpcodeI32Mul lower_OpcodeI32DivS
    lower_OpcodeI32DivU lower_OpcodeI32RemS lower_OpcodeI32RemU lower_OpcodeI32And lower_OpcodeI32Or lower_OpcodeI32Xor
    lower_OpcodeI32Shl lower_OpcodeI32ShrS lower_OpcodeI32ShrU lower_OpcodeI32Rotl lower_OpcodeI32Rotr
    lower_OpcodeI64Eqz lower_OpcodeI64Eq lower_OpcodeI64Ne lower_OpcodeI64LtS lower_OpcodeI64LtU lower_OpcodeI64GtS
    lower_OpcodeI64GtU lower_OpcodeI64LeS lower_OpcodeI64LeU lower_OpcodeI64GeS lower_OpcodeI64GeU lower_OpcodeI64Clz
    lower_OpcodeI64Ctz lower_OpcodeI64Popcnt lower_OpcodeI64Add lower_OpcodeI64Sub lower_OpcodeI64Mul lower_OpcodeI64DivS
    lower_OpcodeI64DivU lower_OpcodeI64RemS lower_OpcodeI64RemU lower_OpcodeI64And lower_OpcodeI64Or lower_OpcodeI64Xor
    lower_OpcodeI64Shl lower_OpcodeI64ShrS lower_OpcodeI64ShrU lower_OpcodeI64Rotl lower_OpcodeI64Rotr
    lower_OpcodeI32WrapI64 lower_OpcodeI64ExtendI32S lower_OpcodeI64ExtendI32U lower_OpcodeI32Extend8S
    lower_OpcodeI32Extend16S lower_OpcodeI64Extend8S lower_OpcodeI64Extend16S lower_OpcodeI64Extend32S
    exec_operationKindEq exec_operationKindNe exec_operationKindEqz exec_operationKindLt exec_operationKindGt
    exec_operationKindLe exec_operationKindGe exec_operationKindAdd exec_operationKindSub exec_operationKindMul
    exec_operationKindClz exec_operationKindCtz exec_operationKindPopcnt exec_operationKindDiv exec_operationKindRem
    exec_operationKindAnd exec_operationKindOr exec_operationKindXor exec_operationKindShl exec_operationKindShr
    exec_operationKindRotl exec_operationKindRotr exec_operationKindI32WrapFromI64 exec_operationKindExtend
    exec_operationKindSignExtend32From8 exec_operationKindSignExtend32From16 exec_operationKindSignExtend64From8
    exec_operationKindSignExtend64From16 exec_operationKindSignExtend64From32 exec_operationKindSelect orb].
(* evaluate the dispatch on Kind / B1 (closed literals) and nothing else *)
Ltac run_gen := repeat (progress (unfold_gen; lit_eqb)).

(* ------------------------------------------------------------------ arithmetic bridges *)
Lemma wf_inr w x : wf w x <-> inr w x. Proof. reflexivity. Qed.

Lemma wfb_wf w x : wfb w x = true <-> wf w x.
Proof. unfold wfb, wf. rewrite andb_true_iff, Z.leb_le, Z.ltb_lt. reflexivity. Qed.

Lemma wrap_modN w z : wrap w z = modN w z. Proof. reflexivity. Qed.

Lemma wrap_wf w x : wf w x -> wrap w x = x.
Proof. intros H. apply wrap_small. exact H. Qed.

Definition sw (w : Z) : Prop := w = 8 \/ w = 16 \/ w = 32 \/ w = 64.

Lemma swrap_sgn_mod w z : sw w -> swrap w z = sgn w (modN w z).
Proof.
  intros [-> | [-> | [-> | ->]]]; unfold swrap, sgn, modN;
    match goal with |- context [Z.ltb ?a ?b] => destruct (Z.ltb_spec a b) end; simpl Z.pow in *; simpl Z.sub in *; lia.
Qed.

Lemma swrap_sgn w x : sw w -> wf w x -> swrap w x = sgn w x.
Proof. intros Hw Hx. rewrite swrap_sgn_mod by exact Hw. rewrite modN_small by exact Hx. reflexivity. Qed.

Lemma wrap_swrap w z : sw w -> wrap w (swrap w z) = wrap w z.
Proof. intros [-> | [-> | [-> | ->]]]; unfold swrap, wrap; simpl Z.pow; simpl Z.sub; lia. Qed.

Lemma sgn_zero_iff w x : sw w -> wf w x -> (sgn w x = 0 <-> x = 0).
Proof.
  intros Hw Hx. unfold sgn, wf in *. destruct Hw as [-> | [-> | [-> | ->]]]; simpl Z.pow in *; simpl Z.sub in *;
    match goal with |- context [Z.ltb ?a ?b] => destruct (Z.ltb_spec a b) end; lia.
Qed.

Lemma irotr_count_mod N x k k' : k mod N = k' mod N -> irotr N x k = irotr N x k'.
Proof. intros E. unfold irotr. rewrite E. reflexivity. Qed.

Lemma small_counts w r : (w = 32 \/ w = 64) -> 0 <= r <= w -> wrap 64 r = r.
Proof. intros Hw Hr. apply wrap_small. assert (w < 2 ^ 64) by (destruct Hw; subst; reflexivity). lia. Qed.

Lemma b2z_if (b : bool) : (if b then Eff [1] else Eff [0]) = Eff [b2z b].
Proof. destruct b; reflexivity. Qed.

(* ------------------------------------------------------------------ unary operators *)
Definition un_refines (o : unop) (x : Z) : Prop :=
  slot_un_eff o x = Eff [spec_un o x] /\ wf (un_out o) (spec_un o x).

Lemma w_cases w : width_ok w = true -> w = 32 \/ w = 64.
Proof. unfold width_ok. rewrite orb_true_iff, !Z.eqb_eq. tauto. Qed.

Lemma slot_un_refines o x : valid_un o = true -> wf (un_in o) x -> un_refines o x.
Proof.
  intros Hv Hx. unfold un_refines.
  assert (Hrange : wf (un_out o) (spec_un o x)).
  { destruct o as [w u|w| | |]; cbn [valid_un un_in un_out spec_un] in *.
    - assert (Hw : w = 32 \/ w = 64).
      { destruct u; first [apply w_cases; exact Hv | right; apply Z.eqb_eq; exact Hv]. }
      apply iunop_range; [destruct Hw; subst; lia|exact Hx].
    - unfold ieqz, b2z, wf. destruct (x =? 0); simpl; lia.
    - unfold wrap_i64. apply modN_range. lia.
    - unfold extend_i32_s. apply modN_range. lia.
    - unfold extend_i32_u, wf in *. simpl Z.pow in *. lia. }
  split; [|exact Hrange]. clear Hrange.
  destruct o as [w u|w| | |]; cbn [valid_un un_in spec_un] in *.
  - (* iN.clz ctz popcnt extendM_s *)
    destruct u; cbn [eval_iunop].
    6: apply Z.eqb_eq in Hv; subst w; run_gen.
    1-5: apply w_cases in Hv; destruct Hv as [-> | ->]; run_gen.
    all: rewrite ?(wrap_wf 32 x Hx).
    + rewrite (small_counts 32) by (auto; apply count_lz_range). rewrite LeadingZeros32_clz by exact Hx. reflexivity.
    + rewrite (small_counts 64) by (auto; apply count_lz_range). rewrite LeadingZeros64_clz by exact Hx. reflexivity.
    + rewrite (small_counts 32) by (auto; apply count_tz_range). rewrite TrailingZeros32_ctz. reflexivity.
    + rewrite (small_counts 64) by (auto; apply count_tz_range). rewrite TrailingZeros64_ctz. reflexivity.
    + rewrite (small_counts 32) by (auto; apply count_ones_range). rewrite OnesCount32_popcnt. reflexivity.
    + rewrite (small_counts 64) by (auto; apply count_ones_range). rewrite OnesCount64_popcnt. reflexivity.
    + unfold iextend_s. rewrite (swrap_sgn_mod 8) by (unfold sw; auto). reflexivity.
    + unfold iextend_s. rewrite (swrap_sgn_mod 8) by (unfold sw; auto). reflexivity.
    + unfold iextend_s. rewrite (swrap_sgn_mod 16) by (unfold sw; auto). reflexivity.
    + unfold iextend_s. rewrite (swrap_sgn_mod 16) by (unfold sw; auto). reflexivity.
    + unfold iextend_s. rewrite (swrap_sgn_mod 32) by (unfold sw; auto). reflexivity.
  - (* iN.eqz: the WHOLE slot is tested *)
    apply w_cases in Hv; destruct Hv as [-> | ->]; run_gen; rewrite b2z_if; reflexivity.
  - (* i32.wrap_i64 *) run_gen. reflexivity.
  - (* i64.extend_i32_s *) run_gen. unfold extend_i32_s. rewrite (swrap_sgn 32) by (unfold sw; auto). reflexivity.
  - (* i64.extend_i32_u *) run_gen. rewrite (wrap_wf 32 x Hx). reflexivity.
Qed.

(* ------------------------------------------------------------------ binary operators and comparisons *)
(* None = the specification traps; the interpreter then panics with the matching sentinel *)
Definition bin_refines (o : binop) (x y : Z) : Prop :=
  match spec_bin o x y with
  | Some v => slot_bin_eff o x y = Eff [v] /\ wf (bin_out o) v
  | None => (y = 0 /\ slot_bin_eff o x y = ETrap ErrRuntimeIntegerDivideByZero) \/
            (y <> 0 /\ slot_bin_eff o x y = ETrap ErrRuntimeIntegerOverflow)
  end.

Definition w2 (N : Z) : Prop := N = 32 \/ N = 64.
Lemma w2_sw N : w2 N -> sw N. Proof. unfold w2, sw. tauto. Qed.
Lemma w2_pos N : w2 N -> 0 < N. Proof. unfold w2. lia. Qed.

Section Bridges.
Variable N : Z.
Hypothesis HN : w2 N.
Variables x y : Z.
Hypothesis Hx : wf N x.
Hypothesis Hy : wf N y.

Lemma br_divs MIN : MIN = - 2 ^ (N - 1) ->
  match idiv_s N x y with
  | Some v =>
      (if y =? 0 then ETrap ErrRuntimeIntegerDivideByZero
       else if (swrap N x =? MIN) && (swrap N y =? -1) then ETrap ErrRuntimeIntegerOverflow
       else if swrap N y =? 0 then EGoPanic
       else Eff [wrap N (swrap N (Z.quot (swrap N x) (swrap N y)))]) = Eff [v]
  | None =>
      (y = 0 /\
       (if y =? 0 then ETrap ErrRuntimeIntegerDivideByZero
        else if (swrap N x =? MIN) && (swrap N y =? -1) then ETrap ErrRuntimeIntegerOverflow
        else if swrap N y =? 0 then EGoPanic
        else Eff [wrap N (swrap N (Z.quot (swrap N x) (swrap N y)))]) = ETrap ErrRuntimeIntegerDivideByZero) \/
      (y <> 0 /\
       (if y =? 0 then ETrap ErrRuntimeIntegerDivideByZero
        else if (swrap N x =? MIN) && (swrap N y =? -1) then ETrap ErrRuntimeIntegerOverflow
        else if swrap N y =? 0 then EGoPanic
        else Eff [wrap N (swrap N (Z.quot (swrap N x) (swrap N y)))]) = ETrap ErrRuntimeIntegerOverflow)
  end.
Proof.
  intros ->. unfold idiv_s. pose proof (w2_pos N HN) as Hpos. pose proof (w2_sw N HN) as Hsw.
  rewrite (swrap_sgn N x), (swrap_sgn N y) by assumption.
  destruct (Z.eqb_spec y 0) as [E0|Hne]; [left; split; [exact E0|reflexivity]|].
  pose proof (sgn_range N x Hpos Hx) as Ra. pose proof (sgn_range N y Hpos Hy) as Rb.
  assert (Hb : sgn N y <> 0) by (rewrite (sgn_zero_iff N y Hsw Hy); exact Hne).
  assert (HP : 0 < 2 ^ (N - 1)) by (apply pow2_pos; lia).
  pose proof (quot_eq_P (sgn N x) (sgn N y) (2 ^ (N - 1)) HP Hb Ra Rb) as Hq.
  destruct (Z.eqb_spec (Z.quot (sgn N x) (sgn N y)) (2 ^ (N - 1))) as [Eq|Nq].
  - right. split; [exact Hne|]. apply Hq in Eq. destruct Eq as [-> ->]. rewrite !Z.eqb_refl. reflexivity.
  - assert (Hand : (sgn N x =? - 2 ^ (N - 1)) && (sgn N y =? -1) = false).
    { apply andb_false_iff. destruct (Z.eqb_spec (sgn N x) (- 2 ^ (N - 1))) as [Ea|]; [|auto].
      destruct (Z.eqb_spec (sgn N y) (-1)) as [Eb|]; [|auto]. exfalso. apply Nq, Hq. auto. }
    rewrite Hand. destruct (Z.eqb_spec (sgn N y) 0); [contradiction|].
    rewrite (wrap_swrap N) by exact Hsw. reflexivity.
Qed.

Lemma br_rems :
  match irem_s N x y with
  | Some v =>
      (if y =? 0 then ETrap ErrRuntimeIntegerDivideByZero
       else if swrap N y =? 0 then EGoPanic
       else Eff [wrap N (swrap N (Z.rem (swrap N x) (swrap N y)))]) = Eff [v]
  | None =>
      (y = 0 /\
       (if y =? 0 then ETrap ErrRuntimeIntegerDivideByZero
        else if swrap N y =? 0 then EGoPanic
        else Eff [wrap N (swrap N (Z.rem (swrap N x) (swrap N y)))]) = ETrap ErrRuntimeIntegerDivideByZero) \/
      (y <> 0 /\
       (if y =? 0 then ETrap ErrRuntimeIntegerDivideByZero
        else if swrap N y =? 0 then EGoPanic
        else Eff [wrap N (swrap N (Z.rem (swrap N x) (swrap N y)))]) = ETrap ErrRuntimeIntegerOverflow)
  end.
Proof.
  unfold irem_s. pose proof (w2_sw N HN) as Hsw. rewrite (swrap_sgn N x), (swrap_sgn N y) by assumption.
  destruct (Z.eqb_spec y 0) as [E0|Hne]; [left; split; [exact E0|reflexivity]|].
  assert (Hb : sgn N y <> 0) by (rewrite (sgn_zero_iff N y Hsw Hy); exact Hne).
  destruct (Z.eqb_spec (sgn N y) 0); [contradiction|]. rewrite (wrap_swrap N) by exact Hsw. reflexivity.
Qed.

Lemma br_divu :
  match idiv_u N x y with
  | Some v => (if y =? 0 then ETrap ErrRuntimeIntegerDivideByZero else if y =? 0 then EGoPanic else Eff [x / y]) = Eff [v]
  | None =>
      (y = 0 /\ (if y =? 0 then ETrap ErrRuntimeIntegerDivideByZero else if y =? 0 then EGoPanic else Eff [x / y])
                = ETrap ErrRuntimeIntegerDivideByZero) \/
      (y <> 0 /\ (if y =? 0 then ETrap ErrRuntimeIntegerDivideByZero else if y =? 0 then EGoPanic else Eff [x / y])
                 = ETrap ErrRuntimeIntegerOverflow)
  end.
Proof. unfold idiv_u. destruct (Z.eqb_spec y 0) as [E0|Hne]; [left; split; [exact E0|reflexivity]|reflexivity]. Qed.

Lemma br_remu :
  match irem_u N x y with
  | Some v => (if y =? 0 then ETrap ErrRuntimeIntegerDivideByZero else if y =? 0 then EGoPanic else Eff [x mod y]) = Eff [v]
  | None =>
      (y = 0 /\ (if y =? 0 then ETrap ErrRuntimeIntegerDivideByZero else if y =? 0 then EGoPanic else Eff [x mod y])
                = ETrap ErrRuntimeIntegerDivideByZero) \/
      (y <> 0 /\ (if y =? 0 then ETrap ErrRuntimeIntegerDivideByZero else if y =? 0 then EGoPanic else Eff [x mod y])
                 = ETrap ErrRuntimeIntegerOverflow)
  end.
Proof. unfold irem_u. destruct (Z.eqb_spec y 0) as [E0|Hne]; [left; split; [exact E0|reflexivity]|reflexivity]. Qed.

Lemma count_lt : 0 <= y mod N < N.
Proof. apply Z.mod_pos_bound. apply w2_pos. exact HN. Qed.

Lemma br_shl : shlv N x (y mod N) = ishl N x y.
Proof. unfold shlv, ishl. pose proof count_lt. destruct (Z.ltb_spec (y mod N) N); [reflexivity|lia]. Qed.
Lemma br_shru : shrv N x (y mod N) = ishr_u N x y.
Proof. unfold shrv, ishr_u. pose proof count_lt. destruct (Z.ltb_spec (y mod N) N); [reflexivity|lia]. Qed.
Lemma br_shrs : wrap N (shrv N (swrap N x) (y mod N)) = ishr_s N x y.
Proof.
  unfold shrv, ishr_s. pose proof count_lt. rewrite (swrap_sgn N) by (try apply w2_sw; assumption).
  destruct (Z.ltb_spec (y mod N) N); [reflexivity|lia].
Qed.

Lemma br_rotl (RL : Z -> Z -> Z) : (forall a k, wf N a -> RL a k = irotl N a k) ->
  RL x (swrap 64 y) = irotl N x y.
Proof. intros H. rewrite H by exact Hx. apply irotl_count_mod; [apply w2_pos; exact HN|]. apply swrap64_mod. exact HN. Qed.
Lemma br_rotr (RL : Z -> Z -> Z) : (forall a k, wf N a -> RL a k = irotl N a k) ->
  RL x (swrap 64 (- swrap 64 y)) = irotr N x y.
Proof.
  intros H. rewrite H by exact Hx.
  rewrite (irotl_count_mod N x _ (- swrap 64 y)); [|apply w2_pos; exact HN|apply swrap64_mod; exact HN].
  rewrite irotl_neg_irotr; [|exact HN|exact Hx]. apply irotr_count_mod. apply swrap64_mod. exact HN.
Qed.
End Bridges.

Lemma slot_bin_refines o x y : valid_bin o = true -> wf (bin_in o) x -> wf (bin_in o) y -> bin_refines o x y.
Proof.
  intros Hv Hx Hy. unfold bin_refines.
  assert (Hrange : forall v, spec_bin o x y = Some v -> wf (bin_out o) v).
  { destruct o as [w b|w r]; cbn [valid_bin bin_in bin_out spec_bin] in *; apply w_cases in Hv.
    - intros v E. apply (ibinop_range w b x y v); [lia|exact Hx|exact Hy|exact E].
    - intros v [= <-]. destruct (irelop_range w r x y) as [-> | ->]; unfold wf; simpl; lia. }
  destruct (spec_bin o x y) as [v|] eqn:Es.
  - split; [|apply Hrange; reflexivity]. clear Hrange. revert Es.
    destruct o as [w b|w r]; cbn [valid_bin bin_in bin_out spec_bin] in *; apply w_cases in Hv.
    + assert (H2 : w2 w) by exact Hv.
      destruct Hv as [-> | ->]; destruct b; cbn [eval_ibinop]; run_gen; rewrite ?(wrap_wf 32 x Hx), ?(wrap_wf 32 y Hy);
        try (intros [= <-]; first
          [ reflexivity
          | rewrite Z.land_comm; reflexivity | rewrite Z.lor_comm; reflexivity | rewrite Z.lxor_comm; reflexivity
          | rewrite (br_shl _ H2); reflexivity | rewrite (br_shru _ H2); reflexivity
          | rewrite (br_shrs _ H2) by assumption; reflexivity
          | rewrite (br_rotl 32 H2 x y Hx RotateLeft32 RotateLeft32_rotl); reflexivity
          | rewrite (br_rotl 64 H2 x y Hx RotateLeft64 RotateLeft64_rotl); reflexivity
          | rewrite (br_rotr 32 H2 x y Hx RotateLeft32 RotateLeft32_rotl); reflexivity
          | rewrite (br_rotr 64 H2 x y Hx RotateLeft64 RotateLeft64_rotl); reflexivity ]).
      * intros E. pose proof (br_divs 32 H2 x y Hx Hy (-2147483648) eq_refl) as B. rewrite E in B. exact B.
      * intros E. pose proof (br_divu 32 x y) as B. rewrite E in B. exact B.
      * intros E. pose proof (br_rems 32 H2 x y Hx Hy) as B. rewrite E in B. exact B.
      * intros E. pose proof (br_remu 32 x y) as B. rewrite E in B. exact B.
      * intros E. pose proof (br_divs 64 H2 x y Hx Hy (-9223372036854775808) eq_refl) as B. rewrite E in B. exact B.
      * intros E. pose proof (br_divu 64 x y) as B. rewrite E in B. exact B.
      * intros E. pose proof (br_rems 64 H2 x y Hx Hy) as B. rewrite E in B. exact B.
      * intros E. pose proof (br_remu 64 x y) as B. rewrite E in B. exact B.
    + intros [= <-].
      destruct Hv as [-> | ->]; destruct r; cbn [eval_irelop]; run_gen; rewrite ?(wrap_wf 32 x Hx), ?(wrap_wf 32 y Hy);
        rewrite b2z_if; rewrite ?(swrap_sgn 32), ?(swrap_sgn 64) by (unfold sw; auto); reflexivity.
  - clear Hrange. revert Es.
    destruct o as [w b|w r]; cbn [valid_bin bin_in bin_out spec_bin] in *; apply w_cases in Hv; [|discriminate].
    assert (H2 : w2 w) by exact Hv.
    destruct Hv as [-> | ->]; destruct b; cbn [eval_ibinop]; try discriminate; run_gen; rewrite ?(wrap_wf 32 x Hx), ?(wrap_wf 32 y Hy).
    + intros E. pose proof (br_divs 32 H2 x y Hx Hy (-2147483648) eq_refl) as B. rewrite E in B. exact B.
    + intros E. pose proof (br_divu 32 x y) as B. rewrite E in B. exact B.
    + intros E. pose proof (br_rems 32 H2 x y Hx Hy) as B. rewrite E in B. exact B.
    + intros E. pose proof (br_remu 32 x y) as B. rewrite E in B. exact B.
    + intros E. pose proof (br_divs 64 H2 x y Hx Hy (-9223372036854775808) eq_refl) as B. rewrite E in B. exact B.
    + intros E. pose proof (br_divu 64 x y) as B. rewrite E in B. exact B.
    + intros E. pose proof (br_rems 64 H2 x y Hx Hy) as B. rewrite E in B. exact B.
    + intros E. pose proof (br_remu 64 x y) as B. rewrite E in B. exact B.
Qed.

(* ------------------------------------------------------------------ lifting to whole executions *)
(* Two domains over Z that differ in their operators only (Slots.zdom), whose operators agree pointwise,
   run every program in lock step: an instance of SemRelP.exec_rel with equality as the value relation
   and field-wise equality of stores (code, tables, memories, globals, event log). *)
Lemma F2eq {A} (a b : list A) : Forall2 eq a b -> a = b.
Proof. induction 1; congruence. Qed.
Lemma F2refl {A} (a : list A) : Forall2 eq a a.
Proof. induction a; constructor; auto. Qed.

Section Same.
Variables (un1 un2 : unop -> Z -> Z) (bin1 bin2 : binop -> Z -> Z -> option Z).
Hypothesis Hun : forall o x, un1 o x = un2 o x.
Hypothesis Hbin : forall o x y, bin1 o x y = bin2 o x y.
Notation A := (zdom un1 bin1).
Notation B := (zdom un2 bin2).
Definition veq (a : val A) (b : val B) : Prop := a = b.
Notation Seq := (@store_eq A B veq).

Definition ev_rel (e1 : event (val A)) (e2 : event (val B)) : Prop :=
    match e1, e2 with
    | EHost h a, EHost k b => h = k /\ Forall2 veq a b
    | EBefore f a, EBefore g b => f = g /\ Forall2 veq a b
    | EAfter f a, EAfter g b => f = g /\ Forall2 veq a b
    | EAbort f, EAbort g => f = g
    | _, _ => False
    end.

Lemma log_eq (l1 : list (event (val A))) (l2 : list (event (val B))) : Forall2 ev_rel l1 l2 -> l1 = l2.
Proof.
  induction 1 as [|e1 e2 l1 l2 He _ IH]; [reflexivity|]. rewrite IH. f_equal.
  destruct e1, e2; cbn in He; try contradiction; first [rewrite He; reflexivity | destruct He as [E1 E2]; apply F2eq in E2; rewrite E1, E2; reflexivity].
Qed.
Lemma log_refl (l : list (event Z)) : Forall2 ev_rel l l.
Proof.
  induction l as [|e l IH]; constructor; [|exact IH]. destruct e; cbn; try split; try reflexivity; apply F2refl.
Qed.

Lemma seq_intro (s1 : store A) (s2 : store B) :
  s_funcs s1 = s_funcs s2 -> s_insts s1 = s_insts s2 -> s_tabs s1 = s_tabs s2 -> s_mems s1 = s_mems s2 ->
  s_globals s1 = s_globals s2 -> s_log s1 = s_log s2 -> Seq s1 s2.
Proof.
  intros E1 E2 E3 E4 E5 E6. unfold store_eq. rewrite E1, E2, E3, E4, E5, E6.
  repeat split; [apply F2refl|apply log_refl].
Qed.
Lemma seq_elim (s1 : store A) (s2 : store B) : Seq s1 s2 ->
  s_funcs s1 = s_funcs s2 /\ s_insts s1 = s_insts s2 /\ s_tabs s1 = s_tabs s2 /\ s_mems s1 = s_mems s2 /\
  s_globals s1 = s_globals s2 /\ s_log s1 = s_log s2.
Proof.
  intros (E1 & E2 & E3 & E4 & E5 & E6). repeat split; try assumption; [apply F2eq; exact E5|apply log_eq; exact E6].
Qed.

Lemma same_simple ii (s1 : store A) (s2 : store B) f1 f2 i : Seq s1 s2 -> Rf A B veq f1 f2 ->
  sres_rel A B veq Seq (step_simple A ii s1 f1 i) (step_simple B ii s2 f2 i).
Proof.
  intros Hs [Hst Hlo]. apply seq_elim in Hs. destruct Hs as (E1 & E2 & E3 & E4 & E5 & E6).
  apply F2eq in Hst. apply F2eq in Hlo.
  destruct s1 as [fn1 in1 gl1 me1 tb1 lg1], s2 as [fn2 in2 gl2 me2 tb2 lg2], f1 as [st1 lo1], f2 as [st2 lo2].
  cbn in *. subst.
  unfold step_simple, the_mem, the_inst, setstack, set_globals, set_mems; cbn [s_insts s_mems s_globals s_funcs s_tabs s_log stack locals
    d_un d_bin of_const truthy to_u32 to_bits of_bits zdom val].
  destruct i.
  all: try rewrite Hun; try rewrite Hbin.
  all: repeat (match goal with
         | |- context [match ?x with _ => _ end] => destruct x eqn:?
         end; try rewrite Hun; try rewrite Hbin).
  all: cbn [sres_rel]; auto.
  all: split; [apply seq_intro; reflexivity | split; apply F2refl].
Qed.

Section SameExec.
Variable host : nat -> list Z -> hostres Z.
Variable listened : nat -> bool.
Variable maxdepth : nat.

Lemma seq_add_log (s1 : store A) (s2 : store B) (e : event Z) : Seq s1 s2 -> Seq (add_log A s1 e) (add_log B s2 e).
Proof.
  intros Hs. apply seq_elim in Hs. destruct Hs as (E1 & E2 & E3 & E4 & E5 & E6).
  apply seq_intro; cbn; try assumption. rewrite E6. reflexivity.
Qed.

Theorem same_ops_exec_rel fuel depth ii (s1 : store A) (s2 : store B) f1 f2 is :
  Seq s1 s2 -> Rf A B veq f1 f2 ->
  out_rel A B veq Seq (exec A host listened maxdepth fuel depth ii s1 f1 is)
                      (exec B host listened maxdepth fuel depth ii s2 f2 is).
Proof.
  intros Hs Hf.
  apply (exec_rel A B host host listened listened maxdepth veq Seq (fun _ _ => True)); try exact I; try exact Hs; try exact Hf.
  - intros a b H. apply seq_elim in H. unfold code_eq. tauto.
  - intros; exact I.
  - intros k a b g1 g2 j _ Hab Hg. apply same_simple; assumption.
  - intros a b ->. reflexivity.
  - intros a b ->. reflexivity.
  - reflexivity.
  - intros h a b Hab. apply F2eq in Hab. subst. destruct (host h b); cbn; try split; try reflexivity; apply F2refl.
  - intros a b h x y Hab Hxy. apply F2eq in Hxy. subst. apply seq_add_log. exact Hab.
  - intros a b fa x y Hab Hxy. apply F2eq in Hxy. subst. destruct (listened fa); [apply seq_add_log|]; exact Hab.
  - intros a b fa x y Hab Hxy. apply F2eq in Hxy. subst. destruct (listened fa); [apply seq_add_log|]; exact Hab.
  - intros a b fa Hab. destruct (listened fa); [apply seq_add_log|]; exact Hab.
  - intros; exact I.
  - intros; exact I.
  - intros; exact I.
Qed.
End SameExec.
End Same.

(* ------------------------------------------------------------------ the three machines *)
Notation zeq D1 D2 := (fun (a : val D1) (b : val D2) => a = b).

(* where the specification is defined, the completed specification IS the specification *)
Lemma specg_un_on_wf o x : valid_un o = true -> wf (un_in o) x -> specg_un o x = spec_un o x.
Proof. intros Hv Hx. unfold specg_un. rewrite Hv. apply wfb_wf in Hx. rewrite Hx. reflexivity. Qed.
Lemma specg_bin_on_wf o x y : valid_bin o = true -> wf (bin_in o) x -> wf (bin_in o) y -> specg_bin o x y = spec_bin o x y.
Proof. intros Hv Hx Hy. unfold specg_bin. rewrite Hv. apply wfb_wf in Hx, Hy. rewrite Hx, Hy. reflexivity. Qed.

(* the slot operators agree with the completed specification everywhere: on well-typed applications by the
   operator theorems above, elsewhere by the choice made in SpecG *)
Lemma slot_specg_un o x : slot_un o x = specg_un o x.
Proof.
  unfold specg_un. destruct (valid_un o) eqn:Hv; [|reflexivity]. destruct (wfb (un_in o) x) eqn:Hx; [|reflexivity].
  apply wfb_wf in Hx. destruct (slot_un_refines o x Hv Hx) as [E _]. unfold slot_un. rewrite E. reflexivity.
Qed.
Lemma slot_specg_bin o x y : slot_bin o x y = specg_bin o x y.
Proof.
  unfold specg_bin. destruct (valid_bin o) eqn:Hv; [|reflexivity].
  destruct (wfb (bin_in o) x) eqn:Hx; [|reflexivity]. destruct (wfb (bin_in o) y) eqn:Hy; [|reflexivity].
  apply wfb_wf in Hx, Hy. pose proof (slot_bin_refines o x y Hv Hx Hy) as R. unfold bin_refines in R. cbn [andb].
  unfold slot_bin. destruct (spec_bin o x y) as [v|].
  - destruct R as [E _]. rewrite E. reflexivity.
  - destruct R as [[_ E]|[_ E]]; rewrite E; reflexivity.
Qed.

Theorem slot_machine_refines_guarded_spec host listened maxdepth fuel depth ii (s1 : store Slot) (s2 : store SpecG) f1 f2 is :
  store_eq (zeq Slot SpecG) s1 s2 -> Rf Slot SpecG (zeq Slot SpecG) f1 f2 ->
  out_rel Slot SpecG (zeq Slot SpecG) (store_eq (zeq Slot SpecG))
    (exec Slot host listened maxdepth fuel depth ii s1 f1 is)
    (exec SpecG host listened maxdepth fuel depth ii s2 f2 is).
Proof.
  exact (same_ops_exec_rel slot_un specg_un slot_bin specg_bin slot_specg_un slot_specg_bin host listened maxdepth fuel depth ii s1 s2 f1 f2 is).
Qed.

(* composition of two lock-step results through a middle machine *)
Section Trans.
Variables (unA unB unC : unop -> Z -> Z) (binA binB binC : binop -> Z -> Z -> option Z).
Notation DA := (zdom unA binA). Notation DB := (zdom unB binB). Notation DC := (zdom unC binC).

Lemma seq_trans (a : store DA) (b : store DB) (c : store DC) :
  store_eq (zeq DA DB) a b -> store_eq (zeq DB DC) b c -> store_eq (zeq DA DC) a c.
Proof.
  intros H1 H2. apply seq_elim in H1, H2.
  destruct H1 as (A1 & A2 & A3 & A4 & A5 & A6), H2 as (B1 & B2 & B3 & B4 & B5 & B6).
  apply seq_intro; congruence.
Qed.
Lemma Rf_trans (a : frame DA) (b : frame DB) (c : frame DC) :
  Rf DA DB (zeq DA DB) a b -> Rf DB DC (zeq DB DC) b c -> Rf DA DC (zeq DA DC) a c.
Proof.
  intros [A1 A2] [B1 B2]. apply F2eq in A1, A2, B1, B2. split.
  - change (Forall2 eq (stack a) (stack c)). rewrite A1, B1. apply F2refl.
  - change (Forall2 eq (locals a) (locals c)). rewrite A2, B2. apply F2refl.
Qed.
Lemma out_rel_trans (a : out DA) (b : out DB) (c : out DC) :
  out_rel DA DB (zeq DA DB) (store_eq (zeq DA DB)) a b -> out_rel DB DC (zeq DB DC) (store_eq (zeq DB DC)) b c ->
  out_rel DA DC (zeq DA DC) (store_eq (zeq DA DC)) a c.
Proof.
  destruct a, b, c; cbn; try tauto.
  - intros [S1 F1] [S2 F2]. split; [eapply seq_trans|eapply Rf_trans]; eassumption.
  - intros [E1 [S1 F1]] [E2 [S2 F2]]. split; [congruence|]. split; [eapply seq_trans|eapply Rf_trans]; eassumption.
  - intros [S1 F1] [S2 F2]. split; [eapply seq_trans|eapply Rf_trans]; eassumption.
  - intros [E1 S1] [E2 S2]. split; [congruence|eapply seq_trans; eassumption].
Qed.
End Trans.

(* The interpreter's discipline refines the SPECIFICATION ITSELF on every run on which the specification's
   outcome does not depend on how applications outside the operators' types are completed (hypothesis
   [Hvalid]); that is what validation guarantees for a module, and it is NOT proved here (W has no type
   system): hence "_partial". *)
Theorem slot_machine_refines_spec_partial host listened maxdepth fuel depth ii
    (s1 : store Slot) (sg : store SpecG) (s2 : store Spec) f1 fg f2 is :
  store_eq (zeq Slot SpecG) s1 sg -> Rf Slot SpecG (zeq Slot SpecG) f1 fg ->
  out_rel SpecG Spec (zeq SpecG Spec) (store_eq (zeq SpecG Spec))
    (exec SpecG host listened maxdepth fuel depth ii sg fg is)
    (exec Spec host listened maxdepth fuel depth ii s2 f2 is) ->
  out_rel Slot Spec (zeq Slot Spec) (store_eq (zeq Slot Spec))
    (exec Slot host listened maxdepth fuel depth ii s1 f1 is)
    (exec Spec host listened maxdepth fuel depth ii s2 f2 is).
Proof.
  intros Hs Hf Hvalid.
  exact (out_rel_trans slot_un specg_un spec_un slot_bin specg_bin spec_bin _ _ _
           (slot_machine_refines_guarded_spec host listened maxdepth fuel depth ii s1 sg f1 fg is Hs Hf) Hvalid).
Qed.

(* Sem.v's structural Select is the generated case body of operationKindSelect (scalar target) *)
Lemma select_matches_generated c b a stk :
  exec_operationKindSelect 0 0 false (c :: b :: a :: stk) = Eff ((if truthy Slot c then a else b) :: stk).
Proof. unfold exec_operationKindSelect. cbn [truthy Slot]. destruct (c =? 0); reflexivity. Qed.

(* ------------------------------------------------------------------ well-formedness is needed (F06) *)
(* 0xFFFFFFFFFFFFFFFF and 0x00000000FFFFFFFF both read as the i32 value 0xFFFFFFFF; 0x1_0000_0000 reads as 0 *)
Lemma wf_needed_refuted :
  (slot_bin_eff (BRel 32 Ne) 18446744073709551615 4294967295 = Eff [1] /\
   spec_bin (BRel 32 Ne) (modN 32 18446744073709551615) (modN 32 4294967295) = Some 0) /\
  (slot_bin_eff (BRel 32 LtU) 4294967296 1 = Eff [0] /\
   spec_bin (BRel 32 LtU) (modN 32 4294967296) (modN 32 1) = Some 1) /\
  (slot_un_eff (UEqz 32) 4294967296 = Eff [0] /\ spec_un (UEqz 32) (modN 32 4294967296) = 1) /\
  (truthy Slot 4294967296 = true /\ truthy Spec (modN 32 4294967296) = false) /\
  (* ... while an operator that truncates first is immune *)
  (slot_bin_eff (BRel 32 Eq) 18446744073709551615 4294967295 = Eff [1] /\
   spec_bin (BRel 32 Eq) (modN 32 18446744073709551615) (modN 32 4294967295) = Some 1).
Proof. vm_compute. repeat split. Qed.

(* ------------------------------------------------------------------ non-vacuity: a concrete program on the three machines *)
(* function 0: factorial by a loop (i32); function 1: calls it, signed division, rotation, signed comparison, a host
   call, an i32 store read back by i64.load32_s, 64-bit xor/mul/arithmetic shift, a global, wrap, popcnt, rotr;
   function 3: the same followed by an i32 division by zero; function 2 is a host function. *)
Definition fact_body : list instr :=
  [ Const 32 1; LocalSet 1;
    Block 0 0 [ Loop 0 0 [ LocalGet 0; Un (UEqz 32); BrIf 1;
                           LocalGet 1; LocalGet 0; Bin (BInt 32 Mul); LocalSet 1;
                           LocalGet 0; Const 32 1; Bin (BInt 32 Sub); LocalSet 0; Br 0 ] ];
    LocalGet 1 ].
Definition main_body : list instr :=
  [ Const 32 5; Call 0;                                   (* 120 *)
    Const 32 (-7); Bin (BInt 32 DivS);                    (* -17 as i32 *)
    LocalTee 0;
    Const 32 3; Bin (BInt 32 Rotl);
    Const 32 100; Bin (BRel 32 LtS);                      (* negative < 100 : 1 *)
    Call 2;                                               (* host: +1 -> 2 *)
    Const 32 16; LocalGet 0; Store 4 0;                   (* mem[16..20) := -17 *)
    Const 32 16; Load 64 4 true 0;                        (* i64.load32_s : -17 as i64 *)
    Const 64 (-1); Bin (BInt 64 Xor);                     (* 16 *)
    LocalGet 0; Un UExtS; Bin (BInt 64 Mul);              (* 16 * -17 = -272 *)
    Const 64 3; Bin (BInt 64 ShrS);                       (* -34 *)
    GlobalSet 0;
    GlobalGet 0; Un UWrap; Un (UInt 32 Popcnt);
    Bin (BInt 32 Add);
    GlobalGet 0; Const 64 60; Bin (BInt 64 Rotr);
    Const 32 0; Const 32 0; Bin (BInt 32 DivU); Drop ].   (* traps at the end *)
Definition main2_body : list instr := firstn 30 main_body.

Definition prog (D : domain) : store D :=
  {| s_funcs := [ FWasm 0 [32] [32] 1 fact_body; FWasm 0 [] [32; 64] 1 main2_body; FHost 7 [32] [32]; FWasm 0 [] [32;64] 1 main_body ];
     s_insts := [ {| i_funcs := [0; 1; 2; 3]%nat; i_globals := [0%nat]; i_mem := Some 0%nat; i_tab := None; i_types := [] |} ];
     s_globals := [ of_const D 64 0 ];
     s_mems := [ {| mlen := 65536; mmax := 2; mdata := [] |} ];
     s_tabs := []; s_log := [] |}.
Definition hostf (h : nat) (a : list Z) : hostres Z := HRet (map (fun x => x + 1) a).

Definition obs {D} (tb : val D -> Z) (r : store D * result D) :=
  (match snd r with RVals vs => Some (map tb vs) | _ => None end, map tb (s_globals (fst r)),
   map (fun e => match e with EHost h a => (1, Z.of_nat h, map tb a) | EBefore f a => (2, Z.of_nat f, map tb a)
                            | EAfter f a => (3, Z.of_nat f, map tb a) | EAbort f => (4, Z.of_nat f, []) end) (s_log (fst r))).

Example run_three_machines :
  let expect := (Some [32; 18446744073709551087], [18446744073709551582],
                 [(2, 1%Z, []); (2, 0, [5]); (3, 0, [120]); (2, 2, [1]); (1, 7, [1]); (3, 2, [2]);
                  (3, 1, [32; 18446744073709551087])]) in
  obs (to_bits Slot) (call_export Slot hostf (fun _ => true) 10 2000 (prog Slot) 1 []) = expect /\
  obs (to_bits SpecG) (call_export SpecG hostf (fun _ => true) 10 2000 (prog SpecG) 1 []) = expect /\
  obs (to_bits Spec) (call_export Spec hostf (fun _ => true) 10 2000 (prog Spec) 1 []) = expect.
Proof. vm_compute. repeat split. Qed.

(* the hypothesis of slot_machine_refines_spec_partial is satisfiable: here it is discharged by running both
   specification machines; the run ends in the division trap of function 3 *)
Definition fr0 (D : domain) : frame D := {| stack := []; locals := [] |}.
Example partial_instance :
  out_rel Slot Spec (zeq Slot Spec) (store_eq (zeq Slot Spec))
    (exec Slot hostf (fun _ => true) 10 2000 0 0 (prog Slot) (fr0 Slot) [Call 1; Drop; Call 3])
    (exec Spec hostf (fun _ => true) 10 2000 0 0 (prog Spec) (fr0 Spec) [Call 1; Drop; Call 3]).
Proof.
  apply (slot_machine_refines_spec_partial hostf (fun _ => true) 10%nat 2000%nat 0%nat 0%nat (prog Slot) (prog SpecG) (prog Spec) (fr0 Slot) (fr0 SpecG) (fr0 Spec)).
  - apply seq_intro; reflexivity.
  - split; constructor.
  - vm_compute.
    repeat match goal with
    | |- _ /\ _ => split
    | |- _ = _ => reflexivity
    | |- Forall2 _ [] [] => apply Forall2_nil
    | |- Forall2 _ (_ :: _) (_ :: _) => apply Forall2_cons
    end.
Qed.
