(* C20 on linked programs: start functions, cross-instance calls, listener subsets.
   - a call instruction whose callee (any instance's function, or a host function) is listened appends
     EBefore callee args :: well-bracketed middle ++ [EAfter callee results] (or [EAbort callee]);
   - the events a listener SUBSET sees are the events of any larger listener set restricted to it (for the empty
     subset this is transparency), in lock step with equal values, memories, globals, tables;
   - instantiation (Rt/Linking.v) logs nothing but what its start function logs, and that is the log of an ordinary
     export call without arguments; every history of instantiations, post-instantiation start functions and export
     calls appends a well-bracketed event list. *)
From Coq Require Import ZArith List Bool Lia.
From Verif Require Import Wasm.Numerics Wasm.Sem Wasm.Harness Rt.Linking Wasm.ListenerLink.
From Verif Require Import Proofs.SemP Proofs.SemRelP Proofs.ListenerValuesP.
Import ListNotations.
Open Scope Z_scope.

(* ================================================================ a call instruction *)
Section CallInstr.
Variable D : domain.
Variable host : nat -> list (val D) -> hostres (val D).
Variable listened : nat -> bool.
Variable maxdepth : nat.

Definition nparams (s : store D) (fa : nat) : nat :=
  match nth_error (s_funcs s) fa with
  | Some (FWasm _ tp _ _ _) | Some (FHost _ tp _) => length tp | None => O end.

Theorem call_instr_events fu depth ii s f k fa :
  nth_error (i_funcs (the_inst D s ii)) k = Some fa -> listened fa = true ->
  let np := nparams s fa in
  let args := rev (firstn np (stack f)) in
  match exec D host listened maxdepth (S (S fu)) depth ii s f [Call k] with
  | Normal s' f' => exists mid vs, s_log s' = s_log s ++ EBefore fa args :: mid ++ [EAfter fa vs] /\ balanced D mid /\
                                   stack f' = rev vs ++ skipn np (stack f) /\ locals f' = locals f
  | Trap t s' => exists mid, s_log s' = s_log s ++ EBefore fa args :: mid ++ [EAbort fa] /\ balanced D mid
  | OutOfFuel => True
  | _ => False
  end.
Proof.
  intros Hk Hl np args.
  remember (S fu) as fu1 eqn:Efu.
  cbn [exec].
  assert (Hs : step_simple D ii s f (Call k) = SNot) by reflexivity.
  rewrite Hs, Hk.
  pose proof (invoke_events D host listened maxdepth fu1 depth s fa args) as H.
  rewrite Hl in H. fold (nparams s fa). fold np. fold args.
  destruct (invoke_with D host listened maxdepth (exec D host listened maxdepth fu1) depth s fa args) as [s' vs|t s'|];
    cbv beta iota in H.
  - subst fu1. cbn [exec]. destruct H as (mid & E & B). exists mid, vs. cbn [setstack stack locals]. auto.
  - exact H.
  - exact I.
Qed.
End CallInstr.

(* ================================================================ listener subsets *)
Section Projection.
Variable D : domain.
Variable host : nat -> list (val D) -> hostres (val D).
Variables L1 L2 : nat -> bool.
Variable maxdepth : nat.

(* the events a listener set L2 sees of a log *)
Fixpoint keep (l : list (event (val D))) : list (event (val D)) :=
  match l with
  | [] => []
  | EHost h a :: r => EHost h a :: keep r
  | EBefore f a :: r => if L2 f then EBefore f a :: keep r else keep r
  | EAfter f a :: r => if L2 f then EAfter f a :: keep r else keep r
  | EAbort f :: r => if L2 f then EAbort f :: keep r else keep r
  end.

Lemma keep_app a b : keep (a ++ b) = keep a ++ keep b.
Proof.
  induction a as [|e a IH]; cbn; [reflexivity|].
  destruct e; cbn; try destruct (L2 f); cbn; rewrite IH; reflexivity.
Qed.

Definition projected (s1 s2 : store D) : Prop := s2 = set_log D s1 (keep (s_log s1)).

Lemma projected_simple ii s1 s2 f1 f2 i : projected s1 s2 -> Rf D D eq f1 f2 ->
  sres_rel D D eq projected (step_simple D ii s1 f1 i) (step_simple D ii s2 f2 i).
Proof.
  intros -> [Hs Hl]. apply Forall2_eq in Hs. apply Forall2_eq in Hl.
  assert (f2 = f1) as -> by (destruct f1, f2; cbn in *; congruence).
  rewrite step_simple_set_log.
  destruct (step_simple D ii s1 f1 i) as [s' f'|t|] eqn:E; cbn; auto.
  split; [|split; apply Forall2_eq_refl].
  apply step_simple_log in E. destruct E as [_ El]. unfold projected. rewrite El. reflexivity.
Qed.

Theorem listener_subset_projection fuel depth ii s1 s2 f is :
  (forall fa, L2 fa = true -> L1 fa = true) -> projected s1 s2 ->
  out_rel D D eq projected (exec D host L1 maxdepth fuel depth ii s1 f is)
                           (exec D host L2 maxdepth fuel depth ii s2 f is).
Proof.
  intros Hsub He.
  assert (Hev : forall fa (e : event (val D)) a,
             (match e with EBefore g _ | EAfter g _ | EAbort g => g = fa | EHost _ _ => False end) ->
             projected a (set_log D a (keep (s_log a))) ->
             projected (if L1 fa then add_log D a e else a)
                       (if L2 fa then add_log D (set_log D a (keep (s_log a))) e else set_log D a (keep (s_log a)))).
  { intros fa e a Hg _. destruct (L2 fa) eqn:E2.
    - rewrite (Hsub _ E2). unfold projected, add_log, set_log; cbn. rewrite keep_app.
      destruct e; try contradiction; subst; cbn; rewrite E2; reflexivity.
    - destruct (L1 fa); [|reflexivity]. unfold projected, add_log, set_log; cbn. rewrite keep_app.
      destruct e; try contradiction; subst; cbn; rewrite E2, app_nil_r; reflexivity. }
  refine (exec_rel D D host host L1 L2 maxdepth eq projected (fun _ _ => True)
            _ (fun _ _ _ _ _ => I) _ _ _ _ _ _ _ _ _ (fun _ _ _ _ _ _ _ _ _ _ _ _ => I) (fun _ _ _ _ _ _ _ _ _ _ _ _ _ => I)
            (fun _ _ _ _ _ _ _ _ _ _ _ _ _ _ => I) fuel depth ii s1 s2 f f is I He _).
  - intros a b ->. unfold code_eq, set_log; cbn. auto.
  - intros k a b g1 g2 j _ Hab Hg. apply projected_simple; assumption.
  - intros a b ->. reflexivity.
  - intros a b ->. reflexivity.
  - reflexivity.
  - intros h a b Hab. apply Forall2_eq in Hab. subst. destruct (host h b); cbn; try split; try reflexivity; apply Forall2_eq_refl.
  - intros a b h x y -> Hxy. apply Forall2_eq in Hxy. subst. unfold projected, add_log, set_log; cbn. rewrite keep_app. reflexivity.
  - intros a b fa x y -> Hxy. apply Forall2_eq in Hxy. subst. apply Hev; [reflexivity|reflexivity].
  - intros a b fa x y -> Hxy. apply Forall2_eq in Hxy. subst. apply Hev; [reflexivity|reflexivity].
  - intros a b fa ->. apply Hev; [reflexivity|reflexivity].
  - split; apply Forall2_eq_refl.
Qed.
End Projection.

(* ================================================================ instantiation and histories *)
Section Hist.
Variable host : nat -> list Z -> hostres Z.
Variable listened : nat -> bool.

Notation bal := (balanced Spec).

(* the log grew by a well-bracketed list *)
Definition ext (s s' : store Spec) : Prop := exists l, s_log s' = s_log s ++ l /\ bal l.

Lemma ext_eq s s' : s_log s' = s_log s -> ext s s'.
Proof. intros E. exists []. rewrite app_nil_r. split; [exact E|constructor]. Qed.
Lemma ext_refl s : ext s s. Proof. apply ext_eq. reflexivity. Qed.
Lemma ext_trans a b c : ext a b -> ext b c -> ext a c.
Proof.
  intros (l1 & E1 & B1) (l2 & E2 & B2). exists (l1 ++ l2). rewrite E2, E1, app_assoc.
  split; [reflexivity|apply balanced_app; assumption].
Qed.

Lemma call_export_ext s fa args : ext s (fst (call_export Spec host listened MAXDEPTH FUEL s fa args)).
Proof. exact (call_export_bracketed Spec host listened MAXDEPTH FUEL s fa args). Qed.

Lemma apply_elems_log es : forall s ta imps fidx, s_log (apply_elems s ta imps fidx es) = s_log s.
Proof.
  induction es as [|[e init] r IH]; intros s ta imps fidx; cbn [apply_elems]; [reflexivity|].
  destruct init as [|x init']; [apply IH|].
  destruct (Z.of_nat (length (nth ta (s_tabs s) [])) <? _); [reflexivity|]. rewrite IH. reflexivity.
Qed.

Lemma apply_datas_log ds : forall s ma imps i, s_log (fst (apply_datas s ma imps ds i)) = s_log s.
Proof.
  induction ds as [|[e bs] r IH]; intros s ma imps i; cbn [apply_datas]; [reflexivity|].
  destruct (nth_error (s_mems s) ma) as [m|]; [|reflexivity].
  destruct (data_fits m (data_offset s imps e) bs); [|reflexivity]. rewrite IH. reflexivity.
Qed.

Lemma allocate_log L st m r : s_log (ls (fst (allocate L st m r))) = s_log (ls st).
Proof.
  unfold allocate. destruct (md_table m) as [[[mn hm] mx]|]; destruct (md_mem m) as [d|]; reflexivity.
Qed.

(* the store the start function is run on (the last component: -1, or the index of the data segment that did not fit),
   as [instantiate] computes it *)
Definition prepared (L : Z) (st : lstore) (m : modul) : option (lstore * inst * store Spec * Z) :=
  if negb (valid_module m) then None else
  match resolve L st m (md_imports m) no_imports with
  | (0, r) =>
      let '(st1, i) := allocate L st m r in
      let s2 := match i_tab i with Some ta => apply_elems (ls st1) ta (r_globals r) (i_funcs i) (md_elems m) | None => ls st1 end in
      let '(s3, di) := match i_mem i with
                       | Some ma => apply_datas s2 ma (r_globals r) (md_datas m) 0
                       | None => (s2, match md_datas m with [] => -1 | _ => 0 end) end in
      Some (st1, i, s3, di)
  | _ => None
  end.

Lemma prepared_log L st m st1 i s3 di : prepared L st m = Some (st1, i, s3, di) -> s_log s3 = s_log (ls st).
Proof.
  unfold prepared. destruct (negb (valid_module m)); [discriminate|].
  destruct (resolve L st m (md_imports m) no_imports) as [c r].
  destruct c as [|p|p]; try discriminate.
  pose proof (allocate_log L st m r) as Ha.
  destruct (allocate L st m r) as [st1' i']. cbn [fst] in Ha.
  destruct (i_mem i') as [ma|].
  - pose proof (apply_datas_log (md_datas m)
                  (match i_tab i' with Some ta => apply_elems (ls st1') ta (r_globals r) (i_funcs i') (md_elems m) | None => ls st1' end)
                  ma (r_globals r) 0) as Hd.
    destruct (apply_datas _ ma (r_globals r) (md_datas m) 0) as [s3' di']. cbn [fst] in Hd.
    intros H. inversion H; subst.
    rewrite Hd. destruct (i_tab i); [rewrite apply_elems_log|]; exact Ha.
  - intros H. inversion H; subst.
    destruct (i_tab i); [rewrite apply_elems_log|]; exact Ha.
Qed.

(* instantiation logs nothing but what its start function logs *)
Theorem instantiate_log starter L st m :
  match prepared L st m with
  | Some (st1, i, s3, di) =>
      match md_start m with
      | Some f => if 0 <=? di then s_log (ls (fst (instantiate starter L st m))) = s_log (ls st)
                  else ls (fst (instantiate starter L st m)) = fst (starter s3 (nth f (i_funcs i) O)) /\ s_log s3 = s_log (ls st) /\
                       snd (instantiate starter L st m) =
                         (let c := snd (starter s3 (nth f (i_funcs i) O)) in if c =? 0 then 0 else if c =? 1 then E_START else E_FUEL)
      | None => s_log (ls (fst (instantiate starter L st m))) = s_log (ls st)
      end
  | None => s_log (ls (fst (instantiate starter L st m))) = s_log (ls st)
  end.
Proof.
  pose proof (prepared_log L st m) as Hp.
  unfold instantiate, prepared in *. destruct (negb (valid_module m)); [reflexivity|].
  destruct (resolve L st m (md_imports m) no_imports) as [c r].
  destruct c as [|p|p]; try reflexivity.
  destruct (allocate L st m r) as [st1 i].
  destruct (match i_mem i with
            | Some ma => apply_datas _ ma (r_globals r) (md_datas m) 0
            | None => (_, match md_datas m with [] => -1 | _ => 0 end) end) as [s3 di].
  specialize (Hp st1 i s3 di eq_refl).
  destruct (md_start m) as [f|].
  - destruct (0 <=? di); [cbn; exact Hp|].
    destruct (starter s3 (nth f (i_funcs i) O)) as [s4 c]. cbn [fst].
    cbn [snd]. split; [|split; [exact Hp|]];
    (destruct (c =? 0); [reflexivity|]; destruct (c =? 1); reflexivity).
  - destruct (0 <=? di); cbn; exact Hp.
Qed.

(* ---- the events of a start function are those of an ordinary call without arguments ---- *)
Lemma call_export_shape s fa args tp tr ci nl body :
  nth_error (s_funcs s) fa = Some (FWasm ci tp tr nl body) -> listened fa = true ->
  match call_export Spec host listened MAXDEPTH FUEL s fa args with
  | (s', RVals vs) => exists mid ws, s_log s' = s_log s ++ EBefore fa (rev (firstn (length tp) (rev args))) :: mid ++ [EAfter fa ws] /\ bal mid
  | (s', RTrap t) => exists mid, s_log s' = s_log s ++ EBefore fa (rev (firstn (length tp) (rev args))) :: mid ++ [EAbort fa] /\ bal mid
  | (_, RFuel) => True
  end.
Proof.
  intros Hn Hl. unfold call_export. rewrite Hn.
  set (drv := {| i_funcs := [fa]; i_globals := []; i_mem := None; i_tab := None; i_types := [] |}).
  set (s1 := {| s_funcs := s_funcs s; s_insts := s_insts s ++ [drv]; s_globals := s_globals s; s_mems := s_mems s;
                s_tabs := s_tabs s; s_log := s_log s |}).
  destruct FUEL as [|fu]; [exact I|].
  cbn [Sem.exec].
  assert (Hs : step_simple Spec (length (s_insts s)) s1 {| stack := rev args; locals := [] |} (Call 0) = SNot) by reflexivity.
  rewrite Hs.
  assert (Hme : the_inst Spec s1 (length (s_insts s)) = drv).
  { unfold the_inst, s1. cbn [s_insts]. rewrite app_nth2, Nat.sub_diag; [reflexivity|lia]. }
  rewrite Hme. unfold drv at 1. cbn [i_funcs]. change (nth_error [fa] 0) with (Some fa). cbv beta iota.
  assert (Hn1 : nth_error (s_funcs s1) fa = Some (FWasm ci tp tr nl body)) by exact Hn.
  rewrite Hn1. cbn [stack].
  pose proof (invoke_events Spec host listened MAXDEPTH fu 0 s1 fa (rev (firstn (length tp) (rev args)))) as H.
  rewrite Hl in H.
  destruct (invoke_with Spec host listened MAXDEPTH (Sem.exec Spec host listened MAXDEPTH fu) 0 s1 fa (rev (firstn (length tp) (rev args)))) as [s' ws|t s'|].
  - destruct fu as [|fu']; [exact I|]. cbn [Sem.exec]. cbn [stack setstack].
    destruct H as (mid & E & B). exists mid, ws. cbn [s_log] in *. split; [exact E|exact B].
  - destruct H as (mid & E & B). exists mid. cbn [s_log] in *. split; [exact E|exact B].
  - exact I.
Qed.

Theorem start_function_events L st m st1 i s3 di f ci tp tr nl body :
  prepared L st m = Some (st1, i, s3, di) -> di < 0 -> md_start m = Some f ->
  nth_error (s_funcs s3) (nth f (i_funcs i) O) = Some (FWasm ci tp tr nl body) -> listened (nth f (i_funcs i) O) = true ->
  let fa := nth f (i_funcs i) O in
  let r := instantiate (lk_start host listened) L st m in
  (snd r = 0 -> exists mid ws, s_log (ls (fst r)) = s_log (ls st) ++ EBefore fa [] :: mid ++ [EAfter fa ws] /\ bal mid) /\
  (snd r = E_START -> exists mid, s_log (ls (fst r)) = s_log (ls st) ++ EBefore fa [] :: mid ++ [EAbort fa] /\ bal mid).
Proof.
  intros Hp Hdi Hst Hn Hl fa r.
  pose proof (instantiate_log (lk_start host listened) L st m) as H.
  rewrite Hp, Hst in H. destruct (0 <=? di) eqn:E; [apply Z.leb_le in E; lia|].
  destruct H as (H1 & H2 & H3). fold r in H1, H3. fold fa in H1, H3, Hn, Hl.
  pose proof (call_export_shape s3 fa [] tp tr ci nl body Hn Hl) as Hc.
  cbn [rev] in Hc. rewrite firstn_nil in Hc. cbn [rev] in Hc.
  unfold lk_start in H1, H3.
  destruct (call_export Spec host listened MAXDEPTH FUEL s3 fa []) as [s' [vs|t|]]; cbn [fst snd] in H1, H3;
    rewrite H1, H3, <- H2; cbn; split; intros Hcode; try discriminate Hcode.
  - destruct Hc as (mid & ws & Hc). exists mid, ws. exact Hc.
  - exact Hc.
Qed.

(* ---- every step of a history appends a well-bracketed list ---- *)
Lemma lk_start_ext s fa : ext s (fst (lk_start host listened s fa)).
Proof.
  unfold lk_start. pose proof (call_export_ext s fa []) as H.
  destruct (call_export Spec host listened MAXDEPTH FUEL s fa []) as [s' [vs|t|]]; exact H.
Qed.

Lemma instantiate_ext L st m : ext (ls st) (ls (fst (instantiate (lk_start host listened) L st m))).
Proof.
  pose proof (instantiate_log (lk_start host listened) L st m) as H.
  destruct (prepared L st m) as [[[[st1 i] s3] di]|]; [|apply ext_eq; exact H].
  destruct (md_start m) as [f|]; [|apply ext_eq; exact H].
  destruct (0 <=? di); [apply ext_eq; exact H|].
  destruct H as (H1 & H2 & _). rewrite H1.
  destruct (lk_start_ext s3 (nth f (i_funcs i) O)) as (l & E & B). exists l. rewrite E, H2. auto.
Qed.

Lemma run_starts_ext starts : forall st ii, ext (ls st) (ls (fst (run_starts host listened st ii starts))).
Proof.
  induction starts as [|fi r IH]; intros st ii; cbn [run_starts]; [apply ext_refl|].
  pose proof (call_export_ext (ls st) (nth fi (i_funcs (the_inst Spec (ls st) ii)) O) []) as H.
  destruct (call_export Spec host listened MAXDEPTH FUEL (ls st) (nth fi (i_funcs (the_inst Spec (ls st) ii)) O) []) as [s' [vs|t|]];
    cbn [fst] in *.
  - eapply ext_trans; [exact H|]. exact (IH (with_ls st s') ii).
  - exact H.
  - apply ext_refl.
Qed.

Lemma linst_ext st m starts : ext (ls st) (ls (fst (linst host listened st m starts))).
Proof.
  unfold linst. pose proof (instantiate_ext LIMIT st m) as H.
  destruct (instantiate (lk_start host listened) LIMIT st m) as [st1 c]. cbn [fst] in H.
  destruct (c =? E_START); [exact H|]. destruct (negb (c =? 0)); [exact H|].
  eapply ext_trans; [exact H|apply run_starts_ext].
Qed.

Theorem lrun_bracketed acts : forall st mm, ext (ls st) (ls (fst (lrun host listened st mm acts))).
Proof.
  induction acts as [|a r IH]; intros st mm; cbn [lrun]; [apply ext_refl|].
  destruct a as [m starts|mn fi args|].
  - pose proof (linst_ext st m starts) as H.
    destruct (linst host listened st m starts) as [st1 c]. cbn [fst] in H.
    specialize (IH st1 (mm ++ [if Nat.ltb (length (s_insts (ls st))) (length (s_insts (ls st1))) then Some (length (s_insts (ls st))) else None])).
    destruct (lrun host listened st1 _ r) as [st' rs]. cbn [fst] in *. eapply ext_trans; eassumption.
  - destruct (nth mn mm None) as [ii|]; [|apply ext_refl].
    destruct (nth_error (i_funcs (the_inst Spec (ls st) ii)) fi) as [fa|]; [|apply ext_refl].
    pose proof (call_export_ext (ls st) fa args) as H.
    destruct (call_export Spec host listened MAXDEPTH FUEL (ls st) fa args) as [s' res]. cbn [fst] in H.
    specialize (IH (with_ls st s') mm).
    destruct (lrun host listened (with_ls st s') mm r) as [st' rs]. cbn [fst] in *. eapply ext_trans; eassumption.
  - specialize (IH (with_x st None) (mm ++ [None])).
    destruct (lrun host listened (with_x st None) (mm ++ [None]) r) as [st' rs]. cbn [fst] in *. exact IH.
Qed.

(* a whole history, from the empty store: the complete event log is well bracketed *)
Theorem history_bracketed hs acts : bal (s_log (ls (fst (lrun_prog host listened hs acts)))).
Proof.
  unfold lrun_prog. destruct (lrun_bracketed acts (add_hosts empty_lstore hs) [None]) as (l & E & B).
  rewrite E. cbn. exact B.
Qed.


End Hist.

(* ---- non-vacuity: a module whose (listened) start function traps; one whose start function calls a listened host ---- *)
Definition wit_mod (body : list instr) (imports : list import) (start : nat) : modul :=
  {| md_types := [([], []); ([32; 32], [32])]; md_imports := imports;
     md_funcs := [{| fd_type := 0; fd_locals := 0; fd_body := body |}];
     md_table := None; md_mem := None; md_globals := []; md_exports := []; md_elems := []; md_datas := []; md_start := Some start |}.

Example start_trap_witness :
  (let r := instantiate (lk_start (lk_host []) (fun _ => true)) LIMIT empty_lstore (wit_mod [Unreachable] [] 0) in
   (snd r, listener_events (s_log (ls (fst r))))) = (E_START, [(0, 0, []); (2, 0, [])]).
Proof. vm_compute. reflexivity. Qed.

Definition wit_hosts : list hostsig := [(8%nat, [32; 32], [32])].
Definition wit_mod2 : modul :=
  wit_mod [Const 32 1; Const 32 5; Call 0; Drop] [{| im_mod := 0; im_name := 0; im_desc := IFunc 1 |}] 1.

Example start_calls_host_witness :
  (let r := instantiate (lk_start (lk_host wit_hosts) (fun _ => true)) LIMIT (add_hosts empty_lstore wit_hosts) wit_mod2 in
   (snd r, listener_events (s_log (ls (fst r))))) = (0, [(0, 1, []); (0, 0, [1; 5]); (1, 0, [63]); (1, 1, [])]).
Proof. vm_compute. reflexivity. Qed.

Example prepared_witness :
  match prepared LIMIT (add_hosts empty_lstore wit_hosts) wit_mod2 with Some (_, _, _, di) => di <? 0 | None => false end = true.
Proof. vm_compute. reflexivity. Qed.
