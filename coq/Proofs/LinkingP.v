(* Proofs about Rt/Linking.v (C04). The memory clauses are about definitions REGENERATED from the Go source
   (Gen.GenC04Wasm.memoryBytesNumToPages, Gen.GenC04Binary.newMemorySizer): a change of the page arithmetic
   or of the normalisation of a declared maximum re-opens them. The sharing theorems are about the reference
   semantics W (Wasm/Sem.v) and reuse the preservation theorem of Proofs/SemP.v. *)
From Verif Require Import Lib.GoInt Gen.GenC04Wasm Gen.GenC04Binary Wasm.Numerics Wasm.Sem Proofs.SemP Rt.Linking.
From Coq Require Import ZifyBool.
Open Scope Z_scope.
Ltac Zify.zify_post_hook ::= Z.div_mod_to_equations.

Ltac splits := repeat match goal with |- _ /\ _ => split end.

(* ================================================================ the specification's relation, as a relation *)
Lemma list_eqb_eq a : forall b, list_eqb a b = true <-> a = b.
Proof.
  induction a as [|x a IH]; intros [|y b]; cbn [list_eqb]; split; intros H; try reflexivity; try discriminate.
  - apply andb_prop in H. destruct H as [H1 H2]. apply Z.eqb_eq in H1. apply IH in H2. congruence.
  - inversion H; subst. rewrite Z.eqb_refl. cbn. apply IH. reflexivity.
Qed.

(* {min n1, max m1?} <= {min n2, max m2?} iff n1 >= n2 and (m2 absent or (m1 present and m1 <= m2)) *)
Definition limits_le (a b : limits) : Prop :=
  l_min a >= l_min b /\ (l_hasmax b = false \/ (l_hasmax a = true /\ l_max a <= l_max b)).

Inductive extern_sub : externtype -> externtype -> Prop :=
| sub_func p r : extern_sub (TFunc p r) (TFunc p r)
| sub_table l l' e : limits_le l l' -> extern_sub (TTable l e) (TTable l' e)
| sub_mem l l' sh : limits_le l l' -> extern_sub (TMem l sh) (TMem l' sh)   (* same sharedness (threads proposal) *)
| sub_global m v : extern_sub (TGlobal m v) (TGlobal m v).

Lemma limits_match_le a b : limits_match a b = true <-> limits_le a b.
Proof.
  unfold limits_match, limits_le. destruct (l_hasmax b), (l_hasmax a); cbn [andb]; split; intros H.
  all: try (apply andb_prop in H; destruct H as [H1 H2]).
  all: try (split; [lia|]); try (right; split; [reflexivity|lia]); try (left; reflexivity); try discriminate.
  all: try (destruct H as [H1 [H2|[H2 H3]]]; try discriminate; apply andb_true_intro; split; lia).
  all: try (destruct H as [H1 _]; lia).
  all: try (rewrite andb_true_r in *; lia).
Qed.

Lemma extern_match_sub act imp : extern_match act imp = true <-> extern_sub act imp.
Proof.
  split.
  - destruct act, imp; cbn [extern_match]; intros H; try discriminate.
    + apply andb_prop in H. destruct H as [H1 H2]. apply list_eqb_eq in H1, H2. subst. constructor.
    + apply andb_prop in H. destruct H as [H1 H2]. apply Z.eqb_eq in H2. subst. constructor. apply limits_match_le. exact H1.
    + apply andb_prop in H. destruct H as [H1 H2]. apply Bool.eqb_prop in H2. subst. constructor. apply limits_match_le. exact H1.
    + apply andb_prop in H. destruct H as [H1 H2]. apply Z.eqb_eq in H2. apply Bool.eqb_prop in H1. subst. constructor.
  - intros H. destruct H; cbn [extern_match].
    + apply andb_true_intro. split; apply list_eqb_eq; reflexivity.
    + apply andb_true_intro. split; [apply limits_match_le; assumption|apply Z.eqb_refl].
    + apply andb_true_intro. split; [apply limits_match_le; assumption|apply Bool.eqb_reflx].
    + apply andb_true_intro. split; [apply Bool.eqb_reflx|apply Z.eqb_refl].
Qed.

(* ================================================================ resolveImports accepts only what the specification accepts *)
(* what is known about the two sides when resolveImports runs *)
Definition link_wf (L : Z) (d : idesc) (x : xobj) : Prop :=
  match d, x with
  | DTable _ _ _ _, XTable tmin _ _ _ tlen => tmin <= tlen                 (* a table is never shorter than its declared minimum *)
  | DMem mn hm mx _, XMem buflen maxN ehm emx _ =>
      0 <= buflen <= 2 ^ 32 /\ 0 <= L <= 65536 /\                          (* Buffer is at most 65536 pages; the runtime's page limit *)
      (hm = true -> 0 <= mx <= L) /\ (ehm = true -> 0 <= emx <= L) /\      (* declared maxima within the limit (Memory.Validate) *)
      (exists emn, maxN = norm_max L emn ehm emx)                          (* MemoryInstance.Max comes from the decoder *)
  | _, _ => True
  end.

(* the one accepted link the specification rejects: the importer declares the maximum L (65536 by default),
   the exporter declares none (open finding memory-import-max-vs-unbounded) *)
Definition unbounded_vs_limit (L : Z) (d : idesc) (x : xobj) : Prop :=
  match d, x with
  | DMem _ hm mx _, XMem _ _ ehm _ _ => hm = true /\ ehm = false /\ mx = L
  | _, _ => False
  end.

Lemma norm_max_val L mn hm mx : 0 <= L <= 65536 -> (hm = true -> 0 <= mx <= L) ->
  norm_max L mn hm mx = if hm then mx else L.
Proof.
  intros HL Hm. unfold norm_max, newMemorySizer. destruct hm; cbn [negb].
  - specialize (Hm eq_refl).
    destruct (Z.ltb_spec 65536 mx); [lia|]. destruct (Z.ltb_spec L mx); [lia|]. reflexivity.
  - reflexivity.
Qed.

Lemma pages_of_buflen b : 0 <= b <= 2 ^ 32 -> memoryBytesNumToPages b = b / 65536.
Proof.
  intros H. unfold memoryBytesNumToPages. goint_unfold.
  change (2 ^ 16) with 65536. change (2 ^ 32) with 4294967296 in *. lia.
Qed.

Lemma import_accept_sound L d x :
  link_wf L d x -> ~ unbounded_vs_limit L d x -> code_accept L d x = 0 -> extern_match (spec_of_xobj x) (spec_of_idesc d) = true.
Proof.
  intros Hwf Hex Hacc. destruct d as [p r|mn hm mx et|mn hm mx sh|mu v], x as [p' r'|tmin thm tmx tty tlen|buflen maxN ehm emx xsh|mu' v'];
    cbn [code_accept] in Hacc; try discriminate; cbn [spec_of_xobj spec_of_idesc extern_match].
  - destruct (list_eqb p' p && list_eqb r' r) eqn:E; [reflexivity|discriminate].
  - cbn [link_wf] in Hwf.
    destruct (Z.eqb_spec et tty) as [->|]; cbn [negb] in Hacc; [|discriminate].
    destruct (Z.ltb_spec (Z.max tmin tlen) mn); [discriminate|].
    unfold limits_match; cbn [l_min l_hasmax l_max]. rewrite Z.eqb_refl, andb_true_r.
    destruct hm.
    + destruct thm; cbn [negb] in Hacc; [|discriminate]. destruct (Z.ltb_spec mx tmx); [discriminate|].
      cbn [andb]. apply andb_true_intro. split; lia.
    + apply andb_true_intro. split; [lia|reflexivity].
  - cbn [link_wf] in Hwf. destruct Hwf as (Hb & HL & Hm & Hem & emn & ->).
    cbn [unbounded_vs_limit] in Hex.
    rewrite pages_of_buflen in Hacc by exact Hb.
    rewrite !norm_max_val in Hacc by assumption.
    destruct (Z.ltb_spec (buflen / 65536) mn); [discriminate|].
    assert (Hsh : Bool.eqb xsh sh = true).
    { destruct sh, xsh; cbn [Bool.eqb negb] in Hacc |- *; try reflexivity;
        destruct ((if hm then mx else L) <? (if ehm then emx else L)); discriminate. }
    rewrite Hsh, andb_true_r.
    unfold limits_match; cbn [l_min l_hasmax l_max].
    apply andb_true_intro. split; [lia|].
    destruct hm; [|reflexivity]. specialize (Hm eq_refl).
    destruct ehm.
    + specialize (Hem eq_refl). destruct (Z.ltb_spec mx emx); [discriminate|]. cbn [andb]. lia.
    + exfalso. destruct (Z.ltb_spec mx L); [discriminate|]. apply Hex. splits; try reflexivity. lia.
  - destruct (Bool.eqb mu mu') eqn:E1; cbn [negb] in Hacc; [|discriminate].
    destruct (Z.eqb_spec v v'); cbn [negb] in Hacc; [|discriminate].
    apply Bool.eqb_prop in E1. subst. rewrite Bool.eqb_reflx, Z.eqb_refl. reflexivity.
Qed.

(* the shared flag of a memory type (threads proposal; checked by resolveImports since adbc65a): an accepted memory
   import has the exporter's sharedness, with NO side condition, and that is what the specification's matching demands *)
Lemma shared_flag_checked L mn hm mx sh buflen maxN ehm emx xsh :
  code_accept L (DMem mn hm mx sh) (XMem buflen maxN ehm emx xsh) = 0 -> sh = xsh.
Proof.
  cbn [code_accept]. intros H.
  destruct (memoryBytesNumToPages buflen <? mn); [discriminate|].
  destruct (norm_max L mn hm mx <? maxN); [discriminate|].
  destruct sh, xsh; cbn in H; try reflexivity; discriminate.
Qed.

Lemma extern_match_shared l sh l' sh' : extern_match (TMem l sh) (TMem l' sh') = true <-> limits_match l l' = true /\ sh = sh'.
Proof.
  cbn [extern_match]. split.
  - intros H. apply andb_prop in H. destruct H as [H1 H2]. apply Bool.eqb_prop in H2. auto.
  - intros [H1 ->]. rewrite H1, Bool.eqb_reflx. reflexivity.
Qed.

(* all four combinations on limits that match: equal flags are accepted, different flags give class 9, both ways *)
Example shared_flag_combinations :
  let d sh := DMem 1 true 10 sh in let x sh := XMem 65536 10 true 10 sh in
  code_accept 65536 (d false) (x false) = 0 /\ code_accept 65536 (d true) (x true) = 0 /\
  code_accept 65536 (d true) (x false) = 9 /\ code_accept 65536 (d false) (x true) = 9 /\
  extern_match (spec_of_xobj (x false)) (spec_of_idesc (d true)) = false /\
  extern_match (spec_of_xobj (x true)) (spec_of_idesc (d false)) = false /\
  extern_match (spec_of_xobj (x true)) (spec_of_idesc (d true)) = true.
Proof. cbv zeta. splits; vm_compute; reflexivity. Qed.

(* ... and conversely ("exactly when"): whatever the specification's subtyping accepts is accepted. Tables are judged
   against their CURRENT size (an import may ask for more than the declared minimum once the table has grown), exactly as
   memories are. *)
Lemma import_accept_complete L d x :
  link_wf L d x -> extern_match (spec_of_xobj x) (spec_of_idesc d) = true -> code_accept L d x = 0.
Proof.
  intros Hwf Hm. destruct d as [p r|mn hm mx et|mn hm mx sh|mu v], x as [p' r'|tmin thm tmx tty tlen|buflen maxN ehm emx xsh|mu' v'];
    cbn [spec_of_xobj spec_of_idesc extern_match] in Hm; try discriminate; cbn [code_accept].
  - rewrite Hm. reflexivity.
  - apply andb_prop in Hm. destruct Hm as [Hl He]. apply Z.eqb_eq in He. subst tty. rewrite Z.eqb_refl. cbn [negb].
    unfold limits_match in Hl; cbn [l_min l_hasmax l_max] in Hl. apply andb_prop in Hl. destruct Hl as [H1 H2].
    destruct (Z.ltb_spec (Z.max tmin tlen) mn); [lia|].
    destruct hm; [|reflexivity].
    apply andb_prop in H2. destruct H2 as [H2 H3]. rewrite H2. cbn [negb].
    destruct (Z.ltb_spec mx tmx); [lia|reflexivity].
  - cbn [link_wf] in Hwf. destruct Hwf as (Hb & HL & Hmx & Hem & emn & ->).
    apply andb_prop in Hm. destruct Hm as [Hl Hs]. apply Bool.eqb_prop in Hs. subst xsh.
    unfold limits_match in Hl; cbn [l_min l_hasmax l_max] in Hl. apply andb_prop in Hl. destruct Hl as [H1 H2].
    rewrite pages_of_buflen by exact Hb. rewrite !norm_max_val by assumption.
    destruct (Z.ltb_spec (buflen / 65536) mn); [lia|].
    assert (Hle : ((if hm then mx else L) <? (if ehm then emx else L)) = false).
    { apply Z.ltb_ge. destruct hm.
      - apply andb_prop in H2. destruct H2 as [H2 H3]. rewrite H2. lia.
      - destruct ehm; [specialize (Hem eq_refl); lia|lia]. }
    rewrite Hle. rewrite Bool.eqb_reflx. reflexivity.
  - apply andb_prop in Hm. destruct Hm as [H1 H2]. apply Bool.eqb_prop in H1. apply Z.eqb_eq in H2. subst.
    rewrite Bool.eqb_reflx, Z.eqb_refl. reflexivity.
Qed.

(* a grown table: declared minimum 1, five elements now; an import asking for 3 matches and is accepted, one asking for 6 is not *)
Example table_current_size_example :
  link_wf 65536 (DTable 3 false 0 112) (XTable 1 false 0 112 5) /\
  extern_match (spec_of_xobj (XTable 1 false 0 112 5)) (spec_of_idesc (DTable 3 false 0 112)) = true /\
  code_accept 65536 (DTable 3 false 0 112) (XTable 1 false 0 112 5) = 0 /\
  code_accept 65536 (DTable 6 false 0 112) (XTable 1 false 0 112 5) = 4.
Proof. cbn. splits; try reflexivity; lia. Qed.

(* ... and laxer in exactly the excluded case: open finding, replayed on both engines by the check *)
Lemma memory_unbounded_refuted : exists L d x,
  link_wf L d x /\ unbounded_vs_limit L d x /\ code_accept L d x = 0 /\ extern_match (spec_of_xobj x) (spec_of_idesc d) = false.
Proof.
  exists 65536, (DMem 1 true 65536 false), (XMem 65536 65536 false 0 false).
  splits; try reflexivity; cbn [link_wf unbounded_vs_limit]; splits; try reflexivity; try lia; try (intros; lia); try discriminate.
  exists 1. reflexivity.
Qed.

(* non-vacuity: an accepted memory import with all hypotheses, growth included (current size 3 pages, declared min 1) *)
Example accept_example :
  link_wf 65536 (DMem 3 true 10 false) (XMem (3 * 65536) 8 true 8 false) /\ ~ unbounded_vs_limit 65536 (DMem 3 true 10 false) (XMem (3 * 65536) 8 true 8 false) /\
  code_accept 65536 (DMem 3 true 10 false) (XMem (3 * 65536) 8 true 8 false) = 0.
Proof.
  split; [|split].
  - cbn [link_wf]. splits; try lia; try (intros; lia). exists 1. reflexivity.
  - cbn [unbounded_vs_limit]. intros (_ & H & _). discriminate.
  - reflexivity.
Qed.

(* ================================================================ one shared object, on W *)
Lemma nth_error_upd_eq {A} (l : list A) i x : (i < length l)%nat -> nth_error (upd l i x) i = Some x.
Proof.
  intros H. unfold upd. destruct (Nat.ltb_spec i (length l)); [|lia].
  rewrite nth_error_app2; rewrite firstn_length_le by lia; [|lia]. rewrite Nat.sub_diag. reflexivity.
Qed.

Lemma nth_error_lt {A} (l : list A) i x : nth_error l i = Some x -> (i < length l)%nat.
Proof. intros H. apply nth_error_Some. congruence. Qed.

(* little-endian bytes: reading back what was written *)
Lemma rd_wr_le_other d v : forall n a x, (x < a \/ a + Z.of_nat n <= x) -> rd (wr_le d a n v) x = rd d x.
Proof.
  intros n. revert v. induction n as [|n IH]; intros v a x H; cbn [wr_le]; [reflexivity|].
  cbn [rd]. destruct (Z.eqb_spec a x); [lia|]. apply IH. lia.
Qed.

Lemma rd_le_wr_le_skip d k v : forall n a b, (b + Z.of_nat n <= a \/ a + Z.of_nat k <= b) ->
  rd_le (wr_le d a k v) b n = rd_le d b n.
Proof.
  induction n as [|n IH]; intros a b H; cbn [rd_le]; [reflexivity|].
  rewrite rd_wr_le_other by lia. rewrite IH by lia. reflexivity.
Qed.

Lemma rd_le_cons_skip d a v : forall n b, a < b -> rd_le ((a, v) :: d) b n = rd_le d b n.
Proof.
  induction n as [|n IH]; intros b H; cbn [rd_le rd]; [reflexivity|].
  destruct (Z.eqb_spec a b); [lia|]. rewrite IH by lia. reflexivity.
Qed.

Lemma rd_le_wr_le d : forall n a v, rd_le (wr_le d a n v) a n = v mod 2 ^ (8 * Z.of_nat n).
Proof.
  induction n as [|n IH]; intros a v.
  - cbn. rewrite Z.mod_1_r. reflexivity.
  - cbn [wr_le rd_le rd]. rewrite Z.eqb_refl. rewrite rd_le_cons_skip by lia. rewrite IH.
    replace (8 * Z.of_nat (S n)) with (8 + 8 * Z.of_nat n) by lia.
    rewrite Z.pow_add_r by lia. change (2 ^ 8) with 256.
    rewrite Z.rem_mul_r by (try lia; apply Z.pow_pos_nonneg; lia). reflexivity.
Qed.

Section Shared.
Variable D : domain.
Variable host : nat -> list (val D) -> hostres (val D).
Variable listened : nat -> bool.
Variable maxdepth : nat.
Notation store := (store D).

(* two instances whose records hold the SAME store address *)
Definition shares_mem (s : store) (a b ma : nat) : Prop :=
  i_mem (the_inst D s a) = Some ma /\ i_mem (the_inst D s b) = Some ma.
Definition shares_glob (s : store) (a ka b kb ga : nat) : Prop :=
  nth_error (i_globals (the_inst D s a)) ka = Some ga /\ nth_error (i_globals (the_inst D s b)) kb = Some ga.
Definition shares_tab (s : store) (a b ta : nat) : Prop :=
  i_tab (the_inst D s a) = Some ta /\ i_tab (the_inst D s b) = Some ta.

(* the table an indirect call of instance ii consults (exec, CallIndirect) *)
Definition tab_view (s : store) (ii : nat) : list (option nat) :=
  match i_tab (the_inst D s ii) with Some ta => nth ta (s_tabs s) [] | None => [] end.

(* a store through instance a is read back through instance b: every width, address, offset, value *)
Lemma mem_write_read s a b ma f v addr stk n off s' f' :
  shares_mem s a b ma -> stack f = v :: addr :: stk ->
  step_simple D a s f (Store n off) = SOk s' f' ->
  forall g addr' stk' w, stack g = addr' :: stk' -> to_u32 D addr' = to_u32 D addr ->
  step_simple D b s' g (Load w n false off) =
    SOk s' (setstack D g (of_bits D w (to_bits D v mod 2 ^ (8 * Z.of_nat n)) :: stk')).
Proof.
  intros [Ha Hb] Hst Hstep g addr' stk' w Hg Hu.
  unfold step_simple in Hstep. rewrite Hst in Hstep. unfold the_mem in Hstep. rewrite Ha in Hstep.
  destruct (nth_error (s_mems s) ma) as [m|] eqn:Hm; [|discriminate].
  destruct (Z.leb_spec (to_u32 D addr + off + Z.of_nat n) (mlen m)) as [Hle|]; [|discriminate].
  inversion Hstep; subst s' f'; clear Hstep.
  unfold step_simple. rewrite Hg. unfold the_mem.
  replace (the_inst D (set_mems D s _) b) with (the_inst D s b) by reflexivity. rewrite Hb.
  cbn [set_mems s_mems]. rewrite nth_error_upd_eq by (eapply nth_error_lt; exact Hm).
  cbn [mlen mdata]. rewrite Hu.
  destruct (Z.leb_spec (to_u32 D addr + off + Z.of_nat n) (mlen m)); [|lia].
  rewrite rd_le_wr_le. reflexivity.
Qed.

Lemma glob_write_read s a ka b kb ga f v stk s' f' :
  shares_glob s a ka b kb ga -> (ga < length (s_globals s))%nat -> stack f = v :: stk ->
  step_simple D a s f (GlobalSet ka) = SOk s' f' ->
  forall g, step_simple D b s' g (GlobalGet kb) = SOk s' (setstack D g (v :: stack g)).
Proof.
  intros [Ha Hb] Hlt Hst Hstep g.
  unfold step_simple in Hstep. rewrite Hst, Ha in Hstep. inversion Hstep; subst s' f'; clear Hstep.
  unfold step_simple.
  replace (the_inst D (set_globals D s _) b) with (the_inst D s b) by reflexivity. rewrite Hb.
  cbn [set_globals s_globals]. rewrite nth_error_upd_eq by exact Hlt.
  destruct (stack g); reflexivity.
Qed.

Lemma tab_same_view s a b ta : shares_tab s a b ta -> tab_view s a = tab_view s b.
Proof. intros [Ha Hb]. unfold tab_view. rewrite Ha, Hb. reflexivity. Qed.

(* the views are determined by the instance records, which no execution changes *)
Lemma views_of_insts s s' a b :
  s_insts s' = s_insts s ->
  (forall ma, shares_mem s a b ma -> shares_mem s' a b ma) /\
  (forall ka kb ga, shares_glob s a ka b kb ga -> shares_glob s' a ka b kb ga) /\
  (forall ta, shares_tab s a b ta -> shares_tab s' a b ta).
Proof.
  intros H. unfold shares_mem, shares_glob, shares_tab, the_inst. rewrite H. auto.
Qed.

Lemma exec_keeps_insts fuel depth ii s f is :
  match exec D host listened maxdepth fuel depth ii s f is with
  | Normal s' _ | Branch _ s' _ | Ret s' _ | Trap _ s' => s_insts s' = s_insts s
  | OutOfFuel => True
  end.
Proof.
  pose proof (exec_same_code D host listened maxdepth fuel depth ii s f is) as H.
  destruct (exec D host listened maxdepth fuel depth ii s f is); cbn in H; try exact I; apply H.
Qed.

Lemma call_export_insts fuel s fa args :
  s_insts (fst (call_export D host listened maxdepth fuel s fa args)) = s_insts s.
Proof.
  unfold call_export.
  destruct (match nth_error (s_funcs s) fa with
            | Some (FWasm ii tp tr _ _) => (ii, length tp, length tr)
            | Some (FHost _ tp tr) => (O, length tp, length tr) | None => (O, O, O) end) as [[ii np] nr].
  match goal with |- context [exec D host listened maxdepth fuel O ?i ?s1 ?f ?is] =>
    pose proof (exec_keeps_insts fuel O i s1 f is) as H;
    destruct (exec D host listened maxdepth fuel O i s1 f is) end;
    cbn [fst s_insts] in *; try reflexivity; rewrite H; apply firstn_app_exact.
Qed.

Lemma run_calls_insts fuel calls : forall s,
  s_insts (fst (run_calls D host listened maxdepth fuel s calls)) = s_insts s.
Proof.
  induction calls as [|[fa args] r IH]; intros s; cbn [run_calls]; [reflexivity|].
  pose proof (call_export_insts fuel s fa args) as H1.
  destruct (call_export D host listened maxdepth fuel s fa args) as [s1 x]. cbn [fst] in H1.
  specialize (IH s1). destruct (run_calls D host listened maxdepth fuel s1 r) as [s2 xs]. cbn [fst] in *. congruence.
Qed.

(* after any history of export calls (any interleaving across the instances) both views still denote the same
   objects, and in the store reached a write through one instance is read back through the other *)
Theorem shared_object fuel calls s a b :
  let s1 := fst (run_calls D host listened maxdepth fuel s calls) in
  (forall ma, shares_mem s a b ma ->
     shares_mem s1 a b ma /\
     forall f v addr stk n off s' f', stack f = v :: addr :: stk ->
       step_simple D a s1 f (Store n off) = SOk s' f' ->
       forall g addr' stk' w, stack g = addr' :: stk' -> to_u32 D addr' = to_u32 D addr ->
       step_simple D b s' g (Load w n false off) =
         SOk s' (setstack D g (of_bits D w (to_bits D v mod 2 ^ (8 * Z.of_nat n)) :: stk'))) /\
  (forall ka kb ga, shares_glob s a ka b kb ga ->
     shares_glob s1 a ka b kb ga /\
     forall f v stk s' f', (ga < length (s_globals s1))%nat -> stack f = v :: stk ->
       step_simple D a s1 f (GlobalSet ka) = SOk s' f' ->
       forall g, step_simple D b s' g (GlobalGet kb) = SOk s' (setstack D g (v :: stack g))) /\
  (forall ta, shares_tab s a b ta -> shares_tab s1 a b ta /\ tab_view s1 a = tab_view s1 b).
Proof.
  intros s1. pose proof (run_calls_insts fuel calls s) as Hi. fold s1 in Hi.
  destruct (views_of_insts s s1 a b Hi) as (Hm & Hg & Ht).
  splits.
  - intros ma H. split; [apply Hm; exact H|].
    intros f v addr stk n off s' f' Hst Hstep g addr' stk' w Hg' Hu.
    exact (mem_write_read s1 a b ma f v addr stk n off s' f' (Hm ma H) Hst Hstep g addr' stk' w Hg' Hu).
  - intros ka kb ga H. split; [apply Hg; exact H|].
    intros f v stk s' f' Hlt Hst Hstep g.
    exact (glob_write_read s1 a ka b kb ga f v stk s' f' (Hg ka kb ga H) Hlt Hst Hstep g).
  - intros ta H. split; [apply Ht; exact H|]. eapply tab_same_view. apply Ht. exact H.
Qed.

(* the same along one arbitrary execution (any instruction sequence, any instance, any outcome) *)
Theorem shared_along_exec fuel depth ii s f is a b :
  match exec D host listened maxdepth fuel depth ii s f is with
  | Normal s' _ | Branch _ s' _ | Ret s' _ | Trap _ s' =>
      (forall ma, shares_mem s a b ma -> shares_mem s' a b ma) /\
      (forall ka kb ga, shares_glob s a ka b kb ga -> shares_glob s' a ka b kb ga) /\
      (forall ta, shares_tab s a b ta -> shares_tab s' a b ta)
  | OutOfFuel => True
  end.
Proof.
  pose proof (exec_keeps_insts fuel depth ii s f is) as H.
  destruct (exec D host listened maxdepth fuel depth ii s f is); try exact I; apply views_of_insts; exact H.
Qed.
End Shared.

(* ================================================================ values captured at instantiation *)
Lemma firstn_In_incl {A} (l : list A) n x : In x (firstn n l) -> In x l.
Proof.
  revert l; induction n as [|n IH]; intros [|y l] H; cbn [firstn] in *; try (destruct H; fail).
  destruct H as [->|H]; [left; reflexivity|right; apply IH; exact H].
Qed.
Lemma skipn_In_incl {A} (l : list A) n x : In x (skipn n l) -> In x l.
Proof.
  revert l; induction n as [|n IH]; intros [|y l] H; cbn [skipn] in *; try exact H.
  right. apply IH. exact H.
Qed.

(* an immutable global's Val field is its current value, whichever engine owns the cell *)
Definition coherent (g : ginst) : Prop := g_mut g = false -> g_val g = g_live g.

Lemma gnth_coherent st a : Forall coherent st -> coherent (gnth st a).
Proof.
  intros H. unfold gnth. destruct (nth_in_or_default a st {| g_val := 0; g_live := 0; g_mut := false; g_w := 32 |}) as [Hin| ->].
  - rewrite Forall_forall in H. apply H. exact Hin.
  - intros _. reflexivity.
Qed.

Lemma Forall_upd' {A} (P : A -> Prop) (l : list A) i y : Forall P l -> P y -> Forall P (upd l i y).
Proof.
  intros Hl Hy. unfold upd. destruct (Nat.ltb i (length l)); [|exact Hl].
  apply Forall_app. split.
  - apply Forall_forall. intros x Hx. rewrite Forall_forall in Hl. apply Hl. eapply firstn_In_incl; exact Hx.
  - constructor; [exact Hy|]. apply Forall_forall. intros x Hx. rewrite Forall_forall in Hl. apply Hl. eapply skipn_In_incl; exact Hx.
Qed.

Lemma gstep_coherent owns st o : Forall coherent st -> Forall coherent (gstep owns st o).
Proof.
  intros H. destruct o as [a v|mut w imps e]; cbn [gstep].
  - destruct (g_mut (gnth st a)) eqn:Hm; [|exact H].
    apply Forall_upd'; [exact H|]. unfold gset, coherent. destruct owns; cbn [g_mut g_val g_live]; intros Hf; congruence.
  - destruct (valid_cexpr st imps e); [|exact H].
    apply Forall_app. split; [exact H|]. constructor; [|constructor]. intros _. reflexivity.
Qed.

Lemma grun_coherent owns ops : Forall coherent (grun owns ops).
Proof.
  unfold grun. assert (G : forall st, Forall coherent st -> Forall coherent (fold_left (gstep owns) ops st)).
  { induction ops as [|o r IH]; intros st H; cbn [fold_left]; [exact H|]. apply IH. apply gstep_coherent. exact H. }
  apply G. constructor.
Qed.

(* after ANY history of global.set's and instantiations, on either engine: a validated constant expression
   evaluated the way the code does it (GlobalInstance.Val) yields the referenced global's current value *)
Lemma init_reads_current owns ops imps w e :
  let st := grun owns ops in
  valid_cexpr st imps e = true -> init_value_code st imps w e = init_value_spec st imps w e.
Proof.
  intros st Hv. destruct e as [w' c|k]; cbn [init_value_code init_value_spec]; [reflexivity|].
  cbn [valid_cexpr] in Hv. apply andb_prop in Hv. destruct Hv as [_ Hm].
  pose proof (gnth_coherent st (nth k imps O) (grun_coherent owns ops)) as Hc.
  rewrite Hc; [reflexivity|]. destruct (g_mut (gnth st (nth k imps O))); [discriminate|reflexivity].
Qed.

Lemma elem_offset_reads_current owns ops imps e :
  let st := grun owns ops in
  valid_elem_offset st imps e = true -> init_value_code st imps 32 e = init_value_spec st imps 32 e.
Proof.
  intros st Hv. apply init_reads_current. fold st. destruct e as [w' c|k]; cbn [valid_elem_offset valid_cexpr] in *; [reflexivity|].
  apply andb_prop in Hv. destruct Hv as [Hv Hm]. apply andb_prop in Hv. destruct Hv as [Hk _].
  rewrite Hk, Hm. reflexivity.
Qed.

(* non-vacuity: the hypotheses hold for a real chain (A.g immutable 7, B.h := global.get A.g, C reads B.h), with
   a mutable global changed in between, under the compiler *)
Example init_example :
  let ops := [GAlloc false 32 [] (CConst 32 7); GAlloc true 32 [] (CConst 32 1); GSet 1 5; GAlloc false 32 [O] (CGlobalGet O)] in
  valid_cexpr (grun true ops) [2%nat] (CGlobalGet O) = true /\ init_value_code (grun true ops) [2%nat] 32 (CGlobalGet O) = 7.
Proof. split; reflexivity. Qed.

(* regression witnesses of the two repaired defects: without the immutability requirement the value read is stale
   under the compiler (F02/F04 for initialisers and data offsets, 7de74ee for element offsets) *)
Example init_stale_if_mutable_before_fix :
  let st := grun true [GAlloc true 32 [] (CConst 32 1); GSet 0 5] in
  valid_cexpr st [O] (CGlobalGet O) = false /\
  init_value_code st [O] 32 (CGlobalGet O) = 1 /\ init_value_spec st [O] 32 (CGlobalGet O) = 5.
Proof. cbv zeta. splits; reflexivity. Qed.

Example elem_offset_stale_before_fix :
  let st := grun true [GAlloc true 32 [] (CConst 32 1); GSet 0 3] in
  valid_elem_offset_before_fix st [O] (CGlobalGet O) = true /\ valid_elem_offset st [O] (CGlobalGet O) = false /\
  init_value_code st [O] 32 (CGlobalGet O) = 1 /\ init_value_spec st [O] 32 (CGlobalGet O) = 3 /\
  (* the interpreter keeps Val current, so the two engines placed the segment in different slots *)
  init_value_code (grun false [GAlloc true 32 [] (CConst 32 1); GSet 0 3]) [O] 32 (CGlobalGet O) = 3.
Proof. cbv zeta. splits; reflexivity. Qed.

(* ================================================================ a failing instantiation and the earlier instances *)
Lemma nth_error_splice_ne {A} (x : A) : forall i l j, i <> j -> (i < length l)%nat ->
  nth_error (firstn i l ++ x :: skipn (S i) l) j = nth_error l j.
Proof.
  induction i as [|i IH]; intros [|y l] [|j] Hne Hlt; cbn [length] in Hlt; try lia; cbn [firstn skipn app nth_error]; try reflexivity.
  apply IH; lia.
Qed.

Lemma nth_error_upd_ne' {A} (l : list A) i j x : i <> j -> nth_error (upd l i x) j = nth_error l j.
Proof.
  intros H. unfold upd. destruct (Nat.ltb_spec i (length l)) as [Hlt|]; [|reflexivity].
  apply nth_error_splice_ne; assumption.
Qed.

Lemma upd_length' {A} (l : list A) i x : length (upd l i x) = length l.
Proof.
  unfold upd. destruct (Nat.ltb_spec i (length l)); [|reflexivity].
  rewrite app_length, firstn_length_le by lia. cbn [length]. rewrite skipn_length. lia.
Qed.

Lemma fold_left_ext {A B} (f g : A -> B -> A) l : (forall a b, f a b = g a b) -> forall a, fold_left f l a = fold_left g l a.
Proof. intros H. induction l as [|b l IH]; intros a; cbn [fold_left]; [reflexivity|]. rewrite H. apply IH. Qed.

Lemma data_offset_globals s s' imps e : s_globals s' = s_globals s -> data_offset s' imps e = data_offset s imps e.
Proof. intros H. unfold data_offset, eval_cexpr, glob_val. rewrite H. reflexivity. Qed.

(* one data segment, unconditionally *)
Definition write_data (ma : nat) (imps : list nat) (s : store Spec) (seg : cexpr * list Z) : store Spec :=
  match nth_error (s_mems s) ma with
  | Some m => set_mems Spec s (upd (s_mems s) ma (with_mdata m (wr_bytes (mdata m) (data_offset s imps (fst seg)) (snd seg))))
  | None => s
  end.

(* applyData = the writes of a PREFIX of the segments; it fails exactly when the prefix is proper (induction over the segment list) *)
Lemma apply_datas_prefix : forall ds s ma imps i s' j, 0 <= i -> apply_datas s ma imps ds i = (s', j) ->
  exists k, (k <= length ds)%nat /\ s' = fold_left (write_data ma imps) (firstn k ds) s /\
            ((j = -1 /\ k = length ds) \/ (j = i + Z.of_nat k /\ (k < length ds)%nat)).
Proof.
  induction ds as [|[e bs] r IH]; intros s ma imps i s' j Hi H; cbn [apply_datas] in H.
  - inversion H; subst. exists O. splits; [cbn; lia|reflexivity|left; split; reflexivity].
  - destruct (nth_error (s_mems s) ma) as [m|] eqn:Hm.
    + destruct (data_fits m (data_offset s imps e) bs) eqn:Hf.
      * apply IH in H; [|lia]. destruct H as (k & Hk & Hs & Hj). exists (S k). cbn [firstn fold_left length].
        splits; [lia| |].
        -- unfold write_data at 2. rewrite Hm. cbn [fst snd]. exact Hs.
        -- destruct Hj as [[-> ->]|[-> Hlt]]; [left; split; reflexivity|right; split; lia].
      * inversion H; subst. exists O. splits; [cbn; lia|reflexivity|right; cbn [length]; split; lia].
    + inversion H; subst. exists O. splits; [cbn; lia|reflexivity|right; cbn [length]; split; lia].
Qed.

Lemma write_datas_frame ma imps : forall segs s,
  let s' := fold_left (write_data ma imps) segs s in
  s_funcs s' = s_funcs s /\ s_insts s' = s_insts s /\ s_globals s' = s_globals s /\ s_tabs s' = s_tabs s /\ s_log s' = s_log s /\
  (forall a, a <> ma -> nth_error (s_mems s') a = nth_error (s_mems s) a) /\
  (forall m, nth_error (s_mems s) ma = Some m ->
     exists m', nth_error (s_mems s') ma = Some m' /\ mlen m' = mlen m /\ mmax m' = mmax m /\
       mdata m' = fold_left (fun d seg => wr_bytes d (data_offset s imps (fst seg)) (snd seg)) segs (mdata m)).
Proof.
  induction segs as [|seg r IH]; intros s; cbn [fold_left].
  - splits; try reflexivity. intros m Hm. exists m. splits; try reflexivity. exact Hm.
  - set (s1 := write_data ma imps s seg).
    specialize (IH s1). cbv zeta in IH. destruct IH as (H1 & H2 & H3 & H4 & H5 & H6 & H7).
    assert (Hone : s_funcs s1 = s_funcs s /\ s_insts s1 = s_insts s /\ s_globals s1 = s_globals s /\ s_tabs s1 = s_tabs s /\ s_log s1 = s_log s /\
              (forall a, a <> ma -> nth_error (s_mems s1) a = nth_error (s_mems s) a) /\
              (forall m, nth_error (s_mems s) ma = Some m ->
                 nth_error (s_mems s1) ma = Some (with_mdata m (wr_bytes (mdata m) (data_offset s imps (fst seg)) (snd seg))))).
    { unfold s1, write_data. destruct (nth_error (s_mems s) ma) as [m|] eqn:Hm.
      - cbn [set_mems s_funcs s_insts s_globals s_tabs s_log s_mems]. splits; try reflexivity.
        + intros a Ha. apply nth_error_upd_ne'. congruence.
        + intros m0 Hm0. inversion Hm0; subst. apply nth_error_upd_eq. eapply nth_error_lt. exact Hm.
      - splits; try reflexivity. intros m0 Hm0. discriminate. }
    destruct Hone as (G1 & G2 & G3 & G4 & G5 & G6 & G7).
    splits; try congruence.
    + intros a Ha. rewrite H6 by exact Ha. apply G6. exact Ha.
    + intros m Hm. destruct (H7 _ (G7 m Hm)) as (m' & E1 & E2 & E3 & E4). exists m'.
      splits; [exact E1|exact E2|exact E3|]. rewrite E4. cbn [with_mdata mdata].
      apply fold_left_ext. intros d sg. rewrite (data_offset_globals s s1 imps (fst sg) G3). reflexivity.
Qed.

(* element segments only put references to functions of the instantiating module into existing slots *)
Definition tab_ext (fidx : list nat) (tab tab' : list (option nat)) : Prop :=
  length tab' = length tab /\
  forall slot, nth_error tab' slot = nth_error tab slot \/ exists f, nth_error tab' slot = Some (Some (nth f fidx O)).

Lemma tab_ext_refl fidx tab : tab_ext fidx tab tab.
Proof. split; [reflexivity|]. intros slot. left. reflexivity. Qed.

Lemma tab_ext_trans fidx a b c : tab_ext fidx a b -> tab_ext fidx b c -> tab_ext fidx a c.
Proof.
  intros [L1 H1] [L2 H2]. split; [congruence|]. intros slot.
  destruct (H2 slot) as [E|[f E]]; [|right; exists f; exact E].
  rewrite E. apply H1.
Qed.

Lemma write_refs_ext fidx : forall init t off, tab_ext fidx t (write_refs t off fidx init).
Proof.
  induction init as [|[f|] r IH]; intros t off; cbn [write_refs].
  - apply tab_ext_refl.
  - eapply tab_ext_trans; [|apply IH]. split; [apply upd_length'|]. intros slot.
    destruct (Nat.eq_dec off slot) as [->|Hne].
    + destruct (Nat.lt_ge_cases slot (length t)) as [Hlt|Hge].
      * right. exists f. apply nth_error_upd_eq. exact Hlt.
      * left. unfold upd. destruct (Nat.ltb_spec slot (length t)); [lia|reflexivity].
    + left. apply nth_error_upd_ne'. exact Hne.
  - apply IH.
Qed.

Lemma nth_error_nth' {A} (l : list A) i x d : nth_error l i = Some x -> nth i l d = x.
Proof. revert i; induction l as [|y l IH]; intros [|i] H; cbn in *; try discriminate; [congruence|apply IH; exact H]. Qed.

Lemma apply_elems_frame ta imps fidx : forall es s,
  let s' := apply_elems s ta imps fidx es in
  s_funcs s' = s_funcs s /\ s_insts s' = s_insts s /\ s_globals s' = s_globals s /\ s_mems s' = s_mems s /\ s_log s' = s_log s /\
  (forall t tab, nth_error (s_tabs s) t = Some tab ->
     exists tab', nth_error (s_tabs s') t = Some tab' /\ tab_ext fidx tab tab').
Proof.
  induction es as [|[e init] r IH]; intros s; cbn [apply_elems].
  - splits; try reflexivity. intros t tab H. exists tab. split; [exact H|apply tab_ext_refl].
  - destruct init as [|x init'].
    + apply IH.
    + set (init := x :: init') in *.
      destruct (Z.ltb_spec (Z.of_nat (length (nth ta (s_tabs s) []))) (modN 32 (eval_cexpr s imps e) + Z.of_nat (length init))) as [Hoob|Hfit].
      * splits; try reflexivity. intros t tab Ht. exists tab. split; [exact Ht|apply tab_ext_refl].
      * match goal with |- context [apply_elems ?s1 ta imps fidx r] => specialize (IH s1); set (s1' := s1) in * end.
        cbv zeta in IH. destruct IH as (H1 & H2 & H3 & H4 & H5 & H6).
        splits; try (rewrite H1 || rewrite H2 || rewrite H3 || rewrite H4 || rewrite H5; reflexivity).
        intros t tab Ht.
        destruct (Nat.eq_dec ta t) as [->|Hne].
        -- assert (Hn : nth_error (s_tabs s1') t = Some (write_refs (nth t (s_tabs s) []) (Z.to_nat (modN 32 (eval_cexpr s imps e))) fidx init)).
           { unfold s1'. cbn [set_tabs s_tabs]. apply nth_error_upd_eq. eapply nth_error_lt. exact Ht. }
           destruct (H6 _ _ Hn) as (tab' & E1 & E2). exists tab'. split; [exact E1|].
           eapply tab_ext_trans; [|exact E2]. rewrite (nth_error_nth' _ _ _ [] Ht). apply write_refs_ext.
        -- assert (Hn : nth_error (s_tabs s1') t = Some tab).
           { unfold s1'. cbn [set_tabs s_tabs]. rewrite nth_error_upd_ne' by exact Hne. exact Ht. }
           exact (H6 _ _ Hn).
Qed.

Lemma allocate_ext L st m r st1 i : allocate L st m r = (st1, i) ->
  exists fs gs ms ts,
    s_funcs (ls st1) = s_funcs (ls st) ++ fs /\ s_insts (ls st1) = s_insts (ls st) ++ [i] /\
    s_globals (ls st1) = s_globals (ls st) ++ gs /\ s_mems (ls st1) = s_mems (ls st) ++ ms /\
    s_tabs (ls st1) = s_tabs (ls st) ++ ts /\ s_log (ls st1) = s_log (ls st) /\ ls_x st1 = ls_x st.
Proof.
  unfold allocate. intros H.
  destruct (md_table m) as [[[tmn thm] tmx]|], (md_mem m) as [[[[mmn mhm] mmx] msh]|]; inversion H; subst; clear H; cbn [ls s_funcs s_insts s_globals s_mems s_tabs s_log ls_x].
  - eexists _, _, [_], [_]. splits; reflexivity.
  - eexists _, _, [], [_]. splits; try reflexivity; symmetry; apply app_nil_r.
  - eexists _, _, [_], []. splits; try reflexivity; symmetry; apply app_nil_r.
  - eexists _, _, [], []. splits; try reflexivity; symmetry; apply app_nil_r.
Qed.

(* A failing instantiation (invalid module, unlinkable import, out-of-range data segment):
   - if it fails before allocation, the store is untouched;
   - otherwise the earlier functions, instance records, globals and the log are untouched, every earlier memory
     keeps its size and bound and its contents are the old contents overwritten by a PREFIX of the module's data
     segments (those before the failing one; none for a memory the module does not use), and every earlier table
     keeps its length, each slot either unchanged or holding a function of the new module (its element segments,
     which the specification applies before the data segments);
   - the module is not registered. *)
Theorem failed_instantiate_frame starter L st m st' c :
  instantiate starter L st m = (st', c) -> c <> 0 -> c <> E_START -> c <> E_FUEL ->
  let s := ls st in let s' := ls st' in
  (c <> E_DATA -> s' = s /\ ls_g st' = ls_g st /\ ls_t st' = ls_t st /\ ls_m st' = ls_m st) /\
  ls_x st' = ls_x st ++ [None] /\
  firstn (length (s_funcs s)) (s_funcs s') = s_funcs s /\
  firstn (length (s_insts s)) (s_insts s') = s_insts s /\
  firstn (length (s_globals s)) (s_globals s') = s_globals s /\
  s_log s' = s_log s /\
  (forall a mem, nth_error (s_mems s) a = Some mem ->
     exists mem', nth_error (s_mems s') a = Some mem' /\ mlen mem' = mlen mem /\ mmax mem' = mmax mem /\
       exists imps k, (k <= length (md_datas m))%nat /\
         mdata mem' = fold_left (fun d seg => wr_bytes d (data_offset s' imps (fst seg)) (snd seg)) (firstn k (md_datas m)) (mdata mem)) /\
  (forall t tab, nth_error (s_tabs s) t = Some tab ->
     exists tab' fidx, nth_error (s_tabs s') t = Some tab' /\ tab_ext fidx tab tab').
Proof.
  intros H Hc0 Hcs Hcf s s'. subst s s'.
  assert (Hunch : forall x, (with_x st None, x) = (st', c) ->
            (c <> E_DATA -> ls st' = ls st /\ ls_g st' = ls_g st /\ ls_t st' = ls_t st /\ ls_m st' = ls_m st) /\
            ls_x st' = ls_x st ++ [None] /\
            firstn (length (s_funcs (ls st))) (s_funcs (ls st')) = s_funcs (ls st) /\
            firstn (length (s_insts (ls st))) (s_insts (ls st')) = s_insts (ls st) /\
            firstn (length (s_globals (ls st))) (s_globals (ls st')) = s_globals (ls st) /\
            s_log (ls st') = s_log (ls st) /\
            (forall a mem, nth_error (s_mems (ls st)) a = Some mem ->
               exists mem', nth_error (s_mems (ls st')) a = Some mem' /\ mlen mem' = mlen mem /\ mmax mem' = mmax mem /\
                 exists imps k, (k <= length (md_datas m))%nat /\
                   mdata mem' = fold_left (fun d seg => wr_bytes d (data_offset (ls st') imps (fst seg)) (snd seg)) (firstn k (md_datas m)) (mdata mem)) /\
            (forall t tab, nth_error (s_tabs (ls st)) t = Some tab ->
               exists tab' fidx, nth_error (s_tabs (ls st')) t = Some tab' /\ tab_ext fidx tab tab')).
  { intros x E. inversion E; subst. unfold with_x; cbn [ls ls_g ls_t ls_m ls_x].
    splits; try reflexivity; try apply firstn_all.
    - intros _. splits; reflexivity.
    - intros a mem Hm. exists mem. splits; try reflexivity; [exact Hm|]. exists [], O. splits; [lia|reflexivity].
    - intros t tab Ht. exists tab, []. split; [exact Ht|apply tab_ext_refl]. }
  unfold instantiate in H.
  destruct (valid_module m); cbn [negb] in H; [|eapply Hunch; exact H].
  destruct (resolve L st m (md_imports m) no_imports) as [rc r] eqn:Hr.
  destruct (Z.eqb_spec rc 0) as [->|Hrc].
  2:{ destruct rc; try (eapply Hunch; exact H). congruence. }
  destruct (allocate L st m r) as [st1 i] eqn:Ha.
  destruct (allocate_ext _ _ _ _ _ _ Ha) as (fs & gs & ms & ts & A1 & A2 & A3 & A4 & A5 & A6 & A7).
  (* element segments *)
  set (s2 := match i_tab i with Some ta => apply_elems (ls st1) ta (r_globals r) (i_funcs i) (md_elems m) | None => ls st1 end) in *.
  assert (E2 : s_funcs s2 = s_funcs (ls st1) /\ s_insts s2 = s_insts (ls st1) /\ s_globals s2 = s_globals (ls st1) /\
               s_mems s2 = s_mems (ls st1) /\ s_log s2 = s_log (ls st1) /\
               (forall t tab, nth_error (s_tabs (ls st1)) t = Some tab ->
                  exists tab', nth_error (s_tabs s2) t = Some tab' /\ tab_ext (i_funcs i) tab tab')).
  { unfold s2. destruct (i_tab i) as [ta|].
    - apply apply_elems_frame.
    - splits; try reflexivity. intros t tab Ht. exists tab. split; [exact Ht|apply tab_ext_refl]. }
  destruct E2 as (B1 & B2 & B3 & B4 & B5 & B6).
  (* data segments *)
  destruct (match i_mem i with
            | Some ma => apply_datas s2 ma (r_globals r) (md_datas m) 0
            | None => (s2, match md_datas m with [] => -1 | _ => 0 end) end) as [s3 di] eqn:Hd.
  destruct (Z.leb_spec 0 di) as [Hdi|Hdi].
  2:{ (* all data segments applied: the result is 0, E_START or E_FUEL *)
      exfalso. destruct (md_start m) as [f|].
      - destruct (starter s3 (nth f (i_funcs i) O)) as [s4 sc]. destruct (Z.eqb_spec sc 0); [inversion H; congruence|].
        destruct (Z.eqb_spec sc 1); inversion H; congruence.
      - inversion H; congruence. }
  inversion H; subst st' c; clear H. unfold with_x, with_ls; cbn [ls ls_g ls_t ls_m ls_x].
  assert (D : exists ma k, (k <= length (md_datas m))%nat /\ s3 = fold_left (write_data ma (r_globals r)) (firstn k (md_datas m)) s2).
  { destruct (i_mem i) as [ma|].
    - apply apply_datas_prefix in Hd; [|lia]. destruct Hd as (k & Hk & Hs & _). exists ma, k. split; assumption.
    - inversion Hd; subst. exists O, O. split; [lia|reflexivity]. }
  destruct D as (ma & k & Hk & ->).
  destruct (write_datas_frame ma (r_globals r) (firstn k (md_datas m)) s2) as (C1 & C2 & C3 & C4 & C5 & C6 & C7).
  splits.
  - intros Hne. exfalso. apply Hne. reflexivity.
  - rewrite A7. reflexivity.
  - rewrite C1, B1, A1. apply firstn_app_exact.
  - rewrite C2, B2, A2. apply firstn_app_exact.
  - rewrite C3, B3, A3. apply firstn_app_exact.
  - rewrite C5, B5, A6. reflexivity.
  - intros a mem Hm.
    assert (Hm2 : nth_error (s_mems s2) a = Some mem).
    { rewrite B4, A4. rewrite nth_error_app1 by (eapply nth_error_lt; exact Hm). exact Hm. }
    destruct (Nat.eq_dec a ma) as [->|Hne].
    + destruct (C7 _ Hm2) as (m' & F1 & F2 & F3 & F4). exists m'. splits; try assumption.
      exists (r_globals r), k. splits; [exact Hk|].
      rewrite F4. apply fold_left_ext. intros d sg. rewrite (data_offset_globals s2 _ (r_globals r) (fst sg) C3). reflexivity.
    + exists mem. splits; try reflexivity; [rewrite C6 by exact Hne; exact Hm2|].
      exists [], O. splits; [lia|reflexivity].
  - intros t tab Ht.
    assert (Ht1 : nth_error (s_tabs (ls st1)) t = Some tab).
    { rewrite A5. rewrite nth_error_app1 by (eapply nth_error_lt; exact Ht). exact Ht. }
    destruct (B6 _ _ Ht1) as (tab' & G1 & G2). exists tab', (i_funcs i). split; [rewrite C4; exact G1|exact G2].
Qed.

(* ================================================================ non-vacuity: a concrete graph through [instantiate] *)
Definition ex_starter (s : store Spec) (fa : nat) : store Spec * Z := (s, 0).

(* A: memory 1..2 pages, table of 4, a mutable and an immutable i32 global, one function; everything exported *)
Definition exA : modul :=
  Build_modul [([32], [32])] [] [Build_fdef 0 0 [LocalGet 0]] (Some (4, false, 0)) (Some (1, true, 2, false))
    [Build_gdef true 32 (CConst 32 5); Build_gdef false 32 (CConst 32 2)]
    [(0, EFunc 0); (2000, EMem 0); (3000, ETab 0); (1000, EGlob 0); (1001, EGlob 1)] [] [] None.

(* B: imports A's memory, table and both globals; the element offset and an own global read the immutable one;
   the second data segment is out of range when last_off = 65535 *)
Definition exB (last_off : Z) : modul :=
  Build_modul [([32], [32])]
    [Build_import 0 2000 (IMem 1 false 0 false); Build_import 0 3000 (ITable 2 false 0 112); Build_import 0 1001 (IGlobal false 32);
     Build_import 0 1000 (IGlobal true 32)]
    [Build_fdef 0 0 [LocalGet 0]] None None [Build_gdef false 32 (CGlobalGet 0)]
    [(2000, EMem 0); (1001, EGlob 2)]
    [(CGlobalGet 0, [Some O])] [(CConst 32 8, [1; 2; 3]); (CConst 32 last_off, [9; 9])] None.

Definition ex_st1 : lstore := fst (instantiate ex_starter 65536 empty_lstore exA).
Definition ex_bad := instantiate ex_starter 65536 ex_st1 (exB 65535).
Definition ex_ok := instantiate ex_starter 65536 ex_st1 (exB 100).

(* the hypotheses of failed_instantiate_frame hold for ex_bad (class 30), and what the theorem allows is what happens:
   the first data segment is in A's memory, the failing one not at all; the element segment (applied first) put B's
   function (store address 1) into slot 2 = A's immutable global; A's globals are untouched; B is not registered *)
Example frame_example :
  snd (instantiate ex_starter 65536 empty_lstore exA) = 0 /\
  snd ex_bad = E_DATA /\
  option_map (fun m => (rd (mdata m) 8, rd (mdata m) 10, rd (mdata m) 65535, mlen m)) (nth_error (s_mems (ls (fst ex_bad))) 0) = Some (1, 3, 0, 65536) /\
  nth_error (s_tabs (ls (fst ex_bad))) 0 = Some [None; None; Some 1%nat; None] /\
  firstn 2 (s_globals (ls (fst ex_bad))) = [5; 2] /\ nth_error (ls_x (fst ex_bad)) 1 = Some None.
Proof. splits; vm_compute; reflexivity. Qed.

Example shared_example :
  snd ex_ok = 0 /\
  shares_mem Spec (ls (fst ex_ok)) 0 1 0 /\ shares_tab Spec (ls (fst ex_ok)) 0 1 0 /\
  shares_glob Spec (ls (fst ex_ok)) 0 0 1 1 0 /\          (* A's global 0 is B's global 1: store address 0 *)
  nth_error (s_globals (ls (fst ex_ok))) 2 = Some 2.       (* B's own global captured A's immutable global *)
Proof. unfold shares_mem, shares_tab, shares_glob. splits; vm_compute; reflexivity. Qed.

(* a link error leaves the store as it was *)
Definition ex_unlinkable : modul := Build_modul [] [Build_import 0 1000 (IGlobal false 32)] [] None None [] [] [] [] None.
Example link_error_example :
  snd (instantiate ex_starter 65536 ex_st1 ex_unlinkable) = 7 /\
  s_globals (ls (fst (instantiate ex_starter 65536 ex_st1 ex_unlinkable))) = s_globals (ls ex_st1).
Proof. split; vm_compute; reflexivity. Qed.

(* a mutable global as element offset is rejected before anything is resolved (regression witness of 7de74ee) *)
Definition ex_mutoff : modul :=
  Build_modul [([32], [32])] [Build_import 0 3000 (ITable 2 false 0 112); Build_import 0 1000 (IGlobal true 32)]
    [Build_fdef 0 0 [LocalGet 0]] None None [] [] [(CGlobalGet 0, [Some O])] [] None.
Example mutable_elem_offset_rejected : snd (instantiate ex_starter 65536 ex_st1 ex_mutoff) = E_INVALID.
Proof. vm_compute. reflexivity. Qed.
