(* Proofs about Engine/Bounds.v and about memory accesses of the reference semantics (C02). *)
From Coq Require Import ZArith List Bool Lia.
From Coq Require Import ZifyBool.
From Verif Require Import Lib.GoInt Gen.GenWasm Engine.Bounds Wasm.Numerics Wasm.Sem.
Import ListNotations.
Open Scope Z_scope.
Ltac Zify.zify_post_hook ::= Z.div_mod_to_equations.

Lemma compiler_check_exact memLen base off size :
  0 <= memLen <= 2 ^ 32 -> 0 <= base < 2 ^ 32 -> 0 <= off < 2 ^ 32 -> 0 < size <= 16 ->
  compiler_pass memLen base off size = true <-> base + off + size <= memLen.
Proof.
  intros Hm Hb Ho Hs. unfold compiler_pass, ceil64. goint_unfold. lia.
Qed.

Lemma interp_check_exact memLen base off size :
  0 <= memLen <= 2 ^ 32 -> 0 <= base < 2 ^ 32 -> 0 <= off < 2 ^ 32 -> 0 < size <= 16 ->
  interp_pass memLen base off size = true <-> base + off + size <= memLen.
Proof.
  intros Hm Hb Ho Hs. unfold interp_pass. cbv [MemoryInstance_hasSize]. goint_unfold. lia.
Qed.

(* an access emitted without a check is in bounds whenever an earlier check of the same base with a bound at
   least as large passed, even if the memory has grown in between (it never shrinks: Proofs/SemP.v run_calls_mono) *)
Lemma elided_access_in_bounds memLen memLen' base off0 size0 off size :
  0 <= memLen <= 2 ^ 32 -> memLen <= memLen' -> 0 <= base < 2 ^ 32 ->
  0 <= off0 < 2 ^ 32 -> 0 < size0 <= 16 -> 0 <= off < 2 ^ 32 -> 0 < size <= 16 ->
  compiler_pass memLen base off0 size0 = true ->
  elided_pass (ceil64 off0 size0) off size = true ->
  base + off + size <= memLen'.
Proof.
  intros Hm Hm' Hb Ho0 Hs0 Ho Hs Hp He.
  apply compiler_check_exact in Hp; try lia.
  unfold elided_pass, ceil64 in He. goint_unfold. lia.
Qed.

(* ---- the reference semantics: an in-bounds store changes exactly the addressed bytes,
        an out-of-bounds access traps and leaves the store as it was ---- *)
Section W.
Variable D : domain.

Lemma rd_wr_le d a n v x :
  rd (wr_le d a n v) x =
    if (a <=? x) && (x <? a + Z.of_nat n) then (v / 256 ^ (x - a)) mod 256 else rd d x.
Proof.
  revert a v. induction n as [|n IH]; intros a v.
  - cbn [wr_le]. destruct (Z.leb_spec a x), (Z.ltb_spec x (a + Z.of_nat 0)); cbn; try reflexivity; lia.
  - cbn [wr_le rd]. destruct (Z.eqb_spec a x) as [->|Hne].
    + rewrite Z.sub_diag, Z.pow_0_r, Z.div_1_r.
      destruct (Z.leb_spec x x), (Z.ltb_spec x (x + Z.of_nat (S n))); cbn; try reflexivity; lia.
    + rewrite IH.
      destruct (Z.leb_spec (a + 1) x), (Z.ltb_spec x (a + 1 + Z.of_nat n)),
               (Z.leb_spec a x), (Z.ltb_spec x (a + Z.of_nat (S n))); cbn [andb]; try reflexivity; try lia.
      replace (x - a) with (Z.succ (x - (a + 1))) by lia.
      rewrite Z.pow_succ_r by lia. rewrite Z.div_div by (try lia; apply Z.pow_pos_nonneg; lia).
      reflexivity.
Qed.

Lemma store_exact ii s f n off v a stk ma m :
  stack f = v :: a :: stk -> the_mem D s ii = Some (ma, m) ->
  let ea := to_u32 D a + off in
  (ea + Z.of_nat n <= mlen m ->
     exists m', step_simple D ii s f (Store n off) = SOk (set_mems D s (upd (s_mems s) ma m')) (setstack D f stk) /\
                mlen m' = mlen m /\ mmax m' = mmax m /\
                forall x, rd (mdata m') x =
                  if (ea <=? x) && (x <? ea + Z.of_nat n) then (to_bits D v / 256 ^ (x - ea)) mod 256 else rd (mdata m) x) /\
  (mlen m < ea + Z.of_nat n -> step_simple D ii s f (Store n off) = STrap TOob).
Proof.
  intros Hstk Hmem ea. unfold step_simple. rewrite Hstk, Hmem. fold ea. split; intros H.
  - destruct (Z.leb_spec (ea + Z.of_nat n) (mlen m)); [|lia].
    eexists. split; [reflexivity|]. cbn [mlen mmax mdata]. split; [reflexivity|]. split; [reflexivity|].
    intros x. apply rd_wr_le.
  - destruct (Z.leb_spec (ea + Z.of_nat n) (mlen m)); [lia|reflexivity].
Qed.

Lemma load_exact ii s f w n sx off a stk ma m :
  stack f = a :: stk -> the_mem D s ii = Some (ma, m) ->
  let ea := to_u32 D a + off in
  (ea + Z.of_nat n <= mlen m ->
     step_simple D ii s f (Load w n sx off) =
       SOk s (setstack D f (of_bits D w (if sx then sext n w (rd_le (mdata m) ea n) else rd_le (mdata m) ea n) :: stk))) /\
  (mlen m < ea + Z.of_nat n -> step_simple D ii s f (Load w n sx off) = STrap TOob).
Proof.
  intros Hstk Hmem ea. unfold step_simple. rewrite Hstk, Hmem. fold ea. split; intros H.
  - destruct (Z.leb_spec (ea + Z.of_nat n) (mlen m)); [reflexivity|lia].
  - destruct (Z.leb_spec (ea + Z.of_nat n) (mlen m)); [lia|reflexivity].
Qed.

(* a trapping instruction leaves the store exactly as it was *)
Lemma trap_keeps_store host listened maxdepth fuel depth ii s f i rest t :
  step_simple D ii s f i = STrap t ->
  exec D host listened maxdepth (S fuel) depth ii s f (i :: rest) = Trap t s.
Proof. intros H. cbn [exec]. rewrite H. reflexivity. Qed.
End W.

Example bounds_nonvacuous :
  compiler_pass 65536 65528 0 8 = true /\ compiler_pass 65536 65529 0 8 = false /\
  compiler_pass (2 ^ 32) 4294967288 0 8 = true /\ compiler_pass 65536 4294967295 4294967295 8 = false /\
  interp_pass 65536 65528 0 8 = true /\ interp_pass 65536 1 4294967295 1 = false.
Proof. vm_compute. repeat split; reflexivity. Qed.
