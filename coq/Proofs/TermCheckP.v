(* Proofs about coq/Engine/TermCheck.v (C07). *)
From Coq Require Import List Arith Bool ZArith Lia.
From Verif Require Import Lib.GoInt Gen.GenC07Wasm Gen.GenC07Sys Engine.TermCheck.
Import ListNotations.
Close Scope Z_scope.
Open Scope nat_scope.

Ltac splits := repeat match goal with |- _ /\ _ => split end.

(* ================================================================== A. soundness of the checker *)

(* a ranking: every stack-neutral edge out of a non-check node strictly decreases it *)
Definition valid_rank (G : graph) (r : nat -> nat) : Prop :=
  (forall n nd, nth_error G n = Some nd -> n_check nd = false -> forall t, In t (hsucc nd) -> r t < r n) /\
  (forall n, r n <= length G).

Lemma ranked_from_spec N rl : forall Gs n, ranked_from N rl n Gs = true ->
  forall k nd, nth_error Gs k = Some nd ->
    (n_check nd = true \/ forall t, In t (hsucc nd) -> rk rl t < rk rl (n + k)) /\ rk rl (n + k) <= N.
Proof.
  induction Gs as [|nd0 Gs IH]; intros n H k nd Hk.
  - destruct k; discriminate.
  - cbn [ranked_from] in H. apply andb_true_iff in H as [H H3]. apply andb_true_iff in H as [H1 H2].
    destruct k as [|k]; cbn in Hk.
    + inversion Hk; subst nd0. rewrite Nat.add_0_r. split.
      * apply orb_true_iff in H1 as [H1|H1]; [left; exact H1|right].
        intros t Ht. rewrite forallb_forall in H1. apply Nat.ltb_lt. apply H1; exact Ht.
      * apply Nat.leb_le; exact H2.
    + replace (n + S k) with (S n + k) by lia. apply (IH (S n) H3 k nd Hk).
Qed.

Lemma ranked_ok_valid G rl : ranked_ok G rl = true ->
  valid_rank G (fun n => if n <? length G then rk rl n else 0).
Proof.
  intros H. unfold ranked_ok in H. pose proof (ranked_from_spec _ _ _ _ H) as S. split.
  - intros n nd Hn Hc t Ht. destruct (S n nd Hn) as [[Hc'|Hs] _]; [congruence|].
    assert (Hlt : n < length G) by (apply nth_error_Some; congruence).
    specialize (Hs t Ht). cbn in Hs.
    destruct (Nat.ltb_spec n (length G)); [|lia]. destruct (Nat.ltb_spec t (length G)); lia.
  - intros n. destruct (Nat.ltb_spec n (length G)); [|lia].
    destruct (nth_error G n) as [nd|] eqn:E.
    + destruct (S n nd E) as [_ Hb]. exact Hb.
    + apply nth_error_None in E. lia.
Qed.

Lemma edges_in G n e : In e (edges G n) ->
  exists nd, nth_error G n = Some nd /\ In e (n_edges nd) /\ is_check G n = n_check nd.
Proof.
  unfold edges, is_check. intros H. destruct (nth_error G n) as [nd|] eqn:E.
  - exists nd. rewrite (nth_error_nth _ _ _ E) in *. auto.
  - apply nth_error_None in E. rewrite nth_overflow in H by exact E. destruct H.
Qed.

Lemma hsucc_in nd e t : In e (n_edges nd) -> In t (htargets e) -> In t (hsucc nd).
Proof. intros He Ht. unfold hsucc. apply in_flat_map. exists e; auto. Qed.

(* the potential: a frame at stack height h weighs (rank+1) * b^(D-h) *)
Fixpoint pot (r : nat -> nat) (b D n : nat) (st : list nat) : nat :=
  S (r n) * b ^ (D - length st) + match st with [] => 0 | k :: st' => pot r b D k st' end.

Lemma pow_pos b e : 0 < b -> 0 < b ^ e.
Proof. intros. induction e; cbn; nia. Qed.

Lemma pot_step G r D c c' :
  valid_rank G r -> step G c c' -> is_check G (fst c) = false ->
  length (snd c) <= D -> length (snd c') <= D ->
  pot r (length G + 2) D (fst c') (snd c') < pot r (length G + 2) D (fst c) (snd c).
Proof.
  intros [Hv Hb] Hs Hc Hd Hd'. set (b := length G + 2).
  assert (Hbpos : 0 < b) by (unfold b; lia).
  inversion Hs; subst; cbn [fst snd] in *.
  - destruct (edges_in _ _ _ H) as (nd & E & Hin & Hck). rewrite Hck in Hc.
    assert (Hr : r t < r n) by (apply (Hv n nd E Hc); eapply hsucc_in; [exact Hin|cbn; auto]).
    destruct st as [|k st']; cbn [pot length].
    + pose proof (pow_pos b (D - 0) Hbpos). nia.
    + pose proof (pow_pos b (D - S (length st')) Hbpos). nia.
  - destruct (edges_in _ _ _ H) as (nd & E & Hin & Hck). rewrite Hck in Hc.
    assert (Hr : r r0 < r n) by (apply (Hv n nd E Hc); eapply hsucc_in; [exact Hin|cbn; auto]).
    set (rest := match st with [] => 0 | k :: st' => pot r b D k st' end).
    assert (E1 : pot r b D n st = S (r n) * b ^ (D - length st) + rest) by (destruct st; reflexivity).
    assert (E2 : pot r b D c0 (r0 :: st) = S (r c0) * b ^ (D - S (length st)) + (S (r r0) * b ^ (D - length st) + rest)).
    { cbn [pot length]. destruct st; reflexivity. }
    rewrite E1, E2. clear E1 E2. cbn [length] in Hd'.
    assert (Hpow : b ^ (D - length st) = b * b ^ (D - S (length st))).
    { replace (D - length st) with (S (D - S (length st))) by lia. reflexivity. }
    rewrite Hpow. pose proof (pow_pos b (D - S (length st)) Hbpos) as HY.
    set (Y := b ^ (D - S (length st))) in *.
    pose proof (Hb c0) as Hc0. fold b in Hc0.
    assert (S (r c0) * Y < b * Y) by (apply Nat.mul_lt_mono_pos_r; unfold b; lia).
    assert (S (r r0) * (b * Y) <= r n * (b * Y)) by (apply Nat.mul_le_mono_r; lia).
    lia.
  - destruct (edges_in _ _ _ H) as (nd & E & Hin & Hck). rewrite Hck in Hc.
    assert (Hr : r c0 < r n) by (apply (Hv n nd E Hc); eapply hsucc_in; [exact Hin|cbn; auto]).
    destruct st as [|k st']; cbn [pot length].
    + pose proof (pow_pos b (D - 0) Hbpos). nia.
    + pose proof (pow_pos b (D - S (length st')) Hbpos). nia.
  - cbn [pot length]. pose proof (pow_pos b (D - S (length st)) Hbpos). nia.
Qed.

Lemma pot_bound r b D : (forall m, S (r m) < b) ->
  forall st n, length st <= D -> pot r b D n st + b ^ (D - length st) <= b ^ (S D).
Proof.
  intros Hr. induction st as [|k st IH]; intros n Hd; cbn [pot length] in *.
  - rewrite Nat.sub_0_r. cbn [Nat.pow]. pose proof (Hr n). nia.
  - assert (Hd' : length st <= D) by lia. specialize (IH k Hd').
    assert (Hpow : b ^ (D - length st) = b * b ^ (D - S (length st))).
    { replace (D - length st) with (S (D - S (length st))) by lia. reflexivity. }
    rewrite Hpow in IH. pose proof (Hr n). nia.
Qed.

Definition no_check (G : graph) (l : list cfg) : Prop := forall c, In c l -> is_check G (fst c) = false.
Definition depth_le (D : nat) (l : list cfg) : Prop := forall c, In c l -> length (snd c) <= D.

Lemma path_length G r D : valid_rank G r ->
  forall l c0, is_path G (c0 :: l) -> no_check G (c0 :: l) -> depth_le D (c0 :: l) ->
  length (c0 :: l) <= S (pot r (length G + 2) D (fst c0) (snd c0)).
Proof.
  intros Hv. induction l as [|c1 l IH]; intros c0 Hp Hn Hd.
  - cbn. lia.
  - destruct Hp as [Hs Hp].
    assert (Hlt := pot_step G r D c0 c1 Hv Hs (Hn c0 (or_introl eq_refl))
                     (Hd c0 (or_introl eq_refl)) (Hd c1 (or_intror (or_introl eq_refl)))).
    assert (IH' := IH c1 Hp (fun c H => Hn c (or_intror H)) (fun c H => Hd c (or_intror H))).
    cbn [length] in *. lia.
Qed.

Lemma checker_sound G D l :
  all_cycles_checked G = true -> is_path G l -> depth_le D l -> bound (length G) D < length l ->
  exists c, In c l /\ is_check G (fst c) = true.
Proof.
  intros Hok Hp Hd Hlen.
  destruct (existsb (fun c => is_check G (fst c)) l) eqn:Ex.
  - apply existsb_exists in Ex. exact Ex.
  - exfalso.
    assert (Hn : no_check G l).
    { intros c Hc. destruct (is_check G (fst c)) eqn:E; [|reflexivity].
      assert (existsb (fun c => is_check G (fst c)) l = true) by (apply existsb_exists; eauto). congruence. }
    apply ranked_ok_valid in Hok. set (r := fun n => if n <? length G then rk (compute_rank G) n else 0) in *.
    destruct l as [|c0 l]; [cbn in Hlen; lia|].
    pose proof (path_length G r D Hok l c0 Hp Hn Hd) as H1.
    assert (Hr : forall m, S (r m) < length G + 2) by (intros m; destruct Hok as [_ Hb]; specialize (Hb m); lia).
    pose proof (pot_bound r (length G + 2) D Hr (snd c0) (fst c0) (Hd c0 (or_introl eq_refl))) as H2.
    pose proof (pow_pos (length G + 2) (D - length (snd c0)) ltac:(lia)).
    unfold bound in Hlen. replace (D + 1) with (S D) in Hlen by lia. lia.
Qed.

(* ---- what a check on function entry would buy (candidate repair of the tree-recursion finding): when every callee
   of a call edge is a check node, a check-free path cannot descend, and the bound becomes linear in the ceiling *)
Definition calls_checked (G : graph) : Prop :=
  forall n c r, In (ECall c r) (edges G n) -> is_check G c = true.

Definition pot2 (r : nat -> nat) (N : nat) (c : cfg) : nat := S (r (fst c)) + (N + 2) * length (snd c).

Lemma pot2_step G r c c' :
  valid_rank G r -> calls_checked G -> step G c c' ->
  is_check G (fst c) = false -> is_check G (fst c') = false ->
  pot2 r (length G) c' < pot2 r (length G) c.
Proof.
  intros [Hv Hb] Hcc Hs Hc Hc'. unfold pot2. inversion Hs; subst; cbn [fst snd length] in *.
  - destruct (edges_in _ _ _ H) as (nd & E & Hin & Hck). rewrite Hck in Hc.
    assert (r t < r n) by (apply (Hv n nd E Hc); eapply hsucc_in; [exact Hin|cbn; auto]). lia.
  - rewrite (Hcc _ _ _ H) in Hc'. discriminate.
  - destruct (edges_in _ _ _ H) as (nd & E & Hin & Hck). rewrite Hck in Hc.
    assert (r c0 < r n) by (apply (Hv n nd E Hc); eapply hsucc_in; [exact Hin|cbn; auto]). lia.
  - pose proof (Hb k). lia.
Qed.

Lemma path_length2 G r : valid_rank G r -> calls_checked G ->
  forall l c0, is_path G (c0 :: l) -> no_check G (c0 :: l) -> length (c0 :: l) <= S (pot2 r (length G) c0).
Proof.
  intros Hv Hcc. induction l as [|c1 l IH]; intros c0 Hp Hn; [cbn; lia|].
  destruct Hp as [Hs Hp].
  assert (Hlt := pot2_step G r c0 c1 Hv Hcc Hs (Hn c0 (or_introl eq_refl)) (Hn c1 (or_intror (or_introl eq_refl)))).
  assert (IH' := IH c1 Hp (fun c H => Hn c (or_intror H))). cbn [length] in *. lia.
Qed.

Lemma entry_checks_linear G D l :
  all_cycles_checked G = true -> calls_checked G -> is_path G l -> depth_le D l ->
  (length G + 2) * (D + 1) < length l ->
  exists c, In c l /\ is_check G (fst c) = true.
Proof.
  intros Hok Hcc Hp Hd Hlen.
  destruct (existsb (fun c => is_check G (fst c)) l) eqn:Ex; [apply existsb_exists in Ex; exact Ex|exfalso].
  assert (Hn : no_check G l).
  { intros c Hc. destruct (is_check G (fst c)) eqn:E; [|reflexivity].
    assert (existsb (fun c => is_check G (fst c)) l = true) by (apply existsb_exists; eauto). congruence. }
  apply ranked_ok_valid in Hok. set (r := fun n => if n <? length G then rk (compute_rank G) n else 0) in *.
  destruct l as [|c0 l]; [cbn in Hlen; lia|].
  pose proof (path_length2 G r Hok Hcc l c0 Hp Hn) as H1.
  pose proof (Hd c0 (or_introl eq_refl)) as H2. destruct Hok as [_ Hb]. specialize (Hb (fst c0)).
  unfold pot2 in H1. nia.
Qed.

(* ================================================================== B. the rank computation finds a ranking whenever one exists *)
Lemma maxS_le f l b : (forall t, In t l -> S (f t) <= b) -> maxS f l <= b.
Proof.
  induction l as [|x l IH]; intros H; cbn [maxS fold_right]; [lia|].
  apply Nat.max_lub; [apply H; left; reflexivity|apply IH; intros; apply H; right; assumption].
Qed.

Lemma maxS_ge f l t : In t l -> S (f t) <= maxS f l.
Proof.
  induction l as [|x l IH]; intros H; [destruct H|]. cbn [maxS fold_right].
  destruct H as [->|H]; [apply Nat.le_max_l|]. etransitivity; [apply IH; exact H|apply Nat.le_max_r].
Qed.

Lemma maxS_mono f g l : (forall t, In t l -> f t <= g t) -> maxS f l <= maxS g l.
Proof.
  intros H. apply maxS_le. intros t Ht. etransitivity; [|apply maxS_ge; exact Ht]. specialize (H t Ht). lia.
Qed.

Lemma sweep_from_length r : forall Gs n, length (sweep_from r n Gs) = length Gs.
Proof. induction Gs; intros; cbn [sweep_from length]; [reflexivity|rewrite IHGs; reflexivity]. Qed.

Lemma Forall2_le_nth a b : Forall2 le a b -> forall t, nth t a 0 <= nth t b 0.
Proof. induction 1; intros [|t]; cbn; auto. Qed.

Lemma sweep_from_mono r s : (forall t, rk r t <= rk s t) ->
  forall Gs n, Forall2 le (sweep_from r n Gs) (sweep_from s n Gs).
Proof.
  intros H. induction Gs as [|nd Gs IH]; intros n; cbn [sweep_from]; constructor; [|apply IH].
  destruct (n_check nd); [lia|]. apply maxS_mono. intros t _.
  destruct (n <? t); [apply Forall2_le_nth; apply IH|apply H].
Qed.

Lemma sweep_from_below (r' : nat -> nat) r : (forall t, rk r t <= r' t) ->
  forall Gs n,
    (forall k nd, nth_error Gs k = Some nd -> n_check nd = false -> forall t, In t (hsucc nd) -> r' t < r' (n + k)) ->
    forall k, nth k (sweep_from r n Gs) 0 <= r' (n + k).
Proof.
  intros H. induction Gs as [|nd Gs IH]; intros n Hv k.
  - destruct k; cbn; lia.
  - cbn [sweep_from].
    assert (IH' : forall k, nth k (sweep_from r (S n) Gs) 0 <= r' (S n + k)).
    { apply IH. intros k' nd' Hk Hc t Ht. replace (S n + k') with (n + S k') by lia. apply (Hv (S k') nd' Hk Hc t Ht). }
    destruct k as [|k]; cbn [nth].
    + destruct (n_check nd) eqn:Hc; [lia|]. apply maxS_le. intros t Ht.
      specialize (Hv 0 nd eq_refl Hc t Ht).
      destruct (Nat.ltb_spec n t).
      * specialize (IH' (t - S n)). replace (S n + (t - S n)) with t in IH' by lia. lia.
      * specialize (H t). lia.
    + replace (n + S k) with (S n + k) by lia. apply IH'.
Qed.

Lemma sweep_from_fix r : forall Gs n,
  (forall k, nth k (sweep_from r n Gs) 0 = rk r (n + k)) ->
  forall k nd, nth_error Gs k = Some nd -> n_check nd = false -> forall t, In t (hsucc nd) -> rk r t < rk r (n + k).
Proof.
  induction Gs as [|nd0 Gs IH]; intros n Hfix k nd Hk Hc t Ht; [destruct k; discriminate|].
  assert (Hfix' : forall k, nth k (sweep_from r (S n) Gs) 0 = rk r (S n + k)).
  { intros k'. specialize (Hfix (S k')). cbn [sweep_from nth] in Hfix. rewrite Hfix. f_equal. lia. }
  destruct k as [|k]; cbn in Hk.
  - inversion Hk; subst nd0. specialize (Hfix 0). cbn [sweep_from nth] in Hfix. rewrite Hc in Hfix.
    rewrite Nat.add_0_r in *. pose proof (maxS_ge (fun t => if n <? t then nth (t - S n) (sweep_from r (S n) Gs) 0 else rk r t) _ _ Ht) as Hge.
    cbn beta in Hge. rewrite Hfix in Hge.
    destruct (Nat.ltb_spec n t).
    + rewrite Hfix' in Hge. replace (S n + (t - S n)) with t in Hge by lia. lia.
    + lia.
  - replace (n + S k) with (S n + k) by lia. apply (IH (S n) Hfix' k nd Hk Hc t Ht).
Qed.

Lemma le_sum a b : Forall2 le a b -> list_sum a <= list_sum b.
Proof. induction 1; unfold list_sum in *; cbn [fold_right]; lia. Qed.

Lemma lt_sum a b : Forall2 le a b -> a <> b -> list_sum a < list_sum b.
Proof.
  induction 1 as [|x y a b Hxy H IH]; intros Hne; [congruence|].
  change (x + list_sum a < y + list_sum b).
  destruct (Nat.eq_dec x y) as [->|Hd].
  - assert (a <> b) by congruence. specialize (IH H0). lia.
  - pose proof (le_sum _ _ H). lia.
Qed.

Lemma list_beq_eq a : forall b, list_beq a b = true <-> a = b.
Proof.
  induction a as [|x a IH]; intros [|y b]; cbn; split; intros H; try reflexivity; try discriminate.
  - apply andb_true_iff in H as [H1 H2]. apply Nat.eqb_eq in H1. apply IH in H2. congruence.
  - inversion H; subst. rewrite Nat.eqb_refl. cbn. apply IH. reflexivity.
Qed.

Lemma sum_le_bound M : forall l, (forall x, In x l -> x <= M) -> list_sum l <= length l * M.
Proof.
  induction l as [|x l IH]; intros H; [cbn; lia|]. change (x + list_sum l <= M + length l * M).
  assert (x <= M) by (apply H; left; reflexivity).
  assert (list_sum l <= length l * M) by (apply IH; intros; apply H; right; assumption). lia.
Qed.

Lemma sum_rank_bound N r (r' : nat -> nat) : length r = N -> (forall t, rk r t <= r' t) -> (forall t, r' t <= N) ->
  list_sum r <= N * N.
Proof.
  intros Hl H1 H2. rewrite <- Hl at 1. apply sum_le_bound. intros x Hx.
  destruct (In_nth _ _ 0 Hx) as (t & _ & <-). specialize (H1 t). specialize (H2 t). unfold rk in H1. lia.
Qed.

Lemma iter_fix G (r' : nat -> nat) : valid_rank G r' ->
  forall fuel r, length r = length G -> Forall2 le r (sweep G r) -> (forall t, rk r t <= r' t) ->
    length G * length G < fuel + list_sum r ->
    sweep G (iter G fuel r) = iter G fuel r /\ (forall t, rk (iter G fuel r) t <= r' t) /\
    length (iter G fuel r) = length G.
Proof.
  intros [Hv Hb]. induction fuel as [|fuel IH]; intros r Hl Hinf Hle Hsum.
  - pose proof (sum_rank_bound _ _ _ Hl Hle Hb). lia.
  - cbn [iter]. destruct (list_beq (sweep G r) r) eqn:E.
    + apply list_beq_eq in E. auto.
    + assert (Hne : r <> sweep G r).
      { intros Heq. rewrite <- Heq in E at 1. assert (list_beq r r = true) by (apply list_beq_eq; reflexivity). congruence. }
      assert (Hle' : forall t, rk (sweep G r) t <= r' t).
      { intros t. unfold sweep, rk. replace t with (0 + t) at 2 by lia. apply sweep_from_below; [exact Hle|].
        intros k nd Hk Hc t' Ht'. cbn. apply (Hv k nd Hk Hc t' Ht'). }
      assert (Hov : existsb (fun x => length G <? x) (sweep G r) = false).
      { destruct (existsb (fun x => length G <? x) (sweep G r)) eqn:Ex; [|reflexivity]. exfalso.
        apply existsb_exists in Ex as (x & Hx & Hlt). apply Nat.ltb_lt in Hlt.
        destruct (In_nth _ _ 0 Hx) as (t & _ & <-). specialize (Hle' t). specialize (Hb t). unfold rk in Hle'. lia. }
      rewrite Hov.
      apply IH.
      * unfold sweep. apply sweep_from_length.
      * unfold sweep. apply sweep_from_mono. intros t. apply Forall2_le_nth. exact Hinf.
      * intros t. unfold sweep, rk. replace t with (0 + t) at 2 by lia. apply sweep_from_below; [exact Hle|].
        intros k nd Hk Hc t' Ht'. cbn. apply (Hv k nd Hk Hc t' Ht').
      * pose proof (lt_sum _ _ Hinf Hne). lia.
Qed.

Lemma zeros_le : forall (G : graph) l, length l = length G -> Forall2 le (map (fun _ => 0) G) l.
Proof.
  induction G as [|nd G IH]; intros [|x l] Hl; try discriminate; cbn; constructor; [lia|apply IH]. cbn in Hl. lia.
Qed.

Lemma zeros_nth (G : graph) t : nth t (map (fun _ : node => 0) G) 0 = 0.
Proof. revert t. induction G; intros [|t]; cbn; auto. Qed.

Lemma ranked_from_intro N rl : forall Gs n,
  (forall k nd, nth_error Gs k = Some nd ->
     (n_check nd = true \/ forall t, In t (hsucc nd) -> rk rl t < rk rl (n + k)) /\ rk rl (n + k) <= N) ->
  ranked_from N rl n Gs = true.
Proof.
  induction Gs as [|nd Gs IH]; intros n H; [reflexivity|]. cbn [ranked_from].
  destruct (H 0 nd eq_refl) as [H1 H2]. rewrite Nat.add_0_r in *.
  apply andb_true_iff; split; [apply andb_true_iff; split|].
  - destruct H1 as [->|H1]; [reflexivity|]. apply orb_true_iff; right. apply forallb_forall. intros t Ht.
    apply Nat.ltb_lt. apply H1; exact Ht.
  - apply Nat.leb_le; exact H2.
  - apply IH. intros k nd' Hk. replace (S n + k) with (n + S k) by lia. apply (H (S k) nd' Hk).
Qed.

(* completeness of the rank computation: if the graph admits a ranking at all, the checker accepts it *)
Lemma rank_complete G r' : valid_rank G r' -> all_cycles_checked G = true.
Proof.
  intros Hv. unfold all_cycles_checked, compute_rank.
  destruct (iter_fix G r' Hv (S (length G * length G)) (map (fun _ => 0) G)) as (Hfix & Hle & Hlen).
  - apply map_length.
  - apply zeros_le. unfold sweep. apply sweep_from_length.
  - intros t. unfold rk. rewrite zeros_nth. lia.
  - lia.
  - set (rho := iter G (S (length G * length G)) (map (fun _ => 0) G)) in *.
    unfold ranked_ok. apply ranked_from_intro. intros k nd Hk. split.
    + destruct (n_check nd) eqn:Hc; [left; reflexivity|right]. intros t Ht. change (0 + k) with k.
      change k with (0 + k).
      apply (sweep_from_fix rho G 0) with (nd := nd); [|exact Hk|exact Hc|exact Ht].
      intros k'. fold (sweep G rho). rewrite Hfix. reflexivity.
    + change (0 + k) with k. destruct Hv as [_ Hb]. specialize (Hle k). specialize (Hb k). lia.
Qed.

(* ================================================================== C. the placement of both lowerings passes the checker *)
Section InstrInd.
  Variable P : instr -> Prop.
  Hypothesis HBlock : forall b, Forall P b -> P (IBlock b).
  Hypothesis HLoop : forall c b, Forall P b -> P (ILoop c b).
  Hypothesis HIf : forall t e, Forall P t -> Forall P e -> P (IIf t e).
  Hypothesis HLeaf : forall i, match i with IBlock _ | ILoop _ _ | IIf _ _ => False | _ => True end -> P i.
  Fixpoint instr_ind' (i : instr) : P i :=
    let all := fix go (l : list instr) : Forall P l :=
      match l with [] => Forall_nil P | x :: r => Forall_cons x (instr_ind' x) (go r) end in
    match i with
    | IBlock b => HBlock b (all b)
    | ILoop c b => HLoop c b (all b)
    | IIf t e => HIf t e (all t) (all e)
    | IOther => HLeaf IOther I
    | ICheck => HLeaf ICheck I
    | IBr l => HLeaf (IBr l) I
    | IBrIf l => HLeaf (IBrIf l) I
    | IBrTable ls d => HLeaf (IBrTable ls d) I
    | ICall f => HLeaf (ICall f) I
    | ICallIndirect => HLeaf ICallIndirect I
    | IReturnCall c f => HLeaf (IReturnCall c f) I
    | IReturnCallIndirect c => HLeaf (IReturnCallIndirect c) I
    | IReturn => HLeaf IReturn I
    end.
End InstrInd.

(* every loop header and every tail call carries a check *)
Fixpoint checked (i : instr) : bool :=
  match i with
  | IBlock b => forallb checked b
  | ILoop c b => c && forallb checked b
  | IIf t e => forallb checked t && forallb checked e
  | IReturnCall c _ => c
  | IReturnCallIndirect c => c
  | _ => true
  end.

Lemma forallb_flat_map {A B} (f : A -> list B) (q : B -> bool) l :
  Forall (fun x => forallb q (f x) = true) l -> forallb q (flat_map f l) = true.
Proof. induction 1; cbn; [reflexivity|]. rewrite forallb_app, H, IHForall. reflexivity. Qed.

Lemma place_checked pl nimp : pl_loop pl = true -> pl_tail pl = true ->
  forall i, forallb checked (place_i pl nimp i) = true.
Proof.
  intros Hl Ht. induction i using instr_ind'.
  - cbn [place_i forallb checked]. rewrite forallb_flat_map by assumption. reflexivity.
  - cbn [place_i forallb checked]. rewrite Hl, forallb_flat_map by assumption. reflexivity.
  - cbn [place_i forallb checked]. rewrite !forallb_flat_map by assumption. reflexivity.
  - destruct i; try contradiction; cbn [place_i forallb checked]; try reflexivity.
    + destruct (pl_split pl && (f <? nimp)); cbn; [reflexivity|rewrite Ht; reflexivity].
    + rewrite Ht; reflexivity.
Qed.

Definition all_at (Q : nat -> node -> Prop) (p : nat) (ns : list node) : Prop :=
  forall k nd, nth_error ns k = Some nd -> Q (p + k) nd.

Lemma all_at_nil Q p : all_at Q p [].
Proof. intros [|k] nd H; discriminate. Qed.

Lemma all_at_cons Q p x ns : all_at Q p (x :: ns) <-> Q p x /\ all_at Q (S p) ns.
Proof.
  split.
  - intros H. split; [specialize (H 0 x eq_refl); rewrite Nat.add_0_r in H; exact H|].
    intros k nd Hk. replace (S p + k) with (p + S k) by lia. apply (H (S k)). exact Hk.
  - intros [H0 H] [|k] nd Hk; cbn in Hk.
    + inversion Hk; subst. rewrite Nat.add_0_r. exact H0.
    + replace (p + S k) with (S p + k) by lia. apply H. exact Hk.
Qed.

Lemma all_at_app Q : forall a p b, all_at Q p (a ++ b) <-> all_at Q p a /\ all_at Q (p + length a) b.
Proof.
  induction a as [|x a IH]; intros p b; cbn [app length].
  - rewrite Nat.add_0_r. split; [intros H; split; [apply all_at_nil|exact H]|intros [_ H]; exact H].
  - rewrite !all_at_cons, IH. replace (p + S (length a)) with (S p + length a) by lia. tauto.
Qed.

Definition tgt_ok (C : nat -> Prop) (n t : nat) : Prop := n < t \/ C t.
Definition node_ok (C : nat -> Prop) (n : nat) (nd : node) : Prop :=
  n_check nd = true \/ forall t, In t (hsucc nd) -> tgt_ok C n t.
Definition chk_in (C : nat -> Prop) (n : nat) (nd : node) : Prop := n_check nd = true -> C n.
Definition lbl_ok (C : nat -> Prop) (q t : nat) : Prop := q <= t \/ C t.

Lemma szl_cons x l : szl (x :: l) = sz x + szl l.
Proof. reflexivity. Qed.

Lemma comp_list_cons f p x l : comp_list f p (x :: l) = f p x ++ comp_list f (p + sz x) l.
Proof. reflexivity. Qed.

Lemma comp_list_length f l : Forall (fun x => forall p, length (f p x) = sz x) l ->
  forall p, length (comp_list f p l) = szl l.
Proof.
  induction 1 as [|x l Hx H IH]; intros p; [reflexivity|].
  rewrite comp_list_cons, app_length, Hx, IH, szl_cons. reflexivity.
Qed.

Lemma comp_length cx : forall i env p, length (comp cx env p i) = sz i.
Proof.
  induction i using instr_ind'; intros env p.
  - cbn [comp sz]. apply comp_list_length. eapply Forall_impl; [|exact H]. intros x Hx p0. apply Hx.
  - cbn [comp sz length]. f_equal. apply comp_list_length. eapply Forall_impl; [|exact H]. intros x Hx p0. apply Hx.
  - cbn [comp sz length]. rewrite app_length. cbn [length].
    rewrite !comp_list_length by (eapply Forall_impl; [|eassumption]; intros x Hx p0; apply Hx).
    unfold szl. lia.
  - destruct i; try contradiction; reflexivity.
Qed.

Lemma comp_list_len cx env l p : length (comp_list (comp cx env) p l) = szl l.
Proof. apply comp_list_length. apply Forall_forall. intros x _ p0. apply comp_length. Qed.

Lemma hsucc_seq (f : nat -> nat) L c : hsucc (mk c (map (fun l => ESeq (f l)) L)) = map f L.
Proof. unfold hsucc. cbn [n_edges]. induction L; cbn; [reflexivity|]. rewrite IHL. reflexivity. Qed.

Lemma hsucc_calls q L c : forall t, In t (hsucc (mk c (map (fun e => ECall e q) L))) -> t = q.
Proof.
  unfold hsucc. cbn [n_edges]. induction L; cbn; intros t H; [destruct H|].
  destruct H as [<-|H]; [reflexivity|apply IHL; exact H].
Qed.

Lemma lbl_nth C q env fend l : Forall (lbl_ok C q) env -> lbl_ok C q fend -> lbl_ok C q (nth l env fend).
Proof.
  intros He Hf. destruct (Nat.ltb_spec l (length env)).
  - rewrite Forall_forall in He. apply He. apply nth_In. assumption.
  - rewrite nth_overflow by assumption. exact Hf.
Qed.

Lemma lbl_tgt C q n t : n < q -> lbl_ok C q t -> tgt_ok C n t.
Proof. intros Hn [H|H]; [left; lia|right; exact H]. Qed.

Lemma lbl_weaken C q q' : q' <= q -> forall t, lbl_ok C q t -> lbl_ok C q' t.
Proof. intros Hq t [H|H]; [left; lia|right; exact H]. Qed.

(* the property proved by structural induction: in the code emitted for a fully checked instruction every
   stack-neutral edge out of a non-check node goes forward or to a check node *)
Definition comp_good (i : instr) : Prop :=
  checked i = true -> forall cx env p C,
    Forall (lbl_ok C (p + sz i)) env -> lbl_ok C (p + sz i) (c_fend cx) ->
    all_at (chk_in C) p (comp cx env p i) -> all_at (node_ok C) p (comp cx env p i).

Lemma comp_list_good l : Forall comp_good l -> forallb checked l = true ->
  forall cx env p C q, p + szl l <= q ->
    Forall (lbl_ok C q) env -> lbl_ok C q (c_fend cx) ->
    all_at (chk_in C) p (comp_list (comp cx env) p l) -> all_at (node_ok C) p (comp_list (comp cx env) p l).
Proof.
  induction 1 as [|x l Hx H IH]; intros Hc cx env p C q Hq He Hf Hin; [apply all_at_nil|].
  cbn [forallb] in Hc. apply andb_true_iff in Hc as [Hcx Hcl].
  rewrite szl_cons in Hq. rewrite comp_list_cons in *. rewrite all_at_app in *. rewrite comp_length in *.
  destruct Hin as [Hin1 Hin2]. split.
  - apply Hx; auto.
    + eapply Forall_impl; [|exact He]. apply lbl_weaken. lia.
    + eapply lbl_weaken; [|exact Hf]. lia.
  - apply (IH Hcl cx env (p + sz x) C q); auto. lia.
Qed.

Lemma comp_good_all : forall i, comp_good i.
Proof.
  induction i using instr_ind'; intros Hc cx env p C He Hf Hin.
  - (* block *) cbn [checked] in Hc. cbn [comp sz] in *. fold (szl b) in *.
    apply (comp_list_good b H Hc cx _ p C (p + szl b)); auto.
    constructor; [left; lia|exact He].
  - (* loop *) cbn [checked] in Hc. apply andb_true_iff in Hc as [-> Hc]. cbn [comp sz] in *. fold (szl b) in *.
    rewrite all_at_cons in *. destruct Hin as [Hh Hin]. split; [left; reflexivity|].
    apply (comp_list_good b H Hc cx _ (S p) C (p + S (szl b))); auto; try lia.
    constructor; [right; apply Hh; reflexivity|exact He].
  - (* if *) cbn [checked] in Hc. apply andb_true_iff in Hc as [Hct Hce]. cbn [comp sz] in *. fold (szl t) (szl e) in *.
    set (pe := p + 2 + szl t + szl e) in *.
    assert (Epe : p + (S (szl t) + S (szl e)) = pe) by (unfold pe; lia). rewrite Epe in *.
    rewrite all_at_cons, all_at_app, all_at_cons in *. rewrite comp_list_len in *.
    destruct Hin as (_ & Hint & _ & Hine). splits.
    + right. cbn. intros t0 [<-|[<-|[]]]; left; lia.
    + apply (comp_list_good t H Hct cx _ (S p) C pe); auto; try (unfold pe; lia). constructor; [left; lia|exact He].
    + right. cbn. intros t0 [<-|[]]. left. unfold pe. lia.
    + replace (S (S p + szl t)) with (p + 2 + szl t) in * by lia.
      apply (comp_list_good e H0 Hce cx _ (p + 2 + szl t) C pe); auto; try (unfold pe; lia). constructor; [left; lia|exact He].
  - (* leaves *)
    destruct i; try contradiction; cbn [comp sz] in *; apply all_at_cons; (split; [|apply all_at_nil]).
    + right. cbn. intros t [<-|[]]. left; lia.
    + left. reflexivity.
    + right. cbn. intros t [<-|[]]. eapply lbl_tgt; [|apply lbl_nth; eassumption]. lia.
    + right. cbn. intros t [<-|[<-|[]]]; [eapply lbl_tgt; [|apply lbl_nth; eassumption]; lia|left; lia].
    + right. rewrite hsucc_seq. intros t Ht. apply in_map_iff in Ht as (l0 & <- & _).
      eapply lbl_tgt; [|apply lbl_nth; eassumption]. lia.
    + right. cbn. intros t [<-|[]]. left; lia.
    + right. intros t Ht. apply hsucc_calls in Ht. subst. left; lia.
    + left. cbn [checked] in Hc. cbn. exact Hc.
    + left. cbn [checked] in Hc. cbn. exact Hc.
    + right. cbn. intros t [].
Qed.

Lemma comp_func_length entry all p b : length (comp_func entry all p b) = fsize b.
Proof. unfold comp_func, fsize. rewrite app_length, comp_list_len. cbn. lia. Qed.

Lemma comp_func_good entry all p b C : forallb checked b = true ->
  all_at (chk_in C) p (comp_func entry all p b) -> all_at (node_ok C) p (comp_func entry all p b).
Proof.
  intros Hc. unfold comp_func. rewrite !all_at_app, comp_list_len. intros [Hin _]. split.
  - apply (comp_list_good b (proj2 (Forall_forall _ _) (fun x _ => comp_good_all x)) Hc _ [] p C (p + szl b)); auto.
    left. cbn. lia.
  - apply all_at_cons. split; [|apply all_at_nil]. right. cbn. intros t [].
Qed.

Lemma comp_funcs_good entry all C : forall fs p, Forall (fun b => forallb checked b = true) fs ->
  all_at (chk_in C) p (comp_funcs entry all p fs) -> all_at (node_ok C) p (comp_funcs entry all p fs).
Proof.
  induction fs as [|b fs IH]; intros p Hc Hin; [apply all_at_nil|].
  inversion Hc as [|? ? Hb Hfs]; subst. cbn [comp_funcs] in *. rewrite all_at_app, comp_func_length in *.
  destruct Hin as [Hi1 Hi2]. split; [apply comp_func_good; assumption|apply IH; assumption].
Qed.

Lemma chk_in_self G : all_at (chk_in (fun t => is_check G t = true)) 0 G.
Proof. intros k nd Hk Hc. cbn. unfold is_check. rewrite (nth_error_nth _ _ _ Hk). exact Hc. Qed.

(* rank by position: a check node has rank 0, node n otherwise |G| - n *)
Lemma positional_rank G : all_at (node_ok (fun t => is_check G t = true)) 0 G ->
  valid_rank G (fun n => if is_check G n then 0 else length G - n).
Proof.
  intros H. split.
  - intros n nd Hn Hc t Ht. assert (Hlt : n < length G) by (apply nth_error_Some; congruence).
    assert (E : is_check G n = false) by (unfold is_check; rewrite (nth_error_nth _ _ _ Hn); exact Hc).
    rewrite E. destruct (H n nd Hn) as [Hc'|Hs]; [congruence|].
    destruct (Hs t Ht) as [Hgt|Hck]; cbn in *.
    + destruct (is_check G t); lia.
    + rewrite Hck. lia.
  - intros n. destruct (is_check G n); lia.
Qed.

Lemma checked_graph_accepted p : Forall (fun b => forallb checked b = true) (p_funcs p) ->
  all_cycles_checked (graph_of p) = true.
Proof.
  intros Hc. eapply rank_complete. apply positional_rank.
  set (G := graph_of p). pose proof (chk_in_self G) as Hin. unfold G, graph_of in *.
  rewrite all_at_cons in *. destruct Hin as [_ Hin]. rewrite all_at_cons in Hin. destruct Hin as [_ Hin].
  split; [|rewrite all_at_cons; split].
  - right. cbn. intros t [<-|[]]. left; lia.
  - left. reflexivity.
  - apply comp_funcs_good; assumption.
Qed.

Lemma insertion_complete pl p : pl_loop pl = true -> pl_tail pl = true ->
  all_cycles_checked (graph_of (place pl p)) = true.
Proof.
  intros Hl Ht. apply checked_graph_accepted. cbn [place p_funcs]. apply Forall_forall. intros b Hb.
  apply in_map_iff in Hb as (b0 & <- & _). rewrite forallb_app. apply andb_true_iff. split.
  - destruct (pl_entry pl); reflexivity.
  - apply forallb_flat_map. apply Forall_forall. intros i _. apply place_checked; assumption.
Qed.

Lemma insertion_complete_both :
  (forall p, all_cycles_checked (graph_of (place interp_now p)) = true) /\
  (forall p, all_cycles_checked (graph_of (place comp_now p)) = true) /\
  (forall pl p, pl_loop pl = true -> pl_tail pl = true -> all_cycles_checked (graph_of (place pl p)) = true).
Proof.
  splits.
  - intros p. apply insertion_complete; reflexivity.
  - intros p. apply insertion_complete; reflexivity.
  - exact insertion_complete.
Qed.

(* ================================================================== D. paths by computation; the pre-fix refutation; tree recursion *)
Definition stepb (G : graph) (c c' : cfg) : bool :=
  existsb (fun e =>
    match e with
    | ESeq t => (fst c' =? t) && list_beq (snd c') (snd c)
    | ECall cal r => (fst c' =? cal) && list_beq (snd c') (r :: snd c)
    | ETail cal => (fst c' =? cal) && list_beq (snd c') (snd c)
    | ERet => match snd c with k :: st => (fst c' =? k) && list_beq (snd c') st | [] => false end
    end) (edges G (fst c)).

Fixpoint is_pathb (G : graph) (l : list cfg) : bool :=
  match l with
  | c :: ((c' :: _) as r) => stepb G c c' && is_pathb G r
  | _ => true
  end.

Lemma stepb_sound G c c' : stepb G c c' = true -> step G c c'.
Proof.
  unfold stepb. intros H. apply existsb_exists in H as (e & He & H). destruct c as [n st], c' as [n' st'].
  cbn [fst snd] in *. destruct e.
  - apply andb_true_iff in H as [H1 H2]. apply Nat.eqb_eq in H1. apply list_beq_eq in H2. subst. constructor; exact He.
  - apply andb_true_iff in H as [H1 H2]. apply Nat.eqb_eq in H1. apply list_beq_eq in H2. subst. constructor; exact He.
  - apply andb_true_iff in H as [H1 H2]. apply Nat.eqb_eq in H1. apply list_beq_eq in H2. subst. constructor; exact He.
  - destruct st as [|k st]; [discriminate|].
    apply andb_true_iff in H as [H1 H2]. apply Nat.eqb_eq in H1. apply list_beq_eq in H2. subst. constructor; exact He.
Qed.

Lemma is_pathb_sound G : forall l, is_pathb G l = true -> is_path G l.
Proof.
  induction l as [|c l IH]; intros H; [exact I|]. destruct l as [|c' l]; [exact I|].
  cbn [is_pathb] in H. apply andb_true_iff in H as [H1 H2]. split; [apply stepb_sound; exact H1|apply IH; exact H2].
Qed.

Definition pathb (G : graph) (D : nat) (l : list cfg) : bool :=
  is_pathb G l && negb (existsb (fun c => is_check G (fst c)) l) && forallb (fun c => length (snd c) <=? D) l.

Lemma pathb_sound G D l : pathb G D l = true -> is_path G l /\ no_check G l /\ depth_le D l.
Proof.
  unfold pathb. intros H. apply andb_true_iff in H as [H H3]. apply andb_true_iff in H as [H1 H2]. splits.
  - apply is_pathb_sound; exact H1.
  - intros c Hc. destruct (is_check G (fst c)) eqn:E; [|reflexivity].
    assert (existsb (fun c => is_check G (fst c)) l = true) by (apply existsb_exists; eauto).
    rewrite H in H2. discriminate.
  - intros c Hc. rewrite forallb_forall in H3. apply Nat.leb_le. apply H3; exact Hc.
Qed.

(* f = return_call f *)
Definition tail_self : prog := {| p_nimp := 0; p_funcs := [[IReturnCall false 0]] |}.

Lemma tailcall_refuted_before_fix :
  all_cycles_checked (graph_of (place interp_before_fix tail_self)) = false /\
  all_cycles_checked (graph_of (place comp_before_fix tail_self)) = false /\
  (* and the rejection is not an artefact of the checker: the graph has check-free paths of every length at stack depth 0 *)
  (forall n, let G := graph_of (place comp_before_fix tail_self) in
             let l := repeat (2, []) n in is_path G l /\ no_check G l /\ depth_le 0 l /\ length l = n) /\
  (* with the check before the tail call, as the code is now, both are accepted *)
  all_cycles_checked (graph_of (place interp_now tail_self)) = true /\
  all_cycles_checked (graph_of (place comp_now tail_self)) = true.
Proof.
  splits; try (vm_compute; reflexivity).
  intros n G l. splits.
  - subst l. induction n as [|n IH]; [exact I|]. cbn [repeat]. destruct n as [|n]; [exact I|].
    split; [|exact IH]. apply st_tail. vm_compute. left; reflexivity.
  - intros c Hc. apply repeat_spec in Hc. subst c. vm_compute. reflexivity.
  - intros c Hc. apply repeat_spec in Hc. subst c. cbn. lia.
  - apply repeat_length.
Qed.

(* t(n) = if n = 0 return; t(n-1); t(n-1): no loop, no tail call, so neither lowering places a check *)
Definition tree_prog : prog := {| p_nimp := 0; p_funcs := [[IIf [IReturn] []; ICall 0; ICall 0]] |}.

(* the run of t(d) started with continuation stack st *)
Fixpoint tree_path (d : nat) (st : list nat) : list cfg :=
  match d with
  | 0 => [(2, st); (3, st)]
  | S d' => (2, st) :: (5, st) :: tree_path d' (6 :: st) ++ (6, st) :: tree_path d' (7 :: st) ++ [(7, st)]
  end.

Lemma tree_recursion_unbounded_witness :
  place interp_now tree_prog = tree_prog /\ place comp_now tree_prog = tree_prog /\
  let G := graph_of tree_prog in
  all_cycles_checked G = true /\
  forall d, d <= 12 ->
    let l := tree_path d [] in
    is_path G l /\ no_check G l /\ depth_le d l /\ length l = 6 * 2 ^ d - 4 /\ 2 ^ d <= length l.
Proof.
  splits; try reflexivity. intros G. split; [vm_compute; reflexivity|].
  assert (H : forallb (fun d => pathb G d (tree_path d []) && (length (tree_path d []) =? 6 * 2 ^ d - 4)
                               && (2 ^ d <=? length (tree_path d []))) (seq 0 13) = true) by (vm_compute; reflexivity).
  intros d Hd l. rewrite forallb_forall in H. specialize (H d ltac:(apply in_seq; lia)).
  apply andb_true_iff in H as [H H3]. apply andb_true_iff in H as [H1 H2].
  apply pathb_sound in H1 as (P1 & P2 & P3). apply Nat.eqb_eq in H2. apply Nat.leb_le in H3. auto.
Qed.

(* ---- non-vacuity *)
Definition loop_prog : prog := {| p_nimp := 0; p_funcs := [[ILoop false [IBr 0]]] |}.
Definition mixed_prog : prog :=
  {| p_nimp := 1;
     p_funcs := [[ILoop false [IOther; IBrIf 0; IIf [IReturnCall false 0] [ICallIndirect]; IBr 0]; IReturnCallIndirect false];
                 [IBlock [ILoop false [IBrTable [0; 1; 2] 1]]; ICall 1; IReturnCall false 2]] |}.

(* the hypotheses of checker_sound are satisfiable with a real lowering: 8 configurations > bound 5 0 = 7 *)
Example checker_sound_instance :
  let G := graph_of (place interp_now loop_prog) in
  let l := [(2, []); (3, []); (2, []); (3, []); (2, []); (3, []); (2, []); (3, [])] in
  all_cycles_checked G = true /\ is_path G l /\ depth_le 0 l /\ bound (length G) 0 < length l /\
  exists c, In c l /\ is_check G (fst c) = true.
Proof.
  intros G l.
  assert (H1 : all_cycles_checked G = true) by (vm_compute; reflexivity).
  assert (H2 : is_path G l) by (apply is_pathb_sound; vm_compute; reflexivity).
  assert (H3 : depth_le 0 l) by (intros c Hc; repeat (destruct Hc as [<-|Hc]; [cbn; lia|]); destruct Hc).
  assert (H4 : bound (length G) 0 < length l) by (vm_compute; lia).
  splits; auto. exact (checker_sound G 0 l H1 H2 H3 H4).
Qed.

Example placement_instances :
  all_cycles_checked (graph_of (place interp_now mixed_prog)) = true /\
  all_cycles_checked (graph_of (place comp_now mixed_prog)) = true /\
  (* the checker is not trivially true: without checks the same programs are rejected *)
  all_cycles_checked (graph_of (place no_checks mixed_prog)) = false /\
  all_cycles_checked (graph_of (place no_checks loop_prog)) = false /\
  (* and the two lowerings do differ: a return_call of an import is a plain call in the interpreter *)
  traces (place interp_now mixed_prog) <> traces (place comp_now mixed_prog).
Proof. splits; try (vm_compute; reflexivity). vm_compute. discriminate. Qed.

(* ================================================================== E. the closed word *)
Open Scope Z_scope.

Definition cause_wf (c : cause) : Prop := match c with Closed code => 0 <= code < 2 ^ 32 | _ => True end.

Lemma cause_code_range c : cause_wf c -> 0 <= cause_code c < 2 ^ 32.
Proof.
  destruct c; cbn [cause_wf cause_code]; intros H; try exact H;
    unfold ExitCodeContextCanceled, ExitCodeDeadlineExceeded; lia.
Qed.

Lemma cause_flag_cases c : cause_flag c = 1 \/ cause_flag c = 2.
Proof. destruct c; cbn; unfold exitCodeFlagResourceNotClosed, exitCodeFlagResourceClosed; auto. Qed.

Lemma pack_nonzero flag code : flag = 1 \/ flag = 2 -> Z.lor flag (shl 64 code 32) <> 0.
Proof. intros Hf H. apply Z.lor_eq_0_iff in H as [H _]. lia. Qed.

Lemma pack_unpack flag code : flag = 1 \/ flag = 2 -> 0 <= code < 2 ^ 32 ->
  wrap 32 (shr (Z.lor flag (shl 64 code 32)) 32) = code.
Proof.
  intros Hf Hc. unfold shr. rewrite <- Z.shiftr_div_pow2 by lia. rewrite Z.shiftr_lor.
  assert (E1 : Z.shiftr flag 32 = 0) by (destruct Hf; subst; reflexivity).
  assert (E2 : shl 64 code 32 = code * 2 ^ 32).
  { unfold shl. apply wrap_small. change (2 ^ 64) with (2 ^ 32 * 2 ^ 32). nia. }
  rewrite E1, E2, Z.shiftr_div_pow2, Z.div_mul by lia. cbn [Z.lor]. apply wrap_small. exact Hc.
Qed.

Lemma apply_open c : cause_wf c ->
  fail_if_closed (apply_cause 0 c) = Some (cause_code c) /\ is_closed (apply_cause 0 c) = true.
Proof.
  intros Hw. unfold apply_cause, set_exit_code. cbn [Z.eqb fst].
  pose proof (pack_nonzero _ (cause_code c) (cause_flag_cases c)) as Hnz.
  unfold fail_if_closed, is_closed. destruct (Z.eqb_spec (Z.lor (cause_flag c) (shl 64 (cause_code c) 32)) 0); [contradiction|].
  split; [|reflexivity]. f_equal. apply pack_unpack; [apply cause_flag_cases|apply cause_code_range; exact Hw].
Qed.

Lemma apply_closed w c : w <> 0 -> apply_cause w c = w.
Proof. intros H. unfold apply_cause, set_exit_code. destruct (Z.eqb_spec w 0); [contradiction|reflexivity]. Qed.

Lemma fold_closed cs : forall w, w <> 0 -> fold_left apply_cause cs w = w.
Proof. induction cs as [|c cs IH]; intros w H; cbn [fold_left]; [reflexivity|]. rewrite apply_closed by exact H. apply IH; exact H. Qed.

(* the first cause wins (compare-and-swap on 0) and fixes the exit code for good; the module is closed afterwards *)
Lemma cause_code_first_wins c cs : cause_wf c ->
  let w := fold_left apply_cause (c :: cs) 0 in
  fail_if_closed w = Some (cause_code c) /\ is_closed w = true.
Proof.
  intros Hw w. subst w. cbn [fold_left]. destruct (apply_open c Hw) as [H1 H2].
  assert (Hnz : apply_cause 0 c <> 0).
  { intros E. rewrite E in H2. discriminate. }
  rewrite fold_closed by exact Hnz. auto.
Qed.

Lemma cause_code_all :
  (forall c cs, (match c with Closed code => 0 <= code < 2 ^ 32 | _ => True end) ->
     let w := fold_left apply_cause (c :: cs) 0 in
     fail_if_closed w = Some (cause_code c) /\ is_closed w = true) /\
  cause_code Cancelled = ExitCodeContextCanceled /\ cause_code DeadlinePassed = ExitCodeDeadlineExceeded /\
  cause_code CancelledAtEntry = ExitCodeContextCanceled /\ cause_code DeadlineAtEntry = ExitCodeDeadlineExceeded /\
  (forall code, cause_code (Closed code) = code) /\
  fail_if_closed 0 = None /\ is_closed 0 = false.
Proof. split; [exact cause_code_first_wins|]. splits; reflexivity. Qed.

Lemma open_word : fail_if_closed 0 = None /\ is_closed 0 = false.
Proof. split; reflexivity. Qed.

Example cause_code_instance :
  fail_if_closed (fold_left apply_cause [DeadlinePassed; Closed 7; Cancelled] 0) = Some 4026531839 /\
  fail_if_closed (fold_left apply_cause [Closed 7; DeadlinePassed] 0) = Some 7 /\
  fail_if_closed (fold_left apply_cause [Closed 0; Cancelled] 0) = Some 0 /\
  fail_if_closed (fold_left apply_cause [CancelledAtEntry] 0) = Some 4294967295.
Proof. splits; vm_compute; reflexivity. Qed.
