(* Proofs about Engine/Access.v (C02): the byte-level model of every kind of access touches exactly the addressed
   bytes when in bounds, traps with the memory unchanged otherwise (bulk operations: before any byte is written),
   never names a byte index outside [0, size), and evaluating it on a window is evaluating it on the whole memory. *)
From Coq Require Import String Ascii ZArith List Bool Lia.
From Coq Require Import ZifyBool.
From Verif Require Import Lib.GoInt Gen.GenWasm Engine.Bounds Engine.Access Proofs.BoundsP.
Import ListNotations.
Open Scope list_scope.
Open Scope Z_scope.
Ltac Zify.zify_post_hook ::= Z.div_mod_to_equations.
Ltac splits := repeat match goal with |- _ /\ _ => split end.

Notation nthZ l i := (nth (Z.to_nat i) l 0).

(* ---- lists ---- *)
Lemma nth_firstn_lt {A} (l : list A) k n d : (n < k)%nat -> nth n (firstn k l) d = nth n l d.
Proof.
  revert k n. induction l as [|a l IH]; intros k n H.
  - rewrite firstn_nil. reflexivity.
  - destruct k; [lia|]. destruct n; cbn; [reflexivity|]. apply IH. lia.
Qed.

Lemma nth_skipn_add {A} (l : list A) k n d : nth n (skipn k l) d = nth (k + n) l d.
Proof.
  revert l. induction k as [|k IH]; intros l; [reflexivity|].
  destruct l; cbn [skipn Nat.add]; [destruct n; reflexivity|]. cbn. apply IH.
Qed.

Lemma nth_repeat_lt {A} (a d : A) N k : (k < N)%nat -> nth k (repeat a N) d = a.
Proof. revert k. induction N; intros k H; [lia|]. destruct k; cbn; [reflexivity|]. apply IHN. lia. Qed.

Lemma zlen_nonneg {A} (l : list A) : 0 <= zlen l.
Proof. unfold zlen. lia. Qed.

Lemma zlen_app {A} (a b : list A) : zlen (a ++ b) = zlen a + zlen b.
Proof. unfold zlen. rewrite app_length. lia. Qed.

Lemma len_sub l i n : 0 <= i -> 0 <= n -> i + n <= zlen l -> length (sub l i n) = Z.to_nat n.
Proof. unfold sub, zlen. intros. rewrite firstn_length, skipn_length. lia. Qed.

Lemma nth_sub l i n k : 0 <= i -> 0 <= k < n -> nthZ (sub l i n) k = nthZ l (i + k).
Proof.
  intros Hi Hk. unfold sub. rewrite nth_firstn_lt by lia. rewrite nth_skipn_add.
  f_equal. lia.
Qed.

Lemma len_splice l i bs : 0 <= i -> i + zlen bs <= zlen l -> length (splice l i bs) = length l.
Proof.
  unfold splice, zlen. intros. rewrite !app_length, firstn_length, skipn_length. lia.
Qed.

Lemma nth_splice l i bs x : 0 <= i -> i + zlen bs <= zlen l -> 0 <= x ->
  nthZ (splice l i bs) x = if (i <=? x) && (x <? i + zlen bs) then nthZ bs (x - i) else nthZ l x.
Proof.
  unfold splice, zlen. intros Hi Hb Hx.
  assert (Hf : length (firstn (Z.to_nat i) l) = Z.to_nat i) by (rewrite firstn_length; lia).
  destruct (Z.leb_spec i x); cbn [andb].
  - rewrite app_nth2 by lia. rewrite Hf.
    destruct (Z.ltb_spec x (i + Z.of_nat (length bs))).
    + rewrite app_nth1 by lia. f_equal. lia.
    + rewrite app_nth2 by lia. rewrite nth_skipn_add. f_equal. lia.
  - rewrite app_nth1 by lia. apply nth_firstn_lt. lia.
Qed.

Lemma len_le_bytes n v : length (le_bytes n v) = n.
Proof. revert v. induction n; intros; cbn; [reflexivity|]. f_equal. apply IHn. Qed.

Lemma in_range x a n : In x (range a n) -> a <= x < a + n.
Proof.
  unfold range. rewrite in_map_iff. intros (k & <- & Hk). apply in_seq in Hk. lia.
Qed.

(* ---- the window ---- *)
Lemma sub_mid pre w post i n : 0 <= i -> 0 <= n -> i + n <= zlen w ->
  sub (pre ++ w ++ post) (zlen pre + i) n = sub w i n.
Proof.
  unfold sub, zlen. intros Hi Hn Hb.
  replace (Z.to_nat (Z.of_nat (length pre) + i)) with (length pre + Z.to_nat i)%nat by lia.
  rewrite skipn_app. rewrite skipn_all2 by lia. cbn [app].
  replace (length pre + Z.to_nat i - length pre)%nat with (Z.to_nat i) by lia.
  rewrite skipn_app, firstn_app.
  replace (Z.to_nat n - length (skipn (Z.to_nat i) w))%nat with 0%nat by (rewrite skipn_length; lia).
  cbn [firstn]. apply app_nil_r.
Qed.

Lemma splice_mid pre w post i bs : 0 <= i -> i + zlen bs <= zlen w ->
  splice (pre ++ w ++ post) (zlen pre + i) bs = pre ++ splice w i bs ++ post.
Proof.
  unfold splice, zlen. intros Hi Hb.
  replace (Z.to_nat (Z.of_nat (length pre) + i)) with (length pre + Z.to_nat i)%nat by lia.
  rewrite firstn_app_2. rewrite firstn_app.
  replace (Z.to_nat i - length w)%nat with 0%nat by lia. cbn [firstn]. rewrite app_nil_r.
  rewrite skipn_app. rewrite skipn_all2 by lia. cbn [app].
  replace (length pre + Z.to_nat i + length bs - length pre)%nat with (Z.to_nat i + length bs)%nat by lia.
  rewrite skipn_app.
  replace (Z.to_nat i + length bs - length w)%nat with 0%nat by lia. cbn [skipn].
  rewrite <- !app_assoc. reflexivity.
Qed.

Section Window.
Variables pre w post : list Z.
Let m := pre ++ w ++ post.
Let vm := {| v_size := zlen m; v_lo := zlen pre; v_win := w |}.

Lemma rd_window ea n : access_ok (zlen m) ea n = true -> covers vm ea n = true ->
  vrd (whole m) ea n = vrd vm ea n /\ covers (whole m) ea n = true.
Proof.
  unfold access_ok, covers, vrd, whole. cbn [v_lo v_win v_size vm]. intros Ha Hc.
  pose proof (zlen_nonneg pre). split; [|lia].
  replace (ea - 0) with (zlen pre + (ea - zlen pre)) by lia. apply sub_mid; lia.
Qed.

Lemma wr_window ea bs : access_ok (zlen m) ea (zlen bs) = true -> covers vm ea (zlen bs) = true ->
  vwr (whole m) ea bs = whole (pre ++ v_win (vwr vm ea bs) ++ post) /\ covers (whole m) ea (zlen bs) = true.
Proof.
  unfold access_ok, covers, vwr, whole. cbn [v_lo v_win v_size vm]. intros Ha Hc.
  pose proof (zlen_nonneg pre). split; [|lia].
  replace (ea - 0) with (zlen pre + (ea - zlen pre)) by lia.
  unfold m. rewrite splice_mid by lia. f_equal.
  rewrite !zlen_app. unfold zlen at 2 5. rewrite len_splice by lia. reflexivity.
Qed.

Definition lifts (o o' : outcome) : Prop :=
  match o with
  | OTrap t => o' = OTrap t
  | ODone vm' r => o' = ODone (whole (pre ++ v_win vm' ++ post)) r /\ v_size vm' = zlen m /\ v_lo vm' = zlen pre /\ length (v_win vm') = length w
  | OWindow => True
  end.

Lemma len_win_wr ea bs : covers vm ea (zlen bs) = true -> length (v_win (vwr vm ea bs)) = length w.
Proof.
  unfold covers, vwr. cbn [v_lo v_win v_size vm]. intros Hc. apply len_splice; lia.
Qed.

Lemma guarded_window ea n k k' :
  (access_ok (zlen m) ea n = true -> covers vm ea n = true -> covers (whole m) ea n = true /\ lifts (k tt) (k' tt)) ->
  lifts (guarded vm ea n k) (guarded (whole m) ea n k').
Proof.
  unfold guarded. cbn [v_size vm whole]. intros H.
  destruct (access_ok (zlen m) ea n) eqn:Ha; [|reflexivity].
  destruct (covers vm ea n) eqn:Hc; [|exact I].
  destruct (H eq_refl eq_refl) as [-> Hl]. exact Hl.
Qed.

Lemma atomic_window ea n k k' :
  (access_ok (zlen m) ea n = true -> covers vm ea n = true -> covers (whole m) ea n = true /\ lifts (k tt) (k' tt)) ->
  lifts (atomic vm ea n k) (atomic (whole m) ea n k').
Proof.
  unfold atomic. intros H. destruct (ea mod n =? 0).
  - apply guarded_window. exact H.
  - cbn [v_size vm whole]. destruct (access_ok (zlen m) ea n); reflexivity.
Qed.

Lemma lifts_load ea n : access_ok (zlen m) ea n = true -> covers vm ea n = true ->
  covers (whole m) ea n = true /\ lifts (ODone vm (vrd vm ea n)) (ODone (whole m) (vrd (whole m) ea n)).
Proof.
  intros Ha Hc. destruct (rd_window ea n Ha Hc) as [-> ->]. split; [reflexivity|].
  cbn [lifts vm v_win v_size v_lo]. splits; reflexivity.
Qed.

Lemma lifts_store ea bs r r' : r = r' -> access_ok (zlen m) ea (zlen bs) = true -> covers vm ea (zlen bs) = true ->
  covers (whole m) ea (zlen bs) = true /\ lifts (ODone (vwr vm ea bs) r) (ODone (vwr (whole m) ea bs) r').
Proof.
  intros <- Ha Hc. destruct (wr_window ea bs Ha Hc) as [-> ->]. split; [reflexivity|].
  cbn [lifts]. splits; try reflexivity. apply len_win_wr. exact Hc.
Qed.

(* evaluating an access on a window that covers it is evaluating it on the whole memory *)
Lemma run_window_lifts a : lifts (run vm a) (run (whole m) a).
Proof.
  destruct a as [ea n|ea bs|d v n|d s n|seg d s n|ea n|ea bs|op ea n v|ea n e r]; cbn [run].
  - apply guarded_window. apply lifts_load.
  - apply guarded_window. apply lifts_store. reflexivity.
  - apply guarded_window. intros Ha Hc.
    assert (Hl : zlen (repeat (v mod 256) (Z.to_nat n)) = n).
    { unfold zlen. rewrite repeat_length. unfold access_ok in Ha. lia. }
    rewrite <- Hl in Ha, Hc. destruct (lifts_store d _ [] [] eq_refl Ha Hc) as [Hw Hs].
    rewrite Hl in Hw. split; assumption.
  - cbn [v_size vm whole].
    destruct (access_ok (zlen m) s n) eqn:Hs; cbn [andb]; [|reflexivity].
    destruct (access_ok (zlen m) d n) eqn:Hd; [|reflexivity].
    destruct (covers vm s n) eqn:Cs; cbn [andb]; [|exact I].
    destruct (covers vm d n) eqn:Cd; [|exact I].
    destruct (rd_window s n Hs Cs) as [Er Cr]. fold (whole m). rewrite Cr, Er. cbn [andb].
    assert (Hl : zlen (vrd vm s n) = n).
    { unfold zlen, vrd. unfold access_ok, covers in *. cbn [vm v_lo v_win] in *. rewrite len_sub; lia. }
    rewrite <- Hl in Hd, Cd. destruct (lifts_store d _ [] [] eq_refl Hd Cd) as [Hw Hlf].
    rewrite Hl in Hw. rewrite Hw. exact Hlf.
  - cbn [v_size vm whole].
    destruct (access_ok (zlen seg) s n) eqn:Hs; cbn [andb]; [|reflexivity].
    destruct (access_ok (zlen m) d n) eqn:Hd; [|reflexivity].
    destruct (covers vm d n) eqn:Cd; [|exact I].
    assert (Hl : zlen (sub seg s n) = n).
    { unfold zlen. unfold access_ok in Hs. rewrite len_sub; lia. }
    rewrite <- Hl in Hd, Cd. destruct (lifts_store d _ [] [] eq_refl Hd Cd) as [Hw Hlf].
    rewrite Hl in Hw. fold (whole m). rewrite Hw. exact Hlf.
  - apply atomic_window. apply lifts_load.
  - apply atomic_window. apply lifts_store. reflexivity.
  - apply atomic_window. intros Ha Hc. cbv zeta.
    destruct (rd_window ea n Ha Hc) as [Er Cr]. rewrite Er.
    set (bs := le_bytes (Z.to_nat n) _).
    assert (Hl : zlen bs = n).
    { unfold zlen, bs. rewrite len_le_bytes. unfold access_ok in Ha. lia. }
    rewrite <- Hl in Ha, Hc. destruct (lifts_store ea bs (vrd vm ea n) (vrd vm ea n) eq_refl Ha Hc) as [Hw Hlf].
    rewrite Hl in Hw. split; assumption.
  - apply atomic_window. intros Ha Hc. cbv zeta.
    destruct (rd_window ea n Ha Hc) as [Er Cr]. rewrite Er. split; [exact Cr|].
    destruct (le_val (vrd vm ea n) =? e mod 2 ^ (8 * n)).
    + set (bs := le_bytes (Z.to_nat n) _).
      assert (Hl : zlen bs = n).
      { unfold zlen, bs. rewrite len_le_bytes. unfold access_ok in Ha. lia. }
      rewrite <- Hl in Ha, Hc. destruct (lifts_store ea bs (vrd vm ea n) (vrd vm ea n) eq_refl Ha Hc) as [_ Hlf]. exact Hlf.
    + cbn [lifts vm v_win v_size v_lo]. splits; reflexivity.
Qed.
End Window.

Lemma run_window pre w post a :
  let m := pre ++ w ++ post in
  let vm := {| v_size := zlen m; v_lo := zlen pre; v_win := w |} in
  match run vm a with
  | OTrap t => run (whole m) a = OTrap t
  | ODone vm' r => run (whole m) a = ODone (whole (pre ++ v_win vm' ++ post)) r /\ length (v_win vm') = length w
  | OWindow => True
  end.
Proof.
  intros m vm. pose proof (run_window_lifts pre w post a) as H. fold m vm in H.
  destruct (run vm a); cbn [lifts] in H; [exact H| |exact I].
  destruct H as (H1 & _ & _ & H4). split; assumption.
Qed.

(* ---- whole memories ---- *)
Lemma covers_whole m ea n : access_ok (zlen m) ea n = true -> covers (whole m) ea n = true.
Proof. unfold access_ok, covers, whole. cbn. lia. Qed.

Lemma whole_wr m ea bs : 0 <= ea -> ea + zlen bs <= zlen m ->
  vwr (whole m) ea bs = whole (splice m ea bs) /\ length (splice m ea bs) = length m.
Proof.
  intros H0 H1. pose proof (len_splice m ea bs H0 H1) as Hl. split; [|exact Hl].
  unfold vwr, whole. cbn [v_size v_lo v_win]. rewrite Z.sub_0_r. unfold zlen. rewrite Hl. reflexivity.
Qed.

Lemma load_bytes_exact m ea n :
  (0 <= ea -> 0 <= n -> ea + n <= zlen m ->
     exists bs, run (whole m) (ALoad ea n) = ODone (whole m) bs /\ length bs = Z.to_nat n /\
                forall k, 0 <= k < n -> nthZ bs k = nthZ m (ea + k)) /\
  (0 <= ea -> 0 <= n -> zlen m < ea + n ->
     run (whole m) (ALoad ea n) = OTrap AOob /\ mem_after (whole m) (ALoad ea n) = whole m).
Proof.
  split; intros H0 Hn H1.
  - assert (Ha : access_ok (zlen m) ea n = true) by (unfold access_ok; lia).
    exists (sub m ea n). unfold run, guarded. cbn [whole v_size]. fold (whole m). rewrite Ha, (covers_whole _ _ _ Ha).
    unfold vrd. cbn [whole v_win v_lo]. rewrite Z.sub_0_r. splits; [reflexivity|apply len_sub; lia|].
    intros k Hk. apply nth_sub; lia.
  - assert (Ha : access_ok (zlen m) ea n = false) by (unfold access_ok; lia).
    unfold mem_after, run, guarded. cbn [whole v_size]. rewrite Ha. split; reflexivity.
Qed.

(* (a) an in-bounds store of n bytes changes exactly [ea, ea+n) and nothing else, the length stays; out of bounds:
   trap, memory unchanged *)
Lemma store_bytes_exact m ea bs :
  (0 <= ea -> ea + zlen bs <= zlen m ->
     exists m', run (whole m) (AStore ea bs) = ODone (whole m') [] /\ length m' = length m /\
                forall x, 0 <= x -> nthZ m' x = if (ea <=? x) && (x <? ea + zlen bs) then nthZ bs (x - ea) else nthZ m x) /\
  (0 <= ea -> zlen m < ea + zlen bs ->
     run (whole m) (AStore ea bs) = OTrap AOob /\ mem_after (whole m) (AStore ea bs) = whole m).
Proof.
  split; intros H0 H1.
  - pose proof (zlen_nonneg bs).
    assert (Ha : access_ok (zlen m) ea (zlen bs) = true) by (unfold access_ok; lia).
    destruct (whole_wr m ea bs H0 H1) as [Ew El].
    exists (splice m ea bs). unfold run, guarded. cbn [whole v_size]. fold (whole m). rewrite Ha, (covers_whole _ _ _ Ha), Ew.
    splits; [reflexivity|exact El|]. intros x Hx. apply nth_splice; assumption.
  - pose proof (zlen_nonneg bs).
    assert (Ha : access_ok (zlen m) ea (zlen bs) = false) by (unfold access_ok; lia).
    unfold mem_after, run, guarded. cbn [whole v_size]. rewrite Ha. split; reflexivity.
Qed.

(* (b) bulk operations: out of bounds (source or destination) -> trap and NO byte written; in bounds -> exactly the
   destination range changes and it receives the source bytes AS THEY WERE BEFORE (so overlapping copies are
   right in both directions) *)
Lemma fill_exact m d v n :
  (0 <= d -> 0 <= n -> d + n <= zlen m ->
     exists m', run (whole m) (AFill d v n) = ODone (whole m') [] /\ length m' = length m /\
                forall x, 0 <= x -> nthZ m' x = if (d <=? x) && (x <? d + n) then v mod 256 else nthZ m x) /\
  (0 <= d -> 0 <= n -> zlen m < d + n ->
     run (whole m) (AFill d v n) = OTrap AOob /\ mem_after (whole m) (AFill d v n) = whole m).
Proof.
  split; intros H0 Hn H1.
  - assert (Ha : access_ok (zlen m) d n = true) by (unfold access_ok; lia).
    set (bs := repeat (v mod 256) (Z.to_nat n)).
    assert (Hl : zlen bs = n) by (unfold zlen, bs; rewrite repeat_length; lia).
    assert (H1' : d + zlen bs <= zlen m) by lia.
    destruct (whole_wr m d bs H0 H1') as [Ew El].
    exists (splice m d bs). unfold run, guarded. cbn [whole v_size]. fold (whole m). rewrite Ha, (covers_whole _ _ _ Ha).
    fold bs. rewrite Ew. splits; [reflexivity|exact El|].
    intros x Hx. rewrite nth_splice by assumption. rewrite Hl.
    destruct ((d <=? x) && (x <? d + n)) eqn:E; [|reflexivity].
    unfold bs. apply nth_repeat_lt. lia.
  - assert (Ha : access_ok (zlen m) d n = false) by (unfold access_ok; lia).
    unfold mem_after, run, guarded. cbn [whole v_size]. rewrite Ha. split; reflexivity.
Qed.

Lemma copy_exact m d s n :
  (0 <= d -> 0 <= s -> 0 <= n -> d + n <= zlen m -> s + n <= zlen m ->
     exists m', run (whole m) (ACopy d s n) = ODone (whole m') [] /\ length m' = length m /\
                forall x, 0 <= x -> nthZ m' x = if (d <=? x) && (x <? d + n) then nthZ m (s + (x - d)) else nthZ m x) /\
  (0 <= d -> 0 <= s -> 0 <= n -> zlen m < d + n \/ zlen m < s + n ->
     run (whole m) (ACopy d s n) = OTrap AOob /\ mem_after (whole m) (ACopy d s n) = whole m).
Proof.
  split.
  - intros H0 Hs Hn H1 H2.
    assert (Had : access_ok (zlen m) d n = true) by (unfold access_ok; lia).
    assert (Has : access_ok (zlen m) s n = true) by (unfold access_ok; lia).
    set (bs := sub m s n).
    assert (Hl : zlen bs = n) by (unfold zlen, bs; rewrite len_sub; lia).
    assert (H1' : d + zlen bs <= zlen m) by lia.
    destruct (whole_wr m d bs H0 H1') as [Ew El].
    exists (splice m d bs). unfold run. cbn [whole v_size]. fold (whole m).
    rewrite Had, Has, (covers_whole _ _ _ Had), (covers_whole _ _ _ Has). cbn [andb].
    unfold vrd. cbn [whole v_win v_lo]. rewrite Z.sub_0_r. fold bs. fold (whole m). rewrite Ew.
    splits; [reflexivity|exact El|].
    intros x Hx. rewrite nth_splice by assumption. rewrite Hl.
    destruct ((d <=? x) && (x <? d + n)) eqn:E; [|reflexivity].
    unfold bs. apply nth_sub; lia.
  - intros H0 Hs Hn H1.
    assert (Ha : access_ok (zlen m) s n && access_ok (zlen m) d n = false) by (unfold access_ok; lia).
    unfold mem_after, run. cbn [whole v_size]. rewrite Ha. split; reflexivity.
Qed.

Lemma init_exact m seg d s n :
  (0 <= d -> 0 <= s -> 0 <= n -> d + n <= zlen m -> s + n <= zlen seg ->
     exists m', run (whole m) (AInit seg d s n) = ODone (whole m') [] /\ length m' = length m /\
                forall x, 0 <= x -> nthZ m' x = if (d <=? x) && (x <? d + n) then nthZ seg (s + (x - d)) else nthZ m x) /\
  (0 <= d -> 0 <= s -> 0 <= n -> zlen m < d + n \/ zlen seg < s + n ->
     run (whole m) (AInit seg d s n) = OTrap AOob /\ mem_after (whole m) (AInit seg d s n) = whole m).
Proof.
  split.
  - intros H0 Hs Hn H1 H2.
    assert (Had : access_ok (zlen m) d n = true) by (unfold access_ok; lia).
    assert (Has : access_ok (zlen seg) s n = true) by (unfold access_ok; lia).
    set (bs := sub seg s n).
    assert (Hl : zlen bs = n) by (unfold zlen, bs; rewrite len_sub; lia).
    assert (H1' : d + zlen bs <= zlen m) by lia.
    destruct (whole_wr m d bs H0 H1') as [Ew El].
    exists (splice m d bs). unfold run. cbn [whole v_size]. fold (whole m).
    rewrite Had, Has, (covers_whole _ _ _ Had). cbn [andb]. fold bs. rewrite Ew.
    splits; [reflexivity|exact El|].
    intros x Hx. rewrite nth_splice by assumption. rewrite Hl.
    destruct ((d <=? x) && (x <? d + n)) eqn:E; [|reflexivity].
    unfold bs. apply nth_sub; lia.
  - intros H0 Hs Hn H1.
    assert (Ha : access_ok (zlen seg) s n && access_ok (zlen m) d n = false) by (unfold access_ok; lia).
    unfold mem_after, run. cbn [whole v_size]. rewrite Ha. split; reflexivity.
Qed.

Definition bulk_statement : Prop :=
  (forall m d v n,
    (0 <= d -> 0 <= n -> d + n <= zlen m ->
       exists m', run (whole m) (AFill d v n) = ODone (whole m') [] /\ length m' = length m /\
                  forall x, 0 <= x -> nthZ m' x = if (d <=? x) && (x <? d + n) then v mod 256 else nthZ m x) /\
    (0 <= d -> 0 <= n -> zlen m < d + n ->
       run (whole m) (AFill d v n) = OTrap AOob /\ mem_after (whole m) (AFill d v n) = whole m)) /\
  (forall m d s n,
    (0 <= d -> 0 <= s -> 0 <= n -> d + n <= zlen m -> s + n <= zlen m ->
       exists m', run (whole m) (ACopy d s n) = ODone (whole m') [] /\ length m' = length m /\
                  forall x, 0 <= x -> nthZ m' x = if (d <=? x) && (x <? d + n) then nthZ m (s + (x - d)) else nthZ m x) /\
    (0 <= d -> 0 <= s -> 0 <= n -> zlen m < d + n \/ zlen m < s + n ->
       run (whole m) (ACopy d s n) = OTrap AOob /\ mem_after (whole m) (ACopy d s n) = whole m)) /\
  (forall m seg d s n,
    (0 <= d -> 0 <= s -> 0 <= n -> d + n <= zlen m -> s + n <= zlen seg ->
       exists m', run (whole m) (AInit seg d s n) = ODone (whole m') [] /\ length m' = length m /\
                  forall x, 0 <= x -> nthZ m' x = if (d <=? x) && (x <? d + n) then nthZ seg (s + (x - d)) else nthZ m x) /\
    (0 <= d -> 0 <= s -> 0 <= n -> zlen m < d + n \/ zlen seg < s + n ->
       run (whole m) (AInit seg d s n) = OTrap AOob /\ mem_after (whole m) (AInit seg d s n) = whole m)).

Lemma bulk_exact : bulk_statement.
Proof. unfold bulk_statement. splits; intros; [apply fill_exact|apply copy_exact|apply init_exact]. Qed.

(* (c) whatever the access and whatever the memory (and the window): every byte index the model reads or writes is
   inside [0, size) *)
Lemma guarded_done m ea n k m' r : guarded m ea n k = ODone m' r -> access_ok (v_size m) ea n = true.
Proof. unfold guarded. destruct (access_ok (v_size m) ea n); [reflexivity|discriminate]. Qed.

Lemma atomic_done m ea n k m' r : atomic m ea n k = ODone m' r -> access_ok (v_size m) ea n = true /\ ea mod n = 0.
Proof.
  unfold atomic. destruct (Z.eqb_spec (ea mod n) 0) as [E|E].
  - intros H. split; [eapply guarded_done; exact H|exact E].
  - destruct (access_ok (v_size m) ea n); discriminate.
Qed.

Lemma access_never_outside m a x : In x (touched m a) -> 0 <= x < v_size m.
Proof.
  unfold touched. destruct (run m a) as [t|m' r|] eqn:E; [intros []| |intros []].
  intros Hin. apply in_app_or in Hin.
  destruct a as [ea n|ea bs|d v n|d s n|seg d s n|ea n|ea bs|op ea n v|ea n e r']; cbn [run reads writes] in *.
  - apply guarded_done in E. destruct Hin as [H|[]]. apply in_range in H. unfold access_ok in E. lia.
  - apply guarded_done in E. destruct Hin as [[]|H]. apply in_range in H. unfold access_ok in E. lia.
  - apply guarded_done in E. destruct Hin as [[]|H]. apply in_range in H. unfold access_ok in E. lia.
  - destruct (access_ok (v_size m) s n) eqn:Es; [|discriminate].
    destruct (access_ok (v_size m) d n) eqn:Ed; [|discriminate].
    destruct Hin as [H|H]; apply in_range in H; unfold access_ok in *; lia.
  - destruct (access_ok (zlen seg) s n) eqn:Es; [|discriminate].
    destruct (access_ok (v_size m) d n) eqn:Ed; [|discriminate].
    destruct Hin as [[]|H]. apply in_range in H. unfold access_ok in *. lia.
  - apply atomic_done in E. destruct E as [E _]. destruct Hin as [H|[]]. apply in_range in H. unfold access_ok in E. lia.
  - apply atomic_done in E. destruct E as [E _]. destruct Hin as [[]|H]. apply in_range in H. unfold access_ok in E. lia.
  - apply atomic_done in E. destruct E as [E _]. destruct Hin as [H|H]; apply in_range in H; unfold access_ok in E; lia.
  - apply atomic_done in E. destruct E as [E _]. destruct Hin as [H|H]; apply in_range in H; unfold access_ok in E; lia.
Qed.

(* (d) atomics: a misaligned effective address traps, the memory is unchanged; an aligned one behaves like the
   plain access *)
Lemma atomic_traps_if_misaligned m ea n k :
  ea mod n <> 0 -> atomic m ea n k = OTrap AUnaligned \/ atomic m ea n k = OTrap AOob.
Proof.
  intros H. unfold atomic. destruct (Z.eqb_spec (ea mod n) 0); [contradiction|].
  destruct (access_ok (v_size m) ea n); auto.
Qed.

Lemma atomic_misaligned_traps m a ea n :
  atomic_ea_width a = Some (ea, n) -> ea mod n <> 0 ->
  (run m a = OTrap AUnaligned \/ run m a = OTrap AOob) /\ mem_after m a = m /\ touched m a = [].
Proof.
  intros Hw Hm. unfold mem_after, touched.
  assert (H : run m a = OTrap AUnaligned \/ run m a = OTrap AOob).
  { destruct a; cbn [atomic_ea_width] in Hw; try discriminate; injection Hw as E1 E2; subst; cbn [run];
      apply atomic_traps_if_misaligned; assumption. }
  destruct H as [-> | ->]; auto.
Qed.

(* an atomic access that is out of bounds traps with the out-of-bounds error, whatever its alignment *)
Lemma atomic_oob_traps m a ea n :
  atomic_ea_width a = Some (ea, n) -> access_ok (v_size m) ea n = false ->
  run m a = OTrap AOob /\ mem_after m a = m /\ touched m a = [].
Proof.
  intros Hw Ho. unfold mem_after, touched.
  assert (H : run m a = OTrap AOob).
  { destruct a; cbn [atomic_ea_width] in Hw; try discriminate; injection Hw as E1 E2; subst; cbn [run];
      unfold atomic, guarded; rewrite Ho; destruct (_ =? 0); reflexivity. }
  rewrite H. auto.
Qed.

Lemma atomic_aligned_as_plain m ea n bs :
  (ea mod n = 0 -> run m (AAtomLoad ea n) = run m (ALoad ea n)) /\
  (ea mod zlen bs = 0 -> run m (AAtomStore ea bs) = run m (AStore ea bs)).
Proof.
  split; intros E; cbn [run]; unfold atomic; rewrite E; reflexivity.
Qed.

Lemma rmw_exact m op ea n v :
  0 <= ea -> 0 < n -> ea mod n = 0 -> ea + n <= zlen m ->
  exists m', run (whole m) (ARmw op ea n v) = ODone (whole m') (sub m ea n) /\ length m' = length m /\
             (forall x, 0 <= x -> ~ (ea <= x < ea + n) -> nthZ m' x = nthZ m x) /\
             sub m' ea n = le_bytes (Z.to_nat n) (rmw_new op n (le_val (sub m ea n)) v).
Proof.
  intros H0 Hn Hal H1.
  assert (Ha : access_ok (zlen m) ea n = true) by (unfold access_ok; lia).
  set (bs := le_bytes (Z.to_nat n) (rmw_new op n (le_val (sub m ea n)) v)).
  assert (Hl : zlen bs = n) by (unfold zlen, bs; rewrite len_le_bytes; lia).
  assert (H1' : ea + zlen bs <= zlen m) by lia.
  destruct (whole_wr m ea bs H0 H1') as [Ew El].
  exists (splice m ea bs). cbn [run]. unfold atomic, guarded. rewrite Hal. cbn [Z.eqb whole v_size]. fold (whole m).
  rewrite Ha, (covers_whole _ _ _ Ha). cbv zeta. unfold vrd. cbn [whole v_win v_lo]. rewrite Z.sub_0_r.
  fold bs. fold (whole m). rewrite Ew. splits; [reflexivity|exact El| |].
  - intros x Hx Hout. rewrite nth_splice by assumption. rewrite Hl.
    destruct ((ea <=? x) && (x <? ea + n)) eqn:E; [lia|reflexivity].
  - unfold sub, splice.
    assert (Hf : length (firstn (Z.to_nat ea) m) = Z.to_nat ea) by (rewrite firstn_length; unfold zlen in *; lia).
    rewrite skipn_app, Hf, Nat.sub_diag. rewrite skipn_all2 by lia. cbn [skipn app].
    rewrite firstn_app. replace (Z.to_nat n - length bs)%nat with 0%nat by (unfold zlen in Hl; lia).
    cbn [firstn]. rewrite app_nil_r. apply firstn_all2. unfold zlen in Hl. lia.
Qed.

(* the model's bounds predicate IS the test both engines emit (Engine/Bounds.v, Proofs/BoundsP.v) *)
Lemma access_ok_is_the_engines_check memLen base off size :
  0 <= memLen <= 2 ^ 32 -> 0 <= base < 2 ^ 32 -> 0 <= off < 2 ^ 32 -> 0 < size <= 16 ->
  compiler_pass memLen base off size = access_ok memLen (eff_addr base off) size /\
  interp_pass memLen base off size = access_ok memLen (eff_addr base off) size.
Proof.
  intros Hm Hb Ho Hs.
  pose proof (compiler_check_exact memLen base off size Hm Hb Ho Hs) as Hc.
  pose proof (interp_check_exact memLen base off size Hm Hb Ho Hs) as Hi.
  unfold access_ok, eff_addr.
  destruct (compiler_pass memLen base off size), (interp_pass memLen base off size);
    destruct ((0 <=? base + off) && (0 <=? size) && (base + off + size <=? memLen)) eqn:E; split; try reflexivity;
    exfalso; intuition lia.
Qed.

(* ---- non-vacuity: concrete instances (a memory of 8 bytes stands for the end of any memory) ---- *)
Example ex_store_last_position :
  run (whole [1; 2; 3; 4; 5; 6; 7; 8]) (AStore 4 [9; 9; 9; 9]) = ODone (whole [1; 2; 3; 4; 9; 9; 9; 9]) [].
Proof. vm_compute. reflexivity. Qed.
Example ex_store_first_oob_position :
  run (whole [1; 2; 3; 4; 5; 6; 7; 8]) (AStore 5 [9; 9; 9; 9]) = OTrap AOob.
Proof. vm_compute. reflexivity. Qed.
Example ex_load_offset_above_2_31 :   (* base 2^32-4 + offset 2^31+8: no wrap-around to address 4 *)
  run (whole [1; 2; 3; 4; 5; 6; 7; 8]) (ALoad (eff_addr 4294967292 2147483656) 1) = OTrap AOob.
Proof. vm_compute. reflexivity. Qed.
Example ex_copy_overlap_up :
  run (whole [1; 2; 3; 4; 5; 6; 7; 8]) (ACopy 2 0 6) = ODone (whole [1; 2; 1; 2; 3; 4; 5; 6]) [].
Proof. vm_compute. reflexivity. Qed.
Example ex_copy_overlap_down :
  run (whole [1; 2; 3; 4; 5; 6; 7; 8]) (ACopy 0 2 6) = ODone (whole [3; 4; 5; 6; 7; 8; 7; 8]) [].
Proof. vm_compute. reflexivity. Qed.
Example ex_copy_oob_no_partial_write :
  run (whole [1; 2; 3; 4; 5; 6; 7; 8]) (ACopy 4 0 5) = OTrap AOob /\ run (whole [1; 2; 3; 4; 5; 6; 7; 8]) (AFill 8 0 1) = OTrap AOob
  /\ run (whole [1; 2; 3; 4; 5; 6; 7; 8]) (AFill 8 0 0) = ODone (whole [1; 2; 3; 4; 5; 6; 7; 8]) []
  /\ run (whole [1; 2; 3; 4; 5; 6; 7; 8]) (AFill 9 0 0) = OTrap AOob.
Proof. vm_compute. auto. Qed.
Example ex_init :
  run (whole [1; 2; 3; 4; 5; 6; 7; 8]) (AInit [10; 11; 12] 6 1 2) = ODone (whole [1; 2; 3; 4; 5; 6; 11; 12]) [] /\
  run (whole [1; 2; 3; 4; 5; 6; 7; 8]) (AInit [10; 11; 12] 0 2 2) = OTrap AOob.
Proof. vm_compute. auto. Qed.
Example ex_atomic :
  run (whole [1; 2; 3; 4; 5; 6; 7; 8]) (ARmw RAdd 4 4 (2 ^ 32 - 1)) = ODone (whole [1; 2; 3; 4; 4; 6; 7; 8]) [5; 6; 7; 8] /\
  run (whole [1; 2; 3; 4; 5; 6; 7; 8]) (ARmw RAdd 2 4 1) = OTrap AUnaligned /\
  run (whole [1; 2; 3; 4; 5; 6; 7; 8]) (ARmw RAdd 6 4 1) = OTrap AOob /\
  run (whole [1; 2; 3; 4; 5; 6; 7; 8]) (ARmw RAdd 8 4 1) = OTrap AOob /\
  run (whole [1; 2; 3; 4; 5; 6; 7; 8]) (ACmpxchg 6 2 (7 + 256 * 8) 513) = ODone (whole [1; 2; 3; 4; 5; 6; 1; 2]) [7; 8] /\
  atomic_ea_width (ARmw RAdd 2 4 1) = Some (2, 4) /\ 2 mod 4 <> 0.
Proof. vm_compute. splits; try reflexivity. discriminate. Qed.
Example ex_touched :
  touched (whole [1; 2; 3; 4; 5; 6; 7; 8]) (ACopy 6 1 2) = [1; 2; 6; 7] /\ touched (whole [1; 2; 3; 4; 5; 6; 7; 8]) (ALoad 7 2) = [].
Proof. vm_compute. auto. Qed.
Example ex_shapes :
  shape_bytes (SSext 4) [128] = [128; 255; 255; 255] /\ shape_bytes (SLanes 1 true) [1; 255] = [1; 0; 255; 255] /\
  shape_bytes SSplat [1; 2; 3; 4; 5; 6; 7; 8] = [1; 2; 3; 4; 5; 6; 7; 8; 1; 2; 3; 4; 5; 6; 7; 8] /\
  shape_bytes (SLane [0; 0; 0; 0; 0; 0; 0; 0; 0; 0; 0; 0; 0; 0; 0; 0] 3) [7; 8] = [0; 0; 0; 0; 0; 0; 7; 8; 0; 0; 0; 0; 0; 0; 0; 0] /\
  hex "00ff7a" = [0; 255; 122].
Proof. vm_compute. splits; reflexivity. Qed.
(* the window: the last 4 bytes of a 65536-byte memory are known; a store into them, a trap next to them *)
Example ex_check_gcase :
  check_gcase {| g_mem := {| v_size := 65536; v_lo := 65532; v_win := [5; 6; 7; 8] |};
                 g_ops := [OAcc (ALoad 65534 2) (SZext 4); OAcc (AStore 65532 [9; 9; 9; 9]) SRaw];
                 g_trap := 0; g_res := [7; 8; 0; 0]; g_diff := at_from 65532 [9; 9; 9; 9]; g_size := 65536 |} = 0 /\
  check_gcase {| g_mem := {| v_size := 65536; v_lo := 65532; v_win := [5; 6; 7; 8] |};
                 g_ops := [OAcc (AStore 65533 [9; 9; 9; 9]) SRaw];
                 g_trap := 0; g_res := []; g_diff := at_from 65533 [9; 9; 9]; g_size := 65536 |} = 1 /\
  check_gcase {| g_mem := {| v_size := 65536; v_lo := 65532; v_win := [5; 6; 7; 8; 0; 0] |};
                 g_ops := [OGrow 1 2; OAcc (AStore 65533 [9; 9; 9; 9]) SRaw];
                 g_trap := 0; g_res := [1; 0; 0; 0]; g_diff := at_from 65533 [9; 9; 9; 9]; g_size := 131072 |} = 0.
Proof. vm_compute. splits; reflexivity. Qed.
