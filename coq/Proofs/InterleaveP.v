(* C11 at the level of histories: calls into two groups of instances A and B with disjoint footprints are
   interleaved in an arbitrary schedule on one store.  The outcomes of A's calls in the interleaved run are, call by
   call, those of the run that makes A's calls only (same kind of outcome, same trap, same values and locals, stores
   that agree on A's footprint): A behaves exactly as if B did not exist.  Follows from the frame theorem (B's calls
   leave A's footprint alone) and the non-interference theorem (A's calls depend on A's footprint only), by induction
   over the schedule. *)
From Coq Require Import ZArith List Bool Lia.
From Verif Require Import Wasm.Numerics Wasm.Sem Proofs.SemP Proofs.SemRelP.
Import ListNotations.
Open Scope Z_scope.

Section Interleave.
Variable D : domain.
Variable host : nat -> list (val D) -> hostres (val D).
Variable listened : nat -> bool.
Variable maxdepth : nat.
Variable s0 : store D.
Variables FmA FgA FmB FgB : nat -> Prop.

Hypothesis disjoint_mem : forall a, FmA a -> FmB a -> False.
Hypothesis disjoint_glob : forall g, FgA g -> FgB g -> False.

Hypothesis closedA_call : forall ii k fa ci tp tr nl body, okfp D s0 FmA FgA ii ->
  nth_error (i_funcs (the_inst D s0 ii)) k = Some fa -> nth_error (s_funcs s0) fa = Some (FWasm ci tp tr nl body) -> okfp D s0 FmA FgA ci.
Hypothesis closedA_indirect : forall ii ta fa ci tp tr nl body, okfp D s0 FmA FgA ii ->
  i_tab (the_inst D s0 ii) = Some ta -> In (Some fa) (nth ta (s_tabs s0) []) ->
  nth_error (s_funcs s0) fa = Some (FWasm ci tp tr nl body) -> okfp D s0 FmA FgA ci.
Hypothesis closedA_reenter : forall h args g gargs ci tp tr nl body,
  host h args = HReenter g gargs -> nth_error (s_funcs s0) g = Some (FWasm ci tp tr nl body) -> okfp D s0 FmA FgA ci.
Hypothesis closedB_call : forall ii k fa ci tp tr nl body, okfp D s0 FmB FgB ii ->
  nth_error (i_funcs (the_inst D s0 ii)) k = Some fa -> nth_error (s_funcs s0) fa = Some (FWasm ci tp tr nl body) -> okfp D s0 FmB FgB ci.
Hypothesis closedB_indirect : forall ii ta fa ci tp tr nl body, okfp D s0 FmB FgB ii ->
  i_tab (the_inst D s0 ii) = Some ta -> In (Some fa) (nth ta (s_tabs s0) []) ->
  nth_error (s_funcs s0) fa = Some (FWasm ci tp tr nl body) -> okfp D s0 FmB FgB ci.
Hypothesis closedB_reenter : forall h args g gargs ci tp tr nl body,
  host h args = HReenter g gargs -> nth_error (s_funcs s0) g = Some (FWasm ci tp tr nl body) -> okfp D s0 FmB FgB ci.

(* one call from the embedder: which instance, with which frame and code, how much fuel and depth *)
Record call := { c_fuel : nat; c_depth : nat; c_ii : nat; c_f : frame D; c_is : list instr }.

Definition do_call (s : store D) (c : call) : out D :=
  exec D host listened maxdepth (c_fuel c) (c_depth c) (c_ii c) s (c_f c) (c_is c).

Definition store_of (o : out D) : option (store D) :=
  match o with Normal s _ | Branch _ s _ | Ret s _ | Trap _ s => Some s | OutOfFuel => None end.

(* a schedule: calls tagged true (group A) or false (group B); the run threads the store through the calls and stops
   at a call the model cannot finish (OutOfFuel) *)
Fixpoint run (s : store D) (cs : list (bool * call)) : list (bool * out D) :=
  match cs with
  | [] => []
  | (tag, c) :: r =>
      let o := do_call s c in
      (tag, o) :: match store_of o with Some s' => run s' r | None => [] end
  end.

Definition outs_of (tag : bool) (l : list (bool * out D)) : list (out D) :=
  map snd (filter (fun e => Bool.eqb (fst e) tag) l).
Definition calls_of (tag : bool) (cs : list (bool * call)) : list (bool * call) :=
  filter (fun e => Bool.eqb (fst e) tag) cs.

(* every call is made in an instance of its group *)
Definition well_tagged (cs : list (bool * call)) : Prop :=
  forall tag c, In (tag, c) cs ->
    if tag then okfp D s0 FmA FgA (c_ii c) else okfp D s0 FmB FgB (c_ii c).

Definition finished (l : list (bool * out D)) : Prop := forall tag, ~ In (tag, @OutOfFuel D) l.

Definition all_done (l : list (bool * out D)) : bool :=
  forallb (fun e => match snd e with OutOfFuel => false | _ => true end) l.
Lemma all_done_finished l : all_done l = true -> finished l.
Proof.
  intros H tag Hin. unfold all_done in H. rewrite forallb_forall in H. apply H in Hin. cbn in Hin. discriminate.
Qed.

Notation agreeA := (agree D FmA FgA).
Notation relA := (out_rel D D eq agreeA).

Lemma agree_after_B s sA s' :
  agreeA s sA -> frame_R D FmB FgB s s' -> agreeA s' sA.
Proof.
  intros ((C1 & C2 & C3) & Hm & Hg) ((S1 & S2 & S3) & Fm' & Fg').
  unfold agree, code_eq. repeat split; try congruence.
  - intros a Ha. rewrite Fm' by (intro Hb; exact (disjoint_mem a Ha Hb)). apply Hm, Ha.
  - intros g Hgg. rewrite Fg' by (intro Hb; exact (disjoint_glob g Hgg Hb)). apply Hg, Hgg.
Qed.

Lemma out_R_store R s o s' : out_R D R s o -> store_of o = Some s' -> R s s'.
Proof. destruct o; cbn; intros H E; inversion E; subst; exact H. Qed.

Lemma rel_store o1 o2 : relA o1 o2 ->
  match store_of o1, store_of o2 with
  | Some a, Some b => agreeA a b
  | None, None => True
  | _, _ => False
  end.
Proof. destruct o1, o2; cbn; intros H; try contradiction; try exact I; intuition. Qed.

Lemma same_code_trans' a b c : same_code D a b -> same_code D b c -> same_code D a c.
Proof. intros (A1 & A2 & A3) (B1 & B2 & B3). unfold same_code. repeat split; congruence. Qed.

(* the interleaved run's A-outcomes against the run of A's calls alone, from stores that agree on A's footprint *)
Lemma interleave_gen cs : forall s sA,
  well_tagged cs -> same_code D s0 s -> same_code D s0 sA -> agreeA s sA ->
  finished (run s cs) ->
  Forall2 relA (outs_of true (run s cs)) (map snd (run sA (calls_of true cs))).
Proof.
  induction cs as [|[tag c] r IH]; intros s sA Hw Hs HsA Hag Hfin; [constructor|].
  assert (Hw' : well_tagged r) by (intros t c' Hin; apply Hw; right; exact Hin).
  pose proof (Hw tag c (or_introl eq_refl)) as Hc.
  cbn [run]. destruct tag.
  - (* a call of A: lock step *)
    cbn [calls_of filter fst Bool.eqb]. cbn [run].
    assert (Hrel : relA (do_call s c) (do_call sA c)).
    { unfold do_call. apply (exec_noninterference D host listened maxdepth s0 FmA FgA closedA_call closedA_indirect closedA_reenter).
      - split; assumption.
      - exact Hag. }
    pose proof (exec_frame D host listened maxdepth s0 FmA FgA closedA_call closedA_indirect closedA_reenter
                  (c_fuel c) (c_depth c) (c_ii c) s (c_f c) (c_is c) (conj Hs Hc)) as Hf1.
    pose proof (exec_frame D host listened maxdepth s0 FmA FgA closedA_call closedA_indirect closedA_reenter
                  (c_fuel c) (c_depth c) (c_ii c) sA (c_f c) (c_is c) (conj HsA Hc)) as Hf2.
    fold (do_call s c) in Hf1. fold (do_call sA c) in Hf2.
    pose proof (rel_store _ _ Hrel) as Hst.
    unfold outs_of. cbn [filter fst Bool.eqb map snd].
    constructor; [exact Hrel|].
    destruct (store_of (do_call s c)) as [s'|] eqn:E1; destruct (store_of (do_call sA c)) as [sA'|] eqn:E2; try contradiction.
    + apply IH; auto.
      * eapply same_code_trans'; [exact Hs|]. exact (proj1 (out_R_store _ _ _ _ Hf1 E1)).
      * eapply same_code_trans'; [exact HsA|]. exact (proj1 (out_R_store _ _ _ _ Hf2 E2)).
      * intros t Hin. apply (Hfin t). cbn [run]. right. rewrite E1. exact Hin.
    + (* the model ran out of fuel: excluded *)
      exfalso. destruct (do_call s c) eqn:Eo; cbn in E1; try discriminate.
      apply (Hfin true). cbn [run]. left. rewrite Eo. reflexivity.
  - (* a call of B: A's footprint is untouched *)
    cbn [calls_of filter fst Bool.eqb].
    pose proof (exec_frame D host listened maxdepth s0 FmB FgB closedB_call closedB_indirect closedB_reenter
                  (c_fuel c) (c_depth c) (c_ii c) s (c_f c) (c_is c) (conj Hs Hc)) as Hf1.
    fold (do_call s c) in Hf1.
    unfold outs_of. cbn [filter fst Bool.eqb].
    destruct (store_of (do_call s c)) as [s'|] eqn:E1.
    + pose proof (out_R_store _ _ _ _ Hf1 E1) as HR.
      apply IH; auto.
      * eapply same_code_trans'; [exact Hs|]. exact (proj1 HR).
      * eapply agree_after_B; eassumption.
      * intros t Hin. apply (Hfin t). cbn [run]. right. rewrite E1. exact Hin.
    + exfalso. destruct (do_call s c) eqn:Eo; cbn in E1; try discriminate.
      apply (Hfin false). cbn [run]. left. rewrite Eo. reflexivity.
Qed.

Lemma agree_refl s : agreeA s s.
Proof. unfold agree, code_eq. repeat split; reflexivity. Qed.

(* from one store: A's outcomes in ANY interleaving with B's calls are its outcomes alone *)
Theorem interleaved_as_alone s cs :
  same_code D s0 s -> well_tagged cs -> finished (run s cs) ->
  Forall2 relA (outs_of true (run s cs)) (map snd (run s (calls_of true cs))).
Proof. intros Hs Hw Hf. apply interleave_gen; auto. apply agree_refl. Qed.

End Interleave.

(* ------------------------------------------------------------------------------------------ *)
(* non-vacuity: two instances with their own memory and global; a schedule A B A B A             *)
Definition ix_bump : list instr := [GlobalGet 0; Const 32 1; Bin (BInt 32 Add); GlobalSet 0; GlobalGet 0].
Definition ix_store : store Spec :=
  Build_store Spec
    [FWasm 0 [] [32] 0 ix_bump; FWasm 1 [] [32] 0 ix_bump]
    [{| i_funcs := [0%nat]; i_globals := [0%nat]; i_mem := Some 0%nat; i_tab := None; i_types := [([], [32])] |};
     {| i_funcs := [1%nat]; i_globals := [1%nat]; i_mem := Some 1%nat; i_tab := None; i_types := [([], [32])] |}]
    ([10; 20] : list Z)
    [{| mlen := 65536; mmax := 1; mdata := [] |}; {| mlen := 65536; mmax := 1; mdata := [] |}]
    [] [].
Definition ix_host (h : nat) (args : list Z) : hostres Z := HRet [].
Definition ix_call (ii : nat) : call Spec :=
  {| c_fuel := 20; c_depth := 0; c_ii := ii; c_f := {| stack := []; locals := [] |}; c_is := [Call 0] |}.
Definition ix_sched : list (bool * call Spec) :=
  [(true, ix_call 0); (false, ix_call 1); (true, ix_call 0); (false, ix_call 1); (true, ix_call 0)].
Definition ix_top (o : out Spec) : option Z := match o with Normal _ f => hd_error (stack f) | _ => None end.

(* A's three calls return 11, 12, 13 in the interleaved run and alone; B's return 21, 22 *)
Example ix_values :
  map ix_top (outs_of Spec true (run Spec ix_host (fun _ => false) 100 ix_store ix_sched)) = [Some 11; Some 12; Some 13] /\
  map ix_top (outs_of Spec false (run Spec ix_host (fun _ => false) 100 ix_store ix_sched)) = [Some 21; Some 22] /\
  map ix_top (map snd (run Spec ix_host (fun _ => false) 100 ix_store (calls_of Spec true ix_sched))) = [Some 11; Some 12; Some 13].
Proof. vm_compute. repeat split; reflexivity. Qed.

(* ... and the theorem applies to it: its hypotheses hold for this store, these footprints and this schedule *)
Definition ixFA (a : nat) : Prop := a = 0%nat.
Definition ixFB (a : nat) : Prop := a = 1%nat.

Lemma ix_closed_call (F : nat -> Prop) (me other : nat) : (F = ixFA /\ me = 0%nat \/ F = ixFB /\ me = 1%nat) ->
  forall ii k fa ci tp tr nl body, okfp Spec ix_store F F ii ->
  nth_error (i_funcs (the_inst Spec ix_store ii)) k = Some fa -> nth_error (s_funcs ix_store) fa = Some (FWasm ci tp tr nl body) ->
  okfp Spec ix_store F F ci.
Proof.
  intros HF ii k fa ci tp tr nl body Hok Hk Hf.
  destruct ii as [|[|ii]].
  - change (nth_error [0%nat] k = Some fa) in Hk. destruct k as [|k]; [|destruct k; discriminate].
    injection Hk as <-. change (Some (FWasm 0 [] [32] 0 ix_bump) = Some (FWasm ci tp tr nl body)) in Hf. injection Hf as <- _ _ _ _. exact Hok.
  - change (nth_error [1%nat] k = Some fa) in Hk. destruct k as [|k]; [|destruct k; discriminate].
    injection Hk as <-. change (Some (FWasm 1 [] [32] 0 ix_bump) = Some (FWasm ci tp tr nl body)) in Hf. injection Hf as <- _ _ _ _. exact Hok.
  - destruct ii; change (nth_error (@nil nat) k = Some fa) in Hk; destruct k; discriminate.
Qed.

Example ix_theorem_applies :
  Forall2 (out_rel Spec Spec eq (agree Spec ixFA ixFA))
    (outs_of Spec true (run Spec ix_host (fun _ => false) 100 ix_store ix_sched))
    (map snd (run Spec ix_host (fun _ => false) 100 ix_store (calls_of Spec true ix_sched))).
Proof.
  apply (interleaved_as_alone Spec ix_host (fun _ => false) 100 ix_store ixFA ixFA ixFB ixFB).
  - unfold ixFA, ixFB. intros a -> H. discriminate.
  - unfold ixFA, ixFB. intros a -> H. discriminate.
  - apply (ix_closed_call ixFA 0 1). left. auto.
  - intros ii ta fa ci tp tr nl body _ Ht. destruct ii as [|[|[|ii]]]; cbn in Ht; discriminate.
  - intros h args g gargs ci tp tr nl body Hh. discriminate.
  - apply (ix_closed_call ixFB 1 0). right. auto.
  - intros ii ta fa ci tp tr nl body _ Ht. destruct ii as [|[|[|ii]]]; cbn in Ht; discriminate.
  - intros h args g gargs ci tp tr nl body Hh. discriminate.
  - unfold same_code. repeat split.
  - intros tag c Hin. unfold ix_sched in Hin. cbn [In] in Hin.
    repeat (destruct Hin as [Hin|Hin]; [inversion Hin; subst; unfold okfp, ixFA, ixFB; cbn; split;
      [intros ma E; inversion E; reflexivity | intros [|k] ga E; cbn in E; [inversion E; reflexivity|destruct k; discriminate]] |]).
    contradiction.
  - apply all_done_finished. vm_compute. reflexivity.
Qed.
