(* C20: the events of a listened call carry the ACTUAL parameters and results: whatever else happens in between, the
   invocation of a listened function with arguments [args] appends  EBefore fa args :: mid ++ [EAfter fa vs]  where
   [vs] are exactly the values handed back to the caller (or  ... ++ [EAbort fa]  when it traps), [mid] well bracketed.
   An invocation of a function that is not listened appends a well-bracketed list only. *)
From Coq Require Import ZArith List Bool Lia.
From Verif Require Import Wasm.Numerics Wasm.Sem Proofs.SemP.
Import ListNotations.
Open Scope Z_scope.

Section LV.
Variable D : domain.
Variable host : nat -> list (val D) -> hostres (val D).
Variable listened : nat -> bool.
Variable maxdepth : nat.

Notation exec := (exec D host listened maxdepth).
Notation brk := (brk_R D).
Notation bal := (balanced D).

Lemma run_body_brk fu depth ci s args nr nl body :
  match run_body D (exec fu) depth ci s args nr nl body with
  | IOk s' _ | ITrap _ s' => brk s s'
  | IFuel => True
  end.
Proof.
  unfold run_body.
  pose proof (exec_bracketed D host listened maxdepth fu depth ci s {| stack := []; locals := args ++ zeros D nl |} body) as H.
  destruct (exec fu depth ci s _ body); cbn in *; auto.
Qed.

Lemma bracket_brk fa args s k :
  (forall s0, match k s0 with IOk s' _ | ITrap _ s' => brk s0 s' | IFuel => True end) ->
  match bracket D listened fa args s k with IOk s' _ | ITrap _ s' => brk s s' | IFuel => True end.
Proof.
  intros Hk. unfold bracket. destruct (listened fa); [|apply Hk].
  pose proof (Hk (add_log D s (EBefore fa args))) as H.
  destruct (k (add_log D s (EBefore fa args))) as [s' vs|t s'|]; auto.
  - eapply brk_R_after; exact H.
  - eapply brk_R_abort; exact H.
Qed.

(* the part of an invocation between its Before and its After/Abort *)
Definition inner fu depth fa args (s0 : store D) : ires D :=
  if Nat.ltb maxdepth depth then ITrap TExhaust s0 else
  match nth_error (s_funcs s0) fa with
  | None => ITrap TStuck s0
  | Some (FWasm ci tp tr nl body) => run_body D (exec fu) (S depth) ci s0 args (length tr) nl body
  | Some (FHost h tp tr) =>
      let s1 := add_log D s0 (EHost h args) in
      match host h args with
      | HRet vs => IOk s1 vs
      | HPanic c => ITrap (THostPanic c) s1
      | HExit c => ITrap (TExit c) s1
      | HReenter g gargs =>
          match nth_error (s_funcs s1) g with
          | Some (FWasm ci gtp gtr gnl gbody) =>
              bracket D listened g gargs s1 (fun s2 => run_body D (exec fu) (S (S depth)) ci s2 gargs (length gtr) gnl gbody)
          | _ => ITrap TStuck s1
          end
      end
  end.

Lemma invoke_is_bracket_inner fu depth s fa args :
  invoke_with D host listened maxdepth (exec fu) depth s fa args = bracket D listened fa args s (inner fu depth fa args).
Proof. reflexivity. Qed.

Lemma inner_brk fu depth fa args s0 :
  match inner fu depth fa args s0 with IOk s' _ | ITrap _ s' => brk s0 s' | IFuel => True end.
Proof.
  unfold inner. destruct (Nat.ltb maxdepth depth); [apply brk_R_refl|].
  destruct (nth_error (s_funcs s0) fa) as [[ci tp tr nl body|h tp tr]|]; [| |apply brk_R_refl].
  - apply run_body_brk.
  - cbv zeta. destruct (host h args) as [vs|c|c|g gargs]; try apply brk_R_host.
    destruct (nth_error (s_funcs (add_log D s0 (EHost h args))) g) as [[ci gtp gtr gnl gbody|? ? ?]|]; try apply brk_R_host.
    pose proof (bracket_brk g gargs (add_log D s0 (EHost h args))
                  (fun s2 => run_body D (exec fu) (S (S depth)) ci s2 gargs (length gtr) gnl gbody)
                  (fun s2 => run_body_brk fu (S (S depth)) ci s2 gargs (length gtr) gnl gbody)) as H.
    destruct (bracket D listened g gargs _ _) as [s' vs|t s'|]; auto;
      (eapply brk_R_trans; [apply brk_R_host|exact H]).
Qed.

Theorem invoke_events fu depth s fa args :
  match invoke_with D host listened maxdepth (exec fu) depth s fa args with
  | IOk s' vs =>
      if listened fa
      then exists mid, s_log s' = s_log s ++ EBefore fa args :: mid ++ [EAfter fa vs] /\ bal mid
      else exists l, s_log s' = s_log s ++ l /\ bal l
  | ITrap t s' =>
      if listened fa
      then exists mid, s_log s' = s_log s ++ EBefore fa args :: mid ++ [EAbort fa] /\ bal mid
      else exists l, s_log s' = s_log s ++ l /\ bal l
  | IFuel => True
  end.
Proof.
  rewrite invoke_is_bracket_inner. unfold bracket. destruct (listened fa).
  - pose proof (inner_brk fu depth fa args (add_log D s (EBefore fa args))) as H.
    destruct (inner fu depth fa args (add_log D s (EBefore fa args))) as [s' vs|t s'|]; [| |exact I];
      destruct H as [_ (mid & E & B)]; exists mid; cbn [add_log set_log s_log] in *; rewrite E, <- !app_assoc; cbn; auto.
  - pose proof (inner_brk fu depth fa args s) as H.
    destruct (inner fu depth fa args s) as [s' vs|t s'|]; [| |exact I]; destruct H as [_ H]; exact H.
Qed.

(* the same for a whole export call: the results returned to the embedder are the ones in the After event *)
Theorem call_export_events fuel s fa args tp tr ci nl body :
  nth_error (s_funcs s) fa = Some (FWasm ci tp tr nl body) -> listened fa = true ->
  match call_export D host listened maxdepth fuel s fa args with
  | (s', RVals vs) => exists mid ws, s_log s' = s_log s ++ EBefore fa (rev (firstn (length tp) (rev args))) :: mid ++ [EAfter fa ws] /\ bal mid /\
                                     vs = rev (firstn (length tr) (rev ws ++ skipn (length tp) (rev args)))
  | (s', RTrap t) => t = TStuck \/ exists mid, s_log s' = s_log s ++ EBefore fa (rev (firstn (length tp) (rev args))) :: mid ++ [EAbort fa] /\ bal mid
  | (_, RFuel) => True
  end.
Proof.
  intros Hn Hl. unfold call_export. rewrite Hn.
  set (drv := {| i_funcs := [fa]; i_globals := []; i_mem := None; i_tab := None; i_types := [] |}).
  set (s1 := {| s_funcs := s_funcs s; s_insts := s_insts s ++ [drv]; s_globals := s_globals s; s_mems := s_mems s;
                s_tabs := s_tabs s; s_log := s_log s |}).
  destruct fuel as [|fu]; [exact I|].
  cbn [Sem.exec].
  assert (Hs : step_simple D (length (s_insts s)) s1 {| stack := rev args; locals := [] |} (Call 0) = SNot) by reflexivity.
  rewrite Hs.
  assert (Hme : the_inst D s1 (length (s_insts s)) = drv).
  { unfold the_inst, s1. cbn [s_insts]. rewrite app_nth2, Nat.sub_diag; [reflexivity|lia]. }
  rewrite Hme. unfold drv at 1. cbn [i_funcs]. change (nth_error [fa] 0) with (Some fa). cbv beta iota.
  assert (Hn1 : nth_error (s_funcs s1) fa = Some (FWasm ci tp tr nl body)) by exact Hn.
  rewrite Hn1. cbn [stack].
  pose proof (invoke_events fu 0 s1 fa (rev (firstn (length tp) (rev args)))) as H.
  rewrite Hl in H.
  destruct (invoke_with D host listened maxdepth (exec fu) 0 s1 fa (rev (firstn (length tp) (rev args)))) as [s' ws|t s'|].
  - destruct fu as [|fu']; [exact I|]. cbn [Sem.exec]. cbn [stack setstack].
    destruct H as (mid & E & B). exists mid, ws. cbn [s_log] in *. split; [exact E|]. split; [exact B|reflexivity].
  - right. destruct H as (mid & E & B). exists mid. cbn [s_log] in *. split; [exact E|exact B].
  - exact I.
Qed.

End LV.
