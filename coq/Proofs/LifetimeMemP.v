(* C09, shared memories: proofs about coq/Engine/LifetimeMem.v.
   (a) views_coherent: under a notification that skips nobody, every cached view equals the memory's current
       (buffer, size) in every reachable state;
   (b) closed_definer_view_stale: if closed instances are skipped there is a history after which a live importer
       calling the closed definer's functions sees a stale size, a freed buffer and a trap on its own address;
   (c) twin_agrees: closes, drops and collections in any order do not change what is observed through shared
       memories and globals: every observation equals the one of a twin world that performs the same calls
       without them, or is an ordinary error; no access ever touches a freed buffer. *)
From Coq Require Import List ZArith Bool Arith Lia.
From Verif Require Import Engine.Lifetime Engine.LifetimeMem Proofs.LifetimeP.
Import ListNotations.
Local Open Scope Z_scope.

Ltac splits := repeat match goal with |- _ /\ _ => split end.
Ltac msimpl := cbn [ms_insts ms_mems ms_bufs ms_globs ms_handle ms_name ms_flight with_insts with_mems with_bufs
                    with_globs with_handle with_name with_mflight fst snd] in *.

(* ------------------------------------------------------------------------------------------ *)
(* lists *)
Lemma nth_updl : forall A (l : list A) i f j d,
  nth j (updl l i f) d = if Nat.eqb i j && (j <? length l)%nat then f (nth j l d) else nth j l d.
Proof.
  induction l as [|a l IH]; intros i f j d; simpl.
  - destruct j; rewrite andb_false_r; reflexivity.
  - destruct i, j; simpl; auto.
    rewrite IH. reflexivity.
Qed.

Lemma length_updl : forall A (l : list A) i f, length (updl l i f) = length l.
Proof. induction l; intros [|i] f; simpl; auto. Qed.

Lemma map_updl : forall A B (g : A -> B) (l : list A) i f f',
  (forall a, g (f a) = f' (g a)) -> map g (updl l i f) = updl (map g l) i f'.
Proof. induction l; intros [|i] f f' H; simpl; auto; rewrite ?H; f_equal; auto. Qed.

Lemma map_updl_id : forall A B (g : A -> B) (l : list A) i f,
  (forall a, g (f a) = g a) -> map g (updl l i f) = map g l.
Proof. induction l; intros [|i] f H; simpl; auto; rewrite ?H; f_equal; auto. Qed.

Lemma In_updl : forall A (l : list A) i f x, In x (updl l i f) -> In x l \/ exists y, In y l /\ x = f y.
Proof.
  induction l as [|a l IH]; intros [|i] f x H; simpl in *; auto.
  - destruct H as [H | H]; eauto.
  - destruct H as [H | H]; auto. apply IH in H. destruct H as [H | [y [H1 H2]]]; eauto.
Qed.

Lemma nth_set_nth : forall A (l : list A) k v j d,
  nth j (set_nth l k v) d = if Nat.eqb k j && (j <? length l)%nat then v else nth j l d.
Proof.
  induction l as [|a l IH]; intros k v j d; simpl.
  - destruct j; rewrite andb_false_r; reflexivity.
  - destruct k, j; simpl; auto. rewrite IH; reflexivity.
Qed.

Lemma length_set_nth : forall A (l : list A) k v, length (set_nth l k v) = length l.
Proof. induction l; intros [|k] v; simpl; auto. Qed.

Lemma nth_app_new : forall A (l : list A) a d, nth (length l) (l ++ [a]) d = a.
Proof. intros. rewrite app_nth2, Nat.sub_diag; auto. Qed.

Lemma nth_app_old : forall A (l : list A) a d j, (j < length l)%nat -> nth j (l ++ [a]) d = nth j l d.
Proof. intros; apply app_nth1; auto. Qed.

(* ------------------------------------------------------------------------------------------ *)
(* (a) coherence *)

(* every cached view is registered and equals the memory's current buffer and size; memory ids are valid *)
Definition coh (s : mstate) : Prop :=
  forall i, In i (ms_insts s) -> forall mu, i_mem i = Some mu ->
    (mu < length (ms_mems s))%nat /\
    forall b l, i_view i = VCached b l ->
      i_reg i = true /\ b = m_buf (getm s mu) /\ l = m_pages (getm s mu).

Definition full (pol : policy) : Prop := p_skip_closed pol = false /\ p_register pol = true /\ p_free_on_close pol = false.

Lemma full_notified : forall pol i, full pol -> notified pol i = true.
Proof. intros pol i [H _]; unfold notified; rewrite H; reflexivity. Qed.

Lemma geti_In : forall s x, i_closed (geti s x) = false -> In (geti s x) (ms_insts s) /\ (x < length (ms_insts s))%nat.
Proof.
  intros s x H. unfold geti in *. destruct (lt_dec x (length (ms_insts s))) as [L | L].
  - split; auto. apply nth_In; auto.
  - rewrite nth_overflow in H by lia. discriminate.
Qed.

Lemma named_In : forall s j i, named s j = Some i ->
  In (geti s i) (ms_insts s) /\ (i < length (ms_insts s))%nat /\ i_closed (geti s i) = false /\ nth j (ms_name s) None = Some i.
Proof.
  unfold named; intros s j i H. destruct (nth j (ms_name s) None) as [i'|] eqn:E; [|discriminate].
  destruct (i_closed (geti s i')) eqn:C; inversion H; subst. destruct (geti_In s i C); auto.
Qed.

Lemma opt_eqb_spec : forall o mu, opt_eqb o mu = true <-> o = Some mu.
Proof.
  intros [x|] mu; simpl; split; intro H; try discriminate.
  - apply Nat.eqb_eq in H; subst; auto.
  - inversion H; apply Nat.eqb_refl.
Qed.

Lemma coh_grown : forall pol s mu n, full pol -> coh s -> coh (grown pol s mu n).
Proof.
  intros pol s mu n F C. unfold grown. intros i Hi mu' Hm. msimpl.
  apply in_map_iff in Hi. destruct Hi as [i0 [E Hi0]].
  rewrite full_notified, andb_true_r in E by auto.
  destruct (opt_eqb (i_mem i0) mu && i_reg i0) eqn:Q.
  - apply andb_true_iff in Q. destruct Q as [Q1 Q2]. apply opt_eqb_spec in Q1.
    subst i. cbn [set_view i_mem i_view i_reg] in *. rewrite Q1 in Hm. inversion Hm; subst mu'.
    destruct (C i0 Hi0 mu Q1) as [L _]. rewrite length_updl. split; auto.
    intros b l V. inversion V; subst. unfold getm; msimpl. rewrite nth_updl, Nat.eqb_refl.
    apply Nat.ltb_lt in L. rewrite L. cbn. auto.
  - subst i0. destruct (C i Hi0 mu' Hm) as [L V]. rewrite length_updl. split; auto.
    intros b l Hv. destruct (V b l Hv) as [V1 [V2 V3]]. split; auto.
    unfold getm in *; msimpl. rewrite nth_updl.
    destruct (Nat.eqb mu mu') eqn:Em; [|cbn; auto].
    apply Nat.eqb_eq in Em; subst mu'. rewrite V1, andb_true_r in Q.
    assert (opt_eqb (i_mem i) mu = true) by (apply opt_eqb_spec; auto). congruence.
Qed.

Lemma coh_grow : forall pol s mu n, full pol -> coh s -> coh (fst (do_grow pol s mu n)).
Proof.
  intros pol s mu n F C. unfold do_grow.
  destruct (n =? 0); [exact C|].
  destruct ((0 <? n) && (m_pages (getm s mu) + n <=? m_max (getm s mu))); [|exact C].
  destruct (b_freed (getb s (m_buf (getm s mu)))); [exact C|].
  cbn [fst]. apply coh_grown; auto.
Qed.

Lemma coh_same : forall s s', ms_insts s' = ms_insts s -> ms_mems s' = ms_mems s -> coh s -> coh s'.
Proof. unfold coh, getm; intros s s' E1 E2 C. rewrite E1, E2. exact C. Qed.

Lemma coh_store : forall s b l a v, coh s -> coh (fst (do_store s b l a v)).
Proof.
  intros; unfold do_store. destruct (in_bounds a l); [|auto]. destruct (b_freed (getb s b)); auto.
Qed.

Lemma coh_load : forall s b l a, fst (do_load s b l a) = s.
Proof. intros; unfold do_load. destruct (in_bounds a l); auto. destruct (b_freed (getb s b)); auto. Qed.

Lemma coh_access : forall pol s x thr k a1 a2, full pol -> coh s -> coh (fst (access pol s x thr k a1 a2)).
Proof.
  intros pol s x thr k a1 a2 F C. unfold access.
  destruct k; try (destruct (i_glob (geti s x)); cbn [fst]; auto; eapply coh_same; eauto; fail);
  destruct (view_of s x thr) as [[[mu b] l]|]; cbn [fst]; auto.
  - rewrite coh_load; auto.
  - apply coh_store; auto.
  - apply coh_grow; auto.
  - pose proof (coh_grow pol s mu a1 F C) as G. destruct (do_grow pol s mu a1) as [s1 o1]. cbn [fst] in G.
    destruct o1; cbn [fst]; auto;
    (destruct (view_of s1 x thr) as [[[mu1 b1] l1]|]; cbn [fst]; auto;
     pose proof (coh_store s1 b1 l1 (l1 * PAGE - 8) GROWST_VAL G) as G2;
     destruct (do_store s1 b1 l1 (l1 * PAGE - 8) GROWST_VAL) as [s2 o2]; cbn [fst] in G2; destruct o2; cbn [fst]; auto).
Qed.

Lemma coh_closed : forall s l, coh s ->
  (forall i, In i l -> In i (ms_insts s) \/ exists y, In y (ms_insts s) /\ i = set_iclosed y) ->
  coh (with_insts s l).
Proof.
  intros s l C H i Hi mu Hm. msimpl. unfold getm; msimpl.
  destruct (H i Hi) as [K | [y [K1 K2]]].
  - apply C; auto.
  - subst i. cbn [set_iclosed i_mem i_view i_reg] in *. apply (C y K1 mu Hm).
Qed.

Lemma resolve_src_mem : forall s src fresh mem own, coh s ->
  resolve_src s src i_mem fresh = Some (mem, own) ->
  (own = true -> mem = Some fresh) /\
  (own = false -> forall mu, mem = Some mu -> (mu < length (ms_mems s))%nat).
Proof.
  intros s src fresh mem own C H. destruct src as [| |j]; simpl in H.
  - inversion H; subst. split; [discriminate|]. intros _ mu K; discriminate.
  - inversion H; subst. split; auto. discriminate.
  - destruct (named s j) as [i|] eqn:N; [|discriminate].
    destruct (i_mem (geti s i)) as [mu|] eqn:M; inversion H; subst.
    split; [discriminate|]. intros _ mu' K; inversion K; subst.
    destruct (named_In s j i N) as [I _]. apply (C _ I mu' M).
Qed.

Lemma coh_minst : forall pol mods s m, full pol -> coh s -> coh (fst (minst pol mods s m)).
Proof.
  intros pol mods s m F C. unfold minst.
  destruct (nth_error mods m) as [mm|]; [|exact C].
  destruct (resolve_src s (mm_mem mm) i_mem (length (ms_mems s))) as [[mem ownm]|] eqn:RM; [|exact C].
  destruct (resolve_src s (mm_glob mm) i_glob (length (ms_globs s))) as [[gl owng]|]; [|exact C].
  destruct (resolve_acc s (mm_acc mm)) as [accs|]; [|exact C].
  destruct (resolve_src_mem s _ _ _ _ C RM) as [RO RI].
  match goal with |- coh (fst (let '(v, reg) := ?X in _)) => destruct X as [v reg] eqn:VR end.
  cbn [fst]. intros i Hi mu Hm. msimpl.
  assert (LM : (length (ms_mems s) <= length (if ownm then ms_mems s ++ [mkMem (length (ms_bufs s)) 1 (mm_max mm) (length (ms_insts s))] else ms_mems s))%nat)
    by (destruct ownm; rewrite ?app_length; simpl; lia).
  apply in_app_or in Hi. destruct Hi as [Hi | [Hi | []]].
  - destruct (C i Hi mu Hm) as [L V]. split; [lia|].
    intros b l Hv. destruct (V b l Hv) as [V1 [V2 V3]]. split; auto.
    unfold getm in *; msimpl. destruct ownm; auto. rewrite nth_app_old; auto.
  - subst i. cbn [i_mem i_view i_reg] in *. subst mem.
    destruct ownm.
    + specialize (RO eq_refl). inversion RO; subst mu. inversion VR; subst.
      rewrite app_length; simpl. split; [lia|]. intros b l Hv; inversion Hv; subst.
      unfold getm; msimpl. rewrite nth_app_new. auto.
    + specialize (RI eq_refl mu eq_refl). split; auto.
      intros b l Hv. subst v. destruct (mm_cache mm); inversion VR; subst.
      destruct F as [_ [F2 _]]. auto.
Qed.

Lemma free_except_length : forall l k keep, length (free_except k l keep) = length l.
Proof. induction l; intros; simpl; auto. Qed.

Lemma coh_mstep : forall pol mods s o, full pol -> coh s -> coh (fst (mstep pol mods s o)).
Proof.
  intros pol mods s o F C. pose proof F as [_ [_ F3]]. destruct o; cbn [mstep]; unfold close_inst; rewrite ?F3; cbn [andb].
  - apply coh_minst; auto.
  - destruct (nth m (ms_handle s) None); cbn [fst]; auto. apply coh_closed; auto. intros i Hi; apply In_updl in Hi; auto.
  - cbn [fst]. apply coh_closed; auto. intros i Hi. apply in_map_iff in Hi. destruct Hi as [y [H1 H2]]; eauto.
  - cbn [fst]. exact C.
  - cbn [fst]. unfold mgc. destruct (mark _ _ _ _); auto.
  - destruct (nth m (ms_handle s) None); cbn [fst]; auto.
  - destruct (ms_flight s) as [i|]; cbn [fst]; auto.
    destruct (target s i p k) as [[x k']|]; cbn [fst].
    + pose proof (coh_access pol s x false k' a1 a2 F C) as G. destruct (access pol s x false k' a1 a2); cbn [fst] in *.
      eapply coh_same; eauto.
    + eapply coh_same; eauto.
  - destruct (nth m (ms_handle s) None) as [i|]; cbn [fst]; auto.
    destruct (target s i p k) as [[x k']|]; cbn [fst]; auto.
    pose proof (coh_access pol s x false k' a1 a2 F C) as G. destruct (access pol s x false k' a1 a2); cbn [fst] in *; auto.
  - destruct (nth m (ms_handle s) None) as [i|]; cbn [fst]; auto. apply coh_access; auto.
  - exact C.
Qed.

Lemma mrun_fst : forall pol mods ops s P, P s ->
  (forall s o, P s -> P (fst (mstep pol mods s o))) -> P (fst (mrun pol mods s ops)).
Proof.
  induction ops as [|o ops IH]; intros s P H0 HS; simpl; auto.
  specialize (HS s o H0) as H1. destruct (mstep pol mods s o) as [s1 ob]. cbn [fst] in H1.
  specialize (IH s1 P H1 HS). destruct (mrun pol mods s1 ops); auto.
Qed.

Lemma coh_init : forall n, coh (minit n).
Proof. intros n i []. Qed.

Lemma coh_coherentb : forall s, coh s -> coherentb s = true.
Proof.
  intros s C. unfold coherentb. apply forallb_forall. intros i Hi. unfold coherent_inst.
  destruct (i_mem i) as [mu|] eqn:M; auto. destruct (i_view i) as [b l|] eqn:V; auto.
  destruct (C i Hi mu M) as [_ K]. destruct (K b l V) as [_ [K1 K2]]. subst. rewrite Nat.eqb_refl, Z.eqb_refl. auto.
Qed.

Theorem views_coherent : forall pol mods n ops,
  p_skip_closed pol = false -> p_register pol = true -> p_free_on_close pol = false ->
  let s := fst (mrun pol mods (minit n) ops) in
  coherentb s = true /\
  forall x mu b l, (x < length (ms_insts s))%nat -> i_mem (geti s x) = Some mu -> i_view (geti s x) = VCached b l ->
    b = m_buf (getm s mu) /\ l = m_pages (getm s mu).
Proof.
  intros pol mods n ops H1 H2 H3 s.
  assert (C : coh s).
  { apply mrun_fst; [apply coh_init|]. intros; apply coh_mstep; auto; unfold full; auto. }
  split; [apply coh_coherentb; auto|].
  intros x mu b l L M V. destruct (C (geti s x) (nth_In _ _ L) mu M) as [_ K]. destruct (K b l V) as [_ K2]. exact K2.
Qed.

(* ------------------------------------------------------------------------------------------ *)
(* (b) the notification skips closed instances: a stale view *)
Definition modsAB : list mmod :=
  [mkMM SOwn false 4 SNone []; mkMM (SImp 0%nat) false 4 SNone [(0%nat, KSize); (0%nat, KLoad)]].
(* A defines a memory; B imports it and A's msize / mload. B stores; A is closed and its handle dropped; B grows the
   memory and stores again; B reads through A's mload (before and after a collection), asks A's msize, stores into
   the new page and reads it through A's mload. *)
Definition stale_history : list mop :=
  [MInst 0; MInst 1; MUse 1 None KStore 8 111; MUse 1 (Some 1%nat) KLoad 8 0; MClose 0; MDrop 0;
   MUse 1 None KGrow 1 0; MUse 1 None KStore 8 333; MUse 1 (Some 1%nat) KLoad 8 0; MGc;
   MUse 1 None KSize 0 0; MUse 1 (Some 0%nat) KSize 0 0; MUse 1 None KLoad 8 0; MUse 1 (Some 1%nat) KLoad 8 0;
   MUse 1 None KStore 65544 222; MUse 1 (Some 1%nat) KLoad 65544 0].

Lemma closed_definer_view_stale :
  let good := snd (mrun notify_all modsAB (minit 2) stale_history) in
  let bad := snd (mrun skip_closed modsAB (minit 2) stale_history) in
  let s := fst (mrun skip_closed modsAB (minit 2) stale_history) in
  (* the definer (instance 0) is closed; the importer (instance 1) is open and its handle held *)
  i_closed (geti s 0) = true /\ i_closed (geti s 1) = false /\ nth 1 (ms_handle s) None = Some 1%nat /\
  (* the importer's own code sees the current memory: 2 pages, the new value *)
  nth 10 bad ONone = OVal 2 /\ nth 12 bad ONone = OVal 333 /\
  (* through the functions imported from the closed definer: the old value from the abandoned buffer, the old
     size, a freed buffer after the collection, a trap on an address the importer itself just wrote *)
  nth 8 bad ONone = OVal 111 /\ nth 11 bad ONone = OVal 1 /\ nth 13 bad ONone = OFreed /\ nth 15 bad ONone = OTrap /\
  (* the same history when nobody is skipped *)
  nth 8 good ONone = OVal 333 /\ nth 11 good ONone = OVal 2 /\ nth 13 good ONone = OVal 333 /\ nth 15 good ONone = OVal 222 /\
  (* the state: the definer's view still names buffer 0 with 1 page; the memory is buffer 1 with 2 pages; buffer 0 is freed *)
  coherentb s = false /\ i_view (geti s 0) = VCached 0 1 /\ m_buf (getm s 0) = 1%nat /\ m_pages (getm s 0) = 2 /\
  b_freed (getb s 0) = true /\ b_freed (getb s 1) = false.
Proof. vm_compute. splits; reflexivity. Qed.

(* an importer that caches a view but is not registered for the notification goes stale as well (no close needed) *)
Definition modsCache : list mmod := [mkMM SOwn false 4 SNone []; mkMM (SImp 0%nat) true 4 SNone []].
Example unregistered_importer_stale :
  map enc (snd (mrun unregistered modsCache (minit 2) [MInst 0; MInst 1; MUse 0 None KGrow 1 0; MUse 0 None KSize 0 0; MUse 1 None KSize 0 0]))
    = [(4, 0); (4, 0); (0, 1); (0, 2); (0, 1)] /\
  map enc (snd (mrun notify_all modsCache (minit 2) [MInst 0; MInst 1; MUse 0 None KGrow 1 0; MUse 0 None KSize 0 0; MUse 1 None KSize 0 0]))
    = [(4, 0); (4, 0); (0, 1); (0, 2); (0, 2)].
Proof. vm_compute. split; reflexivity. Qed.

(* non-vacuity of (a): a history with a cached importer, closes, grows by three different parties and a collection *)
Example coherent_instance :
  let s := fst (mrun notify_all modsCache (minit 2)
                  [MInst 0; MInst 1; MClose 0; MUse 1 None KGrow 1 0; MGc; MHost 1 KGrow 1 0; MEnter 0; MLeave None KGrowSt 1 0]) in
  coherentb s = true /\ m_pages (getm s 0) = 4 /\ m_buf (getm s 0) = 3%nat /\
  i_view (geti s 0) = VCached 3 4 /\ i_view (geti s 1) = VCached 3 4 /\ i_closed (geti s 0) = true.
Proof. vm_compute. splits; reflexivity. Qed.

(* ------------------------------------------------------------------------------------------ *)
(* (c) closes, drops and collections do not change what is observed *)

(* retained instances: reachable from the roots (host handles, the call in flight, open named instances) through
   i_deps (imported functions' definers, the definer of an imported memory) *)
Inductive mreach (s : mstate) : nat -> Prop :=
| mr_root : forall r, In r (mroots s) -> mreach s r
| mr_dep : forall i x, mreach s i -> In x (i_deps (geti s i)) -> mreach s x.

Lemma In_somes : forall l x, In x (somes l) <-> In (Some x) l.
Proof.
  unfold somes; intros; rewrite in_flat_map. split.
  - intros [[y|] [H1 H2]]; simpl in H2; [destruct H2 as [<-|[]]; auto | destruct H2].
  - intro H; exists (Some x); simpl; auto.
Qed.

Lemma In_open_names : forall s x, In x (open_names s) <-> In (Some x) (ms_name s) /\ i_closed (geti s x) = false.
Proof.
  unfold open_names; intros; rewrite in_flat_map; split.
  - intros [[y|] [H1 H2]]; [|destruct H2]. destruct (i_closed (geti s y)) eqn:E; [destruct H2|].
    destruct H2 as [<-|[]]; auto.
  - intros [H1 H2]. exists (Some x); split; auto. rewrite H2; simpl; auto.
Qed.

Definition rootp (s : mstate) (x : nat) : Prop :=
  In (Some x) (ms_handle s) \/ ms_flight s = Some x \/ (In (Some x) (ms_name s) /\ i_closed (geti s x) = false).

Lemma In_mroots : forall s x, In x (mroots s) <-> rootp s x.
Proof.
  intros; unfold mroots, rootp. rewrite !in_app_iff, In_somes, In_open_names.
  destruct (ms_flight s) as [i|]; simpl; split; intros H; repeat destruct H as [H | H]; auto; try discriminate;
    try (subst; auto; fail); try (inversion H; auto; fail); try (destruct H; fail).
Qed.

Record Stat (s : mstate) : Prop := mkStat {
  st_acc : forall x y k, In (y, k) (i_acc (geti s x)) -> In y (i_deps (geti s x));
  st_owner : forall x mu, i_mem (geti s x) = Some mu ->
               x = m_owner (getm s mu) \/ In (m_owner (getm s mu)) (i_deps (geti s x));
  st_ids : forall x, In (Some x) (ms_handle s) \/ ms_flight s = Some x \/ In (Some x) (ms_name s) ->
               (x < length (ms_insts s))%nat }.

(* the current buffer of the memory a retained instance is bound to is not freed *)
Definition safe (s : mstate) : Prop :=
  forall x, mreach s x -> forall mu, i_mem (geti s x) = Some mu -> b_freed (getb s (m_buf (getm s mu))) = false.

Definition same_static (s s' : mstate) : Prop :=
  forall x, i_mem (geti s' x) = i_mem (geti s x) /\ i_glob (geti s' x) = i_glob (geti s x) /\
            i_acc (geti s' x) = i_acc (geti s x) /\ i_deps (geti s' x) = i_deps (geti s x).

Lemma Stat_frame : forall s s', Stat s -> same_static s s' ->
  (forall mu, m_owner (getm s' mu) = m_owner (getm s mu)) ->
  length (ms_insts s') = length (ms_insts s) ->
  (forall x, In (Some x) (ms_handle s') \/ ms_flight s' = Some x \/ In (Some x) (ms_name s') ->
             In (Some x) (ms_handle s) \/ ms_flight s = Some x \/ In (Some x) (ms_name s)) ->
  Stat s'.
Proof.
  intros s s' [A O I] SS HO HL HR. constructor.
  - intros x y k H. destruct (SS x) as [_ [_ [E1 E2]]]. rewrite E1 in H; rewrite E2. eapply A; eauto.
  - intros x mu H. destruct (SS x) as [E0 [_ [_ E2]]]. rewrite E0 in H. rewrite HO, E2. apply O; auto.
  - intros x H. rewrite HL. apply I, HR, H.
Qed.

Lemma mreach_frame : forall s s', same_static s s' -> (forall r, rootp s' r -> mreach s r) ->
  forall x, mreach s' x -> mreach s x.
Proof.
  intros s s' SS HR x H. induction H as [r H | i x H IH K].
  - apply HR, In_mroots, H.
  - destruct (SS i) as [_ [_ [_ E]]]. rewrite E in K. eapply mr_dep; eauto.
Qed.

Lemma safe_frame : forall s s', safe s -> same_static s s' -> (forall r, rootp s' r -> mreach s r) ->
  (forall mu, b_freed (getb s (m_buf (getm s mu))) = false -> b_freed (getb s' (m_buf (getm s' mu))) = false) ->
  safe s'.
Proof.
  intros s s' S SS HR HB x H mu M. destruct (SS x) as [E _]. rewrite E in M.
  apply HB. eapply S; eauto. eapply mreach_frame; eauto.
Qed.

Lemma rootp_mreach : forall s r, rootp s r -> mreach s r.
Proof. intros; apply mr_root, In_mroots; auto. Qed.

Lemma same_static_refl : forall s, same_static s s.
Proof. intros s x; auto. Qed.

Lemma geti_map : forall s g l, l = map g (ms_insts s) -> g dead_inst = dead_inst ->
  forall x, geti (with_insts s l) x = g (geti s x).
Proof. intros s g l -> H x. unfold geti; msimpl. rewrite <- H at 1. apply map_nth. Qed.

Lemma geti_updl : forall s i f x,
  geti (with_insts s (updl (ms_insts s) i f)) x = geti s x \/ geti (with_insts s (updl (ms_insts s) i f)) x = f (geti s x).
Proof. intros. unfold geti; msimpl. rewrite nth_updl. destruct (_ && _); auto. Qed.

Definition Inv (s : mstate) : Prop := coh s /\ Stat s /\ safe s.

Lemma Inv_with_bufs : forall s l, Inv s ->
  (forall b, b_freed (getb s b) = false -> b_freed (nth b l dead_buf) = false) -> Inv (with_bufs s l).
Proof.
  intros s l [C [S F]] H. unfold Inv; splits.
  - exact C.
  - apply (Stat_frame s); auto. intros x; auto.
  - apply (safe_frame s); auto; [intros x; auto | intros r K; apply rootp_mreach, K |].
    intros mu K. apply H, K.
Qed.

Lemma Inv_with_globs : forall s l, Inv s -> Inv (with_globs s l).
Proof.
  intros s l [C [S F]]. unfold Inv; splits.
  - exact C.
  - apply (Stat_frame s); auto. intros x; auto.
  - apply (safe_frame s); auto; [intros x; auto | intros r K; apply rootp_mreach, K].
Qed.

Lemma Inv_store : forall s b l a v, Inv s -> Inv (fst (do_store s b l a v)).
Proof.
  intros s b l a v I. unfold do_store. destruct (in_bounds a l); auto. destruct (b_freed (getb s b)) eqn:E; auto.
  cbn [fst]. apply Inv_with_bufs; auto. intros b' K. unfold getb in K. rewrite nth_updl.
  destruct (_ && _); auto.
Qed.

Lemma set_view_static : forall v i, i_mem (set_view v i) = i_mem i /\ i_glob (set_view v i) = i_glob i /\ i_acc (set_view v i) = i_acc i /\ i_deps (set_view v i) = i_deps i.
Proof. intros; cbn; auto. Qed.

Lemma Inv_grown : forall pol s mu n, full pol -> Inv s -> Inv (grown pol s mu n).
Proof.
  intros pol s mu n FP [C [S F]].
  set (g := fun i : inst => if opt_eqb (i_mem i) mu && i_reg i && notified pol i
                            then set_view (VCached (length (ms_bufs s)) (m_pages (getm s mu) + n)) i else i).
  assert (G : forall x, geti (grown pol s mu n) x = g (geti s x)).
  { intro x. unfold grown. rewrite (geti_map _ g _ eq_refl eq_refl). reflexivity. }
  assert (SS : same_static s (grown pol s mu n)).
  { intro x. rewrite G. unfold g. destruct (_ && _); auto. }
  assert (CL : forall x, i_closed (geti (grown pol s mu n) x) = i_closed (geti s x)).
  { intro x. rewrite G. unfold g. destruct (_ && _); auto. }
  unfold Inv; splits.
  - apply coh_grown; auto.
  - apply (Stat_frame s); auto.
    + intro mu'. unfold grown, getm; msimpl. rewrite nth_updl. destruct (_ && _) eqn:E; auto.
      apply andb_true_iff in E. destruct E as [E _]. apply Nat.eqb_eq in E; subst; auto.
    + unfold grown; msimpl. apply map_length.
  - apply (safe_frame s); auto.
    + intros r [K | [K | [K1 K2]]]; apply rootp_mreach; [left; exact K | right; left; exact K |].
      right; right. split; [exact K1|]. rewrite <- CL; exact K2.
    + intros mu' K. unfold grown, getm, getb in *; msimpl. rewrite nth_updl.
      destruct (Nat.eqb mu mu' && (mu' <? length (ms_mems s))%nat) eqn:E; cbn [m_buf].
      * rewrite nth_app_new. reflexivity.
      * destruct (lt_dec (m_buf (nth mu' (ms_mems s) dead_mem)) (length (ms_bufs s))) as [L | L].
        -- rewrite nth_app_old; auto.
        -- rewrite nth_overflow in K by lia. discriminate.
Qed.

Lemma Inv_grow : forall pol s mu n, full pol -> Inv s -> Inv (fst (do_grow pol s mu n)).
Proof.
  intros pol s mu n F I. unfold do_grow.
  destruct (n =? 0); auto. destruct (_ && _); auto. destruct (b_freed _); auto.
  cbn [fst]. apply Inv_grown; auto.
Qed.

Lemma Inv_access : forall pol s x thr k a1 a2, full pol -> Inv s -> Inv (fst (access pol s x thr k a1 a2)).
Proof.
  intros pol s x thr k a1 a2 F I. unfold access.
  destruct k; try (destruct (i_glob (geti s x)); cbn [fst]; auto; apply Inv_with_globs; auto; fail);
  destruct (view_of s x thr) as [[[mu b] l]|]; cbn [fst]; auto.
  - rewrite coh_load; auto.
  - apply Inv_store; auto.
  - apply Inv_grow; auto.
  - pose proof (Inv_grow pol s mu a1 F I) as G. destruct (do_grow pol s mu a1) as [s1 o1]. cbn [fst] in G.
    destruct o1; cbn [fst]; auto;
    (destruct (view_of s1 x thr) as [[[mu1 b1] l1]|]; cbn [fst]; auto;
     pose proof (Inv_store s1 b1 l1 (l1 * PAGE - 8) GROWST_VAL G) as G2;
     destruct (do_store s1 b1 l1 (l1 * PAGE - 8) GROWST_VAL) as [s2 o2]; cbn [fst] in G2; destruct o2; cbn [fst]; auto).
Qed.

Lemma set_iclosed_static : forall i, i_mem (set_iclosed i) = i_mem i /\ i_glob (set_iclosed i) = i_glob i /\ i_acc (set_iclosed i) = i_acc i /\ i_deps (set_iclosed i) = i_deps i.
Proof. intros; cbn; auto. Qed.

(* closing: instances l' obtained from the instances of s by setting closed flags *)
Lemma Inv_closed : forall s l, Inv s -> length l = length (ms_insts s) ->
  (forall x, geti (with_insts s l) x = geti s x \/ geti (with_insts s l) x = set_iclosed (geti s x)) ->
  Inv (with_insts s l).
Proof.
  intros s l [C [S F]] HL H.
  assert (SS : same_static s (with_insts s l)).
  { intro x. destruct (H x) as [E | E]; rewrite E; auto using set_iclosed_static. }
  unfold Inv; splits.
  - apply coh_closed; auto. intros i Hi. destruct (In_nth _ _ dead_inst Hi) as [x [L E]].
    change (nth x l dead_inst) with (geti (with_insts s l) x) in E. rewrite HL in L.
    destruct (H x) as [K | K]; rewrite K in E; subst i.
    + left. apply nth_In; auto.
    + right. exists (geti s x). split; auto. apply nth_In; auto.
  - apply (Stat_frame s); auto.
  - apply (safe_frame s); auto.
    intros r [K | [K | [K1 K2]]]; apply rootp_mreach; [left; exact K | right; left; exact K |].
    right; right. split; [exact K1|]. destruct (H r) as [E | E]; rewrite E in K2; auto. discriminate.
Qed.

Lemma Inv_roots : forall s s', Inv s -> ms_insts s' = ms_insts s -> ms_mems s' = ms_mems s -> ms_bufs s' = ms_bufs s ->
  (forall x, In (Some x) (ms_handle s') \/ ms_flight s' = Some x \/ In (Some x) (ms_name s') ->
             In (Some x) (ms_handle s) \/ ms_flight s = Some x \/ In (Some x) (ms_name s)) ->
  (forall x, In (Some x) (ms_handle s') \/ ms_flight s' = Some x -> In (Some x) (ms_handle s) \/ ms_flight s = Some x) ->
  ms_name s' = ms_name s ->
  Inv s'.
Proof.
  intros s s' [C [S F]] E1 E2 E3 H H' EN.
  assert (G : forall x, geti s' x = geti s x) by (intro x; unfold geti; rewrite E1; auto).
  assert (SS : same_static s s') by (intro x; rewrite G; auto).
  unfold Inv; splits.
  - eapply coh_same; eauto.
  - apply (Stat_frame s); auto. intro mu; unfold getm; rewrite E2; auto. rewrite E1; auto.
  - apply (safe_frame s); auto.
    + intros r [K | [K | [K1 K2]]]; apply rootp_mreach.
      * destruct (H' r (or_introl K)) as [K' | K']; [left; auto | right; left; auto].
      * destruct (H' r (or_intror K)) as [K' | K']; [left; auto | right; left; auto].
      * right; right. rewrite EN in K1. rewrite G in K2. auto.
    + intros mu K. unfold getb, getm in *. rewrite E2, E3. exact K.
Qed.

(* ---- collection ---- *)
Lemma dep_heap_vis : forall s i, o_vis (nth i (dep_heap s) dead_obj) = i_deps (geti s i).
Proof.
  intros s. unfold dep_heap, geti. induction (ms_insts s) as [|a l IH]; intros [|i]; simpl; auto.
Qed.

Lemma nth_free_except : forall l k keep j,
  nth j (free_except k l keep) dead_buf =
  if memb (k + j) keep then nth j l dead_buf else set_freed (nth j l dead_buf).
Proof.
  induction l as [|a l IH]; intros k keep j; simpl.
  - destruct j; destruct (memb _ keep); reflexivity.
  - destruct j.
    + rewrite Nat.add_0_r. destruct (memb k keep); reflexivity.
    + rewrite IH. rewrite Nat.add_succ_r. reflexivity.
Qed.

Lemma mreach_marked : forall s M, mark o_vis (S (length (ms_insts s))) (dep_heap s) (mroots s) = Some M ->
  forall x, mreach s x -> In x M.
Proof.
  intros s M E x H. destruct (mark_spec _ _ _ _ _ E) as [M1 [M2 _]].
  induction H as [r H | i x H IH K].
  - apply M1, H.
  - apply (M2 i x IH). rewrite dep_heap_vis. exact K.
Qed.

Lemma Inv_gc : forall s, Inv s -> Inv (mgc s).
Proof.
  intros s I. unfold mgc. destruct (mark o_vis _ (dep_heap s) (mroots s)) as [M|] eqn:E; auto.
  destruct I as [C [S F]]. unfold Inv; splits.
  - exact C.
  - apply (Stat_frame s); auto. intros x; auto.
  - intros x H mu Hm.
    assert (H' : mreach s x).
    { apply (mreach_frame s (with_bufs s (free_except 0 (ms_bufs s) (kept_bufs s M)))); auto.
      - intro y; auto.
      - intros r K. apply rootp_mreach, K. }
    unfold getb, getm; msimpl. rewrite nth_free_except. cbn [Nat.add].
    assert (K : In (m_buf (nth mu (ms_mems s) dead_mem)) (kept_bufs s M)).
    { unfold kept_bufs. apply in_flat_map. exists x. split; [eapply mreach_marked; eauto|].
      change (geti (with_bufs s (free_except 0 (ms_bufs s) (kept_bufs s M))) x) with (geti s x) in Hm.
      rewrite Hm. left; reflexivity. }
    apply memb_In in K. rewrite K. apply (F x H' mu Hm).
Qed.

(* ---- instantiation ---- *)
Definition new_deps (s : mstate) (mem : option nat) (ownm : bool) (accs : list (nat * akind)) : list nat :=
  map fst accs ++ match mem with Some mu => if ownm then [] else [m_owner (getm s mu)] | None => [] end.

Definition new_view (pol : policy) (s : mstate) (mm : mmod) (mem : option nat) (ownm : bool) : view * bool :=
  match mem with
  | None => (VThrough, false)
  | Some mu =>
      if ownm then (VCached (length (ms_bufs s)) 1, true)
      else if mm_cache mm then (VCached (m_buf (getm s mu)) (m_pages (getm s mu)), p_register pol)
      else (VThrough, false)
  end.

Definition inst_state (pol : policy) (s : mstate) (m : nat) (mm : mmod) (mem : option nat) (ownm : bool)
                      (gl : option nat) (owng : bool) (accs : list (nat * akind)) : mstate :=
  mkMS (ms_insts s ++ [mkInst mem (fst (new_view pol s mm mem ownm)) (snd (new_view pol s mm mem ownm)) gl accs
                              (new_deps s mem ownm accs) false])
       (if ownm then ms_mems s ++ [mkMem (length (ms_bufs s)) 1 (mm_max mm) (length (ms_insts s))] else ms_mems s)
       (if ownm then ms_bufs s ++ [mkBuf [] false] else ms_bufs s)
       (if owng then ms_globs s ++ [0] else ms_globs s)
       (set_nth (ms_handle s) m (Some (length (ms_insts s)))) (set_nth (ms_name s) m (Some (length (ms_insts s))))
       (ms_flight s).

Lemma minst_cases : forall pol mods s m,
  minst pol mods s m = (s, OErr) \/
  exists mm mem ownm gl owng accs,
    nth_error mods m = Some mm /\
    resolve_src s (mm_mem mm) i_mem (length (ms_mems s)) = Some (mem, ownm) /\
    resolve_src s (mm_glob mm) i_glob (length (ms_globs s)) = Some (gl, owng) /\
    resolve_acc s (mm_acc mm) = Some accs /\
    minst pol mods s m = (inst_state pol s m mm mem ownm gl owng accs, ONone).
Proof.
  intros pol mods s m. unfold minst.
  destruct (nth_error mods m) as [mm|]; [|left; reflexivity].
  destruct (resolve_src s (mm_mem mm) i_mem (length (ms_mems s))) as [[mem ownm]|] eqn:RM; [|left; reflexivity].
  destruct (resolve_src s (mm_glob mm) i_glob (length (ms_globs s))) as [[gl owng]|] eqn:RG; [|left; reflexivity].
  destruct (resolve_acc s (mm_acc mm)) as [accs|] eqn:RA; [|left; reflexivity].
  right. exists mm, mem, ownm, gl, owng, accs. splits; auto.
  unfold inst_state, new_view, new_deps.
  destruct mem as [mu|]; [|reflexivity]. destruct ownm; [reflexivity|]. destruct (mm_cache mm); reflexivity.
Qed.

Lemma resolve_acc_named : forall s l accs, resolve_acc s l = Some accs ->
  forall y k, In (y, k) accs -> exists j, named s j = Some y.
Proof.
  intros s. induction l as [|[j k] l IH]; intros accs H y k' Hy; simpl in H.
  - inversion H; subst. destruct Hy.
  - destruct (named s j) as [i|] eqn:N; [|discriminate].
    destruct (resolve_acc s l) as [r|]; [|discriminate].
    destruct (if akind_mem k then _ else _); [|discriminate]. inversion H; subst.
    destruct Hy as [Hy | Hy]; [inversion Hy; subst; eauto | eapply IH; eauto].
Qed.

Lemma resolve_src_imp : forall s src sel fresh x, resolve_src s src sel fresh = Some (Some x, false) ->
  exists j i, named s j = Some i /\ sel (geti s i) = Some x.
Proof.
  intros s [| |j] sel fresh x H; simpl in H; try discriminate.
  destruct (named s j) as [i|] eqn:N; [|discriminate].
  destruct (sel (geti s i)) eqn:E; inversion H; subst. eauto.
Qed.

Lemma named_rootp : forall s j i, named s j = Some i -> rootp s i.
Proof.
  intros s j i N. destruct (named_In s j i N) as [_ [_ [C E]]]. right; right. split; auto.
  eapply nth_Some_In; eauto.
Qed.

Section InstState.
  Variables (pol : policy) (s : mstate) (m : nat) (mm : mmod) (mem : option nat) (ownm : bool)
            (gl : option nat) (owng : bool) (accs : list (nat * akind)).
  Let s' := inst_state pol s m mm mem ownm gl owng accs.
  Let n := length (ms_insts s).
  Let ni := mkInst mem (fst (new_view pol s mm mem ownm)) (snd (new_view pol s mm mem ownm)) gl accs
                   (new_deps s mem ownm accs) false.

  Lemma geti_inst_old : forall x, (x < n)%nat -> geti s' x = geti s x.
  Proof. intros x L. unfold geti, s', inst_state; msimpl. apply nth_app_old; auto. Qed.

  Lemma geti_inst_new : geti s' n = ni.
  Proof. unfold geti, s', inst_state; msimpl. apply nth_app_new. Qed.

  Lemma geti_inst_out : forall x, (n < x)%nat -> geti s' x = dead_inst.
  Proof.
    intros x L. unfold geti, s', inst_state; msimpl. apply nth_overflow. rewrite app_length; simpl. fold n. lia.
  Qed.

  Lemma getm_inst_old : forall mu, (mu < length (ms_mems s))%nat -> getm s' mu = getm s mu.
  Proof. intros mu L. unfold getm, s', inst_state; msimpl. destruct ownm; auto. apply nth_app_old; auto. Qed.

  Lemma getb_inst_old : forall b, b_freed (getb s b) = false -> getb s' b = getb s b.
  Proof.
    intros b H. unfold getb in *. unfold s', inst_state; msimpl. destruct ownm; auto.
    destruct (lt_dec b (length (ms_bufs s))); [apply nth_app_old; auto|].
    rewrite nth_overflow in H by lia. discriminate.
  Qed.

End InstState.

Lemma geti_s_out : forall s x, (length (ms_insts s) <= x)%nat -> geti s x = dead_inst.
Proof. intros s x L. unfold geti. apply nth_overflow. exact L. Qed.

Lemma geti_mem_range : forall s x mu, coh s -> i_mem (geti s x) = Some mu ->
  (mu < length (ms_mems s))%nat /\ (x < length (ms_insts s))%nat.
Proof.
  intros s x mu C H. destruct (lt_dec x (length (ms_insts s))) as [L | L].
  - split; auto. apply (C (geti s x)); auto. apply nth_In; auto.
  - rewrite geti_s_out in H by lia. discriminate.
Qed.

Lemma new_deps_reach : forall s mm mem ownm accs, Stat s ->
  resolve_src s (mm_mem mm) i_mem (length (ms_mems s)) = Some (mem, ownm) ->
  resolve_acc s (mm_acc mm) = Some accs ->
  forall y, In y (new_deps s mem ownm accs) -> mreach s y.
Proof.
  intros s mm mem ownm accs S RM RA y H. unfold new_deps in H. apply in_app_or in H. destruct H as [H | H].
  - apply in_map_iff in H. destruct H as [[y' k] [E H]]. simpl in E; subst y'.
    destruct (resolve_acc_named s _ _ RA y k H) as [j N]. apply rootp_mreach. eapply named_rootp; eauto.
  - destruct mem as [mu|]; [|destruct H]. destruct ownm; [destruct H|]. destruct H as [H | []]. subst y.
    destruct (resolve_src_imp s _ _ _ _ RM) as [j [i [N M]]].
    pose proof (rootp_mreach s i (named_rootp s j i N)) as R.
    destruct (st_owner s S i mu M) as [E | E]; [rewrite <- E; auto | eapply mr_dep; eauto].
Qed.

Lemma Stat_inst_state : forall pol s m mm mem ownm gl owng accs, coh s -> Stat s ->
  resolve_src s (mm_mem mm) i_mem (length (ms_mems s)) = Some (mem, ownm) ->
  Stat (inst_state pol s m mm mem ownm gl owng accs).
Proof.
  intros pol s m mm mem ownm gl owng accs C S RM.
  destruct (resolve_src_mem s _ _ _ _ C RM) as [RO RI].
  set (n := length (ms_insts s)).
  constructor.
  - intros x y k H. destruct (lt_eq_lt_dec x n) as [[L | L] | L].
    + rewrite geti_inst_old in * by auto. eapply st_acc; eauto.
    + subst x. unfold n in *. rewrite geti_inst_new in *. cbn [i_acc i_deps] in *. unfold new_deps. apply in_or_app; left.
      apply in_map_iff. exists (y, k); auto.
    + rewrite geti_inst_out in H by auto. destruct H.
  - intros x mu H. destruct (lt_eq_lt_dec x n) as [[L | L] | L].
    + rewrite geti_inst_old in * by auto. destruct (geti_mem_range s x mu C H) as [L1 _].
      rewrite getm_inst_old by auto. apply (st_owner s S); auto.
    + subst x. unfold n in *. rewrite geti_inst_new in *. cbn [i_mem i_deps] in *. subst mem. destruct ownm.
      * specialize (RO eq_refl). inversion RO; subst mu. left.
        unfold getm, inst_state; msimpl. rewrite nth_app_new. reflexivity.
      * specialize (RI eq_refl mu eq_refl). rewrite getm_inst_old by auto. right.
        unfold new_deps. apply in_or_app; right. left; reflexivity.
    + rewrite geti_inst_out in H by auto. discriminate.
  - intros x H. unfold inst_state in *; msimpl. rewrite app_length; simpl. fold n.
    destruct H as [H | [H | H]].
    + apply In_set_nth in H. destruct H as [H | H]; [|inversion H; lia].
      assert (x < n)%nat by (apply (st_ids s S); auto). lia.
    + assert (x < n)%nat by (apply (st_ids s S); auto). lia.
    + apply In_set_nth in H. destruct H as [H | H]; [|inversion H; lia].
      assert (x < n)%nat by (apply (st_ids s S); auto). lia.
Qed.

Lemma mreach_inst_state : forall pol s m mm mem ownm gl owng accs, Stat s ->
  resolve_src s (mm_mem mm) i_mem (length (ms_mems s)) = Some (mem, ownm) ->
  resolve_acc s (mm_acc mm) = Some accs ->
  forall x, mreach (inst_state pol s m mm mem ownm gl owng accs) x -> x = length (ms_insts s) \/ mreach s x.
Proof.
  intros pol s m mm mem ownm gl owng accs S RM RA x H.
  set (n := length (ms_insts s)).
  induction H as [r H | i x H IH K].
  - apply In_mroots in H. destruct H as [H | [H | [H1 H2]]].
    + unfold inst_state in H; msimpl. apply In_set_nth in H. destruct H as [H | H]; [|inversion H; auto].
      right; apply rootp_mreach; left; auto.
    + unfold inst_state in H; msimpl. right; apply rootp_mreach; right; left; auto.
    + assert (H1' : In (Some r) (set_nth (ms_name s) m (Some n))) by exact H1.
      apply In_set_nth in H1'. destruct H1' as [H1' | H1']; [|inversion H1'; auto].
      assert (L : (r < n)%nat) by (apply (st_ids s S); auto).
      rewrite geti_inst_old in H2 by auto.
      right; apply rootp_mreach; right; right; auto.
  - right. destruct IH as [IH | IH].
    + subst i. rewrite geti_inst_new in K. cbn [i_deps] in K. eapply new_deps_reach; eauto.
    + destruct (lt_eq_lt_dec i n) as [[L | L] | L].
      * rewrite geti_inst_old in K by auto. eapply mr_dep; eauto.
      * subst i. unfold n in K. rewrite geti_inst_new in K. cbn [i_deps] in K. eapply new_deps_reach; eauto.
      * rewrite geti_inst_out in K by auto. destruct K.
Qed.

Lemma safe_inst_state : forall pol s m mm mem ownm gl owng accs, coh s -> Stat s -> safe s ->
  resolve_src s (mm_mem mm) i_mem (length (ms_mems s)) = Some (mem, ownm) ->
  resolve_acc s (mm_acc mm) = Some accs ->
  safe (inst_state pol s m mm mem ownm gl owng accs).
Proof.
  intros pol s m mm mem ownm gl owng accs C S F RM RA.
  destruct (resolve_src_mem s _ _ _ _ C RM) as [RO RI].
  set (n := length (ms_insts s)).
  intros x H mu Hm. destruct (lt_eq_lt_dec x n) as [[L | L] | L].
  - rewrite geti_inst_old in Hm by auto. destruct (geti_mem_range s x mu C Hm) as [L1 _].
    destruct (mreach_inst_state _ _ _ _ _ _ _ _ _ S RM RA x H) as [E | R]; [unfold n in L; lia|].
    rewrite getm_inst_old by auto. pose proof (F x R mu Hm) as K. rewrite getb_inst_old; auto.
  - subst x. unfold n in Hm. rewrite geti_inst_new in Hm. cbn [i_mem] in Hm. subst mem. destruct ownm.
    + specialize (RO eq_refl). inversion RO; subst mu.
      unfold getm, getb, inst_state; msimpl. rewrite nth_app_new. cbn [m_buf]. rewrite nth_app_new. reflexivity.
    + specialize (RI eq_refl mu eq_refl). rewrite getm_inst_old by auto.
      destruct (resolve_src_imp s _ _ _ _ RM) as [j [i [N M]]].
      pose proof (F i (rootp_mreach s i (named_rootp s j i N)) mu M) as K. rewrite getb_inst_old; auto.
  - rewrite geti_inst_out in Hm by auto. discriminate.
Qed.

Lemma Inv_minst : forall pol mods s m, full pol -> Inv s -> Inv (fst (minst pol mods s m)).
Proof.
  intros pol mods s m FP I. pose proof (coh_minst pol mods s m FP (proj1 I)) as CM.
  destruct (minst_cases pol mods s m) as [E | [mm [mem [ownm [gl [owng [accs [E1 [E2 [E3 [E4 E5]]]]]]]]]]].
  - rewrite E; exact I.
  - rewrite E5 in *. cbn [fst] in *. destruct I as [C [S F]]. unfold Inv; splits; auto.
    + eapply Stat_inst_state; eauto.
    + eapply safe_inst_state; eauto.
Qed.

Lemma Inv_drop_flight : forall s, Inv s -> Inv (with_mflight s None).
Proof.
  intros s I. apply (Inv_roots s); auto; msimpl.
  - intros x [H | [H | H]]; auto. discriminate.
  - intros x [H | H]; auto. discriminate.
Qed.

Lemma Inv_mstep : forall pol mods s o, full pol -> Inv s -> Inv (fst (mstep pol mods s o)).
Proof.
  intros pol mods s o F I. pose proof F as [_ [_ F3]]. destruct o; cbn [mstep]; unfold close_inst; rewrite ?F3; cbn [andb].
  - apply Inv_minst; auto.
  - destruct (nth m (ms_handle s) None); cbn [fst]; auto.
    apply Inv_closed; auto. apply length_updl. apply geti_updl.
  - cbn [fst]. apply Inv_closed; auto. apply map_length.
    intro x. right. apply (geti_map s set_iclosed); reflexivity.
  - cbn [fst]. apply (Inv_roots s); auto; msimpl.
    + intros x [H | [H | H]]; auto. apply In_set_nth in H. destruct H as [H | H]; [auto | discriminate].
    + intros x [H | H]; auto. apply In_set_nth in H. destruct H as [H | H]; [auto | discriminate].
  - cbn [fst]. apply Inv_gc; auto.
  - destruct (nth m (ms_handle s) None) as [i|] eqn:E; cbn [fst]; auto.
    apply nth_Some_In in E. apply (Inv_roots s); auto; msimpl.
    + intros x [H | [H | H]]; auto. inversion H; subst; auto.
    + intros x [H | H]; auto. inversion H; subst; auto.
  - destruct (ms_flight s) as [i|]; cbn [fst]; auto.
    destruct (target s i p k) as [[x k']|]; cbn [fst].
    + pose proof (Inv_access pol s x false k' a1 a2 F I) as G. destruct (access pol s x false k' a1 a2); cbn [fst] in *.
      apply Inv_drop_flight; auto.
    + apply Inv_drop_flight; auto.
  - destruct (nth m (ms_handle s) None) as [i|]; cbn [fst]; auto.
    destruct (target s i p k) as [[x k']|]; cbn [fst]; auto.
    pose proof (Inv_access pol s x false k' a1 a2 F I) as G. destruct (access pol s x false k' a1 a2); cbn [fst] in *; auto.
  - destruct (nth m (ms_handle s) None) as [i|]; cbn [fst]; auto. apply Inv_access; auto.
  - exact I.
Qed.

Lemma Inv_init : forall n, Inv (minit n).
Proof.
  intro n. unfold Inv; splits.
  - apply coh_init.
  - constructor.
    + intros x y k H. unfold geti, minit in H; simpl in H. destruct x; destruct H.
    + intros x mu H. unfold geti, minit in H; simpl in H. destruct x; discriminate.
    + intros x [H | [H | H]]; unfold minit in H; simpl in H; try discriminate; apply repeat_spec in H; discriminate.
  - intros x H mu M. unfold geti, minit in M; simpl in M. destruct x; discriminate.
Qed.

(* ---- the twin ---- *)
Definition unclose (i : inst) : inst := mkInst (i_mem i) (i_view i) (i_reg i) (i_glob i) (i_acc i) (i_deps i) false.

Record Rel (s t : mstate) : Prop := mkRel {
  r_insts : ms_insts t = map unclose (ms_insts s);
  r_mems : ms_mems t = ms_mems s;
  r_globs : ms_globs t = ms_globs s;
  r_name : ms_name t = ms_name s;
  r_data : map b_data (ms_bufs t) = map b_data (ms_bufs s);
  r_hlen : length (ms_handle t) = length (ms_handle s);
  r_handle : forall m i, nth m (ms_handle s) None = Some i -> nth m (ms_handle t) None = Some i;
  r_flight : ms_flight t = ms_flight s;
  r_live : forall b, (b < length (ms_bufs t))%nat -> b_freed (getb t b) = false }.

Lemma rel_geti : forall s t x, Rel s t ->
  geti t x = unclose (geti s x) \/ (geti t x = dead_inst /\ geti s x = dead_inst).
Proof.
  intros s t x R. unfold geti. rewrite (r_insts s t R).
  destruct (lt_dec x (length (ms_insts s))) as [L | L].
  - left. rewrite (nth_indep _ dead_inst (unclose dead_inst)) by (rewrite map_length; auto). apply map_nth.
  - right. split; apply nth_overflow; rewrite ?map_length; lia.
Qed.

Lemma rel_fields : forall s t x, Rel s t ->
  i_mem (geti t x) = i_mem (geti s x) /\ i_view (geti t x) = i_view (geti s x) /\ i_reg (geti t x) = i_reg (geti s x) /\
  i_glob (geti t x) = i_glob (geti s x) /\ i_acc (geti t x) = i_acc (geti s x) /\ i_deps (geti t x) = i_deps (geti s x).
Proof.
  intros s t x R. destruct (rel_geti s t x R) as [E | [E1 E2]]; [rewrite E | rewrite E1, E2]; cbn; auto 10.
Qed.

Lemma rel_closed : forall s t x, Rel s t -> i_closed (geti t x) = true -> i_closed (geti s x) = true.
Proof.
  intros s t x R H. destruct (rel_geti s t x R) as [E | [E1 E2]]; [rewrite E in H; discriminate | rewrite E2; reflexivity].
Qed.

Lemma rel_getm : forall s t mu, Rel s t -> getm t mu = getm s mu.
Proof. intros s t mu R. unfold getm. rewrite (r_mems s t R). reflexivity. Qed.

Lemma rel_blen : forall s t, Rel s t -> length (ms_bufs t) = length (ms_bufs s).
Proof. intros s t R. rewrite <- (map_length b_data (ms_bufs t)), (r_data s t R). apply map_length. Qed.

Lemma rel_data : forall s t b, Rel s t -> b_data (getb t b) = b_data (getb s b).
Proof.
  intros s t b R. unfold getb.
  rewrite <- (map_nth b_data (ms_bufs t) dead_buf b), <- (map_nth b_data (ms_bufs s) dead_buf b).
  rewrite (r_data s t R). reflexivity.
Qed.

Lemma rel_unfreed : forall s t b, Rel s t -> b_freed (getb s b) = false -> b_freed (getb t b) = false.
Proof.
  intros s t b R H. apply (r_live s t R). rewrite (rel_blen s t R).
  destruct (lt_dec b (length (ms_bufs s))); auto. unfold getb in H. rewrite nth_overflow in H by lia. discriminate.
Qed.

Lemma rel_view : forall s t x thr, Rel s t -> view_of t x thr = view_of s x thr.
Proof.
  intros s t x thr R. unfold view_of. destruct (rel_fields s t x R) as [E1 [E2 _]]. rewrite E1, E2.
  destruct (i_mem (geti s x)); auto. rewrite (rel_getm s t n R). reflexivity.
Qed.

Lemma rel_target : forall s t i p k, Rel s t -> target t i p k = target s i p k.
Proof.
  intros s t i p k R. unfold target. destruct p; auto. destruct (rel_fields s t i R) as [_ [_ [_ [_ [E _]]]]].
  rewrite E; reflexivity.
Qed.

Lemma sim_load : forall s t b l a, Rel s t -> b_freed (getb s b) = false ->
  snd (do_load t b l a) = snd (do_load s b l a) /\ snd (do_load s b l a) <> OFreed.
Proof.
  intros s t b l a R H. unfold do_load. destruct (in_bounds a l); cbn [snd]; [|split; [auto | discriminate]].
  rewrite H, (rel_unfreed s t b R H). cbn [snd]. rewrite (rel_data s t b R). split; [auto | discriminate].
Qed.

Lemma Rel_store : forall s t b a v, Rel s t ->
  Rel (with_bufs s (updl (ms_bufs s) b (wr a v))) (with_bufs t (updl (ms_bufs t) b (wr a v))).
Proof.
  intros s t b a v R. destruct R. constructor; msimpl; auto.
  - rewrite !(map_updl _ _ b_data _ b (wr a v) (cons (a, v))) by reflexivity. rewrite r_data0. reflexivity.
  - intros b' L. rewrite length_updl in L. unfold getb; msimpl. rewrite nth_updl.
    destruct (_ && _); [cbn [wr b_freed]|]; apply r_live0; auto.
Qed.

Lemma sim_store : forall s t b l a v, Rel s t -> b_freed (getb s b) = false ->
  Rel (fst (do_store s b l a v)) (fst (do_store t b l a v)) /\
  snd (do_store t b l a v) = snd (do_store s b l a v) /\ snd (do_store s b l a v) <> OFreed.
Proof.
  intros s t b l a v R H. unfold do_store. destruct (in_bounds a l); cbn [fst snd]; [|splits; [auto | auto | discriminate]].
  rewrite H, (rel_unfreed s t b R H). cbn [fst snd]. splits; [apply Rel_store; auto | auto | discriminate].
Qed.

Lemma unclose_set_view : forall v i, unclose (set_view v i) = set_view v (unclose i).
Proof. reflexivity. Qed.

Lemma Rel_grown : forall pol s t mu n, full pol -> Rel s t -> Rel (grown pol s mu n) (grown pol t mu n).
Proof.
  intros pol s t mu n F R. pose proof (rel_blen s t R) as BL. pose proof (rel_getm s t mu R) as GM.
  pose proof (rel_data s t (m_buf (getm s mu)) R) as BD.
  destruct R. unfold grown. rewrite GM, BL, BD. constructor; msimpl; auto.
  - rewrite r_insts0, !map_map. apply map_ext. intro i.
    rewrite !full_notified, !andb_true_r by auto. cbn [unclose i_mem i_reg].
    destruct (opt_eqb (i_mem i) mu && i_reg i); reflexivity.
  - rewrite r_mems0. reflexivity.
  - rewrite !map_app, r_data0. reflexivity.
  - intros b L. rewrite app_length in L; simpl in L. unfold getb; msimpl.
    destruct (lt_dec b (length (ms_bufs t))) as [L' | L'].
    + rewrite nth_app_old by auto. apply r_live0; auto.
    + assert (b = length (ms_bufs t)) by lia. subst b. rewrite nth_app_new. reflexivity.
Qed.

Lemma sim_grow : forall pol s t mu n, full pol -> Rel s t -> b_freed (getb s (m_buf (getm s mu))) = false ->
  Rel (fst (do_grow pol s mu n)) (fst (do_grow pol t mu n)) /\
  snd (do_grow pol t mu n) = snd (do_grow pol s mu n) /\ snd (do_grow pol s mu n) <> OFreed.
Proof.
  intros pol s t mu n F R H. unfold do_grow. rewrite (rel_getm s t mu R).
  destruct (n =? 0); cbn [fst snd]; [splits; [auto | auto | discriminate]|].
  destruct (_ && _); cbn [fst snd]; [|splits; [auto | auto | discriminate]].
  rewrite H, (rel_unfreed s t _ R H). cbn [fst snd]. splits; [apply Rel_grown; auto | auto | discriminate].
Qed.

Lemma grown_cur_unfreed : forall pol s mu n mu',
  b_freed (getb s (m_buf (getm s mu'))) = false ->
  b_freed (getb (grown pol s mu n) (m_buf (getm (grown pol s mu n) mu'))) = false.
Proof.
  intros pol s mu n mu' K. unfold grown, getm, getb in *; msimpl. rewrite nth_updl.
  destruct (Nat.eqb mu mu' && (mu' <? length (ms_mems s))%nat) eqn:E; cbn [m_buf].
  - rewrite nth_app_new. reflexivity.
  - destruct (lt_dec (m_buf (nth mu' (ms_mems s) dead_mem)) (length (ms_bufs s))) as [L | L].
    + rewrite nth_app_old; auto.
    + rewrite nth_overflow in K by lia. discriminate.
Qed.

Lemma grow_cur_unfreed : forall pol s mu n mu',
  b_freed (getb s (m_buf (getm s mu'))) = false ->
  b_freed (getb (fst (do_grow pol s mu n)) (m_buf (getm (fst (do_grow pol s mu n)) mu'))) = false.
Proof.
  intros pol s mu n mu' K. unfold do_grow. destruct (n =? 0); auto. destruct (_ && _); auto.
  destruct (b_freed (getb s (m_buf (getm s mu)))); auto. cbn [fst]. apply grown_cur_unfreed; auto.
Qed.

Lemma grow_static : forall pol s mu n, same_static s (fst (do_grow pol s mu n)).
Proof.
  intros pol s mu n. unfold do_grow. destruct (n =? 0); [apply same_static_refl|].
  destruct (_ && _); [|apply same_static_refl]. destruct (b_freed _); [apply same_static_refl|]. cbn [fst].
  intro x. unfold grown. rewrite (geti_map _ _ _ eq_refl eq_refl).
  change (geti (with_mems _ _) x) with (geti s x). destruct (_ && _); auto.
Qed.

Lemma view_cur : forall s x thr mu b l, coh s -> view_of s x thr = Some (mu, b, l) ->
  i_mem (geti s x) = Some mu /\ b = m_buf (getm s mu) /\ l = m_pages (getm s mu).
Proof.
  intros s x thr mu b l C V. unfold view_of in V. destruct (i_mem (geti s x)) as [mu'|] eqn:M; [|discriminate].
  destruct (geti_mem_range s x mu' C M) as [_ L].
  destruct (C (geti s x) (nth_In _ _ L) mu' M) as [_ K].
  destruct thr; [inversion V; subst; auto|].
  destruct (i_view (geti s x)) as [b' l'|] eqn:W; inversion V; subst; auto.
  destruct (K b l eq_refl) as [_ [K1 K2]]. auto.
Qed.

Lemma Rel_with_globs : forall s t l, Rel s t -> Rel (with_globs s l) (with_globs t l).
Proof. intros s t l R. destruct R. constructor; msimpl; auto. Qed.

Lemma sim_access : forall pol s t x thr k a1 a2, full pol -> Rel s t -> coh s ->
  (forall mu, i_mem (geti s x) = Some mu -> b_freed (getb s (m_buf (getm s mu))) = false) ->
  Rel (fst (access pol s x thr k a1 a2)) (fst (access pol t x thr k a1 a2)) /\
  snd (access pol t x thr k a1 a2) = snd (access pol s x thr k a1 a2) /\
  snd (access pol s x thr k a1 a2) <> OFreed.
Proof.
  intros pol s t x thr k a1 a2 F R C SP. unfold access. rewrite (rel_view s t x thr R).
  destruct (rel_fields s t x R) as [_ [_ [_ [EG _]]]]. rewrite EG, (r_globs s t R).
  destruct k;
    try (destruct (i_glob (geti s x)); cbn [fst snd]; splits; auto using Rel_with_globs; discriminate);
    (destruct (view_of s x thr) as [[[mu b] l]|] eqn:V; cbn [fst snd]; [|splits; auto; discriminate]);
    destruct (view_cur s x thr mu b l C V) as [M [EB EL]]; pose proof (SP mu M) as U; rewrite <- EB in U.
  - splits; auto; discriminate.
  - rewrite !coh_load. destruct (sim_load s t b l a1 R U); auto.
  - apply sim_store; auto.
  - apply sim_grow; auto.
  - assert (U0 : b_freed (getb s (m_buf (getm s mu))) = false) by auto.
    pose proof (sim_grow pol s t mu a1 F R U0) as X.
    pose proof (coh_grow pol s mu a1 F C) as C1.
    pose proof (grow_cur_unfreed pol s mu a1 mu U0) as U1.
    pose proof (grow_static pol s mu a1 x) as [M1 _].
    destruct (do_grow pol s mu a1) as [s1 o1]. destruct (do_grow pol t mu a1) as [t1 o1'].
    cbn [fst snd] in *. destruct X as [R1 [O1 N1]]. subst o1'.
    destruct o1; try congruence; cbn [fst snd];
    (rewrite (rel_view s1 t1 x thr R1);
     destruct (view_of s1 x thr) as [[[mu1 b1] l1]|] eqn:V1; cbn [fst snd]; [|splits; auto; discriminate];
     destruct (view_cur s1 x thr mu1 b1 l1 C1 V1) as [M1' [EB1 EL1]];
     assert (mu1 = mu) by congruence; subst mu1;
     rewrite <- EB1 in U1;
     pose proof (sim_store s1 t1 b1 l1 (l1 * PAGE - 8) GROWST_VAL R1 U1) as Y;
     destruct (do_store s1 b1 l1 (l1 * PAGE - 8) GROWST_VAL) as [s2 o2];
     destruct (do_store t1 b1 l1 (l1 * PAGE - 8) GROWST_VAL) as [t2 o2'];
     cbn [fst snd] in *; destruct Y as [R2 [O2 N2]]; subst o2';
     destruct o2; cbn [fst snd]; splits; auto; try discriminate; congruence).
Qed.

Lemma minst_ok : forall pol mods s m mm mem ownm gl owng accs,
  nth_error mods m = Some mm ->
  resolve_src s (mm_mem mm) i_mem (length (ms_mems s)) = Some (mem, ownm) ->
  resolve_src s (mm_glob mm) i_glob (length (ms_globs s)) = Some (gl, owng) ->
  resolve_acc s (mm_acc mm) = Some accs ->
  minst pol mods s m = (inst_state pol s m mm mem ownm gl owng accs, ONone).
Proof.
  intros pol mods s m mm mem ownm gl owng accs E1 E2 E3 E4. unfold minst. rewrite E1, E2, E3, E4.
  unfold inst_state, new_view, new_deps.
  destruct mem as [mu|]; [|reflexivity]. destruct ownm; [reflexivity|]. destruct (mm_cache mm); reflexivity.
Qed.

Lemma rel_named : forall s t j i, Rel s t -> named s j = Some i -> named t j = Some i.
Proof.
  intros s t j i R H. unfold named in *. rewrite (r_name s t R).
  destruct (nth j (ms_name s) None) as [i'|]; [|discriminate].
  destruct (i_closed (geti s i')) eqn:C; [discriminate|]. inversion H; subst.
  destruct (i_closed (geti t i)) eqn:C'; auto. apply (rel_closed s t i R) in C'. congruence.
Qed.

Lemma rel_resolve_src : forall s t src sel fresh r, Rel s t -> (forall i, sel (geti t i) = sel (geti s i)) ->
  resolve_src s src sel fresh = Some r -> resolve_src t src sel fresh = Some r.
Proof.
  intros s t [| |j] sel fresh r R HS H; simpl in *; auto.
  destruct (named s j) as [i|] eqn:N; [|discriminate]. rewrite (rel_named s t j i R N), HS. exact H.
Qed.

Lemma rel_resolve_acc : forall s t l r, Rel s t -> resolve_acc s l = Some r -> resolve_acc t l = Some r.
Proof.
  intros s t l. induction l as [|[j k] l IH]; intros r R H; simpl in *; auto.
  destruct (named s j) as [i|] eqn:N; [|discriminate]. rewrite (rel_named s t j i R N).
  destruct (resolve_acc s l) as [r'|]; [|discriminate]. rewrite (IH r' R eq_refl).
  destruct (rel_fields s t i R) as [E1 [_ [_ [E2 _]]]]. rewrite E1, E2. exact H.
Qed.

Lemma Rel_inst_state : forall pol s t m mm mem ownm gl owng accs, Rel s t ->
  Rel (inst_state pol s m mm mem ownm gl owng accs) (inst_state pol t m mm mem ownm gl owng accs).
Proof.
  intros pol s t m mm mem ownm gl owng accs R. pose proof (rel_blen s t R) as BL.
  assert (GM : forall mu, getm t mu = getm s mu) by (intro; apply rel_getm; auto).
  assert (IL : length (ms_insts t) = length (ms_insts s)) by (rewrite (r_insts s t R); apply map_length).
  assert (NV : new_view pol t mm mem ownm = new_view pol s mm mem ownm).
  { unfold new_view. destruct mem; auto. rewrite BL, GM. reflexivity. }
  assert (ND : new_deps t mem ownm accs = new_deps s mem ownm accs).
  { unfold new_deps. destruct mem; auto. rewrite GM. reflexivity. }
  destruct R. unfold inst_state. rewrite NV, ND, IL, BL. constructor; msimpl; auto.
  - rewrite map_app, r_insts0. reflexivity.
  - rewrite r_mems0. reflexivity.
  - rewrite r_globs0. reflexivity.
  - rewrite r_name0. reflexivity.
  - destruct ownm; auto. rewrite !map_app, r_data0. reflexivity.
  - rewrite !length_set_nth. auto.
  - intros m' i. rewrite !nth_set_nth, r_hlen0. destruct (_ && _); auto.
  - intros b L. unfold getb; msimpl. destruct ownm; [|apply r_live0; auto].
    rewrite app_length in L; simpl in L.
    destruct (lt_dec b (length (ms_bufs t))) as [L' | L'].
    + rewrite nth_app_old by auto. apply r_live0; auto.
    + assert (b = length (ms_bufs t)) by lia. subst b. rewrite nth_app_new. reflexivity.
Qed.

Lemma map_data_free_except : forall l k keep, map b_data (free_except k l keep) = map b_data l.
Proof. induction l as [|a l IH]; intros; simpl; auto. rewrite IH. destruct (memb k keep); reflexivity. Qed.

Lemma Rel_with_mflight : forall s t f, Rel s t -> Rel (with_mflight s f) (with_mflight t f).
Proof. intros s t f R. destruct R. constructor; msimpl; auto. Qed.

Lemma exported_rel : forall cs ct o, (ct = true -> cs = true) -> o <> OFreed ->
  (exported cs o = exported ct o \/ exported cs o = OErr) /\ exported cs o <> OFreed.
Proof.
  intros cs ct o H N. destruct cs, ct, o; simpl; split; auto; try discriminate; try congruence;
    specialize (H eq_refl); discriminate.
Qed.

Definition twin_step (pol : policy) (mods : list mmod) (s t : mstate) (o : mop) : mstate * mobs :=
  if twin_go pol mods s o then mstep pol mods t o else (t, skipped o).

(* the instance whose code runs is retained, hence its memory's current buffer is not freed *)
Lemma target_safe : forall s i p k x k', Inv s -> rootp s i -> target s i p k = Some (x, k') ->
  forall mu, i_mem (geti s x) = Some mu -> b_freed (getb s (m_buf (getm s mu))) = false.
Proof.
  intros s i p k x k' [C [S F]] R T. apply F. unfold target in T. destruct p as [q|].
  - apply nth_error_In in T. eapply mr_dep; [apply rootp_mreach; eauto|]. eapply st_acc; eauto.
  - inversion T; subst. apply rootp_mreach; auto.
Qed.

Lemma sim_step : forall pol mods s t o, full pol -> Inv s -> Rel s t ->
  (snd (mstep pol mods s o) = snd (twin_step pol mods s t o) \/ snd (mstep pol mods s o) = OErr) /\
  snd (mstep pol mods s o) <> OFreed /\
  Rel (fst (mstep pol mods s o)) (fst (twin_step pol mods s t o)).
Proof.
  intros pol mods s t o F I R. pose proof I as [C [S SF]]. pose proof F as [_ [_ F3]].
  unfold twin_step. destruct o; cbn [mstep twin_go skipped]; unfold close_inst; rewrite ?F3; cbn [andb].
  - (* MInst *)
    unfold can_inst.
    destruct (minst_cases pol mods s m) as [E | [mm [mem [ownm [gl [owng [accs [E1 [E2 [E3 [E4 E5]]]]]]]]]]].
    + rewrite E. cbn [fst snd]. splits; auto; discriminate.
    + rewrite E5. cbn [fst snd].
      assert (ET : minst pol mods t m = (inst_state pol t m mm mem ownm gl owng accs, ONone)).
      { apply minst_ok; auto.
        - rewrite (r_mems s t R). apply (rel_resolve_src s t); auto. intro i; apply (rel_fields s t i R).
        - rewrite (r_globs s t R). apply (rel_resolve_src s t); auto. intro i; apply (rel_fields s t i R).
        - apply (rel_resolve_acc s t); auto. }
      rewrite ET. cbn [fst snd]. splits; auto; [discriminate | apply Rel_inst_state; auto].
  - (* MClose *)
    destruct (nth m (ms_handle s) None); cbn [fst snd]; splits; auto; try discriminate.
    destruct R. constructor; msimpl; auto. rewrite r_insts0. symmetry. apply map_updl_id. reflexivity.
  - (* MCloseAll *)
    cbn [fst snd]; splits; auto; try discriminate.
    destruct R. constructor; msimpl; auto. rewrite r_insts0, map_map. apply map_ext. reflexivity.
  - (* MDrop *)
    cbn [fst snd]; splits; auto; try discriminate.
    destruct R. constructor; msimpl; auto.
    + rewrite length_set_nth; auto.
    + intros m' i. rewrite nth_set_nth. destruct (_ && _); [discriminate | auto].
  - (* MGc *)
    cbn [fst snd]; splits; auto; try discriminate. unfold mgc. destruct (mark _ _ _ _); auto.
    destruct R. constructor; msimpl; auto. rewrite map_data_free_except. auto.
  - (* MEnter *)
    destruct (nth m (ms_handle s) None) as [i|] eqn:E; cbn [fst snd]; [|splits; auto; discriminate].
    rewrite (r_handle s t R m i E). cbn [fst snd]. splits; auto; [discriminate | apply Rel_with_mflight; auto].
  - (* MLeave *)
    rewrite (r_flight s t R). destruct (ms_flight s) as [i|] eqn:E; cbn [fst snd]; [|splits; auto; discriminate].
    rewrite (rel_target s t i p k R).
    destruct (target s i p k) as [[x k']|] eqn:T; cbn [fst snd];
      [|splits; auto; [discriminate | apply Rel_with_mflight; auto]].
    assert (RT : rootp s i) by (right; left; auto).
    pose proof (sim_access pol s t x false k' a1 a2 F R C (target_safe s i p k x k' I RT T)) as X.
    destruct (access pol s x false k' a1 a2) as [s1 o1]. destruct (access pol t x false k' a1 a2) as [t1 o1'].
    cbn [fst snd] in *. destruct X as [R1 [O1 N1]]. subst o1'.
    destruct (exported_rel (i_closed (geti s i)) (i_closed (geti t i)) o1 (rel_closed s t i R) N1) as [X1 X2].
    splits; auto. apply Rel_with_mflight; auto.
  - (* MUse *)
    destruct (nth m (ms_handle s) None) as [i|] eqn:E; cbn [fst snd]; [|splits; auto; discriminate].
    rewrite (r_handle s t R m i E). rewrite (rel_target s t i p k R).
    destruct (target s i p k) as [[x k']|] eqn:T; cbn [fst snd]; [|splits; auto; discriminate].
    assert (RT : rootp s i) by (left; eapply nth_Some_In; eauto).
    pose proof (sim_access pol s t x false k' a1 a2 F R C (target_safe s i p k x k' I RT T)) as X.
    destruct (access pol s x false k' a1 a2) as [s1 o1]. destruct (access pol t x false k' a1 a2) as [t1 o1'].
    cbn [fst snd] in *. destruct X as [R1 [O1 N1]]. subst o1'.
    destruct (exported_rel (i_closed (geti s i)) (i_closed (geti t i)) o1 (rel_closed s t i R) N1) as [X1 X2].
    splits; auto.
  - (* MHost *)
    destruct (nth m (ms_handle s) None) as [i|] eqn:E; cbn [fst snd]; [|splits; auto; discriminate].
    rewrite (r_handle s t R m i E).
    assert (RT : rootp s i) by (left; eapply nth_Some_In; eauto).
    assert (SP : forall mu, i_mem (geti s i) = Some mu -> b_freed (getb s (m_buf (getm s mu))) = false)
      by (apply SF, rootp_mreach; auto).
    destruct (sim_access pol s t i true k a1 a2 F R C SP) as [R1 [O1 N1]]. splits; auto.
  - cbn [fst snd]. splits; auto; discriminate.
Qed.

Lemma Rel_init : forall n, Rel (minit n) (minit n).
Proof. intro n. constructor; simpl; auto. intros b L; lia. Qed.

Lemma prun_twin : forall pol mods, full pol -> forall ops s t, Inv s -> Rel s t ->
  Forall (fun ab => (fst ab = snd ab \/ fst ab = OErr) /\ fst ab <> OFreed) (prun pol mods s t ops).
Proof.
  intros pol mods F. induction ops as [|o ops IH]; intros s t I R; simpl; [constructor|].
  pose proof (sim_step pol mods s t o F I R) as X. pose proof (Inv_mstep pol mods s o F I) as I1.
  unfold twin_step in X. destruct (mstep pol mods s o) as [s1 a].
  destruct (if twin_go pol mods s o then mstep pol mods t o else (t, skipped o)) as [t1 b].
  cbn [fst snd] in *. destruct X as [X1 [X2 X3]]. constructor; auto.
Qed.

(* (c) *)
Theorem twin_agrees : forall pol mods n ops,
  p_skip_closed pol = false -> p_register pol = true -> p_free_on_close pol = false ->
  Forall (fun ab => (fst ab = snd ab \/ fst ab = OErr) /\ fst ab <> OFreed)
         (prun pol mods (minit n) (minit n) ops).
Proof.
  intros pol mods n ops H1 H2 H3. apply prun_twin; [unfold full; auto | apply Inv_init | apply Rel_init].
Qed.

(* the first component of prun is the run itself *)
Lemma prun_fst : forall pol mods ops s t, map fst (prun pol mods s t ops) = snd (mrun pol mods s ops).
Proof.
  intros pol mods. induction ops as [|o ops IH]; intros s t; simpl; auto.
  destruct (mstep pol mods s o) as [s1 a].
  destruct (if twin_go pol mods s o then mstep pol mods t o else (t, skipped o)) as [t1 b].
  simpl. rewrite IH. destruct (mrun pol mods s1 ops); reflexivity.
Qed.

(* no access of any history touches a freed buffer; retained memories keep their current buffer *)
Theorem never_freed : forall pol mods n ops,
  p_skip_closed pol = false -> p_register pol = true -> p_free_on_close pol = false ->
  ~ In OFreed (snd (mrun pol mods (minit n) ops)) /\
  let s := fst (mrun pol mods (minit n) ops) in
  forall x mu, mreach s x -> i_mem (geti s x) = Some mu -> b_freed (getb s (m_buf (getm s mu))) = false.
Proof.
  intros pol mods n ops H1 H2 H3. split.
  - rewrite <- (prun_fst pol mods ops (minit n) (minit n)). intro K. apply in_map_iff in K.
    destruct K as [[a b] [E K]]. simpl in E; subst a.
    pose proof (twin_agrees pol mods n ops H1 H2 H3) as T. rewrite Forall_forall in T.
    destruct (T _ K) as [_ N]. apply N; reflexivity.
  - intros s x mu R M.
    assert (I : Inv s).
    { apply mrun_fst; [apply Inv_init|]. intros; apply Inv_mstep; auto; unfold full; auto. }
    destruct I as [_ [_ SF]]. eapply SF; eauto.
Qed.

(* non-vacuity of (c): the twin of the stale history; a collection does free buffers and unretained memories *)
Example twin_instance :
  prun notify_all modsAB (minit 2) (minit 2) stale_history =
  [(ONone, ONone); (ONone, ONone); (ONone, ONone); (OVal 111, OVal 111); (ONone, ONone); (ONone, ONone);
   (OVal 1, OVal 1); (ONone, ONone); (OVal 333, OVal 333); (ONone, ONone); (OVal 2, OVal 2); (OVal 2, OVal 2);
   (OVal 333, OVal 333); (OVal 333, OVal 333); (ONone, ONone); (OVal 222, OVal 222)].
Proof. vm_compute. reflexivity. Qed.

Example gc_frees :
  let s := fst (mrun notify_all modsAB (minit 2) [MInst 0; MInst 1; MUse 1 None KGrow 1 0; MGc]) in
  let s' := fst (mrun notify_all modsAB (minit 2) [MInst 0; MInst 1; MUse 1 None KGrow 1 0; MClose 0; MClose 1; MDrop 0; MDrop 1; MGc]) in
  b_freed (getb s 0) = true /\ b_freed (getb s 1) = false /\ b_freed (getb s' 0) = true /\ b_freed (getb s' 1) = true.
Proof. vm_compute. splits; reflexivity. Qed.

(* an exported call on a closed instance still runs: the ordinary error hides a result, not the effect *)
Example closed_call_runs :
  map enc (snd (mrun notify_all modsAB (minit 2)
     [MInst 0; MInst 1; MClose 0; MUse 0 None KStore 8 5; MUse 0 None KGrow 1 0; MUse 1 (Some 1%nat) KLoad 8 0; MUse 1 None KSize 0 0]))
  = [(4, 0); (4, 0); (4, 0); (1, 0); (1, 0); (0, 5); (0, 2)].
Proof. vm_compute. reflexivity. Qed.

(* ------------------------------------------------------------------------------------------ *)
(* a user-supplied allocator: Close of ANY instance bound to a memory frees it under the others (open finding).
   A defines a memory, B imports it (no functions at all). A stores 111. B - the IMPORTER - is closed: A is open,
   its handle held, nothing was collected, and A's load touches a freed buffer. The same with the roles swapped:
   the definer is closed and the importer's load touches a freed buffer. *)
Definition modsAB0 : list mmod := [mkMM SOwn false 4 SNone []; mkMM (SImp 0%nat) false 4 SNone []].
Definition free_history (victim : nat) (live : nat) : list mop :=
  [MInst 0; MInst 1; MUse 0 None KStore 8 111; MUse live None KLoad 8 0; MClose victim; MUse live None KLoad 8 0].

Lemma close_frees_shared_memory :
  (let s := fst (mrun user_allocator modsAB0 (minit 2) (free_history 1 0)) in
   i_closed (geti s 0) = false /\ nth 0 (ms_handle s) None = Some 0%nat /\ i_closed (geti s 1) = true /\
   b_freed (getb s (m_buf (getm s 0))) = true /\ coherentb s = true) /\
  map enc (snd (mrun user_allocator modsAB0 (minit 2) (free_history 1 0))) = [(4, 0); (4, 0); (4, 0); (0, 111); (4, 0); (2, 0)] /\
  map enc (snd (mrun user_allocator modsAB0 (minit 2) (free_history 0 1))) = [(4, 0); (4, 0); (4, 0); (0, 111); (4, 0); (2, 0)] /\
  map enc (snd (mrun notify_all modsAB0 (minit 2) (free_history 1 0))) = [(4, 0); (4, 0); (4, 0); (0, 111); (4, 0); (0, 111)] /\
  map enc (snd (mrun notify_all modsAB0 (minit 2) (free_history 0 1))) = [(4, 0); (4, 0); (4, 0); (0, 111); (4, 0); (0, 111)].
Proof. vm_compute. splits; reflexivity. Qed.
