(* Soundness of the type system of Wasm/Validate.v for the reference semantics W (Wasm/Sem.v), Spec domain:
   a program accepted by the checker, run in a well-formed store from a well-typed frame, never reaches
   TStuck, every value it produces is well-formed at its static type (0 <= v < 2^w), frames and stores stay
   well-typed (preservation), for every fuel. The induction is over the fuel of [exec] and is RELATIONAL: it
   simultaneously shows that any value domain over Z whose operators agree with the specification's on
   well-typed operands (e.g. the completed specification SpecG of Wasm/Slots.v) runs the program in lock step
   with Spec; taking the domain to be Spec itself gives the unary statements. *)
From Coq Require Import ZArith List Bool Lia ZifyBool.
From Verif Require Import Wasm.Numerics Wasm.Sem Wasm.Validate Proofs.NumericsP Proofs.SemP.
Import ListNotations.
Open Scope Z_scope.
Ltac Zify.zify_post_hook ::= Z.div_mod_to_equations.

Definition wfv (w v : Z) : Prop := 0 <= v < 2 ^ w.

(* ================================================================ lists *)
Lemma list_eqb_eq a : forall b, list_eqb a b = true -> a = b.
Proof.
  induction a as [|x a IH]; intros [|y b] H; cbn in H; try discriminate; [reflexivity|].
  apply andb_true_iff in H. destruct H as [H1 H2]. apply Z.eqb_eq in H1. f_equal; auto.
Qed.

Lemma wok_cases w : wok w = true -> w = 32 \/ w = 64.
Proof. unfold wok. rewrite orb_true_iff, !Z.eqb_eq. tauto. Qed.

Lemma prefixb_spec l st : prefixb l st = true -> st = l ++ skipn (length l) st.
Proof.
  unfold prefixb. intros H. apply list_eqb_eq in H.
  rewrite <- (firstn_skipn (length l) st) at 1. rewrite H. reflexivity.
Qed.

Section F2.
Context {A B : Type} (P : A -> B -> Prop).
Lemma F2_firstn n a b : Forall2 P a b -> Forall2 P (firstn n a) (firstn n b).
Proof.
  intros H. revert n. induction H as [|x y a b Hxy H IH]; intros [|n]; cbn; constructor; auto.
Qed.
Lemma F2_skipn n a b : Forall2 P a b -> Forall2 P (skipn n a) (skipn n b).
Proof.
  intros H. revert n. induction H as [|x y a b Hxy H IH]; intros [|n]; cbn; try constructor; auto.
Qed.
Lemma F2_rev a b : Forall2 P a b -> Forall2 P (rev a) (rev b).
Proof. induction 1; cbn; [constructor|]. apply Forall2_app; auto. Qed.
Lemma F2_length a b : Forall2 P a b -> length a = length b.
Proof. induction 1; cbn; congruence. Qed.
Lemma F2_nth a b i x : Forall2 P a b -> nth_error a i = Some x -> exists y, nth_error b i = Some y /\ P x y.
Proof.
  intros H. revert i. induction H as [|x0 y0 a b Hxy H IH]; intros [|i] Hn; cbn in Hn; try discriminate.
  - inversion Hn; subst. exists y0. split; [reflexivity|exact Hxy].
  - apply IH. exact Hn.
Qed.
Lemma F2_nth' a b i y : Forall2 P a b -> nth_error b i = Some y -> exists x, nth_error a i = Some x /\ P x y.
Proof.
  intros H. revert i. induction H as [|x0 y0 a b Hxy H IH]; intros [|i] Hn; cbn in Hn; try discriminate.
  - inversion Hn; subst. exists x0. split; [reflexivity|exact Hxy].
  - apply IH. exact Hn.
Qed.
Lemma F2_upd a b i x y : Forall2 P a b -> nth_error a i = Some x -> P x y -> Forall2 P a (upd b i y).
Proof.
  intros H. revert i. induction H as [|x0 y0 a b Hxy H IH]; intros [|i] Hn Hp; cbn in Hn; try discriminate.
  - inversion Hn; subst. unfold upd. cbn. constructor; assumption.
  - specialize (IH i Hn Hp). unfold upd in *. cbn [length].
    change (Nat.ltb (S i) (S (length b))) with (Nat.ltb i (length b)).
    destruct (Nat.ltb i (length b)); cbn [firstn skipn app]; constructor; auto.
Qed.
(* a typed prefix of a stack *)
Lemma F2_prefix l r b : Forall2 P (l ++ r) b -> Forall2 P l (firstn (length l) b) /\ Forall2 P r (skipn (length l) b).
Proof.
  intros H. apply Forall2_app_inv_l in H. destruct H as (b1 & b2 & H1 & H2 & ->).
  pose proof (F2_length _ _ H1) as E. rewrite E.
  rewrite firstn_app, Nat.sub_diag, firstn_all, firstn_O, app_nil_r.
  rewrite skipn_app, Nat.sub_diag, skipn_all. cbn. auto.
Qed.
End F2.

Lemma forall2b_F2 {A B} (p : A -> B -> bool) a : forall b, forall2b p a b = true <-> Forall2 (fun x y => p x y = true) a b.
Proof.
  induction a as [|x a IH]; intros [|y b]; cbn; split; intros H; try discriminate; try constructor; try (inversion H; fail).
  - apply andb_true_iff in H. tauto.
  - apply IH. apply andb_true_iff in H. tauto.
  - inversion H; subst. apply andb_true_iff. split; [assumption|apply IH; assumption].
Qed.

Lemma wfvb_wfv w v : wfvb w v = true <-> wfv w v.
Proof. unfold wfvb, wfv. rewrite andb_true_iff, Z.leb_le, Z.ltb_lt. reflexivity. Qed.

Lemma F2_wfvb a b : forall2b wfvb a b = true <-> Forall2 wfv a b.
Proof.
  rewrite forall2b_F2. split; intros H; induction H; constructor; auto; apply wfvb_wfv; assumption.
Qed.

Lemma In_firstn' {A} (l : list A) n x : In x (firstn n l) -> In x l.
Proof. revert n. induction l as [|a l IH]; intros [|n]; cbn; try tauto. intros [H|H]; [left; exact H|right; eapply IH; exact H]. Qed.
Lemma In_skipn' {A} (l : list A) n x : In x (skipn n l) -> In x l.
Proof. revert n. induction l as [|a l IH]; intros [|n]; cbn; try tauto. intros H. right. eapply IH; exact H. Qed.

Lemma forallb_upd {A} (p : A -> bool) l i y : forallb p l = true -> p y = true -> forallb p (upd l i y) = true.
Proof.
  intros Hl Hy. rewrite forallb_forall in *. intros x Hx.
  unfold upd in Hx. destruct (Nat.ltb i (length l)); [|auto].
  apply in_app_or in Hx. destruct Hx as [Hx|[Hx|Hx]].
  - apply Hl. eapply In_firstn'; exact Hx.
  - subst. exact Hy.
  - apply Hl. eapply In_skipn'; exact Hx.
Qed.

Lemma forallb_nth {A} (p : A -> bool) l i x : forallb p l = true -> nth_error l i = Some x -> p x = true.
Proof. intros H Hn. rewrite forallb_forall in H. apply H. eapply nth_error_In; exact Hn. Qed.

(* ================================================================ operators *)
Lemma wfv_mono w v : wok w = true -> wfv w v -> wfv 64 v.
Proof. intros Hw. apply wok_cases in Hw. unfold wfv. destruct Hw; subst; simpl Z.pow; lia. Qed.

Lemma wfv_zero w : wok w = true -> wfv w (modN 64 0).
Proof. intros Hw. apply wok_cases in Hw. unfold wfv, modN. destruct Hw; subst; simpl; lia. Qed.

Lemma spec_un_wf o x : vun o = true -> wfv (uin o) x -> wfv (uout o) (spec_un o x).
Proof.
  intros Hv Hx. destruct o as [w u|w| | |]; cbn [vun uin uout spec_un] in *.
  - assert (Hw : w = 32 \/ w = 64).
    { destruct u; first [apply wok_cases; exact Hv | right; apply Z.eqb_eq; exact Hv]. }
    apply iunop_range; [destruct Hw; subst; lia|exact Hx].
  - unfold ieqz, b2z, wfv. destruct (x =? 0); simpl; lia.
  - unfold wrap_i64. apply modN_range. lia.
  - unfold extend_i32_s. apply modN_range. lia.
  - unfold extend_i32_u, wfv in *. simpl Z.pow in *. lia.
Qed.

Lemma spec_bin_wf o x y v : vbin o = true -> wfv (b_in o) x -> wfv (b_in o) y -> spec_bin o x y = Some v -> wfv (b_out o) v.
Proof.
  intros Hv Hx Hy. destruct o as [w b|w r]; cbn [vbin b_in b_out spec_bin] in *; apply wok_cases in Hv.
  - intros E. apply (ibinop_range w b x y v); [lia|exact Hx|exact Hy|exact E].
  - intros [= <-]. destruct (irelop_range w r x y) as [-> | ->]; unfold wfv; simpl; lia.
Qed.

(* ================================================================ memory cells *)
Definition cells_ok (d : list (Z * Z)) : bool := forallb (fun kv => (0 <=? snd kv) && (snd kv <? 256)) d.

Lemma rd_range d a : cells_ok d = true -> 0 <= rd d a < 256.
Proof.
  induction d as [|[k v] d IH]; cbn; intros H; [lia|].
  apply andb_true_iff in H. destruct H as [H1 H2]. destruct (k =? a); [lia|auto].
Qed.

Lemma rd_le_range d n : cells_ok d = true -> forall a, 0 <= rd_le d a n < 2 ^ (8 * Z.of_nat n).
Proof.
  intros H. induction n as [|n IH]; intros a; cbn [rd_le]; [simpl; lia|].
  pose proof (rd_range d a H) as R. specialize (IH (a + 1)).
  replace (8 * Z.of_nat (S n)) with (8 + 8 * Z.of_nat n) by lia.
  rewrite Z.pow_add_r by lia. change (2 ^ 8) with 256. nia.
Qed.

Lemma wr_le_cells n : forall d a v, cells_ok d = true -> cells_ok (wr_le d a n v) = true.
Proof.
  induction n as [|n IH]; intros d a v H; cbn [wr_le]; [exact H|].
  cbn [cells_ok forallb snd]. apply andb_true_iff. split; [lia|]. apply IH. exact H.
Qed.

Lemma nbytes_ok_le n w : nbytes_ok n w = true -> 8 * Z.of_nat n <= w.
Proof. unfold nbytes_ok. rewrite andb_true_iff. lia. Qed.

Lemma load_wf d a n w (sx : bool) : cells_ok d = true -> wok w = true -> nbytes_ok n w = true ->
  wfv w (if sx then sext n w (rd_le d a n) else rd_le d a n).
Proof.
  intros Hc Hw Hn. destruct sx.
  - unfold sext. apply modN_range. apply wok_cases in Hw. lia.
  - pose proof (rd_le_range d n Hc a) as R. apply nbytes_ok_le in Hn. unfold wfv.
    assert (2 ^ (8 * Z.of_nat n) <= 2 ^ w) by (apply Z.pow_le_mono_r; lia). lia.
Qed.

(* ================================================================ well-formed stores *)
(* the store's code is the erasure of T's functions and the store passes the checker's store conditions *)
Definition store_ok (T : tenv) (s : store Spec) : Prop :=
  s_funcs s = map erase_func (t_funcs T) /\ store_okb T s = true.

Lemma store_okb_iff T s : store_okb T s = true <->
  forallb (func_okb T (s_insts s)) (t_funcs T) = true /\
  forallb (tab_okb (length (t_funcs T))) (s_tabs s) = true /\
  forallb wok (t_gt T) = true /\
  Forall2 wfv (t_gt T) (s_globals s) /\
  length (s_mems s) = t_nmems T /\
  forallb mem_okb (s_mems s) = true /\
  forallb (inst_okb T (length (s_tabs s))) (s_insts s) = true.
Proof.
  unfold store_okb. rewrite !andb_true_iff, F2_wfvb, Nat.eqb_eq. tauto.
Qed.

Lemma store_ok_log T s e : store_ok T s -> store_ok T (add_log Spec s e).
Proof. intros H. exact H. Qed.

Lemma store_ok_globals T s g : store_ok T s -> Forall2 wfv (t_gt T) g -> store_ok T (set_globals Spec s g).
Proof.
  intros [Hf H] Hg. split; [exact Hf|]. apply store_okb_iff in H. apply store_okb_iff. cbn. tauto.
Qed.

Lemma store_ok_mems T s m : store_ok T s -> length m = length (s_mems s) -> forallb mem_okb m = true ->
  store_ok T (set_mems Spec s m).
Proof.
  intros [Hf H] Hl Hm. split; [exact Hf|]. apply store_okb_iff in H. apply store_okb_iff. cbn. rewrite Hl. tauto.
Qed.

Lemma store_ok_func T s fa fd : store_ok T s -> nth_error (t_funcs T) fa = Some fd ->
  nth_error (s_funcs s) fa = Some (erase_func fd) /\ func_okb T (s_insts s) fd = true.
Proof.
  intros [Hf H] Hn. split.
  - rewrite Hf. apply map_nth_error. exact Hn.
  - apply store_okb_iff in H. destruct H as (H & _). eapply forallb_nth; eassumption.
Qed.

Lemma mem_okb_iff m : mem_okb m = true <-> 0 <= mlen m /\ mlen m <= mmax m * 65536 /\ mmax m <= 65536 /\ cells_ok (mdata m) = true.
Proof. unfold mem_okb, cells_ok. rewrite !andb_true_iff, !Z.leb_le. tauto. Qed.

Lemma has_mem_the_mem T s ii : store_ok T s -> has_mem T (the_inst Spec s ii) = true ->
  exists ma m, the_mem Spec s ii = Some (ma, m) /\ nth_error (s_mems s) ma = Some m /\ mem_okb m = true.
Proof.
  intros [_ H] Hm. apply store_okb_iff in H. destruct H as (_ & _ & _ & _ & Hl & Hms & _).
  unfold has_mem in Hm. unfold the_mem. destruct (i_mem (the_inst Spec s ii)) as [ma|]; [|discriminate].
  apply Nat.ltb_lt in Hm. rewrite <- Hl in Hm.
  destruct (nth_error (s_mems s) ma) as [m|] eqn:E; [|apply nth_error_None in E; lia].
  exists ma, m. splits; auto. eapply forallb_nth; eassumption.
Qed.

(* ================================================================ soundness *)
Definition is_ctl (i : tinstr) : bool :=
  match i with
  | TBlock _ _ _ | TLoop _ _ _ | TIf _ _ _ _ | TBr _ | TBrIf _ | TBrTable _ _ | TReturn | TCall _ | TCallIndirect _ => true
  | _ => false
  end.

Lemma step_simple_ctl D ii s f ti : is_ctl ti = true -> step_simple D ii s f (erase ti) = SNot.
Proof.
  intros H. destruct ti; try discriminate H; cbn [erase]; unfold step_simple;
    destruct (stack f) as [|? [|? [|? ?]]]; reflexivity.
Qed.

Section Sound.
(* a value domain over Z that differs from Spec in its operators only, and agrees with it on typed operands *)
Variable un : unop -> Z -> Z.
Variable bin : binop -> Z -> Z -> option Z.
Hypothesis Hun : forall o x, vun o = true -> wfv (uin o) x -> un o x = spec_un o x.
Hypothesis Hbin : forall o x y, vbin o = true -> wfv (b_in o) x -> wfv (b_in o) y -> bin o x y = spec_bin o x y.

Definition zd : domain :=
  {| val := Z; of_const := fun w c => modN w c; d_un := un; d_bin := bin;
     truthy := fun x => negb (x =? 0); to_u32 := fun x => modN 32 x; to_bits := fun x => x; of_bits := fun _ b => b |}.
Notation D1 := zd.

Variable host : nat -> list Z -> hostres Z.
Variable listened : nat -> bool.
Variable maxdepth : nat.
Variable T : tenv.

(* stores / frames / outcomes of Spec read as those of D1 (the components are the same lists of integers) *)
Definition cs (s : store Spec) : store D1 :=
  Build_store D1 (s_funcs s) (s_insts s) (s_globals s) (s_mems s) (s_tabs s) (s_log s).
Definition cf (f : frame Spec) : frame D1 := Build_frame D1 (stack f) (locals f).
Definition co (o : out Spec) : out D1 :=
  match o with
  | Normal s f => Normal (cs s) (cf f) | Branch n s f => Branch n (cs s) (cf f) | Ret s f => Ret (cs s) (cf f)
  | Trap t s => Trap t (cs s) | OutOfFuel => OutOfFuel
  end.
Definition ci (r : ires Spec) : ires D1 :=
  match r with IOk s vs => IOk (cs s) vs | ITrap t s => ITrap t (cs s) | IFuel => IFuel end.
Definition csr (r : sres Spec) : sres D1 :=
  match r with SOk s f => SOk (cs s) (cf f) | STrap t => STrap t | SNot => SNot end.

Notation fr1 := (Build_frame D1).
Notation fr2 := (Build_frame Spec).

Ltac inv_F2 :=
  repeat match goal with
  | H : Forall2 _ (_ :: _) ?l |- _ => inversion H; subst; clear H
  | H : Forall2 _ [] ?l |- _ => inversion H; subst; clear H
  end.

Ltac cond Hc :=
  match type of Hc with
  | (if ?c then _ else _) = Some _ =>
      let E := fresh "E" in destruct c eqn:E; [|discriminate Hc];
      repeat (apply andb_true_iff in E; let E2 := fresh "E" in destruct E as [E E2])
  end.
Ltac eqs := repeat match goal with H : (_ =? _) = true |- _ => apply Z.eqb_eq in H; subst end.

(* rewrite with an equation whose left-hand side occurs up to conversion only (implicit type arguments
   val D1 vs Z) as the scrutinee of a match *)
Ltac rw E :=
  match type of E with
  | ?lhs = ?rhs =>
      match goal with
      | |- context [match ?X with _ => _ end] => unify X lhs; replace X with rhs by (symmetry; exact E)
      end
  end.

Lemma step_simple_ok ii s stk lcs lt rt L ti st r :
  store_ok T s -> check_instr T (the_inst Spec s ii) lt rt L ti st = Some r ->
  Forall2 wfv st stk -> Forall2 wfv lt lcs -> is_ctl ti = false ->
  step_simple D1 ii (cs s) (fr1 stk lcs) (erase ti) = csr (step_simple Spec ii s (fr2 stk lcs) (erase ti)) /\
  match step_simple Spec ii s (fr2 stk lcs) (erase ti) with
  | SOk s' f' => store_ok T s' /\ exists st', r = STy st' /\ Forall2 wfv st' (stack f') /\ Forall2 wfv lt (locals f')
  | STrap t => t <> TStuck
  | SNot => False
  end.
Proof.
  intros Hs Hc Hst Hl Hctl.
  destruct ti; try discriminate Hctl; clear Hctl; cbn [check_instr] in Hc; cbn [erase]; unfold step_simple;
    change (the_inst D1 (cs s) ii) with (the_inst Spec s ii); change (the_mem D1 (cs s) ii) with (the_mem Spec s ii);
    cbn [stack locals setstack of_const d_un d_bin truthy to_u32 to_bits of_bits zd Spec val csr cs cf].
  - (* Const *) destruct (wok w) eqn:Hw; [|discriminate]. inversion Hc; subst. split; [reflexivity|].
    split; [exact Hs|]. eexists. splits; [reflexivity| |exact Hl]. cbn. constructor; [|exact Hst].
    apply modN_range. apply wok_cases in Hw. lia.
  - (* Un *) destruct st as [|t st']; [discriminate|]. inv_F2. cond Hc. eqs. inversion Hc; subst.
    rewrite (Hun o y) by assumption. split; [reflexivity|]. split; [exact Hs|].
    eexists. splits; [reflexivity| |exact Hl]. cbn. constructor; [apply spec_un_wf; assumption|assumption].
  - (* Bin *) destruct st as [|t2 [|t1 st']]; try discriminate. inv_F2. cond Hc. eqs. inversion Hc; subst.
    rewrite Hbin by assumption. destruct (spec_bin o y0 y) as [v|] eqn:Eb; cbn [csr].
    + split; [reflexivity|]. split; [exact Hs|]. eexists. splits; [reflexivity| |exact Hl]. cbn.
      constructor; [eapply spec_bin_wf; [eassumption| | |exact Eb]; assumption|assumption].
    + split; [reflexivity|discriminate].
  - (* Drop *) destruct st as [|t st']; [discriminate|]. inv_F2. inversion Hc; subst.
    split; [reflexivity|]. split; [exact Hs|]. eexists. splits; [reflexivity|cbn; assumption|exact Hl].
  - (* Select *) destruct st as [|c [|t2 [|t1 st']]]; try discriminate. inv_F2. cond Hc. eqs. inversion Hc; subst.
    split; [reflexivity|]. split; [exact Hs|]. eexists. splits; [reflexivity| |exact Hl]. cbn.
    constructor; [|assumption]. destruct (negb (y =? 0)); assumption.
  - (* Nop *) inversion Hc; subst. split; [reflexivity|]. split; [exact Hs|]. eexists. splits; [reflexivity|cbn; assumption|exact Hl].
  - (* Unreachable *) split; [reflexivity|discriminate].
  - (* LocalGet *) destruct (nth_error lt i) as [t|] eqn:En; [|discriminate]. inversion Hc; subst.
    destruct (F2_nth _ _ _ _ _ Hl En) as (v & Ev & Hv). rewrite Ev. cbn [csr].
    split; [reflexivity|]. split; [exact Hs|]. eexists. splits; [reflexivity| |exact Hl]. cbn. constructor; assumption.
  - (* LocalSet *) destruct st as [|t st']; [discriminate|]. destruct (nth_error lt i) as [t'|] eqn:En; [|discriminate].
    inv_F2. cond Hc. eqs. inversion Hc; subst.
    split; [reflexivity|]. split; [exact Hs|]. eexists. splits; [reflexivity|cbn; assumption|]. cbn.
    eapply F2_upd; eassumption.
  - (* LocalTee *) destruct st as [|t st']; [discriminate|]. destruct (nth_error lt i) as [t'|] eqn:En; [|discriminate].
    inv_F2. cond Hc. eqs. inversion Hc; subst.
    split; [reflexivity|]. split; [exact Hs|]. eexists. splits; [reflexivity|cbn; constructor; assumption|]. cbn.
    eapply F2_upd; eassumption.
  - (* GlobalGet *) destruct (nth_error (i_globals (the_inst Spec s ii)) i) as [ga|] eqn:Eg; [|discriminate].
    destruct (nth_error (t_gt T) ga) as [t|] eqn:Et; [|discriminate]. inversion Hc; subst.
    pose proof Hs as [_ Hb]. apply store_okb_iff in Hb. destruct Hb as (_ & _ & _ & Hg & _).
    destruct (F2_nth _ _ _ _ _ Hg Et) as (v & Ev & Hv). cbn [s_globals cs]. rewrite Ev. cbn [csr].
    split; [reflexivity|]. split; [exact Hs|]. eexists. splits; [reflexivity| |exact Hl]. cbn. constructor; assumption.
  - (* GlobalSet *) destruct st as [|t st']; [discriminate|].
    destruct (nth_error (i_globals (the_inst Spec s ii)) i) as [ga|] eqn:Eg; [|discriminate].
    destruct (nth_error (t_gt T) ga) as [t'|] eqn:Et; [|discriminate]. inv_F2. cond Hc. eqs. inversion Hc; subst.
    split; [reflexivity|]. split.
    + apply store_ok_globals; [exact Hs|]. pose proof Hs as [_ Hb]. apply store_okb_iff in Hb.
      destruct Hb as (_ & _ & _ & Hg & _). eapply F2_upd; eassumption.
    + eexists. splits; [reflexivity|cbn; assumption|exact Hl].
  - (* Load *) destruct st as [|a st']; [discriminate|]. inv_F2. cond Hc. eqs. inversion Hc; subst.
    destruct (has_mem_the_mem T s ii Hs E) as (ma & m & Em & Hn & Hm). rewrite Em.
    apply mem_okb_iff in Hm. destruct Hm as (M1 & M2 & M3 & M4).
    destruct (modN 32 y + off + Z.of_nat n <=? mlen m); cbn [csr]; [|split; [reflexivity|discriminate]].
    split; [reflexivity|]. split; [exact Hs|]. eexists. splits; [reflexivity| |exact Hl]. cbn.
    constructor; [|assumption]. apply load_wf; assumption.
  - (* Store *) destruct st as [|t [|a st']]; try discriminate. inv_F2. cond Hc. eqs. inversion Hc; subst.
    destruct (has_mem_the_mem T s ii Hs E) as (ma & m & Em & Hn & Hm). rewrite Em.
    apply mem_okb_iff in Hm. destruct Hm as (M1 & M2 & M3 & M4).
    destruct (modN 32 y0 + off + Z.of_nat n <=? mlen m); cbn [csr]; [|split; [reflexivity|discriminate]].
    split; [reflexivity|]. split.
    + apply store_ok_mems; [exact Hs|apply upd_length|]. apply forallb_upd.
      * pose proof Hs as [_ Hb]. apply store_okb_iff in Hb. tauto.
      * apply mem_okb_iff. cbn [mlen mmax mdata]. splits; auto. apply wr_le_cells. exact M4.
    + eexists. splits; [reflexivity|cbn; assumption|exact Hl].
  - (* MemorySize *) cond Hc. inversion Hc; subst.
    destruct (has_mem_the_mem T s ii Hs E) as (ma & m & Em & Hn & Hm). rewrite Em.
    apply mem_okb_iff in Hm. destruct Hm as (M1 & M2 & M3 & M4). cbn [csr].
    split; [reflexivity|]. split; [exact Hs|]. eexists. splits; [reflexivity| |exact Hl]. cbn.
    constructor; [|assumption]. unfold wfv. change (2 ^ 32) with 4294967296. lia.
  - (* MemoryGrow *) destruct st as [|d st']; [discriminate|]. inv_F2. cond Hc. eqs. inversion Hc; subst.
    destruct (has_mem_the_mem T s ii Hs E) as (ma & m & Em & Hn & Hm). rewrite Em.
    apply mem_okb_iff in Hm. destruct Hm as (M1 & M2 & M3 & M4).
    assert (Hd : 0 <= modN 32 y) by (unfold modN; change (2 ^ 32) with 4294967296; lia).
    destruct (Z.leb_spec (mlen m / 65536 + modN 32 y) (mmax m)); cbn [csr].
    + split; [reflexivity|]. split.
      * apply store_ok_mems; [exact Hs|apply upd_length|]. apply forallb_upd.
        -- pose proof Hs as [_ Hb]. apply store_okb_iff in Hb. tauto.
        -- apply mem_okb_iff. cbn [mlen mmax mdata]. splits; auto; lia.
      * eexists. splits; [reflexivity| |exact Hl]. cbn. constructor; [|assumption].
        unfold wfv. change (2 ^ 32) with 4294967296. lia.
    + split; [reflexivity|]. split; [exact Hs|]. eexists. splits; [reflexivity| |exact Hl]. cbn.
      constructor; [|assumption]. unfold wfv. change (2 ^ 32) with 4294967296. lia.
Qed.

(* ---------------------------------------------------------------- typed outcomes *)
Definition typed_prefix (l : list Z) (stk : list Z) : Prop := Forall2 wfv l (firstn (length l) stk).

Definition out_ok (lt rt : list Z) (L : list (list Z)) (res : sty) (o : out Spec) : Prop :=
  match o with
  | Normal s' f' =>
      store_ok T s' /\ match res with
                       | STy st' => Forall2 wfv st' (stack f') /\ Forall2 wfv lt (locals f')
                       | SBot => False end
  | Branch n s' f' =>
      store_ok T s' /\ (exists l, nth_error L n = Some l /\ typed_prefix l (stack f')) /\ Forall2 wfv lt (locals f')
  | Ret s' f' => store_ok T s' /\ typed_prefix rt (stack f')
  | Trap t s' => store_ok T s' /\ t <> TStuck
  | OutOfFuel => True
  end.

Definition ires_ok (tr : list Z) (r : ires Spec) : Prop :=
  match r with
  | IOk s' vs => store_ok T s' /\ Forall2 wfv tr vs
  | ITrap t s' => store_ok T s' /\ t <> TStuck
  | IFuel => True
  end.

(* host functions respect their declared types: results are well-formed values of the result types; a
   re-entrant call targets a guest function with the same result types, with well-typed arguments *)
Definition host_ok : Prop :=
  forall fa h tp tr args, nth_error (t_funcs T) fa = Some (TFHost h tp tr) -> Forall2 wfv tp args ->
  match host h args with
  | HRet vs => Forall2 wfv tr vs
  | HReenter g gargs =>
      exists gi gtp gtl gb, nth_error (t_funcs T) g = Some (TFWasm gi gtp tr gtl gb) /\ Forall2 wfv gtp gargs
  | _ => True
  end.
Hypothesis Hhost : host_ok.

Definition ex_ok (ex1 : nat -> nat -> store D1 -> frame D1 -> list instr -> out D1)
                 (ex2 : nat -> nat -> store Spec -> frame Spec -> list instr -> out Spec) : Prop :=
  forall depth ii s stk lcs lt rt L tis st res,
    store_ok T s -> check_seq T (the_inst Spec s ii) lt rt L tis (STy st) = Some res ->
    Forall2 wfv st stk -> Forall2 wfv lt lcs ->
    ex1 depth ii (cs s) (fr1 stk lcs) (map erase tis) = co (ex2 depth ii s (fr2 stk lcs) (map erase tis)) /\
    out_ok lt rt L res (ex2 depth ii s (fr2 stk lcs) (map erase tis)).

Lemma full_prefix l stk : Forall2 wfv l stk -> typed_prefix l stk.
Proof. intros H. unfold typed_prefix. rewrite (F2_length _ _ _ H), firstn_all. exact H. Qed.

Lemma prefix_typed l st stk : prefixb l st = true -> Forall2 wfv st stk -> typed_prefix l stk.
Proof.
  intros Hp H. apply prefixb_spec in Hp. rewrite Hp in H. apply F2_prefix in H. exact (proj1 H).
Qed.

Lemma tp_rev tr stk : typed_prefix (rev tr) stk -> Forall2 wfv (rev tr) (firstn (length tr) stk).
Proof. unfold typed_prefix. rewrite rev_length. auto. Qed.

Lemma results_typed tr stk : typed_prefix (rev tr) stk -> Forall2 wfv tr (rev (firstn (length tr) stk)).
Proof. intros H. apply tp_rev in H. apply F2_rev in H. rewrite rev_involutive in H. exact H. Qed.

Lemma split_typed tp st stk : prefixb (rev tp) st = true -> Forall2 wfv st stk ->
  Forall2 wfv (rev tp) (firstn (length tp) stk) /\ Forall2 wfv (skipn (length tp) st) (skipn (length tp) stk).
Proof.
  intros Hp H. split; [|apply F2_skipn; exact H].
  apply tp_rev. eapply prefix_typed; eassumption.
Qed.

Lemma args_typed tp st stk : prefixb (rev tp) st = true -> Forall2 wfv st stk ->
  Forall2 wfv tp (rev (firstn (length tp) stk)).
Proof. intros Hp H. apply results_typed. eapply prefix_typed; eassumption. Qed.

Lemma label_ok_spec L st n stk : label_ok L st n = true -> Forall2 wfv st stk ->
  exists l, nth_error L n = Some l /\ typed_prefix l stk.
Proof.
  unfold label_ok. destruct (nth_error L n) as [l|]; [|discriminate]. intros Hp H.
  exists l. split; [reflexivity|eapply prefix_typed; eassumption].
Qed.

Lemma res_ok_spec r want : res_ok r want = true -> r = SBot \/ r = STy want.
Proof. destruct r as [t|]; cbn; [|auto]. intros H. apply list_eqb_eq in H. subst. auto. Qed.

Lemma zeros_wf tl : forallb wok tl = true -> Forall2 wfv tl (zeros Spec (length tl)).
Proof.
  induction tl as [|t tl IH]; cbn; intros H; [constructor|].
  apply andb_true_iff in H. destruct H as [H1 H2]. constructor; [apply wfv_zero; exact H1|apply IH; exact H2].
Qed.

(* ---------------------------------------------------------------- calls *)
Lemma run_body_ok ex1 ex2 depth gi s args tp tr tl body :
  ex_ok ex1 ex2 -> store_ok T s -> func_okb T (s_insts s) (TFWasm gi tp tr tl body) = true -> Forall2 wfv tp args ->
  run_body D1 ex1 depth gi (cs s) args (length tr) (length tl) (map erase body) =
    ci (run_body Spec ex2 depth gi s args (length tr) (length tl) (map erase body)) /\
  ires_ok tr (run_body Spec ex2 depth gi s args (length tr) (length tl) (map erase body)).
Proof.
  intros Hex Hs Hf Ha. cbn [func_okb] in Hf.
  repeat (apply andb_true_iff in Hf; let X := fresh "X" in destruct Hf as [Hf X]).
  destruct (check_seq T (nth gi (s_insts s) dflt_inst) (tp ++ tl) (rev tr) [rev tr] body (STy [])) as [r|] eqn:Hc; [|discriminate].
  unfold run_body. change (zeros D1 (length tl)) with (zeros Spec (length tl)). cbn [val zd Spec].
  assert (Hl : Forall2 wfv (tp ++ tl) (args ++ zeros Spec (length tl))).
  { apply Forall2_app; [exact Ha|apply zeros_wf; assumption]. }
  destruct (Hex depth gi s [] (args ++ zeros Spec (length tl)) (tp ++ tl) (rev tr) [rev tr] body [] r Hs Hc
              (Forall2_nil _) Hl) as [E O].
  rw E.
  match goal with |- _ /\ ires_ok _ (match ?X with _ => _ end) => destruct X as [s' f'|n s' f'|s' f'|t s'|] end;
    cbn [co ci out_ok ires_ok stack cf] in *.
  - split; [reflexivity|]. destruct O as [Hs' O]. split; [exact Hs'|].
    apply res_ok_spec in X. destruct X as [-> | ->]; [contradiction|]. destruct O as [O _].
    apply results_typed. apply full_prefix. exact O.
  - split; [reflexivity|]. destruct O as (Hs' & (l & Hn & Hp) & _). split; [exact Hs'|].
    destruct n as [|n]; cbn in Hn; [|destruct n; discriminate]. inversion Hn; subst. apply results_typed. exact Hp.
  - split; [reflexivity|]. destruct O as [Hs' O]. split; [exact Hs'|]. apply results_typed. exact O.
  - split; [reflexivity|exact O].
  - split; [reflexivity|exact I].
Qed.

Lemma sc_refl2 (s : store Spec) : same_code Spec s s. Proof. unfold same_code; auto. Qed.
Lemma sc_trans2 (a b c : store Spec) : same_code Spec a b -> same_code Spec b c -> same_code Spec a c.
Proof. intros (A1 & A2 & A3) (B1 & B2 & B3). unfold same_code. splits; congruence. Qed.

Lemma bracket_ok fa (args : list Z) s tr k1 k2 :
  store_ok T s ->
  (forall s0, store_ok T s0 -> same_code Spec s s0 -> k1 (cs s0) = ci (k2 s0) /\ ires_ok tr (k2 s0)) ->
  bracket D1 listened fa args (cs s) k1 = ci (bracket Spec listened fa args s k2) /\
  ires_ok tr (bracket Spec listened fa args s k2).
Proof.
  intros Hs Hk. unfold bracket. destruct (listened fa).
  - change (add_log D1 (cs s) (EBefore fa args)) with (cs (add_log Spec s (EBefore fa args))).
    destruct (Hk (add_log Spec s (EBefore fa args)) (store_ok_log T s _ Hs) (add_log_code Spec s _)) as [E O].
    cbn [val zd Spec]. rw E.
    match goal with |- _ /\ ires_ok _ (match ?X with _ => _ end) => destruct X as [s' vs|t s'|] end; cbn [ci ires_ok] in *.
    + split; [reflexivity|]. split; [apply store_ok_log; tauto|tauto].
    + split; [reflexivity|]. split; [apply store_ok_log; tauto|tauto].
    + split; [reflexivity|exact I].
  - apply Hk; [exact Hs|apply sc_refl2].
Qed.

Lemma invoke_ok ex1 ex2 depth s fa fd args :
  ex_ok ex1 ex2 -> store_ok T s -> nth_error (t_funcs T) fa = Some fd -> Forall2 wfv (fst (tsig fd)) args ->
  invoke_with D1 host listened maxdepth ex1 depth (cs s) fa args =
    ci (invoke_with Spec host listened maxdepth ex2 depth s fa args) /\
  ires_ok (snd (tsig fd)) (invoke_with Spec host listened maxdepth ex2 depth s fa args).
Proof.
  intros Hex Hs Hn Ha. unfold invoke_with. apply bracket_ok; [exact Hs|]. intros s0 Hs0 Hsc.
  destruct (Nat.ltb maxdepth depth).
  { cbn [ci ires_ok]. split; [reflexivity|]. split; [exact Hs0|discriminate]. }
  change (s_funcs (cs s0)) with (s_funcs s0).
  destruct (store_ok_func T s0 fa fd Hs0 Hn) as [Ef Hf]. rewrite Ef.
  destruct fd as [gi tp tr tl body|h tp tr]; cbn [erase_func tsig fst snd] in *.
  - apply (run_body_ok ex1 ex2 (S depth) gi s0 args tp tr tl body); assumption.
  - pose proof (Hhost fa h tp tr args Hn Ha) as Hh. cbv zeta. cbn [val zd Spec].
    change (add_log D1 (cs s0) (EHost h args)) with (cs (add_log Spec s0 (EHost h args))).
    destruct (host h args) as [vs|c|c|g gargs]; cbn [ci ires_ok].
    + split; [reflexivity|]. split; [apply store_ok_log; exact Hs0|exact Hh].
    + split; [reflexivity|]. split; [apply store_ok_log; exact Hs0|discriminate].
    + split; [reflexivity|]. split; [apply store_ok_log; exact Hs0|discriminate].
    + destruct Hh as (gi & gtp & gtl & gb & Hg & Hga).
      pose proof (store_ok_log T s0 (EHost h args) Hs0) as Hs1.
      change (s_funcs (cs (add_log Spec s0 (EHost h args)))) with (s_funcs (add_log Spec s0 (EHost h args))).
      destruct (store_ok_func T _ g _ Hs1 Hg) as [Eg Hfg]. rewrite !Eg. cbn [erase_func].
      apply (bracket_ok g gargs (add_log Spec s0 (EHost h args)) tr
               (fun s2 => run_body D1 ex1 (S (S depth)) gi s2 gargs (length tr) (length gtl) (map erase gb))
               (fun s2 => run_body Spec ex2 (S (S depth)) gi s2 gargs (length tr) (length gtl) (map erase gb)));
        [exact Hs1|]. intros s2 Hs2 Hsc2.
      apply (run_body_ok ex1 ex2 (S (S depth)) gi s2 gargs gtp tr gtl gb); try assumption.
      destruct (store_ok_func T s2 g _ Hs2 Hg) as [_ Hf2]. exact Hf2.
Qed.

(* ---------------------------------------------------------------- the main induction *)
Lemma the_inst_sc (s s' : store Spec) ii : same_code Spec s s' -> the_inst Spec s' ii = the_inst Spec s ii.
Proof. intros (_ & H & _). unfold the_inst. rewrite H. reflexivity. Qed.

Lemma loop_typed tp st a b : prefixb (rev tp) st = true ->
  Forall2 wfv (rev tp) a -> Forall2 wfv (skipn (length tp) st) b -> Forall2 wfv st (a ++ b).
Proof.
  intros Hp Ha Hb. rewrite (prefixb_spec _ _ Hp), rev_length. apply Forall2_app; assumption.
Qed.

Lemma label_ok_nth L r ls d k : label_ok L r d = true -> forallb (label_ok L r) ls = true ->
  label_ok L r (nth k ls d) = true.
Proof.
  intros Hd Hl. destruct (nth_in_or_default k ls d) as [Hin| ->]; [|exact Hd].
  rewrite forallb_forall in Hl. apply Hl. exact Hin.
Qed.

Ltac pf := match goal with H : prefixb _ _ = true |- _ => rename H into Hpf end.
Ltac dex2 ipat :=
  match goal with |- _ /\ out_ok _ _ _ _ (match ?X with _ => _ end) => destruct X as ipat end.

Theorem exec_sound fuel : ex_ok (exec D1 host listened maxdepth fuel) (exec Spec host listened maxdepth fuel).
Proof.
  induction fuel as [|fu IH]; intros depth ii s stk lcs lt rt L tis st res Hs Hc Hst Hl.
  { cbn. split; [reflexivity|exact I]. }
  destruct tis as [|ti rest].
  { cbn in Hc. inversion Hc; subst. cbn. split; [reflexivity|]. split; [exact Hs|split; assumption]. }
  pose proof Hc as Hc0.
  unfold check_seq in Hc. cbn [check_seq_with] in Hc.
  change (check_seq_with (check_instr T (the_inst Spec s ii) lt rt)) with (check_seq T (the_inst Spec s ii) lt rt) in Hc.
  destruct (check_instr T (the_inst Spec s ii) lt rt L ti st) as [r1|] eqn:Hi; [|discriminate].
  cbn [map]. cbn [Sem.exec].
  assert (Hcont : forall s' stk' lcs' st', store_ok T s' -> same_code Spec s s' -> Forall2 wfv st' stk' -> Forall2 wfv lt lcs' ->
     check_seq T (the_inst Spec s ii) lt rt L rest (STy st') = Some res ->
     exec D1 host listened maxdepth fu depth ii (cs s') (fr1 stk' lcs') (map erase rest) =
       co (exec Spec host listened maxdepth fu depth ii s' (fr2 stk' lcs') (map erase rest)) /\
     out_ok lt rt L res (exec Spec host listened maxdepth fu depth ii s' (fr2 stk' lcs') (map erase rest))).
  { intros s' stk' lcs' st' Hs' Hsc Hst' Hl' Hc'. apply (IH depth ii s' stk' lcs' lt rt L rest st' res); auto.
    rewrite (the_inst_sc s s' ii) by assumption. assumption. }
  destruct (is_ctl ti) eqn:Hctl.
  2: { (* instructions without control flow or calls *)
    destruct (step_simple_ok ii s stk lcs lt rt L ti st r1 Hs Hi Hst Hl Hctl) as [Es Os].
    rw Es.
    match goal with |- _ /\ out_ok _ _ _ _ (match ?X with _ => _ end) => destruct X as [s' f'|t|] eqn:E2 end; cbn [csr].
    - destruct Os as (Hs' & st' & -> & Hst' & Hl'). destruct f' as [stk' lcs']. cbn [cf stack locals] in *.
      apply (Hcont s' stk' lcs' st'); auto.
      exact (proj1 (step_simple_log Spec ii s _ _ s' _ E2)).
    - cbn [co out_ok]. split; [reflexivity|]. split; [exact Hs|exact Os].
    - contradiction. }
  rewrite !step_simple_ctl by exact Hctl.
  change (the_inst D1 (cs s) ii) with (the_inst Spec s ii).
  (* structured control: a body run on the block's parameters, then the continuation on its results *)
  assert (Hblk : forall (tp tr : list Z) (tb : list tinstr) rb stk0 st0,
    check_seq T (the_inst Spec s ii) lt rt (rev tr :: L) tb (STy (rev tp)) = Some rb -> res_ok rb (rev tr) = true ->
    Forall2 wfv (rev tp) (firstn (length tp) stk0) -> Forall2 wfv st0 (skipn (length tp) stk0) ->
    check_seq T (the_inst Spec s ii) lt rt L rest (STy (rev tr ++ st0)) = Some res ->
    match exec D1 host listened maxdepth fu depth ii (cs s) (fr1 (firstn (length tp) stk0) lcs) (map erase tb) with
    | Normal s' f' | Branch O s' f' =>
        exec D1 host listened maxdepth fu depth ii s' (fr1 (firstn (length tr) (stack f') ++ skipn (length tp) stk0) (locals f')) (map erase rest)
    | Branch (S n) s' f' => Branch n s' f'
    | o => o
    end =
    co match exec Spec host listened maxdepth fu depth ii s (fr2 (firstn (length tp) stk0) lcs) (map erase tb) with
       | Normal s' f' | Branch O s' f' =>
           exec Spec host listened maxdepth fu depth ii s' (fr2 (firstn (length tr) (stack f') ++ skipn (length tp) stk0) (locals f')) (map erase rest)
       | Branch (S n) s' f' => Branch n s' f'
       | o => o
       end /\
    out_ok lt rt L res
       match exec Spec host listened maxdepth fu depth ii s (fr2 (firstn (length tp) stk0) lcs) (map erase tb) with
       | Normal s' f' | Branch O s' f' =>
           exec Spec host listened maxdepth fu depth ii s' (fr2 (firstn (length tr) (stack f') ++ skipn (length tp) stk0) (locals f')) (map erase rest)
       | Branch (S n) s' f' => Branch n s' f'
       | o => o
       end).
  { intros tp tr tb rb stk0 st0 Hb Hr Hp Hrest Hc'.
    destruct (IH depth ii s (firstn (length tp) stk0) lcs lt rt (rev tr :: L) tb (rev tp) rb Hs Hb Hp Hl) as [Eb Ob].
    pose proof (exec_same_code Spec host listened maxdepth fu depth ii s (fr2 (firstn (length tp) stk0) lcs) (map erase tb)) as Hsc.
    rw Eb.
    dex2 ipattern:([s' [stk' lcs']|[|n] s' [stk' lcs']|s' f'|t s'|]); cbn [co cf stack locals out_ok out_R] in *.
    - destruct Ob as [Hs' Ob]. apply res_ok_spec in Hr. destruct Hr as [-> | ->]; [contradiction|]. destruct Ob as [Ob1 Ob2].
      apply (Hcont s' _ lcs' (rev tr ++ st0)); auto.
      apply Forall2_app; [apply tp_rev, full_prefix; exact Ob1|exact Hrest].
    - destruct Ob as (Hs' & (l & Hn & Hpre) & Ob2). cbn in Hn. inversion Hn; subst l.
      apply (Hcont s' _ lcs' (rev tr ++ st0)); auto.
      apply Forall2_app; [apply tp_rev; exact Hpre|exact Hrest].
    - split; [reflexivity|]. destruct Ob as (Hs' & (l & Hn & Hpre) & Ob2). cbn in Hn.
      split; [exact Hs'|]. split; [exists l; auto|exact Ob2].
    - split; [reflexivity|exact Ob].
    - split; [reflexivity|exact Ob].
    - split; [reflexivity|exact I]. }
  (* calls: invoke, then the continuation on the results *)
  assert (Hinv : forall fa fd (args rstk rst : list Z),
    nth_error (t_funcs T) fa = Some fd -> Forall2 wfv (fst (tsig fd)) args -> Forall2 wfv rst rstk ->
    check_seq T (the_inst Spec s ii) lt rt L rest (STy (rev (snd (tsig fd)) ++ rst)) = Some res ->
    match invoke_with D1 host listened maxdepth (exec D1 host listened maxdepth fu) depth (cs s) fa args with
    | IOk s' vs => exec D1 host listened maxdepth fu depth ii s' (fr1 (rev vs ++ rstk) lcs) (map erase rest)
    | ITrap t s' => Trap t s'
    | IFuel => OutOfFuel
    end =
    co match invoke_with Spec host listened maxdepth (exec Spec host listened maxdepth fu) depth s fa args with
       | IOk s' vs => exec Spec host listened maxdepth fu depth ii s' (fr2 (rev vs ++ rstk) lcs) (map erase rest)
       | ITrap t s' => Trap t s'
       | IFuel => OutOfFuel
       end /\
    out_ok lt rt L res
       match invoke_with Spec host listened maxdepth (exec Spec host listened maxdepth fu) depth s fa args with
       | IOk s' vs => exec Spec host listened maxdepth fu depth ii s' (fr2 (rev vs ++ rstk) lcs) (map erase rest)
       | ITrap t s' => Trap t s'
       | IFuel => OutOfFuel
       end).
  { intros fa fd args rstk rst Hn Ha Hrest Hc'.
    destruct (invoke_ok _ _ depth s fa fd args IH Hs Hn Ha) as [Ei Oi].
    pose proof (invoke_same_code Spec host listened maxdepth fu depth s fa args) as Hsc.
    rw Ei.
    dex2 ipattern:([s' vs|t s'|]); cbn [ci co ires_ok ires_R out_ok] in *.
    - destruct Oi as [Hs' Hvs]. apply (Hcont s' _ lcs (rev (snd (tsig fd)) ++ rst)); auto.
      apply Forall2_app; [apply F2_rev; exact Hvs|exact Hrest].
    - split; [reflexivity|exact Oi].
    - split; [reflexivity|exact I]. }
  destruct ti; try discriminate Hctl; clear Hctl; cbn [erase]; cbn [check_instr] in Hi; cbn [stack locals setstack]; cbn [val zd Spec].
  - (* Block *)
    cond Hi. change (check_seq_with (check_instr T (the_inst Spec s ii) lt rt)) with (check_seq T (the_inst Spec s ii) lt rt) in Hi.
    destruct (check_seq T (the_inst Spec s ii) lt rt (rev tr :: L) body (STy (rev tp))) as [rb|] eqn:Hb; [|discriminate].
    destruct (res_ok rb (rev tr)) eqn:Hr; [|discriminate]. inversion Hi; subst r1.
    pf. destruct (split_typed tp st stk Hpf Hst) as [Hp Hrest].
    apply (Hblk tp tr body rb stk (skipn (length tp) st)); assumption.
  - (* Loop *)
    cond Hi. change (check_seq_with (check_instr T (the_inst Spec s ii) lt rt)) with (check_seq T (the_inst Spec s ii) lt rt) in Hi.
    destruct (check_seq T (the_inst Spec s ii) lt rt (rev tp :: L) body (STy (rev tp))) as [rb|] eqn:Hb; [|discriminate].
    destruct (res_ok rb (rev tr)) eqn:Hr; [|discriminate]. inversion Hi; subst r1.
    pf. destruct (split_typed tp st stk Hpf Hst) as [Hp Hrest].
    destruct (IH depth ii s (firstn (length tp) stk) lcs lt rt (rev tp :: L) body (rev tp) rb Hs Hb Hp Hl) as [Eb Ob].
    pose proof (exec_same_code Spec host listened maxdepth fu depth ii s (fr2 (firstn (length tp) stk) lcs) (map erase body)) as Hsc.
    rw Eb.
    dex2 ipattern:([s' [stk' lcs']|[|n] s' [stk' lcs']|s' f'|t s'|]); cbn [co cf stack locals out_ok out_R] in *.
    + destruct Ob as [Hs' Ob]. apply res_ok_spec in Hr. destruct Hr as [-> | ->]; [contradiction|]. destruct Ob as [Ob1 Ob2].
      apply (Hcont s' _ lcs' (rev tr ++ skipn (length tp) st)); auto.
      apply Forall2_app; [apply tp_rev, full_prefix; exact Ob1|exact Hrest].
    + (* branch to the loop header: run the loop again on the new parameters *)
      destruct Ob as (Hs' & (l & Hn & Hpre) & Ob2). cbn in Hn. inversion Hn; subst l.
      change (Loop (length tp) (length tr) (map erase body) :: map erase rest) with (map erase (TLoop tp tr body :: rest)).
      apply (IH depth ii s' _ lcs' lt rt L (TLoop tp tr body :: rest) st res); auto.
      * rewrite (the_inst_sc s s' ii) by assumption. exact Hc0.
      * eapply loop_typed; [exact Hpf|apply tp_rev; exact Hpre|exact Hrest].
    + split; [reflexivity|]. destruct Ob as (Hs' & (l & Hn & Hpre) & Ob2). cbn in Hn.
      split; [exact Hs'|]. split; [exists l; auto|exact Ob2].
    + split; [reflexivity|exact Ob].
    + split; [reflexivity|exact Ob].
    + split; [reflexivity|exact I].
  - (* If *)
    destruct st as [|c st']; [discriminate|]. inv_F2.
    cond Hi. eqs. change (check_seq_with (check_instr T (the_inst Spec s ii) lt rt)) with (check_seq T (the_inst Spec s ii) lt rt) in Hi.
    destruct (check_seq T (the_inst Spec s ii) lt rt (rev tr :: L) t (STy (rev tp))) as [r1'|] eqn:Hb1; [|discriminate].
    destruct (check_seq T (the_inst Spec s ii) lt rt (rev tr :: L) e (STy (rev tp))) as [r2'|] eqn:Hb2; [|discriminate].
    cond Hi. inversion Hi; subst r1.
    pf. match goal with H : Forall2 wfv st' ?l |- _ => destruct (split_typed tp st' l Hpf H) as [Hp Hrest] end.
    cbn [truthy zd Spec]. destruct (negb (y =? 0)).
    + apply (Hblk tp tr t r1' _ (skipn (length tp) st')); assumption.
    + apply (Hblk tp tr e r2' _ (skipn (length tp) st')); assumption.
  - (* Br *)
    cond Hi. inversion Hi; subst r1. cbn [co cf stack locals out_ok]. split; [reflexivity|].
    split; [exact Hs|]. split; [eapply label_ok_spec; eassumption|exact Hl].
  - (* BrIf *)
    destruct st as [|c st']; [discriminate|]. inv_F2. cond Hi. eqs. inversion Hi; subst r1.
    cbn [truthy zd Spec]. destruct (negb (y =? 0)).
    + cbn [co cf stack locals out_ok]. split; [reflexivity|].
      split; [exact Hs|]. split; [eapply label_ok_spec; eassumption|exact Hl].
    + apply (Hcont s _ lcs st'); auto. apply sc_refl2.
  - (* BrTable *)
    destruct st as [|c st']; [discriminate|]. inv_F2. cond Hi. eqs. inversion Hi; subst r1.
    cbn [to_u32 zd Spec]. cbn [co cf stack locals out_ok]. split; [reflexivity|].
    split; [exact Hs|]. split; [|exact Hl].
    destruct (modN 32 y <? Z.of_nat (length ls)).
    + eapply label_ok_spec; [|eassumption]. apply label_ok_nth; assumption.
    + eapply label_ok_spec; eassumption.
  - (* Return *)
    cond Hi. inversion Hi; subst r1. cbn [co cf stack locals out_ok]. split; [reflexivity|].
    split; [exact Hs|]. eapply prefix_typed; eassumption.
  - (* Call *)
    destruct (nth_error (i_funcs (the_inst Spec s ii)) f) as [fa|] eqn:Ek; [|discriminate].
    destruct (nth_error (t_funcs T) fa) as [fd|] eqn:En; [|discriminate]. cbv zeta in Hi. cond Hi. inversion Hi; subst r1.
    change (s_funcs (cs s)) with (s_funcs s).
    destruct (store_ok_func T s fa fd Hs En) as [Ef _]. rewrite Ef.
    pf. destruct (split_typed _ st stk Hpf Hst) as [_ Hrest].
    pose proof (args_typed _ st stk Hpf Hst) as Ha.
    destruct fd as [gi tp tr tl body|h tp tr]; cbn [erase_func tsig fst snd] in *.
    + apply (Hinv fa (TFWasm gi tp tr tl body) _ _ (skipn (length tp) st)); assumption.
    + apply (Hinv fa (TFHost h tp tr) _ _ (skipn (length tp) st)); assumption.
  - (* CallIndirect *)
    destruct st as [|c st']; [discriminate|]. inv_F2.
    destruct (i_tab (the_inst Spec s ii)) as [ta|] eqn:Et; [|discriminate].
    destruct (nth_error (i_types (the_inst Spec s ii)) ty) as [[tp tr]|] eqn:Ety; [|discriminate].
    cond Hi. eqs. inversion Hi; subst r1.
    change (s_tabs (cs s)) with (s_tabs s). change (s_funcs (cs s)) with (s_funcs s). cbn [to_u32 zd Spec]. cbv zeta.
    destruct (modN 32 y <? Z.of_nat (length (nth ta (s_tabs s) []))); [|cbn [co out_ok]; split; [reflexivity|split; [exact Hs|discriminate]]].
    destruct (nth_error (nth ta (s_tabs s) []) (Z.to_nat (modN 32 y))) as [[fa|]|] eqn:Ee;
      try (cbn [co out_ok]; split; [reflexivity|split; [exact Hs|discriminate]]).
    (* the table entry is an existing function *)
    assert (Hfa : exists fd, nth_error (t_funcs T) fa = Some fd).
    { pose proof Hs as [_ Hb]. apply store_okb_iff in Hb. destruct Hb as (_ & Htabs & _).
      assert (Hin : In (Some fa) (nth ta (s_tabs s) [])) by (eapply nth_error_In; exact Ee).
      destruct (nth_in_or_default ta (s_tabs s) []) as [Hin2|Hd]; [|rewrite Hd in Hin; destruct Hin].
      rewrite forallb_forall in Htabs. specialize (Htabs _ Hin2). unfold tab_okb in Htabs.
      rewrite forallb_forall in Htabs. specialize (Htabs _ Hin). apply Nat.ltb_lt in Htabs.
      destruct (nth_error (t_funcs T) fa) as [fd|] eqn:En; [eauto|]. apply nth_error_None in En. lia. }
    destruct Hfa as [fd En]. destruct (store_ok_func T s fa fd Hs En) as [Ef _]. rewrite Ef.
    rewrite (nth_error_nth _ _ ([], []) Ety). cbn [fst snd].
    pf. match goal with H : Forall2 wfv st' ?l |- _ =>
      destruct (split_typed _ st' l Hpf H) as [_ Hrest]; pose proof (args_typed _ st' l Hpf H) as Ha end.
    destruct fd as [gi ftp ftr tl body|h ftp ftr]; cbn [erase_func];
      (destruct (list_eqb ftp tp) eqn:Q1; [|cbn [andb co out_ok]; split; [reflexivity|split; [exact Hs|discriminate]]];
       destruct (list_eqb ftr tr) eqn:Q2; [|cbn [andb co out_ok]; split; [reflexivity|split; [exact Hs|discriminate]]];
       apply list_eqb_eq in Q1, Q2; subst ftp ftr; cbn [andb]).
    + apply (Hinv fa (TFWasm gi tp tr tl body) _ _ (skipn (length tp) st')); assumption.
    + apply (Hinv fa (TFHost h tp tr) _ _ (skipn (length tp) st')); assumption.
Qed.

End Sound.

(* ---- export calls and histories ---- *)
Lemma list_eqb_refl l : list_eqb l l = true.
Proof. induction l as [|x l IH]; cbn; [reflexivity|]. rewrite Z.eqb_refl. exact IH. Qed.

Lemma prefixb_refl l : prefixb l l = true.
Proof. unfold prefixb. rewrite firstn_all. apply list_eqb_refl. Qed.

Definition drv_inst (fa : nat) : inst := {| i_funcs := [fa]; i_globals := []; i_mem := None; i_tab := None; i_types := [] |}.
Definition with_insts (s : store Spec) (l : list inst) : store Spec :=
  {| s_funcs := s_funcs s; s_insts := l; s_globals := s_globals s; s_mems := s_mems s; s_tabs := s_tabs s; s_log := s_log s |}.

Lemma func_okb_app T insts extra fd : func_okb T insts fd = true -> func_okb T (insts ++ extra) fd = true.
Proof.
  destruct fd as [gi tp tr tl body|h tp tr]; cbn [func_okb]; [|auto].
  rewrite !andb_true_iff. intros ((((H1 & H2) & H3) & H4) & H5). apply Nat.ltb_lt in H1.
  splits; auto.
  - apply Nat.ltb_lt. rewrite app_length. lia.
  - rewrite app_nth1 by exact H1. exact H5.
Qed.

Lemma store_ok_drv T s fa fd : store_ok T s -> nth_error (t_funcs T) fa = Some fd ->
  store_ok T (with_insts s (s_insts s ++ [drv_inst fa])).
Proof.
  intros [Hf Hb] Hn. split; [exact Hf|]. apply store_okb_iff in Hb. apply store_okb_iff. cbn [with_insts s_insts s_tabs s_globals s_mems].
  destruct Hb as (H1 & H2 & H3 & H4 & H5 & H6 & H7). splits; auto.
  - rewrite forallb_forall in *. intros x Hx. apply func_okb_app. apply H1. exact Hx.
  - rewrite forallb_app, H7. cbn [andb forallb]. rewrite andb_true_r.
    unfold inst_okb, drv_inst. cbn [i_funcs i_globals i_mem i_tab i_types forallb]. rewrite !andb_true_r.
    apply Nat.ltb_lt. apply nth_error_Some. congruence.
Qed.

Lemma store_ok_strip T s s' : store_ok T s -> store_ok T s' -> s_tabs s' = s_tabs s ->
  store_ok T (with_insts s' (s_insts s)).
Proof.
  intros [_ Hb] [Hf' Hb'] Ht. split; [exact Hf'|]. apply store_okb_iff in Hb, Hb'. apply store_okb_iff.
  cbn [with_insts s_insts s_tabs s_globals s_mems]. rewrite Ht. tauto.
Qed.


(* ================================================================ the unary statements (domain Spec) *)
Section Unary.
Variable host : nat -> list Z -> hostres Z.
Variable listened : nat -> bool.
Variable maxdepth : nat.
Variable T : tenv.
Hypothesis Hhost : host_ok host T.

(* preservation + progress for instruction sequences: from a well-formed store and a frame typed by the
   checker's input state, the outcome is never TStuck, the store stays well-formed, and the frame handed on
   (fall-through, branch, return) is typed by what the checker computed *)
Theorem exec_typed fuel depth ii s stk lcs lt rt L tis st res :
  store_ok T s -> check_seq T (the_inst Spec s ii) lt rt L tis (STy st) = Some res ->
  Forall2 wfv st stk -> Forall2 wfv lt lcs ->
  out_ok T lt rt L res (exec Spec host listened maxdepth fuel depth ii s (Build_frame Spec stk lcs) (map erase tis)).
Proof.
  intros Hs Hc Hst Hl.
  exact (proj2 (exec_sound spec_un spec_bin (fun _ _ _ _ => eq_refl) (fun _ _ _ _ _ _ => eq_refl)
                  host listened maxdepth T Hhost fuel depth ii s stk lcs lt rt L tis st res Hs Hc Hst Hl)).
Qed.

Corollary exec_no_stuck fuel depth ii s stk lcs lt rt L tis st res s' :
  store_ok T s -> check_seq T (the_inst Spec s ii) lt rt L tis (STy st) = Some res ->
  Forall2 wfv st stk -> Forall2 wfv lt lcs ->
  exec Spec host listened maxdepth fuel depth ii s (Build_frame Spec stk lcs) (map erase tis) <> Trap TStuck s'.
Proof.
  intros Hs Hc Hst Hl E. pose proof (exec_typed fuel depth ii s stk lcs lt rt L tis st res Hs Hc Hst Hl) as H.
  rewrite E in H. cbn in H. destruct H as [_ H]. apply H. reflexivity.
Qed.

Definition result_ok (tr : list Z) (r : result Spec) : Prop :=
  match r with RVals vs => Forall2 wfv tr vs | RTrap t => t <> TStuck | RFuel => True end.

Theorem call_export_typed fuel s fa fd args :
  store_ok T s -> nth_error (t_funcs T) fa = Some fd -> Forall2 wfv (fst (tsig fd)) args ->
  store_ok T (fst (call_export Spec host listened maxdepth fuel s fa args)) /\
  result_ok (snd (tsig fd)) (snd (call_export Spec host listened maxdepth fuel s fa args)).
Proof.
  intros Hs Hn Ha. destruct (store_ok_func T s fa fd Hs Hn) as [Ef _].
  set (tp := fst (tsig fd)) in *. set (tr := snd (tsig fd)) in *.
  pose proof (store_ok_drv T s fa fd Hs Hn) as Hs1.
  set (s1 := with_insts s (s_insts s ++ [drv_inst fa])) in *.
  assert (Hme : the_inst Spec s1 (length (s_insts s)) = drv_inst fa).
  { unfold the_inst, s1. cbn [with_insts s_insts]. rewrite app_nth2 by lia. rewrite Nat.sub_diag. reflexivity. }
  assert (Hc : check_seq T (the_inst Spec s1 (length (s_insts s))) [] (rev tr) [] [TCall 0] (STy (rev tp)) =
               Some (STy (rev tr ++ skipn (length tp) (rev tp)))).
  { rewrite Hme. unfold check_seq. cbn [check_seq_with check_instr drv_inst i_funcs nth_error]. rewrite Hn.
    fold tp tr. rewrite prefixb_refl. reflexivity. }
  set (o := exec Spec host listened maxdepth fuel 0 (length (s_insts s)) s1 (Build_frame Spec (rev args) []) [Call 0]).
  assert (Ho : out_ok T [] (rev tr) [] (STy (rev tr ++ skipn (length tp) (rev tp))) o).
  { exact (exec_typed fuel O (length (s_insts s)) s1 (rev args) [] [] (rev tr) [] [TCall 0] (rev tp) _ Hs1 Hc
                (F2_rev _ _ _ Ha) (Forall2_nil _)). }
  assert (Hsc : out_R Spec (same_code Spec) s1 o).
  { exact (exec_same_code Spec host listened maxdepth fuel O (length (s_insts s)) s1 (Build_frame Spec (rev args) []) [Call 0]). }
  assert (Hnr : length tr = match erase_func fd with FWasm _ _ r _ _ | FHost _ _ r => length r end).
  { destruct fd; reflexivity. }
  unfold call_export. rewrite Ef.
  assert (Hstrip : forall s', store_ok T s' -> same_code Spec s1 s' ->
            store_ok T {| s_funcs := s_funcs s'; s_insts := firstn (length (s_insts s)) (s_insts s'); s_globals := s_globals s';
                          s_mems := s_mems s'; s_tabs := s_tabs s'; s_log := s_log s' |}).
  { intros s' Hs' (_ & Hi & Ht). rewrite Hi. unfold s1. cbn [with_insts s_insts]. rewrite firstn_app_exact.
    apply (store_ok_strip T s s' Hs Hs'). rewrite Ht. reflexivity. }
  assert (Hskip : skipn (length tp) (rev tp) = []) by (apply skipn_all2; rewrite rev_length; lia).
  rewrite Hskip, app_nil_r in Ho.
  destruct fd as [gi ftp ftr tl body|h ftp ftr]; cbn [erase_func tsig fst snd] in *; subst tp tr;
    (match goal with |- context [fst (match ?X with _ => _ end)] => change X with o end;
     destruct o as [s' f'|n s' f'|s' f'|t s'|];
     cbn [fst snd out_ok out_R result_ok] in *;
     [ destruct Ho as [Hs' [Ho _]]; split; [apply Hstrip; assumption|apply results_typed, full_prefix; exact Ho]
     | destruct Ho as (_ & (l & Hl & _) & _); destruct n; discriminate Hl
     | destruct Ho as [Hs' Ho]; split; [apply Hstrip; assumption|apply results_typed; exact Ho]
     | destruct Ho as [Hs' Ho]; split; [apply Hstrip; assumption|exact Ho]
     | split; [exact Hs|exact I] ]).
Qed.

(* a history of well-typed calls *)
Definition call_typed (c : nat * list Z) : Prop :=
  exists fd, nth_error (t_funcs T) (fst c) = Some fd /\ Forall2 wfv (fst (tsig fd)) (snd c).

Theorem run_calls_typed fuel calls : forall s, store_ok T s -> Forall call_typed calls ->
  store_ok T (fst (run_calls Spec host listened maxdepth fuel s calls)) /\
  Forall (fun r => r <> RTrap TStuck) (snd (run_calls Spec host listened maxdepth fuel s calls)).
Proof.
  induction calls as [|[fa args] r IH]; intros s Hs Hc; cbn [run_calls].
  - cbn. split; [exact Hs|constructor].
  - inversion Hc as [|c cs' [fd [Hn Ha]] Hr]; subst. cbn [fst snd] in *.
    pose proof (call_export_typed fuel s fa fd args Hs Hn Ha) as [H1 H2].
    destruct (call_export Spec host listened maxdepth fuel s fa args) as [s1 x]. cbn [fst snd] in *.
    specialize (IH s1 H1 Hr).
    destruct (run_calls Spec host listened maxdepth fuel s1 r) as [s2 xs]. cbn [fst snd] in *.
    split; [tauto|]. constructor; [|tauto].
    intros E. subst x. cbn in H2. apply H2. reflexivity.
Qed.
End Unary.

(* the driver frame of call_export: [Call 0] in the synthetic instance whose function 0 is [fa] *)
Lemma drv_check T (s : store Spec) fa fd : nth_error (t_funcs T) fa = Some fd ->
  check_seq T (the_inst Spec (with_insts s (s_insts s ++ [drv_inst fa])) (length (s_insts s))) [] (rev (snd (tsig fd))) []
    [TCall 0] (STy (rev (fst (tsig fd)))) = Some (STy (rev (snd (tsig fd)))).
Proof.
  intros Hn.
  assert (Hme : the_inst Spec (with_insts s (s_insts s ++ [drv_inst fa])) (length (s_insts s)) = drv_inst fa).
  { unfold the_inst. cbn [with_insts s_insts]. rewrite app_nth2 by lia. rewrite Nat.sub_diag. reflexivity. }
  rewrite Hme. unfold check_seq. cbn [check_seq_with check_instr drv_inst i_funcs nth_error]. rewrite Hn.
  rewrite prefixb_refl. rewrite skipn_all2 by (rewrite rev_length; lia). rewrite app_nil_r. reflexivity.
Qed.

(* ================================================================ non-vacuity *)
(* function 0: factorial by a loop in a block (br_if out, br back); function 1: direct call, host call, tee,
   i32 store read back by i64.load32_s, global, call_indirect through the table, a block with a parameter
   left by br_if with a value, br_table over nested blocks, memory.size; function 2 is a host function *)
Definition ex_fact : list tinstr :=
  [ TConst 32 1; TLocalSet 1;
    TBlock [] [] [ TLoop [] [] [ TLocalGet 0; TUn (UEqz 32); TBrIf 1;
                                 TLocalGet 1; TLocalGet 0; TBin (BInt 32 Mul); TLocalSet 1;
                                 TLocalGet 0; TConst 32 1; TBin (BInt 32 Sub); TLocalSet 0; TBr 0 ] ];
    TLocalGet 1 ].
Definition ex_main : list tinstr :=
  [ TConst 32 5; TCall 0;                                  (* 120 *)
    TCall 2;                                               (* host: 121 *)
    TLocalTee 0;
    TConst 32 16; TLocalGet 0; TStore 4 0; TDrop;
    TConst 32 16; TLoad 64 4 true 0;                       (* 121 as i64 *)
    TGlobalSet 0;
    TConst 32 7; TConst 32 0; TCallIndirect 0;             (* table[0] = factorial: 5040 *)
    TBlock [32] [32] [ TConst 32 1; TBin (BInt 32 Add); TLocalGet 0; TBrIf 0; TConst 32 2; TBin (BInt 32 Mul) ];
    TBlock [] [] [ TBlock [] [] [ TLocalGet 0; TBrTable [0; 1]%nat 1 ] ];
    TLocalGet 0; TIf [] [] [ TMemorySize; TDrop ] [ TConst 32 0; TConst 64 0; TReturn ];
    TGlobalGet 0 ].
Definition ex_T : tenv :=
  {| t_funcs := [ TFWasm 0 [32] [32] [32] ex_fact; TFWasm 0 [] [32; 64] [32] ex_main; TFHost 7 [32] [32] ];
     t_gt := [64]; t_nmems := 1 |}.
Definition ex_store : store Spec :=
  Build_store Spec (map erase_func (t_funcs ex_T))
     [ {| i_funcs := [0; 1; 2]%nat; i_globals := [0%nat]; i_mem := Some 0%nat; i_tab := Some 0%nat;
          i_types := [([32], [32])] |} ]
     [0]
     [ {| mlen := 65536; mmax := 2; mdata := [] |} ]
     [ [Some 0%nat; None; Some 2%nat] ] [].
Definition ex_host (h : nat) (a : list Z) : hostres Z := HRet (map (fun x => modN 32 (x + 1)) a).

Example ex_valid : valid_storeb ex_T ex_store = true.
Proof. vm_compute. reflexivity. Qed.

Example ex_store_ok : store_ok ex_T ex_store.
Proof. split; [reflexivity|vm_compute; reflexivity]. Qed.

Example ex_host_ok : host_ok ex_host ex_T.
Proof.
  intros fa h tp tr args Hn Ha. destruct fa as [|[|[|fa]]]; cbn in Hn; try discriminate; [|destruct fa; discriminate].
  inversion Hn; subst. inversion Ha as [|t x ts xs Hx Hr]; subst. inversion Hr; subst.
  cbn. constructor; [apply modN_range; lia|constructor].
Qed.

Example ex_runs :
  match snd (call_export Spec ex_host (fun _ => true) 10 2000 ex_store 1 []) with RVals vs => Some vs | _ => None end
  = Some [5041; 121].
Proof. vm_compute. reflexivity. Qed.

(* the soundness theorem applied: for EVERY fuel the call does not get stuck and returns an (i32, i64) pair *)
Example ex_sound fuel :
  result_ok [32; 64] (snd (call_export Spec ex_host (fun _ => true) 10 fuel ex_store 1 [])).
Proof.
  exact (proj2 (call_export_typed ex_host (fun _ => true) 10%nat ex_T ex_host_ok fuel ex_store 1%nat
                  (TFWasm 0 [] [32; 64] [32] ex_main) [] ex_store_ok eq_refl (Forall2_nil _))).
Qed.

(* the checker rejects ill-typed code: i32.add on i64 operands; a br that owes the label an i32; a call_indirect
   without a table index; an i64 result where an i32 is declared; dead code after br *)
Definition ex_me : inst := nth 0 (s_insts ex_store) dflt_inst.
Example ex_rejects :
  check_seq ex_T ex_me [] [] [[]] [TConst 64 1; TConst 64 2; TBin (BInt 32 Add)] (STy []) = None /\
  check_seq ex_T ex_me [] [] [[]] [TBlock [] [32] [TBr 0]] (STy []) = None /\
  check_seq ex_T ex_me [] [] [[]] [TConst 32 7; TCallIndirect 0] (STy []) = None /\
  func_okb ex_T (s_insts ex_store) (TFWasm 0 [] [32] [] [TConst 64 1]) = false /\
  check_seq ex_T ex_me [] [] [[]] [TBr 0; TNop] (STy []) = None /\
  (* ... and accepts the well-typed variants *)
  check_seq ex_T ex_me [] [] [[]] [TConst 32 1; TConst 32 2; TBin (BInt 32 Add)] (STy []) = Some (STy [32]) /\
  check_seq ex_T ex_me [] [] [[]] [TBlock [] [32] [TConst 32 3; TBr 0]] (STy []) = Some (STy [32]) /\
  check_seq ex_T ex_me [] [] [[]] [TBr 0] (STy []) = Some SBot.
Proof. vm_compute. repeat split. Qed.

(* an untyped run of an ill-typed program does reach TStuck (what the theorems exclude) *)
Example ex_stuck_without_types :
  match exec Spec ex_host (fun _ => false) 10 100 0 0 ex_store (Build_frame Spec [] []) [Const 32 1; Bin (BInt 32 Add)] with
  | Trap TStuck _ => true | _ => false end = true.
Proof. vm_compute. reflexivity. Qed.

(* ================================================================ statements used by Properties/C03.v *)
Theorem validated_no_stuck :
  forall (T : tenv) (host : nat -> list Z -> hostres Z) (listened : nat -> bool) (maxdepth : nat)
         (s : store Spec) (calls : list (nat * list Z)) (fuel : nat),
  s_funcs s = map erase_func (t_funcs T) -> store_okb T s = true ->
  (forall fa h tp tr args, nth_error (t_funcs T) fa = Some (TFHost h tp tr) ->
     Forall2 (fun w v => 0 <= v < 2 ^ w) tp args ->
     match host h args with
     | HRet vs => Forall2 (fun w v => 0 <= v < 2 ^ w) tr vs
     | HReenter g gargs =>
         exists gi gtp gtl gb, nth_error (t_funcs T) g = Some (TFWasm gi gtp tr gtl gb) /\
                               Forall2 (fun w v => 0 <= v < 2 ^ w) gtp gargs
     | _ => True
     end) ->
  Forall (fun c => exists fd, nth_error (t_funcs T) (fst c) = Some fd /\
                              Forall2 (fun w v => 0 <= v < 2 ^ w) (fst (tsig fd)) (snd c)) calls ->
  let r := run_calls Spec host listened maxdepth fuel s calls in
  ~ In (RTrap TStuck) (snd r) /\
  s_funcs (fst r) = map erase_func (t_funcs T) /\ store_okb T (fst r) = true.
Proof.
  intros T host listened maxdepth s calls fuel Hf Hb Hhost Hcalls r.
  destruct (run_calls_typed host listened maxdepth T Hhost fuel calls s (conj Hf Hb) Hcalls) as [H1 H2].
  fold r in H1, H2. split; [|exact H1].
  intros Hin. rewrite Forall_forall in H2. exact (H2 _ Hin eq_refl).
Qed.

Theorem validated_call_typed :
  forall (T : tenv) (host : nat -> list Z -> hostres Z) (listened : nat -> bool) (maxdepth : nat),
  host_ok host T ->
  forall fuel (s : store Spec) fa fd args,
  store_ok T s -> nth_error (t_funcs T) fa = Some fd -> Forall2 wfv (fst (tsig fd)) args ->
  store_ok T (fst (call_export Spec host listened maxdepth fuel s fa args)) /\
  match snd (call_export Spec host listened maxdepth fuel s fa args) with
  | RVals vs => Forall2 wfv (snd (tsig fd)) vs
  | RTrap t => t <> TStuck
  | RFuel => True
  end.
Proof. intros T host listened maxdepth Hh fuel s fa fd args. exact (call_export_typed host listened maxdepth T Hh fuel s fa fd args). Qed.
