(* Proofs about coq/Engine/Watcher.v (C07: the watcher goroutine as part of the state; which module's word a check reads). *)
From Coq Require Import List Arith Bool ZArith Lia.
From Verif Require Import Lib.GoInt Gen.GenC07Wasm Gen.GenC07Sys Engine.TermCheck Engine.TermHost Proofs.TermCheckP Proofs.TermHostP
  Engine.Watcher.
Import ListNotations.
Close Scope Z_scope.
Open Scope nat_scope.

Ltac splits := repeat match goal with |- _ /\ _ => split end.

(* ================================================================== A. the closed word only ever goes from 0 to non-zero *)
Lemma apply_cause_nz w c : apply_cause w c <> 0%Z.
Proof.
  destruct (Z.eq_dec w 0) as [->|H].
  - unfold apply_cause, set_exit_code. cbn [Z.eqb fst]. apply pack_nonzero. apply cause_flag_cases.
  - rewrite apply_closed by exact H. exact H.
Qed.

Lemma word_mono P E s e : word s <> 0%Z -> word (step P E s e) <> 0%Z.
Proof.
  intros H. destruct e as [k c|k|c r|k|code]; cbn [step].
  - destruct (calls s k); [|exact H|exact H]. destruct (cdone s c); cbn [word]; [exact H|apply apply_cause_nz|apply apply_cause_nz].
  - destruct (calls s k); cbn [word]; exact H.
  - destruct r; cbn [word]; exact H.
  - destruct (watch s k) as [|c| |]; try exact H. destruct (cdone s c); cbn [word]; [exact H|apply apply_cause_nz|apply apply_cause_nz].
  - cbn [word]. apply apply_cause_nz.
Qed.

Lemma word_mono_run P E evs : forall s, word s <> 0%Z -> word (run P E evs s) <> 0%Z.
Proof.
  induction evs as [|e r IH]; intros s H; [exact H|]. unfold run in *. cbn [fold_left]. apply IH. apply word_mono. exact H.
Qed.

(* a context that is done stays done, with the same error *)
Lemma cdone_mono P E s e c : cdone s c <> CtxLive -> cdone (step P E s e) c = cdone s c.
Proof.
  intros H. destruct e as [k c0|k|c0 r|k|code]; cbn [step].
  - destruct (calls s k); [|reflexivity|reflexivity]. destruct (cdone s c0); reflexivity.
  - destruct (calls s k); reflexivity.
  - destruct r; [reflexivity| |]; cbn [cdone]; destruct (cdone s c); try contradiction; reflexivity.
  - destruct (watch s k) as [|c1| |]; try reflexivity. destruct (cdone s c1); reflexivity.
  - reflexivity.
Qed.

(* ================================================================== B. PerCall: the invariant *)
(* every in-flight call has its own goroutine: listening to the call's context, or it has fired (and then the context
   was done and the word is set) *)
Definition inv (s : wst) : Prop :=
  forall k c, calls s k = CIn c ->
    watch s k = WListen c \/ (watch s k = WFired /\ word s <> 0%Z /\ cdone s c <> CtxLive).

Lemma inv_init : inv init.
Proof. intros k c H. discriminate H. Qed.

Lemma upd_eq {A} (f : nat -> A) k v : upd f k v k = v.
Proof. unfold upd. rewrite Nat.eqb_refl. reflexivity. Qed.
Lemma upd_neq {A} (f : nat -> A) k v x : x <> k -> upd f k v x = f x.
Proof. intros H. unfold upd. destruct (Nat.eqb_spec x k); [contradiction|reflexivity]. Qed.

Lemma inv_step E s e : inv s -> inv (step PerCall E s e).
Proof.
  intros I. destruct e as [k0 c0|k0|c0 r|k0|code]; cbn [step].
  - destruct (calls s k0) eqn:Ek0; [|exact I|exact I].
    destruct (cdone s c0) eqn:Ed.
    + intros k c. cbn [calls watch word cdone]. destruct (Nat.eq_dec k k0) as [->|N].
      * rewrite !upd_eq. intros H. injection H as <-. left. reflexivity.
      * rewrite !upd_neq by exact N. apply I.
    + intros k c. cbn [calls watch word cdone]. destruct (Nat.eq_dec k k0) as [->|N].
      * rewrite upd_eq. discriminate.
      * rewrite upd_neq by exact N. intros H. destruct (I k c H) as [L|(F & _ & D)]; [left; exact L|right].
        splits; [exact F|apply apply_cause_nz|exact D].
    + intros k c. cbn [calls watch word cdone]. destruct (Nat.eq_dec k k0) as [->|N].
      * rewrite upd_eq. discriminate.
      * rewrite upd_neq by exact N. intros H. destruct (I k c H) as [L|(F & _ & D)]; [left; exact L|right].
        splits; [exact F|apply apply_cause_nz|exact D].
  - destruct (calls s k0) eqn:Ek0; [exact I| |exact I].
    intros k c'. cbn [calls watch word cdone]. destruct (Nat.eq_dec k k0) as [->|N].
    + rewrite upd_eq. discriminate.
    + rewrite !upd_neq by exact N. apply I.
  - destruct r; [exact I| |].
    + intros k c H. cbn [calls watch word cdone] in *. destruct (I k c H) as [L|(F & W & D)]; [left; exact L|right].
      splits; [exact F|exact W|]. destruct (cdone s c); [contradiction| |]; cbn [is_live andb]; discriminate.
    + intros k c H. cbn [calls watch word cdone] in *. destruct (I k c H) as [L|(F & W & D)]; [left; exact L|right].
      splits; [exact F|exact W|]. destruct (cdone s c); [contradiction| |]; cbn [is_live andb]; discriminate.
  - destruct (watch s k0) as [|c0| |] eqn:Ew; try exact I.
    destruct (cdone s c0) eqn:Ed; [exact I| |].
    + intros k c H. cbn [calls watch word cdone] in *. destruct (Nat.eq_dec k k0) as [->|N].
      * rewrite upd_eq. right. destruct (I k0 c H) as [L|(F & _)]; [|rewrite F in Ew; discriminate].
        rewrite L in Ew. injection Ew as ->. splits; [reflexivity|apply apply_cause_nz|rewrite Ed; discriminate].
      * rewrite upd_neq by exact N. destruct (I k c H) as [L|(F & _ & D)]; [left; exact L|right].
        splits; [exact F|apply apply_cause_nz|exact D].
    + intros k c H. cbn [calls watch word cdone] in *. destruct (Nat.eq_dec k k0) as [->|N].
      * rewrite upd_eq. right. destruct (I k0 c H) as [L|(F & _)]; [|rewrite F in Ew; discriminate].
        rewrite L in Ew. injection Ew as ->. splits; [reflexivity|apply apply_cause_nz|rewrite Ed; discriminate].
      * rewrite upd_neq by exact N. destruct (I k c H) as [L|(F & _ & D)]; [left; exact L|right].
        splits; [exact F|apply apply_cause_nz|exact D].
  - intros k c H. cbn [calls watch word cdone] in *. destruct (I k c H) as [L|(F & _ & D)]; [left; exact L|right].
    splits; [exact F|apply apply_cause_nz|exact D].
Qed.

Lemma inv_run E evs : forall s, inv s -> inv (run PerCall E evs s).
Proof.
  induction evs as [|e r IH]; intros s I; [exact I|]. unfold run in *. cbn [fold_left]. apply IH. apply inv_step. exact I.
Qed.

(* ================================================================== C. PerCall: the watcher's step, and "eventually" *)
(* call k is in flight with context c, its goroutine is listening and c is done: the goroutine's step is enabled *)
Definition armed (s : wst) (k c : nat) : Prop := calls s k = CIn c /\ watch s k = WListen c /\ cdone s c <> CtxLive.

Lemma watch_fires P E s k c : watch s k = WListen c -> cdone s c <> CtxLive ->
  let s' := step P E s (EWatch k) in
  word s' <> 0%Z /\ (word s = 0%Z -> fail_if_closed (word s') = Some (ctx_code (cdone s c)) /\ is_closed (word s') = true).
Proof.
  intros Ew Hd. cbn [step]. rewrite Ew. destruct (cdone s c) eqn:Ed; [contradiction| |]; cbn [word ctx_code].
  - split; [apply apply_cause_nz|]. intros ->. exact (apply_open Cancelled I).
  - split; [apply apply_cause_nz|]. intros ->. exact (apply_open DeadlinePassed I).
Qed.

(* no event except the return of k itself takes the enabled goroutine away *)
Lemma armed_step P E s k c e : armed s k c -> e <> EReturn k ->
  armed (step P E s e) k c \/ word (step P E s e) <> 0%Z.
Proof.
  intros (Hc & Hw & Hd) Ne.
  destruct e as [k0 c0|k0|c0 r|k0|code]; cbn [step].
  - destruct (Nat.eq_dec k0 k) as [->|N].
    + rewrite Hc. left. unfold armed. splits; assumption.
    + destruct (calls s k0); [|left; unfold armed; splits; assumption|left; unfold armed; splits; assumption].
      destruct (cdone s c0); [left|right; cbn [word]; apply apply_cause_nz|right; cbn [word]; apply apply_cause_nz].
      unfold armed. cbn [calls watch cdone]. rewrite !upd_neq by (intros X; apply N; symmetry; exact X). splits; assumption.
  - destruct (Nat.eq_dec k0 k) as [->|N]; [contradiction Ne; reflexivity|].
    destruct (calls s k0); [left; unfold armed; splits; assumption| |left; unfold armed; splits; assumption].
    left. unfold armed. cbn [calls watch cdone]. rewrite !upd_neq by (intros X; apply N; symmetry; exact X). splits; assumption.
  - left. destruct r; [unfold armed; splits; assumption| |]; unfold armed; cbn [calls watch cdone]; splits; try assumption;
      destruct (cdone s c); try contradiction; cbn [is_live andb]; discriminate.
  - destruct (watch s k0) as [|c1| |] eqn:Ew; try (left; unfold armed; splits; assumption).
    destruct (cdone s c1); [left; unfold armed; splits; assumption|right; cbn [word]; apply apply_cause_nz|right; cbn [word]; apply apply_cause_nz].
  - right. cbn [word]. apply apply_cause_nz.
Qed.

Lemma eventually_closed P E k c evs : forall s, armed s k c -> ~ In (EReturn k) evs -> In (EWatch k) evs ->
  word (run P E evs s) <> 0%Z.
Proof.
  induction evs as [|e r IH]; intros s A Nr Hin; [destruct Hin|].
  unfold run in *. cbn [fold_left].
  assert (Ne : e <> EReturn k) by (intros ->; apply Nr; left; reflexivity).
  assert (Nr' : ~ In (EReturn k) r) by (intros X; apply Nr; right; exact X).
  destruct Hin as [->|Hin].
  - apply (word_mono_run P E r). destruct A as (_ & Hw & Hd). apply (watch_fires P E s k c Hw Hd).
  - destruct (armed_step P E s k c e A Ne) as [A'|W]; [apply IH; assumption|apply (word_mono_run P E r); exact W].
Qed.

Lemma nz_closed w : w <> 0%Z -> is_closed w = true /\ exists code, fail_if_closed w = Some code.
Proof.
  intros H. split.
  - unfold is_closed. destruct (Z.eqb_spec w 0); [contradiction|reflexivity].
  - rewrite closed_some by exact H. eauto.
Qed.

(* ================================================================== D. the theorem *)
Lemma every_inflight_call_is_watched :
  forall (E : cenv) (evs : list event) (k c : nat),
    let s := run PerCall E evs init in
    calls s k = CIn c ->
    (watch s k = WListen c \/ (watch s k = WFired /\ word s <> 0%Z /\ cdone s c <> CtxLive)) /\
    (cdone s c <> CtxLive ->
       let s1 := step PerCall E s (EWatch k) in
       word s1 <> 0%Z /\
       (word s = 0%Z -> fail_if_closed (word s1) = Some (ctx_code (cdone s c)) /\ is_closed (word s1) = true)) /\
    (cdone s c <> CtxLive ->
       forall evs', ~ In (EReturn k) evs' -> In (EWatch k) evs' ->
         let s' := run PerCall E evs' s in
         word s' <> 0%Z /\ is_closed (word s') = true /\ exists code, fail_if_closed (word s') = Some code) /\
    unwatched_call s k = false.
Proof.
  intros E evs k c s Hc.
  assert (I : inv s) by (apply inv_run; exact inv_init).
  pose proof (I k c Hc) as Hk. splits.
  - exact Hk.
  - intros Hd. destruct Hk as [L|(F & W & _)].
    + apply (watch_fires PerCall E s k c L Hd).
    + split; [apply word_mono; exact W|intros Z0; contradiction].
  - intros Hd evs' Nr Hin.
    assert (W : word (run PerCall E evs' s) <> 0%Z).
    { destruct Hk as [L|(F & W & _)].
      - apply (eventually_closed PerCall E k c); [unfold armed; splits; assumption|exact Nr|exact Hin].
      - apply word_mono_run. exact W. }
    cbv zeta. split; [exact W|apply nz_closed; exact W].
  - unfold unwatched_call. rewrite Hc. destruct Hk as [L|(F & W & _)].
    + rewrite L. cbn [is_listening negb]. rewrite !andb_false_r. reflexivity.
    + destruct (Z.eqb_spec (word s) 0); [contradiction|]. rewrite andb_false_r. reflexivity.
Qed.

(* ================================================================== E. the seeded ownership rule *)
Lemma no_listener_no_write P E s : (forall k, is_listening (watch s k) = false) ->
  forall ks, run P E (map EWatch ks) s = s.
Proof.
  intros H ks. induction ks as [|k r IH]; [reflexivity|]. unfold run in *. cbn [map fold_left].
  replace (step P E s (EWatch k)) with s; [exact IH|].
  cbn [step]. specialize (H k). destruct (watch s k); try reflexivity. discriminate H.
Qed.

Lemma shared_watcher_without_refcount_refuted :
  (* the seeded schedule: same context *)
  (let s := run SharedNoRefcount env_std seeded_schedule init in
   calls s 1 = CIn 0 /\ cdone s 0 = CtxCanceled /\ word s = 0%Z /\ slot s = None /\
   (forall k, is_listening (watch s k) = false) /\
   (forall ks, word (run SharedNoRefcount env_std (map EWatch ks) s) = 0%Z) /\
   stranded SharedNoRefcount 2 seeded_schedule = [1%Z]) /\
  (* the same with a context.WithValue child (shares the Done channel) and a deadline *)
  (let s := run SharedNoRefcount env_std seeded_schedule_derived init in
   calls s 1 = CIn 1 /\ cdone s 1 = CtxDeadline /\ word s = 0%Z /\
   (forall k, is_listening (watch s k) = false) /\
   (forall ks, word (run SharedNoRefcount env_std (map EWatch ks) s) = 0%Z)) /\
  (* how specific the trigger is: looping call started first, or a WithCancel child (its own channel): watched *)
  stranded SharedNoRefcount 2 control_schedule = [] /\
  stranded SharedNoRefcount 2 [EEnter 0 0; EEnter 1 2; EReturn 0; EDone 0 CtxCanceled] = [] /\
  stranded SharedNoRefcount 2 [EEnter 0 0; EEnter 1 3; EReturn 0; EDone 3 CtxCanceled] = [] /\
  (* the code as it is, on the seeded schedules: the goroutine of call 1 is listening and its step closes the module *)
  (let s := run PerCall env_std seeded_schedule init in
   watch s 1 = WListen 0 /\ fail_if_closed (word (step PerCall env_std s (EWatch 1))) = Some ExitCodeContextCanceled) /\
  (let s := run PerCall env_std seeded_schedule_derived init in
   watch s 1 = WListen 1 /\ fail_if_closed (word (step PerCall env_std s (EWatch 1))) = Some ExitCodeDeadlineExceeded).
Proof.
  assert (L0 : forall k, is_listening (watch (run SharedNoRefcount env_std seeded_schedule init) k) = false).
  { intros k. destruct k as [|[|k]]; vm_compute; reflexivity. }
  assert (L1 : forall k, is_listening (watch (run SharedNoRefcount env_std seeded_schedule_derived init) k) = false).
  { intros k. destruct k as [|[|k]]; vm_compute; reflexivity. }
  cbv zeta. splits.
  all: try exact L0; try exact L1.
  all: try (intros ks; first [rewrite (no_listener_no_write _ _ _ L0)|rewrite (no_listener_no_write _ _ _ L1)]; vm_compute; reflexivity).
  all: vm_compute; reflexivity.
Qed.

(* ================================================================== F. which module's word a check reads *)
Lemma rev_repeat {A} (x : A) n : rev (repeat x n) = repeat x n.
Proof.
  induction n as [|n IH]; [reflexivity|]. cbn [repeat rev]. rewrite IH. symmetry. apply repeat_cons.
Qed.

Lemma caller_imported d : caller_mod (imported_chain d) = if d =? 0 then 0 else 1.
Proof.
  unfold caller_mod, imported_chain. cbn [rev]. rewrite rev_repeat. destruct d as [|d]; reflexivity.
Qed.

Lemma some_nz w : w <> 0%Z -> is_some (fail_if_closed w) = true.
Proof. intros H. rewrite closed_some by exact H. reflexivity. Qed.

Lemma check_module_selection :
  (forall chain w, w <> 0%Z -> check_observes SelEntry (entry_closed chain w) chain = true) /\
  (forall chain w, w <> 0%Z -> check_observes SelBoth (entry_closed chain w) chain = true) /\
  (forall chain w, w <> 0%Z ->
     check_observes SelCaller (entry_closed chain w) chain = (caller_mod chain =? entry_mod chain)) /\
  (forall d w, w <> 0%Z ->
     check_observes SelCaller (entry_closed (imported_chain d) w) (imported_chain d) = (d =? 0)) /\
  check_observes SelCaller (entry_closed [0; 1; 1] (apply_cause 0%Z Cancelled)) [0; 1; 1] = false /\
  check_observes SelEntry (entry_closed [0; 1; 1] (apply_cause 0%Z Cancelled)) [0; 1; 1] = true /\
  check_observes SelBoth (entry_closed [0; 1; 1] (apply_cause 0%Z Cancelled)) [0; 1; 1] = true.
Proof.
  assert (HE : forall chain w, w <> 0%Z -> is_some (fail_if_closed (entry_closed chain w (entry_mod chain))) = true).
  { intros chain w H. unfold entry_closed. rewrite Nat.eqb_refl. apply some_nz. exact H. }
  assert (HC : forall chain w, w <> 0%Z ->
            check_observes SelCaller (entry_closed chain w) chain = (caller_mod chain =? entry_mod chain)).
  { intros chain w H. unfold check_observes, check_reads. cbn [existsb]. rewrite orb_false_r. unfold entry_closed.
    destruct (caller_mod chain =? entry_mod chain); [apply some_nz; exact H|reflexivity]. }
  splits.
  - intros chain w H. unfold check_observes, check_reads. cbn [existsb]. rewrite HE by exact H. reflexivity.
  - intros chain w H. unfold check_observes, check_reads. cbn [existsb]. rewrite HE by exact H. reflexivity.
  - exact HC.
  - intros d w H. rewrite HC by exact H. rewrite caller_imported. destruct d; reflexivity.
  - vm_compute. reflexivity.
  - vm_compute. reflexivity.
  - vm_compute. reflexivity.
Qed.

(* ================================================================== G. examples (non-vacuity) *)
(* three concurrent calls with a shared, a derived and a distinct context; the parent is cancelled, the watcher of call 1
   runs: every call is in flight, the hypotheses of the theorem hold for calls 0 and 1, the word carries the code *)
Example watched_instance :
  let evs := [EEnter 0 0; EEnter 1 2; EEnter 2 3; EDone 0 CtxCanceled] in
  let s := run PerCall env_std evs init in
  calls s 0 = CIn 0 /\ calls s 1 = CIn 2 /\ calls s 2 = CIn 3 /\
  cdone s 0 = CtxCanceled /\ cdone s 2 = CtxCanceled /\ cdone s 3 = CtxLive /\
  watch s 1 = WListen 2 /\ word s = 0%Z /\
  fail_if_closed (word (run PerCall env_std [EReturn 0; EWatch 1] s)) = Some ExitCodeContextCanceled /\
  stranded PerCall 3 evs = [].
Proof. vm_compute. splits; reflexivity. Qed.

Example sibmismatches_instance :
  sibmismatches 0 [{| sb_calls := 2; sb_events := seeded_schedule |}; {| sb_calls := 2; sb_events := control_schedule |}]
  = [100001%Z].
Proof. vm_compute. reflexivity. Qed.

Example imismatches_instance :
  imismatches SelCaller 0 [(0, true); (1, false); (2, false)] = [] /\
  imismatches SelEntry 0 [(0, true); (1, true); (2, true)] = [] /\
  imismatches SelCaller 0 [(0, true); (1, true); (2, true)] = [1%Z; 2%Z].
Proof. vm_compute. splits; reflexivity. Qed.
